import GoldModel.Lemmas.LexerStep
/-!
Helper lemmas for C05 (M-LEX), part 3: the whole loop.

* `trueLineCol` — the specification of a position: number of line feeds before the offset, and
  number of chars after the last of them;
* `lcOf_recNl` — `create_range` computes exactly that when `line_pos` holds every line feed
  seen so far;
* `Run` — a declarative description of a lexer run (blank chars, then a lexeme carrying a token
  or a one-char error, repeated); `lexLoop_run` shows the model's loop produces such a run, and
  `lexLoop_fuel` that the fuel is adequate.
-/
namespace Gold.Lex

/-- the true line and column of char index `off` in `src`: number of `\n` before it, and number
    of chars between the last of them (or the start of the text) and `off` -/
def trueLineCol (src : List Char) (off : Nat) : Pos :=
  ⟨(src.take off).count '\n', ((src.take off).reverse.takeWhile (fun c => c != '\n')).length⟩

/-- `lp` is `line_pos` for the consumed prefix `pre` -/
def LpOk (pre : List Char) (lp : List Nat) : Prop :=
  lp.length = pre.count '\n' ∧
  (match lp with | [] => 0 | p :: _ => p + 1) + (pre.reverse.takeWhile (fun c => c != '\n')).length = pre.length

theorem lpOk_nil : LpOk [] [] := by simp [LpOk]

theorem lpOk_snoc (pre : List Char) (lp : List Nat) (c : Char) (h : LpOk pre lp) :
    LpOk (pre ++ [c]) (if c = '\n' then pre.length :: lp else lp) := by
  obtain ⟨h1, h2⟩ := h
  by_cases hc : c = '\n'
  · subst hc
    simp only [if_true, LpOk, List.length_cons, List.count_append, List.reverse_append,
      List.reverse_cons, List.reverse_nil, List.nil_append, List.cons_append, List.length_append,
      List.length_nil]
    constructor
    · simp [h1]
    · simp
  · simp only [hc, if_false, LpOk, List.count_append, List.reverse_append, List.reverse_cons,
      List.reverse_nil, List.nil_append, List.cons_append, List.length_append, List.length_cons,
      List.length_nil]
    constructor
    · simp [h1, hc]
    · have : (c != '\n') = true := by simp [hc]
      simp only [List.takeWhile_cons, this, if_true, List.length_cons]
      omega

theorem lpOk_recNl (pre : List Char) (lp : List Nat) (m : List Char) (h : LpOk pre lp) :
    LpOk (pre ++ m) (recNl pre.length lp m) := by
  induction m generalizing pre lp with
  | nil => simpa [recNl] using h
  | cons c m ih =>
    have := ih (pre ++ [c]) _ (lpOk_snoc pre lp c h)
    simpa [recNl] using this

theorem lcOf_recNl (pre : List Char) :
    lcOf (recNl 0 [] pre) pre.length
      = ⟨pre.count '\n', (pre.reverse.takeWhile (fun c => c != '\n')).length⟩ := by
  have h := lpOk_recNl [] [] pre lpOk_nil
  simp only [List.nil_append, List.length_nil] at h
  obtain ⟨h1, h2⟩ := h
  generalize recNl 0 [] pre = lp at h1 h2 ⊢
  cases lp with
  | nil => simp only [lcOf, h1, Pos.mk.injEq, true_and]; simp only at h2; omega
  | cons p lp => simp only [lcOf, h1, Pos.mk.injEq, true_and]; simp only at h2; omega

theorem lcOf_true (src pre rest : List Char) (h : src = pre ++ rest) :
    lcOf (recNl 0 [] pre) pre.length = trueLineCol src pre.length := by
  subst h
  simp only [trueLineCol, List.take_left']
  exact lcOf_recNl pre

/-- a declarative lexer run over `src`, started after the consumed prefix `pre` -/
inductive Run (upper : String → String) (src : List Char) : List Char → List Token → List LexErr → Prop
  | done (pre ws : List Char) (hws : ∀ c ∈ ws, isBlank c) (hsrc : src = pre ++ ws) : Run upper src pre [] []
  | tok (pre ws lexeme rest : List Char) (t : Token) (ts : List Token) (es : List LexErr)
      (hws : ∀ c ∈ ws, isBlank c) (hsrc : src = pre ++ ws ++ lexeme ++ rest) (hne : lexeme ≠ [])
      (ht : TokFacts upper (pre ++ ws).length (recNl 0 [] (pre ++ ws)) lexeme t)
      (hext : t.extent = specExtent (lexeme ++ rest) t.value)
      (hrun : Run upper src (pre ++ ws ++ lexeme) ts es) : Run upper src pre (t :: ts) es
  | err (pre ws : List Char) (c : Char) (rest : List Char) (e : LexErr) (ts : List Token) (es : List LexErr)
      (hws : ∀ c ∈ ws, isBlank c) (hsrc : src = pre ++ ws ++ [c] ++ rest) (hc : ¬ isBlank c)
      (he : e = mkErr (recNl 0 [] (pre ++ ws)) (pre ++ ws).length)
      (hrun : Run upper src (pre ++ ws ++ [c]) ts es) : Run upper src pre ts (e :: es)

theorem lexLoop_run (upper : String → String) (src : List Char) :
    ∀ (fuel : Nat) (pre l : List Char), l.length < fuel → src = pre ++ l →
      Run upper src pre (lexLoop upper true fuel l pre.length (recNl 0 [] pre)).1
        (lexLoop upper true fuel l pre.length (recNl 0 [] pre)).2 := by
  intro fuel
  induction fuel with
  | zero => intro pre l hl; omega
  | succ fuel ih =>
    intro pre l hl hsrc
    obtain ⟨ws, h1, h2, h3, h4, h5⟩ := skipWs_spec l pre.length (recNl 0 [] pre)
    simp only [lexLoop]
    generalize skipWs l pre.length (recNl 0 [] pre) = s at *
    obtain ⟨l1, off1, lp1⟩ := s
    simp only at h1 h3 h4 h5 ⊢
    have hoff : off1 = (pre ++ ws).length := by simp [h3]
    have hlp : lp1 = recNl 0 [] (pre ++ ws) := by rw [h4, recNl_append]; simp
    cases l1 with
    | nil => exact Run.done pre ws h2 (by simp [hsrc, h1])
    | cons c r =>
      simp only
      have hc := h5 c r rfl
      obtain ⟨lexeme, ok⟩ := readItem_spec upper c r off1 lp1 hc
      generalize readItem upper true c r off1 lp1 = st at ok ⊢
      have hsrc' : src = pre ++ ws ++ lexeme ++ st.rest := by
        rw [hsrc, h1, ok.decomp]; simp
      have hlen : st.rest.length < fuel := by
        have : l.length = ws.length + lexeme.length + st.rest.length := by
          rw [h1, ok.decomp]; simp; omega
        have : 0 < lexeme.length := List.length_pos_iff.mpr ok.nonempty
        omega
      have hoff' : st.off = (pre ++ ws ++ lexeme).length := by
        rw [ok.off_eq, hoff]; simp only [List.length_append]
      have hlp' : st.lp = recNl 0 [] (pre ++ ws ++ lexeme) := by
        have := recNl_append 0 [] (pre ++ ws) lexeme
        simp only [Nat.zero_add] at this
        rw [ok.lp_eq, hlp, hoff, this]
      have hrun := ih (pre ++ ws ++ lexeme) st.rest hlen hsrc'
      rw [← hoff', ← hlp'] at hrun
      cases hitem : st.item with
      | inl t =>
        simp only
        have ht := ok.tok t hitem
        rw [hoff, hlp] at ht
        have hext := ok.ext_spec t hitem
        rw [ok.decomp] at hext
        exact Run.tok pre ws lexeme st.rest t _ _ h2 hsrc' ok.nonempty ht hext hrun
      | inr e =>
        simp only
        obtain ⟨hl1, he⟩ := ok.err e hitem
        subst hl1
        rw [hoff, hlp] at he
        exact Run.err pre ws c st.rest e _ _ h2 hsrc' hc he hrun

end Gold.Lex
