import GoldModel.Lemmas.RangeInvStmt
/-!
T5, the Gold grammar, part 5: `switch`, `repeat`, and `if` (the fold over the events of an if block).
-/
namespace Gold.C08
open Gold Gold.Peg Gold.Gram

variable {Z : Pos} {F : Nat}

/-! ## lists of events: only monotonicity and `lo ≤ hi` are available -/

structure Mon (Q : Post) : Prop where
  mono : ∀ {lo hi lo' hi' v}, Q lo hi v → lo'.le lo = true → hi.le hi' = true → Q lo' hi' v
  le : ∀ {lo hi v}, Q lo hi v → lo.le hi = true

theorem PListL.le' {Q : Post} (hQ : Mon Q) : ∀ {l : List Tree} {lo hi : Pos}, PListL Q lo hi l → lo.le hi = true
  | [], _, _, h => h
  | _ :: _, _, _, ⟨_, h1, h2⟩ => Pos.le_trans (hQ.le h1) (PListL.le' hQ h2)

theorem PListL.mono_lo' {Q : Post} (hQ : Mon Q) : ∀ {l : List Tree} {lo hi lo' : Pos}, PListL Q lo hi l → lo'.le lo = true →
    PListL Q lo' hi l
  | [], _, _, _, h, h1 => Pos.le_trans h1 h
  | _ :: _, _, _, _, ⟨m, h2, h3⟩, h1 => ⟨m, hQ.mono h2 h1 (Pos.le_refl _), h3⟩

theorem PListL.mono_hi' {Q : Post} (hQ : Mon Q) : ∀ {l : List Tree} {lo hi hi' : Pos}, PListL Q lo hi l → hi.le hi' = true →
    PListL Q lo hi' l
  | [], _, _, _, h, h1 => Pos.le_trans h h1
  | _ :: _, _, _, _, ⟨m, h2, h3⟩, h1 => ⟨m, h2, PListL.mono_hi' hQ h3 h1⟩

theorem mon_event : Mon (PEvent Z) where
  mono h h1 h2 := by
    rcases h with h | h | ⟨t, c, rfl, _, e, x, _, m1, e1, hx, y, _, m2, e2, hy, e3, he⟩ | ⟨rfl, h⟩
    · exact Or.inl (good_real.mono h h1 h2)
    · exact Or.inr (Or.inl (good_leaf.mono h h1 h2))
    · refine Or.inr (Or.inr (Or.inl ⟨t, c, rfl, _, e, x, _, m1, e1, good_leaf.mono hx h1 (Pos.le_refl _), y, _, m2, e2, hy, e3,
        Pos.le_trans he h2⟩))
    · exact Or.inr (Or.inr (Or.inr ⟨rfl, Pos.le_trans h1 (Pos.le_trans h h2)⟩))
  le h := by
    rcases h with h | h | ⟨_, _, _, _, _, h⟩ | ⟨_, h⟩
    · exact h.le
    · exact h.le
    · exact PSeqL.le_all (by intro Q hQ; simp at hQ; rcases hQ with rfl | rfl <;> exact fun _ _ _ h => h.le) h
    · exact h

abbrev PEvents (Z : Pos) : Post := PList (PEvent Z)

/-! ## the fold of `parse_if_block` -/

theorem NodeOKL.mem : ∀ {l : List Tree}, NodeOKL Z l → ∀ x ∈ l, NodeOK Z x
  | [], _, _, h => by cases h
  | _ :: _, h, x, hx => by
    rcases List.mem_cons.mp hx with rfl | hx
    · exact h.head.1
    · exact NodeOKL.mem h.head.2 x hx

structure IfInv (Z S : Pos) (acc : IfAcc) (pos : Pos) : Prop where
  done : NodeOKL Z acc.done
  raw_ok : acc.curRaw.ok = true
  raw_line : acc.curRaw.e.line ≤ Z.line
  raw_pos : acc.curRaw.s.le pos = true
  cond : ∀ c, acc.cond = some c → NodeOK Z c ∧ acc.curRaw.s.le c.rng.s = true
  stmts : NodeOKL Z acc.stmts
  stmts_pos : ∀ s ∈ acc.stmts, acc.curRaw.s.le s.rng.s = true
  endTok : ∀ e, acc.endTok = some e → NodeOK Z e ∧ S.le e.rng.s = true

theorem updRange_ok {S : Pos} {acc : IfAcc} {pos : Pos} (h : IfInv Z S acc pos) :
    (updRange acc.curRaw acc.cond acc.stmts).s = acc.curRaw.s ∧ (updRange acc.curRaw acc.cond acc.stmts).ok = true ∧
      (updRange acc.curRaw acc.cond acc.stmts).e.line ≤ Z.line := by
  unfold updRange
  cases hg : acc.stmts.getLast? with
  | some s =>
    have hm := List.mem_of_getLast? hg
    have ho := (NodeOKL.mem h.stmts s hm).rng
    exact ⟨rfl, Pos.le_trans (h.stmts_pos s hm) ho.1, ho.2⟩
  | none =>
    cases hcnd : acc.cond with
    | some c =>
      obtain ⟨h1, h2⟩ := h.cond c hcnd
      exact ⟨rfl, Pos.le_trans h2 h1.rng.1, h1.rng.2⟩
    | none => exact ⟨rfl, h.raw_ok, h.raw_line⟩

theorem closeBlock_ok {S : Pos} {acc : IfAcc} {pos : Pos} (h : IfInv Z S acc pos) :
    NodeOK Z (condBlock (updRange acc.curRaw acc.cond acc.stmts) acc.cond acc.stmts) := by
  obtain ⟨_, h2, h3⟩ := updRange_ok h
  exact condBlock_ok h2 h3 (fun c hc => (h.cond c hc).1) h.stmts

theorem ifFold_stmt (acc : IfAcc) {v : Tree} (h1 : v.tok? = none) (h2 : groupKinds.contains v.kind = false) :
    ifFold acc v = { acc with stmts := acc.stmts ++ [v] } := by
  cases v with
  | leaf t => cases h1
  | node k i r s a kids =>
    unfold ifFold
    split
    · next heq => cases heq
    · next heq =>
      cases heq
      have : groupKinds.contains "#seq" = false := h2
      exact absurd this (by decide)
    · next heq =>
      cases heq
      have : groupKinds.contains "#noend" = false := h2
      exact absurd this (by decide)
    · rfl

theorem ifFold_inv {S : Pos} {acc : IfAcc} {p p' : Pos} {ev : Tree} (h : IfInv Z S acc p) (hS : S.le p = true)
    (hev : PEvent Z p p' ev) : IfInv Z S (ifFold acc ev) p' := by
  rcases hev with hev | ⟨t, rfl, a, b, c, d⟩ | ⟨t, cnd, rfl, _, e, x, _, m1, e1, ⟨t', ex, a, b, c, d⟩, y, _, m2, e2, hy, e3, he⟩ | ⟨rfl, hle⟩
  · -- a statement
    rw [ifFold_stmt acc hev.2 hev.1.2.2.2]
    have f := hev.facts
    exact { done := h.done, raw_ok := h.raw_ok, raw_line := h.raw_line,
            raw_pos := Pos.le_trans h.raw_pos hev.le, cond := h.cond,
            stmts := NodeOKL.append h.stmts (NodeOKL.one hev.ok),
            stmts_pos := fun s hs => by
              rcases List.mem_append.mp hs with hs | hs
              · exact h.stmts_pos s hs
              · rw [List.mem_singleton.mp hs]; exact Pos.le_trans h.raw_pos f.1,
            endTok := h.endTok }
  · -- `else` / `endif` / `end`
    obtain ⟨u1, u2, u3⟩ := updRange_ok h
    have tOK : NodeOK Z (Tree.leaf t) := ⟨b.1, d⟩
    simp only [ifFold]
    split
    · exact { done := h.done, raw_ok := u2, raw_line := u3,
              raw_pos := by rw [u1]; exact Pos.le_trans h.raw_pos (Pos.le_trans a c.1),
              cond := fun c' hc' => by rw [u1]; exact h.cond c' hc',
              stmts := h.stmts, stmts_pos := fun s hs => by rw [u1]; exact h.stmts_pos s hs,
              endTok := fun e he => by
                simp only [Option.some.injEq] at he
                subst he
                exact ⟨tOK, Pos.le_trans hS a⟩ }
    · exact { done := NodeOKL.append h.done (NodeOKL.one (closeBlock_ok h)), raw_ok := b.1, raw_line := d,
              raw_pos := c.1,
              cond := fun c' hc' => (by cases hc'),
              stmts := NodeOKL.nil, stmts_pos := fun s hs => (by cases hs),
              endTok := h.endTok }
  · -- `elseif cond`
    cases e; cases e1; cases e2; cases e3; cases ex
    show IfInv Z S { acc with done := acc.done ++ [condBlock (updRange acc.curRaw acc.cond acc.stmts) acc.cond acc.stmts],
                              curTok := t.rng, curRaw := t.rng, cond := some cnd, stmts := [] } p'
    have fy := hy.facts
    exact { done := NodeOKL.append h.done (NodeOKL.one (closeBlock_ok h)), raw_ok := b.1, raw_line := d,
            raw_pos := by
              have := hy.le
              exact Pos.le_trans c.1 (Pos.le_trans this he),
            cond := fun c' hc' => by
              simp only [Option.some.injEq] at hc'
              subst hc'
              exact ⟨hy.ok, Pos.le_trans c.1 fy.1⟩,
            stmts := NodeOKL.nil, stmts_pos := fun s hs => (by cases hs),
            endTok := h.endTok }
  · -- no end token found
    show IfInv Z S acc p'
    exact { h with raw_pos := Pos.le_trans h.raw_pos hle }

theorem foldl_inv {S : Pos} {evs : List Tree} : ∀ {acc : IfAcc} {p hi : Pos}, PListL (PEvent Z) p hi evs → IfInv Z S acc p →
    S.le p = true → IfInv Z S (evs.foldl ifFold acc) hi := by
  induction evs with
  | nil => intro acc p hi hl h _; exact { h with raw_pos := Pos.le_trans h.raw_pos hl }
  | cons ev rest ih =>
    intro acc p hi hl h hS
    obtain ⟨m, h1, h2⟩ := hl
    exact ih h2 (ifFold_inv h hS h1) (Pos.le_trans hS (mon_event.le h1))

section
variable (hc : Ctx Γ Δ Z (QΓ Z) (QΔ Z) F)
include hc

theorem r_ifLoop : Der Γ Δ Z F (.ref nIfLoop) (PEvents Z) := hc.1 nIfLoop

theorem d_gIf : Der Γ Δ Z F gIf (PReal Z) := by
  unfold gIf
  refine Der.map (Der.emit (Q := PSeqN [PLeaf Z, PReal Z, PEvents Z]) ?_ ?_) ?_
  · der_seq
    · exact Der.tok _
    · exact r_expr hc
    · exact r_ifLoop hc
  · rintro lo hi v d ⟨_, rfl, v0, _, m1, rfl, h0, v1, _, m2, rfl, h1, v2, _, m3, rfl, h2, rfl, hend⟩ hhi hd
    simp only [nth_seq, List.getElem?_cons_zero, List.getElem?_cons_succ, Option.getD_some] at hd
    by_cases hb : (v2.kids.any fun e => e.kind == "#noend") = true
    · simp only [hb, ↓reduceIte, Option.some.injEq] at hd
      subst hd
      exact h0.ok.rng
    · simp [hb] at hd
  · rintro lo hi v ⟨_, rfl, v0, _, m1, rfl, h0, v1, _, m2, rfl, h1, v2, _, m3, rfl, ⟨l, rfl, hl⟩, rfl, hend⟩
    shape_simp
    have f0 := h0.facts; have f1 := h1.facts
    have hinit : IfInv Z v0.rng.s
        { curTok := v0.rng, curRaw := Range.span v0.rng v0.rng, cond := some v1 } m2 :=
      { done := NodeOKL.nil, raw_ok := f0.2.2.1, raw_line := f0.2.2.2.1, raw_pos := by simp only [Range.span]; pos_chain,
        cond := fun c hc' => by
          simp only [Option.some.injEq] at hc'
          subst hc'
          exact ⟨h1.ok, by simp only [Range.span]; pos_chain⟩,
        stmts := NodeOKL.nil, stmts_pos := fun s hs => (by cases hs),
        endTok := fun e he => (by cases he) }
    have hfin := foldl_inv hl hinit (by pos_chain)
    generalize List.foldl ifFold { curTok := v0.rng, curRaw := Range.span v0.rng v0.rng, cond := some v1 } l = acc at hfin ⊢
    have hblocks : NodeOKL Z (acc.done ++ [condBlock acc.curRaw acc.cond acc.stmts]) :=
      NodeOKL.append hfin.done (NodeOKL.one (condBlock_ok hfin.raw_ok hfin.raw_line (fun c hc' => (hfin.cond c hc').1) hfin.stmts))
    have eL := PListL.le' mon_event hl
    cases he : acc.endTok with
    | none =>
      simp only []
      exact span_real (by decide) (by decide) h0.item (by pos_chain) h1.ok (by pos_chain) hblocks
    | some e =>
      simp only []
      obtain ⟨e1, e2⟩ := hfin.endTok e he
      exact span_real_r (a := v0) (r := e.rng) (by decide) (by decide) h0.item (by pos_chain) e1.rng.1 e1.rng.2 e2 hblocks

theorem d_gIfLoop : Der Γ Δ Z F gIfLoop (PEvents Z) :=
  Der.ifEof ((Der.eps _).weaken (fun _ _ _ h => ⟨[], h.1, h.2⟩)) (hc.1 nIfUntil)

/-- value of the `elseif` branch: `#list (#seq [cond] :: events)` -/
def PElseIf (Z : Pos) : Post := fun lo hi v =>
  ∃ c l m, v = Tree.list (Tree.seq [c] :: l) ∧ PReal Z lo m c ∧ PListL (PEvent Z) m hi l

theorem d_gIfUntil : Der Γ Δ Z F gIfUntil (PEvents Z) := by
  unfold gIfUntil
  refine Der.ifEof ((Der.eps _).weaken ?eof)
    (Der.map (Q := POr (PSeqN [PLeaf Z, PElseIf Z]) (PEvents Z)) (Der.ifTok (Qa := PElseIf Z) ?dA ?d2) ?f1)
  case eof =>
    rintro lo hi v ⟨rfl, h⟩
    exact ⟨[noEnd], rfl, hi, Or.inr (Or.inr (Or.inr ⟨rfl, h⟩)), Pos.le_refl _⟩
  case dA =>
    refine Der.map (Der.seq (r_expr hc) (r_ifLoop hc)) ?_
    rintro lo hi v ⟨_, rfl, c, _, m1, rfl, hcnd, evs, _, m2, rfl, ⟨l, rfl, hl⟩, rfl, hend⟩
    shape_simp
    exact ⟨c, l, m1, rfl, hcnd, hl.mono_hi' mon_event hend⟩
  case f1 =>
    rintro lo hi v (⟨_, rfl, tk, _, m1, rfl, htk, w, _, m2, rfl, ⟨c, l, m, rfl, hcnd, hl⟩, rfl, hend⟩ | h)
    · shape_simp
      simp only [List.drop_succ_cons, List.drop_zero]
      obtain ⟨t, rfl, a, b, cc, d⟩ := htk
      refine ⟨_, rfl, m, Or.inr (Or.inr (Or.inl ⟨t, c, rfl, _, rfl, _, _, m1, rfl, ⟨t, rfl, a, b, cc, d⟩, c, _, m, rfl, hcnd, rfl,
        Pos.le_refl _⟩)), hl.mono_hi' mon_event hend⟩
    · obtain ⟨l, rfl, hl⟩ := h
      shape_simp
      exact ⟨l, rfl, hl⟩
  case d2 =>
    refine Der.map (Q := POr (PSeqN [PLeaf Z, PEvents Z]) (PEvents Z)) (Der.ifTok (r_ifLoop hc) ?d3) ?f2
    case f2 =>
      rintro lo hi v (⟨_, rfl, tk, _, m1, rfl, htk, w, _, m2, rfl, ⟨l, rfl, hl⟩, rfl, hend⟩ | ⟨l, rfl, hl⟩)
      · shape_simp
        exact ⟨_, rfl, m1, Or.inr (Or.inl htk), hl.mono_hi' mon_event hend⟩
      · shape_simp
        exact ⟨l, rfl, hl⟩
    case d3 =>
      refine Der.map (Q := POr (PSeqN [PLeaf Z, fun lo hi v => v = Tree.none ∧ lo.le hi = true]) (PEvents Z))
        (Der.ifTok (Der.eps _) ?d4) ?f3
      case f3 =>
        rintro lo hi v (⟨_, rfl, tk, _, m1, rfl, htk, w, _, m2, rfl, ⟨rfl, hle⟩, rfl, hend⟩ | ⟨l, rfl, hl⟩)
        · shape_simp
          exact ⟨_, rfl, m1, Or.inr (Or.inl htk), Pos.le_trans hle hend⟩
        · shape_simp
          exact ⟨l, rfl, hl⟩
      case d4 =>
        refine Der.map (Der.seq (Der.recover (r_statement hc)) (hc.1 nIfUntil)) ?_
        rintro lo hi v ⟨_, rfl, x, _, m1, rfl, hx, tl, _, m2, rfl, ⟨l, rfl, hl⟩, rfl, hend⟩
        have hl' := hl.mono_hi' mon_event hend
        rcases hx with ⟨rfl, hle⟩ | hx
        · shape_simp
          exact ⟨l, rfl, hl'.mono_lo' mon_event hle⟩
        · shape_simp [hx.1.isNone]
          exact ⟨_, rfl, m1, Or.inl hx, hl'⟩

end

end Gold.C08
