import GoldModel.Lemmas.PegMono
/-! T3: the length-keyed memo tables are invisible -/
namespace Gold.Peg
open Gold

/-- the suffix of `base` of length `l` -/
def sfx (base : List Tok) (l : Nat) : List Tok := base.drop (base.length - l)

theorem sfx_of_suffix {ts base : List Tok} (h : ts <:+ base) : sfx base ts.length = ts := by
  obtain ⟨p, rfl⟩ := h
  simp [sfx]

theorem Memo.get_cons (m : Memo) (c l c' l' : Nat) (v : R) :
    Memo.get ((c', l', v) :: m) c l = if c' = c ∧ l' = l then some v else Memo.get m c l := by
  simp [Memo.get]

/-- cache coherence relative to `base` (the slice being parsed) and to the diagnostics `E`
    emitted so far: every entry is the memo-free result on *the* suffix of that length, and
    the diagnostics that evaluation produces have already been emitted. -/
def Coh (Γ Δ : Nat → G) (base : List Tok) (m : Memo) (E : List Diag) : Prop :=
  ∀ c l v, m.get c l = some v → v.isFuel = false ∧
    ∃ f, (runP Γ Δ f (Δ c) (sfx base l)).1 = v ∧ ∀ x ∈ (runP Γ Δ f (Δ c) (sfx base l)).2, x ∈ E

theorem Coh.mono {Γ Δ base m E} (h : Coh Γ Δ base m E) (E' : List Diag) : Coh Γ Δ base m (E ++ E') := by
  intro c l v hv
  obtain ⟨h1, f, h2, h3⟩ := h c l v hv
  exact ⟨h1, f, h2, fun x hx => List.mem_append_left _ (h3 x hx)⟩

theorem Coh.nil (Γ Δ : Nat → G) (base : List Tok) (E : List Diag) : Coh Γ Δ base [] E := by
  intro c l v h; simp [Memo.get] at h

/-- expressions that may run inside a cut-out slice: no nested `reslice`, nonterminals from `B` -/
def innerOK (B : Nat → Bool) : G → Bool
  | .tok _ => true | .identVal _ => true | .eps _ => true | .skipTo _ => true | .memo _ _ => true
  | .ref n => B n
  | .reslice _ _ => false
  | .seq a b => innerOK B a && innerOK B b
  | .alt a b => innerOK B a && innerOK B b
  | .opt a => innerOK B a
  | .map _ g => innerOK B g
  | .check _ _ g => innerOK B g
  | .ifTok _ a b => innerOK B a && innerOK B b
  | .ifEof a b => innerOK B a && innerOK B b
  | .recover _ g => innerOK B g
  | .catchErr g => innerOK B g
  | .dep a _ b => innerOK B a && innerOK B b
  | .emit _ g => innerOK B g
  | .prepend _ g => innerOK B g

/-- expressions of the file level: no memoised parser outside a `reslice`, nonterminals from `A` -/
def outerOK (A B : Nat → Bool) : G → Bool
  | .tok _ => true | .identVal _ => true | .eps _ => true | .skipTo _ => true
  | .memo _ _ => false
  | .ref n => A n
  | .reslice _ inner => innerOK B inner
  | .seq a b => outerOK A B a && outerOK A B b
  | .alt a b => outerOK A B a && outerOK A B b
  | .opt a => outerOK A B a
  | .map _ g => outerOK A B g
  | .check _ _ g => outerOK A B g
  | .ifTok _ a b => outerOK A B a && outerOK A B b
  | .ifEof a b => outerOK A B a && outerOK A B b
  | .recover _ g => outerOK A B g
  | .catchErr g => outerOK A B g
  | .dep a _ b => outerOK A B a && outerOK A B b
  | .emit _ g => outerOK A B g
  | .prepend _ g => outerOK A B g

structure Scoped (Γ Δ : Nat → G) (A B : Nat → Bool) : Prop where
  innerΓ : ∀ n, B n = true → innerOK B (Γ n) = true
  innerΔ : ∀ c, innerOK B (Δ c) = true
  outerΓ : ∀ n, A n = true → outerOK A B (Γ n) = true

/-- what T3 says about one run -/
def Agree (Γ Δ : Nat → G) (base : List Tok) (E : List Diag) (p : R × List Diag) (q : R × List Diag × MSt) : Prop :=
  q.1 = p.1 ∧ Coh Γ Δ base q.2.2.memo (E ++ q.2.1) ∧ (∀ x ∈ q.2.1, x ∈ p.2) ∧ (∀ x ∈ p.2, x ∈ E ++ q.2.1)

end Gold.Peg

namespace Gold.Peg
open Gold

variable {Γ Δ : Nat → G} {A B : Nat → Bool}

theorem Agree.intro {base : List Tok} {E : List Diag} {r : R} {dP dM : List Diag} {s : MSt}
    (hc : Coh Γ Δ base s.memo (E ++ dM)) (h1 : ∀ x ∈ dM, x ∈ dP) (h2 : ∀ x ∈ dP, x ∈ E ++ dM) :
    Agree Γ Δ base E (r, dP) (r, dM, s) := ⟨rfl, hc, h1, h2⟩

/-- sequencing two runs that agree -/
theorem Agree.bind {base : List Tok} {E : List Diag} {ra rb r : R} {da db da' db' : List Diag} {s1 s2 : MSt}
    (ha : Agree Γ Δ base E (ra, da) (ra, da', s1)) (hb : Agree Γ Δ base (E ++ da') (rb, db) (rb, db', s2)) :
    Agree Γ Δ base E (r, da ++ db) (r, da' ++ db', s2) := by
  obtain ⟨_, _, a1, a2⟩ := ha
  obtain ⟨_, cb, b1, b2⟩ := hb
  simp only at a1 a2 cb b1 b2
  refine ⟨rfl, ?_, ?_, ?_⟩
  · simpa [List.append_assoc] using cb
  · intro x hx
    rcases List.mem_append.mp hx with h | h
    · exact List.mem_append_left _ (a1 x h)
    · exact List.mem_append_right _ (b1 x h)
  · intro x hx
    simp only
    rcases List.mem_append.mp hx with h | h
    · rcases List.mem_append.mp (a2 x h) with h' | h'
      · exact List.mem_append_left _ h'
      · exact List.mem_append_right _ (List.mem_append_left _ h')
    · have := b2 x h
      simpa [List.append_assoc] using this

/-- changing the result the same way on both sides -/
theorem Agree.ret {base : List Tok} {E : List Diag} {r0 r : R} {dP dM : List Diag} {s : MSt}
    (h : Agree Γ Δ base E (r0, dP) (r0, dM, s)) : Agree Γ Δ base E (r, dP) (r, dM, s) :=
  ⟨rfl, h.2.1, h.2.2.1, h.2.2.2⟩

/-- adding the same diagnostics on both sides -/
theorem Agree.add {base : List Tok} {E : List Diag} {r0 r : R} {dP dM : List Diag} {s : MSt} (x : List Diag)
    (h : Agree Γ Δ base E (r0, dP) (r0, dM, s)) : Agree Γ Δ base E (r, dP ++ x) (r, dM ++ x, s) := by
  obtain ⟨_, c, h1, h2⟩ := h
  simp only at c h1 h2
  refine ⟨rfl, ?_, ?_, ?_⟩
  · have := Coh.mono c x; simpa [List.append_assoc] using this
  · intro y hy
    rcases List.mem_append.mp hy with h | h
    · exact List.mem_append_left _ (h1 y h)
    · exact List.mem_append_right _ h
  · intro y hy
    simp only
    rcases List.mem_append.mp hy with h | h
    · rcases List.mem_append.mp (h2 y h) with h' | h'
      · exact List.mem_append_left _ h'
      · exact List.mem_append_right _ (List.mem_append_left _ h')
    · exact List.mem_append_right _ (List.mem_append_right _ h)

theorem Agree.pure {base : List Tok} {E : List Diag} {r : R} {s : MSt} (hc : Coh Γ Δ base s.memo E) :
    Agree Γ Δ base E (r, []) (r, [], s) :=
  ⟨rfl, by simpa using hc, ⟨fun _ h => by simp at h, fun _ h => by simp at h⟩⟩

end Gold.Peg
