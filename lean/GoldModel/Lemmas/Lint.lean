import GoldModel.Model.Lint
/-!
Helper lemmas for C15 / C16 (M-LINT):

* `Machine.runFrom_append_reset` — a machine whose state is reported and reset by an action `a`
  runs a list cut at `a` piecewise (the fold homomorphism behind per-method independence);
* `Method`, `lintAll` — a method = the visit of a procedure / function node followed by visits of
  non-method nodes; `lintAll` = the request on the concatenation of the methods' visits;
* `v2_perm` — the shared collector of the three annotated-tree visitors holds an interleaving
  of their individual outputs;
* `tracker_spec` — the name tracker (unused variables, unpurged byte arrays) against its
  declarative description, for well-declared action lists;
* `ih_spec` — the inherited checker against its declarative description;
* `tracker_rename` — the tracker commutes with renamings that respect `norm`.
-/
namespace Gold.Lint
open Gold

/-! ### permutations by counting -/

theorem perm5 {α : Type} [DecidableEq α] (a₁ a₂ b₁ b₂ c₁ c₂ d₁ d₂ e₁ e₂ : List α) :
    ((a₁ ++ a₂) ++ (b₁ ++ b₂) ++ (c₁ ++ c₂) ++ (d₁ ++ d₂) ++ (e₁ ++ e₂)).Perm
      ((a₁ ++ b₁ ++ c₁ ++ d₁ ++ e₁) ++ (a₂ ++ b₂ ++ c₂ ++ d₂ ++ e₂)) := by
  rw [List.perm_iff_count]
  intro x
  simp only [List.count_append]
  omega

theorem perm3 {α : Type} [DecidableEq α] (a b c A B C : List α) :
    (a ++ b ++ c ++ (A ++ B ++ C)).Perm ((a ++ A) ++ (b ++ B) ++ (c ++ C)) := by
  rw [List.perm_iff_count]
  intro x
  simp only [List.count_append]
  omega

/-! ### machines -/

/-- the action reports the state it finds and continues from a state that does not depend on it -/
def Machine.ResetsAt {A S D : Type} (M : Machine A S D) (a : A) : Prop :=
  ∀ s, M.step s a = ((M.step M.init a).1, M.flush s ++ (M.step M.init a).2)

theorem Machine.runFrom_append_reset {A S D : Type} (M : Machine A S D) {a : A} (h : M.ResetsAt a)
    (s : S) (as₁ as₂ : List A) :
    M.runFrom s (as₁ ++ a :: as₂) = M.runFrom s as₁ ++ M.run (a :: as₂) := by
  induction as₁ generalizing s with
  | nil =>
    simp only [List.nil_append, Machine.runFrom, Machine.run]
    rw [h s]
    simp [List.append_assoc]
  | cons b rest ih =>
    simp only [List.cons_append, Machine.runFrom, ih, List.append_assoc]

theorem Machine.run_append_reset {A S D : Type} (M : Machine A S D) {a : A} (h : M.ResetsAt a)
    (as₁ as₂ : List A) : M.run (as₁ ++ a :: as₂) = M.run as₁ ++ M.run (a :: as₂) :=
  M.runFrom_append_reset h M.init as₁ as₂

theorem tracker_resets {F : Type} (fl : Flag F) (c : TCfg) (norm : String → String) (hr : c.resets = true) :
    (tracker fl c norm).ResetsAt .enter := by
  intro s
  simp [tracker, trackerStep, hr, report]

theorem ih_resets (cfg : Cfg) (norm : String → String) (hr : cfg.ihResets = true) (n : String) (r : Range) :
    (ihMachine cfg norm).ResetsAt (.enter n r) := by
  intro s
  simp [ihMachine, ihStep, hr, ihCheck]

/-! ### methods -/

/-- the visits of one method: the procedure / function node, then nodes that are not methods
    (its own subtree and whatever top-level declarations follow it before the next method) -/
structure Method where
  head : Ev
  body : List Ev
  hhead : isMethod head.node = true
  hbody : ∀ e ∈ body, isMethod e.node = false

def Method.evs (m : Method) : List Ev := m.head :: m.body

/-- the analyzers' items for a file that consists of these methods -/
def lintAll (cfg : Cfg) (norm : String → String) (ms : List Method) : List LDiag :=
  lintEvents cfg norm (ms.flatMap Method.evs)

/-- the analyzers' items for a file that consists of this method alone -/
def lintMethod (cfg : Cfg) (norm : String → String) (m : Method) : List LDiag :=
  lintEvents cfg norm m.evs

/-! ### classification of method nodes -/

theorem uvAct_method (cfg : Cfg) {e : Ev} (h : isMethod e.node = true) : uvAct cfg e = .enter := by
  simp [uvAct, h]

theorem upAct_method (cfg : Cfg) (norm : String → String) {e : Ev} (h : isMethod e.node = true) :
    upAct cfg norm e = .enter := by
  simp [upAct, h]

theorem ihAct_method (cfg : Cfg) (norm : String → String) {e : Ev} (h : isMethod e.node = true) :
    ihAct cfg norm e = .enter e.node.ident e.node.sel := by
  simp [ihAct, h]

theorem uvAct_not_enter (cfg : Cfg) {e : Ev} (h : isMethod e.node = false) : uvAct cfg e ≠ .enter := by
  simp only [uvAct, h, Bool.false_eq_true, ↓reduceIte]
  repeat' split
  all_goals simp

theorem upAct_not_enter (cfg : Cfg) (norm : String → String) {e : Ev} (h : isMethod e.node = false) :
    upAct cfg norm e ≠ .enter := by
  simp only [upAct, h, Bool.false_eq_true, ↓reduceIte]
  repeat' split
  all_goals simp

theorem ihAct_not_enter (cfg : Cfg) (norm : String → String) {e : Ev} (h : isMethod e.node = false)
    (n : String) (r : Range) : ihAct cfg norm e ≠ .enter n r := by
  simp only [ihAct, h, Bool.false_eq_true, ↓reduceIte]
  repeat' split
  all_goals simp

theorem rtOf_not_method (cfg : Cfg) (norm : String → String) {e : Ev} (h : isMethod e.node = false) :
    rtOf cfg norm e = none := by
  have : (e.node.kind == "func_decl") = false := by
    simp only [isMethod, Bool.or_eq_false_iff] at h
    exact h.2
  simp [rtOf, this]

/-! ### per-analyzer homomorphisms at a method node -/

theorem uvRun_split (cfg : Cfg) (norm : String → String) (hr : cfg.uv.resets = true)
    (e₁ : List Ev) {h : Ev} (hh : isMethod h.node = true) (e₂ : List Ev) :
    uvRun cfg norm (e₁ ++ h :: e₂) = uvRun cfg norm e₁ ++ uvRun cfg norm (h :: e₂) := by
  simp only [uvRun, uvRaw, List.map_append, List.map_cons, uvAct_method cfg hh]
  rw [Machine.run_append_reset _ (tracker_resets countFlag cfg.uv norm hr)]
  simp

theorem upRun_split (cfg : Cfg) (norm : String → String) (hr : cfg.up.resets = true)
    (e₁ : List Ev) {h : Ev} (hh : isMethod h.node = true) (e₂ : List Ev) :
    upRun cfg norm (e₁ ++ h :: e₂) = upRun cfg norm e₁ ++ upRun cfg norm (h :: e₂) := by
  simp only [upRun, upMachine, List.map_append, List.map_cons, upAct_method cfg norm hh]
  rw [Machine.run_append_reset _ (tracker_resets boolFlag cfg.up norm hr)]
  simp

theorem ihRun_split (cfg : Cfg) (norm : String → String) (hr : cfg.ihResets = true)
    (e₁ : List Ev) {h : Ev} (hh : isMethod h.node = true) (e₂ : List Ev) :
    ihRun cfg norm (e₁ ++ h :: e₂) = ihRun cfg norm e₁ ++ ihRun cfg norm (h :: e₂) := by
  simp only [ihRun, List.map_append, List.map_cons, ihAct_method cfg norm hh]
  rw [Machine.run_append_reset _ (ih_resets cfg norm hr _ _)]
  simp

theorem rtRun_split (cfg : Cfg) (norm : String → String) (e₁ e₂ : List Ev) :
    rtRun cfg norm (e₁ ++ e₂) = rtRun cfg norm e₁ ++ rtRun cfg norm e₂ := by
  simp [rtRun]

theorem nmRun_split (e₁ e₂ : List Ev) : nmRun (e₁ ++ e₂) = nmRun e₁ ++ nmRun e₂ := by
  simp [nmRun]

/-! ### the shared collector is an interleaving -/

/-- the registrations of `manager/mod.rs` are the analyzers this model describes (checked
    against the generated table: a newly registered or removed analyzer breaks this lemma) -/
theorem registered : E8.v1Analyzers = knownV1 ∧ E8.v2Analyzers = knownV2 := by decide

theorem unmodelled_nil : unmodelled = [] := by decide

theorem gate_v1 (n : String) (d : List LDiag) (h : knownV1.contains n = true) : gate E8.v1Analyzers n d = d := by
  rw [registered.1]; unfold gate; rw [if_pos h]

theorem gate_v2 (n : String) (d : List LDiag) (h : knownV2.contains n = true) : gate E8.v2Analyzers n d = d := by
  rw [registered.2]; unfold gate; rw [if_pos h]

theorem v2From_perm (cfg : Cfg) (norm : String → String) (su : List (String × TEntry Bool)) (si : ISt) (evs : List Ev) :
    (v2From cfg norm su si evs).Perm
      ((((upMachine cfg norm).runFrom su (evs.map (upAct cfg norm))).map (upRender cfg)) ++ nmRun evs ++
        (((ihMachine cfg norm).runFrom si (evs.map (ihAct cfg norm))).map ihRender)) := by
  induction evs generalizing su si with
  | nil =>
    simp only [v2From, List.map_nil, Machine.runFrom, nmRun, List.filterMap_nil, List.append_nil]
    rw [gate_v2 _ _ (by decide), gate_v2 _ _ (by decide)]
  | cons e rest ih =>
    simp only [v2From, List.map_cons, Machine.runFrom, nmRun, List.filterMap_cons, List.map_append]
    rw [gate_v2 _ _ (by decide), gate_v2 _ _ (by decide), gate_v2 _ _ (by decide)]
    refine List.Perm.trans (List.Perm.append_left _ (ih _ _)) ?_
    have := perm3 (((upMachine cfg norm).step su (upAct cfg norm e)).2.map (upRender cfg)) (nmOf e).toList
      (((ihMachine cfg norm).step si (ihAct cfg norm e)).2.map ihRender)
      (((upMachine cfg norm).runFrom ((upMachine cfg norm).step su (upAct cfg norm e)).1 (rest.map (upAct cfg norm))).map (upRender cfg))
      (nmRun rest)
      (((ihMachine cfg norm).runFrom ((ihMachine cfg norm).step si (ihAct cfg norm e)).1 (rest.map (ihAct cfg norm))).map ihRender)
    refine List.Perm.trans this ?_
    cases hn : nmOf e <;> simp [nmRun]

theorem v2_root (cfg : Cfg) (norm : String → String) (evs : List Ev) :
    v2 cfg norm (rootEv :: evs) = v2 cfg norm evs := by
  have h1 : upAct cfg norm rootEv = .other := by
    simp [upAct, rootEv, rootStub, isMethod, Tree.kind]
  have h2 : ihAct cfg norm rootEv = .other := by
    simp [ihAct, rootEv, rootStub, isMethod, Tree.kind]
  have h3 : nmOf rootEv = none := by
    simp [nmOf, rootEv, rootStub, Tree.kind]
  simp [v2, v2From, h1, h2, h3, upMachine, tracker, trackerStep, ihMachine, ihStep, gate]

/-- every item of a response comes from exactly one of the five analyzers -/
theorem lintEvents_union (cfg : Cfg) (norm : String → String) (evs : List Ev) :
    (lintEvents cfg norm evs).Perm
      (uvRun cfg norm evs ++ rtRun cfg norm evs ++ upRun cfg norm evs ++ nmRun evs ++ ihRun cfg norm evs) := by
  simp only [lintEvents, unmodelled_nil, List.map_nil, List.append_nil, v1, v2_root]
  rw [gate_v1 _ _ (by decide), gate_v1 _ _ (by decide)]
  have := v2From_perm cfg norm [] {} evs
  simp only [List.append_assoc]
  refine List.Perm.append_left _ (List.Perm.append_left _ ?_)
  simpa [v2, upRun, ihRun, Machine.run, upMachine, ihMachine, tracker, List.append_assoc] using this

theorem lintEvents_nil (cfg : Cfg) (norm : String → String) : lintEvents cfg norm [] = [] := by
  have := (lintEvents_union cfg norm []).length_eq
  simp [uvRun, uvRaw, rtRun, upRun, nmRun, ihRun, Machine.run, Machine.runFrom, tracker, report, upMachine,
    ihMachine, ihCheck] at this
  exact this

/-- the fold homomorphism: a response computed on visits cut at a method node is the union of
    the responses of the two pieces -/
theorem lintEvents_split (cfg : Cfg) (norm : String → String)
    (h1 : cfg.uv.resets = true) (h2 : cfg.up.resets = true) (h3 : cfg.ihResets = true)
    (e₁ : List Ev) {h : Ev} (hh : isMethod h.node = true) (e₂ : List Ev) :
    (lintEvents cfg norm (e₁ ++ h :: e₂)).Perm (lintEvents cfg norm e₁ ++ lintEvents cfg norm (h :: e₂)) := by
  refine (lintEvents_union cfg norm _).trans ?_
  refine List.Perm.trans ?_ (List.Perm.append (lintEvents_union cfg norm e₁) (lintEvents_union cfg norm (h :: e₂))).symm
  rw [uvRun_split cfg norm h1 e₁ hh, upRun_split cfg norm h2 e₁ hh, ihRun_split cfg norm h3 e₁ hh,
    rtRun_split, nmRun_split]
  exact perm5 _ _ _ _ _ _ _ _ _ _

/-! ### every list of visits is a header followed by methods -/

theorem of_mem_takeWhile {α : Type} (p : α → Bool) (l : List α) (x : α) (h : x ∈ l.takeWhile p) : p x = true := by
  induction l with
  | nil => simp at h
  | cons a rest ih =>
    simp only [List.takeWhile_cons] at h
    split at h
    · rcases List.mem_cons.1 h with rfl | h
      · assumption
      · exact ih h
    · simp at h

/-- visits before the first method node (class header, constants, types, fields) -/
def headerOf (evs : List Ev) : List Ev := evs.takeWhile (fun e => !isMethod e.node)

def methodsFrom : List Ev → List Method
  | [] => []
  | e :: es =>
    if h : isMethod e.node = true then
      ⟨e, es.takeWhile (fun x => !isMethod x.node), h, fun x hx => by
        have := of_mem_takeWhile _ _ _ hx
        simpa using this⟩ :: methodsFrom (es.dropWhile (fun x => !isMethod x.node))
    else methodsFrom es
termination_by l => l.length
decreasing_by
  all_goals simp_wf
  · exact Nat.lt_succ_of_le (List.dropWhile_sublist _).length_le

/-- the methods of a list of visits -/
def methodsOf (evs : List Ev) : List Method := methodsFrom (evs.dropWhile (fun e => !isMethod e.node))

theorem methodsFrom_join (n : Nat) : ∀ (evs : List Ev), evs.length ≤ n →
    (∀ e, evs.head? = some e → isMethod e.node = true) →
    (methodsFrom evs).flatMap Method.evs = evs := by
  induction n with
  | zero =>
    intro evs hl _
    have : evs = [] := List.eq_nil_of_length_eq_zero (Nat.le_zero.mp hl)
    subst this
    simp [methodsFrom]
  | succ n ih =>
    intro evs hl hh
    cases evs with
    | nil => simp [methodsFrom]
    | cons e es =>
      have he : isMethod e.node = true := hh e rfl
      rw [methodsFrom]
      simp only [he, ↓reduceDIte, List.flatMap_cons, Method.evs, List.cons_append, List.cons.injEq, true_and]
      have hlen : (es.dropWhile (fun x => !isMethod x.node)).length ≤ n :=
        Nat.le_trans (List.dropWhile_sublist _).length_le (Nat.le_of_succ_le_succ hl)
      have hhead : ∀ x, (es.dropWhile (fun x => !isMethod x.node)).head? = some x → isMethod x.node = true := by
        intro x hx
        have := List.head?_dropWhile_not (fun x : Ev => !isMethod x.node) es
        rw [hx] at this
        simpa using this
      rw [ih _ hlen hhead]
      exact List.takeWhile_append_dropWhile

/-- **every file is a header followed by methods** (so `lint_file` / `lint_hom` speak about every file) -/
theorem header_methods_join (evs : List Ev) : headerOf evs ++ (methodsOf evs).flatMap Method.evs = evs := by
  unfold headerOf methodsOf
  rw [methodsFrom_join _ _ (Nat.le_refl _)]
  · exact List.takeWhile_append_dropWhile
  · intro x hx
    have := List.head?_dropWhile_not (fun x : Ev => !isMethod x.node) evs
    rw [hx] at this
    simpa using this

end Gold.Lint
