import GoldModel.Model.LintSpec
/-!
Helper lemmas for C15 / C16 (M-LINT), none of which depends on the generated tables:

* `Machine.runFrom_append_reset` — a machine whose state is reported and reset by an action `a`
  runs a list cut at `a` piecewise (the fold homomorphism behind per-method independence);
* the per-analyzer homomorphisms at a method node;
* `header_methods_join` — every list of visits is a header followed by methods.
-/
namespace Gold.Lint
open Gold

/-! ### permutations by counting -/

theorem perm5 {α : Type} [DecidableEq α] (a₁ a₂ b₁ b₂ c₁ c₂ d₁ d₂ e₁ e₂ : List α) :
    ((a₁ ++ a₂) ++ (b₁ ++ b₂) ++ (c₁ ++ c₂) ++ (d₁ ++ d₂) ++ (e₁ ++ e₂)).Perm
      ((a₁ ++ b₁ ++ c₁ ++ d₁ ++ e₁) ++ (a₂ ++ b₂ ++ c₂ ++ d₂ ++ e₂)) := by
  rw [List.perm_iff_count]
  intro x
  simp only [List.count_append]
  omega

theorem perm3 {α : Type} [DecidableEq α] (a b c A B C : List α) :
    (a ++ b ++ c ++ (A ++ B ++ C)).Perm ((a ++ A) ++ (b ++ B) ++ (c ++ C)) := by
  rw [List.perm_iff_count]
  intro x
  simp only [List.count_append]
  omega

/-! ### machines -/

/-- the action reports the state it finds and continues from a state that does not depend on it -/
def Machine.ResetsAt {A S D : Type} (M : Machine A S D) (a : A) : Prop :=
  ∀ s, M.step s a = ((M.step M.init a).1, M.flush s ++ (M.step M.init a).2)

theorem Machine.runFrom_append_reset {A S D : Type} (M : Machine A S D) {a : A} (h : M.ResetsAt a)
    (s : S) (as₁ as₂ : List A) :
    M.runFrom s (as₁ ++ a :: as₂) = M.runFrom s as₁ ++ M.run (a :: as₂) := by
  induction as₁ generalizing s with
  | nil =>
    simp only [List.nil_append, Machine.runFrom, Machine.run]
    rw [h s]
    simp [List.append_assoc]
  | cons b rest ih =>
    simp only [List.cons_append, Machine.runFrom, ih, List.append_assoc]

theorem Machine.run_append_reset {A S D : Type} (M : Machine A S D) {a : A} (h : M.ResetsAt a)
    (as₁ as₂ : List A) : M.run (as₁ ++ a :: as₂) = M.run as₁ ++ M.run (a :: as₂) :=
  M.runFrom_append_reset h M.init as₁ as₂

theorem tracker_resets {F : Type} (fl : Flag F) (c : TCfg) (norm : String → String) (hr : c.resets = true) :
    (tracker fl c norm).ResetsAt .enter := by
  intro s
  simp [tracker, trackerStep, hr, report]

theorem ih_resets (cfg : Cfg) (norm : String → String) (hr : cfg.ihResets = true) (n : String) (r : Range) :
    (ihMachine cfg norm).ResetsAt (.enter n r) := by
  intro s
  simp [ihMachine, ihStep, hr, ihCheck]

/-! ### classification of method nodes -/

theorem uvAct_method (cfg : Cfg) {e : Ev} (h : isMethod e.node = true) : uvAct cfg e = .enter := by
  simp [uvAct, h]

theorem upAct_method (cfg : Cfg) (norm : String → String) {e : Ev} (h : isMethod e.node = true) :
    upAct cfg norm e = .enter := by
  simp [upAct, h]

theorem ihAct_method (cfg : Cfg) (norm : String → String) {e : Ev} (h : isMethod e.node = true) :
    ihAct cfg norm e = .enter e.node.ident e.node.sel := by
  simp [ihAct, h]

theorem uvAct_not_enter (cfg : Cfg) {e : Ev} (h : isMethod e.node = false) : uvAct cfg e ≠ .enter := by
  simp only [uvAct, h, Bool.false_eq_true, ↓reduceIte]
  repeat' split
  all_goals simp

theorem upAct_not_enter (cfg : Cfg) (norm : String → String) {e : Ev} (h : isMethod e.node = false) :
    upAct cfg norm e ≠ .enter := by
  simp only [upAct, h, Bool.false_eq_true, ↓reduceIte]
  repeat' split
  all_goals simp

theorem ihAct_not_enter (cfg : Cfg) (norm : String → String) {e : Ev} (h : isMethod e.node = false)
    (n : String) (r : Range) : ihAct cfg norm e ≠ .enter n r := by
  simp only [ihAct, h, Bool.false_eq_true, ↓reduceIte]
  repeat' split
  all_goals simp

theorem rtOf_not_method (cfg : Cfg) (norm : String → String) {e : Ev} (h : isMethod e.node = false) :
    rtOf cfg norm e = none := by
  have : (e.node.kind == "func_decl") = false := by
    simp only [isMethod, Bool.or_eq_false_iff] at h
    exact h.2
  simp [rtOf, this]

/-! ### per-analyzer homomorphisms at a method node -/

theorem uvRun_split (cfg : Cfg) (norm : String → String) (hr : cfg.uv.resets = true)
    (e₁ : List Ev) {h : Ev} (hh : isMethod h.node = true) (e₂ : List Ev) :
    uvRun cfg norm (e₁ ++ h :: e₂) = uvRun cfg norm e₁ ++ uvRun cfg norm (h :: e₂) := by
  simp only [uvRun, uvRaw, List.map_append, List.map_cons, uvAct_method cfg hh]
  rw [Machine.run_append_reset _ (tracker_resets countFlag cfg.uv norm hr)]
  simp

theorem upRun_split (cfg : Cfg) (norm : String → String) (hr : cfg.up.resets = true)
    (e₁ : List Ev) {h : Ev} (hh : isMethod h.node = true) (e₂ : List Ev) :
    upRun cfg norm (e₁ ++ h :: e₂) = upRun cfg norm e₁ ++ upRun cfg norm (h :: e₂) := by
  simp only [upRun, upMachine, List.map_append, List.map_cons, upAct_method cfg norm hh]
  rw [Machine.run_append_reset _ (tracker_resets boolFlag cfg.up norm hr)]
  simp

theorem ihRun_split (cfg : Cfg) (norm : String → String) (hr : cfg.ihResets = true)
    (e₁ : List Ev) {h : Ev} (hh : isMethod h.node = true) (e₂ : List Ev) :
    ihRun cfg norm (e₁ ++ h :: e₂) = ihRun cfg norm e₁ ++ ihRun cfg norm (h :: e₂) := by
  simp only [ihRun, List.map_append, List.map_cons, ihAct_method cfg norm hh]
  rw [Machine.run_append_reset _ (ih_resets cfg norm hr _ _)]
  simp

theorem rtRun_split (cfg : Cfg) (norm : String → String) (e₁ e₂ : List Ev) :
    rtRun cfg norm (e₁ ++ e₂) = rtRun cfg norm e₁ ++ rtRun cfg norm e₂ := by
  simp [rtRun]

theorem nmRun_split (e₁ e₂ : List Ev) : nmRun (e₁ ++ e₂) = nmRun e₁ ++ nmRun e₂ := by
  simp [nmRun]

/-! ### every list of visits is a header followed by methods -/

theorem methodsFrom_join (n : Nat) : ∀ (evs : List Ev), evs.length ≤ n →
    (∀ e, evs.head? = some e → isMethod e.node = true) →
    (methodsFrom evs).flatMap Method.evs = evs := by
  induction n with
  | zero =>
    intro evs hl _
    have : evs = [] := List.eq_nil_of_length_eq_zero (Nat.le_zero.mp hl)
    subst this
    simp [methodsFrom]
  | succ n ih =>
    intro evs hl hh
    cases evs with
    | nil => simp [methodsFrom]
    | cons e es =>
      have he : isMethod e.node = true := hh e rfl
      rw [methodsFrom]
      simp only [he, ↓reduceDIte, List.flatMap_cons, Method.evs, List.cons_append, List.cons.injEq, true_and]
      have hlen : (es.dropWhile (fun x => !isMethod x.node)).length ≤ n :=
        Nat.le_trans (List.dropWhile_sublist _).length_le (Nat.le_of_succ_le_succ hl)
      have hhead : ∀ x, (es.dropWhile (fun x => !isMethod x.node)).head? = some x → isMethod x.node = true := by
        intro x hx
        have := List.head?_dropWhile_not (fun x : Ev => !isMethod x.node) es
        rw [hx] at this
        simpa using this
      rw [ih _ hlen hhead]
      exact List.takeWhile_append_dropWhile

/-- **every file is a header followed by methods** (so `lint_file` / `lint_hom` speak about every file) -/
theorem header_methods_join (evs : List Ev) : headerOf evs ++ (methodsOf evs).flatMap Method.evs = evs := by
  unfold headerOf methodsOf
  rw [methodsFrom_join _ _ (Nat.le_refl _)]
  · exact List.takeWhile_append_dropWhile
  · intro x hx
    have := List.head?_dropWhile_not (fun x : Ev => !isMethod x.node) evs
    rw [hx] at this
    simpa using this

end Gold.Lint
