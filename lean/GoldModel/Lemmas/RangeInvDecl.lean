import GoldModel.Lemmas.RangeInvTypes
/-!
T5, the Gold grammar, part 3: loops, lists of modifiers, and the declarations of `parser/mod.rs`
that are not types.
-/
namespace Gold.C08
open Gold Gold.Peg Gold.Gram

variable {Z : Pos} {F : Nat}


theorem POpt.mono_hi {Q : Post} (hQ : Good Z Q) {lo hi hi' : Pos} {v : Tree} (h : POpt Q lo hi v) (h' : hi.le hi' = true) :
    POpt Q lo hi' v := by
  rcases h with ⟨rfl, h⟩ | h
  · exact Or.inl ⟨rfl, Pos.le_trans h h'⟩
  · exact Or.inr (hQ.mono h (Pos.le_refl _) h')

/-! ## loop values -/

theorem PLoop.intro {Qe : Post} {lo m hi : Pos} {items : List Tree} {e : Tree} (hl : PListL (PReal Z) lo m items)
    (he : POpt Qe m hi e) : PLoop Z Qe lo hi (loopVal items e) :=
  ⟨_, rfl, Tree.list items, _, m, rfl, ⟨items, rfl, hl⟩, e, _, hi, rfl, he, rfl, Pos.le_refl _⟩

theorem PLoop.elim {Qe : Post} (hQ : Good Z Qe) {lo hi : Pos} {v : Tree} (h : PLoop Z Qe lo hi v) :
    ∃ items e m, v = loopVal items e ∧ PListL (PReal Z) lo m items ∧ POpt Qe m hi e := by
  obtain ⟨_, rfl, _, _, m1, rfl, ⟨items, rfl, hl⟩, e, _, m2, rfl, he, rfl, hend⟩ := h
  exact ⟨items, e, m1, rfl, hl, he.mono_hi hQ hend⟩

theorem loopItems_val (items : List Tree) (e : Tree) : loopItems (loopVal items e) = items := rfl
theorem loopEnd_val (items : List Tree) (e : Tree) : loopEnd (loopVal items e) = e := rfl

theorem loopCons_ok {Qe : Post} (hQ : Good Z Qe) {lo m1 m2 hi : Pos} {x tl : Tree} (hx : POpt (PReal Z) lo m1 x)
    (htl : PLoop Z Qe m1 m2 tl) (hend : m2.le hi = true) : PLoop Z Qe lo hi (loopCons (Tree.seq [x, tl])) := by
  obtain ⟨items, e, m, rfl, hl, he⟩ := htl.elim hQ
  show PLoop Z Qe lo hi (loopVal ((if x.isNone then [] else [x]) ++ items) e)
  refine PLoop.intro (m := m) ?_ (he.mono_hi hQ hend)
  rcases hx with ⟨rfl, hle⟩ | hx
  · shape_simp; exact hl.mono_lo good_real hle
  · simp only [hx.1.isNone]
    exact PListL.cons good_real hx (Pos.le_refl _) hl

/-- the skeleton of `parse_until_w_context` / `parse_until_strict_w_context` -/
theorem Der.loopUntil {ks : List Kind} {item : G} {self : Nat} (hi : Der Γ Δ Z F item (POpt (PReal Z)))
    (hs : Der Γ Δ Z F (.ref self) (PLoop Z (PLeaf Z))) :
    Der Γ Δ Z F (.map untilNorm (.ifEof (.eps (loopVal [] Tree.none))
      (.ifTok ks (.eps Tree.none) (.map loopCons (.seq item (.ref self)))))) (PLoop Z (PLeaf Z)) := by
  have inner : Der Γ Δ Z F (.map loopCons (.seq item (.ref self))) (PLoop Z (PLeaf Z)) := by
    refine Der.map (Der.seq hi hs) ?_
    rintro lo hi v ⟨_, rfl, x, _, m1, rfl, hx, tl, _, m2, rfl, htl, rfl, hend⟩
    exact loopCons_ok good_leaf hx htl hend
  refine Der.map (Der.ifEof ((Der.eps _).weaken ?_) (Der.ifTok (Der.eps Tree.none) inner)) ?_
  · rintro lo hi v ⟨rfl, h⟩
    exact Or.inr (PLoop.intro (m := lo) (Pos.le_refl _) (Or.inl ⟨rfl, h⟩))
  · rintro lo hi v (⟨_, rfl, va, _, m1, rfl, ⟨t, rfl, a, b, c, d⟩, vb, _, m2, rfl, ⟨rfl, e⟩, rfl, hend⟩ | h)
    · show PLoop Z (PLeaf Z) lo hi (loopVal [] (Tree.leaf t))
      exact PLoop.intro (m := lo) (Pos.le_refl _) (Or.inr ⟨t, rfl, a, b, c.mono (Pos.le_trans e hend), d⟩)
    · obtain ⟨items, e, m, rfl, hl, he⟩ := h.elim good_leaf
      exact PLoop.intro hl he

theorem Der.untilStop {ks : List Kind} {self : Nat} (hst : Der Γ Δ Z F (.ref nStatement) (PReal Z))
    (hs : Der Γ Δ Z F (.ref self) (PLoop Z (PLeaf Z))) : Der Γ Δ Z F (Gram.untilStop ks self) (PLoop Z (PLeaf Z)) :=
  Der.loopUntil (Der.recover hst) hs

/-- `parse_until_no_match_w_context(item)` -/
theorem Der.repeatList {item : G} {self : Nat} {Q : Post} (hQ : Good Z Q) (hi : Der Γ Δ Z F item Q)
    (hs : Der Γ Δ Z F (.ref self) (PList Q)) :
    Der Γ Δ Z F (.ifEof (.eps (Tree.list []))
      (.alt (.map (fun v => Tree.list (v.nth 0 :: (v.nth 1).kids)) (.seq item (.ref self))) (.eps (Tree.list [])))) (PList Q) := by
  have hnil : Der Γ Δ Z F (.eps (Tree.list [])) (PList Q) :=
    (Der.eps _).weaken (fun _ _ _ h => ⟨[], h.1, h.2⟩)
  refine Der.ifEof hnil (Der.alt (Der.map (Der.seq hi hs) ?_) hnil)
  rintro lo hi v ⟨_, rfl, x, _, m1, rfl, hx, tl, _, m2, rfl, ⟨l, rfl, hl⟩, rfl, hend⟩
  shape_simp
  exact ⟨_, rfl, PListL.cons hQ hx (Pos.le_refl _) (hl.mono_hi hQ hend)⟩

theorem lastD_cons (x d : Tree) (l : List Tree) : lastD (x :: l) d = lastD l x := by
  cases l with
  | nil => rfl
  | cons y ys =>
    simp only [lastD, List.getLast?_cons_cons]
    rw [List.getLast?_eq_some_getLast (List.cons_ne_nil y ys)]; rfl

/-- `parse_member_modifiers` / `parse_method_modifiers`: `#none` or a node spanning the modifier tokens -/
theorem modsNode_ok {lo hi : Pos} {l : Tree} (h : PList (PLeaf Z) lo hi l) :
    POpt (PReal Z) lo hi (memberModsNode l) ∧ POpt (PReal Z) lo hi (methodModsNode l) := by
  obtain ⟨items, rfl, hl⟩ := h
  cases items with
  | nil => exact ⟨Or.inl ⟨rfl, hl⟩, Or.inl ⟨rfl, hl⟩⟩
  | cons first rest =>
    obtain ⟨m, hf, hr⟩ := hl
    obtain ⟨h1, h2⟩ := lastD_item good_leaf hr hf.item
    have hk : PReal Z lo hi (mk "member_modifiers" "member_modifiers" (Range.span first.rng (lastD (first :: rest) first).rng) []
        ((first :: rest).map (fun t => t.kind))) := by
      rw [lastD_cons]
      exact span_real (by decide) (by decide) hf.item (PListL.le good_leaf hr) h1.2.2.1 h2 NodeOKL.nil
    have hk' : PReal Z lo hi (mk "method_modifiers" "method_modifiers" (Range.span first.rng (lastD (first :: rest) first).rng) []
        ((first :: rest).map (fun t => t.kind))) := by
      rw [lastD_cons]
      exact span_real (by decide) (by decide) hf.item (PListL.le good_leaf hr) h1.2.2.1 h2 NodeOKL.nil
    exact ⟨Or.inr hk, Or.inr hk'⟩

section
variable (hc : Ctx Γ Δ Z (QΓ Z) (QΔ Z) F)
include hc

theorem d_gRecFields : Der Γ Δ Z F gRecFields (PLoop Z (PLeaf Z)) :=
  Der.loopUntil ((d_gRecordField hc).weaken (fun _ _ _ h => Or.inr h)) (hc.1 nRecFields)

theorem d_gTypeRecord : Der Γ Δ Z F gTypeRecord (PReal Z) := by
  unfold gTypeRecord
  refine Der.map (Q := PSeqN [PLeaf Z, POpt (PSeqN [PLeaf Z, PLeaf Z, PLeaf Z]), PLoop Z (PLeaf Z)]) ?_ ?_
  · der_seq
    · exact Der.tok _
    · exact Der.opt (by der_seq <;> exact Der.tok _)
    · exact hc.1 nRecFields
  · rintro lo hi v ⟨_, rfl, v0, _, m1, rfl, h0, v1, _, m2, rfl, h1, v2, _, m3, rfl, h2, rfl, hend⟩
    obtain ⟨items, e, m, rfl, hl, he⟩ := h2.elim good_leaf
    shape_simp
    simp only [loopItems_val, loopEnd_val]
    have f0 := h0.facts
    have e1 : m1.le m2 = true := by
      rcases h1 with ⟨_, h⟩ | ⟨_, _, h⟩
      · exact h
      · exact PSeqL.le_all (by intro Q hQ; simp at hQ; rcases hQ with rfl | rfl | rfl <;> exact fun _ _ _ h => h.le) h
    have eL := PListL.le good_real hl
    have eE := POpt.le good_leaf he
    have hkids : NodeOKL Z ((if v1.isNone then [] else [terminal (v1.nth 1)]) ++ items) := by
      refine NodeOKL.append ?_ (hl.nodeOK good_real)
      rcases h1 with ⟨rfl, _⟩ | ⟨_, rfl, a, _, n1, rfl, ha, b, _, n2, rfl, hb, c, _, n3, rfl, hcc, rfl, _⟩
      · shape_simp; exact NodeOKL.nil
      · shape_simp; exact NodeOKL.one (terminal_real hb.item).ok
    rcases he with ⟨rfl, ee⟩ | he
    · shape_simp
      obtain ⟨i1, i2⟩ := lastD_item good_real hl (good_item.mono h0.item (Pos.le_refl _) e1)
      exact span_real (by decide) (by decide) h0.item (by pos_chain) i1.2.2.1 i2 hkids
    · have fe := he.facts
      shape_simp [fe.2.2.2.2.2]
      exact span_real (by decide) (by decide) h0.item (by pos_chain) he.ok (by pos_chain) hkids

theorem d_gType : Der Γ Δ Z F gType (PReal Z) := by
  unfold gType
  der_alt
  · exact d_gTypeSized
  · exact d_gTypeComposed hc
  · exact r_typeBasic hc
  · exact d_gTypeReference hc
  · exact d_gTypeRange hc
  · exact d_gTypeSet hc
  · exact d_gTypeRecord hc
  · exact d_gTypePointer hc
  · exact d_gTypeArray hc
  · exact d_gTypeProcedure hc
  · exact d_gTypeFunction hc
  · exact d_gTypeInstanceOf hc

theorem d_gIdentList : Der Γ Δ Z F gIdentList (PList (PLeaf Z)) := by
  unfold gIdentList
  refine Der.map (Der.seq (Der.tok _) (Der.ifTok (r_identList hc) (Der.eps _))) ?_
  rintro lo hi v ⟨_, rfl, x, _, m1, rfl, hx, tl, _, m2, rfl, htl, rfl, hend⟩
  have ht := (sepTail_kids good_leaf (Or.inr htl)).mono_hi good_leaf hend
  shape_simp
  exact ⟨_, rfl, PListL.cons good_leaf hx (Pos.le_refl _) ht⟩

theorem d_gMemberMods : Der Γ Δ Z F gMemberMods (PList (PLeaf Z)) :=
  Der.repeatList good_leaf (Der.toks _) (hc.1 nMemberMods)

omit hc in
theorem d_gExternal : Der Γ Δ Z F gExternal (PLeaf Z) := by
  unfold gExternal
  refine Der.map (Q := PSeqN [PLeaf Z, PLeaf Z]) (by der_seq <;> exact Der.tok _) ?_
  rintro lo hi v ⟨_, rfl, v0, _, m1, rfl, h0, v1, _, m2, rfl, h1, rfl, hend⟩
  obtain ⟨t0, rfl, a0, b0, c0, d0⟩ := h0
  obtain ⟨t1, rfl, a1, b1, c1, d1⟩ := h1
  shape_simp
  have p0 := c0.1; have p1 := b1.1
  refine ⟨_, rfl, a0, ⟨?_, ?_⟩, ⟨?_, fun hk => Pos.le_trans (c1.2 hk) hend⟩, d1⟩
  · simp only [rng_leaf, Range.span]; pos_arith
  · intro hk
    have p2 := b1.2 hk
    simp only [rng_leaf, Range.span]; pos_arith
  · have p3 := c1.1
    simp only [rng_leaf, Range.span]; pos_arith

theorem d_gMethodMods : Der Γ Δ Z F gMethodMods (PList (PLeaf Z)) := by
  refine Der.repeatList good_leaf ?_ (hc.1 nMethodMods)
  exact Der.alt (Der.toks _) (Der.alt d_gExternal (Der.tok _))

theorem d_gParamDecl : Der Γ Δ Z F gParamDecl (PReal Z) := by
  unfold gParamDecl
  refine Der.map (Q := PSeqN [POpt (PLeaf Z), PLeafT Z,
      POr (PSeqN [PLeaf Z, PReal Z]) (fun lo hi v => v = Tree.none ∧ lo.le hi = true)]) ?_ ?_
  · der_seq
    · exact Der.opt (Der.toks _)
    · exact Der.toksT _ identKinds_tight
    · exact Der.ifTok (Der.prepend (r_type hc)) (Der.eps _)
  · rintro lo hi v ⟨_, rfl, v0, _, m1, rfl, h0, v1, _, m2, rfl, ⟨h1, g1⟩, v2, _, m3, rfl, h2, rfl, hend⟩
    have f1 := h1.facts
    rcases h2 with ⟨_, rfl, cl, _, n1, rfl, hcl, ty, _, n2, rfl, hty, rfl, hend2⟩ | ⟨rfl, e2⟩
    · have fc := hcl.facts; have ft := hty.facts
      rcases h0 with ⟨rfl, e0⟩ | h0
      · shape_simp [ft.2.2.2.2.2]
        exact span_real_sel (a := v1) (b := ty) (n := v1) (by decide) (good_item.mono h1.item e0 (Pos.le_refl _)) (by pos_chain)
          hty.ok (by pos_chain) (NodeOKL.one hty.ok) h1.ok (Pos.le_refl _) (by pos_chain)
      · have f0 := h0.facts
        shape_simp [ft.2.2.2.2.2, f0.2.2.2.2.2]
        exact span_real_sel (a := v0) (b := ty) (n := v1) (by decide) h0.item (by pos_chain)
          hty.ok (by pos_chain) (NodeOKL.one hty.ok) h1.ok (by pos_chain) (by pos_chain)
    · rcases h0 with ⟨rfl, e0⟩ | h0
      · shape_simp
        exact span_real_sel (a := v1) (b := v1) (n := v1) (by decide) (good_item.mono h1.item e0 (Pos.le_refl _)) (by pos_chain)
          h1.ok (Pos.le_refl _) NodeOKL.nil h1.ok (Pos.le_refl _) (Pos.le_refl _)
      · have f0 := h0.facts
        shape_simp [f0.2.2.2.2.2]
        exact span_real_sel (a := v0) (b := v1) (n := v1) (by decide) h0.item (by pos_chain)
          h1.ok (by pos_chain) NodeOKL.nil h1.ok (by pos_chain) (Pos.le_refl _)

theorem d_gParamList : Der Γ Δ Z F gParamList (POpt (PReal Z)) := by
  unfold gParamList
  refine Der.map (Der.ifTok (Der.prepend (Q := PSeqN [PList (PReal Z), PLeaf Z]) ?_) (Der.eps _)) ?_
  · der_seq
    · exact Der.sepListCtx (d_gParamDecl hc) (hc.1 nParamRec)
    · exact Der.tok _
  · rintro lo hi v (⟨_, rfl, ob, _, m1, rfl, hob, inner, _, m2, rfl,
        ⟨_, rfl, li, _, n1, rfl, ⟨items, rfl, hl⟩, cb, _, n2, rfl, hcb, rfl, hend2⟩, rfl, hend⟩ | ⟨rfl, e⟩)
    · shape_simp
      have f0 := hob.facts; have f1 := hcb.facts; have eL := PListL.le good_real hl
      exact Or.inr (span_real (a := ob) (b := cb) (by decide) (by decide) hob.item (by pos_chain) hcb.ok (by pos_chain)
        (hl.nodeOK good_real))
    · shape_simp
      exact Or.inl ⟨rfl, e⟩

omit hc in
theorem d_gAnnotations : Der Γ Δ Z F gAnnotations (PNodeOK Z) := by
  unfold gAnnotations
  refine Der.map (Der.seq (Der.tok _) (Der.skipTo _)) ?_
  rintro lo hi v ⟨_, rfl, x, _, m1, rfl, hx, tl, _, m2, rfl, htl, rfl, hend⟩
  have e1 := hx.le; have e2 := POpt.le good_leaf htl
  exact ⟨⟨by decide, Nat.zero_le _⟩, by pos_chain⟩

omit hc in
theorem d_gComment : Der Γ Δ Z F gComment (PReal Z) :=
  Der.map (Der.tok _) (fun _ _ _ h => wrap_real (by decide) (by decide) h.item NodeOKL.nil)

theorem d_gUses : Der Γ Δ Z F gUses (PReal Z) := by
  unfold gUses
  refine Der.map (Q := PSeqN [PLeaf Z, PList (PLeaf Z)]) ?_ ?_
  · der_seq
    · exact Der.tok _
    · exact r_identList hc
  · rintro lo hi v ⟨_, rfl, v0, _, m1, rfl, h0, v1, _, m2, rfl, ⟨l, rfl, hl⟩, rfl, hend⟩
    shape_simp
    obtain ⟨i1, i2⟩ := lastD_item good_leaf hl h0.item
    exact span_real (a := v0) (b := lastD l v0) (by decide) (by decide) h0.item (Pos.le_trans (PListL.le good_leaf hl) hend)
      i1.2.2.1 i2 NodeOKL.nil

omit hc in
theorem d_gConstDecl : Der Γ Δ Z F gConstDecl (PReal Z) := by
  unfold gConstDecl
  refine Der.map (Q := PSeqN [PSeqN [PLeaf Z, PLeafT Z, PLeaf Z, PLeaf Z], PAny]) ?_ ?_
  · der_seq
    · exact Der.prepend (by der_seq <;> first | exact Der.tok _ | exact Der.toks _ | exact Der.tokT _ (by decide))
    · exact Der.anyOpt good_leaf (Der.tok _)
  · rintro lo hi v ⟨_, rfl, _, _, m1, rfl, ⟨_, rfl, c, _, n1, rfl, hcn, id, _, n2, rfl, ⟨hid, g1⟩, eq, _, n3, rfl, heq, val, _, n4, rfl, hval, rfl, hend2⟩,
      ml, _, m2, rfl, hml, rfl, hend⟩
    shape_simp
    have e5 : m1.le m2 = true := hml
    have f0 := hcn.facts; have f1 := hid.facts; have f2 := heq.facts; have f3 := hval.facts
    exact span_real_sel (a := c) (b := val) (n := id) (by decide) hcn.item (by pos_chain) hval.ok (by pos_chain) NodeOKL.nil
      hid.ok (by pos_chain) (by pos_chain)

theorem d_gTypeDecl : Der Γ Δ Z F gTypeDecl (PReal Z) := by
  unfold gTypeDecl
  refine Der.map (Q := PSeqN [PAny, PLeaf Z, PLeafT Z, PLeaf Z, PReal Z]) ?_ ?_
  · der_seq
    · exact d_optAnn hc
    · exact Der.tok _
    · exact Der.tokT _ (by decide)
    · exact Der.tok _
    · exact r_type hc
  · rintro lo hi v ⟨_, rfl, v0, _, m1, rfl, h0, v1, _, m2, rfl, h1, v2, _, m3, rfl, ⟨h2, g2⟩, v3, _, m4, rfl, h3, v4, _, m5, rfl, h4, rfl, hend⟩
    shape_simp
    have e0 : lo.le m1 = true := h0
    have f1 := h1.facts; have f2 := h2.facts; have f3 := h3.facts; have f4 := h4.facts
    exact span_real_sel (a := v1) (b := v4) (n := v2) (by decide) (good_item.mono h1.item e0 (Pos.le_refl _)) (by pos_chain) h4.ok
      (by pos_chain) (NodeOKL.one h4.ok) h2.ok (by pos_chain) (by pos_chain)

theorem d_gModule : Der Γ Δ Z F gModule (PReal Z) := by
  unfold gModule
  refine Der.map (Q := PSeqN [PAny, PLeaf Z, PLeaf Z]) ?_ ?_
  · der_seq
    · exact d_optAnn hc
    · exact Der.tok _
    · exact Der.tok _
  · rintro lo hi v ⟨_, rfl, v0, _, m1, rfl, h0, v1, _, m2, rfl, h1, v2, _, m3, rfl, h2, rfl, hend⟩
    shape_simp
    have e0 : lo.le m1 = true := h0
    have f1 := h1.facts; have f2 := h2.facts
    exact span_real_sel (a := v1) (b := v2) (n := v2) (by decide) (good_item.mono h1.item e0 (Pos.le_refl _)) (by pos_chain) h2.ok
      (by pos_chain) NodeOKL.nil h2.ok (by pos_chain) (Pos.le_refl _)

theorem d_gClass : Der Γ Δ Z F gClass (PReal Z) := by
  unfold gClass
  refine Der.map (Q := PSeqN [PAny, PLeaf Z, PLeafT Z, POpt (PSeqN [PLeaf Z, PLeaf Z, PLeaf Z])]) ?_ ?_
  · der_seq
    · exact d_optAnn hc
    · exact Der.tok _
    · exact Der.tokT _ (by decide)
    · exact Der.opt (by unfold gParentClass; der_seq <;> exact Der.tok _)
  · rintro lo hi v ⟨_, rfl, v0, _, m1, rfl, h0, v1, _, m2, rfl, h1, v2, _, m3, rfl, ⟨h2, g2⟩, v3, _, m4, rfl, h3, rfl, hend⟩
    have e0 : lo.le m1 = true := h0
    have f1 := h1.facts; have f2 := h2.facts
    rcases h3 with ⟨rfl, e3⟩ | ⟨_, rfl, a, _, n1, rfl, ha, b, _, n2, rfl, hb, c, _, n3, rfl, hcc, rfl, hend2⟩
    · shape_simp
      exact span_real_sel (a := v1) (b := v2) (n := v2) (by decide) (good_item.mono h1.item e0 (Pos.le_refl _)) (by pos_chain) h2.ok
        (by pos_chain) NodeOKL.nil h2.ok (by pos_chain) (Pos.le_refl _)
    · shape_simp
      have fa := ha.facts; have fb := hb.facts; have fc := hcc.facts
      exact span_real_sel (a := v1) (b := c) (n := v2) (by decide) (good_item.mono h1.item e0 (Pos.le_refl _)) (by pos_chain) hcc.ok
        (by pos_chain) NodeOKL.nil h2.ok (by pos_chain) (by pos_chain)

theorem d_gMethodName : Der Γ Δ Z F gMethodName (PReal Z) := by
  unfold gMethodName
  refine Der.alt (Der.map (Q := PSeqN [PReal Z, PLeaf Z, PReal Z]) ?_ ?_) (r_identifier hc)
  · der_seq
    · exact r_identifier hc
    · exact Der.tok _
    · exact r_identifier hc
  · rintro lo hi v ⟨_, rfl, v0, _, m1, rfl, h0, v1, _, m2, rfl, h1, v2, _, m3, rfl, h2, rfl, hend⟩
    shape_simp
    have f0 := h0.facts; have f1 := h1.facts; have f2 := h2.facts
    exact span_real (by decide) (by decide) h0.1 (by pos_chain) h2.ok (by pos_chain) (NodeOKL.two h0.ok h2.ok)

end

end Gold.C08
