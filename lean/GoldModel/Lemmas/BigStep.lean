import GoldModel.Lemmas.GoldScoped
/-!
Big-step reasoning principles for the Gold grammar, derived from the interpreter:
`Parses g ts r v` — some fuel makes `g` succeed on `ts` with rest `r`, value `v`, and NO diagnostic;
`Fails g ts`     — some fuel makes `g` fail on `ts` without emitting a diagnostic.
Composition lemmas (one per combinator) let proofs about concrete inputs be carried out at the
level of the grammar instead of unfolding fuel.
-/
namespace Gold.Gram
open Gold Gold.Peg

def Parses (g : G) (ts r : List Tok) (v : Tree) : Prop := ∃ f, runP Γ Δ f g ts = (.ok r v, [])
def Fails (g : G) (ts : List Tok) : Prop := ∃ f e m, runP Γ Δ f g ts = (.err e m, [])

theorem lift_ok {f f' : Nat} {g : G} {ts r : List Tok} {v : Tree} {d : List Diag}
    (h : runP Γ Δ f g ts = (.ok r v, d)) (hle : f ≤ f') : runP Γ Δ f' g ts = (.ok r v, d) := by
  rw [runP_mono Γ Δ f g ts (by rw [h]; rfl) f' hle, h]

theorem lift_err {f f' : Nat} {g : G} {ts e : List Tok} {m : String} {d : List Diag}
    (h : runP Γ Δ f g ts = (.err e m, d)) (hle : f ≤ f') : runP Γ Δ f' g ts = (.err e m, d) := by
  rw [runP_mono Γ Δ f g ts (by rw [h]; rfl) f' hle, h]

/-! ### tokens -/

theorem expTok_hit {k : Kind} {t : Tok} {r : List Tok} (h : t.kind = k) : expTok k (t :: r) = .ok r (.leaf t) := by
  simp [expTok, expTokGo, h]

theorem expTok_miss {k : Kind} {t : Tok} {r : List Tok} (h : t.kind ≠ k) (hc : t.kind ≠ Kind.Comment) :
    ∃ m, expTok k (t :: r) = .err (t :: r) m := by
  simp [expTok, expTokGo, h, hc]

theorem Parses.tok {k : Kind} {t : Tok} {r : List Tok} (h : t.kind = k) : Parses (.tok k) (t :: r) r (.leaf t) :=
  ⟨1, by simp [runP, expTok_hit h]⟩

theorem Fails.tok {k : Kind} {t : Tok} {r : List Tok} (h : t.kind ≠ k) (hc : t.kind ≠ Kind.Comment) :
    Fails (.tok k) (t :: r) := by
  obtain ⟨m, hm⟩ := expTok_miss (r := r) h hc
  exact ⟨1, t :: r, m, by simp [runP, hm]⟩

theorem Fails.tok_nil {k : Kind} : Fails (.tok k) [] := ⟨1, [], "Unexpected EOF", by simp [runP, expTok, expTokGo]⟩

theorem Parses.eps {v : Tree} {ts : List Tok} : Parses (.eps v) ts ts v := ⟨1, by simp [runP]⟩

/-! ### combinators -/

theorem Parses.seq {a b : G} {ts r r2 : List Tok} {va vb : Tree} (ha : Parses a ts r va) (hb : Parses b r r2 vb) :
    Parses (.seq a b) ts r2 (Tree.seq [va, vb]) := by
  obtain ⟨f1, h1⟩ := ha
  obtain ⟨f2, h2⟩ := hb
  refine ⟨max f1 f2 + 1, ?_⟩
  simp only [runP, lift_ok h1 (Nat.le_max_left f1 f2), lift_ok h2 (Nat.le_max_right f1 f2), List.append_nil]

theorem Fails.seq1 {a b : G} {ts : List Tok} (ha : Fails a ts) : Fails (.seq a b) ts := by
  obtain ⟨f, e, m, h⟩ := ha
  exact ⟨f + 1, e, m, by simp only [runP, h]⟩

theorem Fails.seq2 {a b : G} {ts r : List Tok} {va : Tree} (ha : Parses a ts r va) (hb : Fails b r) : Fails (.seq a b) ts := by
  obtain ⟨f1, h1⟩ := ha
  obtain ⟨f2, e, m, h2⟩ := hb
  refine ⟨max f1 f2 + 1, e, m, ?_⟩
  simp only [runP, lift_ok h1 (Nat.le_max_left f1 f2), lift_err h2 (Nat.le_max_right f1 f2), List.append_nil]

theorem Parses.alt1 {a b : G} {ts r : List Tok} {v : Tree} (ha : Parses a ts r v) : Parses (.alt a b) ts r v := by
  obtain ⟨f, h⟩ := ha
  exact ⟨f + 1, by simp only [runP, h]⟩

theorem Parses.alt2 {a b : G} {ts r : List Tok} {v : Tree} (ha : Fails a ts) (hb : Parses b ts r v) : Parses (.alt a b) ts r v := by
  obtain ⟨f1, e, m, h1⟩ := ha
  obtain ⟨f2, h2⟩ := hb
  refine ⟨max f1 f2 + 1, ?_⟩
  simp only [runP, lift_err h1 (Nat.le_max_left f1 f2), lift_ok h2 (Nat.le_max_right f1 f2), List.append_nil]

theorem Fails.alt {a b : G} {ts : List Tok} (ha : Fails a ts) (hb : Fails b ts) : Fails (.alt a b) ts := by
  obtain ⟨f1, e1, m1, h1⟩ := ha
  obtain ⟨f2, e2, m2, h2⟩ := hb
  by_cases hl : e1.length > e2.length
  · exact ⟨max f1 f2 + 1, e2, m2, by
      simp only [runP, lift_err h1 (Nat.le_max_left f1 f2), lift_err h2 (Nat.le_max_right f1 f2), List.append_nil, hl, ↓reduceIte]⟩
  · exact ⟨max f1 f2 + 1, e1, m1, by
      simp only [runP, lift_err h1 (Nat.le_max_left f1 f2), lift_err h2 (Nat.le_max_right f1 f2), List.append_nil, hl, ↓reduceIte]⟩

theorem Parses.map {fn : Tree → Tree} {g : G} {ts r : List Tok} {v : Tree} (h : Parses g ts r v) :
    Parses (.map fn g) ts r (fn v) := by
  obtain ⟨f, h⟩ := h
  exact ⟨f + 1, by simp only [runP, h]⟩

theorem Fails.map {fn : Tree → Tree} {g : G} {ts : List Tok} (h : Fails g ts) : Fails (.map fn g) ts := by
  obtain ⟨f, e, m, h⟩ := h
  exact ⟨f + 1, e, m, by simp only [runP, h]⟩

theorem Parses.ref {n : Nat} {ts r : List Tok} {v : Tree} (h : Parses (Γ n) ts r v) : Parses (.ref n) ts r v := by
  obtain ⟨f, h⟩ := h
  exact ⟨f + 1, by simp only [runP, h]⟩

theorem Fails.ref {n : Nat} {ts : List Tok} (h : Fails (Γ n) ts) : Fails (.ref n) ts := by
  obtain ⟨f, e, m, h⟩ := h
  exact ⟨f + 1, e, m, by simp only [runP, h]⟩

theorem Parses.memo {c : Nat} {b : Bool} {ts r : List Tok} {v : Tree} (h : Parses (Δ c) ts r v) : Parses (.memo c b) ts r v := by
  obtain ⟨f, h⟩ := h
  exact ⟨f + 1, by simp only [runP, h]⟩

theorem Fails.memo {c : Nat} {b : Bool} {ts : List Tok} (h : Fails (Δ c) ts) : Fails (.memo c b) ts := by
  obtain ⟨f, e, m, h⟩ := h
  exact ⟨f + 1, e, m, by simp only [runP, h]⟩

theorem Parses.catchErr {g : G} {ts r : List Tok} {v : Tree} (h : Parses g ts r v) : Parses (.catchErr g) ts r v := by
  obtain ⟨f, h⟩ := h
  exact ⟨f + 1, by simp only [runP, h]⟩

/-! ### `altL`, `toks` (one of several token kinds) -/

theorem Fails.altL_nil {ts : List Tok} : Fails (altL []) ts :=
  ⟨2, ts, "no alternative", by simp [altL, runP]⟩

theorem altL_cons2 (a b : G) (rest : List G) : altL (a :: b :: rest) = .alt a (altL (b :: rest)) := rfl
theorem altL_one (a : G) : altL [a] = a := rfl

/-- an alternative list parses if one member parses and every earlier one fails -/
theorem Parses.altL {pre : List G} {g : G} {post : List G} {ts r : List Tok} {v : Tree}
    (hpre : ∀ a ∈ pre, Fails a ts) (hg : Parses g ts r v) : Parses (altL (pre ++ g :: post)) ts r v := by
  induction pre with
  | nil =>
    cases post with
    | nil => exact hg
    | cons p ps => exact Parses.alt1 hg
  | cons a pre ih =>
    have hrest := ih (fun x hx => hpre x (List.mem_cons_of_mem _ hx))
    cases hp : pre ++ g :: post with
    | nil => simp at hp
    | cons x xs =>
      rw [List.cons_append, hp, altL_cons2]
      rw [hp] at hrest
      exact Parses.alt2 (hpre a List.mem_cons_self) hrest

theorem Fails.altL {gs : List G} {ts : List Tok} (h : ∀ a ∈ gs, Fails a ts) : Fails (altL gs) ts := by
  induction gs with
  | nil => exact Fails.altL_nil
  | cons a rest ih =>
    cases rest with
    | nil => exact h a List.mem_cons_self
    | cons b rest2 =>
      rw [altL_cons2]
      exact Fails.alt (h a List.mem_cons_self) (ih (fun x hx => h x (List.mem_cons_of_mem _ hx)))

theorem Parses.toks {ks : List Kind} {t : Tok} {r : List Tok} (h : t.kind ∈ ks) (hc : t.kind ≠ Kind.Comment) :
    Parses (toks ks) (t :: r) r (.leaf t) := by
  obtain ⟨pre, post, hks, hnot⟩ : ∃ pre post, ks = pre ++ t.kind :: post ∧ t.kind ∉ pre := by
    induction ks with
    | nil => cases h
    | cons k rest ih =>
      by_cases hk : t.kind = k
      · exact ⟨[], rest, by simp [hk], by simp⟩
      · have hin : t.kind ∈ rest := by
          cases h with
          | head => exact absurd rfl hk
          | tail _ h => exact h
        obtain ⟨pre, post, h1, h2⟩ := ih hin
        exact ⟨k :: pre, post, by simp [h1], by simp [h2, hk]⟩
  unfold Gram.toks
  rw [hks, List.map_append, List.map_cons]
  refine Parses.altL ?_ (Parses.tok rfl)
  intro a ha
  obtain ⟨k, hk, rfl⟩ := List.mem_map.mp ha
  exact Fails.tok (fun e => hnot (e ▸ hk)) hc

theorem Fails.toks {ks : List Kind} {t : Tok} {r : List Tok} (h : t.kind ∉ ks) (hc : t.kind ≠ Kind.Comment) :
    Fails (toks ks) (t :: r) := by
  unfold Gram.toks
  refine Fails.altL ?_
  intro a ha
  obtain ⟨k, hk, rfl⟩ := List.mem_map.mp ha
  exact Fails.tok (fun e => h (e ▸ hk)) hc

theorem Fails.toks_nil {ks : List Kind} : Fails (Gram.toks ks) [] := by
  unfold Gram.toks
  refine Fails.altL ?_
  intro a ha
  obtain ⟨k, _, rfl⟩ := List.mem_map.mp ha
  exact Fails.tok_nil

/-! ### `seqL` -/

inductive ParsesList : List G → List Tok → List Tok → List Tree → Prop
  | nil {ts} : ParsesList [] ts ts []
  | cons {a gs ts r r2 v vs} : Parses a ts r v → ParsesList gs r r2 vs → ParsesList (a :: gs) ts r2 (v :: vs)

theorem seqL_cons2 (a b : G) (rest : List G) :
    seqL (a :: b :: rest) = .map (fun v => Tree.seq (v.nth 0 :: (v.nth 1).kids)) (.seq a (seqL (b :: rest))) := rfl

theorem Parses.seqL {gs : List G} {ts r : List Tok} {vs : List Tree} (h : ParsesList gs ts r vs) :
    Parses (seqL gs) ts r (Tree.seq vs) := by
  induction h with
  | nil => exact Parses.eps
  | @cons a gs ts r r2 v vs ha hrest ih =>
    cases hrest with
    | nil => exact Parses.map (fn := fun v => Tree.seq [v]) ha
    | @cons b gs' _ r' _ v' vs' hb hrest' =>
      rw [seqL_cons2]
      have := Parses.map (fn := fun v => Tree.seq (v.nth 0 :: (v.nth 1).kids)) (Parses.seq ha ih)
      simpa [Tree.seq, Tree.nth, Tree.kids] using this

/-- a sequence fails if a prefix parses and the next member fails -/
theorem Fails.seqL {pre : List G} {g : G} {post : List G} {ts r : List Tok} {vs : List Tree}
    (hpre : ParsesList pre ts r vs) (hg : Fails g r) : Fails (seqL (pre ++ g :: post)) ts := by
  induction hpre with
  | nil =>
    cases post with
    | nil => exact Fails.map hg
    | cons p ps => rw [List.nil_append, seqL_cons2]; exact Fails.map (Fails.seq1 hg)
  | @cons a gs ts r r2 v vs ha hrest ih =>
    have := ih hg
    cases hp : gs ++ g :: post with
    | nil => simp at hp
    | cons x xs =>
      rw [List.cons_append, hp, seqL_cons2]
      rw [hp] at this
      exact Fails.map (Fails.seq2 ha this)

/-! ### failing AT the input position (what `recover .silentAt` resumes at) -/

/-- some fuel makes `g` fail on `ts` with the error position `ts` itself and without a diagnostic -/
def FailsAt (g : G) (ts : List Tok) : Prop := ∃ f m, runP Γ Δ f g ts = (.err ts m, [])

theorem FailsAt.fails {g : G} {ts : List Tok} (h : FailsAt g ts) : Fails g ts := by
  obtain ⟨f, m, h⟩ := h
  exact ⟨f, ts, m, h⟩

theorem FailsAt.tok {k : Kind} {t : Tok} {r : List Tok} (h : t.kind ≠ k) (hc : t.kind ≠ Kind.Comment) :
    FailsAt (.tok k) (t :: r) := by
  obtain ⟨m, hm⟩ := expTok_miss (r := r) h hc
  exact ⟨1, m, by simp [runP, hm]⟩

theorem FailsAt.seq1 {a b : G} {ts : List Tok} (ha : FailsAt a ts) : FailsAt (.seq a b) ts := by
  obtain ⟨f, m, h⟩ := ha
  exact ⟨f + 1, m, by simp only [runP, h]⟩

theorem FailsAt.alt {a b : G} {ts : List Tok} (ha : FailsAt a ts) (hb : FailsAt b ts) : FailsAt (.alt a b) ts := by
  obtain ⟨f1, m1, h1⟩ := ha
  obtain ⟨f2, m2, h2⟩ := hb
  exact ⟨max f1 f2 + 1, m1, by
    simp only [runP, lift_err h1 (Nat.le_max_left f1 f2), lift_err h2 (Nat.le_max_right f1 f2), List.append_nil,
      Nat.lt_irrefl, gt_iff_lt, ↓reduceIte]⟩

theorem FailsAt.map {fn : Tree → Tree} {g : G} {ts : List Tok} (h : FailsAt g ts) : FailsAt (.map fn g) ts := by
  obtain ⟨f, m, h⟩ := h
  exact ⟨f + 1, m, by simp only [runP, h]⟩

theorem FailsAt.ref {n : Nat} {ts : List Tok} (h : FailsAt (Γ n) ts) : FailsAt (.ref n) ts := by
  obtain ⟨f, m, h⟩ := h
  exact ⟨f + 1, m, by simp only [runP, h]⟩

theorem FailsAt.memo {c : Nat} {b : Bool} {ts : List Tok} (h : FailsAt (Δ c) ts) : FailsAt (.memo c b) ts := by
  obtain ⟨f, m, h⟩ := h
  exact ⟨f + 1, m, by simp only [runP, h]⟩

theorem FailsAt.altL {gs : List G} {ts : List Tok} (hne : gs ≠ []) (h : ∀ a ∈ gs, FailsAt a ts) : FailsAt (altL gs) ts := by
  induction gs with
  | nil => exact absurd rfl hne
  | cons a rest ih =>
    cases rest with
    | nil => exact h a List.mem_cons_self
    | cons b rest2 =>
      rw [altL_cons2]
      exact FailsAt.alt (h a List.mem_cons_self) (ih (by simp) (fun x hx => h x (List.mem_cons_of_mem _ hx)))

theorem FailsAt.toks {ks : List Kind} {t : Tok} {r : List Tok} (hne : ks ≠ []) (h : t.kind ∉ ks) (hc : t.kind ≠ Kind.Comment) :
    FailsAt (toks ks) (t :: r) := by
  unfold Gram.toks
  refine FailsAt.altL (by simpa using hne) ?_
  intro a ha
  obtain ⟨k, hk, rfl⟩ := List.mem_map.mp ha
  exact FailsAt.tok (fun e => h (e ▸ hk)) hc

/-- a sequence whose first member fails at the input position -/
theorem FailsAt.seqL {g : G} {post : List G} {ts : List Tok} (hg : FailsAt g ts) : FailsAt (seqL (g :: post)) ts := by
  cases post with
  | nil => exact FailsAt.map hg
  | cons p ps => rw [seqL_cons2]; exact FailsAt.map (FailsAt.seq1 hg)

/-! ### the remaining primitives: `opt`, `check`, `ifEof`, `ifTok`, `recover`, `dep` -/

theorem Parses.opt_some {a : G} {ts r : List Tok} {v : Tree} (h : Parses a ts r v) : Parses (.opt a) ts r v := by
  obtain ⟨f, h⟩ := h
  exact ⟨f + 1, by simp only [runP, h]⟩

theorem Parses.opt_none {a : G} {ts : List Tok} (h : Fails a ts) : Parses (.opt a) ts ts Tree.none := by
  obtain ⟨f, e, m, h⟩ := h
  exact ⟨f + 1, by simp only [runP, h]⟩

theorem Parses.check {p : Tree → Bool} {msg : String} {g : G} {ts r : List Tok} {v : Tree}
    (h : Parses g ts r v) (hp : p v = true) : Parses (.check p msg g) ts r v := by
  obtain ⟨f, h⟩ := h
  exact ⟨f + 1, by simp only [runP, h, hp, ↓reduceIte]⟩

theorem Fails.check1 {p : Tree → Bool} {msg : String} {g : G} {ts : List Tok} (h : Fails g ts) : Fails (.check p msg g) ts := by
  obtain ⟨f, e, m, h⟩ := h
  exact ⟨f + 1, e, m, by simp only [runP, h]⟩

theorem Fails.check2 {p : Tree → Bool} {msg : String} {g : G} {ts r : List Tok} {v : Tree}
    (h : Parses g ts r v) (hp : p v = false) : Fails (.check p msg g) ts := by
  obtain ⟨f, h⟩ := h
  exact ⟨f + 1, r, msg, by simp [runP, h, hp]⟩

theorem Parses.ifEof_nil {a b : G} {r : List Tok} {v : Tree} (h : Parses a [] r v) : Parses (.ifEof a b) [] r v := by
  obtain ⟨f, h⟩ := h
  exact ⟨f + 1, by simp only [runP, h]⟩

theorem Parses.ifEof_cons {a b : G} {t : Tok} {ts r : List Tok} {v : Tree} (h : Parses b (t :: ts) r v) :
    Parses (.ifEof a b) (t :: ts) r v := by
  obtain ⟨f, h⟩ := h
  exact ⟨f + 1, by simp only [runP, h]⟩

theorem Fails.ifEof_cons {a b : G} {t : Tok} {ts : List Tok} (h : Fails b (t :: ts)) : Fails (.ifEof a b) (t :: ts) := by
  obtain ⟨f, e, m, h⟩ := h
  exact ⟨f + 1, e, m, by simp only [runP, h]⟩

theorem firstReal_cons {t : Tok} {r : List Tok} (hc : t.kind ≠ Kind.Comment) : firstReal (t :: r) = some (t, r) := by
  simp [firstReal, hc]

theorem Parses.ifTok_hit {ks : List Kind} {a b : G} {ts rest r : List Tok} {t : Tok} {v : Tree}
    (hf : firstReal ts = some (t, rest)) (hk : ks.contains t.kind = true) (h : Parses a rest r v) :
    Parses (.ifTok ks a b) ts r (Tree.seq [.leaf t, v]) := by
  obtain ⟨f, h⟩ := h
  exact ⟨f + 1, by simp only [runP, hf, hk, ↓reduceIte, h]⟩

theorem Parses.ifTok_miss {ks : List Kind} {a b : G} {ts rest r : List Tok} {t : Tok} {v : Tree}
    (hf : firstReal ts = some (t, rest)) (hk : ks.contains t.kind = false) (h : Parses b ts r v) :
    Parses (.ifTok ks a b) ts r v := by
  obtain ⟨f, h⟩ := h
  exact ⟨f + 1, by simp only [runP, hf, hk, Bool.false_eq_true, ↓reduceIte, h]⟩

theorem Parses.ifTok_none {ks : List Kind} {a b : G} {ts r : List Tok} {v : Tree}
    (hf : firstReal ts = none) (h : Parses b ts r v) : Parses (.ifTok ks a b) ts r v := by
  obtain ⟨f, h⟩ := h
  exact ⟨f + 1, by simp only [runP, hf, h]⟩

/-- the item succeeds: no recovery -/
theorem Parses.recover {m : RecMode} {g : G} {ts r : List Tok} {v : Tree} (h : Parses g ts r v) :
    Parses (.recover m g) ts r v := by
  obtain ⟨f, h⟩ := h
  exact ⟨f + 1, by simp only [runP, h]⟩

/-- `match p(next) { Err(e) => (e.input, default) }` when the item fails where it started: nothing consumed, no diagnostic -/
theorem Parses.recover_silent {g : G} {ts : List Tok} (h : FailsAt g ts) : Parses (.recover .silentAt g) ts ts Tree.none := by
  obtain ⟨f, m, h⟩ := h
  exact ⟨f + 1, by simp only [runP, h, recoverStep, List.append_nil]⟩

theorem Parses.dep_yes {a b : G} {test : Tree → Bool} {ts r r2 : List Tok} {va vb : Tree}
    (ha : Parses a ts r va) (ht : test va = true) (hb : Parses b r r2 vb) :
    Parses (.dep a test b) ts r2 (Tree.seq [va, vb]) := by
  obtain ⟨f1, h1⟩ := ha
  obtain ⟨f2, h2⟩ := hb
  refine ⟨max f1 f2 + 1, ?_⟩
  simp only [runP, lift_ok h1 (Nat.le_max_left f1 f2), lift_ok h2 (Nat.le_max_right f1 f2), ht, ↓reduceIte, List.append_nil]

theorem Parses.dep_no {a b : G} {test : Tree → Bool} {ts r : List Tok} {va : Tree}
    (ha : Parses a ts r va) (ht : test va = false) : Parses (.dep a test b) ts r (Tree.seq [va, Tree.none]) := by
  obtain ⟨f, h⟩ := ha
  exact ⟨f + 1, by simp only [runP, h, ht, Bool.false_eq_true, ↓reduceIte]⟩

theorem Fails.dep1 {a b : G} {test : Tree → Bool} {ts : List Tok} (ha : Fails a ts) : Fails (.dep a test b) ts := by
  obtain ⟨f, e, m, h⟩ := ha
  exact ⟨f + 1, e, m, by simp only [runP, h]⟩

end Gold.Gram
