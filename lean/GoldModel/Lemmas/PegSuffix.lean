import GoldModel.Model.Peg
/-! T1: every result of the interpreter points at a suffix of its input -/
namespace Gold.Peg
open Gold

def RSuffix (ts : List Tok) : R → Prop
  | .ok r _ => r <:+ ts
  | .err e _ => e <:+ ts
  | .fuel => True

theorem RSuffix.trans {a b : List Tok} {r : R} (h : RSuffix a r) (hab : a <:+ b) : RSuffix b r := by
  cases r with
  | ok r v => exact List.IsSuffix.trans h hab
  | err e m => exact List.IsSuffix.trans h hab
  | fuel => trivial

theorem expTokGo_suffix (k : Kind) (orig : List Tok) : ∀ l : List Tok, l <:+ orig → RSuffix orig (expTokGo k orig l) := by
  intro l
  induction l with
  | nil => intro _; simp [expTokGo, RSuffix]
  | cons t rest ih =>
    intro h
    have hr : rest <:+ orig := List.IsSuffix.trans (List.suffix_cons t rest) h
    simp only [expTokGo]
    split
    · exact hr
    · split
      · exact ih hr
      · simp [RSuffix]

theorem expTok_suffix (k : Kind) (ts : List Tok) : RSuffix ts (expTok k ts) :=
  expTokGo_suffix k ts ts (List.suffix_refl ts)

theorem expIdentGo_suffix (s : String) (orig : List Tok) : ∀ l : List Tok, l <:+ orig → RSuffix orig (expIdentGo s orig l) := by
  intro l
  induction l with
  | nil => intro _; simp [expIdentGo, RSuffix]
  | cons t rest ih =>
    intro h
    have hr : rest <:+ orig := List.IsSuffix.trans (List.suffix_cons t rest) h
    simp only [expIdentGo]
    split
    · exact hr
    · split
      · exact ih hr
      · simp [RSuffix]

theorem expIdent_suffix (s : String) (ts : List Tok) : RSuffix ts (expIdent s ts) :=
  expIdentGo_suffix s ts ts (List.suffix_refl ts)

theorem firstReal_suffix : ∀ (ts : List Tok) (t : Tok) (rest : List Tok),
    firstReal ts = some (t, rest) → rest <:+ ts ∧ rest.length < ts.length := by
  intro ts
  induction ts with
  | nil => intro t rest h; simp [firstReal] at h
  | cons x xs ih =>
    intro t rest h
    simp only [firstReal] at h
    split at h
    · obtain ⟨h1, h2⟩ := ih t rest h
      exact ⟨List.IsSuffix.trans h1 (List.suffix_cons x xs), by simp; omega⟩
    · simp at h
      obtain ⟨_, h2⟩ := h
      subst h2
      exact ⟨List.suffix_cons x xs, by simp⟩

theorem takeUntil_suffix (ks : List Kind) : ∀ ts : List Tok, (takeUntil ks ts).1 <:+ ts := by
  intro ts
  induction ts with
  | nil => simp [takeUntil]
  | cons t rest ih =>
    simp only [takeUntil]
    split
    · exact List.suffix_cons t rest
    · exact List.IsSuffix.trans ih (List.suffix_cons t rest)

theorem recoverStep_suffix (m : RecMode) (ts e : List Tok) (msg : String) (h : e <:+ ts) :
    (recoverStep m ts e msg).1 <:+ ts := by
  cases m <;> simp only [recoverStep]
  · split
    · exact List.IsSuffix.trans (List.drop_suffix 1 e) h
    · exact h
  · split
    · exact List.IsSuffix.trans (List.drop_suffix 1 e) h
    · exact h
  · exact h
  · exact h

/-- **T1** -/
theorem runP_suffix (Γ Δ : Nat → G) : ∀ (f : Nat) (g : G) (ts : List Tok), RSuffix ts (runP Γ Δ f g ts).1 := by
  intro f
  induction f with
  | zero => intro g ts; simp [runP, RSuffix]
  | succ f ih =>
    intro g ts
    cases g with
    | tok k => simp only [runP]; exact expTok_suffix k ts
    | identVal s => simp only [runP]; exact expIdent_suffix s ts
    | eps v => simp [runP, RSuffix]
    | seq a b =>
      simp only [runP]
      have ha := ih a ts
      rcases hqa : runP Γ Δ f a ts with ⟨ra, da⟩
      rw [hqa] at ha
      cases ra with
      | ok r va =>
        simp only
        have hb := ih b r
        rcases hqb : runP Γ Δ f b r with ⟨rb, db⟩
        rw [hqb] at hb
        cases rb with
        | ok r2 vb => exact List.IsSuffix.trans hb ha
        | err e m => exact List.IsSuffix.trans hb ha
        | fuel => trivial
      | err e m => exact ha
      | fuel => trivial
    | alt a b =>
      simp only [runP]
      have ha := ih a ts
      rcases hqa : runP Γ Δ f a ts with ⟨ra, da⟩
      rw [hqa] at ha
      cases ra with
      | ok r va => exact ha
      | fuel => trivial
      | err e1 m1 =>
        simp only
        have hb := ih b ts
        rcases hqb : runP Γ Δ f b ts with ⟨rb, db⟩
        rw [hqb] at hb
        cases rb with
        | ok r2 vb => exact hb
        | err e2 m2 => simp only; split <;> assumption
        | fuel => trivial
    | opt a =>
      simp only [runP]
      have ha := ih a ts
      rcases hqa : runP Γ Δ f a ts with ⟨ra, da⟩
      rw [hqa] at ha
      cases ra with
      | ok r va => exact ha
      | fuel => trivial
      | err e m => exact List.suffix_refl ts
    | ref n => simp only [runP]; exact ih _ _
    | memo c e => simp only [runP]; exact ih _ _
    | map fn g =>
      simp only [runP]
      have hg := ih g ts
      rcases hq : runP Γ Δ f g ts with ⟨rg, dg⟩
      rw [hq] at hg
      cases rg <;> exact hg
    | check p msg g =>
      simp only [runP]
      have hg := ih g ts
      rcases hq : runP Γ Δ f g ts with ⟨rg, dg⟩
      rw [hq] at hg
      cases rg with
      | ok r v => simp only; split <;> exact hg
      | err e m => exact hg
      | fuel => trivial
    | ifTok ks a b =>
      simp only [runP]
      split
      · rename_i t rest hfr
        obtain ⟨hs, _⟩ := firstReal_suffix ts t rest hfr
        split
        · have ha := ih a rest
          rcases hq : runP Γ Δ f a rest with ⟨ra, da⟩
          rw [hq] at ha
          cases ra with
          | ok r v => exact List.IsSuffix.trans ha hs
          | err e m => exact List.IsSuffix.trans ha hs
          | fuel => trivial
        · exact ih b ts
      · exact ih b ts
    | ifEof a b =>
      simp only [runP]
      split
      · exact ih a []
      · exact ih b _
    | recover m g =>
      simp only [runP]
      have hg := ih g ts
      rcases hq : runP Γ Δ f g ts with ⟨rg, dg⟩
      rw [hq] at hg
      cases rg with
      | ok r v => exact hg
      | fuel => trivial
      | err e msg => exact recoverStep_suffix m ts e msg hg
    | catchErr g =>
      simp only [runP]
      have hg := ih g ts
      rcases hq : runP Γ Δ f g ts with ⟨rg, dg⟩
      rw [hq] at hg
      cases rg with
      | ok r v => exact hg
      | fuel => trivial
      | err e msg => exact List.suffix_refl ts
    | dep a test b =>
      simp only [runP]
      have ha := ih a ts
      rcases hqa : runP Γ Δ f a ts with ⟨ra, da⟩
      rw [hqa] at ha
      cases ra with
      | ok r va =>
        simp only
        split
        · have hb := ih b r
          rcases hqb : runP Γ Δ f b r with ⟨rb, db⟩
          rw [hqb] at hb
          cases rb with
          | ok r2 vb => exact List.IsSuffix.trans hb ha
          | err e m => exact List.IsSuffix.trans hb ha
          | fuel => trivial
        · exact ha
      | err e m => exact ha
      | fuel => trivial
    | emit fn g =>
      simp only [runP]
      have hg := ih g ts
      rcases hq : runP Γ Δ f g ts with ⟨rg, dg⟩
      rw [hq] at hg
      cases rg <;> exact hg
    | reslice ks inner =>
      simp only [runP]
      have hs := takeUntil_suffix ks ts
      rcases htu : takeUntil ks ts with ⟨rest, body, e⟩
      rw [htu] at hs
      simp only
      cases body with
      | nil => exact hs
      | cons b0 bs =>
        simp only
        rcases hq : runP Γ Δ f inner (b0 :: bs) with ⟨ri, di⟩
        cases ri with
        | ok r v => exact hs
        | fuel => trivial
        | err e2 msg => exact hs
    | skipTo ks =>
      simp only [runP]
      have hs := takeUntil_suffix ks ts
      rcases htu : takeUntil ks ts with ⟨rest, body, e⟩
      rw [htu] at hs
      exact hs
    | prepend s g =>
      simp only [runP]
      have hg := ih g ts
      rcases hq : runP Γ Δ f g ts with ⟨rg, dg⟩
      rw [hq] at hg
      cases rg <;> exact hg

end Gold.Peg
