import GoldModel.Model.SymTab
/-! helper lemmas for C18 (M-SYM refines "nested case-insensitive maps") -/
namespace Gold.Sym

variable (norm : String → String)

/-! ### the specification: a chain of insertion histories -/

/-- most recent insertion whose folded name is `k` -/
def Spec.last (ins : List Sym) (k : String) : Option Sym :=
  ins.reverse.find? (fun x => norm x.id = k)

/-- nearest scope that has `k`, most recent insertion there -/
def Spec.lookup : List (List Sym) → String → Option Sym
  | [], _ => none
  | ins :: rest, k =>
    match Spec.last norm ins k with
    | some x => some x
    | none => Spec.lookup rest k

/-- each name once (its most recent insertion), in insertion order -/
def Spec.live : List Sym → List Sym
  | [] => []
  | x :: rest =>
    if rest.any (fun y => norm y.id = norm x.id) then Spec.live rest else x :: Spec.live rest

/-- merged listing: nearest scope first, a name already listed hides farther ones -/
def Spec.merged : List (List Sym) → List Sym
  | [] => []
  | ins :: rest =>
    Spec.live norm ins ++
      (Spec.merged rest).filter (fun y => !(ins.any (fun x => norm x.id = norm y.id)))

/-! ### index of the last insertion of a key -/

def lastIdx (k : String) : List Sym → Option Nat
  | [] => none
  | x :: rest =>
    match lastIdx k rest with
    | some i => some (i + 1)
    | none => if norm x.id = k then some 0 else none

theorem lastIdx_append (k : String) (l : List Sym) (x : Sym) :
    lastIdx norm k (l ++ [x]) = if norm x.id = k then some l.length else lastIdx norm k l := by
  induction l with
  | nil => simp [lastIdx]
  | cons y ys ih =>
    simp only [List.cons_append, lastIdx, ih]
    by_cases h : norm x.id = k
    · simp [h]
    · simp [h]

theorem lastIdx_lt {k : String} {l : List Sym} {i : Nat} (h : lastIdx norm k l = some i) :
    i < l.length := by
  induction l generalizing i with
  | nil => simp [lastIdx] at h
  | cons y ys ih =>
    simp only [lastIdx] at h
    cases hq : lastIdx norm k ys with
    | some j =>
      rw [hq] at h; simp at h; have := ih hq; simp; omega
    | none =>
      rw [hq] at h; simp at h; simp; omega

theorem getElem_lastIdx (k : String) (l : List Sym) :
    (match lastIdx norm k l with | some i => l[i]? | none => none) = Spec.last norm l k := by
  induction l with
  | nil => simp [lastIdx, Spec.last]
  | cons y ys ih =>
    simp only [lastIdx, Spec.last, List.reverse_cons, List.find?_append] at ih ⊢
    cases hq : lastIdx norm k ys with
    | some j =>
      rw [hq] at ih
      simp only at ih
      simp only [List.getElem?_cons_succ]
      rw [← ih]
      have := lastIdx_lt norm hq
      simp [this]
    | none =>
      rw [hq] at ih
      simp only at ih
      rw [← ih]
      by_cases h : norm y.id = k <;> simp [h]

/-! ### table invariant -/

/-- the `hash_map` holds, for every key, the index of its last insertion -/
def Scope.WF (s : Scope) : Prop := ∀ k, s.map.get k = lastIdx norm k s.syms

theorem Scope.wf_empty (cls : String) : (Scope.empty cls).WF norm := by
  intro k; simp [Scope.empty, IdxMap.get, lastIdx]

theorem Scope.wf_insert {s : Scope} (h : s.WF norm) (x : Sym) : (s.insert norm x).WF norm := by
  intro k
  simp only [Scope.insert, IdxMap.insert, IdxMap.get, lastIdx_append]
  by_cases hk : norm x.id = k
  · simp [hk]
  · simp [hk, h k]

theorem Scope.find_eq {s : Scope} (h : s.WF norm) (id : String) :
    s.find norm id = Spec.last norm s.syms (norm id) := by
  unfold Scope.find
  rw [h (norm id)]
  exact getElem_lastIdx norm (norm id) s.syms

/-- a chain all of whose tables satisfy the invariant -/
def ChainWF (c : Chain) : Prop := ∀ s ∈ c, Scope.WF norm s

theorem chainWF_drop {c : Chain} (h : ChainWF norm c) (i : Nat) : ChainWF norm (c.drop i) :=
  fun s hs => h s (List.mem_of_mem_drop hs)

theorem chainWF_modify_insert {c : Chain} (h : ChainWF norm c) (i : Nat) (x : Sym) :
    ChainWF norm (c.modify i (fun s => s.insert norm x)) := by
  intro s hs
  rw [List.mem_iff_getElem?] at hs
  obtain ⟨j, hj⟩ := hs
  rw [List.getElem?_modify] at hj
  cases hc : c[j]? with
  | none => simp [hc] at hj
  | some t =>
    have ht : t ∈ c := List.mem_of_getElem? hc
    by_cases e : i = j
    · simp [hc, e] at hj; subst hj; exact Scope.wf_insert norm (h t ht) x
    · simp [hc, e] at hj; subst hj; exact h t ht

theorem chainWF_exec (ops : List Op) {c : Chain} (h : ChainWF norm c) :
    ChainWF norm (exec norm ops c) := by
  induction ops generalizing c with
  | nil => exact h
  | cons op ops ih =>
    simp only [exec, List.foldl_cons]
    apply ih
    cases op with
    | insert i x => exact chainWF_modify_insert norm h i x

/-! ### `live` -/

theorem filterMap_congr' {α β} {f g : α → Option β} {l : List α} (h : ∀ x ∈ l, f x = g x) :
    l.filterMap f = l.filterMap g := by
  induction l with
  | nil => rfl
  | cons a as ih =>
    simp only [List.filterMap_cons, h a List.mem_cons_self]
    rw [ih (fun x hx => h x (List.mem_cons_of_mem _ hx))]

theorem lastIdx_none_iff (k : String) (l : List Sym) :
    lastIdx norm k l = none ↔ l.any (fun y => norm y.id = k) = false := by
  induction l with
  | nil => simp [lastIdx]
  | cons y ys ih =>
    simp only [lastIdx, List.any_cons]
    cases hq : lastIdx norm k ys with
    | some j =>
      have : ¬ (ys.any (fun y => decide (norm y.id = k)) = false) := by
        intro hc; rw [← ih] at hc; rw [hq] at hc; cases hc
      simp at this ⊢
      obtain ⟨z, hz, hk⟩ := this
      intro _
      exact ⟨z, hz, hk⟩
    | none =>
      have h2 := ih.mp hq
      by_cases h : norm y.id = k <;> simp [h, h2]

theorem lastIdx_cons_succ (k : String) (x : Sym) (rest : List Sym) (i : Nat) :
    lastIdx norm k (x :: rest) = some (i + 1) ↔ lastIdx norm k rest = some i := by
  simp only [lastIdx]
  cases lastIdx norm k rest with
  | some j => simp
  | none => by_cases h : norm x.id = k <;> simp [h]

theorem live_aux (l : List Sym) :
    (l.zipIdx).filterMap (fun (p : Sym × Nat) =>
        if lastIdx norm (norm p.1.id) l = some p.2 then some p.1 else none) = Spec.live norm l := by
  induction l with
  | nil => simp [Spec.live]
  | cons x rest ih =>
    rw [List.zipIdx_cons, List.filterMap_cons]
    have hrest : (rest.zipIdx (0 + 1)).filterMap (fun (p : Sym × Nat) =>
        if lastIdx norm (norm p.1.id) (x :: rest) = some p.2 then some p.1 else none)
        = Spec.live norm rest := by
      rw [← ih, List.zipIdx_succ, List.filterMap_map]
      apply filterMap_congr'
      intro p _
      simp only [Function.comp, lastIdx_cons_succ]
    rw [hrest]
    simp only [Spec.live, lastIdx]
    cases hq : lastIdx norm (norm x.id) rest with
    | some j =>
      have : rest.any (fun y => decide (norm y.id = norm x.id)) = true := by
        cases hb : rest.any (fun y => decide (norm y.id = norm x.id)) with
        | true => rfl
        | false => rw [← lastIdx_none_iff] at hb; rw [hb] at hq; cases hq
      simp [this]
    | none =>
      have := (lastIdx_none_iff norm _ _).mp hq
      simp [this]

theorem Scope.live_eq {s : Scope} (h : s.WF norm) : s.live norm = Spec.live norm s.syms := by
  unfold Scope.live
  rw [← live_aux]
  apply filterMap_congr'
  intro p _
  obtain ⟨x, i⟩ := p
  simp only [h (norm x.id)]

theorem live_any (l : List Sym) (k : String) :
    (Spec.live norm l).any (fun x => norm x.id = k) = l.any (fun x => norm x.id = k) := by
  induction l with
  | nil => simp [Spec.live]
  | cons x rest ih =>
    simp only [Spec.live]
    split
    · rename_i hany
      simp only [List.any_cons, ih]
      by_cases hx : norm x.id = k
      · subst hx; simp [hany]
      · simp [hx]
    · simp only [List.any_cons, ih]

theorem live_sub (l : List Sym) : ∀ x ∈ Spec.live norm l, x ∈ l := by
  induction l with
  | nil => simp [Spec.live]
  | cons y rest ih =>
    intro x hx
    simp only [Spec.live] at hx
    split at hx
    · exact List.mem_cons_of_mem _ (ih x hx)
    · cases hx with
      | head => exact List.mem_cons_self
      | tail _ h => exact List.mem_cons_of_mem _ (ih x h)

end Gold.Sym
