import GoldModel.Model.Lexer
/-!
Helper lemmas for C05 (M-LEX), part 1: the sub-readers.

`recNl off lp m` is what `line_pos` has to be after the chars `m`, the first of which has index
`off`, have been consumed: every `\n` is recorded at its own index.  Every reader is shown to
consume a prefix `m` of its input, to advance the offset by `m.length` and to leave
`line_pos = recNl off lp m`.
-/
namespace Gold.Lex

def isBlank (c : Char) : Prop := c = ' ' ∨ c = '\t' ∨ c = '\n' ∨ c = '\r'

instance (c : Char) : Decidable (isBlank c) := by unfold isBlank; infer_instance

/-- `line_pos` after consuming `m` (first char at index `off`), newest first -/
def recNl (off : Nat) (lp : List Nat) : List Char → List Nat
  | [] => lp
  | c :: m => recNl (off + 1) (if c = '\n' then off :: lp else lp) m

theorem recNl_append (off : Nat) (lp : List Nat) (a b : List Char) :
    recNl off lp (a ++ b) = recNl (off + a.length) (recNl off lp a) b := by
  induction a generalizing off lp with
  | nil => simp [recNl]
  | cons c a ih => simp only [List.cons_append, recNl, ih, List.length_cons]; congr 1; omega

theorem recNl_noNl (off : Nat) (lp : List Nat) (m : List Char) (h : ∀ c ∈ m, c ≠ '\n') :
    recNl off lp m = lp := by
  induction m generalizing off lp with
  | nil => rfl
  | cons c m ih =>
    have hc : c ≠ '\n' := h c (by simp)
    simp only [recNl, hc, if_false]
    exact ih _ _ (fun d hd => h d (by simp [hd]))

/-! ### the specification of a token's extent

The implementation does not store how many chars a token consumed.  `specExtent l value` is the
length of the lexeme that starts at `l` (the text from the token's offset on), given the value
the token reports: a quoted literal runs to its closing quote (or to the end of the text), a
comment is `;` + its value, everything else is its value. -/

/-- chars of a `'…'` literal after the opening quote, closing quote included (`''` = escaped quote) -/
def litLen1 : List Char → Nat
  | [] => 0
  | [_] => 1
  | c :: c2 :: r => if c = '\'' then (if c2 = '\'' then 2 + litLen1 r else 1) else 1 + litLen1 (c2 :: r)

/-- chars of a `"…"` literal after the opening quote, closing quote included -/
def litLen2 : List Char → Nat
  | [] => 0
  | c :: r => if c = '"' then 1 else 1 + litLen2 r

def specExtent (l : List Char) (value : List Char) : Nat :=
  match l with
  | c :: r =>
    if c = '\'' then 1 + litLen1 r
    else if c = '"' then 1 + litLen2 r
    else if c = ';' then 1 + value.length
    else value.length
  | [] => value.length

/-! ### skip_whitespace -/

theorem skipWs_spec (l : List Char) (off : Nat) (lp : List Nat) :
    ∃ ws, l = ws ++ (skipWs l off lp).1 ∧ (∀ c ∈ ws, isBlank c) ∧
      (skipWs l off lp).2.1 = off + ws.length ∧ (skipWs l off lp).2.2 = recNl off lp ws ∧
      (∀ c r, (skipWs l off lp).1 = c :: r → ¬ isBlank c) := by
  fun_induction skipWs l off lp
  case case1 => exact ⟨[], by simp [recNl]⟩
  case case2 c off lp h =>
    refine ⟨[c], by simp, ?_, by simp, ?_, by simp⟩
    · intro d hd; simp only [List.mem_singleton] at hd; subst hd
      rcases h with h | h <;> simp [isBlank, h]
    · rcases h with h | h <;> subst h <;> simp [recNl]
  case case3 => exact ⟨['\n'], by simp [recNl, isBlank]⟩
  case case4 => exact ⟨['\r'], by simp [recNl, isBlank]⟩
  case case5 c off lp h1 h2 h3 =>
    refine ⟨[], by simp, by simp, by simp, by simp [recNl], ?_⟩
    intro d r hd; simp only [List.cons.injEq] at hd; rw [← hd.1]
    simp only [isBlank]; simp_all
  case case6 c c2 r2 off lp h ih =>
    obtain ⟨ws, h1, h2, h3, h4, h5⟩ := ih
    refine ⟨c :: ws, by rw [List.cons_append, ← h1], ?_, by rw [h3]; simp; omega, ?_, h5⟩
    · intro d hd; simp only [List.mem_cons] at hd
      rcases hd with hd | hd
      · subst hd; rcases h with h | h <;> simp [isBlank, h]
      · exact h2 d hd
    · rw [h4]; rcases h with h | h <;> subst h <;> simp [recNl]
  case case7 c2 r2 off lp h ih =>
    obtain ⟨ws, h1, h2, h3, h4, h5⟩ := ih
    refine ⟨'\n' :: ws, by rw [List.cons_append, ← h1], ?_, by rw [h3]; simp; omega, by rw [h4]; simp [recNl], h5⟩
    intro d hd; simp only [List.mem_cons] at hd
    rcases hd with hd | hd
    · subst hd; simp [isBlank]
    · exact h2 d hd
  case case8 r2 off lp h1' h2' ih =>
    obtain ⟨ws, h1, h2, h3, h4, h5⟩ := ih
    refine ⟨'\r' :: '\n' :: ws, by rw [List.cons_append, List.cons_append, ← h1], ?_, by rw [h3]; simp; omega,
      by rw [h4]; simp [recNl], h5⟩
    intro d hd; simp only [List.mem_cons] at hd
    rcases hd with hd | hd | hd
    · subst hd; simp [isBlank]
    · subst hd; simp [isBlank]
    · exact h2 d hd
  case case9 c2 r2 off lp hc h1' h2' ih =>
    obtain ⟨ws, h1, h2, h3, h4, h5⟩ := ih
    refine ⟨'\r' :: ws, by rw [List.cons_append, ← h1], ?_, by rw [h3]; simp; omega, by rw [h4]; simp [recNl], h5⟩
    intro d hd; simp only [List.mem_cons] at hd
    rcases hd with hd | hd
    · subst hd; simp [isBlank]
    · exact h2 d hd
  case case10 c c2 r2 off lp h1 h2 h3 =>
    refine ⟨[], by simp, by simp, by simp, by simp [recNl], ?_⟩
    intro d r hd; simp only [List.cons.injEq] at hd; rw [← hd.1]
    simp only [isBlank]; simp_all

/-! ### the quoted-literal readers (repaired code: `rec = true`) -/

theorem readStr1_spec (r : List Char) (off : Nat) (lp : List Nat) :
    ∃ m, r = m ++ (readStr1 true r off lp).2.1 ∧ (readStr1 true r off lp).2.2.1 = off + m.length ∧
      (readStr1 true r off lp).2.2.2 = recNl off lp m := by
  fun_induction readStr1 true r off lp
  case case1 => exact ⟨[], by simp [recNl]⟩
  case case2 off lp r2 x ih =>
    obtain ⟨m, h1, h2, h3⟩ := ih
    refine ⟨'\'' :: '\'' :: m, ?_, ?_, ?_⟩
    · simp only [List.cons_append, List.cons.injEq, true_and]; exact h1
    · simp only [x, h2, List.length_cons]; omega
    · simp only [x, h3, recNl]; simp
  case case3 off lp c2 r2 h => exact ⟨['\''], by simp [recNl]⟩
  case case4 off lp => exact ⟨['\''], by simp [recNl]⟩
  case case5 c r off lp h x ih =>
    obtain ⟨m, h1, h2, h3⟩ := ih
    refine ⟨c :: m, ?_, ?_, ?_⟩
    · simp only [List.cons_append, List.cons.injEq, true_and]; exact h1
    · simp only [x, List.length_cons]; simp only [eq_self, true_and] at h2 ⊢; rw [h2]; omega
    · simp only [x, recNl]; simp only [eq_self, true_and] at h3 ⊢; rw [h3]

theorem readStr2_spec (r : List Char) (off : Nat) (lp : List Nat) :
    ∃ m, r = m ++ (readStr2 true r off lp).2.1 ∧ (readStr2 true r off lp).2.2.1 = off + m.length ∧
      (readStr2 true r off lp).2.2.2 = recNl off lp m := by
  fun_induction readStr2 true r off lp
  case case1 => exact ⟨[], by simp [recNl]⟩
  case case2 r off lp => exact ⟨['"'], by simp [recNl]⟩
  case case3 c r off lp h x ih =>
    obtain ⟨m, h1, h2, h3⟩ := ih
    refine ⟨c :: m, ?_, ?_, ?_⟩
    · simp only [List.cons_append, List.cons.injEq, true_and]; exact h1
    · simp only [x, List.length_cons]; simp only [eq_self, true_and] at h2 ⊢; rw [h2]; omega
    · simp only [x, recNl]; simp only [eq_self, true_and] at h3 ⊢; rw [h3]

theorem readStr1_len (rec : Bool) (r : List Char) (off : Nat) (lp : List Nat) :
    (readStr1 rec r off lp).2.2.1 = off + litLen1 r := by
  fun_induction readStr1 rec r off lp
  case case1 => simp [litLen1]
  case case2 off lp r2 x ih => simp only [x, ih, litLen1, if_true]; omega
  case case3 off lp c2 r2 h => simp [litLen1, h]
  case case4 off lp => simp [litLen1]
  case case5 c r off lp h x ih =>
    simp only [x, ih]
    cases r with
    | nil => simp [litLen1]
    | cons c2 r2 => simp only [litLen1, h, if_false]; omega

theorem readStr2_len (rec : Bool) (r : List Char) (off : Nat) (lp : List Nat) :
    (readStr2 rec r off lp).2.2.1 = off + litLen2 r := by
  fun_induction readStr2 rec r off lp
  case case1 => simp [litLen2]
  case case2 r off lp => simp [litLen2]
  case case3 c r off lp h x ih => simp only [x, ih, litLen2, h, if_false]; omega

/-! ### facts about the generated tables (re-checked against the regenerated tables on every build) -/

theorem mem_of_lookup {α β} [BEq α] [LawfulBEq α] (l : List (α × β)) (a : α) (b : β)
    (h : l.lookup a = some b) : (a, b) ∈ l := by
  induction l with
  | nil => simp [List.lookup] at h
  | cons p l ih =>
    obtain ⟨a', b'⟩ := p
    simp only [List.lookup] at h
    split at h
    · rename_i heq
      have : a = a' := by simpa using heq
      simp only [Option.some.injEq] at h
      subst this; subst h; simp
    · exact List.mem_cons_of_mem _ (ih h)

theorem mem_takeWhile_imp {α} {p : α → Bool} {l : List α} {x : α} (h : x ∈ l.takeWhile p) : p x = true := by
  induction l with
  | nil => simp at h
  | cons a l ih =>
    simp only [List.takeWhile_cons] at h
    split at h
    · rename_i hp
      simp only [List.mem_cons] at h
      rcases h with rfl | h
      · exact hp
      · exact ih h
    · simp at h

theorem inClass_mono (A B : List (Char × Char)) (h : ∀ p ∈ A, p ∈ B) (c : Char) :
    inClass A c = true → inClass B c = true := by
  simp only [inClass, List.any_eq_true]
  rintro ⟨p, hp, hc⟩
  exact ⟨p, h p hp, hc⟩

theorem wordStart_cont (c : Char) : isWordStart c = true → isWordCont c = true :=
  inClass_mono _ _ (by decide) c

theorem numStart_cont (c : Char) : isNumStart c = true → isNumCont c = true :=
  inClass_mono _ _ (by decide) c

theorem wordCont_noNl (c : Char) (h : isWordCont c = true) : c ≠ '\n' := by
  intro e; subst e; revert h; decide

theorem numCont_noNl (c : Char) (h : isNumCont c = true) : c ≠ '\n' := by
  intro e; subst e; revert h; decide

theorem digit_noNl (c : Char) (h : isDigit09 c = true) : c ≠ '\n' := by
  intro e; subst e; revert h; decide

/-- every char that `read_symbol` hands to `read_double_char_op` has a branch there -/
theorem dbl_total_tbl :
    symDispatch.all (fun p => p.2 != .doubleOp || (dblTable.lookup p.1).isSome) = true := by decide +kernel

/-- the value written for a double / single operator is the text it was read from; the second
    char of a double operator is never a line feed -/
theorem dbl_values_tbl :
    dblTable.all (fun e => e.2.2.2.toList == [e.1] &&
      e.2.1.all (fun d => d.2.2.toList == [e.1, d.1] && d.1 != '\n')) = true := by decide +kernel

/-- only `#` is dispatched to `read_int_char_literal` (which writes a `#` into the value) -/
theorem intChar_hash_tbl :
    symDispatch.all (fun p => p.2 != .intChar || p.1 == '#') = true := by decide +kernel

/-- the three characters `specExtent` treats specially are dispatched to the matching readers,
    and nothing else is -/
theorem special_tbl :
    symDispatch.all (fun p =>
      (p.2 == .strSingle) == (p.1 == '\'') && (p.2 == .strDouble) == (p.1 == '"') &&
      (p.2 == .comment) == (p.1 == ';')) = true := by decide +kernel

theorem special_of_lookup (c : Char) (a : SymAction) (h : symDispatch.lookup c = some a) :
    (a = .strSingle ↔ c = '\'') ∧ (a = .strDouble ↔ c = '"') ∧ (a = .comment ↔ c = ';') := by
  have := List.all_eq_true.mp special_tbl _ (mem_of_lookup _ _ _ h)
  simp only [Bool.and_eq_true, beq_iff_eq] at this
  obtain ⟨⟨h1, h2⟩, h3⟩ := this
  refine ⟨?_, ?_, ?_⟩
  · constructor <;> intro e <;> simp_all
  · constructor <;> intro e <;> simp_all
  · constructor <;> intro e <;> simp_all

theorem wordStart_notSpecial (c : Char) (h : isWordStart c = true) : c ≠ '\'' ∧ c ≠ '"' ∧ c ≠ ';' := by
  refine ⟨?_, ?_, ?_⟩ <;> (intro e; subst e; revert h; decide)

theorem numStart_notSpecial (c : Char) (h : isNumStart c = true) : c ≠ '\'' ∧ c ≠ '"' ∧ c ≠ ';' := by
  refine ⟨?_, ?_, ?_⟩ <;> (intro e; subst e; revert h; decide)

theorem specExtent_plain (c : Char) (r v : List Char) (h : c ≠ '\'' ∧ c ≠ '"' ∧ c ≠ ';') :
    specExtent (c :: r) v = v.length := by
  simp [specExtent, h.1, h.2.1, h.2.2]

theorem dbl_total (c : Char) (h : symDispatch.lookup c = some .doubleOp) :
    ∃ e, dblTable.lookup c = some e := by
  have := List.all_eq_true.mp dbl_total_tbl _ (mem_of_lookup _ _ _ h)
  simp only [bne_self_eq_false, Bool.false_or, Option.isSome_iff_exists] at this
  exact this

theorem dbl_single_value (c : Char) (ds) (single : Kind × String) (h : dblTable.lookup c = some (ds, single)) :
    single.2.toList = [c] := by
  have := List.all_eq_true.mp dbl_values_tbl _ (mem_of_lookup _ _ _ h)
  simp only [Bool.and_eq_true, beq_iff_eq] at this
  exact this.1

theorem dbl_double_value (c d : Char) (ds) (single : Kind × String) (k : Kind) (v : String)
    (h : dblTable.lookup c = some (ds, single)) (hd : ds.lookup d = some (k, v)) :
    v.toList = [c, d] ∧ d ≠ '\n' := by
  have := List.all_eq_true.mp dbl_values_tbl _ (mem_of_lookup _ _ _ h)
  simp only [Bool.and_eq_true, beq_iff_eq] at this
  have := List.all_eq_true.mp this.2 _ (mem_of_lookup _ _ _ hd)
  simpa using this

theorem intChar_hash (c : Char) (h : symDispatch.lookup c = some .intChar) : c = '#' := by
  have := List.all_eq_true.mp intChar_hash_tbl _ (mem_of_lookup _ _ _ h)
  simpa using this

end Gold.Lex
