import GoldModel.Lemmas.GoldWF
/-!
Where diagnostics START: every diagnostic the interpreter emits on input `ts` starts at the start of a token OF `ts`
(`runP_dstart`), for every grammar whose tables pass the decidable check `dOK` — every reporting `recover` is reached on
non-empty input only — and whose `emit` sites report on the leaf of the first token their item consumed (`EmitsOK`).
The Gold tables pass (`gold_dtables`), so in particular the diagnostics of a method body lie at tokens of THAT body
(`Props/C09Prog.lean`).  Complements T5 (`Lemmas/RangeInv*.lean`), which bounds where diagnostics END.
-/
namespace Gold.Peg
open Gold

/-- every diagnostic starts where some token of `ts` starts -/
def DStart (ts : List Tok) (d : List Diag) : Prop := ∀ x ∈ d, ∃ t ∈ ts, x.rng.s = t.rng.s

theorem DStart.nil {ts : List Tok} : DStart ts [] := by intro x hx; cases hx

theorem DStart.append {ts : List Tok} {a b : List Diag} (ha : DStart ts a) (hb : DStart ts b) : DStart ts (a ++ b) := by
  intro x hx
  rcases List.mem_append.mp hx with h | h
  · exact ha x h
  · exact hb x h

theorem DStart.mono {a b : List Tok} {d : List Diag} (h : DStart a d) (hs : ∀ t ∈ a, t ∈ b) : DStart b d := by
  intro x hx
  obtain ⟨t, ht, e⟩ := h x hx
  exact ⟨t, hs t ht, e⟩

theorem DStart.of_suffix {a b : List Tok} {d : List Diag} (h : DStart a d) (hs : a <:+ b) : DStart b d :=
  h.mono (fun _ ht => hs.subset ht)

/-! ### the check -/

/-- `ne`: the input is known to be non-empty.  A reporting `recover` needs it (on empty input its diagnostic has no token to
    sit on); `ifEof` provides it; it is lost after anything that may consume.  `emit` is accepted in the two shapes the
    grammar uses: around `seqL (tok k :: …)` and around `dep (seqL (tok k :: …)) …`. -/
def dOK (ne : Bool) : G → Bool
  | .tok _ => true
  | .identVal _ => true
  | .eps _ => true
  | .skipTo _ => true
  | .ref _ => true
  | .memo _ _ => true
  | .seq a b => dOK ne a && dOK false b
  | .alt a b => dOK ne a && dOK ne b
  | .opt a => dOK ne a
  | .map _ g => dOK ne g
  | .check _ _ g => dOK ne g
  | .catchErr g => dOK ne g
  | .prepend _ g => dOK ne g
  | .ifTok _ a b => dOK false a && dOK ne b
  | .ifEof a b => dOK false a && dOK true b
  | .recover m g => (m == .silentAt || ne) && dOK ne g
  | .dep a _ b => dOK ne a && dOK false b
  | .emit _ (.map _ (.seq (.tok _) q)) => dOK false q
  | .emit _ (.dep (.map _ (.seq (.tok _) q)) _ b) => dOK false q && dOK false b
  | .emit _ _ => false
  | .reslice _ inner => dOK true inner

/-- every `emit` reports on the range of the first component of its item's value (the leaf of the first token) -/
def EmitsOK : G → Prop
  | .emit fn (.map m (.seq (.tok _) q)) =>
    (∀ va vb x, fn (m (Tree.seq [va, vb])) = some x → x.rng = va.rng) ∧ EmitsOK q
  | .emit fn (.dep (.map m (.seq (.tok _) q)) _ b) =>
    (∀ va vb w x, fn (Tree.seq [m (Tree.seq [va, vb]), w]) = some x → x.rng = va.rng) ∧ EmitsOK q ∧ EmitsOK b
  | .emit _ _ => False
  | .seq a b => EmitsOK a ∧ EmitsOK b
  | .alt a b => EmitsOK a ∧ EmitsOK b
  | .opt a => EmitsOK a
  | .map _ g => EmitsOK g
  | .check _ _ g => EmitsOK g
  | .catchErr g => EmitsOK g
  | .prepend _ g => EmitsOK g
  | .ifTok _ a b => EmitsOK a ∧ EmitsOK b
  | .ifEof a b => EmitsOK a ∧ EmitsOK b
  | .recover _ g => EmitsOK g
  | .dep a _ b => EmitsOK a ∧ EmitsOK b
  | .reslice _ inner => EmitsOK inner
  | .tok _ => True
  | .identVal _ => True
  | .eps _ => True
  | .skipTo _ => True
  | .ref _ => True
  | .memo _ _ => True

/-- no `emit` at all -/
def noEmit : G → Bool
  | .emit _ _ => false
  | .seq a b => noEmit a && noEmit b
  | .alt a b => noEmit a && noEmit b
  | .opt a => noEmit a
  | .map _ g => noEmit g
  | .check _ _ g => noEmit g
  | .catchErr g => noEmit g
  | .prepend _ g => noEmit g
  | .ifTok _ a b => noEmit a && noEmit b
  | .ifEof a b => noEmit a && noEmit b
  | .recover _ g => noEmit g
  | .dep a _ b => noEmit a && noEmit b
  | .reslice _ inner => noEmit inner
  | _ => true

theorem noEmit_ok : ∀ g : G, noEmit g = true → EmitsOK g := by
  intro g
  induction g with
  | emit fn g ih => intro h; simp [noEmit] at h
  | seq a b iha ihb => intro h; simp only [noEmit, Bool.and_eq_true] at h; exact ⟨iha h.1, ihb h.2⟩
  | alt a b iha ihb => intro h; simp only [noEmit, Bool.and_eq_true] at h; exact ⟨iha h.1, ihb h.2⟩
  | opt a ih => intro h; exact ih h
  | map fn g ih => intro h; exact ih h
  | check p msg g ih => intro h; exact ih h
  | catchErr g ih => intro h; exact ih h
  | prepend s g ih => intro h; exact ih h
  | ifTok ks a b iha ihb => intro h; simp only [noEmit, Bool.and_eq_true] at h; exact ⟨iha h.1, ihb h.2⟩
  | ifEof a b iha ihb => intro h; simp only [noEmit, Bool.and_eq_true] at h; exact ⟨iha h.1, ihb h.2⟩
  | recover m g ih => intro h; exact ih h
  | dep a t b iha ihb => intro h; simp only [noEmit, Bool.and_eq_true] at h; exact ⟨iha h.1, ihb h.2⟩
  | reslice ks inner ih => intro h; exact ih h
  | tok k => intro _; trivial
  | identVal s => intro _; trivial
  | eps v => intro _; trivial
  | skipTo ks => intro _; trivial
  | ref n => intro _; trivial
  | memo c e => intro _; trivial

/-- what the tables must satisfy -/
structure DTables (Γ Δ : Nat → G) : Prop where
  okΓ : ∀ n, dOK false (Γ n) = true
  okΔ : ∀ c, dOK false (Δ c) = true
  emΓ : ∀ n, EmitsOK (Γ n)
  emΔ : ∀ c, EmitsOK (Δ c)

/-! ### primitives -/

theorem expTokGo_leaf (k : Kind) (orig : List Tok) : ∀ (l r : List Tok) (v : Tree),
    expTokGo k orig l = .ok r v → ∃ t ∈ l, v = .leaf t := by
  intro l
  induction l with
  | nil => intro r v h; simp [expTokGo] at h
  | cons t rest ih =>
    intro r v h
    simp only [expTokGo] at h
    split at h
    · simp only [R.ok.injEq] at h
      exact ⟨t, List.mem_cons_self, h.2.symm⟩
    · split at h
      · obtain ⟨t', ht', e⟩ := ih r v h
        exact ⟨t', List.mem_cons_of_mem _ ht', e⟩
      · cases h

theorem takeUntil_body_mem (ks : List Kind) : ∀ ts : List Tok, ∀ t ∈ (takeUntil ks ts).2.1, t ∈ ts := by
  intro ts
  induction ts with
  | nil => intro t ht; simp [takeUntil] at ht
  | cons x rest ih =>
    intro t ht
    simp only [takeUntil] at ht
    split at ht
    · cases ht
    · rcases List.mem_cons.mp ht with rfl | h
      · exact List.mem_cons_self
      · exact List.mem_cons_of_mem _ (ih t h)

theorem getLast?_mem_of_ne {ts : List Tok} (h : ts ≠ []) : ∃ t ∈ ts, ts.getLast? = some t := by
  cases hl : ts.getLast? with
  | none => rw [List.getLast?_eq_none_iff] at hl; exact absurd hl h
  | some t => exact ⟨t, List.mem_of_getLast? hl, rfl⟩

/-- the diagnostic of a recovery sits on a token of the input (when there is one) -/
theorem recoverStep_dstart (m : RecMode) (ts e : List Tok) (msg : String) (he : e <:+ ts)
    (hne : m = .silentAt ∨ ts ≠ []) : DStart ts (recoverStep m ts e msg).2 := by
  cases m with
  | silentAt => exact DStart.nil
  | skipTok =>
    have hts : ts ≠ [] := by rcases hne with h | h; · cases h
                             · exact h
    intro x hx
    simp only [recoverStep, List.mem_singleton] at hx
    subst hx
    cases e with
    | cons t r => exact ⟨t, he.subset List.mem_cons_self, rfl⟩
    | nil =>
      obtain ⟨t, ht, hl⟩ := getLast?_mem_of_ne hts
      exact ⟨t, ht, by simp only [hl]⟩
  | topSpan =>
    have hts : ts ≠ [] := by rcases hne with h | h; · cases h
                             · exact h
    intro x hx
    simp only [recoverStep, List.mem_singleton] at hx
    subst hx
    cases ts with
    | nil => exact absurd rfl hts
    | cons t r => exact ⟨t, List.mem_cons_self, rfl⟩
  | span =>
    have hts : ts ≠ [] := by rcases hne with h | h; · cases h
                             · exact h
    intro x hx
    simp only [recoverStep, List.mem_singleton] at hx
    subst hx
    cases ts with
    | nil => exact absurd rfl hts
    | cons t r => exact ⟨t, List.mem_cons_self, rfl⟩

/-- the value of `seqL (tok k :: …)` begins with the leaf of a token of the input -/
theorem headLeaf_A (Γ Δ : Nat → G) (f : Nat) (m : Tree → Tree) (k : Kind) (q : G) (ts r : List Tok) (v : Tree) (d : List Diag)
    (h : runP Γ Δ f (.map m (.seq (.tok k) q)) ts = (.ok r v, d)) :
    ∃ t ∈ ts, ∃ vb, v = m (Tree.seq [.leaf t, vb]) := by
  rcases f with _ | f
  · simp [runP] at h
  simp only [runP] at h
  rcases f with _ | f
  · simp [runP] at h
  simp only [runP] at h
  rcases f with _ | f
  · simp [runP] at h
  simp only [runP] at h
  cases hq : expTok k ts with
  | fuel => rw [hq] at h; simp at h
  | err e msg => rw [hq] at h; simp at h
  | ok r1 va =>
    rw [hq] at h
    simp only at h
    obtain ⟨t, ht, rfl⟩ := expTokGo_leaf k ts ts r1 va hq
    rcases hb : runP Γ Δ (f + 1) q r1 with ⟨rb, db⟩
    rw [hb] at h
    cases rb with
    | ok r2 vb =>
      simp only [Prod.mk.injEq, R.ok.injEq] at h
      exact ⟨t, ht, vb, h.1.2.symm⟩
    | err e msg => simp at h
    | fuel => simp at h

theorem headLeaf_B (Γ Δ : Nat → G) (f : Nat) (m : Tree → Tree) (k : Kind) (q : G) (test : Tree → Bool) (b : G)
    (ts r : List Tok) (v : Tree) (d : List Diag)
    (h : runP Γ Δ f (.dep (.map m (.seq (.tok k) q)) test b) ts = (.ok r v, d)) :
    ∃ t ∈ ts, ∃ vb w, v = Tree.seq [m (Tree.seq [.leaf t, vb]), w] := by
  rcases f with _ | f
  · simp [runP] at h
  rw [runP] at h
  rcases ha : runP Γ Δ f (.map m (.seq (.tok k) q)) ts with ⟨ra, da⟩
  rw [ha] at h
  cases ra with
  | fuel => simp at h
  | err e msg => simp at h
  | ok r1 va =>
    obtain ⟨t, ht, vb, rfl⟩ := headLeaf_A Γ Δ f m k q ts r1 va da ha
    simp only at h
    split at h
    · rcases hb : runP Γ Δ f b r1 with ⟨rb, db⟩
      rw [hb] at h
      cases rb with
      | ok r2 w =>
        simp only [Prod.mk.injEq, R.ok.injEq] at h
        exact ⟨t, ht, vb, w, h.1.2.symm⟩
      | err e msg => simp at h
      | fuel => simp at h
    · simp only [Prod.mk.injEq, R.ok.injEq] at h
      exact ⟨t, ht, vb, Tree.none, h.1.2.symm⟩

/-! ### soundness -/

theorem runP_dstart {Γ Δ : Nat → G} (T : DTables Γ Δ) : ∀ (f : Nat) (g : G) (ts : List Tok) (ne : Bool),
    dOK ne g = true → EmitsOK g → (ne = true → ts ≠ []) → DStart ts (runP Γ Δ f g ts).2 := by
  intro f
  induction f with
  | zero => intro g ts ne _ _ _; simp only [runP]; exact DStart.nil
  | succ f ih =>
    intro g ts ne hok hem hne
    have nofalse : (false = true → ∀ l : List Tok, l ≠ []) := fun h => by cases h
    cases g with
    | tok k => simp only [runP]; exact DStart.nil
    | identVal s => simp only [runP]; exact DStart.nil
    | eps v => simp only [runP]; exact DStart.nil
    | skipTo ks =>
      simp only [runP]
      rcases takeUntil ks ts with ⟨rest, body, e⟩
      exact DStart.nil
    | ref n => simp only [runP]; exact ih (Γ n) ts false (T.okΓ n) (T.emΓ n) (fun h => by cases h)
    | memo c e => simp only [runP]; exact ih (Δ c) ts false (T.okΔ c) (T.emΔ c) (fun h => by cases h)
    | seq a b =>
      simp only [dOK, Bool.and_eq_true] at hok
      simp only [EmitsOK] at hem
      simp only [runP]
      have ha := ih a ts ne hok.1 hem.1 hne
      have hsa := runP_suffix Γ Δ f a ts
      rcases hqa : runP Γ Δ f a ts with ⟨ra, da⟩
      rw [hqa] at ha hsa
      cases ra with
      | ok r va =>
        simp only
        have hb := (ih b r false hok.2 hem.2 (fun h => by cases h)).of_suffix hsa
        rcases hqb : runP Γ Δ f b r with ⟨rb, db⟩
        rw [hqb] at hb
        cases rb <;> exact ha.append hb
      | err e m => exact ha
      | fuel => exact ha
    | alt a b =>
      simp only [dOK, Bool.and_eq_true] at hok
      simp only [EmitsOK] at hem
      simp only [runP]
      have ha := ih a ts ne hok.1 hem.1 hne
      rcases hqa : runP Γ Δ f a ts with ⟨ra, da⟩
      rw [hqa] at ha
      cases ra with
      | ok r va => exact ha
      | fuel => exact ha
      | err e1 m1 =>
        simp only
        have hb := ih b ts ne hok.2 hem.2 hne
        rcases hqb : runP Γ Δ f b ts with ⟨rb, db⟩
        rw [hqb] at hb
        cases rb <;> exact ha.append hb
    | opt a =>
      simp only [dOK] at hok
      simp only [EmitsOK] at hem
      simp only [runP]
      have ha := ih a ts ne hok hem hne
      rcases hqa : runP Γ Δ f a ts with ⟨ra, da⟩
      rw [hqa] at ha
      cases ra <;> exact ha
    | map fn g =>
      simp only [dOK] at hok
      simp only [EmitsOK] at hem
      simp only [runP]
      have hg := ih g ts ne hok hem hne
      rcases hq : runP Γ Δ f g ts with ⟨rg, dg⟩
      rw [hq] at hg
      cases rg <;> exact hg
    | check p msg g =>
      simp only [dOK] at hok
      simp only [EmitsOK] at hem
      simp only [runP]
      have hg := ih g ts ne hok hem hne
      rcases hq : runP Γ Δ f g ts with ⟨rg, dg⟩
      rw [hq] at hg
      cases rg <;> exact hg
    | catchErr g =>
      simp only [dOK] at hok
      simp only [EmitsOK] at hem
      simp only [runP]
      have hg := ih g ts ne hok hem hne
      rcases hq : runP Γ Δ f g ts with ⟨rg, dg⟩
      rw [hq] at hg
      cases rg <;> exact hg
    | prepend s g =>
      simp only [dOK] at hok
      simp only [EmitsOK] at hem
      simp only [runP]
      have hg := ih g ts ne hok hem hne
      rcases hq : runP Γ Δ f g ts with ⟨rg, dg⟩
      rw [hq] at hg
      cases rg <;> exact hg
    | ifTok ks a b =>
      simp only [dOK, Bool.and_eq_true] at hok
      simp only [EmitsOK] at hem
      simp only [runP]
      split
      · rename_i t rest hfr
        obtain ⟨hs, _⟩ := firstReal_suffix ts t rest hfr
        split
        · have ha := (ih a rest false hok.1 hem.1 (fun h => by cases h)).of_suffix hs
          rcases hq : runP Γ Δ f a rest with ⟨ra, da⟩
          rw [hq] at ha
          cases ra <;> exact ha
        · exact ih b ts ne hok.2 hem.2 hne
      · exact ih b ts ne hok.2 hem.2 hne
    | ifEof a b =>
      simp only [dOK, Bool.and_eq_true] at hok
      simp only [EmitsOK] at hem
      simp only [runP]
      split
      · exact ih a [] false hok.1 hem.1 (fun h => by cases h)
      · exact ih b _ true hok.2 hem.2 (fun _ => by simp)
    | recover m g =>
      simp only [dOK, Bool.and_eq_true, Bool.or_eq_true, beq_iff_eq] at hok
      simp only [EmitsOK] at hem
      simp only [runP]
      have hg := ih g ts ne hok.2 hem hne
      have hs := runP_suffix Γ Δ f g ts
      rcases hq : runP Γ Δ f g ts with ⟨rg, dg⟩
      rw [hq] at hg hs
      cases rg with
      | ok r v => exact hg
      | fuel => exact hg
      | err e msg =>
        simp only
        refine hg.append (recoverStep_dstart m ts e msg hs ?_)
        rcases hok.1 with h | h
        · exact Or.inl h
        · exact Or.inr (hne h)
    | dep a test b =>
      simp only [dOK, Bool.and_eq_true] at hok
      simp only [EmitsOK] at hem
      simp only [runP]
      have ha := ih a ts ne hok.1 hem.1 hne
      have hsa := runP_suffix Γ Δ f a ts
      rcases hqa : runP Γ Δ f a ts with ⟨ra, da⟩
      rw [hqa] at ha hsa
      cases ra with
      | ok r va =>
        simp only
        split
        · have hb := (ih b r false hok.2 hem.2 (fun h => by cases h)).of_suffix hsa
          rcases hqb : runP Γ Δ f b r with ⟨rb, db⟩
          rw [hqb] at hb
          cases rb <;> exact ha.append hb
        · exact ha
      | err e m => exact ha
      | fuel => exact ha
    | reslice ks inner =>
      simp only [dOK] at hok
      simp only [EmitsOK] at hem
      simp only [runP]
      have hm := takeUntil_body_mem ks ts
      rcases htu : takeUntil ks ts with ⟨rest, body, e⟩
      rw [htu] at hm
      simp only
      cases body with
      | nil => exact DStart.nil
      | cons b0 bs =>
        simp only
        have hi := (ih inner (b0 :: bs) true hok hem (fun _ => by simp)).mono hm
        rcases hq : runP Γ Δ f inner (b0 :: bs) with ⟨ri, di⟩
        rw [hq] at hi
        cases ri <;> exact hi
    | emit fn g =>
      -- the diagnostics of the item, then the one `fn` computes from its value
      have key : ∀ (hgok : dOK ne g = true) (hgem : EmitsOK g)
          (hfn : ∀ r v d y, runP Γ Δ f g ts = (.ok r v, d) → fn v = some y → ∃ t ∈ ts, y.rng = t.rng),
          DStart ts (runP Γ Δ (f + 1) (.emit fn g) ts).2 := by
        intro hgok hgem hfn
        simp only [runP]
        have hg := ih g ts ne hgok hgem hne
        rcases hq : runP Γ Δ f g ts with ⟨rg, dg⟩
        rw [hq] at hg
        cases rg with
        | ok r v =>
          simp only
          refine hg.append ?_
          intro x hx
          cases hfv : fn v with
          | none => rw [hfv] at hx; cases hx
          | some y =>
            rw [hfv] at hx
            simp only [Option.toList, List.mem_singleton] at hx
            subst hx
            obtain ⟨t, ht, hr⟩ := hfn r v dg x hq hfv
            exact ⟨t, ht, by rw [hr]⟩
        | err e m => exact hg
        | fuel => exact hg
      cases g with
      | map m g1 =>
        cases g1 with
        | seq a q =>
          cases a with
          | tok k =>
            simp only [dOK] at hok
            simp only [EmitsOK] at hem
            refine key (by simp only [dOK, Bool.true_and]; exact hok) (by simp only [EmitsOK, true_and]; exact hem.2) ?_
            intro r v d y hq hfv
            obtain ⟨t, ht, vb, rfl⟩ := headLeaf_A Γ Δ f m k q ts r v d hq
            exact ⟨t, ht, hem.1 _ _ _ hfv⟩
          | _ => simp [dOK] at hok
        | _ => simp [dOK] at hok
      | dep g1 test b =>
        cases g1 with
        | map m g2 =>
          cases g2 with
          | seq a q =>
            cases a with
            | tok k =>
              simp only [dOK, Bool.and_eq_true] at hok
              simp only [EmitsOK] at hem
              refine key (by simp only [dOK, Bool.true_and, Bool.and_eq_true]; exact hok)
                (by simp only [EmitsOK, true_and]; exact ⟨hem.2.1, hem.2.2⟩) ?_
              intro r v d y hq hfv
              obtain ⟨t, ht, vb, w, rfl⟩ := headLeaf_B Γ Δ f m k q test b ts r v d hq
              exact ⟨t, ht, hem.1 _ _ _ _ hfv⟩
            | _ => simp [dOK] at hok
          | _ => simp [dOK] at hok
        | _ => simp [dOK] at hok
      | _ => simp [dOK] at hok

end Gold.Peg

namespace Gold.Gram
open Gold Gold.Peg

/-! ### the Gold tables pass -/

theorem dOKΓ_tbl : (tblΓ.all fun g => dOK false g) = true := by decide +kernel
theorem dOKΔ_tbl : (tblΔ.all fun g => dOK false g) = true := by decide +kernel

/-- only `parse_gold` (the methods) and `parse_statement_v2` (`if`) contain `emit`s -/
theorem noEmitΓ_tbl : (tblΓ.zipIdx.all fun p => p.2 == nTop || p.2 == nStatement || noEmit p.1) = true := by decide +kernel
theorem noEmitΔ_tbl : (tblΔ.all fun g => noEmit g) = true := by decide +kernel

theorem all_getD {l : List G} {P : G → Bool} (h : l.all P = true) (hd : P (.eps Tree.none) = true) (n : Nat) :
    P (l.getD n (.eps Tree.none)) = true := by
  rcases Nat.lt_or_ge n l.length with hn | hn
  · rw [List.all_eq_true] at h
    have : l.getD n (.eps Tree.none) = l[n] := by simp [List.getD, hn]
    rw [this]
    exact h _ (List.getElem_mem hn)
  · have : l.getD n (.eps Tree.none) = .eps Tree.none := by simp [List.getD, List.getElem?_eq_none hn]
    rw [this]; exact hd

/-- "end token not found" is reported on the method's keyword -/
theorem emits_gProc : EmitsOK gProc := by
  refine ⟨?_, noEmit_ok _ (by decide +kernel), noEmit_ok _ (by decide +kernel)⟩
  intro va vb w x h
  dsimp only at h
  split at h
  · simp only [Option.some.injEq] at h; rw [← h]; rfl
  · cases h

theorem emits_gFunc : EmitsOK gFunc := by
  refine ⟨?_, noEmit_ok _ (by decide +kernel), noEmit_ok _ (by decide +kernel)⟩
  intro va vb w x h
  dsimp only at h
  split at h
  · simp only [Option.some.injEq] at h; rw [← h]; rfl
  · cases h

/-- "no end token found" is reported on the `if` -/
theorem emits_gIf : EmitsOK gIf := by
  refine ⟨?_, noEmit_ok _ (by decide +kernel)⟩
  intro va vb x h
  dsimp only at h
  split at h
  · simp only [Option.some.injEq] at h; rw [← h]; rfl
  · cases h

theorem emits_gTop : EmitsOK gTop :=
  ⟨trivial, ⟨⟨emits_gProc, emits_gFunc, noEmit_ok _ (by decide +kernel)⟩, trivial⟩⟩

theorem emits_gStatement : EmitsOK gStatement :=
  ⟨emits_gIf, noEmit_ok _ (by decide +kernel)⟩

theorem emitsΓ (n : Nat) : EmitsOK (Γ n) := by
  by_cases h0 : n = nTop
  · subst h0; exact emits_gTop
  by_cases h1 : n = nStatement
  · subst h1; exact emits_gStatement
  rcases Nat.lt_or_ge n tblΓ.length with hn | hn
  · have := tbl_lookup (P := fun i g => i == nTop || i == nStatement || noEmit g) noEmitΓ_tbl n hn
    simp only [Bool.or_eq_true, beq_iff_eq, h0, h1, false_or] at this
    exact noEmit_ok _ this
  · have : Γ n = .eps Tree.none := by simp [Γ, List.getD, List.getElem?_eq_none hn]
    rw [this]; trivial

/-- the Gold grammar satisfies the hypotheses of `runP_dstart` -/
theorem gold_dtables : DTables Γ Δ where
  okΓ := fun n => all_getD dOKΓ_tbl rfl n
  okΔ := fun c => all_getD dOKΔ_tbl rfl c
  emΓ := emitsΓ
  emΔ := fun c => noEmit_ok _ (all_getD noEmitΔ_tbl rfl c)

/-- **every diagnostic of the Gold parser, run from any nonterminal on any input with any fuel, starts at the start of a
    token of that input** -/
theorem gold_dstart (f n : Nat) (ts : List Tok) : DStart ts (runP Γ Δ f (.ref n) ts).2 :=
  runP_dstart gold_dtables f (.ref n) ts false rfl trivial (fun h => by cases h)

end Gold.Gram
