import GoldModel.Lemmas.PegWF
/-! T2: for a well-formed grammar table the interpreter never runs out of fuel -/
namespace Gold.Peg
open Gold

def bound (K S n k s : Nat) : Nat := (n * (K + 1) + k) * (S + 1) + s

theorem bound_sub {K S n k s s' : Nat} (h : s' < s) : bound K S n k s' < bound K S n k s := by
  unfold bound; omega

theorem bound_head {K S n k k' s s' : Nat} (hk : k' < k) (hs : s' ≤ S) :
    bound K S n k' s' < bound K S n k s := by
  unfold bound
  have h1 : (n * (K + 1) + k' + 1) * (S + 1) ≤ (n * (K + 1) + k) * (S + 1) :=
    Nat.mul_le_mul_right _ (by omega)
  have h2 : (n * (K + 1) + k' + 1) * (S + 1) = (n * (K + 1) + k') * (S + 1) + (S + 1) := by
    rw [Nat.add_mul, Nat.one_mul]
  omega

theorem bound_short {K S n n' k k' s s' : Nat} (hn : n' < n) (hk : k' ≤ K) (hs : s' ≤ S) :
    bound K S n' k' s' < bound K S n k s := by
  unfold bound
  have h0 : n' * (K + 1) + k' + 1 ≤ n * (K + 1) := by
    have : (n' + 1) * (K + 1) ≤ n * (K + 1) := Nat.mul_le_mul_right _ (by omega)
    rw [Nat.add_mul, Nat.one_mul] at this
    omega
  have h1 : (n' * (K + 1) + k' + 1) * (S + 1) ≤ (n * (K + 1)) * (S + 1) :=
    Nat.mul_le_mul_right _ h0
  have h2 : (n' * (K + 1) + k' + 1) * (S + 1) = (n' * (K + 1) + k') * (S + 1) + (S + 1) := by
    rw [Nat.add_mul, Nat.one_mul]
  have h3 : (n * (K + 1)) * (S + 1) ≤ (n * (K + 1) + k) * (S + 1) :=
    Nat.mul_le_mul_right _ (by omega)
  omega

theorem bound_mono_n {K S n n' k s : Nat} (h : n' ≤ n) : bound K S n' k s ≤ bound K S n k s := by
  unfold bound
  have : (n' * (K + 1) + k) * (S + 1) ≤ (n * (K + 1) + k) * (S + 1) :=
    Nat.mul_le_mul_right _ (Nat.add_le_add_right (Nat.mul_le_mul_right _ h) _)
  omega

theorem takeUntil_body_len (ks : List Kind) : ∀ ts : List Tok,
    (takeUntil ks ts).2.1.length + (takeUntil ks ts).1.length ≤ ts.length := by
  intro ts
  induction ts with
  | nil => simp [takeUntil]
  | cons t rest ih =>
    simp only [takeUntil]
    split
    · simp
    · simp only [List.length_cons]; omega

theorem takeUntil_body_le (ks : List Kind) (ts : List Tok) : (takeUntil ks ts).2.1.length ≤ ts.length := by
  have := takeUntil_body_len ks ts; omega

theorem expTokGo_nofuel (k : Kind) (orig : List Tok) : ∀ l, (expTokGo k orig l).isFuel = false := by
  intro l
  induction l with
  | nil => simp [expTokGo, R.isFuel]
  | cons t rest ih =>
    simp only [expTokGo]
    split
    · rfl
    · split
      · exact ih
      · rfl

theorem expIdentGo_nofuel (s : String) (orig : List Tok) : ∀ l, (expIdentGo s orig l).isFuel = false := by
  intro l
  induction l with
  | nil => simp [expIdentGo, R.isFuel]
  | cons t rest ih =>
    simp only [expIdentGo]
    split
    · rfl
    · split
      · exact ih
      · rfl

variable {Γ Δ : Nat → G} {nulΓ nulΔ : Nat → Bool → Bool} {rkΓ rkΔ : Nat → Nat} {K S : Nat}

/-- **T2** -/
theorem adequate (W : WF Γ Δ nulΓ nulΔ rkΓ rkΔ K S) : ∀ (f : Nat) (g : G) (ts : List Tok) (k : Nat) (ne : Bool),
    bound K S ts.length k g.size ≤ f → headOK nulΓ nulΔ rkΓ rkΔ ne k g = true → allOK rkΓ rkΔ K g = true →
    g.size ≤ S → k ≤ K → (ne = true → ts ≠ []) → (runP Γ Δ f g ts).1.isFuel = false := by
  intro f
  induction f with
  | zero =>
    intro g ts k ne hb
    have := G.size_pos g
    unfold bound at hb; omega
  | succ f ih =>
    intro g ts k ne hb hh ha hs hk hne
    -- a sub-expression on the same input
    have sub : ∀ (g' : G) (ne' : Bool), g'.size < g.size → headOK nulΓ nulΔ rkΓ rkΔ ne' k g' = true →
        allOK rkΓ rkΔ K g' = true → (ne' = true → ts ≠ []) → (runP Γ Δ f g' ts).1.isFuel = false := by
      intro g' ne' hsz hh' ha' hne'
      exact ih g' ts k ne' (by have := @bound_sub K S ts.length k g.size g'.size hsz; omega) hh' ha' (by omega) hk hne'
    -- any expression of admissible size on a strictly shorter input
    have shorter : ∀ (g' : G) (ts' : List Tok), ts'.length < ts.length → g'.size ≤ S →
        allOK rkΓ rkΔ K g' = true → (runP Γ Δ f g' ts').1.isFuel = false := by
      intro g' ts' hl hsz ha'
      exact ih g' ts' K false
        (by have := @bound_short K S ts.length ts'.length k K g.size g'.size hl (Nat.le_refl _) hsz; omega)
        (allOK_head g' false ha') ha' hsz (Nat.le_refl _) (fun h => by cases h)
    cases g with
    | tok k => simp only [runP, expTok]; exact expTokGo_nofuel k ts ts
    | identVal s => simp only [runP, expIdent]; exact expIdentGo_nofuel s ts ts
    | eps v => simp [runP, R.isFuel]
    | skipTo ks => simp only [runP]; rcases takeUntil ks ts with ⟨rest, body, e⟩; simp [R.isFuel]
    | ref n =>
      simp only [runP]
      simp only [headOK, decide_eq_true_eq] at hh
      exact ih (Γ n) ts (rkΓ n) ne
        (by have := @bound_head K S ts.length k (rkΓ n) (G.ref n).size (Γ n).size hh (W.sizeΓ n); omega)
        (W.headΓ n ne) (W.allΓ n) (W.sizeΓ n) (by omega) hne
    | memo c e =>
      simp only [runP]
      simp only [headOK, decide_eq_true_eq] at hh
      exact ih (Δ c) ts (rkΔ c) ne
        (by have := @bound_head K S ts.length k (rkΔ c) (G.memo c e).size (Δ c).size hh (W.sizeΔ c); omega)
        (W.headΔ c ne) (W.allΔ c) (W.sizeΔ c) (by omega) hne
    | opt a =>
      simp only [runP]
      have := sub a ne (by simp [G.size]) (by simpa [headOK] using hh) (by simpa [allOK] using ha) hne
      rcases hq : runP Γ Δ f a ts with ⟨ra, da⟩
      rw [hq] at this
      cases ra <;> simp_all [R.isFuel]
    | map fn g' =>
      simp only [runP]
      have := sub g' ne (by simp [G.size]) (by simpa [headOK] using hh) (by simpa [allOK] using ha) hne
      rcases hq : runP Γ Δ f g' ts with ⟨ra, da⟩
      rw [hq] at this
      cases ra <;> simp_all [R.isFuel]
    | check p msg g' =>
      simp only [runP]
      have := sub g' ne (by simp [G.size]) (by simpa [headOK] using hh) (by simpa [allOK] using ha) hne
      rcases hq : runP Γ Δ f g' ts with ⟨ra, da⟩
      rw [hq] at this
      cases ra with
      | ok r v => simp only; split <;> rfl
      | err e m => rfl
      | fuel => simp [R.isFuel] at this
    | emit fn g' =>
      simp only [runP]
      have := sub g' ne (by simp [G.size]) (by simpa [headOK] using hh) (by simpa [allOK] using ha) hne
      rcases hq : runP Γ Δ f g' ts with ⟨ra, da⟩
      rw [hq] at this
      cases ra <;> simp_all [R.isFuel]
    | prepend s g' =>
      simp only [runP]
      have := sub g' ne (by simp [G.size]) (by simpa [headOK] using hh) (by simpa [allOK] using ha) hne
      rcases hq : runP Γ Δ f g' ts with ⟨ra, da⟩
      rw [hq] at this
      cases ra <;> simp_all [R.isFuel]
    | recover m g' =>
      simp only [runP]
      have := sub g' ne (by simp [G.size]) (by simpa [headOK] using hh) (by simpa [allOK] using ha) hne
      rcases hq : runP Γ Δ f g' ts with ⟨ra, da⟩
      rw [hq] at this
      cases ra <;> simp_all [R.isFuel]
    | catchErr g' =>
      simp only [runP]
      have := sub g' ne (by simp [G.size]) (by simpa [headOK] using hh) (by simpa [allOK] using ha) hne
      rcases hq : runP Γ Δ f g' ts with ⟨ra, da⟩
      rw [hq] at this
      cases ra <;> simp_all [R.isFuel]
    | alt a b =>
      simp only [runP]
      simp only [headOK, Bool.and_eq_true] at hh; simp only [allOK, Bool.and_eq_true] at ha
      have h1 := sub a ne (by simp [G.size]; omega) hh.1 ha.1 hne
      have h2 := sub b ne (by simp [G.size]; omega) hh.2 ha.2 hne
      rcases hqa : runP Γ Δ f a ts with ⟨ra, da⟩
      rw [hqa] at h1
      cases ra with
      | fuel => simp [R.isFuel] at h1
      | ok r t => rfl
      | err e1 m1 =>
        simp only
        rcases hqb : runP Γ Δ f b ts with ⟨rb, db⟩
        rw [hqb] at h2
        cases rb with
        | fuel => simp [R.isFuel] at h2
        | ok r t => rfl
        | err e2 m2 => simp only; split <;> rfl
    | seq a b =>
      simp only [runP]
      simp only [headOK, Bool.and_eq_true, Bool.or_eq_true, Bool.not_eq_true'] at hh
      simp only [allOK, Bool.and_eq_true] at ha
      simp only [G.size] at hs
      have h1 := sub a ne (by simp [G.size]; omega) hh.1 ha.1 hne
      rcases hqa : runP Γ Δ f a ts with ⟨ra, da⟩
      rw [hqa] at h1
      cases ra with
      | fuel => simp [R.isFuel] at h1
      | err e m => rfl
      | ok r1 va =>
        simp only
        have sa : r1 <:+ ts := by have := runP_suffix Γ Δ f a ts; rw [hqa] at this; exact this
        have l1 := suffix_len sa
        have h2 : (runP Γ Δ f b r1).1.isFuel = false := by
          rcases Nat.lt_or_ge r1.length ts.length with hlt | hge
          · exact shorter b r1 hlt (by omega) ha.2
          · have e := suffix_eq_of_len sa (by omega)
            subst e
            rcases hh.2 with hnul | hhb
            · have := consumes W f a r1 r1 va ne (by rw [hqa]) hnul hne; omega
            · exact sub b ne (by simp [G.size]; omega) hhb ha.2 hne
        rcases hqb : runP Γ Δ f b r1 with ⟨rb, db⟩
        rw [hqb] at h2
        cases rb <;> simp_all [R.isFuel]
    | dep a test b =>
      simp only [runP]
      simp only [headOK, Bool.and_eq_true, Bool.or_eq_true, Bool.not_eq_true'] at hh
      simp only [allOK, Bool.and_eq_true] at ha
      simp only [G.size] at hs
      have h1 := sub a ne (by simp [G.size]; omega) hh.1 ha.1 hne
      rcases hqa : runP Γ Δ f a ts with ⟨ra, da⟩
      rw [hqa] at h1
      cases ra with
      | fuel => simp [R.isFuel] at h1
      | err e m => rfl
      | ok r1 va =>
        simp only
        split
        · have sa : r1 <:+ ts := by have := runP_suffix Γ Δ f a ts; rw [hqa] at this; exact this
          have l1 := suffix_len sa
          have h2 : (runP Γ Δ f b r1).1.isFuel = false := by
            rcases Nat.lt_or_ge r1.length ts.length with hlt | hge
            · exact shorter b r1 hlt (by omega) ha.2
            · have e := suffix_eq_of_len sa (by omega)
              subst e
              rcases hh.2 with hnul | hhb
              · have := consumes W f a r1 r1 va ne (by rw [hqa]) hnul hne; omega
              · exact sub b ne (by simp [G.size]; omega) hhb ha.2 hne
          rcases hqb : runP Γ Δ f b r1 with ⟨rb, db⟩
          rw [hqb] at h2
          cases rb <;> simp_all [R.isFuel]
        · rfl
    | ifTok ks a b =>
      simp only [runP]
      simp only [headOK] at hh
      simp only [allOK, Bool.and_eq_true] at ha
      simp only [G.size] at hs
      have hb2 := sub b ne (by simp [G.size]; omega) hh ha.2 hne
      split
      · rename_i t rest hfr
        obtain ⟨_, hl⟩ := firstReal_suffix ts t rest hfr
        split
        · have := shorter a rest hl (by omega) ha.1
          rcases hq : runP Γ Δ f a rest with ⟨ra, da⟩
          rw [hq] at this
          cases ra <;> simp_all [R.isFuel]
        · exact hb2
      · exact hb2
    | ifEof a b =>
      simp only [runP]
      simp only [headOK, Bool.and_eq_true] at hh
      simp only [allOK, Bool.and_eq_true] at ha
      cases ts with
      | nil =>
        exact ih a [] k false
          (by have := @bound_sub K S 0 k (G.ifEof a b).size a.size (by simp [G.size]; omega)
              simp only [List.length_nil] at hb ⊢; omega)
          hh.1 ha.1 (by simp [G.size] at hs; omega) hk (fun h => by cases h)
      | cons x xs =>
        exact ih b (x :: xs) k true
          (by have := @bound_sub K S (x :: xs).length k (G.ifEof a b).size b.size (by simp [G.size]; omega); omega)
          hh.2 ha.2 (by simp [G.size] at hs; omega) hk (fun _ => by simp)
    | reslice ks inner =>
      simp only [runP]
      simp only [allOK] at ha
      simp only [headOK] at hh
      simp only [G.size] at hs
      have hle := takeUntil_body_le ks ts
      rcases htu : takeUntil ks ts with ⟨rest, body, e⟩
      rw [htu] at hle
      simp only at hle ⊢
      cases body with
      | nil => rfl
      | cons b0 bs =>
        simp only
        have := ih inner (b0 :: bs) k true
          (by have h1 := @bound_sub K S ts.length k (G.reslice ks inner).size inner.size (by simp [G.size])
              have h2 := @bound_mono_n K S ts.length (b0 :: bs).length k inner.size hle
              omega)
          hh ha (by omega) hk (fun _ => by simp)
        rcases hq : runP Γ Δ f inner (b0 :: bs) with ⟨ri, di⟩
        rw [hq] at this
        cases ri <;> simp_all [R.isFuel]

end Gold.Peg
