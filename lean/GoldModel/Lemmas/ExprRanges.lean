import GoldModel.Model.Expr
import GoldModel.Props.C08
/-!
Ranges of the intended trees of expressions (`Ex.tree`): every node `start ≤ end`, every node's
range encloses the ranges of its children (recursively), the range of the tree is the span from
the first to the last token that is not an enclosing parenthesis, and no range mentions a line
beyond the last token.  All of it for EVERY expression `e` whose tokens are in source order
(`Gold.C08.Sorted e.toks`) — well-formedness of `e` (`Ex.WF`) is not even needed, the facts are
about the node functions of the semantic actions.
-/
namespace Gold.C06
open Gold Gold.Peg Gold.Gram Gold.C08

/-! ## `Sorted` as a pairwise relation -/

/-- `t` starts no later than `u` starts and ends no later than `u` ends -/
def tle (t u : Tok) : Prop := t.rng.s.le u.rng.s = true ∧ t.rng.e.le u.rng.e = true

theorem tle_refl (t : Tok) : tle t t := ⟨Pos.le_refl _, Pos.le_refl _⟩

theorem sorted_nil : Sorted [] ↔ True := Iff.rfl

theorem sorted_cons {x : Tok} {l : List Tok} : Sorted (x :: l) ↔ x.rng.ok = true ∧ (∀ u ∈ l, tle x u) ∧ Sorted l := Iff.rfl

theorem sorted_append {a b : List Tok} : Sorted (a ++ b) ↔ Sorted a ∧ Sorted b ∧ ∀ t ∈ a, ∀ u ∈ b, tle t u := by
  induction a with
  | nil => simp [sorted_nil]
  | cons x xs ih =>
    simp only [List.cons_append, sorted_cons, ih, List.mem_append, List.mem_cons]
    constructor
    · rintro ⟨h1, h2, h3, h4, h5⟩
      refine ⟨⟨h1, fun u hu => h2 u (Or.inl hu), h3⟩, h4, ?_⟩
      rintro t (rfl | ht) u hu
      · exact h2 u (Or.inr hu)
      · exact h5 t ht u hu
    · rintro ⟨⟨h1, h2, h3⟩, h4, h5⟩
      refine ⟨h1, ?_, h3, h4, fun t ht u hu => h5 t (Or.inr ht) u hu⟩
      rintro u (hu | hu)
      · exact h2 u hu
      · exact h5 x (Or.inl rfl) u hu

theorem sorted_single {x : Tok} : Sorted [x] ↔ x.rng.ok = true := by
  simp [sorted_cons, sorted_nil]

theorem getLast?_cons_ne {x : Tok} {l : List Tok} (h : l ≠ []) : (x :: l).getLast? = l.getLast? := by
  cases l with
  | nil => exact absurd rfl h
  | cons y ys => simp [List.getLast?_cons_cons]

theorem getLast?_append_ne {a b : List Tok} (hb : b ≠ []) : (a ++ b).getLast? = b.getLast? := by
  induction a with
  | nil => rfl
  | cons x xs ih => rw [List.cons_append, getLast?_cons_ne (by simp [hb]), ih]

/-- in a sorted list every token ends no later than the last one -/
theorem Sorted.le_last {ts : List Tok} (h : Sorted ts) (z : Tok) (hz : ts.getLast? = some z) :
    ∀ t ∈ ts, tle t z := by
  induction ts with
  | nil => intro t ht; cases ht
  | cons x xs ih =>
    intro t ht
    by_cases hx : xs = []
    · subst hx
      simp only [List.getLast?_singleton, Option.some.injEq] at hz
      subst hz
      rw [List.mem_singleton.mp ht]; exact tle_refl _
    · rw [getLast?_cons_ne hx] at hz
      rcases List.mem_cons.mp ht with rfl | h1
      · exact h.2.1 z (List.mem_of_getLast? hz)
      · exact ih h.2.2 hz t h1

/-- … and starts no earlier than the first one -/
theorem Sorted.first_le {a : Tok} {ts : List Tok} (h : Sorted (a :: ts)) : ∀ t ∈ a :: ts, tle a t := by
  intro t ht
  rcases List.mem_cons.mp ht with rfl | h1
  · exact tle_refl _
  · exact h.2.1 t h1

/-! ## the first and the last token of an expression that belong to its tree

`( e )` yields the tree of `e` (`gBracketClosure` returns the inner node): an enclosing pair of
parentheses belongs to no node, so the range of `(a) + b` starts at `a`. -/

def Ex.firstTok : Ex → Tok
  | .atom t => t
  | .paren _ e _ => e.firstTok
  | .bin l _ _ => l.firstTok
  | .pre op _ => op
  | .post e _ => e.firstTok
  | .dot l _ _ => l.firstTok
  | .call f _ _ _ => f
  | .index a _ _ _ => a
  | .set lb _ _ => lb

def Ex.lastTok : Ex → Tok
  | .atom t => t
  | .paren _ e _ => e.lastTok
  | .bin _ _ r => r.lastTok
  | .pre _ e => e.lastTok
  | .post _ op => op
  | .dot _ _ r => r.lastTok
  | .call _ _ _ rp => rp
  | .index _ _ _ rb => rb
  | .set _ _ rb => rb

/-- no parenthesis at the left edge: the first token of the tree is the first token printed -/
def Ex.openL : Ex → Bool
  | .paren .. => false
  | .bin l _ _ => l.openL
  | .post e _ => e.openL
  | .dot l _ _ => l.openL
  | _ => true

/-- no parenthesis at the right edge -/
def Ex.openR : Ex → Bool
  | .paren .. => false
  | .bin _ _ r => r.openR
  | .pre _ e => e.openR
  | .dot _ _ r => r.openR
  | _ => true

theorem Ex.firstTok_mem : (e : Ex) → e.firstTok ∈ e.toks
  | .atom t => by simp [Ex.firstTok, Ex.toks]
  | .paren _ e _ => by simp [Ex.firstTok, Ex.toks, Ex.firstTok_mem e]
  | .bin l _ _ => by simp [Ex.firstTok, Ex.toks, Ex.firstTok_mem l]
  | .pre _ _ => by simp [Ex.firstTok, Ex.toks]
  | .post e _ => by simp [Ex.firstTok, Ex.toks, Ex.firstTok_mem e]
  | .dot l _ _ => by simp [Ex.firstTok, Ex.toks, Ex.firstTok_mem l]
  | .call _ _ _ _ => by simp [Ex.firstTok, Ex.toks]
  | .index _ _ _ _ => by simp [Ex.firstTok, Ex.toks]
  | .set _ _ _ => by simp [Ex.firstTok, Ex.toks]

theorem Ex.lastTok_mem : (e : Ex) → e.lastTok ∈ e.toks
  | .atom t => by simp [Ex.lastTok, Ex.toks]
  | .paren _ e _ => by simp [Ex.lastTok, Ex.toks, Ex.lastTok_mem e]
  | .bin _ _ r => by simp [Ex.lastTok, Ex.toks, Ex.lastTok_mem r]
  | .pre _ e => by simp [Ex.lastTok, Ex.toks, Ex.lastTok_mem e]
  | .post _ _ => by simp [Ex.lastTok, Ex.toks]
  | .dot _ _ r => by simp [Ex.lastTok, Ex.toks, Ex.lastTok_mem r]
  | .call _ _ _ _ => by simp [Ex.lastTok, Ex.toks]
  | .index _ _ _ _ => by simp [Ex.lastTok, Ex.toks]
  | .set _ _ _ => by simp [Ex.lastTok, Ex.toks]

theorem Ex.toks_ne_nil (e : Ex) : e.toks ≠ [] := List.ne_nil_of_mem e.firstTok_mem

theorem Ex.head_of_openL : (e : Ex) → e.openL = true → e.toks.head? = some e.firstTok
  | .atom t, _ => by simp [Ex.firstTok, Ex.toks]
  | .paren _ _ _, h => by simp [Ex.openL] at h
  | .bin l _ _, h => by
    have := Ex.head_of_openL l (by simpa [Ex.openL] using h)
    simp [Ex.firstTok, Ex.toks, List.head?_append, this]
  | .pre _ _, _ => by simp [Ex.firstTok, Ex.toks]
  | .post e _, h => by
    have := Ex.head_of_openL e (by simpa [Ex.openL] using h)
    simp [Ex.firstTok, Ex.toks, List.head?_append, this]
  | .dot l _ _, h => by
    have := Ex.head_of_openL l (by simpa [Ex.openL] using h)
    simp [Ex.firstTok, Ex.toks, List.head?_append, this]
  | .call _ _ _ _, _ => by simp [Ex.firstTok, Ex.toks]
  | .index _ _ _ _, _ => by simp [Ex.firstTok, Ex.toks]
  | .set _ _ _, _ => by simp [Ex.firstTok, Ex.toks]

theorem Ex.last_of_openR : (e : Ex) → e.openR = true → e.toks.getLast? = some e.lastTok
  | .atom t, _ => by simp [Ex.lastTok, Ex.toks]
  | .paren _ _ _, h => by simp [Ex.openR] at h
  | .bin _ op r, h => by
    have := Ex.last_of_openR r (by simpa [Ex.openR] using h)
    simp only [Ex.lastTok, Ex.toks]
    rw [getLast?_append_ne (by simp), getLast?_cons_ne r.toks_ne_nil]; exact this
  | .pre op e, h => by
    have := Ex.last_of_openR e (by simpa [Ex.openR] using h)
    simp only [Ex.lastTok, Ex.toks]
    rw [getLast?_cons_ne e.toks_ne_nil]; exact this
  | .post _ _, _ => by simp only [Ex.lastTok, Ex.toks]; rw [getLast?_append_ne (by simp)]; rfl
  | .dot _ d r, h => by
    have := Ex.last_of_openR r (by simpa [Ex.openR] using h)
    simp only [Ex.lastTok, Ex.toks]
    rw [getLast?_append_ne (by simp), getLast?_cons_ne r.toks_ne_nil]; exact this
  | .call _ _ as rp, _ => by
    simp only [Ex.lastTok, Ex.toks]
    rw [getLast?_cons_ne (by simp), getLast?_cons_ne (by simp), getLast?_append_ne (by simp)]; rfl
  | .index _ _ e rb, _ => by
    simp only [Ex.lastTok, Ex.toks]
    rw [getLast?_cons_ne (by simp), getLast?_cons_ne (by simp), getLast?_append_ne (by simp)]; rfl
  | .set _ as rb, _ => by
    simp only [Ex.lastTok, Ex.toks]
    rw [getLast?_cons_ne (by simp), getLast?_append_ne (by simp)]; rfl

/-! ## the range of the tree -/

theorem span_rng (a z : Range) : (Range.span a z).s = a.s ∧ (Range.span a z).e = z.e := ⟨rfl, rfl⟩

/-- **the range of the tree runs from its first to its last token** -/
theorem Ex.tree_rng : (e : Ex) → e.tree.rng = Range.span e.firstTok.rng e.lastTok.rng
  | .atom t => rfl
  | .paren _ e _ => by simp only [Ex.tree, Ex.firstTok, Ex.lastTok]; exact Ex.tree_rng e
  | .bin l _ r => by
    show Range.span l.tree.rng r.tree.rng = _
    rw [Ex.tree_rng l, Ex.tree_rng r]; rfl
  | .pre _ e => by
    show Range.span _ e.tree.rng = _
    rw [Ex.tree_rng e]; rfl
  | .post e _ => by
    show Range.span e.tree.rng _ = _
    rw [Ex.tree_rng e]; rfl
  | .dot l _ r => by
    show Range.span l.tree.rng r.tree.rng = _
    rw [Ex.tree_rng l, Ex.tree_rng r]; rfl
  | .call _ _ _ _ => rfl
  | .index _ _ _ _ => rfl
  | .set _ _ _ => rfl

theorem sub_cons {x : Tok} {l : List Tok} (h : Sorted (x :: l)) : Sorted l := h.2.2
theorem sub_left {a b : List Tok} (h : Sorted (a ++ b)) : Sorted a := (sorted_append.mp h).1
theorem sub_right {a b : List Tok} (h : Sorted (a ++ b)) : Sorted b := (sorted_append.mp h).2.1
theorem cross {a b : List Tok} (h : Sorted (a ++ b)) {t u : Tok} (ht : t ∈ a) (hu : u ∈ b) : tle t u :=
  (sorted_append.mp h).2.2 t ht u hu
theorem cross_cons {x : Tok} {l : List Tok} (h : Sorted (x :: l)) {u : Tok} (hu : u ∈ l) : tle x u := h.2.1 u hu

/-- the first token of the tree is not after its last token -/
theorem Ex.first_le_last : (e : Ex) → Sorted e.toks → tle e.firstTok e.lastTok
  | .atom t, _ => tle_refl t
  | .paren _ e _, h => Ex.first_le_last e (sub_left (sub_cons h))
  | .bin l _ r, h => cross h l.firstTok_mem (List.mem_cons_of_mem _ r.lastTok_mem)
  | .pre _ e, h => cross_cons h e.lastTok_mem
  | .post e _, h => cross h e.firstTok_mem (List.mem_singleton.mpr rfl)
  | .dot l _ r, h => cross h l.firstTok_mem (List.mem_cons_of_mem _ r.lastTok_mem)
  | .call _ _ _ _, h => cross_cons h (List.mem_cons_of_mem _ (List.mem_append_right _ (List.mem_singleton.mpr rfl)))
  | .index _ _ _ _, h => cross_cons h (List.mem_cons_of_mem _ (List.mem_append_right _ (List.mem_singleton.mpr rfl)))
  | .set _ _ _, h => cross_cons h (List.mem_append_right _ (List.mem_singleton.mpr rfl))

theorem span_ok_of_tle {a z : Tok} (h : tle a z) (hz : z.rng.ok = true) : (Range.span a.rng z.rng).ok = true :=
  Pos.le_trans h.1 hz

/-- the range of the tree has `start ≤ end` -/
theorem Ex.tree_rng_ok (e : Ex) (h : Sorted e.toks) : e.tree.rng.ok = true := by
  rw [e.tree_rng]
  exact span_ok_of_tle (e.first_le_last h) (Sorted.mem_ok h _ e.lastTok_mem)

/-- a range spanned by tokens `a … z` lies inside a range spanned by tokens `a' … z'` around them -/
theorem within_span {a z a' z' : Tok} (h1 : tle a' a) (h2 : tle z z') :
    (Range.span a.rng z.rng).within (Range.span a'.rng z'.rng) = true := by
  simp only [Range.within, Range.span, Bool.and_eq_true]
  exact ⟨h1.1, h2.2⟩

theorem Ex.within_of (e : Ex) {a z : Tok} (h1 : tle a e.firstTok) (h2 : tle e.lastTok z) :
    e.tree.rng.within (Range.span a.rng z.rng) = true := by
  rw [e.tree_rng]; exact within_span h1 h2

/-! ## the checkers on the nodes the actions build -/

theorem exprKinds_notSel : ∀ k ∈ ["terminal", "bin_op", "unary_op", "method_call", "array_access", "set_literal"],
    selKindsR.contains k = false := by decide

theorem rangesOK_mk {k i : String} {r : Range} {kids : List Tree} {a : List String} (hk : selKindsR.contains k = false) :
    (mk k i r kids a).rangesOK = (r.ok && Tree.rangesOKList kids) := by
  simp only [mk, Tree.rangesOK, hk, Bool.not_false, Bool.true_or, Bool.and_true]

theorem rng_leaf (t : Tok) : (Tree.leaf t).rng = t.rng := rfl
theorem rng_mk {k i : String} {r : Range} {kids : List Tree} {a : List String} : (mk k i r kids a).rng = r := rfl

theorem encloses_mk {k i : String} {r : Range} {kids : List Tree} {a : List String} :
    (mk k i r kids a).encloses = Tree.enclosesList r kids := rfl

theorem maxLine_mk {k i : String} {r : Range} {kids : List Tree} {a : List String} :
    (mk k i r kids a).maxLine = Nat.max r.e.line (Tree.maxLine.maxLineList kids) := rfl

theorem le_of_pos_le {a b : Pos} (h : a.le b = true) : a.line ≤ b.line := by
  simp only [Pos.le, Bool.or_eq_true, Bool.and_eq_true, decide_eq_true_eq, beq_iff_eq] at h
  omega

/-- what the induction carries for an expression -/
structure RInv (e : Ex) : Prop where
  ok : Sorted e.toks → e.tree.rangesOK = true
  enc : Sorted e.toks → e.tree.encloses = true
  line : ∀ b, (∀ t ∈ e.toks, t.rng.e.line ≤ b) → e.tree.maxLine ≤ b

/-- … and for a comma-separated list: `r` is any range that covers all tokens of the list -/
structure RInvA (as : Args) : Prop where
  ok : Sorted as.toks → Tree.rangesOKList as.trees = true
  enc : Sorted as.toks → ∀ a z : Tok, (∀ t ∈ as.toks, tle a t ∧ tle t z) → Tree.enclosesList (Range.span a.rng z.rng) as.trees = true
  line : ∀ b, (∀ t ∈ as.toks, t.rng.e.line ≤ b) → Tree.maxLine.maxLineList as.trees ≤ b

theorem rinv_atom (t : Tok) : RInv (.atom t) where
  ok h := by
    simp only [Ex.tree, terminal]
    rw [rangesOK_mk (exprKinds_notSel _ (by simp))]
    simp only [Tree.rng, Tree.rangesOKList, Bool.and_true]
    exact h.1
  enc _ := rfl
  line b h := by
    simp only [Ex.tree, terminal, maxLine_mk, Tree.rng, Tree.maxLine.maxLineList]
    exact Nat.max_le.mpr ⟨h t (by simp [Ex.toks]), Nat.zero_le _⟩

theorem rinv_paren (lp rp : Tok) (e : Ex) (ih : RInv e) : RInv (.paren lp e rp) where
  ok h := ih.ok (sub_left (sub_cons h))
  enc h := ih.enc (sub_left (sub_cons h))
  line b h := ih.line b (fun t ht => h t (by simp [Ex.toks, ht]))

/-- both `bin` and `dot` build `binNode l op r` over `l.toks ++ op :: r.toks` -/
theorem rinv_binNode (l r : Ex) (op : Tok) (ihl : RInv l) (ihr : RInv r) (h : Sorted (l.toks ++ op :: r.toks)) :
    (binNode l.tree (.leaf op) r.tree).rangesOK = true ∧ (binNode l.tree (.leaf op) r.tree).encloses = true := by
  have hl := sub_left h
  have hr := sub_cons (sub_right h)
  have hspan : Range.span l.tree.rng r.tree.rng = Range.span l.firstTok.rng r.lastTok.rng := by
    rw [l.tree_rng, r.tree_rng]; rfl
  have hfl : tle l.firstTok r.lastTok := cross h l.firstTok_mem (List.mem_cons_of_mem _ r.lastTok_mem)
  constructor
  · simp only [binNode]
    rw [rangesOK_mk (exprKinds_notSel _ (by simp))]
    simp only [Tree.rangesOKList, Bool.and_true, Bool.and_eq_true]
    refine ⟨?_, ihl.ok hl, ihr.ok hr⟩
    rw [hspan]; exact span_ok_of_tle hfl (Sorted.mem_ok hr _ r.lastTok_mem)
  · simp only [binNode, encloses_mk, Tree.enclosesList, Bool.and_true, Bool.and_eq_true]
    rw [hspan]
    exact ⟨⟨l.within_of (tle_refl _) (cross h l.lastTok_mem (List.mem_cons_of_mem _ r.lastTok_mem)), ihl.enc hl⟩,
           ⟨r.within_of (cross h l.firstTok_mem (List.mem_cons_of_mem _ r.firstTok_mem)) (tle_refl _), ihr.enc hr⟩⟩

theorem line_binNode (l r : Ex) (op : Tok) (ihl : RInv l) (ihr : RInv r) (b : Nat)
    (h : ∀ t ∈ l.toks ++ op :: r.toks, t.rng.e.line ≤ b) : (binNode l.tree (.leaf op) r.tree).maxLine ≤ b := by
  simp only [binNode, maxLine_mk, Tree.maxLine.maxLineList, Range.span]
  have h1 := ihl.line b (fun t ht => h t (List.mem_append_left _ ht))
  have h2 := ihr.line b (fun t ht => h t (List.mem_append_right _ (List.mem_cons_of_mem _ ht)))
  have h3 : r.tree.rng.e.line ≤ b := by
    rw [r.tree_rng]; exact h _ (List.mem_append_right _ (List.mem_cons_of_mem _ r.lastTok_mem))
  exact Nat.max_le.mpr ⟨h3, Nat.max_le.mpr ⟨h1, Nat.max_le.mpr ⟨h2, Nat.zero_le _⟩⟩⟩

theorem rinv_bin (l r : Ex) (op : Tok) (ihl : RInv l) (ihr : RInv r) : RInv (.bin l op r) where
  ok h := (rinv_binNode l r op ihl ihr h).1
  enc h := (rinv_binNode l r op ihl ihr h).2
  line b h := line_binNode l r op ihl ihr b h

theorem rinv_dot (l r : Ex) (d : Tok) (ihl : RInv l) (ihr : RInv r) : RInv (.dot l d r) where
  ok h := (rinv_binNode l r d ihl ihr h).1
  enc h := (rinv_binNode l r d ihl ihr h).2
  line b h := line_binNode l r d ihl ihr b h

theorem rinv_pre (op : Tok) (e : Ex) (ih : RInv e) : RInv (.pre op e) where
  ok h := by
    have he := sub_cons h
    simp only [Ex.tree, unaryPreNode]
    rw [rangesOK_mk (exprKinds_notSel _ (by simp))]
    simp only [Tree.rangesOKList, Bool.and_true, Bool.and_eq_true, rng_leaf]
    refine ⟨?_, ih.ok he⟩
    rw [e.tree_rng]
    exact span_ok_of_tle (a := op) (cross_cons h e.lastTok_mem) (Sorted.mem_ok he _ e.lastTok_mem)
  enc h := by
    simp only [Ex.tree, unaryPreNode, encloses_mk, Tree.enclosesList, Bool.and_true, Bool.and_eq_true, rng_leaf]
    refine ⟨?_, ih.enc (sub_cons h)⟩
    have : Range.span op.rng e.tree.rng = Range.span op.rng e.lastTok.rng := by rw [e.tree_rng]; rfl
    rw [this]
    exact e.within_of (cross_cons h e.firstTok_mem) (tle_refl _)
  line b h := by
    simp only [Ex.tree, unaryPreNode, maxLine_mk, Tree.maxLine.maxLineList, Range.span]
    have h1 := ih.line b (fun t ht => h t (List.mem_cons_of_mem _ ht))
    have h3 : e.tree.rng.e.line ≤ b := by rw [e.tree_rng]; exact h _ (List.mem_cons_of_mem _ e.lastTok_mem)
    exact Nat.max_le.mpr ⟨h3, Nat.max_le.mpr ⟨h1, Nat.zero_le _⟩⟩

theorem rinv_post (e : Ex) (op : Tok) (ih : RInv e) : RInv (.post e op) where
  ok h := by
    have he := sub_left h
    simp only [Ex.tree, unaryPostNode]
    rw [rangesOK_mk (exprKinds_notSel _ (by simp))]
    simp only [Tree.rangesOKList, Bool.and_true, Bool.and_eq_true, rng_leaf]
    refine ⟨?_, ih.ok he⟩
    rw [e.tree_rng]
    exact span_ok_of_tle (z := op) (cross h e.firstTok_mem (List.mem_singleton.mpr rfl))
      (Sorted.mem_ok h _ (List.mem_append_right _ (List.mem_singleton.mpr rfl)))
  enc h := by
    simp only [Ex.tree, unaryPostNode, encloses_mk, Tree.enclosesList, Bool.and_true, Bool.and_eq_true, rng_leaf]
    refine ⟨?_, ih.enc (sub_left h)⟩
    have : Range.span e.tree.rng op.rng = Range.span e.firstTok.rng op.rng := by rw [e.tree_rng]; rfl
    rw [this]
    exact e.within_of (tle_refl _) (cross h e.lastTok_mem (List.mem_singleton.mpr rfl))
  line b h := by
    simp only [Ex.tree, unaryPostNode, maxLine_mk, Tree.maxLine.maxLineList, Range.span, rng_leaf]
    have h1 := ih.line b (fun t ht => h t (List.mem_append_left _ ht))
    exact Nat.max_le.mpr ⟨h _ (List.mem_append_right _ (List.mem_singleton.mpr rfl)), Nat.max_le.mpr ⟨h1, Nat.zero_le _⟩⟩

/-- a bracketed list `open … close` (after an optional head token): what `call` and `set` need -/
theorem args_in_brackets (as : Args) (ih : RInvA as) (a z : Tok) (pre : List Tok)
    (h : Sorted (a :: (pre ++ (as.toks ++ [z])))) :
    (Range.span a.rng z.rng).ok = true ∧ Tree.rangesOKList as.trees = true ∧
      Tree.enclosesList (Range.span a.rng z.rng) as.trees = true := by
  have hz : z ∈ pre ++ (as.toks ++ [z]) := List.mem_append_right _ (List.mem_append_right _ (List.mem_singleton.mpr rfl))
  have has : Sorted as.toks := sub_left (sub_right (sub_cons h))
  refine ⟨span_ok_of_tle (cross_cons h hz) (Sorted.mem_ok h _ (List.mem_cons_of_mem _ hz)), ih.ok has, ih.enc has a z ?_⟩
  intro t ht
  exact ⟨cross_cons h (List.mem_append_right _ (List.mem_append_left _ ht)),
         cross (sub_right (sub_cons h)) ht (List.mem_singleton.mpr rfl)⟩

theorem rinv_call (f lp rp : Tok) (as : Args) (ih : RInvA as) : RInv (.call f lp as rp) where
  ok h := by
    obtain ⟨h1, h2, _⟩ := args_in_brackets as ih f rp [lp] h
    simp only [Ex.tree, callNode, terminal, mk, Tree.rng] at *
    simp [Tree.rangesOK, selKindsR, h1, h2]
  enc h := (args_in_brackets as ih f rp [lp] h).2.2
  line b h := by
    simp only [Ex.tree, callNode, maxLine_mk, Range.span, Tree.rng]
    exact Nat.max_le.mpr ⟨h _ (by simp [Ex.toks]), ih.line b (fun t ht => h t (by simp [Ex.toks, ht]))⟩

theorem rinv_set (lb rb : Tok) (as : Args) (ih : RInvA as) : RInv (.set lb as rb) where
  ok h := by
    obtain ⟨h1, h2, _⟩ := args_in_brackets as ih lb rb [] h
    simp only [Ex.tree, setNode, mk, Tree.rng] at *
    simp [Tree.rangesOK, selKindsR, h1, h2]
  enc h := (args_in_brackets as ih lb rb [] h).2.2
  line b h := by
    simp only [Ex.tree, setNode, maxLine_mk, Range.span, Tree.rng]
    exact Nat.max_le.mpr ⟨h _ (by simp [Ex.toks]), ih.line b (fun t ht => h t (by simp [Ex.toks, ht]))⟩

theorem rinv_index (a lb rb : Tok) (e : Ex) (ih : RInv e) : RInv (.index a lb e rb) where
  ok h := by
    have hrb : rb ∈ lb :: (e.toks ++ [rb]) := List.mem_cons_of_mem _ (List.mem_append_right _ (List.mem_singleton.mpr rfl))
    have he : Sorted e.toks := sub_left (sub_cons (sub_cons h))
    have h1 : (Range.span a.rng rb.rng).ok = true :=
      span_ok_of_tle (cross_cons h hrb) (Sorted.mem_ok h _ (List.mem_cons_of_mem _ hrb))
    have h2 := ih.ok he
    have h3 : a.rng.ok = true := h.1
    simp only [Ex.tree, indexNode, terminal, mk, Tree.rng] at *
    simp [Tree.rangesOK, Tree.rangesOKList, selKindsR, h1, h2, h3]
  enc h := by
    have hrb : rb ∈ lb :: (e.toks ++ [rb]) := List.mem_cons_of_mem _ (List.mem_append_right _ (List.mem_singleton.mpr rfl))
    have he : Sorted e.toks := sub_left (sub_cons (sub_cons h))
    have h1 : a.rng.within (Range.span a.rng rb.rng) = true := by
      have := within_span (a := a) (z := a) (tle_refl a) (cross_cons h hrb)
      simpa [Range.span] using this
    have h2 : e.tree.rng.within (Range.span a.rng rb.rng) = true :=
      e.within_of (cross_cons h (List.mem_cons_of_mem _ (List.mem_append_left _ e.firstTok_mem)))
        (cross (sub_cons (sub_cons h)) e.lastTok_mem (List.mem_singleton.mpr rfl))
    simp only [Ex.tree, indexNode, terminal, mk, Tree.rng] at *
    simp [Tree.encloses, Tree.enclosesList, Tree.rng, h1, h2, ih.enc he]
  line b h := by
    simp only [Ex.tree, indexNode, terminal, maxLine_mk, Range.span, Tree.rng, Tree.maxLine.maxLineList]
    have h1 := ih.line b (fun t ht => h t (by simp [Ex.toks, ht]))
    exact Nat.max_le.mpr ⟨h _ (by simp [Ex.toks]), Nat.max_le.mpr ⟨Nat.max_le.mpr ⟨h _ (by simp [Ex.toks]), Nat.zero_le _⟩,
      Nat.max_le.mpr ⟨h1, Nat.zero_le _⟩⟩⟩

theorem rinva_nil : RInvA .nil where
  ok _ := rfl
  enc _ _ _ _ := rfl
  line _ _ := Nat.zero_le _

theorem rinva_one (e : Ex) (ih : RInv e) : RInvA (.one e) where
  ok h := by simp only [Args.trees, Tree.rangesOKList, Bool.and_true]; exact ih.ok h
  enc h a z hc := by
    simp only [Args.trees, Tree.enclosesList, Bool.and_true, Bool.and_eq_true]
    exact ⟨e.within_of (hc _ e.firstTok_mem).1 (hc _ e.lastTok_mem).2, ih.enc h⟩
  line b h := by
    simp only [Args.trees, Tree.maxLine.maxLineList]
    exact Nat.max_le.mpr ⟨ih.line b h, Nat.zero_le _⟩

theorem rinva_more (e : Ex) (c : Tok) (rest : Args) (ih : RInv e) (ihr : RInvA rest) : RInvA (.more e c rest) where
  ok h := by
    simp only [Args.trees, Tree.rangesOKList, Bool.and_eq_true]
    exact ⟨ih.ok (sub_left h), ihr.ok (sub_cons (sub_right h))⟩
  enc h a z hc := by
    simp only [Args.trees, Tree.enclosesList, Bool.and_eq_true]
    have hm : ∀ t ∈ e.toks, t ∈ (Args.more e c rest).toks := fun t ht => List.mem_append_left _ ht
    have hm2 : ∀ t ∈ rest.toks, t ∈ (Args.more e c rest).toks := fun t ht => List.mem_append_right _ (List.mem_cons_of_mem _ ht)
    exact ⟨⟨e.within_of (hc _ (hm _ e.firstTok_mem)).1 (hc _ (hm _ e.lastTok_mem)).2, ih.enc (sub_left h)⟩,
      ihr.enc (sub_cons (sub_right h)) a z (fun t ht => hc t (hm2 t ht))⟩
  line b h := by
    simp only [Args.trees, Tree.maxLine.maxLineList]
    exact Nat.max_le.mpr ⟨ih.line b (fun t ht => h t (List.mem_append_left _ ht)),
      ihr.line b (fun t ht => h t (List.mem_append_right _ (List.mem_cons_of_mem _ ht)))⟩

mutual
theorem rinvEx : (e : Ex) → RInv e
  | .atom t => rinv_atom t
  | .paren lp e rp => rinv_paren lp rp e (rinvEx e)
  | .bin l op r => rinv_bin l r op (rinvEx l) (rinvEx r)
  | .pre op e => rinv_pre op e (rinvEx e)
  | .post e op => rinv_post e op (rinvEx e)
  | .dot l d r => rinv_dot l r d (rinvEx l) (rinvEx r)
  | .call f lp as rp => rinv_call f lp rp as (rinvArgs as)
  | .index a lb e rb => rinv_index a lb rb e (rinvEx e)
  | .set lb as rb => rinv_set lb rb as (rinvArgs as)
theorem rinvArgs : (as : Args) → RInvA as
  | .nil => rinva_nil
  | .one e => rinva_one e (rinvEx e)
  | .more e c rest => rinva_more e c rest (rinvEx e) (rinvArgs rest)
end

end Gold.C06
