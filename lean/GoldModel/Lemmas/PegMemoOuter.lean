import GoldModel.Lemmas.PegMemoInner
/-! T3, outer part: at file level (no memoised parser outside a `reslice`) the memoising
    interpreter agrees with the memo-free one from ANY cache state -/
namespace Gold.Peg
open Gold

variable {Γ Δ : Nat → G} {A B : Nat → Bool}

/-- same result, same *set* of diagnostics -/
def AgreeO (p : R × List Diag) (q : R × List Diag × MSt) : Prop :=
  q.1 = p.1 ∧ (∀ x ∈ q.2.1, x ∈ p.2) ∧ (∀ x ∈ p.2, x ∈ q.2.1)

theorem AgreeO.bind {ra rb r : R} {da db da' db' : List Diag} {s1 s2 : MSt}
    (ha : AgreeO (ra, da) (ra, da', s1)) (hb : AgreeO (rb, db) (rb, db', s2)) :
    AgreeO (r, da ++ db) (r, da' ++ db', s2) := by
  obtain ⟨_, a1, a2⟩ := ha
  obtain ⟨_, b1, b2⟩ := hb
  simp only at a1 a2 b1 b2
  refine ⟨rfl, ?_, ?_⟩
  · intro x hx
    rcases List.mem_append.mp hx with h | h
    · exact List.mem_append_left _ (a1 x h)
    · exact List.mem_append_right _ (b1 x h)
  · intro x hx
    rcases List.mem_append.mp hx with h | h
    · exact List.mem_append_left _ (a2 x h)
    · exact List.mem_append_right _ (b2 x h)

theorem AgreeO.ret {r0 r : R} {dP dM : List Diag} {s : MSt} (h : AgreeO (r0, dP) (r0, dM, s)) :
    AgreeO (r, dP) (r, dM, s) := ⟨rfl, h.2.1, h.2.2⟩

theorem AgreeO.add {r0 r : R} {dP dM : List Diag} {s : MSt} (x : List Diag) (h : AgreeO (r0, dP) (r0, dM, s)) :
    AgreeO (r, dP ++ x) (r, dM ++ x, s) := by
  obtain ⟨_, h1, h2⟩ := h
  simp only at h1 h2
  refine ⟨rfl, ?_, ?_⟩
  · intro y hy
    rcases List.mem_append.mp hy with h | h
    · exact List.mem_append_left _ (h1 y h)
    · exact List.mem_append_right _ h
  · intro y hy
    rcases List.mem_append.mp hy with h | h
    · exact List.mem_append_left _ (h2 y h)
    · exact List.mem_append_right _ h

theorem AgreeO.pure {r : R} {s : MSt} : AgreeO (r, []) (r, [], s) :=
  ⟨rfl, fun _ h => by simp at h, fun _ h => by simp at h⟩

set_option maxRecDepth 2000 in
theorem runM_outer (S : Scoped Γ Δ A B) : ∀ (f : Nat) (g : G) (ts : List Tok) (s : MSt),
    outerOK A B g = true → (runP Γ Δ f g ts).1.isFuel = false →
    AgreeO (runP Γ Δ f g ts) (runM Γ Δ f g ts s) := by
  intro f
  induction f with
  | zero => intro g ts s _ h; simp [runP, R.isFuel] at h
  | succ f ih =>
    intro g ts s hg hP
    have sub : ∀ (g' : G) (ts' : List Tok) (s' : MSt), outerOK A B g' = true →
        (runP Γ Δ f g' ts').1.isFuel = false →
        ∃ r dP dM s1, runP Γ Δ f g' ts' = (r, dP) ∧ runM Γ Δ f g' ts' s' = (r, dM, s1) ∧
          AgreeO (r, dP) (r, dM, s1) := by
      intro g' ts' s' h1 h4
      have := ih g' ts' s' h1 h4
      rcases hp : runP Γ Δ f g' ts' with ⟨r, dP⟩
      rcases hm : runM Γ Δ f g' ts' s' with ⟨r', dM, s1⟩
      rw [hp, hm] at this
      have e : r' = r := this.1
      subst e
      exact ⟨_, _, _, _, rfl, rfl, this⟩
    cases g with
    | tok k => simp only [runP, runM]; exact AgreeO.pure
    | identVal x => simp only [runP, runM]; exact AgreeO.pure
    | eps v => simp only [runP, runM]; exact AgreeO.pure
    | skipTo ks =>
      simp only [runP, runM]
      rcases takeUntil ks ts with ⟨rest, body, e⟩
      exact AgreeO.pure
    | memo c e => simp [outerOK] at hg
    | ref n =>
      simp only [outerOK] at hg
      simp only [runP, runM] at hP ⊢
      exact ih (Γ n) ts s (S.outerΓ n hg) hP
    | reslice ks inner =>
      simp only [outerOK] at hg
      simp only [runP, runM] at hP ⊢
      rcases htu : takeUntil ks ts with ⟨rest, body, e⟩
      rw [htu] at hP
      simp only at hP ⊢
      cases body with
      | nil => exact AgreeO.pure
      | cons b0 bs =>
        simp only at hP ⊢
        have hnf : (runP Γ Δ f inner (b0 :: bs)).1.isFuel = false := by
          rcases hq : runP Γ Δ f inner (b0 :: bs) with ⟨ri, di⟩
          rw [hq] at hP; cases ri <;> simp_all [R.isFuel]
        have ag := runM_inner S (b0 :: bs) f inner (b0 :: bs) s.clear [] hg (List.suffix_refl _)
          (Coh.nil Γ Δ _ _) hnf
        rcases hp : runP Γ Δ f inner (b0 :: bs) with ⟨ri, di⟩
        rcases hm : runM Γ Δ f inner (b0 :: bs) s.clear with ⟨ri', dm, s1⟩
        rw [hp, hm] at ag
        obtain ⟨e1, _, d1, d2⟩ := ag
        simp only at e1 d1 d2
        subst e1
        have ago : AgreeO (ri', di) (ri', dm, s1) := ⟨rfl, d1, by simpa using d2⟩
        cases ri' with
        | ok r v => exact AgreeO.ret ago
        | fuel => exact ago
        | err e2 msg => exact AgreeO.ret ago
    | seq a b =>
      simp only [outerOK, Bool.and_eq_true] at hg
      simp only [runP] at hP
      have hnfa : (runP Γ Δ f a ts).1.isFuel = false := by
        rcases hq : runP Γ Δ f a ts with ⟨ra, da⟩
        rw [hq] at hP; cases ra <;> simp_all [R.isFuel]
      obtain ⟨ra, da, da', s1, hpa, hma, aga⟩ := sub a ts s hg.1 hnfa
      simp only [runP, runM, hpa, hma]
      rw [hpa] at hP
      cases ra with
      | fuel => simp [R.isFuel] at hP
      | err e m => exact aga
      | ok r va =>
        simp only at hP ⊢
        have hnfb : (runP Γ Δ f b r).1.isFuel = false := by
          rcases hq : runP Γ Δ f b r with ⟨rb, db⟩
          rw [hq] at hP; cases rb <;> simp_all [R.isFuel]
        obtain ⟨rb, db, db', s2, hpb, hmb, agb⟩ := sub b r s1 hg.2 hnfb
        rw [hpb, hmb]
        cases rb with
        | ok r2 vb => exact AgreeO.bind aga agb
        | err e m => exact AgreeO.bind aga agb
        | fuel => exact AgreeO.bind aga agb
    | dep a test b =>
      simp only [outerOK, Bool.and_eq_true] at hg
      simp only [runP] at hP
      have hnfa : (runP Γ Δ f a ts).1.isFuel = false := by
        rcases hq : runP Γ Δ f a ts with ⟨ra, da⟩
        rw [hq] at hP; cases ra <;> simp_all [R.isFuel]
      obtain ⟨ra, da, da', s1, hpa, hma, aga⟩ := sub a ts s hg.1 hnfa
      simp only [runP, runM, hpa, hma]
      rw [hpa] at hP
      cases ra with
      | fuel => simp [R.isFuel] at hP
      | err e m => exact aga
      | ok r va =>
        simp only at hP ⊢
        by_cases ht : test va = true
        · simp only [ht, ↓reduceIte] at hP ⊢
          have hnfb : (runP Γ Δ f b r).1.isFuel = false := by
            rcases hq : runP Γ Δ f b r with ⟨rb, db⟩
            rw [hq] at hP; cases rb <;> simp_all [R.isFuel]
          obtain ⟨rb, db, db', s2, hpb, hmb, agb⟩ := sub b r s1 hg.2 hnfb
          rw [hpb, hmb]
          cases rb with
          | ok r2 vb => exact AgreeO.bind aga agb
          | err e m => exact AgreeO.bind aga agb
          | fuel => exact AgreeO.bind aga agb
        · simp only [ht] at hP ⊢
          exact AgreeO.ret aga
    | alt a b =>
      simp only [outerOK, Bool.and_eq_true] at hg
      simp only [runP] at hP
      have hnfa : (runP Γ Δ f a ts).1.isFuel = false := by
        rcases hq : runP Γ Δ f a ts with ⟨ra, da⟩
        rw [hq] at hP; cases ra <;> simp_all [R.isFuel]
      obtain ⟨ra, da, da', s1, hpa, hma, aga⟩ := sub a ts s hg.1 hnfa
      simp only [runP, runM, hpa, hma]
      rw [hpa] at hP
      cases ra with
      | fuel => simp [R.isFuel] at hP
      | ok r va => exact aga
      | err e1 m1 =>
        simp only at hP ⊢
        have hnfb : (runP Γ Δ f b ts).1.isFuel = false := by
          rcases hq : runP Γ Δ f b ts with ⟨rb, db⟩
          rw [hq] at hP; cases rb <;> simp_all [R.isFuel]
        obtain ⟨rb, db, db', s2, hpb, hmb, agb⟩ := sub b ts s1 hg.2 hnfb
        rw [hpb, hmb]
        cases rb with
        | ok r2 vb => exact AgreeO.bind aga agb
        | err e m => exact AgreeO.bind aga agb
        | fuel => exact AgreeO.bind aga agb
    | opt a =>
      simp only [outerOK] at hg
      simp only [runP] at hP
      have hnfa : (runP Γ Δ f a ts).1.isFuel = false := by
        rcases hq : runP Γ Δ f a ts with ⟨ra, da⟩
        rw [hq] at hP; cases ra <;> simp_all [R.isFuel]
      obtain ⟨ra, da, da', s1, hpa, hma, aga⟩ := sub a ts s hg hnfa
      simp only [runP, runM, hpa, hma]
      cases ra with
      | fuel => exact aga
      | ok r va => exact aga
      | err e m => exact AgreeO.ret aga
    | map fn g' =>
      simp only [outerOK] at hg
      simp only [runP] at hP
      have hnfa : (runP Γ Δ f g' ts).1.isFuel = false := by
        rcases hq : runP Γ Δ f g' ts with ⟨ra, da⟩
        rw [hq] at hP; cases ra <;> simp_all [R.isFuel]
      obtain ⟨ra, da, da', s1, hpa, hma, aga⟩ := sub g' ts s hg hnfa
      simp only [runP, runM, hpa, hma]
      cases ra with
      | fuel => exact aga
      | ok r va => exact AgreeO.ret aga
      | err e m => exact aga
    | check p msg g' =>
      simp only [outerOK] at hg
      simp only [runP] at hP
      have hnfa : (runP Γ Δ f g' ts).1.isFuel = false := by
        rcases hq : runP Γ Δ f g' ts with ⟨ra, da⟩
        rw [hq] at hP; cases ra <;> simp_all [R.isFuel]
      obtain ⟨ra, da, da', s1, hpa, hma, aga⟩ := sub g' ts s hg hnfa
      simp only [runP, runM, hpa, hma]
      cases ra with
      | fuel => exact aga
      | ok r va => exact AgreeO.ret aga
      | err e m => exact aga
    | prepend x g' =>
      simp only [outerOK] at hg
      simp only [runP] at hP
      have hnfa : (runP Γ Δ f g' ts).1.isFuel = false := by
        rcases hq : runP Γ Δ f g' ts with ⟨ra, da⟩
        rw [hq] at hP; cases ra <;> simp_all [R.isFuel]
      obtain ⟨ra, da, da', s1, hpa, hma, aga⟩ := sub g' ts s hg hnfa
      simp only [runP, runM, hpa, hma]
      cases ra with
      | fuel => exact aga
      | ok r va => exact aga
      | err e m => exact AgreeO.ret aga
    | catchErr g' =>
      simp only [outerOK] at hg
      simp only [runP] at hP
      have hnfa : (runP Γ Δ f g' ts).1.isFuel = false := by
        rcases hq : runP Γ Δ f g' ts with ⟨ra, da⟩
        rw [hq] at hP; cases ra <;> simp_all [R.isFuel]
      obtain ⟨ra, da, da', s1, hpa, hma, aga⟩ := sub g' ts s hg hnfa
      simp only [runP, runM, hpa, hma]
      cases ra with
      | fuel => exact aga
      | ok r va => exact aga
      | err e m => exact AgreeO.ret aga
    | emit fn g' =>
      simp only [outerOK] at hg
      simp only [runP] at hP
      have hnfa : (runP Γ Δ f g' ts).1.isFuel = false := by
        rcases hq : runP Γ Δ f g' ts with ⟨ra, da⟩
        rw [hq] at hP; cases ra <;> simp_all [R.isFuel]
      obtain ⟨ra, da, da', s1, hpa, hma, aga⟩ := sub g' ts s hg hnfa
      simp only [runP, runM, hpa, hma]
      cases ra with
      | fuel => exact aga
      | ok r va => exact AgreeO.add _ aga
      | err e m => exact aga
    | recover m g' =>
      simp only [outerOK] at hg
      simp only [runP] at hP
      have hnfa : (runP Γ Δ f g' ts).1.isFuel = false := by
        rcases hq : runP Γ Δ f g' ts with ⟨ra, da⟩
        rw [hq] at hP; cases ra <;> simp_all [R.isFuel]
      obtain ⟨ra, da, da', s1, hpa, hma, aga⟩ := sub g' ts s hg hnfa
      simp only [runP, runM, hpa, hma]
      cases ra with
      | fuel => exact aga
      | ok r va => exact aga
      | err e msg => exact AgreeO.add _ aga
    | ifTok ks a b =>
      simp only [outerOK, Bool.and_eq_true] at hg
      simp only [runP, runM] at hP ⊢
      cases hfr : firstReal ts with
      | none =>
        simp only [hfr] at hP ⊢
        exact ih b ts s hg.2 hP
      | some p =>
        obtain ⟨t, rest⟩ := p
        simp only [hfr] at hP ⊢
        by_cases hk : ks.contains t.kind = true
        · simp only [hk, ↓reduceIte] at hP ⊢
          have hnfa : (runP Γ Δ f a rest).1.isFuel = false := by
            rcases hq : runP Γ Δ f a rest with ⟨ra, da⟩
            rw [hq] at hP; cases ra <;> simp_all [R.isFuel]
          obtain ⟨ra, da, da', s1, hpa, hma, aga⟩ := sub a rest s hg.1 hnfa
          simp only [hpa, hma]
          cases ra with
          | fuel => exact aga
          | ok r va => exact AgreeO.ret aga
          | err e m => exact aga
        · simp only [hk] at hP ⊢
          exact ih b ts s hg.2 hP
    | ifEof a b =>
      simp only [outerOK, Bool.and_eq_true] at hg
      cases ts with
      | nil =>
        simp only [runP, runM] at hP ⊢
        exact ih a [] s hg.1 hP
      | cons x xs =>
        simp only [runP, runM] at hP ⊢
        exact ih b (x :: xs) s hg.2 hP

end Gold.Peg
