import GoldModel.Props.C06
import GoldModel.Model.Expr
import GoldModel.Lemmas.BigStep
/-!
Helper lemmas for the expression round trip (`Props/C06Expr.lean`): the eight binary levels of
`body_parser.rs` over atoms and parentheses, for expressions of ANY size and nesting.
-/
namespace Gold.C06
open Gold Gold.Peg Gold.Gram

theorem lvG8 : lvG 8 = gOr := rfl

theorem tail_def (L : Nat) (h1 : 1 ≤ L) (h8 : L ≤ 8) :
    Γ (lvTail L) = binTail (toks (lvOps L)) (lvOpnd L) (lvTail L) := by
  have : L = 1 ∨ L = 2 ∨ L = 3 ∨ L = 4 ∨ L = 5 ∨ L = 6 ∨ L = 7 ∨ L = 8 := by omega
  rcases this with h | h | h | h | h | h | h | h <;> subst h <;> rfl

theorem opnd_of_lvG (L : Nat) (h1 : 1 ≤ L) (h8 : L ≤ 8) {ts r : List Tok} {v : Tree}
    (h : Parses (lvG (L-1)) ts r v) : Parses (lvOpnd L) ts r v := by
  have : L = 1 ∨ L = 2 ∨ L = 3 ∨ L = 4 ∨ L = 5 ∨ L = 6 ∨ L = 7 ∨ L = 8 := by omega
  rcases this with h' | h' | h' | h' | h' | h' | h' | h' <;> subst h'
  · exact h
  · exact h
  · exact h
  · exact h
  · exact h
  · exact h
  · exact Parses.ref (n := nCompare) h
  · exact h

/-! ## what may follow an expression of level `L` -/

theorem bad_mono (L : Nat) (x : Kind) (h : x ∈ bad L) : x ∈ bad (L+1) := by
  simp only [bad, opsUpTo, List.mem_cons, List.mem_append] at h ⊢
  rcases h with h | h | h
  · exact Or.inl h
  · exact Or.inr (Or.inl h)
  · exact Or.inr (Or.inr (Or.inl h))

theorem Stop.mono {L : Nat} {k : List Tok} (h : Stop (L+1) k) : Stop L k :=
  fun t r e hb => h t r e (bad_mono L _ hb)

theorem Stop.pred {L : Nat} {k : List Tok} (h : Stop L k) : Stop (L-1) k := by
  cases L with
  | zero => exact h
  | succ L => exact h.mono

theorem ops_bad (L : Nat) (h1 : 1 ≤ L) (x : Kind) (hx : x ∈ lvOps L) : x ∈ bad L := by
  cases L with
  | zero => omega
  | succ L => simp only [bad, opsUpTo, List.mem_cons, List.mem_append]; exact Or.inr (Or.inr (Or.inr hx))

theorem Stop.fails_toks {L : Nat} {k : List Tok} (h : Stop L k) (ks : List Kind) (hks : ∀ x ∈ ks, x ∈ bad L) :
    Fails (toks ks) k := by
  cases k with
  | nil => exact Fails.toks_nil
  | cons t r =>
    have hb := h t r rfl
    exact Fails.toks (fun hin => hb (hks _ hin)) (fun hc => hb (by rw [hc]; exact List.mem_cons_self))

theorem Stop.fails_tok {L : Nat} {k : List Tok} (h : Stop L k) (x : Kind) (hx : x ∈ bad L) : Fails (.tok x) k := by
  cases k with
  | nil => exact Fails.tok_nil
  | cons t r =>
    have hb := h t r rfl
    exact Fails.tok (fun e => hb (e ▸ hx)) (fun hc => hb (by rw [hc]; exact List.mem_cons_self))

/-- an operator of level `L` does not extend an expression of a tighter level (table fact) -/
theorem ops_stop_table : ∀ L ∈ [1,2,3,4,5,6,7,8], ∀ x ∈ lvOps L, x ∉ bad (L-1) := by decide +kernel

theorem ops_stop (L : Nat) (h1 : 1 ≤ L) (h8 : L ≤ 8) (t : Tok) (r : List Tok) (ht : t.kind ∈ lvOps L) :
    Stop (L-1) (t :: r) := by
  intro t' r' e
  cases e
  exact ops_stop_table L (by simp; omega) _ ht

theorem cbracket_stop (t : Tok) (r : List Tok) (ht : t.kind = Kind.CBracket) : Stop 8 (t :: r) := by
  intro t' r' e
  cases e
  rw [ht]
  decide +kernel

/-! ## expressions -/

theorem opLevel_mem (k : Kind) (h : 1 ≤ opLevel k) : k ∈ lvOps (opLevel k) := by
  unfold opLevel at h ⊢
  by_cases h1 : k ∈ lvOps 1
  · rw [if_pos h1]; exact h1
  rw [if_neg h1] at h ⊢
  by_cases h2 : k ∈ lvOps 2
  · rw [if_pos h2]; exact h2
  rw [if_neg h2] at h ⊢
  by_cases h3 : k ∈ lvOps 3
  · rw [if_pos h3]; exact h3
  rw [if_neg h3] at h ⊢
  by_cases h4 : k ∈ lvOps 4
  · rw [if_pos h4]; exact h4
  rw [if_neg h4] at h ⊢
  by_cases h5 : k ∈ lvOps 5
  · rw [if_pos h5]; exact h5
  rw [if_neg h5] at h ⊢
  by_cases h6 : k ∈ lvOps 6
  · rw [if_pos h6]; exact h6
  rw [if_neg h6] at h ⊢
  by_cases h7 : k ∈ lvOps 7
  · rw [if_pos h7]; exact h7
  rw [if_neg h7] at h ⊢
  by_cases h8 : k ∈ lvOps 8
  · rw [if_pos h8]; exact h8
  rw [if_neg h8] at h
  omega

theorem opLevel_le (k : Kind) : opLevel k ≤ 8 := by
  unfold opLevel
  repeat' split
  all_goals omega

theorem Ex.tree_notCaught (e : Ex) : notCaught e.tree := by
  induction e with
  | atom t => rfl
  | paren lp e rp ih => exact ih
  | bin l op r _ _ => rfl

/-! ## the fold -/

def foldAll (l : Tree) (ps : List (Tree × Tree)) : Tree := ps.foldl (fun acc p => binNode acc p.1 p.2) l

theorem nmax_l (a b : Nat) : a ≤ Nat.max a b := Nat.le_max_left a b
theorem nmax_r (a b : Nat) : b ≤ Nat.max a b := Nat.le_max_right a b

theorem depth_tailOf (ps : List (Tree × Tree)) : ps.length ≤ treeDepth (tailOf ps) := by
  induction ps with
  | nil => simp
  | cons p rest ih =>
    obtain ⟨op, r⟩ := p
    simp only [tailOf, Tree.seq, treeDepth, treeDepth.depthList, List.length_cons]
    have a : treeDepth (tailOf rest) ≤ Nat.max (treeDepth r) (Nat.max (treeDepth (tailOf rest)) 0) :=
      Nat.le_trans (nmax_l _ 0) (nmax_r _ _)
    have b : 1 + Nat.max (treeDepth r) (Nat.max (treeDepth (tailOf rest)) 0) ≤
        Nat.max (treeDepth op) (Nat.max (1 + Nat.max (treeDepth r) (Nat.max (treeDepth (tailOf rest)) 0)) 0) :=
      Nat.le_trans (nmax_l _ 0) (nmax_r _ _)
    generalize Nat.max (treeDepth op) (Nat.max (1 + Nat.max (treeDepth r) (Nat.max (treeDepth (tailOf rest)) 0)) 0) = X at b ⊢
    generalize Nat.max (treeDepth r) (Nat.max (treeDepth (tailOf rest)) 0) = Y at a b
    omega

theorem fold_value (first : Tree) (ps : List (Tree × Tree)) (hc : ∀ p ∈ ps, notCaught p.2) :
    foldBin (treeDepth (Tree.seq [first, tailOf ps])) ((Tree.seq [first, tailOf ps]).nth 0)
      ((Tree.seq [first, tailOf ps]).nth 1) = foldAll first ps := by
  have h0 : (Tree.seq [first, tailOf ps]).nth 0 = first := rfl
  have h1 : (Tree.seq [first, tailOf ps]).nth 1 = tailOf ps := rfl
  rw [h0, h1]
  apply foldBin_left_assoc _ _ _ _ hc
  have := depth_tailOf ps
  simp only [Tree.seq, treeDepth, treeDepth.depthList]
  have a : treeDepth (tailOf ps) ≤ Nat.max (treeDepth first) (Nat.max (treeDepth (tailOf ps)) 0) :=
    Nat.le_trans (nmax_l _ 0) (nmax_r _ _)
  generalize Nat.max (treeDepth first) (Nat.max (treeDepth (tailOf ps)) 0) = X at a ⊢
  omega

/-! ## the three generic steps -/

/-- continuation form: parse `e` and then whatever the tail of level `L` accepts -/
def P2 (e : Ex) (L : Nat) : Prop :=
  ∀ (items : List (Tree × Tree)) (rest k : List Tok), Stop (L-1) rest →
    Parses (.ref (lvTail L)) rest k (tailOf items) → (∀ p ∈ items, notCaught p.2) →
    ∃ first items', Parses (.seq (lvOpnd L) (.ref (lvTail L))) (e.toks ++ rest) k (Tree.seq [first, tailOf items']) ∧
      (∀ p ∈ items', notCaught p.2) ∧ foldAll first items' = foldAll e.tree items

def P1 (e : Ex) (L : Nat) : Prop := ∀ k, Stop L k → Parses (lvG L) (e.toks ++ k) k e.tree

theorem tail_eps (L : Nat) (h1 : 1 ≤ L) (h8 : L ≤ 8) (k : List Tok) (hk : Stop L k) :
    Parses (.ref (lvTail L)) k k (tailOf []) := by
  apply Parses.ref
  rw [tail_def L h1 h8]
  exact Parses.alt2 (Fails.seq1 (hk.fails_toks _ (ops_bad L h1))) Parses.eps

theorem p1_of_p2 (e : Ex) (L : Nat) (h1 : 1 ≤ L) (h8 : L ≤ 8) (h : P2 e L) : P1 e L := by
  intro k hk
  obtain ⟨first, items', hp, hc, hf⟩ := h [] k k hk.pred (tail_eps L h1 h8 k hk) (by intro p hp; cases hp)
  obtain ⟨L', rfl⟩ : ∃ L', L = L' + 1 := ⟨L - 1, by omega⟩
  have := Parses.map (fn := fun v : Tree => foldBin (treeDepth v) (v.nth 0) (v.nth 1)) hp
  rw [fold_value first items' hc, hf] at this
  exact this

/-- `e` parsed by the operand parser alone, the given tail follows -/
theorem p2_of_lower (e : Ex) (L : Nat) (h1 : 1 ≤ L) (h8 : L ≤ 8) (h : P1 e (L-1)) : P2 e L := by
  intro items rest k hrest htail hc
  exact ⟨e.tree, items, Parses.seq (opnd_of_lvG L h1 h8 (h rest hrest)) htail, hc, rfl⟩

/-- a binary node whose operator is of level `L` -/
theorem p2_bin (l r : Ex) (op : Tok) (L : Nat) (h1 : 1 ≤ L) (h8 : L ≤ 8) (hop : op.kind ∈ lvOps L)
    (hl : P2 l L) (hr : P1 r (L-1)) : P2 (.bin l op r) L := by
  intro items rest k hrest htail hc
  have hcom : op.kind ≠ Kind.Comment := by
    intro e
    have := ops_bad L h1 _ hop
    have hs := ops_stop L h1 h8 op [] hop op [] rfl
    apply hs
    rw [e]
    exact List.mem_cons_self
  have htail' : Parses (.ref (lvTail L)) (op :: (r.toks ++ rest)) k (tailOf ((.leaf op, r.tree) :: items)) := by
    apply Parses.ref
    rw [tail_def L h1 h8]
    exact Parses.alt1 (Parses.seq (Parses.toks hop hcom)
      (Parses.seq (opnd_of_lvG L h1 h8 (hr rest hrest)) htail))
  obtain ⟨first, items', hp, hc', hf⟩ := hl ((.leaf op, r.tree) :: items) (op :: (r.toks ++ rest)) k
    (ops_stop L h1 h8 op _ hop) htail'
    (by
      intro p hp
      cases hp with
      | head => exact r.tree_notCaught
      | tail _ hp => exact hc p hp)
  refine ⟨first, items', ?_, hc', ?_⟩
  · simpa [Ex.toks, List.append_assoc] using hp
  · rw [hf]; rfl

/-! ## primaries -/

theorem ident_table : ∀ x ∈ identKinds, x ≠ Kind.OBracket ∧ x ≠ Kind.Comment ∧ x ∉ unaryPre := by decide +kernel
theorem literal_table : ∀ x ∈ literalKinds, x ≠ Kind.OBracket ∧ x ≠ Kind.Comment ∧ x ∉ unaryPre ∧ x ∉ identKinds := by
  decide +kernel
theorem atomCont_bad (L : Nat) : ∀ x ∈ atomCont, x ∈ bad L := by
  intro x hx
  simp only [bad, List.mem_cons, List.mem_append]
  exact Or.inr (Or.inl hx)

theorem fails_bracket (t : Tok) (k : List Tok) (h1 : t.kind ≠ Kind.OBracket) (h2 : t.kind ≠ Kind.Comment) :
    Fails gBracketClosure (t :: k) :=
  Fails.map (Fails.seqL (pre := []) ParsesList.nil (Fails.tok h1 h2))

theorem fails_unaryPre (t : Tok) (k : List Tok) (h1 : t.kind ∉ unaryPre) (h2 : t.kind ≠ Kind.Comment) :
    Fails gUnaryPre (t :: k) :=
  Fails.map (Fails.seqL (pre := []) ParsesList.nil (Fails.toks h1 h2))

theorem parses_identifier (t : Tok) (k : List Tok) (h : t.kind ∈ identKinds) :
    Parses (.ref nIdentifier) (t :: k) k (terminal (.leaf t)) :=
  Parses.ref (n := nIdentifier) (Parses.map (fn := terminal) (Parses.toks h (ident_table _ h).2.1))

theorem fails_identifier (t : Tok) (k : List Tok) (h : t.kind ∉ identKinds) (hc : t.kind ≠ Kind.Comment) :
    Fails (.ref nIdentifier) (t :: k) :=
  Fails.ref (n := nIdentifier) (Fails.map (fn := terminal) (Fails.toks h hc))

theorem parses_dotops_ident (t : Tok) (k : List Tok) (h : t.kind ∈ identKinds) (hk : Stop 0 k) :
    Parses (.ref nDotOps) (t :: k) k (terminal (.leaf t)) := by
  have hid := parses_identifier t k h
  have hmc : Fails (.ref nMethodCall) (t :: k) :=
    Fails.ref (n := nMethodCall) (Fails.memo (c := 2)
      (Fails.map (Fails.seqL (pre := [.ref nIdentifier]) (ParsesList.cons hid ParsesList.nil)
        (hk.fails_tok Kind.OBracket (atomCont_bad 0 _ (by decide +kernel))))))
  have haa : Fails gArrayAccess (t :: k) :=
    Fails.map (Fails.seqL (pre := [.ref nIdentifier]) (ParsesList.cons hid ParsesList.nil)
      (hk.fails_tok Kind.OSqrBracket (atomCont_bad 0 _ (by decide +kernel))))
  have hop : Parses gDotOp (t :: k) k (terminal (.leaf t)) :=
    Parses.altL (pre := [.ref nMethodCall, gArrayAccess]) (post := [])
      (by
        intro a ha
        simp only [List.mem_cons, List.not_mem_nil, or_false] at ha
        rcases ha with rfl | rfl
        · exact hmc
        · exact haa) hid
  have htl : Parses (.ref nDotTail) k k (tailOf []) :=
    Parses.ref (n := nDotTail) (Parses.alt2
      (Fails.seq1 (hk.fails_toks _ (fun x hx => atomCont_bad 0 x (by
        simp only [atomCont, List.mem_append]; exact Or.inr hx))))
      Parses.eps)
  have := Parses.map (fn := fun v : Tree => foldBin (treeDepth v) (v.nth 0) (v.nth 1)) (Parses.seq hop htl)
  rw [fold_value _ [] (by intro p hp; cases hp)] at this
  exact Parses.ref (n := nDotOps) this

theorem fails_dotops_literal (t : Tok) (k : List Tok) (h : t.kind ∈ literalKinds) :
    Fails (.ref nDotOps) (t :: k) := by
  have ⟨_, hc, _, hni⟩ := literal_table _ h
  have hid := fails_identifier t k hni hc
  have hmc : Fails (.ref nMethodCall) (t :: k) :=
    Fails.ref (n := nMethodCall) (Fails.memo (c := 2)
      (Fails.map (Fails.seqL (pre := []) ParsesList.nil hid)))
  have haa : Fails gArrayAccess (t :: k) := Fails.map (Fails.seqL (pre := []) ParsesList.nil hid)
  have hop : Fails gDotOp (t :: k) :=
    Fails.altL (gs := [.ref nMethodCall, gArrayAccess, .ref nIdentifier]) (by
      intro a ha
      simp only [List.mem_cons, List.not_mem_nil, or_false] at ha
      rcases ha with rfl | rfl | rfl
      · exact hmc
      · exact haa
      · exact hid)
  exact Fails.ref (n := nDotOps) (Fails.map (Fails.seq1 hop))

/-- `parse_primary` on an atom -/
theorem p1_atom (t : Tok) (h : atomOK t) : P1 (.atom t) 0 := by
  intro k hk
  show Parses (.ref nPrimary) (t :: k) k (terminal (.leaf t))
  apply Parses.ref (n := nPrimary)
  apply Parses.memo (c := 0)
  rcases h with h | h
  · have ⟨hb, hc, hu⟩ := ident_table _ h
    have hdot := parses_dotops_ident t k h hk
    have hpost : Fails gUnaryPost (t :: k) :=
      Fails.map (Fails.seqL (pre := [.ref nDotOps]) (ParsesList.cons hdot ParsesList.nil)
        (hk.fails_toks [Kind.Increment, Kind.Decrement] (fun x hx => atomCont_bad 0 x (by
          simp only [List.mem_cons, List.not_mem_nil, or_false] at hx
          rcases hx with rfl | rfl <;> decide +kernel))))
    exact Parses.altL (pre := [gBracketClosure, .alt gUnaryPre gUnaryPost]) (post := [gLiterals])
      (by
        intro a ha
        simp only [List.mem_cons, List.not_mem_nil, or_false] at ha
        rcases ha with rfl | rfl
        · exact fails_bracket t k hb hc
        · exact Fails.alt (fails_unaryPre t k hu hc) hpost) hdot
  · have ⟨hb, hc, hu, _⟩ := literal_table _ h
    have hdot := fails_dotops_literal t k h
    have hpost : Fails gUnaryPost (t :: k) := Fails.map (Fails.seqL (pre := []) ParsesList.nil hdot)
    have hlit : Parses gLiterals (t :: k) k (terminal (.leaf t)) :=
      Parses.alt1 (Parses.ref (n := nLiteralBasic) (Parses.map (fn := terminal) (Parses.toks h hc)))
    exact Parses.altL (pre := [gBracketClosure, .alt gUnaryPre gUnaryPost, .ref nDotOps]) (post := [])
      (by
        intro a ha
        simp only [List.mem_cons, List.not_mem_nil, or_false] at ha
        rcases ha with rfl | rfl | rfl
        · exact fails_bracket t k hb hc
        · exact Fails.alt (fails_unaryPre t k hu hc) hpost
        · exact hdot) hlit

/-- `parse_primary` on a parenthesised expression -/
theorem p1_paren (lp rp : Tok) (e : Ex) (hl : lp.kind = Kind.OBracket) (hr : rp.kind = Kind.CBracket)
    (he : P1 e 8) : P1 (.paren lp e rp) 0 := by
  intro k _
  have hin : Parses (.ref nExpr) (e.toks ++ rp :: k) (rp :: k) e.tree :=
    Parses.ref (n := nExpr) (Parses.memo (c := 1) (he (rp :: k) (cbracket_stop rp k hr)))
  have hseq := Parses.seqL (ParsesList.cons (Parses.tok (r := e.toks ++ rp :: k) hl)
    (ParsesList.cons hin (ParsesList.cons (Parses.tok (r := k) hr) ParsesList.nil)))
  have := Parses.map (fn := fun v : Tree => v.nth 1) hseq
  have hb : Parses gBracketClosure (lp :: (e.toks ++ rp :: k)) k e.tree := this
  have hp : Parses (.ref nPrimary) (lp :: (e.toks ++ rp :: k)) k e.tree :=
    Parses.ref (n := nPrimary) (Parses.memo (c := 0)
      (Parses.altL (pre := []) (post := [.alt gUnaryPre gUnaryPost, .ref nDotOps, gLiterals])
        (by intro a ha; cases ha) hb))
  simpa [Ex.toks, Ex.tree, lvG] using hp

/-! ## assembly -/

theorem wf_lower (l r : Ex) (op : Tok) (L : Nat) (h : (Ex.bin l op r).WF (L+1)) (hne : opLevel op.kind ≠ L+1) :
    (Ex.bin l op r).WF L := by
  simp only [Ex.WF] at h ⊢
  exact ⟨h.1, by omega, h.2.2⟩

theorem levels (e : Ex) : ∀ L, L ≤ 8 → e.WF L → P1 e L ∧ (1 ≤ L → P2 e L) := by
  induction e with
  | atom t =>
    intro L
    induction L with
    | zero => intro _ h; exact ⟨p1_atom t h, by omega⟩
    | succ L ih =>
      intro h8 h
      have h2 := p2_of_lower (.atom t) (L+1) (by omega) h8 (ih (by omega) h).1
      exact ⟨p1_of_p2 _ _ (by omega) h8 h2, fun _ => h2⟩
  | paren lp e rp ihe =>
    intro L
    induction L with
    | zero => intro _ h; exact ⟨p1_paren lp rp e h.1 h.2.1 (ihe 8 (by omega) h.2.2).1, by omega⟩
    | succ L ih =>
      intro h8 h
      have h2 := p2_of_lower (.paren lp e rp) (L+1) (by omega) h8 (ih (by omega) h).1
      exact ⟨p1_of_p2 _ _ (by omega) h8 h2, fun _ => h2⟩
  | bin l op r ihl ihr =>
    intro L
    induction L with
    | zero => intro _ h; simp only [Ex.WF] at h; omega
    | succ L ih =>
      intro h8 h
      have h2 : P2 (.bin l op r) (L+1) := by
        by_cases hm : opLevel op.kind = L+1
        · have hw := h
          simp only [Ex.WF] at hw
          rw [hm] at hw
          have hop : op.kind ∈ lvOps (L+1) := by
            have := opLevel_mem op.kind (by omega)
            rwa [hm] at this
          exact p2_bin l r op (L+1) (by omega) h8 hop
            ((ihl (L+1) h8 hw.2.2.1).2 (by omega))
            ((ihr (L+1-1) (by omega) hw.2.2.2).1)
        · exact p2_of_lower _ (L+1) (by omega) h8 (ih (by omega) (wf_lower l r op L h hm)).1
      exact ⟨p1_of_p2 _ _ (by omega) h8 h2, fun _ => h2⟩

/-! ## the executable well-formedness test is the predicate -/

theorem atomOKb_iff (t : Tok) : atomOKb t = true ↔ atomOK t := by
  simp [atomOKb, atomOK, List.contains_iff_mem]

theorem wfb_iff (e : Ex) : ∀ L, e.wfb L = true ↔ e.WF L := by
  induction e with
  | atom t => intro L; simp only [Ex.wfb, Ex.WF]; exact atomOKb_iff t
  | paren lp e rp ih => intro L; simp [Ex.wfb, Ex.WF, ih 8, and_assoc]
  | bin l op r ihl ihr => intro L; simp [Ex.wfb, Ex.WF, ihl, ihr, and_assoc]

theorem stopB_iff (L : Nat) (k : List Tok) : stopB L k = true ↔ Stop L k := by
  cases k with
  | nil => simp [stopB, Stop]
  | cons t r => simp [stopB, Stop]

end Gold.C06
