import GoldModel.Props.C06
import GoldModel.Model.Expr
import GoldModel.Lemmas.BigStep
/-!
Helper lemmas for the expression round trip (`Props/C06Expr.lean`): the eight binary levels of
`body_parser.rs` over atoms and parentheses, for expressions of ANY size and nesting.
-/
namespace Gold.C06
open Gold Gold.Peg Gold.Gram

theorem lvG8 : lvG 8 = gOr := rfl

theorem tail_def (L : Nat) (h1 : 1 ≤ L) (h8 : L ≤ 8) :
    Γ (lvTail L) = binTail (toks (lvOps L)) (lvOpnd L) (lvTail L) := by
  have : L = 1 ∨ L = 2 ∨ L = 3 ∨ L = 4 ∨ L = 5 ∨ L = 6 ∨ L = 7 ∨ L = 8 := by omega
  rcases this with h | h | h | h | h | h | h | h <;> subst h <;> rfl

theorem opnd_of_lvG (L : Nat) (h1 : 1 ≤ L) (h8 : L ≤ 8) {ts r : List Tok} {v : Tree}
    (h : Parses (lvG (L-1)) ts r v) : Parses (lvOpnd L) ts r v := by
  have : L = 1 ∨ L = 2 ∨ L = 3 ∨ L = 4 ∨ L = 5 ∨ L = 6 ∨ L = 7 ∨ L = 8 := by omega
  rcases this with h' | h' | h' | h' | h' | h' | h' | h' <;> subst h'
  · exact h
  · exact h
  · exact h
  · exact h
  · exact h
  · exact h
  · exact Parses.ref (n := nCompare) h
  · exact h

/-! ## what may follow an expression of level `L` -/

theorem bad_mono (L : Nat) (x : Kind) (h : x ∈ bad L) : x ∈ bad (L+1) := by
  simp only [bad, opsUpTo, List.mem_cons, List.mem_append] at h ⊢
  rcases h with h | h | h
  · exact Or.inl h
  · exact Or.inr (Or.inl h)
  · exact Or.inr (Or.inr (Or.inl h))

theorem Stop.mono {L : Nat} {k : List Tok} (h : Stop (L+1) k) : Stop L k :=
  fun t r e hb => h t r e (bad_mono L _ hb)

theorem Stop.pred {L : Nat} {k : List Tok} (h : Stop L k) : Stop (L-1) k := by
  cases L with
  | zero => exact h
  | succ L => exact h.mono

theorem ops_bad (L : Nat) (h1 : 1 ≤ L) (x : Kind) (hx : x ∈ lvOps L) : x ∈ bad L := by
  cases L with
  | zero => omega
  | succ L => simp only [bad, opsUpTo, List.mem_cons, List.mem_append]; exact Or.inr (Or.inr (Or.inr hx))

theorem Stop.fails_toks {L : Nat} {k : List Tok} (h : Stop L k) (ks : List Kind) (hks : ∀ x ∈ ks, x ∈ bad L) :
    Fails (toks ks) k := by
  cases k with
  | nil => exact Fails.toks_nil
  | cons t r =>
    have hb := h t r rfl
    exact Fails.toks (fun hin => hb (hks _ hin)) (fun hc => hb (by rw [hc]; exact List.mem_cons_self))

theorem Stop.fails_tok {L : Nat} {k : List Tok} (h : Stop L k) (x : Kind) (hx : x ∈ bad L) : Fails (.tok x) k := by
  cases k with
  | nil => exact Fails.tok_nil
  | cons t r =>
    have hb := h t r rfl
    exact Fails.tok (fun e => hb (e ▸ hx)) (fun hc => hb (by rw [hc]; exact List.mem_cons_self))

/-- an operator of level `L` does not extend an expression of a tighter level (table fact) -/
theorem ops_stop_table : ∀ L ∈ [1,2,3,4,5,6,7,8], ∀ x ∈ lvOps L, x ∉ bad (L-1) := by decide +kernel

theorem ops_stop (L : Nat) (h1 : 1 ≤ L) (h8 : L ≤ 8) (t : Tok) (r : List Tok) (ht : t.kind ∈ lvOps L) :
    Stop (L-1) (t :: r) := by
  intro t' r' e
  cases e
  exact ops_stop_table L (by simp; omega) _ ht

theorem cbracket_stop (t : Tok) (r : List Tok) (ht : t.kind = Kind.CBracket) : Stop 8 (t :: r) := by
  intro t' r' e
  cases e
  rw [ht]
  decide +kernel

/-! ## expressions -/

theorem opLevel_mem (k : Kind) (h : 1 ≤ opLevel k) : k ∈ lvOps (opLevel k) := by
  unfold opLevel at h ⊢
  by_cases h1 : k ∈ lvOps 1
  · rw [if_pos h1]; exact h1
  rw [if_neg h1] at h ⊢
  by_cases h2 : k ∈ lvOps 2
  · rw [if_pos h2]; exact h2
  rw [if_neg h2] at h ⊢
  by_cases h3 : k ∈ lvOps 3
  · rw [if_pos h3]; exact h3
  rw [if_neg h3] at h ⊢
  by_cases h4 : k ∈ lvOps 4
  · rw [if_pos h4]; exact h4
  rw [if_neg h4] at h ⊢
  by_cases h5 : k ∈ lvOps 5
  · rw [if_pos h5]; exact h5
  rw [if_neg h5] at h ⊢
  by_cases h6 : k ∈ lvOps 6
  · rw [if_pos h6]; exact h6
  rw [if_neg h6] at h ⊢
  by_cases h7 : k ∈ lvOps 7
  · rw [if_pos h7]; exact h7
  rw [if_neg h7] at h ⊢
  by_cases h8 : k ∈ lvOps 8
  · rw [if_pos h8]; exact h8
  rw [if_neg h8] at h
  omega

theorem opLevel_le (k : Kind) : opLevel k ≤ 8 := by
  unfold opLevel
  repeat' split
  all_goals omega

theorem Ex.tree_notCaught : (e : Ex) → notCaught e.tree
  | .atom _ => rfl
  | .paren _ e _ => by simp only [Ex.tree]; exact Ex.tree_notCaught e
  | .bin .. => rfl
  | .pre .. => rfl
  | .post .. => rfl
  | .dot .. => rfl
  | .call .. => rfl
  | .index .. => rfl
  | .set .. => rfl

theorem Ex.tree_isSome : (e : Ex) → e.tree.isNone = false
  | .atom _ => rfl
  | .paren _ e _ => by simp only [Ex.tree]; exact Ex.tree_isSome e
  | .bin .. => rfl
  | .pre .. => rfl
  | .post .. => rfl
  | .dot .. => rfl
  | .call .. => rfl
  | .index .. => rfl
  | .set .. => rfl

/-! ## the fold -/

def foldAll (l : Tree) (ps : List (Tree × Tree)) : Tree := ps.foldl (fun acc p => binNode acc p.1 p.2) l

theorem nmax_l (a b : Nat) : a ≤ Nat.max a b := Nat.le_max_left a b
theorem nmax_r (a b : Nat) : b ≤ Nat.max a b := Nat.le_max_right a b

theorem depth_tailOf (ps : List (Tree × Tree)) : ps.length ≤ treeDepth (tailOf ps) := by
  induction ps with
  | nil => simp
  | cons p rest ih =>
    obtain ⟨op, r⟩ := p
    simp only [tailOf, Tree.seq, treeDepth, treeDepth.depthList, List.length_cons]
    have a : treeDepth (tailOf rest) ≤ Nat.max (treeDepth r) (Nat.max (treeDepth (tailOf rest)) 0) :=
      Nat.le_trans (nmax_l _ 0) (nmax_r _ _)
    have b : 1 + Nat.max (treeDepth r) (Nat.max (treeDepth (tailOf rest)) 0) ≤
        Nat.max (treeDepth op) (Nat.max (1 + Nat.max (treeDepth r) (Nat.max (treeDepth (tailOf rest)) 0)) 0) :=
      Nat.le_trans (nmax_l _ 0) (nmax_r _ _)
    generalize Nat.max (treeDepth op) (Nat.max (1 + Nat.max (treeDepth r) (Nat.max (treeDepth (tailOf rest)) 0)) 0) = X at b ⊢
    generalize Nat.max (treeDepth r) (Nat.max (treeDepth (tailOf rest)) 0) = Y at a b
    omega

theorem fold_value (first : Tree) (ps : List (Tree × Tree)) (hc : ∀ p ∈ ps, notCaught p.2) :
    foldBin (treeDepth (Tree.seq [first, tailOf ps])) ((Tree.seq [first, tailOf ps]).nth 0)
      ((Tree.seq [first, tailOf ps]).nth 1) = foldAll first ps := by
  have h0 : (Tree.seq [first, tailOf ps]).nth 0 = first := rfl
  have h1 : (Tree.seq [first, tailOf ps]).nth 1 = tailOf ps := rfl
  rw [h0, h1]
  apply foldBin_left_assoc _ _ _ _ hc
  have := depth_tailOf ps
  simp only [Tree.seq, treeDepth, treeDepth.depthList]
  have a : treeDepth (tailOf ps) ≤ Nat.max (treeDepth first) (Nat.max (treeDepth (tailOf ps)) 0) :=
    Nat.le_trans (nmax_l _ 0) (nmax_r _ _)
  generalize Nat.max (treeDepth first) (Nat.max (treeDepth (tailOf ps)) 0) = X at a ⊢
  omega

/-! ## the three generic steps -/

/-- continuation form: parse `e` and then whatever the tail of level `L` accepts -/
def P2 (e : Ex) (L : Nat) : Prop :=
  ∀ (items : List (Tree × Tree)) (rest k : List Tok), Stop (L-1) rest →
    Parses (.ref (lvTail L)) rest k (tailOf items) → (∀ p ∈ items, notCaught p.2) →
    ∃ first items', Parses (.seq (lvOpnd L) (.ref (lvTail L))) (e.toks ++ rest) k (Tree.seq [first, tailOf items']) ∧
      (∀ p ∈ items', notCaught p.2) ∧ foldAll first items' = foldAll e.tree items

def P1 (e : Ex) (L : Nat) : Prop := ∀ k, Stop L k → Parses (lvG L) (e.toks ++ k) k e.tree

theorem tail_eps (L : Nat) (h1 : 1 ≤ L) (h8 : L ≤ 8) (k : List Tok) (hk : Stop L k) :
    Parses (.ref (lvTail L)) k k (tailOf []) := by
  apply Parses.ref
  rw [tail_def L h1 h8]
  exact Parses.alt2 (Fails.seq1 (hk.fails_toks _ (ops_bad L h1))) Parses.eps

theorem p1_of_p2 (e : Ex) (L : Nat) (h1 : 1 ≤ L) (h8 : L ≤ 8) (h : P2 e L) : P1 e L := by
  intro k hk
  obtain ⟨first, items', hp, hc, hf⟩ := h [] k k hk.pred (tail_eps L h1 h8 k hk) (by intro p hp; cases hp)
  obtain ⟨L', rfl⟩ : ∃ L', L = L' + 1 := ⟨L - 1, by omega⟩
  have := Parses.map (fn := fun v : Tree => foldBin (treeDepth v) (v.nth 0) (v.nth 1)) hp
  rw [fold_value first items' hc, hf] at this
  exact this

/-- `e` parsed by the operand parser alone, the given tail follows -/
theorem p2_of_lower (e : Ex) (L : Nat) (h1 : 1 ≤ L) (h8 : L ≤ 8) (h : P1 e (L-1)) : P2 e L := by
  intro items rest k hrest htail hc
  exact ⟨e.tree, items, Parses.seq (opnd_of_lvG L h1 h8 (h rest hrest)) htail, hc, rfl⟩

/-- a binary node whose operator is of level `L` -/
theorem p2_bin (l r : Ex) (op : Tok) (L : Nat) (h1 : 1 ≤ L) (h8 : L ≤ 8) (hop : op.kind ∈ lvOps L)
    (hl : P2 l L) (hr : P1 r (L-1)) : P2 (.bin l op r) L := by
  intro items rest k hrest htail hc
  have hcom : op.kind ≠ Kind.Comment := by
    intro e
    have := ops_bad L h1 _ hop
    have hs := ops_stop L h1 h8 op [] hop op [] rfl
    apply hs
    rw [e]
    exact List.mem_cons_self
  have htail' : Parses (.ref (lvTail L)) (op :: (r.toks ++ rest)) k (tailOf ((.leaf op, r.tree) :: items)) := by
    apply Parses.ref
    rw [tail_def L h1 h8]
    exact Parses.alt1 (Parses.seq (Parses.toks hop hcom)
      (Parses.seq (opnd_of_lvG L h1 h8 (hr rest hrest)) htail))
  obtain ⟨first, items', hp, hc', hf⟩ := hl ((.leaf op, r.tree) :: items) (op :: (r.toks ++ rest)) k
    (ops_stop L h1 h8 op _ hop) htail'
    (by
      intro p hp
      cases hp with
      | head => exact r.tree_notCaught
      | tail _ hp => exact hc p hp)
  refine ⟨first, items', ?_, hc', ?_⟩
  · simpa [Ex.toks, List.append_assoc] using hp
  · rw [hf]; rfl

/-- every primary is an expression of every level -/
theorem lift_levels (e : Ex) (h0 : P1 e 0) : ∀ L, L ≤ 8 → P1 e L ∧ (1 ≤ L → P2 e L)
  | 0, _ => ⟨h0, by omega⟩
  | L+1, h8 =>
    have ih := lift_levels e h0 L (by omega)
    have h2 := p2_of_lower e (L+1) (by omega) h8 ih.1
    ⟨p1_of_p2 _ _ (by omega) h8 h2, fun _ => h2⟩

/-! ## token tables -/

theorem ident_table : ∀ x ∈ identKinds, x ≠ Kind.OBracket ∧ x ≠ Kind.Comment ∧ x ∉ unaryPre := by decide +kernel
theorem literal_table : ∀ x ∈ literalKinds, x ≠ Kind.OBracket ∧ x ≠ Kind.Comment ∧ x ∉ unaryPre ∧ x ∉ identKinds := by
  decide +kernel
theorem unaryPre_table : ∀ x ∈ unaryPre, x ≠ Kind.OBracket ∧ x ≠ Kind.Comment := by decide +kernel
theorem postKinds_table : ∀ x ∈ postKinds, x ∉ badD ∧ x ≠ Kind.Comment := by decide +kernel
theorem dotKinds_table : ∀ x ∈ dotKinds, x ∉ badE ∧ x ≠ Kind.Comment := by decide +kernel
theorem badD_bad0 : ∀ x ∈ badD, x ∈ bad 0 := by decide +kernel
theorem badE_badD : ∀ x ∈ badE, x ∈ badD := by decide +kernel
theorem postKinds_bad0 : ∀ x ∈ postKinds, x ∈ bad 0 := by decide +kernel
theorem dotKinds_badD : ∀ x ∈ dotKinds, x ∈ badD := by decide +kernel
theorem closer_table : ∀ x ∈ [Kind.CBracket, Kind.CSqrBracket, Kind.Comma], x ∉ bad 8 := by decide +kernel

theorem atomCont_bad (L : Nat) : ∀ x ∈ atomCont, x ∈ bad L := by
  intro x hx
  simp only [bad, List.mem_cons, List.mem_append]
  exact Or.inr (Or.inl hx)

theorem Stop.stopD {k : List Tok} (h : Stop 0 k) : StopD k := fun t r e hb => h t r e (badD_bad0 _ hb)
theorem StopD.stopE {k : List Tok} (h : StopD k) : StopE k := fun t r e hb => h t r e (badE_badD _ hb)

theorem StopD.fails_toks {k : List Tok} (h : StopD k) (ks : List Kind) (hks : ∀ x ∈ ks, x ∈ badD) : Fails (toks ks) k := by
  cases k with
  | nil => exact Fails.toks_nil
  | cons t r =>
    have hb := h t r rfl
    exact Fails.toks (fun hin => hb (hks _ hin)) (fun hc => hb (by rw [hc]; exact List.mem_cons_self))

theorem StopE.fails_tok {k : List Tok} (h : StopE k) (x : Kind) (hx : x ∈ badE) : Fails (.tok x) k := by
  cases k with
  | nil => exact Fails.tok_nil
  | cons t r =>
    have hb := h t r rfl
    exact Fails.tok (fun e => hb (e ▸ hx)) (fun hc => hb (by rw [hc]; exact List.mem_cons_self))

theorem stop_of_kind (L : Nat) (t : Tok) (r : List Tok) (h : t.kind ∉ bad L) : Stop L (t :: r) := by
  intro t' r' e
  cases e
  exact h

theorem stopD_of_kind (t : Tok) (r : List Tok) (h : t.kind ∉ badD) : StopD (t :: r) := by
  intro t' r' e
  cases e
  exact h

theorem stopE_of_kind (t : Tok) (r : List Tok) (h : t.kind ∉ badE) : StopE (t :: r) := by
  intro t' r' e
  cases e
  exact h

/-- `)`, `]` and `,` end an expression of every level -/
theorem stop8_closer (t : Tok) (r : List Tok) (h : t.kind ∈ [Kind.CBracket, Kind.CSqrBracket, Kind.Comma]) : Stop 8 (t :: r) :=
  stop_of_kind 8 t r (closer_table _ h)

theorem stop_le {L : Nat} (h8 : L ≤ 8) {k : List Tok} (h : Stop 8 k) : Stop L k := by
  have : ∀ n, n + L ≤ 8 → Stop (L + n) k → Stop L k := by
    intro n
    induction n with
    | zero => intro _ h; exact h
    | succ n ih => intro hn h; exact ih (by omega) (Stop.mono (L := L + n) h)
  exact this (8 - L) (by omega) (by rw [show L + (8 - L) = 8 by omega]; exact h)

/-! ## failing alternatives of `parse_primary`, all AT the first token -/

theorem failsAt_bracket (t : Tok) (k : List Tok) (h1 : t.kind ≠ Kind.OBracket) (h2 : t.kind ≠ Kind.Comment) :
    FailsAt gBracketClosure (t :: k) :=
  FailsAt.map (FailsAt.seqL (FailsAt.tok h1 h2))

theorem failsAt_unaryPre (t : Tok) (k : List Tok) (h1 : t.kind ∉ unaryPre) (h2 : t.kind ≠ Kind.Comment) :
    FailsAt gUnaryPre (t :: k) :=
  FailsAt.map (FailsAt.seqL (FailsAt.toks (by decide) h1 h2))

theorem failsAt_identifier (t : Tok) (k : List Tok) (h : t.kind ∉ identKinds) (hc : t.kind ≠ Kind.Comment) :
    FailsAt (.ref nIdentifier) (t :: k) :=
  FailsAt.ref (n := nIdentifier) (FailsAt.map (fn := terminal) (FailsAt.toks (by decide) h hc))

theorem failsAt_dotOp (t : Tok) (k : List Tok) (h : t.kind ∉ identKinds) (hc : t.kind ≠ Kind.Comment) :
    FailsAt gDotOp (t :: k) := by
  have hid := failsAt_identifier t k h hc
  have hmc : FailsAt (.ref nMethodCall) (t :: k) :=
    FailsAt.ref (n := nMethodCall) (FailsAt.memo (c := 2) (FailsAt.map (FailsAt.seqL hid)))
  have haa : FailsAt gArrayAccess (t :: k) := FailsAt.map (FailsAt.seqL hid)
  exact FailsAt.altL (gs := [.ref nMethodCall, gArrayAccess, .ref nIdentifier]) (by simp) (by
    intro a ha
    simp only [List.mem_cons, List.not_mem_nil, or_false] at ha
    rcases ha with rfl | rfl | rfl
    · exact hmc
    · exact haa
    · exact hid)

theorem failsAt_dotOps (t : Tok) (k : List Tok) (h : t.kind ∉ identKinds) (hc : t.kind ≠ Kind.Comment) :
    FailsAt (.ref nDotOps) (t :: k) :=
  FailsAt.ref (n := nDotOps) (FailsAt.map (FailsAt.seq1 (failsAt_dotOp t k h hc)))

theorem failsAt_unaryPost (t : Tok) (k : List Tok) (h : t.kind ∉ identKinds) (hc : t.kind ≠ Kind.Comment) :
    FailsAt gUnaryPost (t :: k) :=
  FailsAt.map (FailsAt.seqL (failsAt_dotOps t k h hc))

theorem failsAt_literalBasic (t : Tok) (k : List Tok) (h : t.kind ∉ literalKinds) (hc : t.kind ≠ Kind.Comment) :
    FailsAt (.ref nLiteralBasic) (t :: k) :=
  FailsAt.ref (n := nLiteralBasic) (FailsAt.map (fn := terminal) (FailsAt.toks (by decide) h hc))

theorem failsAt_literalSet (t : Tok) (k : List Tok) (h : t.kind ≠ Kind.OSqrBracket) (hc : t.kind ≠ Kind.Comment) :
    FailsAt gLiteralSet (t :: k) :=
  FailsAt.map (FailsAt.seqL (FailsAt.tok h hc))

/-- the kinds a primary can start with -/
def startKinds : List Kind := Kind.Comment :: Kind.OBracket :: Kind.OSqrBracket :: (identKinds ++ unaryPre ++ literalKinds)

theorem failsAt_primary (t : Tok) (k : List Tok) (h : t.kind ∉ startKinds) : FailsAt (.ref nPrimary) (t :: k) := by
  simp only [startKinds, List.mem_cons, List.mem_append, not_or] at h
  obtain ⟨hc, hb, hs, ⟨hi, hu⟩, hl⟩ := h
  apply FailsAt.ref (n := nPrimary)
  apply FailsAt.memo (c := 0)
  exact FailsAt.altL (gs := [gBracketClosure, .alt gUnaryPre gUnaryPost, .ref nDotOps, gLiterals]) (by simp) (by
    intro a ha
    simp only [List.mem_cons, List.not_mem_nil, or_false] at ha
    rcases ha with rfl | rfl | rfl | rfl
    · exact failsAt_bracket t k hb hc
    · exact FailsAt.alt (failsAt_unaryPre t k hu hc) (failsAt_unaryPost t k hi hc)
    · exact failsAt_dotOps t k hi hc
    · exact FailsAt.alt (failsAt_literalBasic t k hl hc) (failsAt_literalSet t k hs hc))

theorem failsAt_opnd (L : Nat) (h1 : 1 ≤ L) (h8 : L ≤ 8) {ts : List Tok}
    (h : FailsAt (lvG (L-1)) ts) : FailsAt (lvOpnd L) ts := by
  have : L = 1 ∨ L = 2 ∨ L = 3 ∨ L = 4 ∨ L = 5 ∨ L = 6 ∨ L = 7 ∨ L = 8 := by omega
  rcases this with h' | h' | h' | h' | h' | h' | h' | h' <;> subst h'
  · exact h
  · exact h
  · exact h
  · exact h
  · exact h
  · exact h
  · exact FailsAt.ref (n := nCompare) h
  · exact h

theorem failsAt_level (t : Tok) (k : List Tok) (h : t.kind ∉ startKinds) : ∀ L, L ≤ 8 → FailsAt (lvG L) (t :: k)
  | 0, _ => failsAt_primary t k h
  | L+1, h8 => FailsAt.map (FailsAt.seq1 (failsAt_opnd (L+1) (by omega) h8 (failsAt_level t k h L (by omega))))

theorem failsAt_expr (t : Tok) (k : List Tok) (h : t.kind ∉ startKinds) : FailsAt (.ref nExpr) (t :: k) :=
  FailsAt.ref (n := nExpr) (FailsAt.memo (c := 1) (failsAt_level t k h 8 (Nat.le_refl 8)))

def closerOK (t : Tok) : Prop := t.kind = Kind.CBracket ∨ t.kind = Kind.CSqrBracket

theorem closer_noStart : ∀ x ∈ [Kind.CBracket, Kind.CSqrBracket], x ∉ startKinds ∧ x ≠ Kind.Comma ∧ x ≠ Kind.Comment := by decide +kernel

theorem closerOK.mem {t : Tok} (h : closerOK t) : t.kind ∈ [Kind.CBracket, Kind.CSqrBracket] := by
  rcases h with h | h <;> rw [h] <;> decide

theorem closerOK.stop {t : Tok} (h : closerOK t) (k : List Tok) : Stop 8 (t :: k) :=
  stop8_closer t k (by rcases h with h | h <;> rw [h] <;> decide)

/-! ## comma-separated lists (`parse_separated_list_w_context` and its recursive part) -/

/-- what the round trip says about a list `as` whose items are parsed by `item` at level `L`:
    before a closing token the recursive part (on a non-empty list) and the whole list parser
    return exactly the items' trees, consume exactly the list and take NO recovery branch -/
def ArgsOK (as : Args) (L : Nat) (item : G) (rec : Nat) : Prop :=
  as.WF L → ∀ (c : Tok) (k : List Tok), closerOK c →
    (as.nonEmpty = true → Parses (.ref rec) (as.toks ++ c :: k) (c :: k) (Tree.list as.trees)) ∧
    Parses (sepListCtx item rec) (as.toks ++ c :: k) (c :: k) (Tree.list as.trees)

def sepCtxFn (v : Tree) : Tree :=
  let first := v.nth 0
  if first.isNone then Tree.list []
  else
    let tl := v.nth 1
    Tree.list (first :: (if tl.kind == "#seq" then (tl.nth 1).kids else []))

def sepRecFn (v : Tree) : Tree :=
  let x := v.nth 0
  let tl := v.nth 1
  Tree.list ((if x.isNone then [] else [x]) ++ (if tl.kind == "#seq" then (tl.nth 1).kids else []))

theorem sepListCtx_def (item : G) (rec : Nat) : sepListCtx item rec =
    .map sepCtxFn (.dep (.recover .silentAt item) Tree.isSome (.ifTok [Kind.Comma] (.ref rec) (.eps (Tree.list [])))) := rfl

theorem sepListRec_def (item : G) (rec : Nat) : sepListRec item rec =
    .map sepRecFn (.seq (.ifEof (.tok Kind.Comma) (.recover .span item)) (.ifTok [Kind.Comma] (.ref rec) (.eps (Tree.list [])))) := rfl

theorem sepCtxFn_none : sepCtxFn (Tree.seq [Tree.none, Tree.none]) = Tree.list [] := rfl

theorem sepCtxFn_end (x : Tree) (h : x.isNone = false) : sepCtxFn (Tree.seq [x, Tree.list []]) = Tree.list [x] := by
  simp [sepCtxFn, Tree.nth, Tree.seq, Tree.kids, h, Tree.list, Tree.kind]

theorem sepCtxFn_more (x cm : Tree) (l : List Tree) (h : x.isNone = false) :
    sepCtxFn (Tree.seq [x, Tree.seq [cm, Tree.list l]]) = Tree.list (x :: l) := by
  simp [sepCtxFn, Tree.nth, Tree.seq, Tree.kids, h, Tree.list, Tree.kind]

theorem sepRecFn_end (x : Tree) (h : x.isNone = false) : sepRecFn (Tree.seq [x, Tree.list []]) = Tree.list [x] := by
  simp [sepRecFn, Tree.nth, Tree.seq, Tree.kids, h, Tree.list, Tree.kind]

theorem sepRecFn_more (x cm : Tree) (l : List Tree) (h : x.isNone = false) :
    sepRecFn (Tree.seq [x, Tree.seq [cm, Tree.list l]]) = Tree.list (x :: l) := by
  simp [sepRecFn, Tree.nth, Tree.seq, Tree.kids, h, Tree.list, Tree.kind]

/-- nothing follows the item: the `ifTok` after an item sees the closing token -/
theorem sep_end (rec : Nat) (c : Tok) (k : List Tok) (hc : closerOK c) :
    Parses (.ifTok [Kind.Comma] (.ref rec) (.eps (Tree.list []))) (c :: k) (c :: k) (Tree.list []) := by
  have ⟨_, h1, h2⟩ := closer_noStart _ hc.mem
  exact Parses.ifTok_miss (firstReal_cons h2) (by simp [h1]) Parses.eps

/-- a comma follows the item: the recursive part takes over -/
theorem sep_more (rec : Nat) (cm : Tok) (ts r : List Tok) (v : Tree) (hcm : cm.kind = Kind.Comma)
    (h : Parses (.ref rec) ts r v) :
    Parses (.ifTok [Kind.Comma] (.ref rec) (.eps (Tree.list []))) (cm :: ts) r (Tree.seq [.leaf cm, v]) :=
  Parses.ifTok_hit (firstReal_cons (by rw [hcm]; decide)) (by simp [hcm]) h

theorem args_nil (L : Nat) (item : G) (rec : Nat)
    (hfail : ∀ (c : Tok) (k : List Tok), closerOK c → FailsAt item (c :: k)) : ArgsOK .nil L item rec := by
  intro _ c k hc
  refine ⟨(by intro h; cases h), ?_⟩
  have h := Parses.dep_no (b := .ifTok [Kind.Comma] (.ref rec) (.eps (Tree.list []))) (test := Tree.isSome)
    (Parses.recover_silent (hfail c k hc)) rfl
  have := Parses.map (fn := sepCtxFn) h
  rw [sepCtxFn_none] at this
  exact this

theorem cons_of_append (a : List Tok) (c : Tok) (k : List Tok) : ∃ t r, a ++ c :: k = t :: r := by
  cases a with
  | nil => exact ⟨c, k, rfl⟩
  | cons t r => exact ⟨t, r ++ c :: k, rfl⟩

theorem args_one (e : Ex) (L : Nat) (item : G) (rec : Nat) (hΓ : Γ rec = sepListRec item rec)
    (hitem : e.WF L → ∀ k, Stop 8 k → Parses item (e.toks ++ k) k e.tree) : ArgsOK (.one e) L item rec := by
  intro hwf c k hc
  have hi := hitem hwf (c :: k) (hc.stop k)
  have hs := e.tree_isSome
  show _ ∧ Parses _ (e.toks ++ c :: k) (c :: k) (Tree.list [e.tree])
  constructor
  · intro _
    show Parses _ (e.toks ++ c :: k) (c :: k) (Tree.list [e.tree])
    apply Parses.ref
    rw [hΓ, sepListRec_def]
    have h1 : Parses (.ifEof (.tok Kind.Comma) (.recover .span item)) (e.toks ++ c :: k) (c :: k) e.tree := by
      obtain ⟨t, r, ht⟩ := cons_of_append e.toks c k
      rw [ht] at hi ⊢
      exact Parses.ifEof_cons (Parses.recover hi)
    have := Parses.map (fn := sepRecFn) (Parses.seq h1 (sep_end rec c k hc))
    rw [sepRecFn_end _ hs] at this
    exact this
  · have h := Parses.dep_yes (test := Tree.isSome) (Parses.recover (m := .silentAt) hi) (by simp [Tree.isSome, hs])
      (sep_end rec c k hc)
    have := Parses.map (fn := sepCtxFn) h
    rw [sepCtxFn_end _ hs] at this
    exact this

theorem args_more (e : Ex) (cm : Tok) (rest : Args) (L : Nat) (item : G) (rec : Nat) (hΓ : Γ rec = sepListRec item rec)
    (hitem : e.WF L → ∀ k, Stop 8 k → Parses item (e.toks ++ k) k e.tree) (hrest : ArgsOK rest L item rec) :
    ArgsOK (.more e cm rest) L item rec := by
  intro hwf c k hc
  simp only [Args.WF] at hwf
  obtain ⟨hwe, hcm, hne, hwr⟩ := hwf
  have hr := (hrest hwr c k hc).1 hne
  have hi := hitem hwe (cm :: (rest.toks ++ c :: k)) (stop8_closer cm _ (by rw [hcm]; decide))
  have hs := e.tree_isSome
  have htl := sep_more rec cm _ _ _ hcm hr
  have htoks : Args.toks (.more e cm rest) ++ c :: k = e.toks ++ cm :: (rest.toks ++ c :: k) := by
    simp [Args.toks, List.append_assoc]
  rw [htoks]
  show _ ∧ Parses _ _ _ (Tree.list (e.tree :: rest.trees))
  constructor
  · intro _
    show Parses _ _ _ (Tree.list (e.tree :: rest.trees))
    apply Parses.ref
    rw [hΓ, sepListRec_def]
    have h1 : Parses (.ifEof (.tok Kind.Comma) (.recover .span item)) (e.toks ++ cm :: (rest.toks ++ c :: k))
        (cm :: (rest.toks ++ c :: k)) e.tree := by
      obtain ⟨t, r, ht⟩ := cons_of_append e.toks cm (rest.toks ++ c :: k)
      rw [ht] at hi ⊢
      exact Parses.ifEof_cons (Parses.recover hi)
    have := Parses.map (fn := sepRecFn) (Parses.seq h1 htl)
    rw [sepRecFn_more _ _ _ hs] at this
    exact this
  · have h := Parses.dep_yes (test := Tree.isSome) (Parses.recover (m := .silentAt) hi) (by simp [Tree.isSome, hs]) htl
    have := Parses.map (fn := sepCtxFn) h
    rw [sepCtxFn_more _ _ _ hs] at this
    exact this

/-! ## member-access chains (`parse_dot_ops`) -/

/-- an element of a chain, parsed by `parse_dot_op` -/
def PE (e : Ex) : Prop := ∀ k, StopE k → Parses gDotOp (e.toks ++ k) k e.tree

/-- continuation form for the dot level (as `P2` for the binary levels) -/
def PD2 (e : Ex) : Prop :=
  ∀ (items : List (Tree × Tree)) (rest k : List Tok), StopE rest →
    Parses (.ref nDotTail) rest k (tailOf items) → (∀ p ∈ items, notCaught p.2) →
    ∃ first items', Parses (.seq gDotOp (.ref nDotTail)) (e.toks ++ rest) k (Tree.seq [first, tailOf items']) ∧
      (∀ p ∈ items', notCaught p.2) ∧ foldAll first items' = foldAll e.tree items

def PD1 (e : Ex) : Prop := ∀ k, StopD k → Parses (.ref nDotOps) (e.toks ++ k) k e.tree

/-- the expression starts with a token accepted as an identifier -/
def First (e : Ex) : Prop := ∃ t r, e.toks = t :: r ∧ t.kind ∈ identKinds

theorem dotTail_def : Γ nDotTail = binTail (toks dotKinds) (.catchErr gDotOp) nDotTail := rfl

theorem dotTail_eps (k : List Tok) (hk : StopD k) : Parses (.ref nDotTail) k k (tailOf []) := by
  apply Parses.ref
  rw [dotTail_def]
  exact Parses.alt2 (Fails.seq1 (hk.fails_toks _ dotKinds_badD)) Parses.eps

theorem pd1_of_pd2 (e : Ex) (h : PD2 e) : PD1 e := by
  intro k hk
  obtain ⟨first, items', hp, hc, hf⟩ := h [] k k hk.stopE (dotTail_eps k hk) (by intro p hp; cases hp)
  have := Parses.map (fn := fun v : Tree => foldBin (treeDepth v) (v.nth 0) (v.nth 1)) hp
  rw [fold_value first items' hc, hf] at this
  exact Parses.ref (n := nDotOps) this

theorem pd2_of_pe (e : Ex) (h : PE e) : PD2 e := by
  intro items rest k hrest htail hc
  exact ⟨e.tree, items, Parses.seq (h rest hrest) htail, hc, rfl⟩

theorem pd2_dot (l r : Ex) (d : Tok) (hd : d.kind ∈ dotKinds) (hl : PD2 l) (hr : PE r) : PD2 (.dot l d r) := by
  intro items rest k hrest htail hc
  have ⟨hde, hdc⟩ := dotKinds_table _ hd
  have htail' : Parses (.ref nDotTail) (d :: (r.toks ++ rest)) k (tailOf ((.leaf d, r.tree) :: items)) := by
    apply Parses.ref
    rw [dotTail_def]
    exact Parses.alt1 (Parses.seq (Parses.toks hd hdc) (Parses.seq (Parses.catchErr (hr rest hrest)) htail))
  obtain ⟨first, items', hp, hc', hf⟩ := hl ((.leaf d, r.tree) :: items) (d :: (r.toks ++ rest)) k
    (stopE_of_kind d _ hde) htail'
    (by
      intro p hp
      cases hp with
      | head => exact r.tree_notCaught
      | tail _ hp => exact hc p hp)
  refine ⟨first, items', ?_, hc', ?_⟩
  · simpa [Ex.toks, List.append_assoc] using hp
  · rw [hf]; rfl

theorem parses_identifier (t : Tok) (k : List Tok) (h : t.kind ∈ identKinds) :
    Parses (.ref nIdentifier) (t :: k) k (terminal (.leaf t)) :=
  Parses.ref (n := nIdentifier) (Parses.map (fn := terminal) (Parses.toks h (ident_table _ h).2.1))

/-- `parse_method_call` fails after the identifier when no `(` follows -/
theorem fails_methodCall (t : Tok) (k : List Tok) (h : t.kind ∈ identKinds) (hk : Fails (.tok Kind.OBracket) k) :
    Fails (.ref nMethodCall) (t :: k) :=
  Fails.ref (n := nMethodCall) (Fails.memo (c := 2)
    (Fails.map (Fails.seqL (pre := [.ref nIdentifier]) (ParsesList.cons (parses_identifier t k h) ParsesList.nil) hk)))

theorem pe_ident (t : Tok) (h : t.kind ∈ identKinds) : PE (.atom t) := by
  intro k hk
  have hid := parses_identifier t k h
  have hmc := fails_methodCall t k h (hk.fails_tok Kind.OBracket (by decide))
  have haa : Fails gArrayAccess (t :: k) :=
    Fails.map (Fails.seqL (pre := [.ref nIdentifier]) (ParsesList.cons hid ParsesList.nil)
      (hk.fails_tok Kind.OSqrBracket (by decide)))
  exact Parses.altL (pre := [.ref nMethodCall, gArrayAccess]) (post := [])
    (by
      intro a ha
      simp only [List.mem_cons, List.not_mem_nil, or_false] at ha
      rcases ha with rfl | rfl
      · exact hmc
      · exact haa) hid

theorem pe_call (f lp rp : Tok) (as : Args) (hf : f.kind ∈ identKinds) (hl : lp.kind = Kind.OBracket)
    (hr : rp.kind = Kind.CBracket)
    (hargs : ∀ k, Parses (sepListCtx (.ref nExpr) nExprRec) (as.toks ++ rp :: k) (rp :: k) (Tree.list as.trees)) :
    PE (.call f lp as rp) := by
  intro k _
  have hseq := Parses.seqL (ParsesList.cons (parses_identifier f (lp :: (as.toks ++ rp :: k)) hf)
    (ParsesList.cons (Parses.tok (r := as.toks ++ rp :: k) hl)
      (ParsesList.cons (hargs k) (ParsesList.cons (Parses.tok (r := k) hr) ParsesList.nil))))
  have hb : Parses gMethodCallBody (f :: lp :: (as.toks ++ rp :: k)) k
      (callNode (terminal (.leaf f)) (.leaf rp) as.trees) :=
    Parses.map (fn := fun v =>
      let id := v.nth 0
      mk "method_call" id.ident (Range.span id.rng (v.nth 3).rng) (v.nth 2).kids) hseq
  have hm : Parses (.ref nMethodCall) (f :: lp :: (as.toks ++ rp :: k)) k
      (callNode (terminal (.leaf f)) (.leaf rp) as.trees) :=
    Parses.ref (n := nMethodCall) (Parses.memo (c := 2) hb)
  have : Parses gDotOp (f :: lp :: (as.toks ++ rp :: k)) k (callNode (terminal (.leaf f)) (.leaf rp) as.trees) :=
    Parses.altL (pre := []) (post := [gArrayAccess, .ref nIdentifier]) (by intro a ha; cases ha) hm
  simpa [Ex.toks, Ex.tree, List.append_assoc] using this

theorem pe_index (a lb rb : Tok) (e : Ex) (ha : a.kind ∈ identKinds) (hl : lb.kind = Kind.OSqrBracket)
    (hr : rb.kind = Kind.CSqrBracket) (he : P1 e 8) : PE (.index a lb e rb) := by
  intro k _
  have hin : Parses (.ref nExpr) (e.toks ++ rb :: k) (rb :: k) e.tree :=
    Parses.ref (n := nExpr) (Parses.memo (c := 1) (he (rb :: k) (stop8_closer rb k (by rw [hr]; decide))))
  have hseq := Parses.seqL (ParsesList.cons (parses_identifier a (lb :: (e.toks ++ rb :: k)) ha)
    (ParsesList.cons (Parses.tok (r := e.toks ++ rb :: k) hl)
      (ParsesList.cons hin (ParsesList.cons (Parses.tok (r := k) hr) ParsesList.nil))))
  have hb : Parses gArrayAccess (a :: lb :: (e.toks ++ rb :: k)) k
      (indexNode (terminal (.leaf a)) e.tree (.leaf rb)) :=
    Parses.map (fn := fun v =>
      let id := v.nth 0
      mk "array_access" id.ident (Range.span id.rng (v.nth 3).rng) [id, v.nth 2]) hseq
  have hmc : Fails (.ref nMethodCall) (a :: lb :: (e.toks ++ rb :: k)) :=
    fails_methodCall a _ ha (Fails.tok (by rw [hl]; decide) (by rw [hl]; decide))
  have : Parses gDotOp (a :: lb :: (e.toks ++ rb :: k)) k (indexNode (terminal (.leaf a)) e.tree (.leaf rb)) :=
    Parses.altL (pre := [.ref nMethodCall]) (post := [.ref nIdentifier])
      (by
        intro x hx
        simp only [List.mem_cons, List.not_mem_nil, or_false] at hx
        subst hx
        exact hmc) hb
  simpa [Ex.toks, Ex.tree, List.append_assoc] using this

/-! ## primaries -/

/-- `parse_primary` on a chain: `( … )` and the prefix operators do not apply, `++`/`--` does not follow -/
theorem p1_chain (e : Ex) (hfirst : First e) (h : PD1 e) : P1 e 0 := by
  intro k hk
  obtain ⟨t, r, ht, hti⟩ := hfirst
  have ⟨hb, hc, hu⟩ := ident_table _ hti
  have hdot := h k hk.stopD
  have hpost : Fails gUnaryPost (e.toks ++ k) :=
    Fails.map (Fails.seqL (pre := [.ref nDotOps]) (ParsesList.cons hdot ParsesList.nil)
      (hk.fails_toks postKinds postKinds_bad0))
  apply Parses.ref (n := nPrimary)
  apply Parses.memo (c := 0)
  refine Parses.altL (pre := [gBracketClosure, .alt gUnaryPre gUnaryPost]) (post := [gLiterals]) ?_ hdot
  intro a ha
  simp only [List.mem_cons, List.not_mem_nil, or_false] at ha
  rcases ha with rfl | rfl
  · rw [ht]; exact (failsAt_bracket t (r ++ k) hb hc).fails
  · refine Fails.alt ?_ hpost
    rw [ht]; exact (failsAt_unaryPre t (r ++ k) hu hc).fails

/-- `parse_primary` on a chain followed by `++` / `--` -/
theorem p1_post (e : Ex) (op : Tok) (hop : op.kind ∈ postKinds) (hfirst : First e) (h : PD1 e) : P1 (.post e op) 0 := by
  intro k _
  obtain ⟨t, r, ht, hti⟩ := hfirst
  have ⟨hb, hc, hu⟩ := ident_table _ hti
  have ⟨hod, hoc⟩ := postKinds_table _ hop
  have hdot := h (op :: k) (stopD_of_kind op k hod)
  have hseq := Parses.seqL (ParsesList.cons hdot (ParsesList.cons (Parses.toks (r := k) hop hoc) ParsesList.nil))
  have hpost : Parses gUnaryPost (e.toks ++ op :: k) k (unaryPostNode e.tree (.leaf op)) :=
    Parses.map (fn := fun v =>
      let e := v.nth 0; let op := v.nth 1
      mk "unary_op" op.ident (Range.span e.rng op.rng) [e] ["op=" ++ op.kind]) hseq
  have hp : Parses (.ref nPrimary) (e.toks ++ op :: k) k (unaryPostNode e.tree (.leaf op)) := by
    apply Parses.ref (n := nPrimary)
    apply Parses.memo (c := 0)
    refine Parses.altL (pre := [gBracketClosure]) (post := [.ref nDotOps, gLiterals]) ?_ (Parses.alt2 ?_ hpost)
    · intro a ha
      simp only [List.mem_cons, List.not_mem_nil, or_false] at ha
      subst ha
      rw [ht]; exact (failsAt_bracket t (r ++ op :: k) hb hc).fails
    · rw [ht]; exact (failsAt_unaryPre t (r ++ op :: k) hu hc).fails
  simpa [Ex.toks, Ex.tree, lvG, List.append_assoc] using hp

/-- `parse_primary` on a prefix operator applied to a primary -/
theorem p1_pre (op : Tok) (e : Ex) (hop : op.kind ∈ unaryPre) (h : P1 e 0) : P1 (.pre op e) 0 := by
  intro k hk
  have ⟨hb, hc⟩ := unaryPre_table _ hop
  have hseq := Parses.seqL (ParsesList.cons (Parses.toks (r := e.toks ++ k) hop hc)
    (ParsesList.cons (h k hk) ParsesList.nil))
  have hpre : Parses gUnaryPre (op :: (e.toks ++ k)) k (unaryPreNode (.leaf op) e.tree) :=
    Parses.map (fn := fun v =>
      let op := v.nth 0; let e := v.nth 1
      mk "unary_op" op.ident (Range.span op.rng e.rng) [e] ["op=" ++ op.kind]) hseq
  have hp : Parses (.ref nPrimary) (op :: (e.toks ++ k)) k (unaryPreNode (.leaf op) e.tree) := by
    apply Parses.ref (n := nPrimary)
    apply Parses.memo (c := 0)
    refine Parses.altL (pre := [gBracketClosure]) (post := [.ref nDotOps, gLiterals]) ?_ (Parses.alt1 hpre)
    intro a ha
    simp only [List.mem_cons, List.not_mem_nil, or_false] at ha
    subst ha
    exact (failsAt_bracket op (e.toks ++ k) hb hc).fails
  simpa [Ex.toks, Ex.tree, lvG] using hp

theorem osqr_table : Kind.OSqrBracket ≠ Kind.OBracket ∧ Kind.OSqrBracket ≠ Kind.Comment ∧ Kind.OSqrBracket ∉ unaryPre ∧
    Kind.OSqrBracket ∉ identKinds ∧ Kind.OSqrBracket ∉ literalKinds := by decide +kernel

/-- `parse_primary` on a set literal -/
theorem p1_set (lb rb : Tok) (as : Args) (hl : lb.kind = Kind.OSqrBracket) (hr : rb.kind = Kind.CSqrBracket)
    (hargs : ∀ k, Parses (sepListCtx (.ref nPrimary) nPrimaryRec) (as.toks ++ rb :: k) (rb :: k) (Tree.list as.trees)) :
    P1 (.set lb as rb) 0 := by
  intro k _
  obtain ⟨hb, hc, hu, hi, hlit⟩ := osqr_table
  rw [← hl] at hb hc hu hi hlit
  have hseq := Parses.seqL (ParsesList.cons (Parses.tok (r := as.toks ++ rb :: k) hl)
    (ParsesList.cons (hargs k) (ParsesList.cons (Parses.tok (r := k) hr) ParsesList.nil)))
  have hset : Parses gLiteralSet (lb :: (as.toks ++ rb :: k)) k (setNode (.leaf lb) (.leaf rb) as.trees) :=
    Parses.map (fn := fun v => mk "set_literal" "set_literal" (Range.span (v.nth 0).rng (v.nth 2).rng) (v.nth 1).kids) hseq
  have hp : Parses (.ref nPrimary) (lb :: (as.toks ++ rb :: k)) k (setNode (.leaf lb) (.leaf rb) as.trees) := by
    apply Parses.ref (n := nPrimary)
    apply Parses.memo (c := 0)
    refine Parses.altL (pre := [gBracketClosure, .alt gUnaryPre gUnaryPost, .ref nDotOps]) (post := []) ?_
      (Parses.alt2 (failsAt_literalBasic lb _ hlit hc).fails hset)
    intro a ha
    simp only [List.mem_cons, List.not_mem_nil, or_false] at ha
    rcases ha with rfl | rfl | rfl
    · exact (failsAt_bracket lb _ hb hc).fails
    · exact Fails.alt (failsAt_unaryPre lb _ hu hc).fails (failsAt_unaryPost lb _ hi hc).fails
    · exact (failsAt_dotOps lb _ hi hc).fails
  simpa [Ex.toks, Ex.tree, lvG, List.append_assoc] using hp

/-- `parse_primary` on a literal -/
theorem p1_literal (t : Tok) (h : t.kind ∈ literalKinds) : P1 (.atom t) 0 := by
  intro k _
  have ⟨hb, hc, hu, hi⟩ := literal_table _ h
  have hlit : Parses gLiterals (t :: k) k (terminal (.leaf t)) :=
    Parses.alt1 (Parses.ref (n := nLiteralBasic) (Parses.map (fn := terminal) (Parses.toks h hc)))
  apply Parses.ref (n := nPrimary)
  apply Parses.memo (c := 0)
  refine Parses.altL (pre := [gBracketClosure, .alt gUnaryPre gUnaryPost, .ref nDotOps]) (post := []) ?_ hlit
  intro a ha
  simp only [List.mem_cons, List.not_mem_nil, or_false] at ha
  rcases ha with rfl | rfl | rfl
  · exact (failsAt_bracket t k hb hc).fails
  · exact Fails.alt (failsAt_unaryPre t k hu hc).fails (failsAt_unaryPost t k hi hc).fails
  · exact (failsAt_dotOps t k hi hc).fails

/-- `parse_primary` on a parenthesised expression -/
theorem p1_paren (lp rp : Tok) (e : Ex) (hl : lp.kind = Kind.OBracket) (hr : rp.kind = Kind.CBracket)
    (he : P1 e 8) : P1 (.paren lp e rp) 0 := by
  intro k _
  have hin : Parses (.ref nExpr) (e.toks ++ rp :: k) (rp :: k) e.tree :=
    Parses.ref (n := nExpr) (Parses.memo (c := 1) (he (rp :: k) (cbracket_stop rp k hr)))
  have hseq := Parses.seqL (ParsesList.cons (Parses.tok (r := e.toks ++ rp :: k) hl)
    (ParsesList.cons hin (ParsesList.cons (Parses.tok (r := k) hr) ParsesList.nil)))
  have := Parses.map (fn := fun v : Tree => v.nth 1) hseq
  have hb : Parses gBracketClosure (lp :: (e.toks ++ rp :: k)) k e.tree := this
  have hp : Parses (.ref nPrimary) (lp :: (e.toks ++ rp :: k)) k e.tree :=
    Parses.ref (n := nPrimary) (Parses.memo (c := 0)
      (Parses.altL (pre := []) (post := [.alt gUnaryPre gUnaryPost, .ref nDotOps, gLiterals])
        (by intro a ha; cases ha) hb))
  simpa [Ex.toks, Ex.tree, lvG] using hp

/-! ## assembly -/

/-- the binary levels -/
def InvL (e : Ex) : Prop := ∀ L, L ≤ 8 → e.WF L → P1 e L ∧ (1 ≤ L → P2 e L)

/-- what the induction carries for every expression: the levels, and — when the expression is an
    element / a chain — its parse by `parse_dot_op` / in continuation form by `parse_dot_ops` -/
structure Inv (e : Ex) : Prop where
  lv : InvL e
  elem : e.WF 0 → e.isElem = true → PE e
  chain : e.WF 0 → e.isChain = true → PD2 e ∧ First e

structure InvA (as : Args) : Prop where
  expr : ArgsOK as 8 (.ref nExpr) nExprRec
  prim : ArgsOK as 0 (.ref nPrimary) nPrimaryRec

theorem invL_of_primary (e : Ex) (hwf : ∀ L, e.WF L → e.WF 0) (h : e.WF 0 → P1 e 0) : InvL e :=
  fun L h8 hw => lift_levels e (h (hwf L hw)) L h8

theorem inv_atom (t : Tok) : Inv (.atom t) := by
  have pe : t.kind ∈ identKinds → PE (.atom t) := pe_ident t
  have first : t.kind ∈ identKinds → First (.atom t) := fun h => ⟨t, [], rfl, h⟩
  refine ⟨invL_of_primary _ (fun _ h => h) ?_, ?_, ?_⟩
  · intro h
    rcases h with h | h
    · exact p1_chain _ (first h) (pd1_of_pd2 _ (pd2_of_pe _ (pe h)))
    · exact p1_literal t h
  · intro _ he
    exact pe (by simpa [Ex.isElem] using he)
  · intro _ hc
    have hi : t.kind ∈ identKinds := by simpa [Ex.isChain, Ex.isElem] using hc
    exact ⟨pd2_of_pe _ (pe hi), first hi⟩

theorem inv_paren (lp rp : Tok) (e : Ex) (ih : Inv e) : Inv (.paren lp e rp) := by
  refine ⟨invL_of_primary _ (fun _ h => h) ?_, ?_, ?_⟩
  · intro h
    simp only [Ex.WF] at h
    exact p1_paren lp rp e h.1 h.2.1 (ih.lv 8 (Nat.le_refl 8) h.2.2).1
  · intro _ he; simp [Ex.isElem] at he
  · intro _ hc; simp [Ex.isChain, Ex.isElem] at hc

theorem wf_lower (l r : Ex) (op : Tok) (L : Nat) (h : (Ex.bin l op r).WF (L+1)) (hne : opLevel op.kind ≠ L+1) :
    (Ex.bin l op r).WF L := by
  simp only [Ex.WF] at h ⊢
  exact ⟨h.1, by omega, h.2.2⟩

theorem invL_bin (l r : Ex) (op : Tok) (ihl : InvL l) (ihr : InvL r) : InvL (.bin l op r) := by
  intro L
  induction L with
  | zero => intro _ h; simp only [Ex.WF] at h; omega
  | succ L ih =>
    intro h8 h
    have h2 : P2 (.bin l op r) (L+1) := by
      by_cases hm : opLevel op.kind = L+1
      · have hw := h
        simp only [Ex.WF] at hw
        rw [hm] at hw
        have hop : op.kind ∈ lvOps (L+1) := by
          have := opLevel_mem op.kind (by omega)
          rwa [hm] at this
        exact p2_bin l r op (L+1) (by omega) h8 hop
          ((ihl (L+1) h8 hw.2.2.1).2 (by omega))
          ((ihr (L+1-1) (by omega) hw.2.2.2).1)
      · exact p2_of_lower _ (L+1) (by omega) h8 (ih (by omega) (wf_lower l r op L h hm)).1
    exact ⟨p1_of_p2 _ _ (by omega) h8 h2, fun _ => h2⟩

theorem inv_bin (l r : Ex) (op : Tok) (ihl : Inv l) (ihr : Inv r) : Inv (.bin l op r) := by
  refine ⟨invL_bin l r op ihl.lv ihr.lv, ?_, ?_⟩
  · intro _ he; simp [Ex.isElem] at he
  · intro _ hc; simp [Ex.isChain, Ex.isElem] at hc

theorem inv_pre (op : Tok) (e : Ex) (ih : Inv e) : Inv (.pre op e) := by
  refine ⟨invL_of_primary _ (fun _ h => h) ?_, ?_, ?_⟩
  · intro h
    simp only [Ex.WF] at h
    exact p1_pre op e h.1 (ih.lv 0 (by omega) h.2).1
  · intro _ he; simp [Ex.isElem] at he
  · intro _ hc; simp [Ex.isChain, Ex.isElem] at hc

theorem inv_post (e : Ex) (op : Tok) (ih : Inv e) : Inv (.post e op) := by
  refine ⟨invL_of_primary _ (fun _ h => h) ?_, ?_, ?_⟩
  · intro h
    simp only [Ex.WF] at h
    have ⟨h2, hf⟩ := ih.chain h.2.2 h.2.1
    exact p1_post e op h.1 hf (pd1_of_pd2 _ h2)
  · intro _ he; simp [Ex.isElem] at he
  · intro _ hc; simp [Ex.isChain, Ex.isElem] at hc

theorem inv_dot (l r : Ex) (d : Tok) (ihl : Inv l) (ihr : Inv r) : Inv (.dot l d r) := by
  have key : (Ex.dot l d r).WF 0 → PD2 (.dot l d r) ∧ First (.dot l d r) := by
    intro h
    simp only [Ex.WF] at h
    obtain ⟨hd, hlc, hre, hlw, hrw⟩ := h
    have ⟨h2, t, r', ht, hti⟩ := ihl.chain hlw hlc
    refine ⟨pd2_dot l r d hd h2 (ihr.elem hrw hre), t, r' ++ d :: r.toks, ?_, hti⟩
    simp [Ex.toks, ht]
  refine ⟨invL_of_primary _ (fun _ h => h) ?_, ?_, ?_⟩
  · intro h
    have ⟨h2, hf⟩ := key h
    exact p1_chain _ hf (pd1_of_pd2 _ h2)
  · intro _ he; simp [Ex.isElem] at he
  · intro h _; exact key h

theorem inv_call (f lp rp : Tok) (as : Args) (ih : InvA as) : Inv (.call f lp as rp) := by
  have pe : (Ex.call f lp as rp).WF 0 → PE (.call f lp as rp) := by
    intro h
    simp only [Ex.WF] at h
    obtain ⟨hf, hl, hr, hw⟩ := h
    exact pe_call f lp rp as hf hl hr (fun k => (ih.expr hw rp k (Or.inl hr)).2)
  have first : (Ex.call f lp as rp).WF 0 → First (.call f lp as rp) := by
    intro h
    simp only [Ex.WF] at h
    exact ⟨f, _, rfl, h.1⟩
  refine ⟨invL_of_primary _ (fun _ h => h) ?_, ?_, ?_⟩
  · intro h
    exact p1_chain _ (first h) (pd1_of_pd2 _ (pd2_of_pe _ (pe h)))
  · intro h _; exact pe h
  · intro h _; exact ⟨pd2_of_pe _ (pe h), first h⟩

theorem inv_index (a lb rb : Tok) (e : Ex) (ih : Inv e) : Inv (.index a lb e rb) := by
  have pe : (Ex.index a lb e rb).WF 0 → PE (.index a lb e rb) := by
    intro h
    simp only [Ex.WF] at h
    obtain ⟨ha, hl, hr, hw⟩ := h
    exact pe_index a lb rb e ha hl hr (ih.lv 8 (Nat.le_refl 8) hw).1
  have first : (Ex.index a lb e rb).WF 0 → First (.index a lb e rb) := by
    intro h
    simp only [Ex.WF] at h
    exact ⟨a, _, rfl, h.1⟩
  refine ⟨invL_of_primary _ (fun _ h => h) ?_, ?_, ?_⟩
  · intro h
    exact p1_chain _ (first h) (pd1_of_pd2 _ (pd2_of_pe _ (pe h)))
  · intro h _; exact pe h
  · intro h _; exact ⟨pd2_of_pe _ (pe h), first h⟩

theorem inv_set (lb rb : Tok) (as : Args) (ih : InvA as) : Inv (.set lb as rb) := by
  refine ⟨invL_of_primary _ (fun _ h => h) ?_, ?_, ?_⟩
  · intro h
    simp only [Ex.WF] at h
    obtain ⟨hl, hr, hw⟩ := h
    exact p1_set lb rb as hl hr (fun k => (ih.prim hw rb k (Or.inr hr)).2)
  · intro _ he; simp [Ex.isElem] at he
  · intro _ hc; simp [Ex.isChain, Ex.isElem] at hc

theorem exprRec_def : Γ nExprRec = sepListRec (.ref nExpr) nExprRec := rfl
theorem primaryRec_def : Γ nPrimaryRec = sepListRec (.ref nPrimary) nPrimaryRec := rfl

theorem item_expr (e : Ex) (ih : Inv e) : e.WF 8 → ∀ k, Stop 8 k → Parses (.ref nExpr) (e.toks ++ k) k e.tree :=
  fun hw k hk => Parses.ref (n := nExpr) (Parses.memo (c := 1) ((ih.lv 8 (Nat.le_refl 8) hw).1 k hk))

theorem item_primary (e : Ex) (ih : Inv e) : e.WF 0 → ∀ k, Stop 8 k → Parses (.ref nPrimary) (e.toks ++ k) k e.tree :=
  fun hw k hk => (ih.lv 0 (by omega) hw).1 k (stop_le (by omega) hk)

theorem inva_nil : InvA .nil :=
  ⟨args_nil 8 _ _ (fun c k hc => failsAt_expr c k (closer_noStart _ hc.mem).1),
   args_nil 0 _ _ (fun c k hc => failsAt_primary c k (closer_noStart _ hc.mem).1)⟩

theorem inva_one (e : Ex) (ih : Inv e) : InvA (.one e) :=
  ⟨args_one e 8 _ _ exprRec_def (item_expr e ih), args_one e 0 _ _ primaryRec_def (item_primary e ih)⟩

theorem inva_more (e : Ex) (cm : Tok) (rest : Args) (ih : Inv e) (ihr : InvA rest) : InvA (.more e cm rest) :=
  ⟨args_more e cm rest 8 _ _ exprRec_def (item_expr e ih) ihr.expr,
   args_more e cm rest 0 _ _ primaryRec_def (item_primary e ih) ihr.prim⟩

mutual
/-- the induction over the abstract syntax (mutual with argument lists) -/
theorem invEx : (e : Ex) → Inv e
  | .atom t => inv_atom t
  | .paren lp e rp => inv_paren lp rp e (invEx e)
  | .bin l op r => inv_bin l r op (invEx l) (invEx r)
  | .pre op e => inv_pre op e (invEx e)
  | .post e op => inv_post e op (invEx e)
  | .dot l d r => inv_dot l r d (invEx l) (invEx r)
  | .call f lp as rp => inv_call f lp rp as (invArgs as)
  | .index a lb e rb => inv_index a lb rb e (invEx e)
  | .set lb as rb => inv_set lb rb as (invArgs as)
theorem invArgs : (as : Args) → InvA as
  | .nil => inva_nil
  | .one e => inva_one e (invEx e)
  | .more e cm rest => inva_more e cm rest (invEx e) (invArgs rest)
end

theorem levels (e : Ex) : ∀ L, L ≤ 8 → e.WF L → P1 e L ∧ (1 ≤ L → P2 e L) := (invEx e).lv

/-! ## the executable well-formedness test is the predicate -/

theorem atomOKb_iff (t : Tok) : atomOKb t = true ↔ atomOK t := by
  simp [atomOKb, atomOK]

mutual
theorem wfb_iff : (e : Ex) → ∀ L, e.wfb L = true ↔ e.WF L
  | .atom t => by intro L; simp only [Ex.wfb, Ex.WF]; exact atomOKb_iff t
  | .paren lp e rp => by intro L; have ih := wfb_iff e 8; simp [Ex.wfb, Ex.WF, ih, and_assoc]
  | .bin l op r => by
    intro L
    have ihl := wfb_iff l (opLevel op.kind)
    have ihr := wfb_iff r (opLevel op.kind - 1)
    simp [Ex.wfb, Ex.WF, ihl, ihr, and_assoc]
  | .pre op e => by intro L; have ih := wfb_iff e 0; simp [Ex.wfb, Ex.WF, ih]
  | .post e op => by intro L; have ih := wfb_iff e 0; simp [Ex.wfb, Ex.WF, ih, and_assoc]
  | .dot l d r => by
    intro L
    have ihl := wfb_iff l 0
    have ihr := wfb_iff r 0
    simp [Ex.wfb, Ex.WF, ihl, ihr, and_assoc]
  | .call f lp as rp => by intro L; have ih := wfbA_iff as 8; simp [Ex.wfb, Ex.WF, ih, and_assoc]
  | .index a lb e rb => by intro L; have ih := wfb_iff e 8; simp [Ex.wfb, Ex.WF, ih, and_assoc]
  | .set lb as rb => by intro L; have ih := wfbA_iff as 0; simp [Ex.wfb, Ex.WF, ih, and_assoc]
theorem wfbA_iff : (as : Args) → ∀ L, as.wfb L = true ↔ as.WF L
  | .nil => by intro L; simp [Args.wfb, Args.WF]
  | .one e => by intro L; have ih := wfb_iff e L; simp [Args.wfb, Args.WF, ih]
  | .more e c rest => by
    intro L
    have ih := wfb_iff e L
    have ihr := wfbA_iff rest L
    simp [Args.wfb, Args.WF, ih, ihr, and_assoc]
end

theorem stopB_iff (L : Nat) (k : List Tok) : stopB L k = true ↔ Stop L k := by
  cases k with
  | nil => simp [stopB, Stop]
  | cons t r => simp [stopB, Stop]

end Gold.C06
