import GoldModel.Lemmas.LexerRun
/-!
Helper lemmas for C05 (M-LEX), part 4: what follows from a `Run` — ordering, value at offset,
gaps, line/column, word classification — and the adequacy of the fuel.
-/
namespace Gold.Lex

/-- the extent of token `t` covers index `i` -/
def Token.covers (t : Token) (i : Nat) : Prop := t.off ≤ i ∧ i < t.off + t.extent

instance (t : Token) (i : Nat) : Decidable (t.covers i) := by unfold Token.covers; infer_instance

/-- kinds whose value is the lexeme itself (everything but quoted literals, `#n` literals and comments) -/
def _root_.Gold.Kind.valueIsLexeme (k : Kind) : Prop := k ≠ .StringLiteral ∧ k ≠ .Comment

instance (k : Kind) : Decidable k.valueIsLexeme := by unfold Kind.valueIsLexeme; infer_instance

theorem run_bounds {upper : String → String} {src pre : List Char} {ts : List Token} {es : List LexErr}
    (h : Run upper src pre ts es) :
    (∀ t ∈ ts, pre.length ≤ t.off ∧ 0 < t.extent ∧ t.off + t.extent ≤ src.length) ∧
    ts.Pairwise (fun a b => a.off + a.extent ≤ b.off) := by
  induction h with
  | done => simp
  | tok pre ws lexeme rest t ts es hws hsrc hne ht hext hrun ih =>
    obtain ⟨ih1, ih2⟩ := ih
    have hpos : 0 < lexeme.length := List.length_pos_iff.mpr hne
    have hlen : src.length = pre.length + ws.length + lexeme.length + rest.length := by
      rw [hsrc]; simp only [List.length_append]
    have hoff : t.off = pre.length + ws.length := by rw [ht.off_eq]; simp
    constructor
    · intro t' ht'
      simp only [List.mem_cons] at ht'
      rcases ht' with rfl | ht'
      · rw [ht.extent_eq]; omega
      · have := ih1 t' ht'
        simp only [List.length_append] at this
        omega
    · refine List.Pairwise.cons ?_ ih2
      intro t' ht'
      have := ih1 t' ht'
      simp only [List.length_append] at this
      rw [ht.extent_eq]; omega
  | err pre ws c rest e ts es hws hsrc hc he hrun ih =>
    obtain ⟨ih1, ih2⟩ := ih
    refine ⟨?_, ih2⟩
    intro t' ht'
    have := ih1 t' ht'
    simp only [List.length_append] at this
    omega

theorem run_value {upper : String → String} {src pre : List Char} {ts : List Token} {es : List LexErr}
    (h : Run upper src pre ts es) :
    ∀ t ∈ ts, t.kind.valueIsLexeme → (src.drop t.off).take t.value.length = t.value ∧ t.extent = t.value.length := by
  induction h with
  | done => simp
  | tok pre ws lexeme rest t ts es hws hsrc hne ht hext hrun ih =>
    intro t' ht' hk
    simp only [List.mem_cons] at ht'
    rcases ht' with rfl | ht'
    · have hv := ht.value_eq hk.1 hk.2
      rw [hv, ht.off_eq, hsrc, ht.extent_eq]
      refine ⟨?_, rfl⟩
      rw [List.append_assoc (pre ++ ws), List.drop_left, List.take_left]
    · exact ih t' ht' hk
  | err pre ws c rest e ts es hws hsrc hc he hrun ih => exact ih

theorem run_linecol {upper : String → String} {src pre : List Char} {ts : List Token} {es : List LexErr}
    (h : Run upper src pre ts es) :
    (∀ t ∈ ts, t.start = trueLineCol src t.off) ∧
    (∀ e ∈ es, e.start = trueLineCol src e.off ∧ e.stop = ⟨e.start.line, e.start.col + 1⟩) := by
  induction h with
  | done => simp
  | tok pre ws lexeme rest t ts es hws hsrc hne ht hext hrun ih =>
    refine ⟨?_, ih.2⟩
    intro t' ht'
    simp only [List.mem_cons] at ht'
    rcases ht' with rfl | ht'
    · rw [ht.start_eq, ht.off_eq]
      exact lcOf_true src (pre ++ ws) (lexeme ++ rest) (by rw [hsrc]; simp)
    · exact ih.1 t' ht'
  | err pre ws c rest e ts es hws hsrc hc he hrun ih =>
    refine ⟨ih.1, ?_⟩
    intro e' he'
    simp only [List.mem_cons] at he'
    rcases he' with rfl | he'
    · subst he
      simp only [mkErr, endOf, and_true]
      exact lcOf_true src (pre ++ ws) ([c] ++ rest) (by rw [hsrc]; simp)
    · exact ih.2 e' he'

theorem run_gaps {upper : String → String} {src pre : List Char} {ts : List Token} {es : List LexErr}
    (h : Run upper src pre ts es) :
    ∀ i c, pre.length ≤ i → src[i]? = some c → (∀ t ∈ ts, ¬ t.covers i) →
      isBlank c ∨ ∃ e ∈ es, e.off = i := by
  induction h with
  | done pre ws hws hsrc =>
    intro i c hi hc _
    left
    rw [hsrc, List.getElem?_append_right hi] at hc
    exact hws c (List.mem_of_getElem? hc)
  | tok pre ws lexeme rest t ts es hws hsrc hne ht hext hrun ih =>
    intro i c hi hc hcov
    by_cases h1 : i < (pre ++ ws).length
    · left
      rw [hsrc, List.append_assoc (pre ++ ws), List.getElem?_append_left h1,
        List.getElem?_append_right hi] at hc
      exact hws c (List.mem_of_getElem? hc)
    · by_cases h2 : i < (pre ++ ws ++ lexeme).length
      · exfalso
        apply hcov t (by simp)
        simp only [Token.covers, ht.off_eq, ht.extent_eq]
        simp only [List.length_append] at h1 h2 ⊢
        omega
      · exact ih i c (by omega) hc (fun t' ht' => hcov t' (by simp [ht']))
  | err pre ws c' rest e ts es hws hsrc hc' he hrun ih =>
    intro i c hi hc hcov
    by_cases h1 : i < (pre ++ ws).length
    · left
      rw [hsrc, List.append_assoc (pre ++ ws), List.getElem?_append_left h1,
        List.getElem?_append_right hi] at hc
      exact hws c (List.mem_of_getElem? hc)
    · by_cases h2 : i = (pre ++ ws).length
      · right
        exact ⟨e, by simp, by rw [he, h2]; rfl⟩
      · have h3 : (pre ++ ws ++ [c']).length ≤ i := by
          simp only [List.length_append, List.length_cons, List.length_nil] at h1 h2 ⊢; omega
        rcases ih i c h3 hc hcov with hb | ⟨e', he', hoff⟩
        · exact Or.inl hb
        · exact Or.inr ⟨e', by simp [he'], hoff⟩

theorem run_word {upper : String → String} {src pre : List Char} {ts : List Token} {es : List LexErr}
    (h : Run upper src pre ts es) :
    ∀ t ∈ ts, ∀ c, src[t.off]? = some c → isWordStart c = true →
      t.kind = classify upper t.value ∧ (src.drop t.off).take t.value.length = t.value ∧
      (∀ d ∈ t.value, isWordCont d = true) := by
  induction h with
  | done => simp
  | tok pre ws lexeme rest t ts es hws hsrc hne ht hext hrun ih =>
    intro t' ht' c hc hw
    simp only [List.mem_cons] at ht'
    rcases ht' with rfl | ht'
    · have hhead : lexeme.head? = some c := by
        rw [ht.off_eq, hsrc, List.append_assoc (pre ++ ws), List.getElem?_append_right (Nat.le_refl _),
          Nat.sub_self, List.getElem?_append_left (List.length_pos_iff.mpr hne)] at hc
        rw [← hc, List.head?_eq_getElem?]
      obtain ⟨hk, hv, hall⟩ := ht.word c hhead hw
      refine ⟨hk, ?_, by rw [hv]; exact hall⟩
      rw [hv, ht.off_eq, hsrc, List.append_assoc (pre ++ ws), List.drop_left, List.take_left]
    · exact ih t' ht' c hc hw
  | err pre ws c rest e ts es hws hsrc hc he hrun ih => exact ih

theorem run_extent {upper : String → String} {src pre : List Char} {ts : List Token} {es : List LexErr}
    (h : Run upper src pre ts es) :
    ∀ t ∈ ts, t.extent = specExtent (src.drop t.off) t.value := by
  induction h with
  | done => simp
  | tok pre ws lexeme rest t ts es hws hsrc hne ht hext hrun ih =>
    intro t' ht'
    simp only [List.mem_cons] at ht'
    rcases ht' with rfl | ht'
    · rw [hext, ht.off_eq, hsrc, List.append_assoc (pre ++ ws), List.drop_left]
    · exact ih t' ht'
  | err pre ws c rest e ts es hws hsrc hc he hrun ih => exact ih

/-! ### fuel adequacy: any fuel above the length of the remaining text gives the same result -/

theorem lexLoop_fuel (upper : String → String) :
    ∀ (f f' : Nat) (l : List Char) (off : Nat) (lp : List Nat), l.length < f → l.length < f' →
      lexLoop upper true f l off lp = lexLoop upper true f' l off lp := by
  intro f
  induction f with
  | zero => intro f' l off lp h; omega
  | succ f ih =>
    intro f' l off lp h h'
    cases f' with
    | zero => omega
    | succ f' =>
      obtain ⟨ws, h1, _, _, _, h5⟩ := skipWs_spec l off lp
      simp only [lexLoop]
      generalize skipWs l off lp = s at *
      obtain ⟨l1, off1, lp1⟩ := s
      simp only at h1 h5 ⊢
      cases l1 with
      | nil => rfl
      | cons c r =>
        simp only
        obtain ⟨lexeme, ok⟩ := readItem_spec upper c r off1 lp1 (h5 c r rfl)
        have hlen : (readItem upper true c r off1 lp1).rest.length < l.length := by
          have : l.length = ws.length + lexeme.length + (readItem upper true c r off1 lp1).rest.length := by
            rw [h1, ok.decomp]; simp; omega
          have : 0 < lexeme.length := List.length_pos_iff.mpr ok.nonempty
          omega
        rw [ih f' _ _ _ (by omega) (by omega)]

end Gold.Lex
