import GoldModel.Props.C06Expr
import GoldModel.Lemmas.LexRender
/-!
From the token-level expression round trip to TEXTS (`Props/C06Text.lean`): the words an abstract
expression is printed with, its layout on one line, and the lemmas that connect the lexer's output on
the printed text with the tokens of the laid-out expression.

* `toTok` — a lexer token as the parser sees it (kind, value, range; the parser of the code takes
  the lexer's `Token`s as they are);
* `wordOfTok t` — the word written for a parser token: spelling = value, put in single quotes for a
  string literal; `Ex.words`, `Ex.text`;
* `placeTok off t` — `t` with the range the lexer assigns to its word at column `off` of line 0;
  `Ex.place e off` — `e` laid out from column `off` (every token gets the range of its word in the
  rendered text, nothing else changes);
* `place_toks` — the tokens of the laid-out expression ARE the lexer's tokens for the text;
  `place_WF`, `place_words` — layout preserves well-formedness and the printed words.
-/
set_option linter.unusedSimpArgs false
namespace Gold.C06
open Gold Gold.Lex

/-- a lexer token as the parser sees it -/
def toTok (t : Lex.Token) : Tok :=
  ⟨t.kind, String.ofList t.value, ⟨⟨t.start.line, t.start.col⟩, ⟨t.stop.line, t.stop.col⟩⟩⟩

/-- the word the printer writes for a parser token -/
def wordOfTok (t : Tok) : Word :=
  if t.kind = Kind.StringLiteral then ⟨t.kind, '\'' :: (t.value.toList ++ ['\'']), t.value.toList⟩
  else ⟨t.kind, t.value.toList, t.value.toList⟩

def Ex.words (e : Ex) : List Word := e.toks.map wordOfTok
def Args.words (as : Args) : List Word := as.toks.map wordOfTok

/-- the printed text of an expression: its tokens' words, separated by one space -/
def Ex.text (e : Ex) : List Char := render e.words

/-- chars a word list takes in a rendered text, each word counted with the space behind it -/
def adv (ws : List Word) : Nat := (ws.map (fun w => w.spelling.length + 1)).sum

/-- `t` with the range of its word written at column `off` of line 0 -/
def placeTok (off : Nat) (t : Tok) : Tok :=
  { t with rng := ⟨⟨0, off⟩, ⟨0, off + t.value.toList.length⟩⟩ }

/-- width of one token's word plus the separating space -/
def tw (t : Tok) : Nat := (wordOfTok t).spelling.length + 1

mutual
/-- `e` laid out on line 0 from column `off`: every token gets the range of its word in the text -/
def Ex.place : Ex → Nat → Ex
  | .atom t, off => .atom (placeTok off t)
  | .paren lp e rp, off => .paren (placeTok off lp) (e.place (off + tw lp)) (placeTok (off + tw lp + adv e.words) rp)
  | .bin l op r, off => .bin (l.place off) (placeTok (off + adv l.words) op) (r.place (off + adv l.words + tw op))
  | .pre op e, off => .pre (placeTok off op) (e.place (off + tw op))
  | .post e op, off => .post (e.place off) (placeTok (off + adv e.words) op)
  | .dot l d r, off => .dot (l.place off) (placeTok (off + adv l.words) d) (r.place (off + adv l.words + tw d))
  | .call f lp as rp, off =>
    .call (placeTok off f) (placeTok (off + tw f) lp) (as.place (off + tw f + tw lp)) (placeTok (off + tw f + tw lp + adv as.words) rp)
  | .index a lb e rb, off =>
    .index (placeTok off a) (placeTok (off + tw a) lb) (e.place (off + tw a + tw lb)) (placeTok (off + tw a + tw lb + adv e.words) rb)
  | .set lb as rb, off => .set (placeTok off lb) (as.place (off + tw lb)) (placeTok (off + tw lb + adv as.words) rb)
def Args.place : Args → Nat → Args
  | .nil, _ => .nil
  | .one e, off => .one (e.place off)
  | .more e c rest, off => .more (e.place off) (placeTok (off + adv e.words) c) (rest.place (off + adv e.words + tw c))
end

/-! ### `expect` over concatenations -/

theorem adv_append (a b : List Word) : adv (a ++ b) = adv a + adv b := by simp [adv]

theorem adv_cons (w : Word) (ws : List Word) : adv (w :: ws) = w.spelling.length + 1 + adv ws := by simp [adv]

theorem adv_nil : adv [] = 0 := rfl

theorem expect_append (off : Nat) (a b : List Word) :
    expect off (a ++ b) = expect off a ++ expect (off + adv a) b := by
  induction a generalizing off with
  | nil => simp [expect, adv]
  | cons w a ih => simp only [List.cons_append, expect, ih, adv_cons]; congr 3; omega

theorem toTok_expect1 (off : Nat) (t : Tok) :
    toTok (mkToken [] off (wordOfTok t).kind (wordOfTok t).value (wordOfTok t).spelling.length) = placeTok off t := by
  unfold wordOfTok
  split <;> simp [toTok, mkToken_line0, placeTok, String.ofList_toList]

/-- the lexer's tokens for one token's word -/
theorem expect_tok (off : Nat) (t : Tok) :
    (expect off [wordOfTok t]).map toTok = [placeTok off t] := by
  simp [expect, toTok_expect1]

theorem wordOfTok_placeTok (off : Nat) (t : Tok) : wordOfTok (placeTok off t) = wordOfTok t := rfl

theorem tw_placeTok (off : Nat) (t : Tok) : tw (placeTok off t) = tw t := rfl

theorem kind_placeTok (off : Nat) (t : Tok) : (placeTok off t).kind = t.kind := rfl

theorem expect_cons_tok (off : Nat) (t : Tok) (ws : List Word) :
    (expect off (wordOfTok t :: ws)).map toTok = placeTok off t :: (expect (off + tw t) ws).map toTok := by
  simp [expect, toTok_expect1, tw, Nat.add_assoc]

theorem adv_cons_tok (t : Tok) (ws : List Word) : adv (wordOfTok t :: ws) = tw t + adv ws := by
  simp [adv_cons, tw]

theorem expect_nil (off : Nat) : expect off [] = [] := rfl

theorem words_eq (e : Ex) : e.words = e.toks.map wordOfTok := rfl
theorem awords_eq (as : Args) : as.words = as.toks.map wordOfTok := rfl

/-! ### layout changes ranges only -/

mutual
theorem place_words : (e : Ex) → ∀ off, (e.place off).words = e.words
  | .atom t => by intro off; simp [Ex.place, Ex.words, Ex.toks, wordOfTok_placeTok]
  | .paren lp e rp => by
    intro off; have ih := place_words e
    simp only [Ex.words] at ih ⊢
    simp [Ex.place, Ex.toks, wordOfTok_placeTok, ih]
  | .bin l op r => by
    intro off; have ihl := place_words l; have ihr := place_words r
    simp only [Ex.words] at ihl ihr ⊢
    simp [Ex.place, Ex.toks, wordOfTok_placeTok, ihl, ihr]
  | .pre op e => by
    intro off; have ih := place_words e
    simp only [Ex.words] at ih ⊢
    simp [Ex.place, Ex.toks, wordOfTok_placeTok, ih]
  | .post e op => by
    intro off; have ih := place_words e
    simp only [Ex.words] at ih ⊢
    simp [Ex.place, Ex.toks, wordOfTok_placeTok, ih]
  | .dot l d r => by
    intro off; have ihl := place_words l; have ihr := place_words r
    simp only [Ex.words] at ihl ihr ⊢
    simp [Ex.place, Ex.toks, wordOfTok_placeTok, ihl, ihr]
  | .call f lp as rp => by
    intro off; have ih := place_awords as
    simp only [Ex.words, Args.words] at ih ⊢
    simp [Ex.place, Ex.toks, wordOfTok_placeTok, ih]
  | .index a lb e rb => by
    intro off; have ih := place_words e
    simp only [Ex.words] at ih ⊢
    simp [Ex.place, Ex.toks, wordOfTok_placeTok, ih]
  | .set lb as rb => by
    intro off; have ih := place_awords as
    simp only [Ex.words, Args.words] at ih ⊢
    simp [Ex.place, Ex.toks, wordOfTok_placeTok, ih]
theorem place_awords : (as : Args) → ∀ off, (as.place off).words = as.words
  | .nil => by intro off; simp [Args.place]
  | .one e => by
    intro off; have ih := place_words e
    simp only [Ex.words, Args.words] at ih ⊢
    simp [Args.place, Args.toks, ih]
  | .more e c rest => by
    intro off; have ih := place_words e; have ihr := place_awords rest
    simp only [Ex.words, Args.words] at ih ihr ⊢
    simp [Args.place, Args.toks, wordOfTok_placeTok, ih, ihr]
end

mutual
/-- the tokens of the laid-out expression are the lexer's tokens for the rendered words -/
theorem place_toks : (e : Ex) → ∀ off, (e.place off).toks = (expect off e.words).map toTok
  | .atom t => by intro off; simp [Ex.place, Ex.words, Ex.toks, expect_tok]
  | .paren lp e rp => by
    intro off; have ih := place_toks e
    simp only [Ex.words] at ih ⊢
    simp [words_eq, awords_eq, expect_nil, Ex.place, Ex.toks, ih, expect_cons_tok, expect_append, expect_tok]
  | .bin l op r => by
    intro off; have ihl := place_toks l; have ihr := place_toks r
    simp only [Ex.words] at ihl ihr ⊢
    simp [words_eq, awords_eq, expect_nil, Ex.place, Ex.toks, ihl, ihr, expect_cons_tok, expect_append]
  | .pre op e => by
    intro off; have ih := place_toks e
    simp only [Ex.words] at ih ⊢
    simp [words_eq, awords_eq, expect_nil, Ex.place, Ex.toks, ih, expect_cons_tok]
  | .post e op => by
    intro off; have ih := place_toks e
    simp only [Ex.words] at ih ⊢
    simp [words_eq, awords_eq, expect_nil, Ex.place, Ex.toks, ih, expect_append, expect_tok]
  | .dot l d r => by
    intro off; have ihl := place_toks l; have ihr := place_toks r
    simp only [Ex.words] at ihl ihr ⊢
    simp [words_eq, awords_eq, expect_nil, Ex.place, Ex.toks, ihl, ihr, expect_cons_tok, expect_append]
  | .call f lp as rp => by
    intro off; have ih := place_atoks as
    simp only [Ex.words, Args.words] at ih ⊢
    simp [words_eq, awords_eq, expect_nil, Ex.place, Ex.toks, ih, expect_cons_tok, expect_append, expect_tok]
  | .index a lb e rb => by
    intro off; have ih := place_toks e
    simp only [Ex.words] at ih ⊢
    simp [words_eq, awords_eq, expect_nil, Ex.place, Ex.toks, ih, expect_cons_tok, expect_append, expect_tok]
  | .set lb as rb => by
    intro off; have ih := place_atoks as
    simp only [Ex.words, Args.words] at ih ⊢
    simp [words_eq, awords_eq, expect_nil, Ex.place, Ex.toks, ih, expect_cons_tok, expect_append, expect_tok]
theorem place_atoks : (as : Args) → ∀ off, (as.place off).toks = (expect off as.words).map toTok
  | .nil => by intro off; simp [Args.place, Args.words, Args.toks, expect]
  | .one e => by
    intro off; have ih := place_toks e
    simp only [Ex.words, Args.words] at ih ⊢
    simp [words_eq, awords_eq, expect_nil, Args.place, Args.toks, ih]
  | .more e c rest => by
    intro off; have ih := place_toks e; have ihr := place_atoks rest
    simp only [Ex.words, Args.words] at ih ihr ⊢
    simp [words_eq, awords_eq, expect_nil, Args.place, Args.toks, ih, ihr, expect_cons_tok, expect_append]
end

theorem isElem_place (e : Ex) (off : Nat) : (e.place off).isElem = e.isElem := by
  cases e <;> simp [Ex.place, Ex.isElem, kind_placeTok]

theorem isChain_place : (e : Ex) → ∀ off, (e.place off).isChain = e.isChain
  | .dot l d r => by intro off; simp [Ex.place, Ex.isChain, isChain_place l, isElem_place]
  | .atom t => by intro off; simp [Ex.place, Ex.isChain, Ex.isElem, kind_placeTok]
  | .paren .. => by intro off; simp [Ex.place, Ex.isChain, Ex.isElem]
  | .bin .. => by intro off; simp [Ex.place, Ex.isChain, Ex.isElem]
  | .pre .. => by intro off; simp [Ex.place, Ex.isChain, Ex.isElem]
  | .post .. => by intro off; simp [Ex.place, Ex.isChain, Ex.isElem]
  | .call .. => by intro off; simp [Ex.place, Ex.isChain, Ex.isElem]
  | .index .. => by intro off; simp [Ex.place, Ex.isChain, Ex.isElem]
  | .set .. => by intro off; simp [Ex.place, Ex.isChain, Ex.isElem]

theorem nonEmpty_place (as : Args) (off : Nat) : (as.place off).nonEmpty = as.nonEmpty := by
  cases as <;> simp [Args.place, Args.nonEmpty]

mutual
/-- layout preserves well-formedness (it depends on kinds and shape only) -/
theorem place_WF : (e : Ex) → ∀ L off, (e.place off).WF L ↔ e.WF L
  | .atom t => by intro L off; simp [Ex.place, Ex.WF, atomOK, kind_placeTok]
  | .paren lp e rp => by intro L off; simp [Ex.place, Ex.WF, kind_placeTok, place_WF e]
  | .bin l op r => by intro L off; simp [Ex.place, Ex.WF, kind_placeTok, place_WF l, place_WF r]
  | .pre op e => by intro L off; simp [Ex.place, Ex.WF, kind_placeTok, place_WF e]
  | .post e op => by intro L off; simp [Ex.place, Ex.WF, kind_placeTok, place_WF e, isChain_place]
  | .dot l d r => by
    intro L off; simp [Ex.place, Ex.WF, kind_placeTok, place_WF l, place_WF r, isChain_place, isElem_place]
  | .call f lp as rp => by intro L off; simp [Ex.place, Ex.WF, kind_placeTok, place_aWF as]
  | .index a lb e rb => by intro L off; simp [Ex.place, Ex.WF, kind_placeTok, place_WF e]
  | .set lb as rb => by intro L off; simp [Ex.place, Ex.WF, kind_placeTok, place_aWF as]
theorem place_aWF : (as : Args) → ∀ L off, (as.place off).WF L ↔ as.WF L
  | .nil => by intro L off; simp [Args.place, Args.WF]
  | .one e => by intro L off; simp [Args.place, Args.WF, place_WF e]
  | .more e c rest => by
    intro L off; simp [Args.place, Args.WF, kind_placeTok, place_WF e, place_aWF rest, nonEmpty_place]
end

end Gold.C06
