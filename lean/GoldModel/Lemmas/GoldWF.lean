import GoldModel.Lemmas.PegFuel
import GoldModel.Model.Grammar
/-! the Gold grammar table is well-formed (decidable checks evaluated by the kernel) -/
namespace Gold.Gram
open Gold Gold.Peg

/-- claimed nullability `(ne = false, ne = true)` per nonterminal, then per cache -/
def nulTable : List (Bool × Bool) :=
  [(true,false),(false,false),(false,false),(true,true),(true,true),(true,true),(true,true),(true,true),(true,true),(true,true),(true,true),(true,true),(true,true),(true,false),(true,true),(true,true),(true,false),(false,false),(false,false),(false,false),(false,false),(true,true),(true,true),(true,true),(true,true),(true,true),(true,true),(true,true),(true,true),(true,true),(true,true),(true,true),(true,true),(true,false),(true,false),(true,false),(true,false),(true,false),(true,false),(true,false),(true,false),(true,true),(true,true),(false,false),(true,true),(false,false),(false,false),(false,false),(false,false),(false,false),(false,false),(false,false),(false,false),(false,false)]

/-- claimed ranks: every nonterminal reachable without consuming a token has a smaller rank -/
def rkTable : List Nat :=
  [1,1,0,1,0,6,9,1,4,0,0,4,4,1,0,0,10,9,8,5,3,0,0,0,0,0,0,0,0,0,0,0,0,11,10,10,10,10,10,10,10,0,0,6,0,0,0,0,0,2,0,4,7,1]

def nulAt (i : Nat) (ne : Bool) : Bool :=
  match nulTable[i]? with
  | some (a, b) => if ne then b else a
  | none => true

def nulΓ (n : Nat) (ne : Bool) : Bool := if n < numNT then nulAt n ne else true
def nulΔ (c : Nat) (ne : Bool) : Bool := nulAt (numNT + c) ne
def rkΓ (n : Nat) : Nat := rkTable.getD n 0
def rkΔ (c : Nat) : Nat := rkTable.getD (numNT + c) 0
def rankK : Nat := 12
def sizeS : Nat := 208

/-- all eight conditions of `WF` for one table entry -/
def entryOK (rk : Nat) (nul : Bool → Bool) (g : G) : Bool :=
  decide (g.size ≤ sizeS) && allOK rkΓ rkΔ rankK g &&
  headOK nulΓ nulΔ rkΓ rkΔ false rk g && headOK nulΓ nulΔ rkΓ rkΔ true rk g &&
  (!(nullable nulΓ nulΔ false g) || nul false) && (!(nullable nulΓ nulΔ true g) || nul true)

theorem tblΓ_ok : (tblΓ.zipIdx.all fun p => entryOK (rkΓ p.2) (nulΓ p.2) p.1) = true := by decide +kernel
theorem tblΔ_ok : (tblΔ.zipIdx.all fun p => entryOK (rkΔ p.2) (nulΔ p.2) p.1) = true := by decide +kernel
theorem default_ok : ∀ ne : Bool, entryOK 0 (fun _ => true) (.eps Tree.none) = true := by decide

theorem tbl_lookup {l : List G} {P : Nat → G → Bool} (h : (l.zipIdx.all fun p => P p.2 p.1) = true)
    (n : Nat) (hn : n < l.length) : P n (l.getD n (.eps Tree.none)) = true := by
  rw [List.all_eq_true] at h
  have := h (l[n], n) (by
    rw [List.mem_zipIdx_iff_getElem?]
    simp [hn])
  simpa [List.getD, hn] using this

theorem entryΓ (n : Nat) : entryOK (rkΓ n) (nulΓ n) (Γ n) = true := by
  rcases Nat.lt_or_ge n tblΓ.length with h | h
  · exact tbl_lookup (P := fun i g => entryOK (rkΓ i) (nulΓ i) g) tblΓ_ok n h
  · have hg : Γ n = .eps Tree.none := by simp [Γ, List.getD, List.getElem?_eq_none h]
    have hr : rkΓ n = rkΓ n := rfl
    have hl : tblΓ.length = 51 := by decide
    rw [hg]
    have hn : ∀ ne, nulΓ n ne = true := by
      intro ne
      have : ¬ n < numNT := by simp [numNT]; omega
      simp [nulΓ, this]
    simp [entryOK, G.size, allOK, headOK, nullable, hn, sizeS]

theorem entryΔ (c : Nat) : entryOK (rkΔ c) (nulΔ c) (Δ c) = true := by
  rcases Nat.lt_or_ge c tblΔ.length with h | h
  · exact tbl_lookup (P := fun i g => entryOK (rkΔ i) (nulΔ i) g) tblΔ_ok c h
  · have hg : Δ c = .eps Tree.none := by simp [Δ, List.getD, List.getElem?_eq_none h]
    have hl : tblΔ.length = 3 := by decide
    rw [hg]
    have hn : ∀ ne, nulΔ c ne = true := by
      intro ne
      simp only [nulΔ, nulAt]
      have : nulTable.length = 54 := by decide
      rw [List.getElem?_eq_none (by simp [numNT]; omega)]
    simp [entryOK, G.size, allOK, headOK, nullable, hn, sizeS]

/-- the Gold grammar satisfies the hypotheses of T2 -/
theorem gold_wf : WF Γ Δ nulΓ nulΔ rkΓ rkΔ rankK sizeS := by
  have hΓ := entryΓ
  have hΔ := entryΔ
  simp only [entryOK, Bool.and_eq_true, Bool.or_eq_true, Bool.not_eq_true', decide_eq_true_eq] at hΓ hΔ
  refine ⟨fun n => (hΓ n).1.1.1.1.1, fun c => (hΔ c).1.1.1.1.1, fun n => (hΓ n).1.1.1.1.2, fun c => (hΔ c).1.1.1.1.2,
          ?_, ?_, ?_, ?_⟩
  · intro n ne; cases ne
    · exact (hΓ n).1.1.1.2
    · exact (hΓ n).1.1.2
  · intro c ne; cases ne
    · exact (hΔ c).1.1.1.2
    · exact (hΔ c).1.1.2
  · intro n ne h; cases ne
    · rcases (hΓ n).1.2 with h2 | h2
      · rw [h] at h2; cases h2
      · exact h2
    · rcases (hΓ n).2 with h2 | h2
      · rw [h] at h2; cases h2
      · exact h2
  · intro c ne h; cases ne
    · rcases (hΔ c).1.2 with h2 | h2
      · rw [h] at h2; cases h2
      · exact h2
    · rcases (hΔ c).2 with h2 | h2
      · rw [h] at h2; cases h2
      · exact h2

end Gold.Gram
