import GoldModel.Lemmas.Lexer
/-!
Helper lemmas for C05 (M-LEX), part 2: one iteration of the loop (`readItem`).

`StepOK`: the reader consumed a non-empty prefix `lexeme` of its input, advanced the offset by
its length, left `line_pos = recNl off lp lexeme`, and the token / error it produced sits at
`off`, spans exactly `lexeme` and has the start position `create_range` computes there.
-/
namespace Gold.Lex

structure TokFacts (upper : String → String) (off : Nat) (lp : List Nat) (lexeme : List Char) (t : Token) : Prop where
  off_eq : t.off = off
  extent_eq : t.extent = lexeme.length
  start_eq : t.start = lcOf lp off
  value_eq : t.kind ≠ .StringLiteral → t.kind ≠ .Comment → t.value = lexeme
  word : ∀ c, lexeme.head? = some c → isWordStart c = true →
    t.kind = classify upper t.value ∧ t.value = lexeme ∧ ∀ d ∈ lexeme, isWordCont d = true

structure StepOK (upper : String → String) (c : Char) (r : List Char) (off : Nat) (lp : List Nat)
    (s : Step) (lexeme : List Char) : Prop where
  decomp : c :: r = lexeme ++ s.rest
  nonempty : lexeme ≠ []
  off_eq : s.off = off + lexeme.length
  lp_eq : s.lp = recNl off lp lexeme
  tok : ∀ t, s.item = .inl t → TokFacts upper off lp lexeme t
  err : ∀ e, s.item = .inr e → lexeme = [c] ∧ e = mkErr lp off
  ext_spec : ∀ t, s.item = .inl t → t.extent = specExtent (c :: r) t.value

theorem readDouble_spec (upper : String → String) (c : Char) (r : List Char) (off : Nat) (lp : List Nat)
    (hc : ¬ isBlank c) (hw : isWordStart c = false) (hd : symDispatch.lookup c = some .doubleOp) :
    ∃ lexeme, StepOK upper c r off lp (readDouble c r off lp) lexeme := by
  obtain ⟨⟨ds, single⟩, he⟩ := dbl_total c hd
  have hnl : c ≠ '\n' := fun e => hc (by simp [isBlank, e])
  have hs := dbl_single_value c ds single he
  have hplain : c ≠ '\'' ∧ c ≠ '"' ∧ c ≠ ';' := by
    obtain ⟨h1, h2, h3⟩ := special_of_lookup c _ hd
    exact ⟨fun e => by simpa using h1.mpr e, fun e => by simpa using h2.mpr e, fun e => by simpa using h3.mpr e⟩
  have single_ok : StepOK upper c r off lp ⟨.inl (mkToken lp off single.1 single.2.toList 1), r, off + 1, lp⟩ [c] := by
    refine ⟨by simp, by simp, by simp, by simp [recNl, hnl], ?_, by simp, ?_⟩
    · intro t ht
      simp only [Sum.inl.injEq] at ht
      subst ht
      refine ⟨rfl, rfl, rfl, fun _ _ => hs, ?_⟩
      intro c' hc'
      simp only [List.head?_cons, Option.some.injEq] at hc'
      subst hc'
      simp [hw]
    · intro t ht
      simp only [Sum.inl.injEq] at ht
      subst ht
      rw [specExtent_plain c r _ hplain]; simp [mkToken, hs]
  unfold readDouble
  simp only [he]
  cases r with
  | nil => exact ⟨[c], single_ok⟩
  | cons d r' =>
    simp only
    cases hl : ds.lookup d with
    | none => exact ⟨[c], single_ok⟩
    | some kv =>
      obtain ⟨k, v⟩ := kv
      obtain ⟨hv, hdn⟩ := dbl_double_value c d ds single k v he hl
      refine ⟨[c, d], by simp, by simp, by simp, by simp [recNl, hnl, hdn], ?_, by simp, ?_⟩
      · intro t ht
        simp only [Sum.inl.injEq] at ht
        subst ht
        refine ⟨rfl, rfl, rfl, fun _ _ => hv, ?_⟩
        intro c' hc'
        simp only [List.head?_cons, Option.some.injEq] at hc'
        subst hc'
        simp [hw]
      · intro t ht
        simp only [Sum.inl.injEq] at ht
        subst ht
        rw [specExtent_plain c _ _ hplain]; simp [mkToken, hv]

/-- a token whose lexeme starts with a char that is not a word start: the `word` clause is void -/
theorem tokFacts_nonword (upper : String → String) (c : Char) (m : List Char) (off : Nat) (lp : List Nat)
    (t : Token) (hw : isWordStart c = false) (h1 : t.off = off) (h2 : t.extent = (c :: m).length)
    (h3 : t.start = lcOf lp off) (h4 : t.kind ≠ .StringLiteral → t.kind ≠ .Comment → t.value = c :: m) :
    TokFacts upper off lp (c :: m) t := by
  refine ⟨h1, h2, h3, h4, ?_⟩
  intro c' hc'
  simp only [List.head?_cons, Option.some.injEq] at hc'
  subst hc'
  simp [hw]

theorem readSymbol_spec (upper : String → String) (c : Char) (r : List Char) (off : Nat) (lp : List Nat)
    (hc : ¬ isBlank c) (hw : isWordStart c = false) :
    ∃ lexeme, StepOK upper c r off lp (readSymbol true c r off lp) lexeme := by
  have hnl : c ≠ '\n' := fun e => hc (by simp [isBlank, e])
  unfold readSymbol
  cases hd : symDispatch.lookup c with
  | none =>
    refine ⟨[c], by simp, by simp, by simp, by simp [recNl, hnl], by simp, by simp, by simp⟩
  | some a =>
    obtain ⟨sp1, sp2, sp3⟩ := special_of_lookup c a hd
    cases a with
    | tok k =>
      have hplain : c ≠ '\'' ∧ c ≠ '"' ∧ c ≠ ';' :=
        ⟨fun e => by simpa using sp1.mpr e, fun e => by simpa using sp2.mpr e, fun e => by simpa using sp3.mpr e⟩
      refine ⟨[c], by simp, by simp, by simp, by simp [recNl, hnl], ?_, by simp, ?_⟩
      · intro t ht
        simp only [Sum.inl.injEq] at ht
        subst ht
        exact tokFacts_nonword upper c [] off lp _ hw rfl rfl rfl (fun _ _ => rfl)
      · intro t ht
        simp only [Sum.inl.injEq] at ht
        subst ht
        rw [specExtent_plain c r _ hplain]; simp [mkToken]
    | doubleOp => exact readDouble_spec upper c r off lp hc hw hd
    | strSingle =>
      obtain ⟨m, h1, h2, h3⟩ := readStr1_spec r (off + 1) lp
      have hq : c = '\'' := sp1.mp rfl
      refine ⟨c :: m, ?_, by simp, ?_, ?_, ?_, by simp, ?_⟩
      rotate_right
      · intro t ht
        simp only [Sum.inl.injEq] at ht
        subst ht
        simp only [mkToken, specExtent, hq, if_true, readStr1_len]; omega
      · simp only [List.cons_append, List.cons.injEq, true_and]; exact h1
      · simp only [h2, List.length_cons]; omega
      · simp only [h3, recNl, hnl, if_false]
      · intro t ht
        simp only [Sum.inl.injEq] at ht
        subst ht
        refine tokFacts_nonword upper c m off lp _ hw rfl ?_ rfl (fun h _ => absurd rfl h)
        simp only [mkToken, h2, List.length_cons]; omega
    | strDouble =>
      obtain ⟨m, h1, h2, h3⟩ := readStr2_spec r (off + 1) lp
      have hq : c = '"' := sp2.mp rfl
      refine ⟨c :: m, ?_, by simp, ?_, ?_, ?_, by simp, ?_⟩
      rotate_right
      · intro t ht
        simp only [Sum.inl.injEq] at ht
        subst ht
        have : ('"' : Char) ≠ '\'' := by decide
        simp only [mkToken, specExtent, hq, this, if_true, if_false, readStr2_len]; omega
      · simp only [List.cons_append, List.cons.injEq, true_and]; exact h1
      · simp only [h2, List.length_cons]; omega
      · simp only [h3, recNl, hnl, if_false]
      · intro t ht
        simp only [Sum.inl.injEq] at ht
        subst ht
        refine tokFacts_nonword upper c m off lp _ hw rfl ?_ rfl (fun h _ => absurd rfl h)
        simp only [mkToken, h2, List.length_cons]; omega
    | comment =>
      have hq : c = ';' := sp3.mp rfl
      refine ⟨c :: r.takeWhile (fun c => !(c = '\n' ∨ c = '\r')), ?_, by simp, ?_, ?_, ?_, by simp, ?_⟩
      rotate_right
      · intro t ht
        simp only [Sum.inl.injEq] at ht
        subst ht
        have h1 : (';' : Char) ≠ '\'' := by decide
        have h2 : (';' : Char) ≠ '"' := by decide
        simp only [mkToken, specExtent, hq, h1, h2, if_true, if_false]
      · simp only [List.cons_append, List.takeWhile_append_dropWhile]
      · simp only [List.length_cons]; omega
      · simp only [recNl, hnl, if_false]
        symm; apply recNl_noNl
        intro d hd'
        have := mem_takeWhile_imp hd'
        intro e; subst e; simp at this
      · intro t ht
        simp only [Sum.inl.injEq] at ht
        subst ht
        refine tokFacts_nonword upper c _ off lp _ hw rfl ?_ rfl (fun _ h => absurd rfl h)
        simp only [mkToken, List.length_cons]; omega
    | intChar =>
      have hh := intChar_hash c hd
      have hplain : c ≠ '\'' ∧ c ≠ '"' ∧ c ≠ ';' :=
        ⟨fun e => by simpa using sp1.mpr e, fun e => by simpa using sp2.mpr e, fun e => by simpa using sp3.mpr e⟩
      refine ⟨c :: r.takeWhile isDigit09, ?_, by simp, ?_, ?_, ?_, by simp, ?_⟩
      rotate_right
      · intro t ht
        simp only [Sum.inl.injEq] at ht
        subst ht
        rw [specExtent_plain c r _ hplain]; simp [mkToken]; omega
      · simp only [List.cons_append, List.takeWhile_append_dropWhile]
      · simp only [List.length_cons]; omega
      · simp only [recNl, hnl, if_false]
        symm; apply recNl_noNl
        intro d hd'
        exact digit_noNl d (mem_takeWhile_imp hd')
      · intro t ht
        simp only [Sum.inl.injEq] at ht
        subst ht
        refine tokFacts_nonword upper c _ off lp _ hw rfl ?_ rfl (fun _ _ => by simp [mkToken, hh])
        simp only [mkToken, List.length_cons]; omega

theorem readItem_spec (upper : String → String) (c : Char) (r : List Char) (off : Nat) (lp : List Nat)
    (hc : ¬ isBlank c) :
    ∃ lexeme, StepOK upper c r off lp (readItem upper true c r off lp) lexeme := by
  unfold readItem
  by_cases hw : isWordStart c = true
  · simp only [hw, if_true]
    have hcont := wordStart_cont c hw
    refine ⟨(c :: r).takeWhile isWordCont, ?_, ?_, rfl, ?_, ?_, by simp, ?_⟩
    rotate_right
    · intro t ht
      simp only [Sum.inl.injEq] at ht
      subst ht
      rw [specExtent_plain c r _ (wordStart_notSpecial c hw)]; rfl
    · simp only [List.takeWhile_append_dropWhile]
    · simp [hcont]
    · symm; apply recNl_noNl
      intro d hd
      exact wordCont_noNl d (mem_takeWhile_imp hd)
    · intro t ht
      simp only [Sum.inl.injEq] at ht
      subst ht
      refine ⟨rfl, rfl, rfl, fun _ _ => rfl, ?_⟩
      intro c' _ _
      exact ⟨rfl, rfl, fun d hd => mem_takeWhile_imp hd⟩
  · have hw : isWordStart c = false := by simpa using hw
    simp only [hw, Bool.false_eq_true, if_false]
    by_cases hn : isNumStart c = true
    · simp only [hn, if_true]
      have hcont := numStart_cont c hn
      have hne : (c :: r).takeWhile isNumCont = c :: r.takeWhile isNumCont := by
        simp [hcont]
      refine ⟨(c :: r).takeWhile isNumCont, ?_, ?_, rfl, ?_, ?_, by simp, ?_⟩
      rotate_right
      · intro t ht
        simp only [Sum.inl.injEq] at ht
        subst ht
        rw [specExtent_plain c r _ (numStart_notSpecial c hn)]; rfl
      · simp only [List.takeWhile_append_dropWhile]
      · simp [hne]
      · symm; apply recNl_noNl
        intro d hd
        exact numCont_noNl d (mem_takeWhile_imp hd)
      · intro t ht
        simp only [Sum.inl.injEq] at ht
        subst ht
        rw [hne]
        exact tokFacts_nonword upper c _ off lp _ hw rfl (by simp [mkToken]) rfl (fun _ _ => by simp [mkToken])
    · simp only [hn, Bool.false_eq_true, if_false]
      exact readSymbol_spec upper c r off lp hc hw

end Gold.Lex
