import GoldModel.Lemmas.Scope
/-!
Re-casing the references of a workspace (C17, workspace level).

`cWs norm w` is `w` with every *reference* replaced by its folded spelling: type names in
declarations (`Ty.basic`, `Ty.refTo`), parent names in headers, entries of uses lists.
Declarations (ids, uids, ranges) are untouched.  Two workspaces that differ only in the letter
case of their references have the same canonical form, so `definition norm (cWs norm w) o =
definition norm w o` (and the same for completion) is the statement `analyse (recase w) = analyse w`.

Everything here is an equation between the run on `w` and the run on `cWs w` ("the annotator
commutes with canonicalisation"); tables (`Scope`s) are literally equal, only uses lists and
parent requests are mapped through `norm`; eval types are equal up to `norm` (`ETRel`).
-/
namespace Gold.Scope
open Gold Gold.Sym

variable (norm : String → String)

def cTy : Ty → Ty
  | .basic a => .basic (norm a)
  | .refTo a => .refTo (norm a)
  | t => t

def cDecl (d : Decl) : Decl := { d with ty := cTy norm d.ty }

def cEv : Ev → Ev
  | .decl d => .decl (cDecl norm d)
  | .uses n => .uses (norm n)
  | .cls d p => .cls (cDecl norm d) (p.map norm)
  | .mod d => .mod (cDecl norm d)

def cMethod (m : Method) : Method :=
  { decl := cDecl norm m.decl, params := m.params.map (cDecl norm), body := m.body.map (cEv norm), trail := m.trail.map (cEv norm) }

def cEntity (e : Entity) : Entity :=
  { stem := e.stem, top := e.top.map (cEv norm), methods := e.methods.map (cMethod norm) }

/-- the workspace with every reference in folded spelling -/
def cWs (w : Ws) : Ws := w.map (cEntity norm)

def cTop : Top → Top
  | .ev e => .ev (cEv norm e)
  | .meth d => .meth (cDecl norm d)

def cTab (t : Tab) : Tab := { t with uses := t.uses.map norm, parent := t.parent.map norm }

def cSt (s : St) : St := ⟨cTab norm s.root, s.cur.map (cTab norm), s.done.map (cTab norm)⟩

def cView (v : View) : View := ⟨v.chain, v.uses.map norm⟩

/-! ### structure -/

@[simp] theorem toSym_cDecl (d : Decl) : toSym (cDecl norm d) = toSym d := rfl
@[simp] theorem cDecl_id (d : Decl) : (cDecl norm d).id = d.id := rfl
@[simp] theorem cDecl_uid (d : Decl) : (cDecl norm d).uid = d.uid := rfl
@[simp] theorem cDecl_kind (d : Decl) : (cDecl norm d).kind = d.kind := rfl
@[simp] theorem cDecl_sel (d : Decl) : (cDecl norm d).sel = d.sel := rfl
@[simp] theorem cDecl_rng (d : Decl) : (cDecl norm d).rng = d.rng := rfl

theorem selfOf_cDecl (d : Decl) : selfOf (cDecl norm d) = cDecl norm (selfOf d) := rfl

theorem cEv_decls (e : Ev) : (cEv norm e).decls = e.decls.map (cDecl norm) := by
  cases e <;> simp [cEv, Ev.decls, selfOf_cDecl]

theorem cEv_usesOf (e : Ev) : (cEv norm e).usesOf = e.usesOf.map norm := by
  cases e <;> simp [cEv, Ev.usesOf]

theorem cMethod_stream (m : Method) : (cMethod norm m).stream = m.stream.map (cTop norm) := by
  simp [Method.stream, cMethod, cTop, List.map_append, Function.comp_def, cEv]

theorem cEntity_stream (e : Entity) : (cEntity norm e).stream = e.stream.map (cTop norm) := by
  simp [Entity.stream, cEntity, List.map_append, List.flatMap_map, List.map_flatMap, cMethod_stream,
    Function.comp_def, cTop]

theorem cTop_decls (t : Top) : (cTop norm t).decls = t.decls.map (cDecl norm) := by
  cases t with
  | ev e => simpa [cTop, Top.decls] using cEv_decls norm e
  | meth d => simp [cTop, Top.decls]

theorem cTop_isMeth (t : Top) : (cTop norm t).isMeth = t.isMeth := by cases t <;> rfl

/-! ### the annotator commutes with canonicalisation -/

theorem cTab_insert (t : Tab) (d : Decl) : Tab.insert norm (cTab norm t) (cDecl norm d) = cTab norm (Tab.insert norm t d) := rfl

theorem cTab_insertAll (l : List Decl) (t : Tab) :
    (l.map (cDecl norm)).foldl (Tab.insert norm) (cTab norm t) = cTab norm (l.foldl (Tab.insert norm) t) := by
  induction l generalizing t with
  | nil => rfl
  | cons d l ih => simp only [List.map_cons, List.foldl_cons, cTab_insert, ih]

theorem cTab_ev (t : Tab) (e : Ev) : Tab.ev norm (cTab norm t) (cEv norm e) = cTab norm (Tab.ev norm t e) := by
  simp only [Tab.ev, cEv_decls, cEv_usesOf, cTab_insertAll]
  simp [cTab, List.map_append]

/-- the self-parent guard of `handle_class` compares spellings exactly; a header whose parent
    folds like the class itself is C13/C14's subject -/
def Ev.noSelfParent : Ev → Prop
  | .cls d (some p) => norm p ≠ norm d.id
  | _ => True

def Top.noSelfParent : Top → Prop
  | .ev e => e.noSelfParent norm
  | .meth _ => True

/-- no header of the workspace names a parent that folds like the class itself -/
def NoSelfParent (w : Ws) : Prop := ∀ e ∈ w, ∀ t ∈ e.stream, t.noSelfParent norm

variable (hn : ∀ s, norm (norm s) = norm s)
include hn

theorem cTab_hdr (r : Tab) {e : Ev} (h : e.noSelfParent norm) : hdr (cTab norm r) (cEv norm e) = cTab norm (hdr r e) := by
  cases e with
  | decl d => rfl
  | uses n => rfl
  | mod d => rfl
  | cls d p =>
    cases p with
    | none => rfl
    | some pn =>
      simp only [Ev.noSelfParent] at h
      have h1 : pn ≠ d.id := fun e => h (by rw [e])
      have h2 : norm pn ≠ d.id := fun e => h (by rw [← e, hn])
      simp [hdr, cEv, cTab, h1, h2]

theorem cSt_step (s : St) {t : Top} (h : t.noSelfParent norm) :
    step norm (cSt norm s) (cTop norm t) = cSt norm (step norm s t) := by
  cases t with
  | ev e =>
    simp only [Top.noSelfParent] at h
    cases hc : s.cur with
    | none => simp [step, cSt, cTop, hc, cTab_hdr norm hn _ h, cTab_ev]
    | some c => simp [step, cSt, cTop, hc, cTab_hdr norm hn _ h, cTab_ev]
  | meth d =>
    cases hc : s.cur with
    | none => simp [step, cSt, cTop, hc, St.endMethod, cTab, Tab.insert]
    | some c => simp [step, cSt, cTop, hc, St.endMethod, cTab, Tab.insert]

theorem cSt_run : ∀ (l : List Top) (s : St), (∀ t ∈ l, t.noSelfParent norm) →
    run norm (l.map (cTop norm)) (cSt norm s) = cSt norm (run norm l s)
  | [], _, _ => rfl
  | t :: l, s, h => by
    simp only [run, List.map_cons, List.foldl_cons]
    rw [cSt_step norm hn s (h t List.mem_cons_self)]
    exact cSt_run l _ (fun x hx => h x (List.mem_cons_of_mem _ hx))

omit hn in
theorem cSt_init : cSt norm ({} : St) = ({} : St) := rfl

omit hn in
theorem cSt_endMethod (s : St) : (cSt norm s).endMethod = cSt norm s.endMethod := by
  cases hc : s.cur <;> simp [St.endMethod, cSt, hc]

theorem c_stAt {e : Entity} (h : ∀ t ∈ e.stream, t.noSelfParent norm) (t : Nat) :
    stAt norm (cEntity norm e) t = cSt norm (stAt norm e t) := by
  unfold stAt
  rw [cEntity_stream, ← List.map_take]
  have := cSt_run norm hn (e.stream.take t) ({} : St) (fun x hx => h x (List.mem_of_mem_take hx))
  rw [cSt_init] at this
  exact this

theorem c_annotate {e : Entity} (h : ∀ t ∈ e.stream, t.noSelfParent norm) :
    annotate norm (cEntity norm e) = cSt norm (annotate norm e) := by
  unfold annotate
  have := cSt_run norm hn e.stream ({} : St) h
  rw [cSt_init] at this
  rw [cEntity_stream, this, cSt_endMethod]

theorem c_rootOf {e : Entity} (h : ∀ t ∈ e.stream, t.noSelfParent norm) :
    rootOf norm (cEntity norm e) = cTab norm (rootOf norm e) := by
  simp only [rootOf, c_annotate norm hn h, cSt]

/-! ### class index, chains, views -/

variable (w : Ws)

omit hn in
theorem c_index (n : String) : index norm (cWs norm w) n = (index norm w n).map (cEntity norm) := by
  simp only [index, cWs, List.find?_map]
  rfl

omit hn in
theorem c_source (n : String) : source (cWs norm w) n = (source w n).map (cEntity norm) := by
  simp only [source, cWs, List.find?_map]
  rfl

theorem c_index_norm (n : String) : index norm (cWs norm w) (norm n) = (index norm w n).map (cEntity norm) := by
  rw [c_index, index_case norm w (hn n)]

def cNow (now : Option (String × Tab)) : Option (String × Tab) := now.map (fun p => (p.1, cTab norm p.2))

theorem c_rootNow (hp : NoSelfParent norm w) (now : Option (String × Tab)) {e : Entity} (he : e ∈ w) :
    rootNow norm (cNow norm now) (cEntity norm e) = cTab norm (rootNow norm now e) := by
  cases now with
  | none => simp only [rootNow, cNow, Option.map_none]; exact c_rootOf norm hn (hp e he)
  | some p =>
    obtain ⟨stem, t⟩ := p
    have hs : (cEntity norm e).stem = e.stem := rfl
    simp only [rootNow, cNow, Option.map_some, hs]
    by_cases hq : e.stem = stem
    · simp [hq]
    · simp only [hq, if_false]; exact c_rootOf norm hn (hp e he)

theorem c_parents (hp : NoSelfParent norm w) (now : Option (String × Tab)) : ∀ (f : Nat) (p : Option String),
    parents norm (cWs norm w) (cNow norm now) f (p.map norm) = parents norm w now f p
  | 0, _ => rfl
  | _+1, none => rfl
  | f+1, some p => by
    simp only [Option.map_some, parents, c_index_norm norm hn]
    cases hi : index norm w p with
    | none => rfl
    | some e =>
      have he : e ∈ w := index_mem norm w hi
      simp only [Option.map_some, c_rootNow norm hn w hp now he]
      have := c_parents hp now f (rootNow norm now e).parent
      simp only [cTab] at this ⊢
      rw [this]

theorem c_viewRoot (hp : NoSelfParent norm w) (now : Option (String × Tab)) (r : Tab) :
    viewRoot norm (cWs norm w) (cNow norm now) (cTab norm r) = cView norm (viewRoot norm w now r) := by
  simp only [viewRoot, cView, View.mk.injEq]
  refine ⟨?_, rfl⟩
  have := c_parents norm hn w hp now w.length r.parent
  simp only [cTab, cWs, List.length_map] at this ⊢
  rw [this]

theorem c_viewCur (hp : NoSelfParent norm w) (stem : String) (s : St) :
    viewCur norm (cWs norm w) stem (cSt norm s) = cView norm (viewCur norm w stem s) := by
  have h := c_viewRoot norm hn w hp (some (stem, s.root)) s.root
  simp only [cNow, Option.map_some] at h
  cases hc : s.cur with
  | none => simp only [viewCur, cSt, hc, Option.map_none]; exact h
  | some c => simp only [viewCur, cSt, hc, Option.map_some, h]; rfl

theorem c_viewScope (hp : NoSelfParent norm w) (fin : St) (scope : Option Nat) :
    viewScope norm (cWs norm w) (cSt norm fin) scope = cView norm (viewScope norm w fin scope) := by
  have h := c_viewRoot norm hn w hp none fin.root
  simp only [cNow, Option.map_none] at h
  have hd : scope.bind (fun i => (cSt norm fin).done[i]?) = (scope.bind (fun i => fin.done[i]?)).map (cTab norm) := by
    cases scope with
    | none => rfl
    | some i => simp [cSt]
  unfold viewScope
  rw [hd]
  cases scope.bind (fun i => fin.done[i]?) with
  | none => simp only [Option.map_none]; exact h
  | some m => simp only [Option.map_some]; rw [show (cSt norm fin).root = cTab norm fin.root from rfl, h]; rfl

/-! ### recovering declarations -/

omit hn in
theorem c_entity_decls (e : Entity) : (cEntity norm e).decls = e.decls.map (cDecl norm) := by
  simp only [Entity.decls, cEntity_stream, List.flatMap_map, List.map_flatMap, cTop_decls]

omit hn in
theorem c_allDecls : allDecls (cWs norm w) = (allDecls w).map (cDecl norm) := by
  simp only [allDecls, cWs, List.flatMap_map, List.map_flatMap, c_entity_decls]

omit hn in
theorem c_findDecl (uid : Nat) : findDecl (cWs norm w) uid = (findDecl w uid).map (cDecl norm) := by
  simp only [findDecl, c_allDecls, List.find?_map]
  rfl

def cLoc (l : Loc) : Loc := ⟨cEntity norm l.ent, l.time, cDecl norm l.d, l.meth⟩

omit hn in
theorem c_entity_locs (e : Entity) : (cEntity norm e).locs = e.locs.map (cLoc norm) := by
  simp only [Entity.locs, cEntity_stream, List.zipIdx_map, List.flatMap_map, List.map_flatMap]
  congr 1
  funext p
  simp [cTop_decls, cTop_isMeth, cLoc, Function.comp_def]

omit hn in
theorem c_allLocs : allLocs (cWs norm w) = (allLocs w).map (cLoc norm) := by
  simp only [allLocs, cWs, List.flatMap_map, List.map_flatMap, c_entity_locs]

omit hn in
theorem c_findUid (uid : Nat) : findUid (cWs norm w) uid = (findUid w uid).map (cLoc norm) := by
  simp only [findUid, c_allLocs, List.find?_map]
  rfl

omit hn in
theorem c_evalFuel : evalFuel (cWs norm w) = evalFuel w := by
  simp [evalFuel, c_allLocs]

omit hn in
theorem findUid_ent_mem {uid : Nat} {l : Loc} (h : findUid w uid = some l) : l.ent ∈ w := by
  have := List.mem_of_find?_eq_some h
  simp only [allLocs, List.mem_flatMap, Entity.locs, List.mem_map] at this
  obtain ⟨e, he, p, _, d, _, rfl⟩ := this
  exact he

/-! ### services and symbol search -/

def cEC (ec : EC) : EC := ⟨cEntity norm ec.self, cSt norm ec.st⟩

omit hn in
theorem cEC_now (ec : EC) : (cEC norm ec).now = cNow norm ec.now := rfl

theorem c_service (hp : NoSelfParent norm w) (ec : EC) (name : String) :
    service norm (cWs norm w) (cEC norm ec) name = (service norm w ec name).map (cView norm) := by
  simp only [service, c_index, Option.map_map]
  cases hi : index norm w name with
  | none => rfl
  | some e =>
    simp only [Option.map_some, Function.comp, cEC_now]
    rw [c_rootNow norm hn w hp ec.now (index_mem norm w hi), c_viewRoot norm hn w hp]

theorem c_service_norm (hp : NoSelfParent norm w) (ec : EC) (name : String) :
    service norm (cWs norm w) (cEC norm ec) (norm name) = (service norm w ec name).map (cView norm) := by
  rw [c_service norm hn w hp]
  simp only [service, index_case norm w (hn name)]

theorem c_serviceFin_norm (hp : NoSelfParent norm w) (name : String) :
    serviceFin norm (cWs norm w) (norm name) = (serviceFin norm w name).map (cView norm) := by
  simp only [serviceFin, c_index_norm norm hn, Option.map_map]
  cases hi : index norm w name with
  | none => rfl
  | some e =>
    simp only [Option.map_some, Function.comp]
    rw [c_rootOf norm hn (hp e (index_mem norm w hi))]
    have := c_viewRoot norm hn w hp none (rootOf norm e)
    simpa [cNow] using this

theorem c_searchSym (hp : NoSelfParent norm w) (ec : EC) (v : View) (id : String) (b : Bool) :
    searchSym norm (cWs norm w) (cEC norm ec) (cView norm v) id b = searchSym norm w ec v id b := by
  unfold searchSym
  simp only [cView, List.findSome?_map, Function.comp_def, c_service_norm norm hn w hp]
  cases getSymbolInfo norm v.chain id with
  | some x => rfl
  | none =>
    simp only
    cases b with
    | false => rfl
    | true =>
      simp only [if_true]
      apply findSome?_congr'
      intro u _
      cases service norm w ec u <;> rfl

theorem c_searchSymW (hp : NoSelfParent norm w) (ec : EC) (v : View) (id : String) (b : Bool) :
    searchSymW norm (cWs norm w) (cEC norm ec) (cView norm v) id b = searchSymW norm w ec v id b := by
  unfold searchSymW
  simp only [cView, List.findSome?_map, Function.comp_def, c_service_norm norm hn w hp]
  cases searchWParent norm v.chain id with
  | some x => rfl
  | none =>
    simp only
    cases b with
    | false => rfl
    | true =>
      simp only [if_true]
      apply findSome?_congr'
      intro u _
      cases service norm w ec u <;> rfl

omit hn in
theorem searchSym_case {ec : EC} (hs : ec.st.WF norm) {v : View} (hv : ChainWF norm v.chain)
    {id id' : String} (e : norm id = norm id') (b : Bool) :
    searchSym norm w ec v id b = searchSym norm w ec v id' b := by
  unfold searchSym
  rw [getSym_case norm hv e]
  have : v.uses.findSome? (fun u => (service norm w ec u).bind (fun uv => getSymbolInfo norm uv.chain id))
      = v.uses.findSome? (fun u => (service norm w ec u).bind (fun uv => getSymbolInfo norm uv.chain id')) := by
    apply findSome?_congr'
    intro u _
    cases hsv : service norm w ec u with
    | none => rfl
    | some uv => simp only [Option.bind_some]; exact getSym_case norm (service_wf norm w hs hsv) e
  rw [this]

/-! ### eval types, up to the letter case of the class names they carry -/

def ETRel : EvalTy → EvalTy → Prop
  | .cls a, .cls b => norm a = norm b
  | .mod a, .mod b => norm a = norm b
  | .unresolved a, .unresolved b => norm a = norm b
  | .unknown, .unknown => True
  | .native, .native => True
  | .proc, .proc => True
  | _, _ => False

omit hn in
theorem ETRel.refl (a : EvalTy) : ETRel norm a a := by cases a <;> simp [ETRel]

theorem c_resolveTy (hp : NoSelfParent norm w) {rec rec' : Nat → EvalTy} (hrec : ∀ u, ETRel norm (rec u) (rec' u))
    {ec : EC} (hs : ec.st.WF norm) (ty : Ty) :
    ETRel norm (resolveTy norm w rec ec ty) (resolveTy norm (cWs norm w) rec' (cEC norm ec) (cTy norm ty)) := by
  have hvc : viewCur norm (cWs norm w) (cEC norm ec).self.stem (cEC norm ec).st = cView norm (viewCur norm w ec.self.stem ec.st) :=
    c_viewCur norm hn w hp ec.self.stem ec.st
  cases ty with
  | basic id =>
    simp only [cTy, resolveTy, isNative, hn, hvc, c_index_norm norm hn, Option.isSome_map, c_searchSym norm hn w hp,
      index_case norm w (hn id)]
    by_cases h1 : ScopeGen.nativeKeys.contains (norm id) = true
    · simp only [h1, if_true]; trivial
    · simp only [h1, if_false]
      by_cases h2 : (index norm w id).isSome = true
      · simp only [h2, if_true]; simp [ETRel, hn]
      · simp only [h2, if_false]
        cases searchSym norm w ec (viewCur norm w ec.self.stem ec.st) (norm id) true with
        | some x => exact hrec _
        | none => simp [ETRel, hn]
  | refTo id =>
    simp only [cTy, resolveTy, hvc, c_index_norm norm hn, Option.isSome_map, c_searchSym norm hn w hp]
    rw [searchSym_case norm w hs (viewCur_wf norm w ec.self.stem hs) (hn id) false]
    by_cases h2 : (index norm w id).isSome = true
    · simp only [h2, if_true]; simp [ETRel, hn]
    · simp only [h2, if_false]
      cases searchSym norm w ec (viewCur norm w ec.self.stem ec.st) id false with
      | some x => exact hrec _
      | none => simp [ETRel, hn]
  | none => trivial
  | listOf => simp [cTy, resolveTy, ETRel]
  | lit => trivial
  | named n => simp [cTy, resolveTy, ETRel]
  | other => trivial

omit hn in
theorem endMethod_wf {s : St} (h : s.WF norm) : s.endMethod.WF norm := by
  rw [endMethod_eq]
  refine ⟨h.1, fun c hc => by simp at hc, ?_⟩
  intro t ht
  simp only [St.tabs, List.mem_append, Option.mem_toList] at ht
  rcases ht with ht | ht
  · exact h.2.2 t ht
  · exact h.2.1 t ht

/-- the eval type stored in a `SymbolInfo` is the same up to letter case in `w` and in `cWs w` -/
theorem c_evalUid (hp : NoSelfParent norm w) : ∀ (f uid : Nat),
    ETRel norm (evalUid norm w f uid) (evalUid norm (cWs norm w) f uid)
  | 0, _ => trivial
  | f+1, uid => by
    simp only [evalUid, c_findUid]
    cases hl : findUid w uid with
    | none => trivial
    | some loc =>
      have hent : loc.ent ∈ w := findUid_ent_mem w hl
      simp only [Option.map_some, cLoc, cDecl_kind]
      cases hk : loc.d.kind with
      | cls =>
        simp only [cDecl, cDecl_id]
        cases loc.d.ty <;> simp [cTy, ETRel]
      | mod => simp [ETRel]
      | proc => trivial
      | const => trivial
      | field | type | func | var =>
        simp only [cDecl]
        have hst : (if loc.meth then (stAt norm (cEntity norm loc.ent) loc.time).endMethod else stAt norm (cEntity norm loc.ent) loc.time)
            = cSt norm (if loc.meth then (stAt norm loc.ent loc.time).endMethod else stAt norm loc.ent loc.time) := by
          rw [c_stAt norm hn (hp loc.ent hent)]
          split
          · exact cSt_endMethod norm _
          · rfl
        rw [hst]
        have hs : (if loc.meth then (stAt norm loc.ent loc.time).endMethod else stAt norm loc.ent loc.time).WF norm := by
          split
          · exact endMethod_wf norm (stAt_wf norm _ _)
          · exact stAt_wf norm _ _
        exact c_resolveTy norm hn w hp (c_evalUid hp f) (ec := ⟨loc.ent, _⟩) hs loc.d.ty

theorem c_evalSym (hp : NoSelfParent norm w) (x : Sym) :
    ETRel norm (evalSym norm w x) (evalSym norm (cWs norm w) x) := by
  simp only [evalSym, c_evalFuel]
  exact c_evalUid norm hn w hp _ _

theorem c_resolveTerminal (hp : NoSelfParent norm w) (ec : EC) (id : String) :
    ETRel norm (resolveTerminal norm w ec id) (resolveTerminal norm (cWs norm w) (cEC norm ec) id) := by
  have hvc : viewCur norm (cWs norm w) (cEC norm ec).self.stem (cEC norm ec).st = cView norm (viewCur norm w ec.self.stem ec.st) :=
    c_viewCur norm hn w hp ec.self.stem ec.st
  simp only [resolveTerminal, hvc, c_searchSym norm hn w hp, c_service norm hn w hp]
  cases searchSym norm w ec (viewCur norm w ec.self.stem ec.st) (norm id) false with
  | some x => exact c_evalSym norm hn w hp x
  | none =>
    simp only
    cases service norm w ec (norm id) with
    | none => trivial
    | some v =>
      simp only [Option.map_some, cView]
      cases getSymbolInfo norm v.chain (norm id) with
      | some x => exact c_evalSym norm hn w hp x
      | none => trivial

theorem c_resolveCall (hp : NoSelfParent norm w) (ec : EC) (id : String) :
    ETRel norm (resolveCall norm w ec id) (resolveCall norm (cWs norm w) (cEC norm ec) id) := by
  have hvc : viewCur norm (cWs norm w) (cEC norm ec).self.stem (cEC norm ec).st = cView norm (viewCur norm w ec.self.stem ec.st) :=
    c_viewCur norm hn w hp ec.self.stem ec.st
  simp only [resolveCall, hvc, c_searchSymW norm hn w hp]
  split
  · trivial
  · split
    · trivial
    · cases searchSymW norm w ec (viewCur norm w ec.self.stem ec.st) (norm id) false with
      | some p => exact c_evalSym norm hn w hp p.2
      | none => trivial

/-- the member lookup behind a dot: with class names that fold alike, both workspaces consult the
    same chain (the exact-spelling branch and the class-index branch meet in the same table) -/
theorem c_rhsEval (h : WellFormedWs norm w) (hp : NoSelfParent norm w) (ec : EC) (he : ec.self ∈ w)
    (hc : ec.st.root.sc.cls = ec.self.name) {n n' : String} (hnn : norm n = norm n') (id : String) :
    ETRel norm (rhsEval norm w ec n id) (rhsEval norm (cWs norm w) (cEC norm ec) n' id) := by
  have hV : viewRoot norm (cWs norm w) (cEC norm ec).now (cEC norm ec).st.root = cView norm (viewRoot norm w ec.now ec.st.root) :=
    c_viewRoot norm hn w hp ec.now ec.st.root
  have hself : ∀ m, norm m = norm ec.self.name → service norm w ec m = some (viewRoot norm w ec.now ec.st.root) := by
    intro m hm
    have hidx : index norm w m = some ec.self := by rw [index_case norm w hm]; exact index_self norm h he
    simp [service, hidx, rootNow, EC.now]
  have hcls' : (cEC norm ec).st.root.sc.cls = ec.st.root.sc.cls := rfl
  -- the views both sides consult
  have key : ∃ v? : Option View,
      (if n = ec.st.root.sc.cls then some (viewRoot norm w ec.now ec.st.root) else service norm w ec n) = v? ∧
      (if n' = (cEC norm ec).st.root.sc.cls then some (viewRoot norm (cWs norm w) (cEC norm ec).now (cEC norm ec).st.root)
        else service norm (cWs norm w) (cEC norm ec) n') = v?.map (cView norm) := by
    rw [hcls', hV, c_service norm hn w hp]
    by_cases h1 : n = ec.st.root.sc.cls
    · by_cases h2 : n' = ec.st.root.sc.cls
      · exact ⟨some (viewRoot norm w ec.now ec.st.root), by simp [h1], by simp [h2]⟩
      · refine ⟨some (viewRoot norm w ec.now ec.st.root), by simp [h1], ?_⟩
        simp only [h2, if_false]
        rw [hself n' (by rw [← hnn, h1, hc])]
    · by_cases h2 : n' = ec.st.root.sc.cls
      · refine ⟨some (viewRoot norm w ec.now ec.st.root), ?_, by simp [h2]⟩
        simp only [h1, if_false]
        exact hself n (by rw [hnn, h2, hc])
      · refine ⟨service norm w ec n, by simp [h1], ?_⟩
        simp only [h2, if_false]
        simp only [service, index_case norm w hnn]
  obtain ⟨v?, h1, h2⟩ := key
  unfold rhsEval
  rw [h1, h2]
  cases v? with
  | none => trivial
  | some v =>
    simp only [Option.map_some, cView]
    cases searchWParent norm v.chain id with
    | some p => exact c_evalSym norm hn w hp p.2
    | none => trivial

/-- **eval types commute with canonicalisation** (up to the letter case of class names) -/
theorem c_evalEx (h : WellFormedWs norm w) (hp : NoSelfParent norm w) (ec : EC) (he : ec.self ∈ w)
    (hc : ec.st.root.sc.cls = ec.self.name) : ∀ (l : Ex),
    ETRel norm (evalEx norm w ec l) (evalEx norm (cWs norm w) (cEC norm ec) l)
  | .term id => by simpa [evalEx] using c_resolveTerminal norm hn w hp ec id
  | .call id => by simpa [evalEx] using c_resolveCall norm hn w hp ec id
  | .other => trivial
  | .dot l r => by
    have ih := c_evalEx h hp ec he hc l
    cases r with
    | term id =>
      simp only [evalEx]
      cases h1 : evalEx norm w ec l <;> cases h2 : evalEx norm (cWs norm w) (cEC norm ec) l <;>
        simp only [h1, h2, ETRel] at ih <;> first | trivial | exact c_rhsEval norm hn w h hp ec he hc ih id | exact ih.elim
    | call id =>
      simp only [evalEx]
      cases h1 : evalEx norm w ec l <;> cases h2 : evalEx norm (cWs norm w) (cEC norm ec) l <;>
        simp only [h1, h2, ETRel] at ih <;> first | trivial | exact c_rhsEval norm hn w h hp ec he hc ih id | exact ih.elim
    | dot x y => simp [evalEx, ETRel]
    | other => simp [evalEx, ETRel]

/-! ### once the header has been visited the root table carries the entity's name -/

def Top.plain : Top → Prop
  | .ev e => e.isHeader = false
  | .meth _ => True

omit hn in
theorem Tab.ev_cls (t : Tab) (e : Ev) : (t.ev norm e).sc.cls = t.sc.cls := by
  have : ∀ (l : List Decl) (t : Tab), (l.foldl (Tab.insert norm) t).sc.cls = t.sc.cls := by
    intro l
    induction l with
    | nil => intro t; rfl
    | cons d l ih => intro t; simp only [List.foldl_cons]; rw [ih]; rfl
  simpa [Tab.ev] using this e.decls t

omit hn in
theorem step_cls_plain (s : St) {t : Top} (h : t.plain) : (step norm s t).root.sc.cls = s.root.sc.cls := by
  cases t with
  | ev e =>
    simp only [Top.plain] at h
    cases hc : s.cur with
    | none => simp only [step, hc, hdr_plain _ h]; exact Tab.ev_cls norm _ _
    | some c => simp only [step, hc, hdr_plain _ h]
  | meth d =>
    cases hc : s.cur <;> simp [step, St.endMethod, hc, Tab.insert, Scope.insert]

omit hn in
theorem run_cls_plain : ∀ (l : List Top) (s : St), (∀ t ∈ l, t.plain) → (run norm l s).root.sc.cls = s.root.sc.cls
  | [], _, _ => rfl
  | t :: l, s, h => by
    simp only [run, List.foldl_cons]
    have := run_cls_plain l (step norm s t) (fun x hx => h x (List.mem_cons_of_mem _ hx))
    simp only [run] at this
    rw [this, step_cls_plain norm s (h t List.mem_cons_self)]

omit hn in
theorem stAt_cls {e : Entity} (h : WFEntity norm e) {t : Nat} (ht : 1 ≤ t) :
    (stAt norm e t).root.sc.cls = e.name := by
  obtain ⟨h1, h2, h3, _⟩ := h
  cases htop : e.top with
  | nil => simp [htop] at h1
  | cons hd rest =>
    simp only [htop, List.head?_cons, Option.map_some, Option.some.injEq] at h1
    simp only [htop, List.tail_cons, List.all_eq_true, Bool.not_eq_eq_eq_not, Bool.not_true] at h2
    obtain ⟨t', rfl⟩ : ∃ k, t = k + 1 := ⟨t - 1, by omega⟩
    have hstream : e.stream = Top.ev hd :: (rest.map Top.ev ++ e.methods.flatMap Method.stream) := by
      simp [Entity.stream, htop]
    have hplain : ∀ x ∈ rest.map Top.ev ++ e.methods.flatMap Method.stream, x.plain := by
      intro x hx
      rcases List.mem_append.mp hx with hx | hx
      · obtain ⟨ev, hev, rfl⟩ := List.mem_map.mp hx
        exact h2 ev hev
      · obtain ⟨m, hm, hxm⟩ := List.mem_flatMap.mp hx
        rw [Method.stream_eq] at hxm
        rcases List.mem_cons.mp hxm with rfl | hxm
        · trivial
        · obtain ⟨ev, hev, rfl⟩ := List.mem_map.mp hxm
          have hmw : m.plain := by
            have := (List.all_eq_true.mp h3) m hm
            simp only [Bool.and_eq_true, List.isEmpty_iff, List.all_eq_true, Bool.not_eq_eq_eq_not, Bool.not_true] at this
            intro ev hev
            simp only [Method.evs, this.1, List.append_nil, List.mem_append, List.mem_map] at hev
            rcases hev with ⟨d, _, rfl⟩ | hev
            · rfl
            · exact this.2 ev hev
          exact hmw ev hev
    unfold stAt
    rw [hstream, List.take_succ_cons]
    simp only [run, List.foldl_cons]
    have := run_cls_plain norm ((rest.map Top.ev ++ e.methods.flatMap Method.stream).take t') (step norm {} (Top.ev hd))
      (fun x hx => hplain x (List.mem_of_mem_take hx))
    simp only [run] at this
    rw [this]
    cases hd with
    | decl d => simp [Ev.isHeader] at h1
    | uses n => simp [Ev.isHeader] at h1
    | mod d => simp only [step, hdr, Entity.name, htop, List.head?_cons]; exact Tab.ev_cls norm _ _
    | cls d p =>
      simp only [step, Entity.name, htop, List.head?_cons]
      rw [Tab.ev_cls]
      cases p with
      | none => rfl
      | some pn => simp only [hdr]; split <;> rfl

/-! ### answers -/

omit hn in
theorem c_linkOf (p : String × Sym) : linkOf norm (cWs norm w) p = linkOf norm w p := by
  simp only [linkOf, c_index, c_findDecl]
  cases index norm w p.1 <;> cases findDecl w p.2.tag <;> rfl

theorem c_linkSingle (hp : NoSelfParent norm w) (v : View) (id : String) :
    linkSingle norm (cWs norm w) (cView norm v) id = linkSingle norm w v id := by
  unfold linkSingle
  simp only [cView, List.findSome?_map, Function.comp_def, c_serviceFin_norm norm hn w hp, c_linkOf]
  have : v.uses.findSome? (fun u => ((serviceFin norm w u).map (cView norm)).bind (fun uv => searchWParent norm uv.chain id))
      = v.uses.findSome? (fun u => (serviceFin norm w u).bind (fun uv => searchWParent norm uv.chain id)) := by
    apply findSome?_congr'
    intro u _
    cases serviceFin norm w u <;> rfl
  rw [this]

omit hn in
theorem c_linkAll (v : View) (id : String) :
    linkAll norm (cWs norm w) (cView norm v) id = linkAll norm w v id := by
  unfold linkAll
  have : (fun p => linkOf norm (cWs norm w) p) = fun p => linkOf norm w p := funext (c_linkOf norm w)
  simp only [cView, this]

omit hn in
theorem c_labels (keep : SK → Bool) (v : View) :
    labels norm (cWs norm w) keep (cView norm v) = labels norm w keep v := by
  unfold labels
  have : (fun x => (kindOf (cWs norm w) x).any keep) = fun x => (kindOf w x).any keep := by
    funext x
    simp only [kindOf, c_findDecl, Option.map_map]
    cases findDecl w x.tag <;> rfl
  simp only [cView, this]

/-- **go-to-definition commutes with canonicalisation of the references** -/
theorem c_definition (h : WellFormedWs norm w) (hp : NoSelfParent norm w) (o : Occ) (ht : 1 ≤ o.time) :
    definition norm (cWs norm w) o = definition norm w o := by
  unfold definition
  rw [c_source]
  cases hs : source w o.ent with
  | none => rfl
  | some e =>
    have he : e ∈ w := List.mem_of_find?_eq_some hs
    have hpe := hp e he
    simp only [Option.map_some]
    rw [c_annotate norm hn hpe, c_viewScope norm hn w hp]
    have hroot : viewRoot norm (cWs norm w) none (cSt norm (annotate norm e)).root
        = cView norm (viewRoot norm w none (annotate norm e).root) := by
      have := c_viewRoot norm hn w hp none (annotate norm e).root
      simp only [cNow, Option.map_none] at this
      exact this
    cases hc : o.ctx with
    | plain id? => cases id? <;> simp only [c_linkSingle norm hn w hp]
    | left id? => cases id? <;> simp only [c_linkSingle norm hn w hp]
    | own id? => cases id? <;> simp only [hroot, c_linkAll]
    | right l id? =>
      cases id? with
      | none => rfl
      | some id =>
        simp only
        have hec : (⟨cEntity norm e, stAt norm (cEntity norm e) o.time⟩ : EC) = cEC norm ⟨e, stAt norm e o.time⟩ := by
          simp only [cEC, c_stAt norm hn hpe]
        rw [hec]
        have hrel := c_evalEx norm hn w h hp ⟨e, stAt norm e o.time⟩ he (stAt_cls norm (h.2.1 e he) ht) l
        have hlinks : ∀ n n', norm n = norm n' →
            rhsLinks norm (cWs norm w) (cEntity norm e) (viewRoot norm (cWs norm w) none (cSt norm (annotate norm e)).root) n' id
              = rhsLinks norm w e (viewRoot norm w none (annotate norm e).root) n id := by
          intro n n' hnn
          unfold rhsLinks
          rw [c_index, ← index_case norm w hnn]
          cases hi : index norm w n with
          | none => rfl
          | some t =>
            simp only [Option.map_some]
            have ht' : t ∈ w := index_mem norm w hi
            have hst : (cEntity norm t).stem = t.stem := rfl
            have hse : (cEntity norm e).stem = e.stem := rfl
            rw [hst, hse, hroot, c_rootOf norm hn (hp t ht')]
            have hv := c_viewRoot norm hn w hp none (rootOf norm t)
            simp only [cNow, Option.map_none] at hv
            rw [hv]
            split <;> exact c_linkAll norm w _ id
        cases h1 : evalEx norm w ⟨e, stAt norm e o.time⟩ l <;>
          cases h2 : evalEx norm (cWs norm w) (cEC norm ⟨e, stAt norm e o.time⟩) l <;>
          simp only [h1, h2, ETRel] at hrel <;> first | rfl | exact hlinks _ _ hrel | exact hrel.elim

/-- **completion commutes with canonicalisation of the references** -/
theorem c_completion (h : WellFormedWs norm w) (hp : NoSelfParent norm w) (o : COcc) (ht : 1 ≤ o.time) :
    completion norm (cWs norm w) o = completion norm w o := by
  unfold completion
  rw [c_source]
  cases hs : source w o.ent with
  | none => rfl
  | some e =>
    have he : e ∈ w := List.mem_of_find?_eq_some hs
    have hpe := hp e he
    simp only [Option.map_some]
    rw [c_annotate norm hn hpe, c_viewScope norm hn w hp]
    have hroot : viewRoot norm (cWs norm w) none (cSt norm (annotate norm e)).root
        = cView norm (viewRoot norm w none (annotate norm e).root) := by
      have := c_viewRoot norm hn w hp none (annotate norm e).root
      simp only [cNow, Option.map_none] at this
      exact this
    cases hc : o.ctx with
    | lhs => simp only [c_labels]
    | rhs l =>
      simp only
      have hec : (⟨cEntity norm e, stAt norm (cEntity norm e) o.time⟩ : EC) = cEC norm ⟨e, stAt norm e o.time⟩ := by
        simp only [cEC, c_stAt norm hn hpe]
      rw [hec]
      have hrel := c_evalEx norm hn w h hp ⟨e, stAt norm e o.time⟩ he (stAt_cls norm (h.2.1 e he) ht) l
      have hlab : ∀ n n', norm n = norm n' →
          rhsLabels norm (cWs norm w) (cEntity norm e) (viewRoot norm (cWs norm w) none (cSt norm (annotate norm e)).root) n'
            = rhsLabels norm w e (viewRoot norm w none (annotate norm e).root) n := by
        intro n n' hnn
        unfold rhsLabels
        rw [c_index, ← index_case norm w hnn]
        cases hi : index norm w n with
        | none => rfl
        | some t =>
          simp only [Option.map_some]
          have ht' : t ∈ w := index_mem norm w hi
          have hst : (cEntity norm t).stem = t.stem := rfl
          have hse : (cEntity norm e).stem = e.stem := rfl
          rw [hst, hse, hroot, c_rootOf norm hn (hp t ht')]
          have hv := c_viewRoot norm hn w hp none (rootOf norm t)
          simp only [cNow, Option.map_none] at hv
          rw [hv]
          split <;> exact c_labels norm w _ _
      cases h1 : evalEx norm w ⟨e, stAt norm e o.time⟩ l <;>
        cases h2 : evalEx norm (cWs norm w) (cEC norm ⟨e, stAt norm e o.time⟩) l <;>
        simp only [h1, h2, ETRel] at hrel <;> first | rfl | exact hlab _ _ hrel | exact hrel.elim

end Gold.Scope
