import GoldModel.Lemmas.BigStep
/-!
Big-step rules for the combinators the statement and declaration parsers use on top of those of
`Lemmas/BigStep.lean`: `opt`, `check`, `ifTok`, `ifEof`, `recover`, `dep`, `emit`, `reslice`,
`prepend`.  The rules that coincide with those of `Lemmas/BigStep.lean` are stated through them (kept under the `s_` names the
program proofs use); the others are derived from `runP`.  Every rule and keeps the discipline of `Parses`/`Fails`: the run
it describes emitted NO diagnostic.  `SFailsAt g ts e` (`FailsAt g ts` of `Lemmas/BigStep.lean` is the case `e = ts`) additionally records the position the error
points at (what `recover` resumes from).
-/
namespace Gold.Gram
open Gold Gold.Peg

/-- `g` fails on `ts` at position `e`, silently -/
def SFailsAt (g : G) (ts e : List Tok) : Prop := ∃ f m, runP Γ Δ f g ts = (.err e m, [])

theorem SFailsAt.fails {g : G} {ts e : List Tok} (h : SFailsAt g ts e) : Fails g ts := by
  obtain ⟨f, m, h⟩ := h
  exact ⟨f, e, m, h⟩

/-- replace the value by an equal one -/
theorem Parses.s_to {g : G} {ts r : List Tok} {v v' : Tree} (h : Parses g ts r v) (e : v = v') : Parses g ts r v' := e ▸ h

/-! ### `opt` -/

theorem Parses.s_opt {a : G} {ts r : List Tok} {v : Tree} (h : Parses a ts r v) : Parses (.opt a) ts r v :=
  Parses.opt_some h

theorem Parses.s_opt_none {a : G} {ts : List Tok} (h : Fails a ts) : Parses (.opt a) ts ts Tree.none :=
  Parses.opt_none h

/-! ### `check`, `prepend`, `emit` -/

theorem Parses.s_check {p : Tree → Bool} {msg : String} {g : G} {ts r : List Tok} {v : Tree}
    (h : Parses g ts r v) (hp : p v = true) : Parses (.check p msg g) ts r v :=
  Parses.check h hp

theorem Fails.s_check {p : Tree → Bool} {msg : String} {g : G} {ts : List Tok} (h : Fails g ts) :
    Fails (.check p msg g) ts :=
  Fails.check1 h

theorem Parses.s_prepend {s : String} {g : G} {ts r : List Tok} {v : Tree} (h : Parses g ts r v) :
    Parses (.prepend s g) ts r v := by
  obtain ⟨f, h⟩ := h
  exact ⟨f + 1, by simp only [runP, h]⟩

theorem Fails.s_prepend {s : String} {g : G} {ts : List Tok} (h : Fails g ts) : Fails (.prepend s g) ts := by
  obtain ⟨f, e, m, h⟩ := h
  exact ⟨f + 1, e, s ++ m, by simp only [runP, h]⟩

/-- `emit` adds nothing when its function yields no diagnostic for the value -/
theorem Parses.s_emit {fn : Tree → Option Diag} {g : G} {ts r : List Tok} {v : Tree}
    (h : Parses g ts r v) (hn : fn v = none) : Parses (.emit fn g) ts r v := by
  obtain ⟨f, h⟩ := h
  exact ⟨f + 1, by simp only [runP, h, hn, Option.toList, List.append_nil]⟩

theorem Fails.s_emit {fn : Tree → Option Diag} {g : G} {ts : List Tok} (h : Fails g ts) : Fails (.emit fn g) ts := by
  obtain ⟨f, e, m, h⟩ := h
  exact ⟨f + 1, e, m, by simp only [runP, h]⟩

/-! ### `ifTok`, `ifEof` -/

theorem Parses.s_ifTok_hit {ks : List Kind} {a b : G} {t : Tok} {rest r : List Tok} {v : Tree}
    (hc : t.kind ≠ Kind.Comment) (hk : ks.contains t.kind = true) (h : Parses a rest r v) :
    Parses (.ifTok ks a b) (t :: rest) r (Tree.seq [.leaf t, v]) :=
  Parses.ifTok_hit (firstReal_cons hc) hk h

theorem Fails.s_ifTok_hit {ks : List Kind} {a b : G} {t : Tok} {rest : List Tok}
    (hc : t.kind ≠ Kind.Comment) (hk : ks.contains t.kind = true) (h : Fails a rest) :
    Fails (.ifTok ks a b) (t :: rest) := by
  obtain ⟨f, e, m, h⟩ := h
  exact ⟨f + 1, e, m, by simp only [runP, firstReal_cons hc, hk, ↓reduceIte, h]⟩

theorem Parses.s_ifTok_miss {ks : List Kind} {a b : G} {t : Tok} {rest r : List Tok} {v : Tree}
    (hc : t.kind ≠ Kind.Comment) (hk : ks.contains t.kind = false) (h : Parses b (t :: rest) r v) :
    Parses (.ifTok ks a b) (t :: rest) r v :=
  Parses.ifTok_miss (firstReal_cons hc) hk h

theorem Fails.s_ifTok_miss {ks : List Kind} {a b : G} {t : Tok} {rest : List Tok}
    (hc : t.kind ≠ Kind.Comment) (hk : ks.contains t.kind = false) (h : Fails b (t :: rest)) :
    Fails (.ifTok ks a b) (t :: rest) := by
  obtain ⟨f, e, m, h⟩ := h
  exact ⟨f + 1, e, m, by simp only [runP, firstReal_cons hc, hk, Bool.false_eq_true, ↓reduceIte, h]⟩

theorem Parses.s_ifTok_nil {ks : List Kind} {a b : G} {r : List Tok} {v : Tree} (h : Parses b [] r v) :
    Parses (.ifTok ks a b) [] r v :=
  Parses.ifTok_none rfl h

theorem Parses.s_ifEof_nil {a b : G} {r : List Tok} {v : Tree} (h : Parses a [] r v) : Parses (.ifEof a b) [] r v :=
  Parses.ifEof_nil h

theorem Parses.s_ifEof_cons {a b : G} {t : Tok} {ts r : List Tok} {v : Tree} (h : Parses b (t :: ts) r v) :
    Parses (.ifEof a b) (t :: ts) r v :=
  Parses.ifEof_cons h

theorem Fails.s_ifEof_cons {a b : G} {t : Tok} {ts : List Tok} (h : Fails b (t :: ts)) : Fails (.ifEof a b) (t :: ts) :=
  Fails.ifEof_cons h

/-! ### `recover`: on well-formed input it does not fire -/

theorem Parses.s_recover {m : RecMode} {g : G} {ts r : List Tok} {v : Tree} (h : Parses g ts r v) :
    Parses (.recover m g) ts r v :=
  Parses.recover h

/-- the silent mode (`match p(next) { Err(e) => (e.input, default) }`) resumes at the error position -/
theorem Parses.s_recover_silent {g : G} {ts e : List Tok} (h : SFailsAt g ts e) :
    Parses (.recover .silentAt g) ts e Tree.none := by
  obtain ⟨f, m, h⟩ := h
  exact ⟨f + 1, by simp only [runP, h, recoverStep, List.append_nil]⟩

/-! ### `dep` -/

theorem Parses.s_dep_yes {a b : G} {test : Tree → Bool} {ts r r2 : List Tok} {va vb : Tree}
    (ha : Parses a ts r va) (ht : test va = true) (hb : Parses b r r2 vb) :
    Parses (.dep a test b) ts r2 (Tree.seq [va, vb]) :=
  Parses.dep_yes ha ht hb

theorem Parses.s_dep_no {a b : G} {test : Tree → Bool} {ts r : List Tok} {va : Tree}
    (ha : Parses a ts r va) (ht : test va = false) : Parses (.dep a test b) ts r (Tree.seq [va, Tree.none]) :=
  Parses.dep_no ha ht

theorem Fails.s_dep1 {a b : G} {test : Tree → Bool} {ts : List Tok} (ha : Fails a ts) : Fails (.dep a test b) ts :=
  Fails.dep1 ha

/-! ### `reslice`: the cut-out body is parsed on its own -/

/-- the value `reslice` records for the stop token -/
def endVal : Option Tok → Tree
  | some t => Tree.leaf t
  | none => Tree.none

theorem Parses.s_reslice_empty {ks : List Kind} {inner : G} {ts rest : List Tok} {e : Option Tok}
    (hs : takeUntil ks ts = (rest, [], e)) :
    Parses (.reslice ks inner) ts rest (Tree.seq [Tree.none, endVal e, sliceNode []]) := by
  cases e <;> exact ⟨1, by simp only [runP, hs, endVal]⟩

theorem Parses.s_reslice {ks : List Kind} {inner : G} {ts rest : List Tok} {b0 : Tok} {bs r' : List Tok}
    {e : Option Tok} {v : Tree}
    (hs : takeUntil ks ts = (rest, b0 :: bs, e)) (h : Parses inner (b0 :: bs) r' v) :
    Parses (.reslice ks inner) ts rest (Tree.seq [v, endVal e, sliceNode (b0 :: bs)]) := by
  obtain ⟨f, h⟩ := h
  cases e <;> exact ⟨f + 1, by simp only [runP, hs, h, endVal]⟩

/-- `take_until` used as a skipper (annotations) -/
theorem Parses.s_skipTo {ks : List Kind} {ts rest body : List Tok} {e : Option Tok}
    (hs : takeUntil ks ts = (rest, body, e)) : Parses (.skipTo ks) ts rest (endVal e) := by
  cases e <;> exact ⟨1, by simp only [runP, hs, endVal]⟩

/-! ### errors with their position (for `recover .silentAt` on an empty list: `( )`) -/

theorem SFailsAt.tok {k : Kind} {t : Tok} {r : List Tok} (h : t.kind ≠ k) (hc : t.kind ≠ Kind.Comment) :
    SFailsAt (.tok k) (t :: r) (t :: r) := by
  obtain ⟨m, hm⟩ := expTok_miss (r := r) h hc
  exact ⟨1, m, by simp [runP, hm]⟩

theorem SFailsAt.alt {a b : G} {ts e : List Tok} (ha : SFailsAt a ts e) (hb : SFailsAt b ts e) : SFailsAt (.alt a b) ts e := by
  obtain ⟨f1, m1, h1⟩ := ha
  obtain ⟨f2, m2, h2⟩ := hb
  exact ⟨max f1 f2 + 1, m1, by
    simp only [runP, lift_err h1 (Nat.le_max_left f1 f2), lift_err h2 (Nat.le_max_right f1 f2), List.append_nil,
      Nat.lt_irrefl, gt_iff_lt, ↓reduceIte]⟩

theorem SFailsAt.altL {gs : List G} {ts : List Tok} (hne : gs ≠ []) (h : ∀ a ∈ gs, SFailsAt a ts ts) : SFailsAt (altL gs) ts ts := by
  induction gs with
  | nil => exact absurd rfl hne
  | cons a rest ih =>
    cases rest with
    | nil => exact h a List.mem_cons_self
    | cons b rest2 =>
      rw [altL_cons2]
      exact SFailsAt.alt (h a List.mem_cons_self) (ih (by simp) (fun x hx => h x (List.mem_cons_of_mem _ hx)))

theorem SFailsAt.toks {ks : List Kind} {t : Tok} {r : List Tok} (hne : ks ≠ []) (h : t.kind ∉ ks) (hc : t.kind ≠ Kind.Comment) :
    SFailsAt (toks ks) (t :: r) (t :: r) := by
  unfold Gram.toks
  refine SFailsAt.altL (by simpa using hne) ?_
  intro a ha
  obtain ⟨k, hk, rfl⟩ := List.mem_map.mp ha
  exact SFailsAt.tok (fun e => h (e ▸ hk)) hc

theorem SFailsAt.map {fn : Tree → Tree} {g : G} {ts e : List Tok} (h : SFailsAt g ts e) : SFailsAt (.map fn g) ts e := by
  obtain ⟨f, m, h⟩ := h
  exact ⟨f + 1, m, by simp only [runP, h]⟩

theorem SFailsAt.seq1 {a b : G} {ts e : List Tok} (ha : SFailsAt a ts e) : SFailsAt (.seq a b) ts e := by
  obtain ⟨f, m, h⟩ := ha
  exact ⟨f + 1, m, by simp only [runP, h]⟩

theorem SFailsAt.seq2 {a b : G} {ts r e : List Tok} {va : Tree} (ha : Parses a ts r va) (hb : SFailsAt b r e) :
    SFailsAt (.seq a b) ts e := by
  obtain ⟨f1, h1⟩ := ha
  obtain ⟨f2, m, h2⟩ := hb
  refine ⟨max f1 f2 + 1, m, ?_⟩
  simp only [runP, lift_ok h1 (Nat.le_max_left f1 f2), lift_err h2 (Nat.le_max_right f1 f2), List.append_nil]

theorem SFailsAt.seqL {pre : List G} {g : G} {post : List G} {ts r e : List Tok} {vs : List Tree}
    (hpre : ParsesList pre ts r vs) (hg : SFailsAt g r e) : SFailsAt (seqL (pre ++ g :: post)) ts e := by
  induction hpre with
  | nil =>
    cases post with
    | nil => exact SFailsAt.map hg
    | cons p ps => rw [List.nil_append, seqL_cons2]; exact SFailsAt.map (SFailsAt.seq1 hg)
  | @cons a gs ts r r2 v vs ha hrest ih =>
    have := ih hg
    cases hp : gs ++ g :: post with
    | nil => simp at hp
    | cons x xs =>
      rw [List.cons_append, hp, seqL_cons2]
      rw [hp] at this
      exact SFailsAt.map (SFailsAt.seq2 ha this)

end Gold.Gram
