import GoldModel.Model.Pool
/-!
# Lemmas for M-POOL: three inductive invariants of the worker-pool transition system

* `InvLock`  — the receiver lock is held exactly by the worker that is in `locked` / `got`;
* `InvCnt`   — multiset accounting of job ids (no id is lost or duplicated by the protocol);
* `InvDrain` — FIFO + one `Terminate` per worker: once a worker has seen `Terminate` the
  queue holds no job; joined workers have exited; `Terminate`s sent = in queue + consumed.

Each is proved for every pool size, every job list and every interleaving (induction over
`Reachable`).  The last section has the ingredients of the liveness side (`worker_can_move`:
after all `Terminate`s are out some worker step is always enabled; `potential`: a measure
that every step lowers once `drop` has begun).  The property theorems that follow from them are in `Props/C20.lean`.
-/
namespace Gold.Pool

/-! ## classification of worker pcs -/

/-- the receiver guard is alive in this pc -/
def WPc.holdsLock : WPc → Bool
  | .locked => true
  | .got _ => true
  | _ => false

/-- the worker has received `Terminate` (and will never touch the queue again) -/
def WPc.pastTerm : WPc → Bool
  | .got .term => true
  | .ready .term => true
  | .exited => true
  | _ => false

/-- job `k` has been received by this worker and not yet been started -/
def WPc.holdsJob (k : Nat) : WPc → Bool
  | .got (.job j) => j == k
  | .ready (.job j) => j == k
  | _ => false

/-- the worker is inside the closure of job `k` -/
def WPc.runs (k : Nat) : WPc → Bool
  | .running j => j == k
  | _ => false

/-! ## list helpers -/

theorem lt_of_getElem? {α} {l : List α} {i : Nat} {x : α} (h : l[i]? = some x) : i < l.length := by
  rcases Nat.lt_or_ge i l.length with h1 | h1
  · exact h1
  · simp [List.getElem?_eq_none h1] at h

theorem get_set_ne {ws : List WPc} {w v : Nat} {x : WPc} (h : w ≠ v) : (ws.set w x)[v]? = ws[v]? := by
  simp [h]

theorem get_set_eq {ws : List WPc} {w : Nat} {x y : WPc} (h : ws[w]? = some y) : (ws.set w x)[w]? = some x := by
  simp [lt_of_getElem? h]

/-- replacing element `i` (which was `old`) by `new` moves exactly one unit of any count -/
theorem countP_set_add {α} (p : α → Bool) : ∀ (l : List α) (i : Nat) (old new : α), l[i]? = some old →
    List.countP p (l.set i new) + (if p old then 1 else 0) = List.countP p l + (if p new then 1 else 0)
  | [], i, _, _, h => by simp at h
  | x :: xs, 0, old, new, h => by
    simp at h; subst h
    simp only [List.set_cons_zero, List.countP_cons]; omega
  | x :: xs, i + 1, old, new, h => by
    simp at h
    have := countP_set_add p xs i old new h
    simp only [List.set_cons_succ, List.countP_cons]; omega

/-- a pc that is `exited` is not the one a worker step rewrites -/
theorem exited_stays {ws : List WPc} {w v : Nat} {x y : WPc} (h : ws[w]? = some y) (hy : y ≠ .exited)
    (hv : ws[v]? = some .exited) : (ws.set w x)[v]? = some .exited := by
  by_cases e : w = v
  · subst e; rw [h] at hv; exact absurd (Option.some.inj hv) hy
  · rw [get_set_ne e]; exact hv

theorem countP_pos_of_get {ws : List WPc} {p : WPc → Bool} {w : Nat} {x : WPc} (h : ws[w]? = some x) (hp : p x = true) :
    0 < List.countP p ws := by
  rw [List.countP_pos_iff]
  exact ⟨x, List.mem_of_getElem? h, hp⟩

/-! ## invariant 1: multiset accounting of job ids -/

structure InvCnt (s : St) : Prop where
  cnt1 : ∀ j, s.submitted.count j = s.queue.count (.job j) + s.ws.countP (WPc.holdsJob j) + s.started.count j
  cnt2 : ∀ j, s.started.count j = s.ws.countP (WPc.runs j) + s.finished.count j

theorem invCnt_init (n : Nat) : InvCnt (init n) := by
  constructor <;> intro j <;> simp [init, List.countP_replicate, WPc.holdsJob, WPc.runs]

theorem invCnt_step {n : Nat} {s s' : St} {e : Event} (hs : Step n s e s') (I : InvCnt s) : InvCnt s' := by
  cases hs with
  | submit j h =>
    constructor
    · intro k; have := I.cnt1 k; simp [List.count_cons, List.count_append] at this ⊢; omega
    · exact I.cnt2
  | dropBegin h => exact ⟨I.cnt1, I.cnt2⟩
  | sendTerm k h hk =>
    constructor
    · intro k; have := I.cnt1 k; simp [List.count_append] at this ⊢; omega
    · exact I.cnt2
  | joined w h hw he => exact ⟨I.cnt1, I.cnt2⟩
  | dropEnd h => exact ⟨I.cnt1, I.cnt2⟩
  | lock w hi hl =>
    constructor
    · intro k; have := I.cnt1 k
      have e1 := countP_set_add (WPc.holdsJob k) s.ws w _ .locked hi
      simp [WPc.holdsJob] at e1 ⊢; omega
    · intro k; have := I.cnt2 k
      have e1 := countP_set_add (WPc.runs k) s.ws w _ .locked hi
      simp [WPc.runs] at e1 ⊢; omega
  | recvJob w j q hw hq =>
    constructor
    · intro k; have := I.cnt1 k
      have e1 := countP_set_add (WPc.holdsJob k) s.ws w _ (.got (.job j)) hw
      simp [WPc.holdsJob, hq, List.count_cons] at e1 this ⊢; omega
    · intro k; have := I.cnt2 k
      have e1 := countP_set_add (WPc.runs k) s.ws w _ (.got (.job j)) hw
      simp [WPc.runs] at e1 ⊢; omega
  | recvTerm w q hw hq =>
    constructor
    · intro k; have := I.cnt1 k
      have e1 := countP_set_add (WPc.holdsJob k) s.ws w _ (.got .term) hw
      simp [WPc.holdsJob, hq] at e1 this ⊢; omega
    · intro k; have := I.cnt2 k
      have e1 := countP_set_add (WPc.runs k) s.ws w _ (.got .term) hw
      simp [WPc.runs] at e1 ⊢; omega
  | unlock w m hw =>
    constructor
    · intro k; have := I.cnt1 k
      have e1 := countP_set_add (WPc.holdsJob k) s.ws w _ (.ready m) hw
      cases m <;> simp [WPc.holdsJob] at e1 ⊢ <;> omega
    · intro k; have := I.cnt2 k
      have e1 := countP_set_add (WPc.runs k) s.ws w _ (.ready m) hw
      simp [WPc.runs] at e1 ⊢; omega
  | start w j hw =>
    constructor
    · intro k; have := I.cnt1 k
      have e1 := countP_set_add (WPc.holdsJob k) s.ws w _ (.running j) hw
      simp [WPc.holdsJob, List.count_cons] at e1 ⊢; omega
    · intro k; have := I.cnt2 k
      have e1 := countP_set_add (WPc.runs k) s.ws w _ (.running j) hw
      simp [WPc.runs, List.count_cons] at e1 ⊢; omega
  | finish w j hw =>
    constructor
    · intro k; have := I.cnt1 k
      have e1 := countP_set_add (WPc.holdsJob k) s.ws w _ .idle hw
      simp [WPc.holdsJob] at e1 ⊢; omega
    · intro k; have := I.cnt2 k
      have e1 := countP_set_add (WPc.runs k) s.ws w _ .idle hw
      simp [WPc.runs, List.count_cons] at e1 ⊢; omega
  | exit w hw =>
    constructor
    · intro k; have := I.cnt1 k
      have e1 := countP_set_add (WPc.holdsJob k) s.ws w _ .exited hw
      simp [WPc.holdsJob] at e1 ⊢; omega
    · intro k; have := I.cnt2 k
      have e1 := countP_set_add (WPc.runs k) s.ws w _ .exited hw
      simp [WPc.runs] at e1 ⊢; omega


/-! ## invariant 2: who holds the receiver lock -/

structure InvLock (n : Nat) (s : St) : Prop where
  len   : s.ws.length = n
  holdA : ∀ w, s.holder = some w → ∃ pc, s.ws[w]? = some pc ∧ pc.holdsLock = true
  holdB : ∀ w pc, s.ws[w]? = some pc → pc.holdsLock = true → s.holder = some w

theorem invLock_init (n : Nat) : InvLock n (init n) := by
  refine ⟨by simp [init], by simp [init], ?_⟩
  intro w pc h hp
  simp [init, List.getElem?_replicate] at h
  rcases h with ⟨_, rfl⟩
  simp [WPc.holdsLock] at hp

/-- a worker step `old ↦ new` at `w` that does not change who holds the lock -/
theorem invLock_set_same {n : Nat} {s : St} {w : Nat} {old new : WPc} (I : InvLock n s)
    (hw : s.ws[w]? = some old) (hsame : new.holdsLock = old.holdsLock) :
    InvLock n { s with ws := s.ws.set w new } := by
  refine ⟨by simp [I.len], ?_, ?_⟩
  · intro v hv
    obtain ⟨pc, h1, h2⟩ := I.holdA v hv
    by_cases e : w = v
    · subst e; rw [hw] at h1; cases h1
      exact ⟨new, get_set_eq hw, by rw [hsame]; exact h2⟩
    · exact ⟨pc, by simp only; rw [get_set_ne e]; exact h1, h2⟩
  · intro v pc h1 h2
    by_cases e : w = v
    · subst e
      simp only at h1; rw [get_set_eq hw] at h1; cases h1
      exact I.holdB w old hw (by rw [← hsame]; exact h2)
    · simp only at h1; rw [get_set_ne e] at h1; exact I.holdB v pc h1 h2

theorem invLock_step {n : Nat} {s s' : St} {e : Event} (hs : Step n s e s') (I : InvLock n s) : InvLock n s' := by
  cases hs with
  | submit j h => exact ⟨I.len, I.holdA, I.holdB⟩
  | dropBegin h => exact ⟨I.len, I.holdA, I.holdB⟩
  | sendTerm k h hk => exact ⟨I.len, I.holdA, I.holdB⟩
  | joined w h hw he => exact ⟨I.len, I.holdA, I.holdB⟩
  | dropEnd h => exact ⟨I.len, I.holdA, I.holdB⟩
  | lock w hi hl =>
    refine ⟨by simp [I.len], ?_, ?_⟩
    · intro v hv; simp at hv; subst hv
      exact ⟨.locked, get_set_eq hi, rfl⟩
    · intro v pc h1 h2
      by_cases e : w = v
      · subst e; rfl
      · simp only at h1; rw [get_set_ne e] at h1
        have := I.holdB v pc h1 h2
        rw [hl] at this; cases this
  | recvJob w j q hw hq => exact invLock_set_same (s := { s with queue := q }) ⟨I.len, I.holdA, I.holdB⟩ hw rfl
  | recvTerm w q hw hq => exact invLock_set_same (s := { s with queue := q }) ⟨I.len, I.holdA, I.holdB⟩ hw rfl
  | unlock w m hw =>
    have hh : s.holder = some w := I.holdB w _ hw rfl
    refine ⟨by simp [I.len], by simp, ?_⟩
    intro v pc h1 h2
    by_cases e : w = v
    · subst e; simp only at h1; rw [get_set_eq hw] at h1; cases h1; simp [WPc.holdsLock] at h2
    · simp only at h1; rw [get_set_ne e] at h1
      have := I.holdB v pc h1 h2
      rw [hh] at this; cases this; exact absurd rfl e
  | start w j hw => exact invLock_set_same (s := { s with started := j :: s.started }) ⟨I.len, I.holdA, I.holdB⟩ hw rfl
  | finish w j hw => exact invLock_set_same (s := { s with finished := j :: s.finished }) ⟨I.len, I.holdA, I.holdB⟩ hw rfl
  | exit w hw => exact invLock_set_same I hw rfl


/-! ## invariant 3: FIFO, one `Terminate` per worker, joins -/

/-- after the first `term`, only `term`s -/
def TermsSuffix : List Msg → Prop
  | [] => True
  | .job _ :: q => TermsSuffix q
  | .term :: q => ∀ m ∈ q, m = .term

theorem tsfx_tail {m : Msg} {q : List Msg} (h : TermsSuffix (m :: q)) : TermsSuffix q := by
  cases m with
  | job j => exact h
  | term =>
    cases q with
    | nil => trivial
    | cons x xs =>
      have hx : x = .term := h x (by simp)
      subst hx
      intro m hm; exact h m (by simp [hm])

theorem tsfx_append_term {q : List Msg} (h : TermsSuffix q) : TermsSuffix (q ++ [.term]) := by
  induction q with
  | nil => intro m hm; simp at hm
  | cons x xs ih =>
    cases x with
    | job j => exact ih h
    | term =>
      intro m hm
      simp at hm
      cases hm with
      | inl h1 => exact h m h1
      | inr h2 => exact h2

theorem tsfx_append_job {q : List Msg} {j : Nat} (h : ∀ m ∈ q, m ≠ .term) : TermsSuffix (q ++ [.job j]) := by
  induction q with
  | nil => trivial
  | cons x xs ih =>
    cases x with
    | job k => exact ih (fun m hm => h m (by simp [hm]))
    | term => exact absurd rfl (h .term (by simp))

/-- number of `Terminate`s the main thread has sent so far -/
def termsSent (n : Nat) : MPc → Nat
  | .submitting => 0
  | .terms k => k
  | .joining _ => n
  | .done => n

structure InvDrain (n : Nat) (s : St) : Prop where
  len   : s.ws.length = n
  tsfx  : TermsSuffix s.queue
  noJob : 0 < s.ws.countP WPc.pastTerm → ∀ m ∈ s.queue, m = .term
  joinW : ∀ w, s.main = .joining w → ∀ v, v < w → s.ws[v]? = some .exited
  doneW : s.main = .done → ∀ v, v < n → s.ws[v]? = some .exited
  tcnt  : s.queue.count .term + s.ws.countP WPc.pastTerm = termsSent n s.main
  kle   : ∀ k, s.main = .terms k → k ≤ n

theorem invDrain_init (n : Nat) : InvDrain n (init n) := by
  refine ⟨by simp [init], trivial, ?_, ?_, ?_, ?_, ?_⟩
  · intro _ m hm; simp [init] at hm
  · intro w h; simp [init] at h
  · intro h; simp [init] at h
  · simp [init, List.countP_replicate, WPc.pastTerm, termsSent]
  · intro k h; simp [init] at h

/-- worker step `old ↦ new` at `w` with unchanged queue and main pc, where neither the
    "has seen Terminate" status changes nor `old` was `exited` -/
theorem invDrain_set_same {n : Nat} {s s' : St} {w : Nat} {old new : WPc} (I : InvDrain n s)
    (hw : s.ws[w]? = some old) (hsame : new.pastTerm = old.pastTerm) (hold : old ≠ .exited)
    (hq : s'.queue = s.queue) (hm : s'.main = s.main) (hws : s'.ws = s.ws.set w new) : InvDrain n s' := by
  have hc : s'.ws.countP WPc.pastTerm = s.ws.countP WPc.pastTerm := by
    have := countP_set_add WPc.pastTerm s.ws w old new hw
    rw [hws, hsame] at *; omega
  refine ⟨by simp [hws, I.len], by rw [hq]; exact I.tsfx, ?_, ?_, ?_, ?_, ?_⟩
  · rw [hc, hq]; exact I.noJob
  · intro w' hw' v hv; rw [hws]; rw [hm] at hw'; exact exited_stays hw hold (I.joinW w' hw' v hv)
  · intro hd v hv; rw [hws]; rw [hm] at hd; exact exited_stays hw hold (I.doneW hd v hv)
  · rw [hc, hq, hm]; exact I.tcnt
  · rw [hm]; exact I.kle

theorem invDrain_step {n : Nat} {s s' : St} {e : Event} (hs : Step n s e s') (I : InvDrain n s) : InvDrain n s' := by
  cases hs with
  | submit j h =>
    have ht := I.tcnt; rw [h] at ht; simp only [termsSent] at ht
    have hq0 : s.queue.count .term = 0 := by omega
    have hp0 : s.ws.countP WPc.pastTerm = 0 := by omega
    have hnt : ∀ m ∈ s.queue, m ≠ .term := by
      intro m hm e; subst e; exact (List.count_eq_zero.mp hq0) hm
    refine ⟨I.len, tsfx_append_job hnt, ?_, ?_, ?_, ?_, ?_⟩
    · intro hp; exact absurd hp (by simp only; omega)
    · intro w hw; simp [h] at hw
    · intro hd; simp [h] at hd
    · show (s.queue ++ [Msg.job j]).count Msg.term + s.ws.countP WPc.pastTerm = termsSent n s.main
      have : [Msg.job j].count .term = 0 := by simp
      rw [List.count_append, h]; simp only [termsSent]; omega
    · intro k hk; simp [h] at hk
  | dropBegin h =>
    have ht := I.tcnt; rw [h] at ht; simp only [termsSent] at ht
    refine ⟨I.len, I.tsfx, I.noJob, ?_, ?_, ?_, ?_⟩
    · intro w hw; simp at hw
    · intro hd; simp at hd
    · simp only [termsSent]; omega
    · intro k hk; simp at hk; omega
  | sendTerm k h hk =>
    have ht := I.tcnt; rw [h] at ht; simp only [termsSent] at ht
    refine ⟨I.len, tsfx_append_term I.tsfx, ?_, ?_, ?_, ?_, ?_⟩
    · intro hp m hm
      simp at hm
      cases hm with
      | inl h1 => exact I.noJob hp m h1
      | inr h2 => exact h2
    · intro w hw; simp at hw
    · intro hd; simp at hd
    · show (s.queue ++ [Msg.term]).count Msg.term + s.ws.countP WPc.pastTerm = k + 1
      have : [Msg.term].count .term = 1 := by simp
      rw [List.count_append]; omega
    · intro k' hk'; simp at hk'; omega
  | joined w h hw he =>
    have ht := I.tcnt
    have hn : termsSent n s.main = n := by
      rcases h with h | ⟨h, _⟩ <;> simp [h, termsSent]
    refine ⟨I.len, I.tsfx, I.noJob, ?_, ?_, ?_, ?_⟩
    · intro w' hw' v hv
      simp at hw'
      subst hw'
      rcases Nat.lt_or_ge v w with h1 | h1
      · rcases h with h | ⟨_, h0⟩
        · exact I.joinW w h v h1
        · omega
      · have : v = w := by omega
        subst this; exact he
    · intro hd; simp at hd
    · simp only [termsSent]; omega
    · intro k hk; simp at hk
  | dropEnd h =>
    have ht := I.tcnt; rw [h] at ht; simp only [termsSent] at ht
    refine ⟨I.len, I.tsfx, I.noJob, ?_, ?_, ?_, ?_⟩
    · intro w hw; simp at hw
    · intro _ v hv; exact I.joinW n h v hv
    · simp only [termsSent]; omega
    · intro k hk; simp at hk
  | lock w hi hl => exact invDrain_set_same (new := .locked) I hi rfl (by simp) rfl rfl rfl
  | recvJob w j q hw hq =>
    have hp0 : s.ws.countP WPc.pastTerm = 0 := by
      rcases Nat.eq_zero_or_pos (s.ws.countP WPc.pastTerm) with h0 | h0
      · exact h0
      · have := I.noJob h0 (.job j) (by simp [hq]); cases this
    have hc := countP_set_add WPc.pastTerm s.ws w _ (.got (.job j)) hw
    simp [WPc.pastTerm] at hc
    have ht := I.tcnt; rw [hq] at ht; simp at ht
    refine ⟨by simp [I.len], by have := I.tsfx; rw [hq] at this; exact tsfx_tail this, ?_, ?_, ?_, ?_, I.kle⟩
    · intro hp; simp only at hp; omega
    · intro w' hw' v hv; exact exited_stays hw (by simp) (I.joinW w' hw' v hv)
    · intro hd v hv; exact exited_stays hw (by simp) (I.doneW hd v hv)
    · simp only; omega
  | recvTerm w q hw hq =>
    have hall : ∀ m ∈ q, m = .term := by have := I.tsfx; rw [hq] at this; exact this
    have hc := countP_set_add WPc.pastTerm s.ws w _ (.got .term) hw
    simp [WPc.pastTerm] at hc
    have ht := I.tcnt; rw [hq] at ht; simp at ht
    refine ⟨by simp [I.len], by have := I.tsfx; rw [hq] at this; exact tsfx_tail this, fun _ => hall, ?_, ?_, ?_, I.kle⟩
    · intro w' hw' v hv; exact exited_stays hw (by simp) (I.joinW w' hw' v hv)
    · intro hd v hv; exact exited_stays hw (by simp) (I.doneW hd v hv)
    · simp only; omega
  | unlock w m hw => exact invDrain_set_same (new := .ready m) I hw (by cases m <;> rfl) (by simp) rfl rfl rfl
  | start w j hw => exact invDrain_set_same (new := .running j) I hw rfl (by simp) rfl rfl rfl
  | finish w j hw => exact invDrain_set_same (new := .idle) I hw rfl (by simp) rfl rfl rfl
  | exit w hw => exact invDrain_set_same (new := .exited) I hw rfl (by simp) rfl rfl rfl


/-! ## all three, for every reachable state -/

structure Inv (n : Nat) (s : St) : Prop where
  lock  : InvLock n s
  cnt   : InvCnt s
  drain : InvDrain n s

theorem inv_reachable {n : Nat} {s : St} (h : Reachable n s) : Inv n s := by
  induction h with
  | init => exact ⟨invLock_init n, invCnt_init n, invDrain_init n⟩
  | step _ hs ih => exact ⟨invLock_step hs ih.lock, invCnt_step hs ih.cnt, invDrain_step hs ih.drain⟩

/-- if every worker has exited, every element of `ws` is `exited` -/
theorem all_exited_mem {n : Nat} {ws : List WPc} (hlen : ws.length = n)
    (h : ∀ v, v < n → ws[v]? = some .exited) : ∀ x ∈ ws, x = .exited := by
  intro x hx
  obtain ⟨i, hi, rfl⟩ := List.getElem_of_mem hx
  have := h i (by omega)
  rw [List.getElem?_eq_getElem hi] at this
  exact Option.some.inj this

/-! ## liveness side: `drop` is never stuck and terminates -/

/-- bound on the main pc inside the join loop (kept apart from `InvDrain`) -/
def JoinLe (n : Nat) (s : St) : Prop := ∀ w, s.main = .joining w → w ≤ n

theorem joinLe_init (n : Nat) : JoinLe n (init n) := by intro w h; simp [init] at h

theorem joinLe_step {n : Nat} {s s' : St} {e : Event} (hs : Step n s e s') (I : JoinLe n s) : JoinLe n s' := by
  cases hs <;> intro v hv <;> first
    | exact I v hv
    | (simp at hv; try omega)
    | (simp_all)

theorem joinLe_reachable {n : Nat} {s : St} (h : Reachable n s) : JoinLe n s := by
  induction h with
  | init => exact joinLe_init n
  | step _ hs ih => exact joinLe_step hs ih

theorem countP_lt_of_get {ws : List WPc} {p : WPc → Bool} {w : Nat} {x : WPc} (h : ws[w]? = some x) (hp : p x = false) :
    List.countP p ws < ws.length := by
  have hle := List.countP_le_length (p := p) (l := ws)
  rcases Nat.lt_or_ge (List.countP p ws) ws.length with h1 | h1
  · exact h1
  · have : List.countP p ws = ws.length := by omega
    rw [List.countP_eq_length] at this
    have := this x (List.mem_of_getElem? h)
    rw [hp] at this; cases this

/-- a worker that holds the lock and is not past `Terminate` can always move once all
    `Terminate`s have been sent -/
theorem locked_can_recv {n : Nat} {s : St} (I : Inv n s) (hts : termsSent n s.main = n) {u : Nat}
    (hu : s.ws[u]? = some .locked) : ∃ e s', Step n s e s' := by
  have hlt := countP_lt_of_get (p := WPc.pastTerm) hu rfl
  have ht := I.drain.tcnt
  rw [hts] at ht; rw [I.drain.len] at hlt
  have hpos : 0 < s.queue.count .term := by omega
  cases hq : s.queue with
  | nil => rw [hq] at hpos; simp at hpos
  | cons m q =>
    cases m with
    | job j => exact ⟨_, _, .recvJob s u j q hu hq⟩
    | term => exact ⟨_, _, .recvTerm s u q hu hq⟩

/-- if some worker has not exited and all `Terminate`s are out, some worker step is enabled -/
theorem worker_can_move {n : Nat} {s : St} (I : Inv n s) (hts : termsSent n s.main = n) {v : Nat} {pc : WPc}
    (hv : s.ws[v]? = some pc) (hne : pc ≠ .exited) : ∃ e s', Step n s e s' := by
  cases pc with
  | exited => exact absurd rfl hne
  | got m => exact ⟨_, _, .unlock s v m hv⟩
  | ready m =>
    cases m with
    | job j => exact ⟨_, _, .start s v j hv⟩
    | term => exact ⟨_, _, .exit s v hv⟩
  | running j => exact ⟨_, _, .finish s v j hv⟩
  | locked => exact locked_can_recv I hts hv
  | idle =>
    cases hh : s.holder with
    | none => exact ⟨_, _, .lock s v hv hh⟩
    | some u =>
      obtain ⟨pc, h1, h2⟩ := I.lock.holdA u hh
      cases pc <;> simp [WPc.holdsLock] at h2
      · exact locked_can_recv I hts h1
      · exact ⟨_, _, .unlock s u _ h1⟩

/-- potential of a worker pc: every worker step lowers it, except that a receive raises it
    by 5 while removing one message (worth 6) from the queue -/
def WPc.rank : WPc → Nat
  | .idle => 5
  | .locked => 4
  | .got _ => 9
  | .ready _ => 8
  | .running _ => 7
  | .exited => 0

def mainRank (n : Nat) : MPc → Nat
  | .submitting => 0
  | .terms k => 7 * (n - k) + n + 2
  | .joining w => n - w + 1
  | .done => 0

/-- potential of a state once `drop` has begun -/
def potential (n : Nat) (s : St) : Nat :=
  mainRank n s.main + 6 * s.queue.length + (s.ws.map WPc.rank).sum

theorem sum_rank_set : ∀ (l : List WPc) (i : Nat) (old new : WPc), l[i]? = some old →
    ((l.set i new).map WPc.rank).sum + old.rank = (l.map WPc.rank).sum + new.rank
  | [], i, _, _, h => by simp at h
  | x :: xs, 0, old, new, h => by
    simp at h; subst h
    simp only [List.set_cons_zero, List.map_cons, List.sum_cons]; omega
  | x :: xs, i + 1, old, new, h => by
    simp at h
    have := sum_rank_set xs i old new h
    simp only [List.set_cons_succ, List.map_cons, List.sum_cons]; omega

theorem main_stays_dropping {n : Nat} {s s' : St} {e : Event} (hs : Step n s e s') (hm : s.main ≠ .submitting) :
    s'.main ≠ .submitting := by
  cases hs <;> simp_all

end Gold.Pool
