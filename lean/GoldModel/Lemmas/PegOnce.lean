import GoldModel.Lemmas.PegMemoInner
import GoldModel.Lemmas.PegFuel
/-! T4: inside one slice every memoised parser is evaluated at most once per position -/
namespace Gold.Peg
open Gold

/-- every `memo` node caches failures too -/
def allErrs : G → Bool
  | .tok _ => true | .identVal _ => true | .eps _ => true | .skipTo _ => true | .ref _ => true
  | .memo _ errs => errs
  | .reslice _ inner => allErrs inner
  | .seq a b => allErrs a && allErrs b
  | .alt a b => allErrs a && allErrs b
  | .opt a => allErrs a
  | .map _ g => allErrs g
  | .check _ _ g => allErrs g
  | .ifTok _ a b => allErrs a && allErrs b
  | .ifEof a b => allErrs a && allErrs b
  | .recover _ g => allErrs g
  | .catchErr g => allErrs g
  | .dep a _ b => allErrs a && allErrs b
  | .emit _ g => allErrs g
  | .prepend _ g => allErrs g

def Cached (m : Memo) (p : Nat × Nat) : Prop := (m.get p.1 p.2).isSome = true

/-- in-progress evaluations at the current length have a rank at least the current budget -/
def StackOK (rkΔ : Nat → Nat) (stack : List (Nat × Nat)) (n k : Nat) : Prop :=
  ∀ p ∈ stack, n < p.2 ∨ (p.2 = n ∧ k ≤ rkΔ p.1)

/-- no evaluation is logged twice; every logged evaluation is finished (cached) or in progress -/
def EvInv (s : MSt) (stack : List (Nat × Nat)) : Prop :=
  s.evals.Nodup ∧ ∀ p ∈ s.evals, Cached s.memo p ∨ p ∈ stack

def Post (s s' : MSt) (stack : List (Nat × Nat)) : Prop :=
  EvInv s' stack ∧ ∀ p, Cached s.memo p → Cached s'.memo p

theorem Post.refl {s : MSt} {stack} (h : EvInv s stack) : Post s s stack := ⟨h, fun _ hp => hp⟩

theorem Post.trans {s s1 s2 : MSt} {stack} (h1 : Post s s1 stack) (h2 : Post s1 s2 stack) : Post s s2 stack :=
  ⟨h2.1, fun p hp => h2.2 p (h1.2 p hp)⟩

theorem StackOK.shorter {rkΔ stack n n' k k'} (h : StackOK rkΔ stack n k) (hn : n' < n) : StackOK rkΔ stack n' k' := by
  intro p hp
  rcases h p hp with h1 | ⟨h1, _⟩
  · left; omega
  · left; omega

theorem StackOK.mono {rkΔ stack n k k'} (h : StackOK rkΔ stack n k) (hk : k' ≤ k) : StackOK rkΔ stack n k' := by
  intro p hp
  rcases h p hp with h1 | ⟨h1, h2⟩
  · left; exact h1
  · right; exact ⟨h1, by omega⟩

theorem Cached.cons {m : Memo} {p : Nat × Nat} (c l : Nat) (v : R) (h : Cached m p) : Cached ((c, l, v) :: m) p := by
  unfold Cached at *
  rw [Memo.get_cons]
  split
  · rfl
  · exact h

theorem Cached.head (m : Memo) (c l : Nat) (v : R) : Cached ((c, l, v) :: m) (c, l) := by
  unfold Cached; rw [Memo.get_cons]; simp

end Gold.Peg

namespace Gold.Peg
open Gold

variable {Γ Δ : Nat → G} {nulΓ nulΔ : Nat → Bool → Bool} {rkΓ rkΔ : Nat → Nat} {K S : Nat} {A B : Nat → Bool}

set_option maxRecDepth 4000 in
set_option maxHeartbeats 1000000 in
/-- **T4**: the evaluation log stays duplicate-free -/
theorem runM_once (W : WF Γ Δ nulΓ nulΔ rkΓ rkΔ K S) (Sc : Scoped Γ Δ A B)
    (hEΓ : ∀ n, allErrs (Γ n) = true) (hEΔ : ∀ c, allErrs (Δ c) = true) (base : List Tok) :
    ∀ (f : Nat) (g : G) (ts : List Tok) (k : Nat) (ne : Bool) (s : MSt) (E : List Diag) (stack : List (Nat × Nat)),
      innerOK B g = true → allErrs g = true → ts <:+ base → Coh Γ Δ base s.memo E →
      (runP Γ Δ f g ts).1.isFuel = false →
      headOK nulΓ nulΔ rkΓ rkΔ ne k g = true → allOK rkΓ rkΔ K g = true → k ≤ K → (ne = true → ts ≠ []) →
      EvInv s stack → StackOK rkΔ stack ts.length k →
      Post s (runM Γ Δ f g ts s).2.2 stack := by
  intro f
  induction f with
  | zero => intro g ts k ne s E stack _ _ _ _ h; simp [runP, R.isFuel] at h
  | succ f ih =>
    intro g ts k ne s E stack hg he hs hc hP hh ha hk hne hev hst
    -- one sub-run: results of both interpreters, coherence afterwards, and the post-condition
    have sub : ∀ (g' : G) (ts' : List Tok) (k' : Nat) (ne' : Bool) (s' : MSt) (E' : List Diag),
        innerOK B g' = true → allErrs g' = true → ts' <:+ base → Coh Γ Δ base s'.memo E' →
        (runP Γ Δ f g' ts').1.isFuel = false →
        headOK nulΓ nulΔ rkΓ rkΔ ne' k' g' = true → allOK rkΓ rkΔ K g' = true → k' ≤ K → (ne' = true → ts' ≠ []) →
        EvInv s' stack → StackOK rkΔ stack ts'.length k' →
        ∃ r dP dM s1, runP Γ Δ f g' ts' = (r, dP) ∧ runM Γ Δ f g' ts' s' = (r, dM, s1) ∧
          Coh Γ Δ base s1.memo (E' ++ dM) ∧ Post s' s1 stack := by
      intro g' ts' k' ne' s' E' h1 h2 h3 h4 h5 h6 h7 h8 h9 h10 h11
      have ag := runM_inner Sc base f g' ts' s' E' h1 h3 h4 h5
      have po := ih g' ts' k' ne' s' E' stack h1 h2 h3 h4 h5 h6 h7 h8 h9 h10 h11
      rcases hp : runP Γ Δ f g' ts' with ⟨r, dP⟩
      rcases hm : runM Γ Δ f g' ts' s' with ⟨r', dM, s1⟩
      rw [hp, hm] at ag
      rw [hm] at po
      have e : r' = r := ag.1
      subst e
      exact ⟨_, _, _, _, rfl, rfl, ag.2.1, po⟩
    -- the second component of a sequence: after `a` returned `r1`
    have second : ∀ (a b : G) (r1 : List Tok) (va : Tree) (da : List Diag) (s1 : MSt) (E1 : List Diag),
        runP Γ Δ f a ts = (.ok r1 va, da) → innerOK B b = true → allErrs b = true → allOK rkΓ rkΔ K b = true →
        (nullable nulΓ nulΔ ne a = false ∨ headOK nulΓ nulΔ rkΓ rkΔ ne k b = true) →
        Coh Γ Δ base s1.memo E1 → (runP Γ Δ f b r1).1.isFuel = false → EvInv s1 stack →
        ∃ r dP dM s2, runP Γ Δ f b r1 = (r, dP) ∧ runM Γ Δ f b r1 s1 = (r, dM, s2) ∧
          Coh Γ Δ base s2.memo (E1 ++ dM) ∧ Post s1 s2 stack := by
      intro a b r1 va da s1 E1 hpa hgb heb hab hhb hc1 hnfb hev1
      have sa : r1 <:+ ts := by have := runP_suffix Γ Δ f a ts; rw [hpa] at this; exact this
      have hr : r1 <:+ base := List.IsSuffix.trans sa hs
      have l1 := suffix_len sa
      rcases Nat.lt_or_ge r1.length ts.length with hlt | hge
      · exact sub b r1 K false s1 E1 hgb heb hr hc1 hnfb (allOK_head b false hab) hab (Nat.le_refl _)
          (fun h => by cases h) hev1 (hst.shorter hlt)
      · have e := suffix_eq_of_len sa (by omega)
        subst e
        rcases hhb with hnul | hhb
        · have := consumes W f a r1 r1 va ne (by rw [hpa]) hnul hne; omega
        · exact sub b r1 k ne s1 E1 hgb heb hr hc1 hnfb hhb hab hk hne hev1 hst
    cases g with
    | tok kd => simp only [runM]; exact Post.refl hev
    | identVal x => simp only [runM]; exact Post.refl hev
    | eps v => simp only [runM]; exact Post.refl hev
    | skipTo ks => simp only [runM]; rcases takeUntil ks ts with ⟨rest, body, e⟩; exact Post.refl hev
    | reslice ks inner => simp [innerOK] at hg
    | ref n =>
      simp only [innerOK] at hg
      simp only [headOK, decide_eq_true_eq] at hh
      simp only [runP] at hP
      simp only [runM]
      exact ih (Γ n) ts (rkΓ n) ne s E stack (Sc.innerΓ n hg) (hEΓ n) hs hc hP (W.headΓ n ne) (W.allΓ n)
        (by omega) hne hev (hst.mono (by omega))
    | memo c errs =>
      simp only [allErrs] at he
      subst he
      simp only [headOK, decide_eq_true_eq] at hh
      simp only [runP] at hP
      simp only [runM]
      cases hl : s.memo.get c ts.length with
      | some v => simp only; exact Post.refl hev
      | none =>
        simp only
        -- the new log entry is fresh: it is neither cached nor in progress
        have hfresh : (c, ts.length) ∉ s.evals := by
          intro hin
          rcases hev.2 _ hin with hca | hin2
          · unfold Cached at hca; rw [hl] at hca; cases hca
          · rcases hst _ hin2 with h1 | ⟨_, h2⟩
            · simp at h1
            · simp only at h2; omega
        let s0 : MSt := { s with evals := (c, ts.length) :: s.evals }
        have hev0 : EvInv s0 ((c, ts.length) :: stack) := by
          refine ⟨List.nodup_cons.mpr ⟨hfresh, hev.1⟩, ?_⟩
          intro p hp
          rcases List.mem_cons.mp hp with rfl | hp
          · right; exact List.mem_cons_self
          · rcases hev.2 p hp with h1 | h1
            · left; exact h1
            · right; exact List.mem_cons_of_mem _ h1
        have hst0 : StackOK rkΔ ((c, ts.length) :: stack) ts.length (rkΔ c) := by
          intro p hp
          rcases List.mem_cons.mp hp with rfl | hp
          · right; exact ⟨rfl, Nat.le_refl _⟩
          · rcases hst p hp with h1 | ⟨h1, h2⟩
            · left; exact h1
            · right; exact ⟨h1, by omega⟩
        have hc0 : Coh Γ Δ base s0.memo E := hc
        have ag := runM_inner Sc base f (Δ c) ts s0 E (Sc.innerΔ c) hs hc0 hP
        have po := ih (Δ c) ts (rkΔ c) ne s0 E ((c, ts.length) :: stack) (Sc.innerΔ c) (hEΔ c) hs hc0 hP
          (W.headΔ c ne) (W.allΔ c) (by omega) hne hev0 hst0
        rcases hp : runP Γ Δ f (Δ c) ts with ⟨rp, dp⟩
        rcases hm : runM Γ Δ f (Δ c) ts s0 with ⟨rm, dm, s1⟩
        rw [hp, hm] at ag
        rw [hm] at po
        have e : rm = rp := ag.1
        subst e
        have hnf : rm.isFuel = false := by rw [hp] at hP; exact hP
        show Post s (match (rm, dm, s1) with
          | (.fuel, d, s1) => (R.fuel, d, s1)
          | (.err e msg, d, s1) => (.err e msg, d, if true = true then { s1 with memo := (c, ts.length, .err e msg) :: s1.memo } else s1)
          | (v, d, s1) => (v, d, { s1 with memo := (c, ts.length, v) :: s1.memo })).2.2 stack
        -- after the evaluation the entry is cached, so it may leave the in-progress stack
        have fin : ∀ v : R, Post s ({ s1 with memo := (c, ts.length, v) :: s1.memo } : MSt) stack := by
          intro v
          refine ⟨⟨po.1.1, ?_⟩, ?_⟩
          · intro p hpe
            rcases po.1.2 p hpe with h1 | h1
            · left; exact Cached.cons c ts.length v h1
            · rcases List.mem_cons.mp h1 with rfl | h1
              · left; exact Cached.head s1.memo c ts.length v
              · right; exact h1
          · intro p hpc; exact Cached.cons c ts.length v (po.2 p hpc)
        cases rm with
        | fuel => simp [R.isFuel] at hnf
        | ok r v => exact fin _
        | err e msg => exact fin _
    | seq a b =>
      simp only [innerOK, Bool.and_eq_true] at hg
      simp only [allErrs, Bool.and_eq_true] at he
      simp only [headOK, Bool.and_eq_true, Bool.or_eq_true, Bool.not_eq_true'] at hh
      simp only [allOK, Bool.and_eq_true] at ha
      simp only [runP] at hP
      have hnfa : (runP Γ Δ f a ts).1.isFuel = false := by
        rcases hq : runP Γ Δ f a ts with ⟨ra, da⟩
        rw [hq] at hP; cases ra <;> simp_all [R.isFuel]
      obtain ⟨ra, da, da', s1, hpa, hma, hc1, po1⟩ := sub a ts k ne s E hg.1 he.1 hs hc hnfa hh.1 ha.1 hk hne hev hst
      simp only [runM, hma]
      rw [hpa] at hP
      cases ra with
      | fuel => simp [R.isFuel] at hP
      | err e m => exact po1
      | ok r1 va =>
        simp only at hP ⊢
        have hnfb : (runP Γ Δ f b r1).1.isFuel = false := by
          rcases hq : runP Γ Δ f b r1 with ⟨rb, db⟩
          rw [hq] at hP; cases rb <;> simp_all [R.isFuel]
        obtain ⟨rb, db, db', s2, hpb, hmb, _, po2⟩ := second a b r1 va da s1 (E ++ da') hpa hg.2 he.2 ha.2 hh.2 hc1 hnfb po1.1
        rw [hmb]
        cases rb <;> exact po1.trans po2
    | dep a test b =>
      simp only [innerOK, Bool.and_eq_true] at hg
      simp only [allErrs, Bool.and_eq_true] at he
      simp only [headOK, Bool.and_eq_true, Bool.or_eq_true, Bool.not_eq_true'] at hh
      simp only [allOK, Bool.and_eq_true] at ha
      simp only [runP] at hP
      have hnfa : (runP Γ Δ f a ts).1.isFuel = false := by
        rcases hq : runP Γ Δ f a ts with ⟨ra, da⟩
        rw [hq] at hP; cases ra <;> simp_all [R.isFuel]
      obtain ⟨ra, da, da', s1, hpa, hma, hc1, po1⟩ := sub a ts k ne s E hg.1 he.1 hs hc hnfa hh.1 ha.1 hk hne hev hst
      simp only [runM, hma]
      rw [hpa] at hP
      cases ra with
      | fuel => simp [R.isFuel] at hP
      | err e m => exact po1
      | ok r1 va =>
        simp only at hP ⊢
        by_cases ht : test va = true
        · simp only [ht, ↓reduceIte] at hP ⊢
          have hnfb : (runP Γ Δ f b r1).1.isFuel = false := by
            rcases hq : runP Γ Δ f b r1 with ⟨rb, db⟩
            rw [hq] at hP; cases rb <;> simp_all [R.isFuel]
          obtain ⟨rb, db, db', s2, hpb, hmb, _, po2⟩ := second a b r1 va da s1 (E ++ da') hpa hg.2 he.2 ha.2 hh.2 hc1 hnfb po1.1
          rw [hmb]
          cases rb <;> exact po1.trans po2
        · simp only [ht]
          exact po1
    | alt a b =>
      simp only [innerOK, Bool.and_eq_true] at hg
      simp only [allErrs, Bool.and_eq_true] at he
      simp only [headOK, Bool.and_eq_true] at hh
      simp only [allOK, Bool.and_eq_true] at ha
      simp only [runP] at hP
      have hnfa : (runP Γ Δ f a ts).1.isFuel = false := by
        rcases hq : runP Γ Δ f a ts with ⟨ra, da⟩
        rw [hq] at hP; cases ra <;> simp_all [R.isFuel]
      obtain ⟨ra, da, da', s1, hpa, hma, hc1, po1⟩ := sub a ts k ne s E hg.1 he.1 hs hc hnfa hh.1 ha.1 hk hne hev hst
      simp only [runM, hma]
      rw [hpa] at hP
      cases ra with
      | fuel => simp [R.isFuel] at hP
      | ok r va => exact po1
      | err e1 m1 =>
        simp only at hP ⊢
        have hnfb : (runP Γ Δ f b ts).1.isFuel = false := by
          rcases hq : runP Γ Δ f b ts with ⟨rb, db⟩
          rw [hq] at hP; cases rb <;> simp_all [R.isFuel]
        obtain ⟨rb, db, db', s2, hpb, hmb, _, po2⟩ := sub b ts k ne s1 (E ++ da') hg.2 he.2 hs hc1 hnfb hh.2 ha.2 hk hne po1.1 hst
        rw [hmb]
        cases rb <;> exact po1.trans po2
    | opt a =>
      simp only [innerOK] at hg; simp only [allErrs] at he; simp only [headOK] at hh; simp only [allOK] at ha
      simp only [runP] at hP
      have hnfa : (runP Γ Δ f a ts).1.isFuel = false := by
        rcases hq : runP Γ Δ f a ts with ⟨ra, da⟩
        rw [hq] at hP; cases ra <;> simp_all [R.isFuel]
      obtain ⟨ra, da, da', s1, hpa, hma, _, po1⟩ := sub a ts k ne s E hg he hs hc hnfa hh ha hk hne hev hst
      simp only [runM, hma]
      cases ra <;> exact po1
    | map fn g' =>
      simp only [innerOK] at hg; simp only [allErrs] at he; simp only [headOK] at hh; simp only [allOK] at ha
      simp only [runP] at hP
      have hnfa : (runP Γ Δ f g' ts).1.isFuel = false := by
        rcases hq : runP Γ Δ f g' ts with ⟨ra, da⟩
        rw [hq] at hP; cases ra <;> simp_all [R.isFuel]
      obtain ⟨ra, da, da', s1, hpa, hma, _, po1⟩ := sub g' ts k ne s E hg he hs hc hnfa hh ha hk hne hev hst
      simp only [runM, hma]
      cases ra <;> exact po1
    | check p msg g' =>
      simp only [innerOK] at hg; simp only [allErrs] at he; simp only [headOK] at hh; simp only [allOK] at ha
      simp only [runP] at hP
      have hnfa : (runP Γ Δ f g' ts).1.isFuel = false := by
        rcases hq : runP Γ Δ f g' ts with ⟨ra, da⟩
        rw [hq] at hP; cases ra <;> simp_all [R.isFuel]
      obtain ⟨ra, da, da', s1, hpa, hma, _, po1⟩ := sub g' ts k ne s E hg he hs hc hnfa hh ha hk hne hev hst
      simp only [runM, hma]
      cases ra <;> exact po1
    | prepend x g' =>
      simp only [innerOK] at hg; simp only [allErrs] at he; simp only [headOK] at hh; simp only [allOK] at ha
      simp only [runP] at hP
      have hnfa : (runP Γ Δ f g' ts).1.isFuel = false := by
        rcases hq : runP Γ Δ f g' ts with ⟨ra, da⟩
        rw [hq] at hP; cases ra <;> simp_all [R.isFuel]
      obtain ⟨ra, da, da', s1, hpa, hma, _, po1⟩ := sub g' ts k ne s E hg he hs hc hnfa hh ha hk hne hev hst
      simp only [runM, hma]
      cases ra <;> exact po1
    | catchErr g' =>
      simp only [innerOK] at hg; simp only [allErrs] at he; simp only [headOK] at hh; simp only [allOK] at ha
      simp only [runP] at hP
      have hnfa : (runP Γ Δ f g' ts).1.isFuel = false := by
        rcases hq : runP Γ Δ f g' ts with ⟨ra, da⟩
        rw [hq] at hP; cases ra <;> simp_all [R.isFuel]
      obtain ⟨ra, da, da', s1, hpa, hma, _, po1⟩ := sub g' ts k ne s E hg he hs hc hnfa hh ha hk hne hev hst
      simp only [runM, hma]
      cases ra <;> exact po1
    | emit fn g' =>
      simp only [innerOK] at hg; simp only [allErrs] at he; simp only [headOK] at hh; simp only [allOK] at ha
      simp only [runP] at hP
      have hnfa : (runP Γ Δ f g' ts).1.isFuel = false := by
        rcases hq : runP Γ Δ f g' ts with ⟨ra, da⟩
        rw [hq] at hP; cases ra <;> simp_all [R.isFuel]
      obtain ⟨ra, da, da', s1, hpa, hma, _, po1⟩ := sub g' ts k ne s E hg he hs hc hnfa hh ha hk hne hev hst
      simp only [runM, hma]
      cases ra <;> exact po1
    | recover m g' =>
      simp only [innerOK] at hg; simp only [allErrs] at he; simp only [headOK] at hh; simp only [allOK] at ha
      simp only [runP] at hP
      have hnfa : (runP Γ Δ f g' ts).1.isFuel = false := by
        rcases hq : runP Γ Δ f g' ts with ⟨ra, da⟩
        rw [hq] at hP; cases ra <;> simp_all [R.isFuel]
      obtain ⟨ra, da, da', s1, hpa, hma, _, po1⟩ := sub g' ts k ne s E hg he hs hc hnfa hh ha hk hne hev hst
      simp only [runM, hma]
      cases ra <;> exact po1
    | ifTok ks a b =>
      simp only [innerOK, Bool.and_eq_true] at hg
      simp only [allErrs, Bool.and_eq_true] at he
      simp only [headOK] at hh
      simp only [allOK, Bool.and_eq_true] at ha
      simp only [runP] at hP
      simp only [runM]
      cases hfr : firstReal ts with
      | none =>
        simp only [hfr] at hP ⊢
        exact ih b ts k ne s E stack hg.2 he.2 hs hc hP hh ha.2 hk hne hev hst
      | some p =>
        obtain ⟨t, rest⟩ := p
        simp only [hfr] at hP ⊢
        by_cases hkk : ks.contains t.kind = true
        · simp only [hkk, ↓reduceIte] at hP ⊢
          obtain ⟨hsr, hlt⟩ := firstReal_suffix ts t rest hfr
          have hnfa : (runP Γ Δ f a rest).1.isFuel = false := by
            rcases hq : runP Γ Δ f a rest with ⟨ra, da⟩
            rw [hq] at hP; cases ra <;> simp_all [R.isFuel]
          obtain ⟨ra, da, da', s1, hpa, hma, _, po1⟩ := sub a rest K false s E hg.1 he.1 (List.IsSuffix.trans hsr hs) hc hnfa
            (allOK_head a false ha.1) ha.1 (Nat.le_refl _) (fun h => by cases h) hev (hst.shorter hlt)
          simp only [hma]
          cases ra <;> exact po1
        · simp only [hkk] at hP ⊢
          exact ih b ts k ne s E stack hg.2 he.2 hs hc hP hh ha.2 hk hne hev hst
    | ifEof a b =>
      simp only [innerOK, Bool.and_eq_true] at hg
      simp only [allErrs, Bool.and_eq_true] at he
      simp only [headOK, Bool.and_eq_true] at hh
      simp only [allOK, Bool.and_eq_true] at ha
      cases ts with
      | nil =>
        simp only [runP] at hP
        simp only [runM]
        exact ih a [] k false s E stack hg.1 he.1 hs hc hP hh.1 ha.1 hk (fun h => by cases h) hev hst
      | cons x xs =>
        simp only [runP] at hP
        simp only [runM]
        exact ih b (x :: xs) k true s E stack hg.2 he.2 hs hc hP hh.2 ha.2 hk (fun _ => by simp) hev hst

end Gold.Peg
