import GoldModel.Lemmas.ExprText
import GoldModel.Lemmas.LexRenderG
/-!
The expression round trip for texts with ARBITRARY layout (`Props/C06Text.lean`, `text_roundtrip_layout`).

* `Ex.rerange rs e i` — `e` with the range of its `j`-th token (in printing order) replaced by
  `rs[i + j]` (kept when the list is too short); nothing else changes, so well-formedness is kept;
* `Ex.placeG e gws` — `e` with the ranges the lexer assigns to its words in the text `renderG gws`;
* `placeG_toks` — the tokens of `placeG e gws` ARE the lexer's tokens for that text.
-/
set_option linter.unusedSimpArgs false
namespace Gold.C06
open Gold Gold.Lex

def setRng (rs : List Range) (i : Nat) (t : Tok) : Tok := { t with rng := rs.getD i t.rng }

mutual
def Ex.rerange (rs : List Range) : Ex → Nat → Ex
  | .atom t, i => .atom (setRng rs i t)
  | .paren lp e rp, i => .paren (setRng rs i lp) (e.rerange rs (i + 1)) (setRng rs (i + 1 + e.toks.length) rp)
  | .bin l op r, i => .bin (l.rerange rs i) (setRng rs (i + l.toks.length) op) (r.rerange rs (i + l.toks.length + 1))
  | .pre op e, i => .pre (setRng rs i op) (e.rerange rs (i + 1))
  | .post e op, i => .post (e.rerange rs i) (setRng rs (i + e.toks.length) op)
  | .dot l d r, i => .dot (l.rerange rs i) (setRng rs (i + l.toks.length) d) (r.rerange rs (i + l.toks.length + 1))
  | .call f lp as rp, i =>
    .call (setRng rs i f) (setRng rs (i + 1) lp) (as.rerange rs (i + 1 + 1)) (setRng rs (i + 1 + 1 + as.toks.length) rp)
  | .index a lb e rb, i =>
    .index (setRng rs i a) (setRng rs (i + 1) lb) (e.rerange rs (i + 1 + 1)) (setRng rs (i + 1 + 1 + e.toks.length) rb)
  | .set lb as rb, i => .set (setRng rs i lb) (as.rerange rs (i + 1)) (setRng rs (i + 1 + as.toks.length) rb)
def Args.rerange (rs : List Range) : Args → Nat → Args
  | .nil, _ => .nil
  | .one e, i => .one (e.rerange rs i)
  | .more e c rest, i => .more (e.rerange rs i) (setRng rs (i + e.toks.length) c) (rest.rerange rs (i + e.toks.length + 1))
end

/-- the same on a token list -/
def rer (rs : List Range) : Nat → List Tok → List Tok
  | _, [] => []
  | i, t :: ts => setRng rs i t :: rer rs (i + 1) ts

theorem rer_append (rs : List Range) (i : Nat) (a b : List Tok) :
    rer rs i (a ++ b) = rer rs i a ++ rer rs (i + a.length) b := by
  induction a generalizing i with
  | nil => simp [rer]
  | cons t a ih => simp only [List.cons_append, rer, ih, List.length_cons]; congr 3; omega

theorem rer_length (rs : List Range) (i : Nat) (a : List Tok) : (rer rs i a).length = a.length := by
  induction a generalizing i with
  | nil => rfl
  | cons t a ih => simp [rer, ih]

theorem rer_nil (rs : List Range) (i : Nat) : rer rs i [] = [] := rfl
theorem rer_cons (rs : List Range) (i : Nat) (t : Tok) (ts : List Tok) :
    rer rs i (t :: ts) = setRng rs i t :: rer rs (i + 1) ts := rfl

mutual
theorem rerange_toks (rs : List Range) : (e : Ex) → ∀ i, (e.rerange rs i).toks = rer rs i e.toks
  | .atom t => by intro i; simp [Ex.rerange, Ex.toks, rer]
  | .paren lp e rp => by
    intro i; simp [Ex.rerange, Ex.toks, rer_cons, rer_nil, rer_append, rerange_toks rs e, Nat.add_assoc]
  | .bin l op r => by
    intro i; simp [Ex.rerange, Ex.toks, rer_cons, rer_nil, rer_append, rerange_toks rs l, rerange_toks rs r, Nat.add_assoc]
  | .pre op e => by
    intro i; simp [Ex.rerange, Ex.toks, rer_cons, rer_nil, rer_append, rerange_toks rs e, Nat.add_assoc]
  | .post e op => by
    intro i; simp [Ex.rerange, Ex.toks, rer_cons, rer_nil, rer_append, rerange_toks rs e, Nat.add_assoc]
  | .dot l d r => by
    intro i; simp [Ex.rerange, Ex.toks, rer_cons, rer_nil, rer_append, rerange_toks rs l, rerange_toks rs r, Nat.add_assoc]
  | .call f lp as rp => by
    intro i; simp [Ex.rerange, Ex.toks, rer_cons, rer_nil, rer_append, rerange_atoks rs as, Nat.add_assoc]
  | .index a lb e rb => by
    intro i; simp [Ex.rerange, Ex.toks, rer_cons, rer_nil, rer_append, rerange_toks rs e, Nat.add_assoc]
  | .set lb as rb => by
    intro i; simp [Ex.rerange, Ex.toks, rer_cons, rer_nil, rer_append, rerange_atoks rs as, Nat.add_assoc]
theorem rerange_atoks (rs : List Range) : (as : Args) → ∀ i, (as.rerange rs i).toks = rer rs i as.toks
  | .nil => by intro i; simp [Args.rerange, Args.toks, rer]
  | .one e => by intro i; simp [Args.rerange, Args.toks, rerange_toks rs e]
  | .more e c rest => by
    intro i
    simp [Args.rerange, Args.toks, rer_cons, rer_nil, rer_append, rerange_toks rs e, rerange_atoks rs rest, Nat.add_assoc]
end

theorem kind_setRng (rs : List Range) (i : Nat) (t : Tok) : (setRng rs i t).kind = t.kind := rfl

theorem isElem_rerange (rs : List Range) (e : Ex) (i : Nat) : (e.rerange rs i).isElem = e.isElem := by
  cases e <;> simp [Ex.rerange, Ex.isElem, kind_setRng]

theorem isChain_rerange (rs : List Range) : (e : Ex) → ∀ i, (e.rerange rs i).isChain = e.isChain
  | .dot l d r => by intro i; simp [Ex.rerange, Ex.isChain, isChain_rerange rs l, isElem_rerange]
  | .atom t => by intro i; simp [Ex.rerange, Ex.isChain, Ex.isElem, kind_setRng]
  | .paren .. => by intro i; simp [Ex.rerange, Ex.isChain, Ex.isElem]
  | .bin .. => by intro i; simp [Ex.rerange, Ex.isChain, Ex.isElem]
  | .pre .. => by intro i; simp [Ex.rerange, Ex.isChain, Ex.isElem]
  | .post .. => by intro i; simp [Ex.rerange, Ex.isChain, Ex.isElem]
  | .call .. => by intro i; simp [Ex.rerange, Ex.isChain, Ex.isElem]
  | .index .. => by intro i; simp [Ex.rerange, Ex.isChain, Ex.isElem]
  | .set .. => by intro i; simp [Ex.rerange, Ex.isChain, Ex.isElem]

theorem nonEmpty_rerange (rs : List Range) (as : Args) (i : Nat) : (as.rerange rs i).nonEmpty = as.nonEmpty := by
  cases as <;> simp [Args.rerange, Args.nonEmpty]

mutual
/-- re-ranging preserves well-formedness (it depends on kinds and shape only) -/
theorem rerange_WF (rs : List Range) : (e : Ex) → ∀ L i, (e.rerange rs i).WF L ↔ e.WF L
  | .atom t => by intro L i; simp [Ex.rerange, Ex.WF, atomOK, kind_setRng]
  | .paren lp e rp => by intro L i; simp [Ex.rerange, Ex.WF, kind_setRng, rerange_WF rs e]
  | .bin l op r => by intro L i; simp [Ex.rerange, Ex.WF, kind_setRng, rerange_WF rs l, rerange_WF rs r]
  | .pre op e => by intro L i; simp [Ex.rerange, Ex.WF, kind_setRng, rerange_WF rs e]
  | .post e op => by intro L i; simp [Ex.rerange, Ex.WF, kind_setRng, rerange_WF rs e, isChain_rerange]
  | .dot l d r => by
    intro L i
    simp [Ex.rerange, Ex.WF, kind_setRng, rerange_WF rs l, rerange_WF rs r, isChain_rerange, isElem_rerange]
  | .call f lp as rp => by intro L i; simp [Ex.rerange, Ex.WF, kind_setRng, rerange_aWF rs as]
  | .index a lb e rb => by intro L i; simp [Ex.rerange, Ex.WF, kind_setRng, rerange_WF rs e]
  | .set lb as rb => by intro L i; simp [Ex.rerange, Ex.WF, kind_setRng, rerange_aWF rs as]
theorem rerange_aWF (rs : List Range) : (as : Args) → ∀ L i, (as.rerange rs i).WF L ↔ as.WF L
  | .nil => by intro L i; simp [Args.rerange, Args.WF]
  | .one e => by intro L i; simp [Args.rerange, Args.WF, rerange_WF rs e]
  | .more e c rest => by
    intro L i
    simp [Args.rerange, Args.WF, kind_setRng, rerange_WF rs e, rerange_aWF rs rest, nonEmpty_rerange]
end

/-! ### re-ranging with the lexer's ranges gives the lexer's tokens -/

/-- if `L` are lexer tokens with the kinds and values of `ts`, giving `ts` the ranges of `L` yields `L` -/
theorem rer_tokens (ts : List Tok) : ∀ (L : List Lex.Token) (pre : List Range),
    L.map (fun x => (x.kind, x.value)) = ts.map (fun t => (t.kind, t.value.toList)) →
    rer (pre ++ (L.map toTok).map (·.rng)) pre.length ts = L.map toTok := by
  induction ts with
  | nil => intro L pre h; cases L with
    | nil => rfl
    | cons x L => simp at h
  | cons t ts ih =>
    intro L pre h
    cases L with
    | nil => simp at h
    | cons x L =>
      simp only [List.map_cons, List.cons.injEq, Prod.mk.injEq] at h
      obtain ⟨⟨hk, hv⟩, hrest⟩ := h
      have := ih L (pre ++ [(toTok x).rng]) hrest
      simp only [List.length_append, List.length_cons, List.length_nil, List.append_assoc, List.cons_append,
        List.nil_append, Nat.zero_add] at this
      simp only [rer, List.map_cons, this, List.cons.injEq, and_true]
      simp only [setRng, List.getD_eq_getElem?_getD, List.getElem?_append_right (Nat.le_refl _), Nat.sub_self,
        List.getElem?_cons_zero, Option.getD_some]
      cases t with
      | mk k v r =>
        simp only at hk hv
        simp [toTok, hk, hv, String.ofList_toList]

/-- `e` with the ranges the lexer assigns to its words in the text `renderG gws` -/
def Ex.placeG (e : Ex) (gws : Layout) : Ex :=
  e.rerange (((expectG 0 [] gws).map toTok).map (·.rng)) 0

theorem wordOfTok_kv (t : Tok) : ((wordOfTok t).kind, (wordOfTok t).value) = (t.kind, t.value.toList) := by
  unfold wordOfTok; split <;> rfl

/-- the tokens of the laid-out expression are the lexer's tokens for the text -/
theorem placeG_toks (e : Ex) (gws : Layout) (hl : gws.map (·.2) = e.words) :
    (e.placeG gws).toks = (expectG 0 [] gws).map toTok := by
  rw [Ex.placeG, rerange_toks]
  have h := rer_tokens e.toks (expectG 0 [] gws) [] ?_
  · simpa using h
  · have h1 := congrArg (List.map (fun p : Kind × List Char × Nat => (p.1, p.2.1))) (expectG_kv 0 [] gws)
    simp only [List.map_map] at h1
    have h2 : gws.map (fun gw => (gw.2.kind, gw.2.value)) = e.toks.map (fun t => (t.kind, t.value.toList)) := by
      have := congrArg (List.map (fun w : Word => (w.kind, w.value))) hl
      simp only [Ex.words, List.map_map] at this
      rw [show (fun gw : List Char × Word => (gw.2.kind, gw.2.value)) = (fun w : Word => (w.kind, w.value)) ∘ (·.2) from rfl, this]
      apply List.map_congr_left
      intro t _
      exact wordOfTok_kv t
    rw [← h2]
    exact h1

theorem placeG_WF (e : Ex) (gws : Layout) (L : Nat) : (e.placeG gws).WF L ↔ e.WF L :=
  rerange_WF _ e L 0

end Gold.C06
