import GoldModel.Lemmas.PegMono
/-! syntactic well-formedness of a grammar table (nullability, ranks) and the consumption lemma -/
namespace Gold.Peg
open Gold

def G.size : G → Nat
  | .tok _ => 1 | .identVal _ => 1 | .eps _ => 1 | .ref _ => 1 | .memo _ _ => 1 | .skipTo _ => 1
  | .seq a b => a.size + b.size + 1
  | .alt a b => a.size + b.size + 1
  | .opt a => a.size + 1
  | .map _ g => g.size + 1
  | .check _ _ g => g.size + 1
  | .ifTok _ a b => a.size + b.size + 1
  | .ifEof a b => a.size + b.size + 1
  | .recover _ g => g.size + 1
  | .catchErr g => g.size + 1
  | .dep a _ b => a.size + b.size + 1
  | .emit _ g => g.size + 1
  | .reslice _ inner => inner.size + 1
  | .prepend _ g => g.size + 1

theorem G.size_pos (g : G) : 1 ≤ g.size := by cases g <;> simp [G.size] <;> omega

/-- may `g` succeed without consuming a token?  `ne` = "the input is known to be non-empty".
    Conservative (syntactic), relative to claimed tables for nonterminals and cached parsers. -/
def nullable (nulΓ nulΔ : Nat → Bool → Bool) : Bool → G → Bool
  | _, .tok _ => false
  | _, .identVal _ => false
  | _, .eps _ => true
  | ne, .seq a b => nullable nulΓ nulΔ ne a && nullable nulΓ nulΔ ne b
  | ne, .alt a b => nullable nulΓ nulΔ ne a || nullable nulΓ nulΔ ne b
  | _, .opt _ => true
  | ne, .ref n => nulΓ n ne
  | ne, .memo c _ => nulΔ c ne
  | ne, .map _ g => nullable nulΓ nulΔ ne g
  | ne, .check _ _ g => nullable nulΓ nulΔ ne g
  | ne, .ifTok _ _ b => nullable nulΓ nulΔ ne b
  | ne, .ifEof _ b => if ne then nullable nulΓ nulΔ true b else true
  | ne, .recover m g =>
    match m with
    | .skipTok => if ne then nullable nulΓ nulΔ true g else true
    | .topSpan => if ne then nullable nulΓ nulΔ true g else true
    | .span => true
    | .silentAt => true
  | _, .catchErr _ => true
  | ne, .dep a _ _ => nullable nulΓ nulΔ ne a
  | ne, .emit _ g => nullable nulΓ nulΔ ne g
  | _, .reslice _ _ => true
  | _, .skipTo _ => true
  | ne, .prepend _ g => nullable nulΓ nulΔ ne g

/-- every nonterminal / cached parser reachable before a token is consumed has rank `< k` -/
def headOK (nulΓ nulΔ : Nat → Bool → Bool) (rkΓ rkΔ : Nat → Nat) : Bool → Nat → G → Bool
  | _, _, .tok _ => true
  | _, _, .identVal _ => true
  | _, _, .eps _ => true
  | ne, k, .seq a b =>
    headOK nulΓ nulΔ rkΓ rkΔ ne k a && (!(nullable nulΓ nulΔ ne a) || headOK nulΓ nulΔ rkΓ rkΔ ne k b)
  | ne, k, .alt a b => headOK nulΓ nulΔ rkΓ rkΔ ne k a && headOK nulΓ nulΔ rkΓ rkΔ ne k b
  | ne, k, .opt a => headOK nulΓ nulΔ rkΓ rkΔ ne k a
  | _, k, .ref n => decide (rkΓ n < k)
  | _, k, .memo c _ => decide (rkΔ c < k)
  | ne, k, .map _ g => headOK nulΓ nulΔ rkΓ rkΔ ne k g
  | ne, k, .check _ _ g => headOK nulΓ nulΔ rkΓ rkΔ ne k g
  | ne, k, .ifTok _ _ b => headOK nulΓ nulΔ rkΓ rkΔ ne k b
  | _, k, .ifEof a b => headOK nulΓ nulΔ rkΓ rkΔ false k a && headOK nulΓ nulΔ rkΓ rkΔ true k b
  | ne, k, .recover _ g => headOK nulΓ nulΔ rkΓ rkΔ ne k g
  | ne, k, .catchErr g => headOK nulΓ nulΔ rkΓ rkΔ ne k g
  | ne, k, .dep a _ b =>
    headOK nulΓ nulΔ rkΓ rkΔ ne k a && (!(nullable nulΓ nulΔ ne a) || headOK nulΓ nulΔ rkΓ rkΔ ne k b)
  | ne, k, .emit _ g => headOK nulΓ nulΔ rkΓ rkΔ ne k g
  | _, k, .reslice _ inner => headOK nulΓ nulΔ rkΓ rkΔ true k inner
  | _, _, .skipTo _ => true
  | ne, k, .prepend _ g => headOK nulΓ nulΔ rkΓ rkΔ ne k g

/-- every nonterminal / cached parser mentioned anywhere has rank `< K` -/
def allOK (rkΓ rkΔ : Nat → Nat) (K : Nat) : G → Bool
  | .tok _ => true | .identVal _ => true | .eps _ => true | .skipTo _ => true
  | .ref n => decide (rkΓ n < K)
  | .memo c _ => decide (rkΔ c < K)
  | .seq a b => allOK rkΓ rkΔ K a && allOK rkΓ rkΔ K b
  | .alt a b => allOK rkΓ rkΔ K a && allOK rkΓ rkΔ K b
  | .opt a => allOK rkΓ rkΔ K a
  | .map _ g => allOK rkΓ rkΔ K g
  | .check _ _ g => allOK rkΓ rkΔ K g
  | .ifTok _ a b => allOK rkΓ rkΔ K a && allOK rkΓ rkΔ K b
  | .ifEof a b => allOK rkΓ rkΔ K a && allOK rkΓ rkΔ K b
  | .recover _ g => allOK rkΓ rkΔ K g
  | .catchErr g => allOK rkΓ rkΔ K g
  | .dep a _ b => allOK rkΓ rkΔ K a && allOK rkΓ rkΔ K b
  | .emit _ g => allOK rkΓ rkΔ K g
  | .reslice _ inner => allOK rkΓ rkΔ K inner
  | .prepend _ g => allOK rkΓ rkΔ K g

structure WF (Γ Δ : Nat → G) (nulΓ nulΔ : Nat → Bool → Bool) (rkΓ rkΔ : Nat → Nat) (K S : Nat) : Prop where
  sizeΓ : ∀ n, (Γ n).size ≤ S
  sizeΔ : ∀ c, (Δ c).size ≤ S
  allΓ  : ∀ n, allOK rkΓ rkΔ K (Γ n) = true
  allΔ  : ∀ c, allOK rkΓ rkΔ K (Δ c) = true
  headΓ : ∀ n ne, headOK nulΓ nulΔ rkΓ rkΔ ne (rkΓ n) (Γ n) = true
  headΔ : ∀ c ne, headOK nulΓ nulΔ rkΓ rkΔ ne (rkΔ c) (Δ c) = true
  nulΓs : ∀ n ne, nullable nulΓ nulΔ ne (Γ n) = true → nulΓ n ne = true
  nulΔs : ∀ c ne, nullable nulΓ nulΔ ne (Δ c) = true → nulΔ c ne = true

theorem allOK_head {nulΓ nulΔ rkΓ rkΔ K} : ∀ (g : G) (ne : Bool),
    allOK rkΓ rkΔ K g = true → headOK nulΓ nulΔ rkΓ rkΔ ne K g = true := by
  intro g
  induction g with
  | tok _ => intros; rfl
  | identVal _ => intros; rfl
  | eps _ => intros; rfl
  | skipTo _ => intros; rfl
  | ref n => intro ne h; simpa [allOK, headOK] using h
  | memo c e => intro ne h; simpa [allOK, headOK] using h
  | seq a b iha ihb =>
    intro ne h; simp only [allOK, Bool.and_eq_true] at h
    simp only [headOK, Bool.and_eq_true, Bool.or_eq_true]
    exact ⟨iha ne h.1, Or.inr (ihb ne h.2)⟩
  | alt a b iha ihb =>
    intro ne h; simp only [allOK, Bool.and_eq_true] at h
    simp only [headOK, Bool.and_eq_true]; exact ⟨iha ne h.1, ihb ne h.2⟩
  | opt a ih => intro ne h; exact ih ne (by simpa [allOK] using h)
  | map _ g ih => intro ne h; exact ih ne (by simpa [allOK] using h)
  | check _ _ g ih => intro ne h; exact ih ne (by simpa [allOK] using h)
  | ifTok _ a b _ ihb => intro ne h; simp only [allOK, Bool.and_eq_true] at h; exact ihb ne h.2
  | ifEof a b iha ihb =>
    intro ne h; simp only [allOK, Bool.and_eq_true] at h
    simp only [headOK, Bool.and_eq_true]; exact ⟨iha false h.1, ihb true h.2⟩
  | recover _ g ih => intro ne h; exact ih ne (by simpa [allOK] using h)
  | catchErr g ih => intro ne h; exact ih ne (by simpa [allOK] using h)
  | dep a _ b iha ihb =>
    intro ne h; simp only [allOK, Bool.and_eq_true] at h
    simp only [headOK, Bool.and_eq_true, Bool.or_eq_true]
    exact ⟨iha ne h.1, Or.inr (ihb ne h.2)⟩
  | emit _ g ih => intro ne h; exact ih ne (by simpa [allOK] using h)
  | reslice _ inner ih => intro ne h; exact ih true (by simpa [allOK] using h)
  | prepend _ g ih => intro ne h; exact ih ne (by simpa [allOK] using h)

/-! ### consumption -/

theorem expTokGo_consumes (k : Kind) (orig : List Tok) : ∀ (l r : List Tok) (v : Tree),
    expTokGo k orig l = .ok r v → r.length < l.length := by
  intro l
  induction l with
  | nil => intro r v h; simp [expTokGo] at h
  | cons t rest ih =>
    intro r v h
    simp only [expTokGo] at h
    split at h
    · cases h; simp
    · split at h
      · have := ih r v h; simp; omega
      · cases h

theorem expIdentGo_consumes (s : String) (orig : List Tok) : ∀ (l r : List Tok) (v : Tree),
    expIdentGo s orig l = .ok r v → r.length < l.length := by
  intro l
  induction l with
  | nil => intro r v h; simp [expIdentGo] at h
  | cons t rest ih =>
    intro r v h
    simp only [expIdentGo] at h
    split at h
    · cases h; simp
    · split at h
      · have := ih r v h; simp; omega
      · cases h

theorem suffix_len {a b : List Tok} (h : a <:+ b) : a.length ≤ b.length := h.length_le

theorem suffix_eq_of_len {a b : List Tok} (h : a <:+ b) (hl : a.length = b.length) : a = b :=
  h.eq_of_length hl

theorem recoverStep_consumes (m : RecMode) (ts e : List Tok) (msg : String) (h : e <:+ ts) (hne : ts ≠ [])
    (hm : m = .skipTok ∨ m = .topSpan) : (recoverStep m ts e msg).1.length < ts.length := by
  have hl := suffix_len h
  have hpos : 0 < ts.length := by cases ts with | nil => exact absurd rfl hne | cons _ _ => simp
  rcases hm with rfl | rfl <;> simp only [recoverStep] <;> split <;> simp <;> omega

variable {Γ Δ : Nat → G} {nulΓ nulΔ : Nat → Bool → Bool} {rkΓ rkΔ : Nat → Nat} {K S : Nat}

/-- a non-nullable expression that succeeds has consumed at least one token -/
theorem consumes (W : WF Γ Δ nulΓ nulΔ rkΓ rkΔ K S) : ∀ (f : Nat) (g : G) (ts r : List Tok) (v : Tree) (ne : Bool),
    (runP Γ Δ f g ts).1 = .ok r v → nullable nulΓ nulΔ ne g = false → (ne = true → ts ≠ []) →
    r.length < ts.length := by
  intro f
  induction f with
  | zero => intro g ts r v ne h; simp [runP] at h
  | succ f ih =>
    intro g ts r v ne h hn hne
    cases g with
    | tok k => simp only [runP] at h; exact expTokGo_consumes k ts ts r v h
    | identVal s => simp only [runP] at h; exact expIdentGo_consumes s ts ts r v h
    | eps _ => simp [nullable] at hn
    | opt _ => simp [nullable] at hn
    | catchErr _ => simp [nullable] at hn
    | reslice _ _ => simp [nullable] at hn
    | skipTo _ => simp [nullable] at hn
    | seq a b =>
      simp only [runP] at h
      rcases hqa : runP Γ Δ f a ts with ⟨ra, da⟩
      rw [hqa] at h
      cases ra with
      | fuel => simp at h
      | err e m => simp at h
      | ok r1 va =>
        simp only at h
        rcases hqb : runP Γ Δ f b r1 with ⟨rb, db⟩
        rw [hqb] at h
        cases rb with
        | fuel => simp at h
        | err e m => simp at h
        | ok r2 vb =>
          simp only at h
          injection h with h1 _
          subst h1
          have sa : r1 <:+ ts := by have := runP_suffix Γ Δ f a ts; rw [hqa] at this; exact this
          have sb : r2 <:+ r1 := by have := runP_suffix Γ Δ f b r1; rw [hqb] at this; exact this
          have l1 := suffix_len sa
          have l2 := suffix_len sb
          simp only [nullable, Bool.and_eq_false_iff] at hn
          rcases hn with hn1 | hn2
          · have := ih a ts r1 va ne (by rw [hqa]) hn1 hne; omega
          · rcases Nat.lt_or_ge r1.length ts.length with hlt | hge
            · omega
            · have e := suffix_eq_of_len sa (by omega)
              subst e
              have := ih b r1 r2 vb ne (by rw [hqb]) hn2 hne; omega
    | alt a b =>
      simp only [nullable, Bool.or_eq_false_iff] at hn
      simp only [runP] at h
      rcases hqa : runP Γ Δ f a ts with ⟨ra, da⟩
      rw [hqa] at h
      cases ra with
      | fuel => simp at h
      | ok r1 va => simp only at h; cases h; exact ih a ts _ _ ne (by rw [hqa]) hn.1 hne
      | err e1 m1 =>
        simp only at h
        rcases hqb : runP Γ Δ f b ts with ⟨rb, db⟩
        rw [hqb] at h
        cases rb with
        | fuel => simp at h
        | err e2 m2 => simp only at h; split at h <;> cases h
        | ok r2 vb => simp only at h; cases h; exact ih b ts _ _ ne (by rw [hqb]) hn.2 hne
    | ref n =>
      simp only [runP] at h
      simp only [nullable] at hn
      have : nullable nulΓ nulΔ ne (Γ n) = false := by
        cases hq : nullable nulΓ nulΔ ne (Γ n) with
        | false => rfl
        | true => have := W.nulΓs n ne hq; simp [hn] at this
      exact ih _ _ _ _ ne h this hne
    | memo c e =>
      simp only [runP] at h
      simp only [nullable] at hn
      have : nullable nulΓ nulΔ ne (Δ c) = false := by
        cases hq : nullable nulΓ nulΔ ne (Δ c) with
        | false => rfl
        | true => have := W.nulΔs c ne hq; simp [hn] at this
      exact ih _ _ _ _ ne h this hne
    | map fn g =>
      simp only [runP] at h
      simp only [nullable] at hn
      rcases hq : runP Γ Δ f g ts with ⟨rg, dg⟩
      rw [hq] at h
      cases rg with
      | fuel => simp at h
      | err e m => simp at h
      | ok r1 v1 => simp only at h; cases h; exact ih g ts _ _ ne (by rw [hq]) hn hne
    | check p msg g =>
      simp only [runP] at h
      simp only [nullable] at hn
      rcases hq : runP Γ Δ f g ts with ⟨rg, dg⟩
      rw [hq] at h
      cases rg with
      | fuel => simp at h
      | err e m => simp at h
      | ok r1 v1 =>
        simp only at h
        split at h
        · cases h; exact ih g ts _ _ ne (by rw [hq]) hn hne
        · cases h
    | emit fn g =>
      simp only [runP] at h
      simp only [nullable] at hn
      rcases hq : runP Γ Δ f g ts with ⟨rg, dg⟩
      rw [hq] at h
      cases rg with
      | fuel => simp at h
      | err e m => simp at h
      | ok r1 v1 => simp only at h; cases h; exact ih g ts _ _ ne (by rw [hq]) hn hne
    | prepend s g =>
      simp only [runP] at h
      simp only [nullable] at hn
      rcases hq : runP Γ Δ f g ts with ⟨rg, dg⟩
      rw [hq] at h
      cases rg with
      | fuel => simp at h
      | err e m => simp at h
      | ok r1 v1 => simp only at h; cases h; exact ih g ts _ _ ne (by rw [hq]) hn hne
    | ifTok ks a b =>
      simp only [runP] at h
      simp only [nullable] at hn
      split at h
      · rename_i t rest hfr
        obtain ⟨hs, hl⟩ := firstReal_suffix ts t rest hfr
        split at h
        · rcases hq : runP Γ Δ f a rest with ⟨ra, da⟩
          rw [hq] at h
          cases ra with
          | fuel => simp at h
          | err e m => simp at h
          | ok r1 v1 =>
            simp only at h; cases h
            have : r <:+ rest := by have := runP_suffix Γ Δ f a rest; rw [hq] at this; exact this
            have := suffix_len this; omega
        · exact ih b ts _ _ ne h hn hne
      · exact ih b ts _ _ ne h hn hne
    | ifEof a b =>
      simp only [nullable] at hn
      cases ne with
      | false => simp at hn
      | true =>
        simp only [↓reduceIte] at hn
        cases ts with
        | nil => exact absurd rfl (hne rfl)
        | cons x xs =>
          simp only [runP] at h
          exact ih b (x :: xs) _ _ true h hn (fun _ => by simp)
    | recover m g =>
      simp only [runP] at h
      have hcase : ne = true ∧ (m = .skipTok ∨ m = .topSpan) ∧ nullable nulΓ nulΔ true g = false := by
        cases m <;> cases ne <;> simp [nullable] at hn ⊢ <;> exact hn
      obtain ⟨rfl, hm, hg⟩ := hcase
      have hts := hne rfl
      rcases hq : runP Γ Δ f g ts with ⟨rg, dg⟩
      rw [hq] at h
      cases rg with
      | fuel => simp at h
      | ok r1 v1 => simp only at h; cases h; exact ih g ts _ _ true (by rw [hq]) hg hne
      | err e msg =>
        simp only at h
        cases h
        have he : e <:+ ts := by have := runP_suffix Γ Δ f g ts; rw [hq] at this; exact this
        exact recoverStep_consumes m ts e msg he hts hm
    | dep a test b =>
      simp only [runP] at h
      simp only [nullable] at hn
      rcases hqa : runP Γ Δ f a ts with ⟨ra, da⟩
      rw [hqa] at h
      cases ra with
      | fuel => simp at h
      | err e m => simp at h
      | ok r1 va =>
        have l1 := ih a ts r1 va ne (by rw [hqa]) hn hne
        simp only at h
        split at h
        · rcases hqb : runP Γ Δ f b r1 with ⟨rb, db⟩
          rw [hqb] at h
          cases rb with
          | fuel => simp at h
          | err e m => simp at h
          | ok r2 vb =>
            simp only at h; cases h
            have sb : r <:+ r1 := by have := runP_suffix Γ Δ f b r1; rw [hqb] at this; exact this
            have := suffix_len sb; omega
        · cases h; exact l1

end Gold.Peg
