import GoldModel.Model.Render
import GoldModel.Lemmas.LexerProps
/-!
Helper lemmas for the text-level round trip (`Props/C06Text.lean`): lexing a rendered word list.

* table facts (re-checked against the regenerated tables on every build): a space ends every word /
  number / `#n` literal, never is the second char of a double operator; number-start chars are not
  word-start chars; the chars `read_symbol` dispatches on start neither a word nor a number;
* `Reads upper w` — `readItem`, started on the spelling of `w` followed by the end of the text or a
  blank char, returns exactly the token of `w` and stops exactly behind the spelling; one lemma per
  clause of `Word.Valid` (`reads_word`, `reads_num`, `reads_str1`, …), collected in `valid_reads`;
* `lexLoop_render` — the induction over the word list (any fuel above the length of the text);
* `expect_getElem`, `render_at` — the fields of the expected tokens and that the spelling stands
  at the token's offset in the text; `valid_plain_or_quoted` — every word except a quoted literal
  is its own value (so end column = start column + length of the spelling);
* `wordOf_valid` — the executable classifier only returns valid words;
* `comment_glues` — why comments are not words.
-/
namespace Gold.Lex

/-- what may follow a word in a rendered text: nothing, or a blank char (space, tab, LF, CR) -/
def SepOk (rest : List Char) : Prop := rest = [] ∨ ∃ b r, rest = b :: r ∧ isBlank b

theorem sepOk_space (r : List Char) : SepOk (' ' :: r) := Or.inr ⟨' ', r, rfl, by simp [isBlank]⟩

theorem takeWhile_stop {p : Char → Bool} (a rest : List Char) (ha : ∀ x ∈ a, p x = true)
    (hsp : ∀ b, isBlank b → p b = false) (hr : SepOk rest) :
    (a ++ rest).takeWhile p = a ∧ (a ++ rest).dropWhile p = rest := by
  induction a with
  | nil =>
    rcases hr with rfl | ⟨b, r, rfl, hb⟩
    · simp
    · simp [hsp b hb]
  | cons x a ih =>
    have hx := ha x (by simp)
    have := ih (fun y hy => ha y (by simp [hy]))
    simp [hx, this]

theorem skipWs_nonblank (c : Char) (r : List Char) (off : Nat) (lp : List Nat) (hc : ¬ isBlank c) :
    skipWs (c :: r) off lp = (c :: r, off, lp) := by
  simp only [isBlank, not_or] at hc
  obtain ⟨h1, h2, h3, h4⟩ := hc
  cases r <;> simp [skipWs, h1, h2, h3, h4]

theorem skipWs_space (c : Char) (r : List Char) (off : Nat) (lp : List Nat) :
    skipWs (' ' :: c :: r) off lp = skipWs (c :: r) (off + 1) lp := by
  simp [skipWs]

/-! ### facts about the generated tables -/

theorem wordCont_space (b : Char) (h : isBlank b) : isWordCont b = false := by
  rcases h with e | e | e | e <;> (subst e; decide)
theorem numCont_space (b : Char) (h : isBlank b) : isNumCont b = false := by
  rcases h with e | e | e | e <;> (subst e; decide)
theorem digit_space (b : Char) (h : isBlank b) : isDigit09 b = false := by
  rcases h with e | e | e | e <;> (subst e; decide)

def blankb (c : Char) : Bool := c = ' ' || c = '\t' || c = '\n' || c = '\r'

theorem blankb_iff (c : Char) : blankb c = true ↔ isBlank c := by simp [blankb, isBlank, or_assoc]

theorem wordStart_nonblank (c : Char) (h : isWordStart c = true) : ¬ isBlank c := by
  intro hb
  rcases hb with e | e | e | e <;> (subst e; revert h; decide)

theorem numStart_nonblank (c : Char) (h : isNumStart c = true) : ¬ isBlank c := by
  intro hb
  rcases hb with e | e | e | e <;> (subst e; revert h; decide)

/-- two character classes whose ranges are pairwise disjoint have no char in common -/
theorem class_disjoint (A B : List (Char × Char))
    (h : A.all (fun p => B.all (fun q => decide (p.2 < q.1) || decide (q.2 < p.1))) = true) (c : Char)
    (hA : inClass A c = true) : inClass B c = false := by
  cases hB : inClass B c with
  | false => rfl
  | true =>
    exfalso
    simp only [inClass, List.any_eq_true, Bool.and_eq_true, decide_eq_true_eq] at hA hB
    obtain ⟨p, hp, hp1, hp2⟩ := hA
    obtain ⟨q, hq, hq1, hq2⟩ := hB
    have := List.all_eq_true.mp (List.all_eq_true.mp h p hp) q hq
    simp only [Bool.or_eq_true, decide_eq_true_eq] at this
    simp only [Char.le_def, Char.lt_def, UInt32.le_iff_toNat_le, UInt32.lt_iff_toNat_lt] at *
    omega

theorem numStart_notWord (c : Char) (h : isNumStart c = true) : isWordStart c = false :=
  class_disjoint numStartClass wordStartClass (by decide) c h

/-- no char that `read_symbol` dispatches on starts a word or a number, and none is blank -/
theorem sym_keys_tbl :
    symDispatch.all (fun p => !isWordStart p.1 && !isNumStart p.1 && !blankb p.1) = true := by decide +kernel

theorem sym_key (c : Char) (a : SymAction) (h : symDispatch.lookup c = some a) :
    isWordStart c = false ∧ isNumStart c = false ∧ ¬ isBlank c := by
  have := List.all_eq_true.mp sym_keys_tbl _ (mem_of_lookup _ _ _ h)
  simp only [Bool.and_eq_true, Bool.not_eq_true'] at this
  refine ⟨this.1.1, this.1.2, ?_⟩
  rw [← blankb_iff]; simp [this.2]

/-- every first char of `read_double_char_op` is dispatched to it, and a blank is never a second char -/
theorem dbl_keys_tbl :
    dblTable.all (fun e => symDispatch.lookup e.1 == some .doubleOp &&
      [' ', '\t', '\n', '\r'].all (fun b => (e.2.1.lookup b).isNone)) = true := by
  decide +kernel

theorem dbl_key (c : Char) (ds) (single : Kind × String) (h : dblTable.lookup c = some (ds, single)) :
    symDispatch.lookup c = some .doubleOp ∧ ∀ b, isBlank b → ds.lookup b = none := by
  have := List.all_eq_true.mp dbl_keys_tbl _ (mem_of_lookup _ _ _ h)
  simp only [Bool.and_eq_true, beq_iff_eq, List.all_cons, List.all_nil, Bool.and_true, Option.isNone_iff_eq_none] at this
  refine ⟨this.1, ?_⟩
  intro b hb
  rcases hb with e | e | e | e <;> (subst e; simp [this.2])

theorem quote1_dispatch : symDispatch.lookup '\'' = some .strSingle := by decide
theorem quote2_dispatch : symDispatch.lookup '"' = some .strDouble := by decide
theorem hash_dispatch : symDispatch.lookup '#' = some .intChar := by decide


/-! ### one lemma per word class: the reader returns the word's token and stops behind the spelling -/


/-- the reader, started at the first char of the spelling of `w` (followed by `rest`), returns
    exactly the token of `w`, stops exactly behind the spelling and leaves `line_pos` alone -/
def Reads (upper : String → String) (w : Word) : Prop :=
  ∃ c m, w.spelling = c :: m ∧ ¬ isBlank c ∧ ∀ rest off lp, SepOk rest →
    readItem upper true c (m ++ rest) off lp
      = ⟨.inl (mkToken lp off w.kind w.value w.spelling.length), rest, off + w.spelling.length, lp⟩

theorem reads_word (upper : String → String) (c : Char) (m : List Char) (hc : isWordStart c = true)
    (hm : ∀ d ∈ m, isWordCont d = true) : Reads upper ⟨classify upper (c :: m), c :: m, c :: m⟩ := by
  refine ⟨c, m, rfl, wordStart_nonblank c hc, ?_⟩
  intro rest off lp hr
  have hall : ∀ x ∈ c :: m, isWordCont x = true := by
    intro x hx
    simp only [List.mem_cons] at hx
    rcases hx with rfl | hx
    · exact wordStart_cont _ hc
    · exact hm x hx
  obtain ⟨h1, h2⟩ := takeWhile_stop (p := isWordCont) (c :: m) rest hall wordCont_space hr
  simp only [List.cons_append] at h1 h2
  simp only [readItem, hc, if_true, h1, h2]

theorem reads_num (upper : String → String) (c : Char) (m : List Char) (hc : isNumStart c = true)
    (hm : ∀ d ∈ m, isNumCont d = true) : Reads upper ⟨.NumericLiteral, c :: m, c :: m⟩ := by
  refine ⟨c, m, rfl, numStart_nonblank c hc, ?_⟩
  intro rest off lp hr
  have hall : ∀ x ∈ c :: m, isNumCont x = true := by
    intro x hx
    simp only [List.mem_cons] at hx
    rcases hx with rfl | hx
    · exact numStart_cont _ hc
    · exact hm x hx
  obtain ⟨h1, h2⟩ := takeWhile_stop (p := isNumCont) (c :: m) rest hall numCont_space hr
  simp only [List.cons_append] at h1 h2
  simp only [readItem, numStart_notWord c hc, hc, if_true, h1, h2, Bool.false_eq_true, if_false]

theorem readItem_symbol (upper : String → String) (c : Char) (a : SymAction) (h : symDispatch.lookup c = some a)
    (r : List Char) (off : Nat) (lp : List Nat) :
    readItem upper true c r off lp = readSymbol true c r off lp := by
  obtain ⟨h1, h2, _⟩ := sym_key c a h
  simp [readItem, h1, h2]

theorem reads_sym (upper : String → String) (c : Char) (k : Kind) (h : symDispatch.lookup c = some (.tok k)) :
    Reads upper ⟨k, [c], [c]⟩ := by
  refine ⟨c, [], rfl, (sym_key c _ h).2.2, ?_⟩
  intro rest off lp _
  rw [readItem_symbol upper c _ h]
  simp [readSymbol, h]

theorem reads_op1 (upper : String → String) (c : Char) (ds) (single : Kind × String)
    (h : dblTable.lookup c = some (ds, single)) : Reads upper ⟨single.1, [c], single.2.toList⟩ := by
  obtain ⟨hd, hsp⟩ := dbl_key c ds single h
  refine ⟨c, [], rfl, (sym_key c _ hd).2.2, ?_⟩
  intro rest off lp hr
  rw [readItem_symbol upper c _ hd]
  rcases hr with rfl | ⟨b, r, rfl, hb⟩
  · simp [readSymbol, hd, readDouble, h]
  · simp [readSymbol, hd, readDouble, h, hsp b hb]

theorem reads_op2 (upper : String → String) (c d : Char) (ds) (single : Kind × String) (k : Kind) (v : String)
    (h : dblTable.lookup c = some (ds, single)) (h2 : ds.lookup d = some (k, v)) :
    Reads upper ⟨k, [c, d], v.toList⟩ := by
  obtain ⟨hd, _⟩ := dbl_key c ds single h
  refine ⟨c, [d], rfl, (sym_key c _ hd).2.2, ?_⟩
  intro rest off lp _
  rw [readItem_symbol upper c _ hd]
  simp [readSymbol, hd, readDouble, h, h2]

theorem readStr1_cons (c : Char) (r : List Char) (off : Nat) (lp : List Nat) (h1 : c ≠ '\'') (h2 : c ≠ '\n') :
    readStr1 true (c :: r) off lp = (c :: (readStr1 true r (off + 1) lp).1, (readStr1 true r (off + 1) lp).2) := by
  rw [readStr1.eq_def]
  simp [h1, h2]
theorem readStr2_cons (c : Char) (r : List Char) (off : Nat) (lp : List Nat) (h1 : c ≠ '"') (h2 : c ≠ '\n') :
    readStr2 true (c :: r) off lp = (c :: (readStr2 true r (off + 1) lp).1, (readStr2 true r (off + 1) lp).2) := by
  rw [readStr2.eq_def]
  simp [h1, h2]

theorem readStr1_body (body rest : List Char) (h : ∀ d ∈ body, d ≠ '\'' ∧ d ≠ '\n') (hr : SepOk rest)
    (off : Nat) (lp : List Nat) :
    readStr1 true (body ++ '\'' :: rest) off lp = (body, rest, off + body.length + 1, lp) := by
  induction body generalizing off with
  | nil =>
    rcases hr with rfl | ⟨b, r, rfl, hb⟩
    · simp [readStr1]
    · have : b ≠ '\'' := by rcases hb with e | e | e | e <;> (subst e; decide)
      simp [readStr1, this]
  | cons x body ih =>
    obtain ⟨h1, h2⟩ := h x (by simp)
    have := ih (fun d hd => h d (by simp [hd])) (off + 1)
    rw [List.cons_append, readStr1_cons _ _ _ _ h1 h2, this]
    simp only [List.length_cons, Prod.mk.injEq, true_and, and_true]
    omega

theorem readStr2_body (body rest : List Char) (h : ∀ d ∈ body, d ≠ '"' ∧ d ≠ '\n')
    (off : Nat) (lp : List Nat) :
    readStr2 true (body ++ '"' :: rest) off lp = (body, rest, off + body.length + 1, lp) := by
  induction body generalizing off with
  | nil => simp [readStr2]
  | cons x body ih =>
    obtain ⟨h1, h2⟩ := h x (by simp)
    have := ih (fun d hd => h d (by simp [hd])) (off + 1)
    rw [List.cons_append, readStr2_cons _ _ _ _ h1 h2, this]
    simp only [List.length_cons, Prod.mk.injEq, true_and, and_true]
    omega

theorem reads_str1 (upper : String → String) (body : List Char) (h : ∀ d ∈ body, d ≠ '\'' ∧ d ≠ '\n') :
    Reads upper ⟨.StringLiteral, '\'' :: (body ++ ['\'']), body⟩ := by
  refine ⟨'\'', body ++ ['\''], rfl, by decide, ?_⟩
  intro rest off lp hr
  rw [readItem_symbol upper _ _ quote1_dispatch]
  have := readStr1_body body rest h hr (off + 1) lp
  simp only [List.append_assoc, List.singleton_append]
  simp only [readSymbol, quote1_dispatch, this, List.length_cons, List.length_append, List.length_nil]
  simp only [Step.mk.injEq, and_true, true_and]
  refine ⟨?_, by omega⟩
  congr 2; omega

theorem reads_str2 (upper : String → String) (body : List Char) (h : ∀ d ∈ body, d ≠ '"' ∧ d ≠ '\n') :
    Reads upper ⟨.StringLiteral, '"' :: (body ++ ['"']), body⟩ := by
  refine ⟨'"', body ++ ['"'], rfl, by decide, ?_⟩
  intro rest off lp hr
  rw [readItem_symbol upper _ _ quote2_dispatch]
  have := readStr2_body body rest h (off + 1) lp
  simp only [List.append_assoc, List.singleton_append]
  simp only [readSymbol, quote2_dispatch, this, List.length_cons, List.length_append, List.length_nil]
  simp only [Step.mk.injEq, and_true, true_and]
  refine ⟨?_, by omega⟩
  congr 2; omega

theorem reads_pound (upper : String → String) : Reads upper ⟨.Pound, ['#'], ['#']⟩ := by
  refine ⟨'#', [], rfl, by decide, ?_⟩
  intro rest off lp hr
  rw [readItem_symbol upper _ _ hash_dispatch]
  rcases hr with rfl | ⟨b, r, rfl, hb⟩
  · simp [readSymbol, hash_dispatch]
  · simp [readSymbol, hash_dispatch, digit_space b hb]

theorem reads_charLit (upper : String → String) (c : Char) (ds : List Char) (h : ∀ d ∈ c :: ds, isDigit09 d = true) :
    Reads upper ⟨.StringLiteral, '#' :: c :: ds, '#' :: c :: ds⟩ := by
  refine ⟨'#', c :: ds, rfl, by decide, ?_⟩
  intro rest off lp hr
  rw [readItem_symbol upper _ _ hash_dispatch]
  obtain ⟨h1, h2⟩ := takeWhile_stop (p := isDigit09) (c :: ds) rest h digit_space hr
  simp only [readSymbol, hash_dispatch, h1, h2]
  simp only [List.isEmpty_cons, Bool.false_eq_true, if_false, List.length_cons, Step.mk.injEq, and_true, true_and]
  refine ⟨?_, by omega⟩
  congr 2; omega

theorem valid_reads (upper : String → String) (w : Word) (h : w.Valid upper) : Reads upper w := by
  cases h with
  | word c m hc hm => exact reads_word upper c m hc hm
  | num c m hc hm => exact reads_num upper c m hc hm
  | str1 body h => exact reads_str1 upper body h
  | str2 body h => exact reads_str2 upper body h
  | sym c k h => exact reads_sym upper c k h
  | op1 c ds single h => exact reads_op1 upper c ds single h
  | op2 c d ds single k v h h2 => exact reads_op2 upper c d ds single k v h h2
  | pound => exact reads_pound upper
  | charLit c ds h => exact reads_charLit upper c ds h

/-! ### the loop over a rendered word list -/


theorem lexLoop_nil (upper : String → String) (fuel off : Nat) (lp : List Nat) :
    lexLoop upper true fuel [] off lp = ([], []) := by
  cases fuel <;> simp [lexLoop, skipWs]

/-- one iteration of the loop on the spelling of a valid word -/
theorem lexLoop_word (upper : String → String) (w : Word) (hw : Reads upper w) (rest : List Char) (hr : SepOk rest)
    (fuel off : Nat) (lp : List Nat) :
    lexLoop upper true (fuel + 1) (w.spelling ++ rest) off lp
      = (mkToken lp off w.kind w.value w.spelling.length :: (lexLoop upper true fuel rest (off + w.spelling.length) lp).1,
         (lexLoop upper true fuel rest (off + w.spelling.length) lp).2) := by
  obtain ⟨c, m, hs, hc, hread⟩ := hw
  have := hread rest off lp hr
  rw [hs] at this ⊢
  simp only [lexLoop, List.cons_append, skipWs_nonblank c (m ++ rest) off lp hc, this]

theorem lexLoop_space (upper : String → String) (c : Char) (r : List Char) (fuel off : Nat) (lp : List Nat) :
    lexLoop upper true (fuel + 1) (' ' :: c :: r) off lp = lexLoop upper true (fuel + 1) (c :: r) (off + 1) lp := by
  simp only [lexLoop, skipWs_space]

theorem render_cons_ne (w : Word) (ws : List Word) (h : w.spelling ≠ []) : render (w :: ws) ≠ [] := by
  cases ws <;> simp [render, h]

theorem lexLoop_render (upper : String → String) (ws : List Word) (h : ∀ w ∈ ws, w.Valid upper) :
    ∀ fuel off, (render ws).length < fuel → lexLoop upper true fuel (render ws) off [] = (expect off ws, []) := by
  induction ws with
  | nil => intro fuel off _; simp [render, expect, lexLoop_nil]
  | cons w ws ih =>
    intro fuel off hf
    have hw := valid_reads upper w (h w (by simp))
    cases fuel with
    | zero => omega
    | succ fuel =>
      cases ws with
      | nil =>
        have := lexLoop_word upper w hw [] (Or.inl rfl) fuel off []
        simp only [List.append_nil] at this
        simp only [render, expect, this, lexLoop_nil]
      | cons w' ws' =>
        have ih' := ih (fun x hx => h x (by simp [hx]))
        have hw' := valid_reads upper w' (h w' (by simp))
        obtain ⟨c', m', hs', _, _⟩ := hw'
        have hne : render (w' :: ws') ≠ [] := render_cons_ne w' ws' (by simp [hs'])
        have step := lexLoop_word upper w hw (' ' :: render (w' :: ws')) (sepOk_space _) fuel off []
        simp only [render] at hf ⊢
        rw [step]
        simp only [List.length_append, List.length_cons] at hf
        cases fuel with
        | zero => omega
        | succ fuel =>
          cases hr : render (w' :: ws') with
          | nil => exact absurd hr hne
          | cons c r =>
            rw [lexLoop_space, ← hr, ih' (fuel + 1) _ (by omega)]
            simp only [expect]


/-! ### the fields of the expected tokens, and where they sit in the rendered text -/

theorem mkToken_line0 (off : Nat) (k : Kind) (v : List Char) (n : Nat) :
    mkToken [] off k v n = ⟨k, v, off, ⟨0, off⟩, ⟨0, off + v.length⟩, n⟩ := by
  simp [mkToken, lcOf, endOf]

theorem expect_length (off : Nat) (ws : List Word) : (expect off ws).length = ws.length := by
  induction ws generalizing off with
  | nil => rfl
  | cons w ws ih => simp [expect, ih]

/-- offset of the `i`-th word in `render ws` -/
def wordOff : List Word → Nat → Nat
  | _, 0 => 0
  | [], _ + 1 => 0
  | w :: ws, i + 1 => w.spelling.length + 1 + wordOff ws i

theorem expect_getElem (off : Nat) (ws : List Word) (i : Nat) (hi : i < ws.length) :
    (expect off ws)[i]'(by rw [expect_length]; exact hi)
      = ⟨ws[i].kind, ws[i].value, off + wordOff ws i, ⟨0, off + wordOff ws i⟩,
          ⟨0, off + wordOff ws i + ws[i].value.length⟩, ws[i].spelling.length⟩ := by
  induction ws generalizing off i with
  | nil => simp at hi
  | cons w ws ih =>
    cases i with
    | zero => simp [expect, mkToken_line0, wordOff]
    | succ i =>
      simp only [expect, List.getElem_cons_succ, wordOff]
      rw [ih _ i (by simpa using hi)]
      simp only [Token.mk.injEq, Pos.mk.injEq, true_and, and_true]
      omega

/-- the spelling of the `i`-th word is what stands at its offset in the rendered text -/
theorem render_at (ws : List Word) (i : Nat) (hi : i < ws.length) :
    ((render ws).drop (wordOff ws i)).take ws[i].spelling.length = ws[i].spelling := by
  induction ws generalizing i with
  | nil => simp at hi
  | cons w ws ih =>
    cases i with
    | zero =>
      cases ws with
      | nil => simp [render, wordOff]
      | cons w' ws' => simp [render, wordOff]
    | succ i =>
      cases ws with
      | nil => simp at hi
      | cons w' ws' =>
        have := ih i (by simpa using hi)
        simp only [render, wordOff, List.getElem_cons_succ] at this ⊢
        rw [show w.spelling.length + 1 + wordOff (w' :: ws') i = w.spelling.length + (1 + wordOff (w' :: ws') i) by omega,
          ← List.drop_drop, List.drop_left, Nat.add_comm 1, ← List.drop_drop]
        simpa using this



/-! ### every word but a quoted literal is its own value -/

theorem valid_plain_or_quoted (upper : String → String) (w : Word) (h : w.Valid upper) :
    w.value = w.spelling ∨
    (w.kind = .StringLiteral ∧ ∃ q, (q = '\'' ∨ q = '"') ∧ w.spelling = q :: (w.value ++ [q])) := by
  cases h with
  | word c m hc hm => exact Or.inl rfl
  | num c m hc hm => exact Or.inl rfl
  | str1 body h => exact Or.inr ⟨rfl, '\'', Or.inl rfl, rfl⟩
  | str2 body h => exact Or.inr ⟨rfl, '"', Or.inr rfl, rfl⟩
  | sym c k h => exact Or.inl rfl
  | op1 c ds single h => exact Or.inl (dbl_single_value c ds single h)
  | op2 c d ds single k v h h2 => exact Or.inl (dbl_double_value c d ds single k v h h2).1
  | pound => exact Or.inl rfl
  | charLit c ds h => exact Or.inl rfl

/-! ### the executable classifier returns valid words only -/

theorem wordOf_valid (upper : String → String) (s : List Char) (w : Word) (h : wordOf upper s = some w) :
    w.Valid upper := by
  unfold wordOf at h
  split at h
  · simp at h
  · rename_i c m
    split at h
    · rename_i hc
      split at h
      · rename_i hm
        simp only [Option.some.injEq] at h; subst h
        exact .word c m hc (by simpa using hm)
      · simp at h
    · split at h
      · rename_i hc
        split at h
        · rename_i hm
          simp only [Option.some.injEq] at h; subst h
          exact .num c m hc (by simpa using hm)
        · simp at h
      · split at h
        · rename_i hq
          subst hq
          split at h
          · rename_i q b hrev
            split at h
            · rename_i hb
              simp only [Option.some.injEq] at h; subst h
              obtain ⟨hq, hb⟩ := hb
              subst hq
              have hm : m = b.reverse ++ ['\''] := by
                have := congrArg List.reverse hrev
                simpa using this
              rw [hm]
              exact .str1 b.reverse (by intro d hd; simpa using List.all_eq_true.mp hb d (by simpa using hd))
            · simp at h
          · simp at h
        · split at h
          · rename_i hq
            subst hq
            split at h
            · rename_i q b hrev
              split at h
              · rename_i hb
                simp only [Option.some.injEq] at h; subst h
                obtain ⟨hq, hb⟩ := hb
                subst hq
                have hm : m = b.reverse ++ ['"'] := by
                  have := congrArg List.reverse hrev
                  simpa using this
                rw [hm]
                exact .str2 b.reverse (by intro d hd; simpa using List.all_eq_true.mp hb d (by simpa using hd))
              · simp at h
            · simp at h
          · split at h
            · rename_i hq
              subst hq
              split at h
              · simp only [Option.some.injEq] at h; subst h; exact .pound
              · rename_i d ds
                split at h
                · rename_i hm
                  simp only [Option.some.injEq] at h; subst h
                  exact .charLit d ds (by simpa using hm)
                · simp at h
            · split at h
              · split at h
                · rename_i k hk
                  simp only [Option.some.injEq] at h; subst h
                  exact .sym c k hk
                · cases hl : dblTable.lookup c with
                  | none => simp [hl] at h
                  | some e =>
                    obtain ⟨ds, single⟩ := e
                    simp only [hl, Option.map_some, Option.some.injEq] at h; subst h
                    exact .op1 c ds single hl
                · simp at h
              · rename_i d
                split at h
                · rename_i ds single hl
                  cases hl2 : ds.lookup d with
                  | none => simp [hl2] at h
                  | some kv =>
                    obtain ⟨k, v⟩ := kv
                    simp only [hl2, Option.map_some, Option.some.injEq] at h; subst h
                    exact .op2 c d ds single k v hl hl2
                · simp at h
              · simp at h

/-! ### comments are not words: a `;` swallows what follows on the line, across the space -/

/-- `; a` rendered as two words (`;` and `a`) comes back as ONE comment token -/
theorem comment_glues :
    (lex asciiUpper (render [⟨.Comment, [';'], []⟩, ⟨.Identifier, ['a'], ['a']⟩])).1.map (fun t => (t.kind, t.value))
      = [(.Comment, [' ', 'a'])] := by decide +kernel

end Gold.Lex
