import GoldModel.Lemmas.Lint
/-!
The request as a whole (depends on the generated table of registered analyzers):

* `registered` — `manager/mod.rs` registers exactly the five analyzers of the model;
* `v2From_perm` — the shared collector of the three annotated-tree visitors holds an interleaving
  of their individual outputs; `lintEvents_union` — every item of a response comes from one analyzer;
* `lintEvents_split` — the response computed on visits cut at a method node is the union of the
  responses of the two pieces.
-/
namespace Gold.Lint
open Gold

/-- the registrations of `manager/mod.rs` are the analyzers this model describes (checked
    against the generated table: a newly registered or removed analyzer breaks this lemma) -/
theorem registered : E8.v1Analyzers = knownV1 ∧ E8.v2Analyzers = knownV2 := by decide

theorem unmodelled_nil : unmodelled = [] := by decide

theorem gate_v1 (n : String) (d : List LDiag) (h : knownV1.contains n = true) : gate E8.v1Analyzers n d = d := by
  rw [registered.1]; unfold gate; rw [if_pos h]

theorem gate_v2 (n : String) (d : List LDiag) (h : knownV2.contains n = true) : gate E8.v2Analyzers n d = d := by
  rw [registered.2]; unfold gate; rw [if_pos h]

theorem v2From_perm (cfg : Cfg) (norm : String → String) (su : List (String × TEntry Bool)) (si : ISt) (evs : List Ev) :
    (v2From cfg norm su si evs).Perm
      ((((upMachine cfg norm).runFrom su (evs.map (upAct cfg norm))).map (upRender cfg)) ++ nmRun evs ++
        (((ihMachine cfg norm).runFrom si (evs.map (ihAct cfg norm))).map ihRender)) := by
  induction evs generalizing su si with
  | nil =>
    simp only [v2From, List.map_nil, Machine.runFrom, nmRun, List.filterMap_nil, List.append_nil]
    rw [gate_v2 _ _ (by decide), gate_v2 _ _ (by decide)]
  | cons e rest ih =>
    simp only [v2From, List.map_cons, Machine.runFrom, nmRun, List.filterMap_cons, List.map_append]
    rw [gate_v2 _ _ (by decide), gate_v2 _ _ (by decide), gate_v2 _ _ (by decide)]
    refine List.Perm.trans (List.Perm.append_left _ (ih _ _)) ?_
    have := perm3 (((upMachine cfg norm).step su (upAct cfg norm e)).2.map (upRender cfg)) (nmOf e).toList
      (((ihMachine cfg norm).step si (ihAct cfg norm e)).2.map ihRender)
      (((upMachine cfg norm).runFrom ((upMachine cfg norm).step su (upAct cfg norm e)).1 (rest.map (upAct cfg norm))).map (upRender cfg))
      (nmRun rest)
      (((ihMachine cfg norm).runFrom ((ihMachine cfg norm).step si (ihAct cfg norm e)).1 (rest.map (ihAct cfg norm))).map ihRender)
    refine List.Perm.trans this ?_
    cases hn : nmOf e <;> simp [nmRun]

theorem v2_root (cfg : Cfg) (norm : String → String) (evs : List Ev) :
    v2 cfg norm (rootEv :: evs) = v2 cfg norm evs := by
  have h1 : upAct cfg norm rootEv = .other := by
    simp [upAct, rootEv, rootStub, isMethod, Tree.kind]
  have h2 : ihAct cfg norm rootEv = .other := by
    simp [ihAct, rootEv, rootStub, isMethod, Tree.kind]
  have h3 : nmOf rootEv = none := by
    simp [nmOf, rootEv, rootStub, Tree.kind]
  simp [v2, v2From, h1, h2, h3, upMachine, tracker, trackerStep, ihMachine, ihStep, gate]

/-- every item of a response comes from exactly one of the five analyzers -/
theorem lintEvents_union (cfg : Cfg) (norm : String → String) (evs : List Ev) :
    (lintEvents cfg norm evs).Perm
      (uvRun cfg norm evs ++ rtRun cfg norm evs ++ upRun cfg norm evs ++ nmRun evs ++ ihRun cfg norm evs) := by
  simp only [lintEvents, unmodelled_nil, List.map_nil, List.append_nil, v1, v2_root]
  rw [gate_v1 _ _ (by decide), gate_v1 _ _ (by decide)]
  have := v2From_perm cfg norm [] {} evs
  simp only [List.append_assoc]
  refine List.Perm.append_left _ (List.Perm.append_left _ ?_)
  simpa [v2, upRun, ihRun, Machine.run, upMachine, ihMachine, tracker, List.append_assoc] using this

theorem lintEvents_nil (cfg : Cfg) (norm : String → String) : lintEvents cfg norm [] = [] := by
  have := (lintEvents_union cfg norm []).length_eq
  simp [uvRun, uvRaw, rtRun, upRun, nmRun, ihRun, Machine.run, Machine.runFrom, tracker, report, upMachine,
    ihMachine, ihCheck] at this
  exact this

/-- the fold homomorphism: a response computed on visits cut at a method node is the union of
    the responses of the two pieces -/
theorem lintEvents_split (cfg : Cfg) (norm : String → String)
    (h1 : cfg.uv.resets = true) (h2 : cfg.up.resets = true) (h3 : cfg.ihResets = true)
    (e₁ : List Ev) {h : Ev} (hh : isMethod h.node = true) (e₂ : List Ev) :
    (lintEvents cfg norm (e₁ ++ h :: e₂)).Perm (lintEvents cfg norm e₁ ++ lintEvents cfg norm (h :: e₂)) := by
  refine (lintEvents_union cfg norm _).trans ?_
  refine List.Perm.trans ?_ (List.Perm.append (lintEvents_union cfg norm e₁) (lintEvents_union cfg norm (h :: e₂))).symm
  rw [uvRun_split cfg norm h1 e₁ hh, upRun_split cfg norm h2 e₁ hh, ihRun_split cfg norm h3 e₁ hh,
    rtRun_split, nmRun_split]
  exact perm5 _ _ _ _ _ _ _ _ _ _

/-- the response on a header followed by methods, by induction with `lintEvents_split` -/
theorem lintAll_cons (cfg : Cfg) (norm : String → String) (h1 : cfg.uv.resets = true) (h2 : cfg.up.resets = true)
    (h3 : cfg.ihResets = true) (pre : List Ev) (ms : List Method) :
    (lintEvents cfg norm (pre ++ ms.flatMap Method.evs)).Perm
      (lintEvents cfg norm pre ++ ms.flatMap (lintMethod cfg norm)) := by
  induction ms generalizing pre with
  | nil => simp
  | cons m rest ih =>
    simp only [List.flatMap_cons, Method.evs, List.cons_append]
    refine (lintEvents_split cfg norm h1 h2 h3 pre m.hhead _).trans ?_
    refine List.Perm.append_left _ ?_
    have := ih (m.head :: m.body)
    simp only [List.cons_append] at this
    refine this.trans ?_
    simp [lintMethod, Method.evs]

end Gold.Lint
