import GoldModel.Lemmas.PegMemoOuter
import GoldModel.Lemmas.PegOnce
import GoldModel.Lemmas.GoldWF
/-! the Gold grammar keeps its memoised parsers inside the cut-out method bodies -/
namespace Gold.Gram
open Gold Gold.Peg

/-- nonterminals used at file level (outside method bodies) -/
def outerNTs : List Nat :=
  [nTop, nType, nIdentList, nEnumRec, nParamRec, nRecFields, nMemberMods, nMethodMods, nComposedTail,
   nParamList, nTypeBasic, nIdentifier, nLiteralBasic, nAnnotations]

def isOuter (n : Nat) : Bool := outerNTs.contains n
/-- nonterminals that may run inside a method body: everything but the top level itself -/
def isInner (n : Nat) : Bool := n != nTop && n < numNT

theorem innerΓ_ok : (tblΓ.zipIdx.all fun p => !(isInner p.2) || innerOK isInner p.1) = true := by decide +kernel
theorem innerΔ_ok : (tblΔ.all fun g => innerOK isInner g) = true := by decide +kernel
theorem outerΓ_ok : (tblΓ.zipIdx.all fun p => !(isOuter p.2) || outerOK isOuter isInner p.1) = true := by decide +kernel

theorem gold_scoped : Scoped Γ Δ isOuter isInner := by
  refine ⟨?_, ?_, ?_⟩
  · intro n hn
    have hlt : n < tblΓ.length := by
      simp only [isInner, Bool.and_eq_true, decide_eq_true_eq] at hn
      have : tblΓ.length = numNT := by decide
      omega
    have := tbl_lookup (P := fun i g => !(isInner i) || innerOK isInner g) innerΓ_ok n hlt
    simpa [hn, Γ] using this
  · intro c
    rcases Nat.lt_or_ge c tblΔ.length with h | h
    · have hall := innerΔ_ok
      rw [List.all_eq_true] at hall
      have : tblΔ.getD c (.eps Tree.none) ∈ tblΔ := by
        simp [List.getD, h]
      exact hall _ this
    · have hg : Δ c = .eps Tree.none := by simp [Δ, List.getD, List.getElem?_eq_none h]
      rw [hg]; rfl
  · intro n hn
    rcases Nat.lt_or_ge n tblΓ.length with hlt | hge
    · have := tbl_lookup (P := fun i g => !(isOuter i) || outerOK isOuter isInner g) outerΓ_ok n hlt
      simpa [hn, Γ] using this
    · have hg : Γ n = .eps Tree.none := by simp [Γ, List.getD, List.getElem?_eq_none hge]
      rw [hg]; rfl

/-! every memoised parser of the Gold grammar caches failures as well as successes -/
theorem allErrsΓ_ok : (tblΓ.all allErrs) = true := by decide +kernel
theorem allErrsΔ_ok : (tblΔ.all allErrs) = true := by decide +kernel

theorem gold_allErrsΓ (n : Nat) : allErrs (Γ n) = true := by
  rcases Nat.lt_or_ge n tblΓ.length with h | h
  · have hall := allErrsΓ_ok
    rw [List.all_eq_true] at hall
    exact hall _ (by simp [Γ, List.getD, h])
  · have hg : Γ n = .eps Tree.none := by simp [Γ, List.getD, List.getElem?_eq_none h]
    rw [hg]; rfl

theorem gold_allErrsΔ (c : Nat) : allErrs (Δ c) = true := by
  rcases Nat.lt_or_ge c tblΔ.length with h | h
  · have hall := allErrsΔ_ok
    rw [List.all_eq_true] at hall
    exact hall _ (by simp [Δ, List.getD, h])
  · have hg : Δ c = .eps Tree.none := by simp [Δ, List.getD, List.getElem?_eq_none h]
    rw [hg]; rfl

end Gold.Gram
