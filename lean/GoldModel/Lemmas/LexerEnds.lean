import GoldModel.Lemmas.LexerProps
/-!
Helper lemmas for the END positions of the lexer's tokens (after the repair of `create_token`: a range
ends `value.chars().count()` columns behind its start).

* `readItem_stop` / `lexLoop_stop` — every token ends on its start line, `value.length` columns on, and
  its value is no longer than the lexeme it was read from (`t.value.length ≤ t.extent`: a quoted literal's
  value lacks the quotes, a comment's the `;`);
* `trueLineCol_mono` — positions of increasing offsets increase; on the same line the column grows by the
  number of chars in between;
* `lex_ends_pairwise` — hence every token of `lex` ENDS no later than any later token STARTS (lexicographic
  line / column order), whatever the kind — quoted literals spanning lines and comments included.
-/
namespace Gold.Lex

/-- lexicographic order on positions -/
def Pos.le (a b : Pos) : Prop := a.line < b.line ∨ (a.line = b.line ∧ a.col ≤ b.col)

instance (a b : Pos) : Decidable (Pos.le a b) := by unfold Pos.le; infer_instance

/-- what the repaired `create_token` guarantees for every token -/
def StopOK (t : Token) : Prop := t.stop = endOf t.start t.value.length ∧ t.value.length ≤ t.extent

theorem readStr1_value_le (rec : Bool) (r : List Char) (off : Nat) (lp : List Nat) :
    (readStr1 rec r off lp).1.length + off ≤ (readStr1 rec r off lp).2.2.1 := by
  fun_induction readStr1 rec r off lp
  case case1 => simp
  case case2 off lp r2 x ih => simp only [x, List.length_cons]; omega
  case case3 => simp
  case case4 => simp
  case case5 c r off lp h x ih => simp only [x, List.length_cons]; omega

theorem readStr2_value_le (rec : Bool) (r : List Char) (off : Nat) (lp : List Nat) :
    (readStr2 rec r off lp).1.length + off ≤ (readStr2 rec r off lp).2.2.1 := by
  fun_induction readStr2 rec r off lp
  case case1 => simp
  case case2 => simp
  case case3 c r off lp h x ih => simp only [x, List.length_cons]; omega

theorem mkToken_stopOK (lp : List Nat) (pos : Nat) (k : Kind) (v : List Char) (n : Nat) (h : v.length ≤ n) :
    StopOK (mkToken lp pos k v n) := ⟨rfl, h⟩

theorem readDouble_stop (c : Char) (r : List Char) (pos : Nat) (lp : List Nat) (t : Token)
    (h : (readDouble c r pos lp).item = .inl t) : StopOK t := by
  unfold readDouble at h
  cases he : dblTable.lookup c with
  | none => simp [he] at h
  | some e =>
    obtain ⟨ds, single⟩ := e
    have hs := dbl_single_value c ds single he
    simp only [he] at h
    cases r with
    | nil =>
      simp only [Sum.inl.injEq] at h; subst h
      exact mkToken_stopOK _ _ _ _ _ (by simp [hs])
    | cons d r' =>
      simp only at h
      cases hl : ds.lookup d with
      | none =>
        simp only [hl, Sum.inl.injEq] at h; subst h
        exact mkToken_stopOK _ _ _ _ _ (by simp [hs])
      | some kv =>
        obtain ⟨k, v⟩ := kv
        simp only [hl, Sum.inl.injEq] at h; subst h
        exact mkToken_stopOK _ _ _ _ _ (by simp [(dbl_double_value c d ds single k v he hl).1])

theorem readSymbol_stop (rec : Bool) (c : Char) (r : List Char) (pos : Nat) (lp : List Nat) (t : Token)
    (h : (readSymbol rec c r pos lp).item = .inl t) : StopOK t := by
  unfold readSymbol at h
  cases hd : symDispatch.lookup c with
  | none => simp [hd] at h
  | some a =>
    cases a with
    | tok k =>
      simp only [hd, Sum.inl.injEq] at h; subst h
      exact mkToken_stopOK _ _ _ _ _ (by simp)
    | doubleOp => simp only [hd] at h; exact readDouble_stop c r pos lp t h
    | strSingle =>
      simp only [hd, Sum.inl.injEq] at h; subst h
      have := readStr1_value_le rec r (pos + 1) lp
      exact mkToken_stopOK _ _ _ _ _ (by omega)
    | strDouble =>
      simp only [hd, Sum.inl.injEq] at h; subst h
      have := readStr2_value_le rec r (pos + 1) lp
      exact mkToken_stopOK _ _ _ _ _ (by omega)
    | comment =>
      simp only [hd, Sum.inl.injEq] at h; subst h
      exact mkToken_stopOK _ _ _ _ _ (by omega)
    | intChar =>
      simp only [hd, Sum.inl.injEq] at h; subst h
      exact mkToken_stopOK _ _ _ _ _ (by simp; omega)

theorem readItem_stop (upper : String → String) (rec : Bool) (c : Char) (r : List Char) (off : Nat) (lp : List Nat)
    (t : Token) (h : (readItem upper rec c r off lp).item = .inl t) : StopOK t := by
  unfold readItem at h
  split at h
  · simp only [Sum.inl.injEq] at h; subst h
    exact mkToken_stopOK _ _ _ _ _ (Nat.le_refl _)
  · split at h
    · simp only [Sum.inl.injEq] at h; subst h
      exact mkToken_stopOK _ _ _ _ _ (Nat.le_refl _)
    · exact readSymbol_stop rec c r off lp t h

theorem lexLoop_stop (upper : String → String) (rec : Bool) :
    ∀ (fuel : Nat) (l : List Char) (off : Nat) (lp : List Nat), ∀ t ∈ (lexLoop upper rec fuel l off lp).1, StopOK t := by
  intro fuel
  induction fuel with
  | zero => intro l off lp t ht; simp [lexLoop] at ht
  | succ fuel ih =>
    intro l off lp t ht
    simp only [lexLoop] at ht
    split at ht
    · simp at ht
    · rename_i c r hs
      split at ht
      · rename_i t' hitem
        simp only [List.mem_cons] at ht
        rcases ht with rfl | ht
        · exact readItem_stop upper rec c r _ _ _ hitem
        · exact ih _ _ _ t ht
      · exact ih _ _ _ t ht

/-! ### positions of increasing offsets -/

theorem trueLineCol_mono (src : List Char) (a b : Nat) (hab : a ≤ b) (hb : b ≤ src.length) :
    (trueLineCol src a).line ≤ (trueLineCol src b).line ∧
    ((trueLineCol src a).line = (trueLineCol src b).line →
      (trueLineCol src b).col = (trueLineCol src a).col + (b - a)) := by
  have hsplit : src.take b = src.take a ++ (src.drop a).take (b - a) := by
    have := List.take_add (l := src) (i := a) (j := b - a)
    rw [show a + (b - a) = b by omega] at this
    exact this
  have hlen : ((src.drop a).take (b - a)).length = b - a := by
    simp only [List.length_take, List.length_drop]; omega
  simp only [trueLineCol, hsplit, List.count_append, List.reverse_append]
  refine ⟨Nat.le_add_right _ _, ?_⟩
  intro h
  have h0 : ((src.drop a).take (b - a)).count '\n' = 0 := by omega
  have hno : ∀ c ∈ ((src.drop a).take (b - a)).reverse, (c != '\n') = true := by
    intro c hc
    have := List.count_eq_zero.mp h0
    simp only [List.mem_reverse] at hc
    simp only [bne_iff_ne, ne_eq]
    intro e; subst e; exact this hc
  rw [List.takeWhile_append_of_pos hno]
  simp only [List.length_append, List.length_reverse, hlen]
  omega

/-- **every token of `lex` ends no later than any later token starts** -/
theorem lex_ends_pairwise (upper : String → String) (src : List Char) :
    (lex upper src).1.Pairwise (fun a b => Pos.le a.stop b.start) ∧
    (∀ t ∈ (lex upper src).1, StopOK t) := by
  have hrun := lexLoop_run upper src (src.length + 1) [] src (Nat.lt_succ_self _) rfl
  have hstop : ∀ t ∈ (lex upper src).1, StopOK t := lexLoop_stop upper true _ _ _ _
  refine ⟨?_, hstop⟩
  obtain ⟨hb, hp⟩ := run_bounds hrun
  have hlc := (run_linecol hrun).1
  change ∀ t ∈ (lex upper src).1, _ at hb
  change (lex upper src).1.Pairwise _ at hp
  change ∀ t ∈ (lex upper src).1, _ at hlc
  refine List.Pairwise.imp_of_mem ?_ hp
  intro a b ha hb' hab
  obtain ⟨hs, hv⟩ := hstop a ha
  have hbb := hb b hb'
  obtain ⟨h1, h2⟩ := trueLineCol_mono src a.off b.off (by omega) (by omega)
  rw [hs, hlc a ha, hlc b hb']
  simp only [Pos.le, endOf]
  by_cases hl : (trueLineCol src a.off).line = (trueLineCol src b.off).line
  · right
    refine ⟨hl, ?_⟩
    rw [h2 hl]; omega
  · left; omega

end Gold.Lex
