import GoldModel.Lemmas.ExprRoundTrip
import GoldModel.Props.C09
import GoldModel.Lemmas.BigStepStmt
import GoldModel.Model.Prog
/-!
Helper lemmas for the program round trip (`Props/C06Prog.lean`): statements, statement lists of
any length nested to any depth, methods, the other top-level declarations and the top-level loop.
Expressions are abstract (`ExprSpec.Sound`).
-/
namespace Gold.C06
open Gold Gold.Peg Gold.Gram

/-- `ets` printed before any continuation that cannot extend an expression parses to `et` -/
def IsExpr (ets : List Tok) (et : Tree) : Prop := ∀ k, Stop 8 k → Parses (.ref nExpr) (ets ++ k) k et

/-- what the statement layer assumes about the expression component -/
structure ExprSpec.Sound {ε : Type} (X : ExprSpec ε) : Prop where
  /-- `parse_expr (print e ++ k) = (tree e, k)`, no diagnostic -/
  parses : ∀ e, X.wfb e = true → IsExpr (X.toks e) (X.tree e)
  /-- an expression that may stand as a statement is not taken by `parse_assignment` -/
  noAssign : ∀ e, X.wfb e = true → X.stmtb e = true → ∀ k, SStop k → Fails gAssignment (X.toks e ++ k)
  /-- a target of an assignment is taken by `parse_dot_ops` up to the assignment operator -/
  lhs : ∀ e, X.lhsb e = true → ∀ (op : Tok) (r : List Tok), op.kind ∈ assignOps →
    Parses (.ref nDotOps) (X.toks e ++ op :: r) (op :: r) (X.tree e)

/-! ## tables -/

theorem sbad_of_bad8 (x : Kind) (h : x ∈ bad 8) : x ∈ sbad := by
  simp only [sbad, List.mem_append]; exact Or.inl (Or.inl h)

theorem SStop.stop8 {k : List Tok} (h : SStop k) : Stop 8 k := fun t r e hb => h t r e (sbad_of_bad8 _ hb)

theorem SStop.nil : SStop [] := by intro t r e; cases e

theorem SStop.cons {t : Tok} {r : List Tok} (h : sbad.contains t.kind = false) : SStop (t :: r) := by
  intro t' r' e
  cases e
  intro hin
  rw [List.contains_iff_mem.mpr hin] at h
  cases h

theorem comment_sbad : Kind.Comment ∈ sbad := by decide +kernel

theorem SStop.fails_tok {k : List Tok} (h : SStop k) (x : Kind) (hx : x ∈ sbad) : Fails (.tok x) k := by
  cases k with
  | nil => exact Fails.tok_nil
  | cons t r =>
    have hb := h t r rfl
    exact Fails.tok (fun e => hb (e ▸ hx)) (fun hc => hb (hc ▸ comment_sbad))

theorem SStop.fails_toks {k : List Tok} (h : SStop k) (ks : List Kind) (hks : ∀ x ∈ ks, x ∈ sbad) : Fails (toks ks) k := by
  cases k with
  | nil => exact Fails.toks_nil
  | cons t r =>
    have hb := h t r rfl
    exact Fails.toks (fun hin => hb (hks _ hin)) (fun hc => hb (hc ▸ comment_sbad))

theorem sstopB_iff (k : List Tok) : sstopB k = true ↔ SStop k := by
  cases k with
  | nil => simp [sstopB, SStop]
  | cons t r => simp [sstopB, SStop]

theorem startOK_sbad {x : Kind} (h : startOK x = true) : sbad.contains x = false := by
  simp only [startOK, Bool.and_eq_true, Bool.not_eq_eq_eq_not, Bool.not_true] at h
  exact h.1

theorem startOK_ends {x : Kind} (h : startOK x = true) : stmtEnds.contains x = false := by
  simp only [startOK, Bool.and_eq_true, Bool.not_eq_eq_eq_not, Bool.not_true] at h
  exact h.2

theorem startOK_comment {x : Kind} (h : startOK x = true) : x ≠ Kind.Comment := by
  intro e
  have := startOK_sbad h
  rw [e] at this
  revert this
  decide +kernel

theorem ends_not_sbad : ∀ x ∈ stmtEnds, sbad.contains x = false ∧ x ≠ Kind.Comment := by decide +kernel

/-! ## trees that can stand as statements -/

theorem okTree_isNone {t : Tree} (h : okTree t = true) : t.isNone = false := by
  cases t with
  | leaf _ => rfl
  | node k i r s a ks =>
    simp only [okTree, Bool.and_eq_true, bne_iff_ne, ne_eq] at h
    unfold Tree.isNone
    split
    · rename_i heq; cases heq; exact absurd rfl h.1.1.1
    · rfl

theorem okTree_isSome {t : Tree} (h : okTree t = true) : t.isSome = true := by
  simp [Tree.isSome, okTree_isNone h]

theorem okTree_notCaught {t : Tree} (h : okTree t = true) : notCaught t := by
  cases t with
  | leaf _ => simp [okTree] at h
  | node k i r s a ks =>
    simp only [okTree, Bool.and_eq_true, bne_iff_ne, ne_eq] at h
    simp [notCaught, Tree.kind, h.2]

theorem okTree_noend {t : Tree} (h : okTree t = true) : (t.kind == "#noend") = false := by
  cases t with
  | leaf _ => simp [okTree] at h
  | node k i r s a ks =>
    simp only [okTree, Bool.and_eq_true, bne_iff_ne, ne_eq] at h
    simp [Tree.kind, h.1.2]

theorem okTree_ifFold {t : Tree} (h : okTree t = true) (acc : IfAcc) :
    ifFold acc t = { acc with stmts := acc.stmts ++ [t] } := by
  cases t with
  | leaf _ => simp [okTree] at h
  | node k i r s a ks =>
    simp only [okTree, Bool.and_eq_true, bne_iff_ne, ne_eq] at h
    unfold ifFold
    split
    · rename_i heq; cases heq
    · rename_i heq; cases heq; exact absurd rfl h.1.1.2
    · rename_i heq; cases heq; exact absurd rfl h.1.2
    · rfl

theorem optList_ok {t : Tree} (h : okTree t = true) : optList t = [t] := by
  simp [optList, okTree_isNone h]

theorem loopCons_ok {x : Tree} (h : okTree x = true) (items : List Tree) (e : Tree) :
    loopCons (Tree.seq [x, loopVal items e]) = loopVal (x :: items) e := by
  simp [loopCons, loopVal, loopItems, loopEnd, Tree.nth, Tree.seq, Tree.kids, Tree.list, okTree_isNone h]

/-! ## basic types (`parse_type` on a single identifier) -/

theorem parses_type_basic (ty : Tok) (k : List Tok) (hty : ty.kind = Kind.Identifier)
    (h1 : Fails (.tok Kind.OBracket) k) (h2 : Fails (.tok Kind.Plus) k) :
    Parses (.ref nType) (ty :: k) k (typeBasic ty) := by
  have hsized : Fails gTypeSized (ty :: k) :=
    Fails.map (Fails.seqL (pre := [.tok Kind.Identifier]) (ParsesList.cons (Parses.tok hty) ParsesList.nil) h1)
  have hbasic : Parses (.ref nTypeBasic) (ty :: k) k (typeBasic ty) :=
    Parses.ref (n := nTypeBasic) (Parses.map (fn := fun t => mk "type_basic" t.ident t.rng []) (Parses.tok hty))
  have hop : Parses gComposedOperand (ty :: k) k (typeBasic ty) := Parses.alt1 hbasic
  have htl : Parses (.ref nComposedTail) k k (tailOf []) :=
    Parses.ref (n := nComposedTail) (Parses.alt2 (Fails.seq1 h2) Parses.eps)
  have hc := Parses.map (fn := fun v : Tree => foldBin (treeDepth v) (v.nth 0) (v.nth 1)) (Parses.seq hop htl)
  rw [fold_value _ [] (by intro p hp; cases hp)] at hc
  exact Parses.ref (n := nType) (Parses.altL (pre := [gTypeSized])
    (post := [.ref nTypeBasic, gTypeReference, gTypeRange, gTypeSet, gTypeRecord, gTypePointer, gTypeArray,
              gTypeProcedure, gTypeFunction, gTypeInstanceOf])
    (by
      intro a ha
      simp only [List.mem_cons, List.not_mem_nil, or_false] at ha
      subst ha
      exact hsized) hc)

/-! ## the statement parsers tried first fail on the first token, silently -/

theorem fails_kw_seqL (t : Tok) (r : List Tok) (x : Kind) (post : List G) (h : t.kind ≠ x) (hc : t.kind ≠ Kind.Comment) :
    Fails (seqL (.tok x :: post)) (t :: r) :=
  Fails.seqL (pre := []) ParsesList.nil (Fails.tok h hc)

/-! ## types -/

/-- what may follow a type -/
def YStop (k : List Tok) : Prop := ∀ t r, k = t :: r → t.kind ∉ [Kind.Comment, Kind.OBracket, Kind.Plus, Kind.Inverse]

theorem YStop.cons {t : Tok} {r : List Tok} (h : t.kind ∉ [Kind.Comment, Kind.OBracket, Kind.Plus, Kind.Inverse]) :
    YStop (t :: r) := by
  intro t' r' e; cases e; exact h

theorem YStop.nil : YStop [] := by intro t r e; cases e

theorem YStop.fails_tok {k : List Tok} (h : YStop k) (x : Kind) (hx : x ∈ [Kind.Comment, Kind.OBracket, Kind.Plus, Kind.Inverse]) :
    Fails (.tok x) k := by
  cases k with
  | nil => exact Fails.tok_nil
  | cons t r =>
    have hb := h t r rfl
    exact Fails.tok (fun e => hb (e ▸ hx)) (fun e => hb (by simp [e]))

theorem YStop.of_sstop {k : List Tok} (h : SStop k) : YStop k := by
  intro t r e hin
  have := h t r e
  simp only [List.mem_cons, List.not_mem_nil, or_false] at hin
  rcases hin with hin | hin | hin | hin <;> rw [hin] at this <;> exact this (by decide +kernel)

/-- a parameter is followed by `,` or `)` -/
def PStop (k : List Tok) : Prop := ∃ t r, k = t :: r ∧ (t.kind = Kind.Comma ∨ t.kind = Kind.CBracket)

theorem PStop.fails_tok {k : List Tok} (h : PStop k) (x : Kind) (h1 : x ≠ Kind.Comma) (h2 : x ≠ Kind.CBracket) :
    Fails (.tok x) k := by
  obtain ⟨t, r, rfl, ht⟩ := h
  rcases ht with ht | ht
  · exact Fails.tok (by rw [ht]; exact fun e => h1 e.symm) (by rw [ht]; decide)
  · exact Fails.tok (by rw [ht]; exact fun e => h2 e.symm) (by rw [ht]; decide)

theorem YStop.of_pstop {k : List Tok} (h : PStop k) : YStop k := by
  obtain ⟨t, r, rfl, ht⟩ := h
  rcases ht with ht | ht <;> exact YStop.cons (by rw [ht]; decide)

/-- the type parsers before `parse_type_instanceof`, each with the first tokens it reacts to -/
def tyKw : List (G × List Kind) :=
  [(gTypeSized, [Kind.Identifier]), (gTypeComposed, [Kind.Identifier, Kind.OBracket]), (.ref nTypeBasic, [Kind.Identifier]),
   (gTypeReference, [Kind.RefTo, Kind.ListOf]), (gTypeRange, litKinds), (gTypeSet, [Kind.OSqrBracket]),
   (gTypeRecord, [Kind.Record]), (gTypePointer, [Kind.Dot]), (gTypeArray, [Kind.Array, Kind.Sequence]),
   (gTypeProcedure, [Kind.Proc]), (gTypeFunction, [Kind.Func])]

theorem gType_eq : gType = altL (tyKw.map Prod.fst ++ [gTypeInstanceOf]) := rfl

theorem fails_typeBasic (t : Tok) (r : List Tok) (h : t.kind ≠ Kind.Identifier) (hc : t.kind ≠ Kind.Comment) :
    Fails (.ref nTypeBasic) (t :: r) :=
  Fails.ref (n := nTypeBasic) (Fails.map (Fails.tok h hc))

theorem tyKw_fail (t : Tok) (r : List Tok) (hc : t.kind ≠ Kind.Comment) :
    ∀ p ∈ tyKw, (∀ x ∈ p.2, t.kind ≠ x) → Fails p.1 (t :: r) := by
  intro p hp hx
  simp only [tyKw, List.mem_cons, List.not_mem_nil, or_false] at hp
  rcases hp with rfl | rfl | rfl | rfl | rfl | rfl | rfl | rfl | rfl | rfl | rfl
  · exact Fails.map (fails_kw_seqL t r _ _ (hx _ (by simp)) hc)
  · exact Fails.map (Fails.seq1 (Fails.alt (fails_typeBasic t r (hx _ (by simp)) hc)
      (Fails.map (fails_kw_seqL t r _ _ (hx _ (by simp)) hc))))
  · exact fails_typeBasic t r (hx _ (by simp)) hc
  · exact Fails.map (Fails.seqL (pre := []) ParsesList.nil (Fails.toks (by
      intro hin
      simp only [List.mem_cons, List.not_mem_nil, or_false] at hin
      rcases hin with h | h
      · exact hx _ (by simp) h
      · exact hx _ (by simp) h) hc))
  · exact Fails.map (Fails.seqL (pre := []) ParsesList.nil (Fails.ref (n := nLiteralBasic)
      (Fails.map (Fails.toks (fun hin => hx _ hin rfl) hc))))
  · exact Fails.map (fails_kw_seqL t r _ _ (hx _ (by simp)) hc)
  · exact Fails.map (fails_kw_seqL t r _ _ (hx _ (by simp)) hc)
  · exact Fails.map (fails_kw_seqL t r _ _ (hx _ (by simp)) hc)
  · exact Fails.map (Fails.seqL (pre := []) ParsesList.nil (Fails.toks (by
      intro hin
      simp only [List.mem_cons, List.not_mem_nil, or_false] at hin
      rcases hin with h | h
      · exact hx _ (by simp) h
      · exact hx _ (by simp) h) hc))
  · exact Fails.map (fails_kw_seqL t r _ _ (hx _ (by simp)) hc)
  · exact Fails.map (fails_kw_seqL t r _ _ (hx _ (by simp)) hc)

theorem ty_via (n : Nat) (g : G) (post : List G) (hsplit : gType = altL ((tyKw.take n).map Prod.fst ++ g :: post))
    (t : Tok) (r k : List Tok) (v : Tree) (hc : t.kind ≠ Kind.Comment)
    (h : ∀ p ∈ tyKw.take n, ∀ x ∈ p.2, t.kind ≠ x) (hg : Parses g (t :: r) k v) :
    Parses (.ref nType) (t :: r) k v := by
  apply Parses.ref (n := nType)
  show Parses gType (t :: r) k v
  rw [hsplit]
  refine Parses.altL ?_ hg
  intro a ha
  obtain ⟨p, hp, rfl⟩ := List.mem_map.mp ha
  exact tyKw_fail t r hc p (List.mem_of_mem_take hp) (h p hp)

theorem lit_table : ∀ x ∈ litKinds, x ≠ Kind.Comment ∧ x ≠ Kind.Identifier := by decide +kernel

theorem parses_literalBasic (t : Tok) (r : List Tok) (h : t.kind ∈ litKinds) :
    Parses (.ref nLiteralBasic) (t :: r) r (terminal (.leaf t)) :=
  Parses.ref (n := nLiteralBasic) (Parses.map (fn := terminal) (Parses.toks h (lit_table _ h).1))

theorem parses_tbasic (t : Tok) (r : List Tok) (h : t.kind = Kind.Identifier) :
    Parses (.ref nTypeBasic) (t :: r) r (typeBasic t) :=
  Parses.ref (n := nTypeBasic) (Parses.map (fn := fun t => mk "type_basic" t.ident t.rng []) (Parses.tok h))

theorem parses_trange (lo to hi : Tok) (r : List Tok) (hlo : lo.kind ∈ litKinds) (hto : to.kind = Kind.To)
    (hhi : hi.kind ∈ litKinds) : Parses gTypeRange (lo :: to :: hi :: r) r (rangeTree lo hi) :=
  (Parses.map (Parses.seqL (ParsesList.cons (parses_literalBasic lo _ hlo) (ParsesList.cons (Parses.tok hto)
    (ParsesList.cons (parses_literalBasic hi r hhi) ParsesList.nil))))).s_to rfl

theorem parses_idx (i : Idx) (h : i.WF) (k : List Tok) : Parses gArrayIndex (i.toks ++ k) k i.body.tree := by
  obtain ⟨lb, body, rb⟩ := i
  obtain ⟨hlb, hbody, hrb⟩ := h
  simp only at hlb hbody hrb
  cases body with
  | basic t =>
    have hin : Parses (.alt (.ref nTypeBasic) gTypeRange) (t :: rb :: k) (rb :: k) (typeBasic t) :=
      Parses.alt1 (parses_tbasic t _ hbody)
    exact (Parses.map (Parses.seqL (ParsesList.cons (Parses.tok hlb) (ParsesList.cons hin
      (ParsesList.cons (Parses.tok hrb) ParsesList.nil))))).s_to rfl
  | range lo to hi =>
    obtain ⟨hlo, hto, hhi⟩ := hbody
    have hin : Parses (.alt (.ref nTypeBasic) gTypeRange) (lo :: to :: hi :: rb :: k) (rb :: k) (rangeTree lo hi) :=
      Parses.alt2 (fails_typeBasic lo _ (lit_table _ hlo).2 (lit_table _ hlo).1) (parses_trange lo to hi _ hlo hto hhi)
    exact (Parses.map (Parses.seqL (ParsesList.cons (Parses.tok hlb) (ParsesList.cons hin
      (ParsesList.cons (Parses.tok hrb) ParsesList.nil))))).s_to rfl

/-- the token after an identifier list is not a `,` -/
def CStop (k : List Tok) : Prop := ∀ t r, k = t :: r → t.kind ≠ Kind.Comma ∧ t.kind ≠ Kind.Comment

theorem CStop.of_sstop {k : List Tok} (h : SStop k) : CStop k := by
  intro t r e
  have := h t r e
  exact ⟨fun hc => this (hc ▸ by decide +kernel), fun hc => this (hc ▸ comment_sbad)⟩

theorem parses_identlist (rest : List (Tok × Tok)) (hr : commaWF rest) (k : List Tok) (hk : CStop k) :
    ∀ (first : Tok), first.kind = Kind.Identifier →
      Parses (.ref nIdentList) (first :: (commaToks rest ++ k)) k (Tree.list ((usesIds first rest).map Tree.leaf)) := by
  induction rest with
  | nil =>
    intro first hf
    have htl : Parses (.ifTok [Kind.Comma] (.ref nIdentList) (.eps (Tree.list []))) k k (Tree.list []) := by
      cases k with
      | nil => exact Parses.s_ifTok_nil Parses.eps
      | cons t r =>
        obtain ⟨h1, h2⟩ := hk t r rfl
        exact Parses.s_ifTok_miss h2 (by simpa using h1) Parses.eps
    exact Parses.ref (n := nIdentList) ((Parses.map (Parses.seq (Parses.tok hf) htl)).s_to rfl)
  | cons ct more ih =>
    intro first hf
    obtain ⟨c, t⟩ := ct
    obtain ⟨hc, ht, hmore⟩ := hr
    have hrec := ih hmore t ht
    have htl : Parses (.ifTok [Kind.Comma] (.ref nIdentList) (.eps (Tree.list []))) (c :: t :: (commaToks more ++ k)) k
        (Tree.seq [.leaf c, Tree.list ((usesIds t more).map Tree.leaf)]) :=
      Parses.s_ifTok_hit (by rw [hc]; decide) (by rw [hc]; decide) hrec
    exact Parses.ref (n := nIdentList) ((Parses.map (Parses.seq (Parses.tok hf) htl)).s_to rfl)

/-! ### enumerations and composed types -/

theorem parses_evar (v : EVar) (h : v.WF) (k : List Tok) (hk : PStop k) : Parses gEnumVariant (v.toks ++ k) k v.tree := by
  obtain ⟨name, val⟩ := v
  obtain ⟨hn, hv⟩ := h
  simp only at hn hv
  have hnc : name.kind ≠ Kind.Comment := by rw [hn]; decide
  have hann (r : List Tok) : Parses optAnn (name :: r) (name :: r) Tree.none :=
    Parses.s_opt_none (Fails.ref (n := nAnnotations) (Fails.map (Fails.seq1 (Fails.tok (by rw [hn]; decide) hnc))))
  cases val with
  | none =>
    have hopt : Parses (.opt (seqL [.tok Kind.Equals, .tok Kind.NumericLiteral])) k k Tree.none :=
      Parses.s_opt_none (Fails.seqL (pre := []) ParsesList.nil (hk.fails_tok _ (by decide) (by decide)))
    exact (Parses.map (Parses.seqL (ParsesList.cons (hann _) (ParsesList.cons (Parses.tok hn) (ParsesList.cons hopt ParsesList.nil))))).s_to rfl
  | some en =>
    obtain ⟨e, n⟩ := en
    obtain ⟨he, hnn⟩ := hv e n rfl
    have hopt : Parses (.opt (seqL [.tok Kind.Equals, .tok Kind.NumericLiteral])) (e :: n :: k) k (Tree.seq [.leaf e, .leaf n]) :=
      Parses.s_opt (Parses.seqL (ParsesList.cons (Parses.tok he) (ParsesList.cons (Parses.tok hnn) ParsesList.nil)))
    exact (Parses.map (Parses.seqL (ParsesList.cons (hann _) (ParsesList.cons (Parses.tok hn) (ParsesList.cons hopt ParsesList.nil))))).s_to rfl

def evarsVal : List (Tok × EVar) → Tree
  | [] => Tree.list []
  | (c, v) :: more => Tree.seq [.leaf c, Tree.list (v.tree :: more.map (fun cv => cv.2.tree))]

theorem evarsVal_kids (rest : List (Tok × EVar)) :
    (if (evarsVal rest).kind == "#seq" then ((evarsVal rest).nth 1).kids else []) = rest.map (fun cv => cv.2.tree) := by
  cases rest with
  | nil => rfl
  | cons cv more => obtain ⟨c, v⟩ := cv; rfl

theorem pstop_evars (rest : List (Tok × EVar)) (hwf : evarsWF rest) (rp : Tok) (hrp : rp.kind = Kind.CBracket) (k : List Tok) :
    PStop (evarsToks rest ++ rp :: k) := by
  cases rest with
  | nil => exact ⟨rp, k, rfl, Or.inr hrp⟩
  | cons cv more => obtain ⟨c, v⟩ := cv; exact ⟨c, _, rfl, Or.inl hwf.1⟩

theorem evar_tail (rest : List (Tok × EVar)) (hwf : evarsWF rest) (rp : Tok) (hrp : rp.kind = Kind.CBracket) (k : List Tok) :
    Parses (.ifTok [Kind.Comma] (.ref nEnumRec) (.eps (Tree.list []))) (evarsToks rest ++ rp :: k) (rp :: k) (evarsVal rest) := by
  induction rest with
  | nil => exact Parses.s_ifTok_miss (by rw [hrp]; decide) (by rw [hrp]; decide) Parses.eps
  | cons cv more ih =>
    obtain ⟨c, v⟩ := cv
    obtain ⟨hc, hv, hmore⟩ := hwf
    have hitem := parses_evar v hv (evarsToks more ++ rp :: k) (pstop_evars more hmore rp hrp k)
    have hrec : Parses (.ref nEnumRec) (v.toks ++ (evarsToks more ++ rp :: k)) (rp :: k)
        (Tree.list (v.tree :: more.map (fun cv => cv.2.tree))) :=
      Parses.ref (n := nEnumRec) ((Parses.map (Parses.seq
        (Parses.s_ifEof_cons (a := .tok Kind.Comma) (t := v.name) (Parses.s_recover (m := .span) hitem)) (ih hmore))).s_to (by
          have := evarsVal_kids more
          show Tree.list ((if v.tree.isNone then [] else [v.tree]) ++
            (if (evarsVal more).kind == "#seq" then ((evarsVal more).nth 1).kids else [])) = _
          rw [this]
          rfl))
    have := Parses.s_ifTok_hit (ks := [Kind.Comma]) (b := .eps (Tree.list [])) (by rw [hc]; decide) (by rw [hc]; decide) hrec
    simpa [evarsToks, evarsVal] using this

theorem parses_cop (o : COp) (h : o.WF) (k : List Tok) : Parses gComposedOperand (o.toks ++ k) k o.tree := by
  cases o with
  | basic t => exact Parses.alt1 (parses_tbasic t k h)
  | enumE lp rp =>
    obtain ⟨hlp, hrp⟩ := h
    have hrc : rp.kind ≠ Kind.Comment := by rw [hrp]; decide
    have hann : Parses optAnn (rp :: k) (rp :: k) Tree.none :=
      Parses.s_opt_none (Fails.ref (n := nAnnotations) (Fails.map (Fails.seq1 (Fails.tok (by rw [hrp]; decide) hrc))))
    have hfail : SFailsAt gEnumVariant (rp :: k) (rp :: k) :=
      SFailsAt.map (SFailsAt.seqL (pre := [optAnn]) (ParsesList.cons hann ParsesList.nil) (SFailsAt.tok (by rw [hrp]; decide) hrc))
    have hlist : Parses (sepListCtx gEnumVariant nEnumRec) (rp :: k) (rp :: k) (Tree.list []) :=
      (Parses.map (Parses.s_dep_no (Parses.s_recover_silent hfail) rfl)).s_to rfl
    exact Parses.alt2 (fails_typeBasic lp _ (by rw [hlp]; decide) (by rw [hlp]; decide))
      ((Parses.map (Parses.seqL (ParsesList.cons (Parses.tok hlp) (ParsesList.cons hlist
        (ParsesList.cons (Parses.tok hrp) ParsesList.nil))))).s_to rfl)
  | enum lp first rest rp =>
    obtain ⟨hlp, hf, hrest, hrp⟩ := h
    have hitem := parses_evar first hf (evarsToks rest ++ rp :: k) (pstop_evars rest hrest rp hrp k)
    have htail := evar_tail rest hrest rp hrp k
    have hlist : Parses (sepListCtx gEnumVariant nEnumRec) (first.toks ++ (evarsToks rest ++ rp :: k)) (rp :: k)
        (Tree.list (first.tree :: rest.map (fun cv => cv.2.tree))) :=
      (Parses.map (Parses.s_dep_yes (Parses.s_recover (m := .silentAt) hitem) rfl htail)).s_to (by
        have := evarsVal_kids rest
        show (if first.tree.isNone then Tree.list []
          else Tree.list (first.tree :: (if (evarsVal rest).kind == "#seq" then ((evarsVal rest).nth 1).kids else []))) = _
        rw [this]
        rfl)
    have : Parses gComposedOperand (lp :: (first.toks ++ (evarsToks rest ++ rp :: k))) k (COp.enum lp first rest rp).tree :=
      Parses.alt2 (fails_typeBasic lp (first.toks ++ (evarsToks rest ++ rp :: k)) (by rw [hlp]; decide) (by rw [hlp]; decide))
      ((Parses.map (Parses.seqL (ParsesList.cons (Parses.tok hlp) (ParsesList.cons hlist
        (ParsesList.cons (Parses.tok hrp) ParsesList.nil))))).s_to (v' := (COp.enum lp first rest rp).tree) rfl)
    simpa [COp.toks] using this

theorem COp.tree_notCaught (o : COp) : notCaught o.tree := by cases o <;> rfl

theorem comp_tail (rest : List (Tok × COp)) (hwf : copsWF rest) (k : List Tok) (hk : Fails (.tok Kind.Plus) k) :
    Parses (.ref nComposedTail) (copsToks rest ++ k) k (tailOf (rest.map (fun po => (Tree.leaf po.1, po.2.tree)))) := by
  induction rest with
  | nil => exact Parses.ref (n := nComposedTail) (Parses.alt2 (Fails.seq1 hk) Parses.eps)
  | cons po more ih =>
    obtain ⟨p, o⟩ := po
    obtain ⟨hp, ho, hmore⟩ := hwf
    have := Parses.ref (n := nComposedTail) (Parses.alt1 (b := .eps Tree.none) (Parses.seq (Parses.tok (r := o.toks ++ (copsToks more ++ k)) hp)
      (Parses.seq (parses_cop o ho _) (ih hmore))))
    simpa [copsToks, tailOf] using this

theorem parses_composed (first : COp) (rest : List (Tok × COp)) (hf : first.WF) (hr : copsWF rest) (k : List Tok)
    (hk : Fails (.tok Kind.Plus) k) :
    Parses gTypeComposed (first.toks ++ (copsToks rest ++ k)) k (Ty.tree (.composed first rest)) := by
  have hc := Parses.map (fn := fun v : Tree => foldBin (treeDepth v) (v.nth 0) (v.nth 1))
    (Parses.seq (parses_cop first hf _) (comp_tail rest hr k hk))
  rw [fold_value _ _ (by
    intro p hp
    obtain ⟨po, _, rfl⟩ := List.mem_map.mp hp
    exact COp.tree_notCaught po.2)] at hc
  refine hc.s_to ?_
  simp [foldAll, Ty.tree, List.foldl_map]

theorem binNode_isNone (l op r : Tree) : (binNode l op r).isNone = false := rfl

theorem foldl_binNode_isNone (rest : List (Tok × COp)) (a : Tree) (ha : a.isNone = false) :
    (rest.foldl (fun acc po => binNode acc (.leaf po.1) po.2.tree) a).isNone = false := by
  induction rest generalizing a with
  | nil => exact ha
  | cons po more ih => exact ih _ (binNode_isNone _ _ _)

theorem Ty.tree_isNone (ty : Ty) : ty.tree.isNone = false := by
  cases ty with
  | composed first rest => exact foldl_binNode_isNone rest _ (by cases first <;> rfl)
  | _ => rfl

/-- **`parse_type (print ty ++ k) = (tree ty, k)`** -/
theorem parses_type (ty : Ty) (h : ty.WF) (k : List Tok) (hk : YStop k) : Parses (.ref nType) (ty.toks ++ k) k ty.tree := by
  cases ty with
  | basic t => exact parses_type_basic t k h (hk.fails_tok _ (by simp)) (hk.fails_tok _ (by simp))
  | composed first rest =>
    obtain ⟨hf, hr⟩ := h
    have hcomp := parses_composed first rest hf hr k (hk.fails_tok _ (by simp))
    have hfin : Parses (.ref nType) (first.toks ++ (copsToks rest ++ k)) k (Ty.tree (.composed first rest)) := by
      cases first with
      | basic t =>
        have hnext : Fails (.tok Kind.OBracket) (copsToks rest ++ k) := by
          cases rest with
          | nil => exact hk.fails_tok _ (by simp)
          | cons po more => obtain ⟨p, o⟩ := po; exact Fails.tok (by rw [hr.1]; decide) (by rw [hr.1]; decide)
        have hsized : Fails gTypeSized (t :: (copsToks rest ++ k)) :=
          Fails.map (Fails.seqL (pre := [.tok Kind.Identifier]) (ParsesList.cons (Parses.tok hf) ParsesList.nil) hnext)
        exact Parses.ref (n := nType) (Parses.altL (pre := [gTypeSized])
          (post := [.ref nTypeBasic, gTypeReference, gTypeRange, gTypeSet, gTypeRecord, gTypePointer, gTypeArray,
                    gTypeProcedure, gTypeFunction, gTypeInstanceOf])
          (by
            intro a ha
            simp only [List.mem_cons, List.not_mem_nil, or_false] at ha
            subst ha
            exact hsized) hcomp)
      | enumE lp rp =>
        exact ty_via 1 gTypeComposed _ rfl lp _ k _ (by rw [hf.1]; decide) (by rw [hf.1]; decide +kernel) hcomp
      | enum lp first' rest' rp =>
        exact ty_via 1 gTypeComposed _ rfl lp _ k _ (by rw [hf.1]; decide) (by rw [hf.1]; decide +kernel) hcomp
    simpa [Ty.toks] using hfin
  | sized t lp n rp =>
    obtain ⟨ht, hlp, hn, hrp⟩ := h
    exact ty_via 0 gTypeSized _ rfl t _ k _ (by rw [ht]; decide) (by intro p hp; cases hp)
      ((Parses.map (Parses.seqL (ParsesList.cons (Parses.tok ht) (ParsesList.cons (Parses.tok hlp)
        (ParsesList.cons (Parses.tok hn) (ParsesList.cons (Parses.tok hrp) ParsesList.nil)))))).s_to rfl)
  | ref r opts t inv =>
    obtain ⟨hr, hopts, ht, hinv⟩ := h
    have hrc : r.kind ≠ Kind.Comment := by
      intro e; rw [e] at hr; revert hr; decide
    have htc : t.kind ≠ Kind.Comment := by rw [ht]; decide
    have hkinds : ∀ p ∈ tyKw.take 3, ∀ x ∈ p.2, r.kind ≠ x := by
      simp only [List.mem_cons, List.not_mem_nil, or_false] at hr
      rcases hr with hr | hr <;> rw [hr] <;> decide +kernel
    -- the options, or their silent absence
    have hopt (rest : List Tok) : ∃ v, Parses (.recover .silentAt gRefOptions) (optRefToks opts ++ t :: rest) (t :: rest) v := by
      cases opts with
      | none =>
        exact ⟨_, Parses.s_recover_silent (SFailsAt.seqL (pre := []) ParsesList.nil (SFailsAt.tok (by rw [ht]; decide) htc))⟩
      | some o =>
        obtain ⟨lb, first, orest, rb⟩ := o
        obtain ⟨hlb, hf, hor, hrb⟩ := hopts _ rfl
        simp only at hlb hf hor hrb
        have hl := parses_identlist orest hor (rb :: t :: rest) (by
          intro t' r' e; cases e; rw [hrb]; exact ⟨by decide, by decide⟩) first hf
        refine ⟨Tree.seq [.leaf lb, Tree.list ((usesIds first orest).map Tree.leaf), .leaf rb], ?_⟩
        have : Parses (.recover .silentAt gRefOptions) (lb :: first :: (commaToks orest ++ rb :: t :: rest)) (t :: rest)
            (Tree.seq [.leaf lb, Tree.list ((usesIds first orest).map Tree.leaf), .leaf rb]) :=
          Parses.s_recover (m := .silentAt) (Parses.seqL (ParsesList.cons (Parses.tok hlb) (ParsesList.cons hl
            (ParsesList.cons (Parses.tok (r := t :: rest) hrb) ParsesList.nil))))
        simpa [optRefToks, RefOpts.toks] using this
    have hfin : Parses (.ref nType) (r :: (optRefToks opts ++ t :: (invToks inv ++ k))) k
        (Ty.tree (.ref r opts t inv)) := by
      refine ty_via 3 gTypeReference _ rfl r _ k _ hrc hkinds ?_
      cases inv with
      | none =>
        obtain ⟨v, hv⟩ := hopt k
        have hd : Parses (.dep (.opt (.tok Kind.Inverse)) Tree.isSome (.tok Kind.Identifier)) k k (Tree.seq [Tree.none, Tree.none]) :=
          Parses.s_dep_no (Parses.s_opt_none (hk.fails_tok _ (by simp))) rfl
        exact (Parses.map (Parses.seqL (ParsesList.cons (Parses.toks hr hrc) (ParsesList.cons hv
          (ParsesList.cons (Parses.tok ht) (ParsesList.cons hd ParsesList.nil)))))).s_to rfl
      | some ix =>
        obtain ⟨i, x⟩ := ix
        obtain ⟨hi, hx⟩ := hinv i x rfl
        obtain ⟨v, hv⟩ := hopt (i :: x :: k)
        have hd : Parses (.dep (.opt (.tok Kind.Inverse)) Tree.isSome (.tok Kind.Identifier)) (i :: x :: k) k
            (Tree.seq [.leaf i, .leaf x]) :=
          Parses.s_dep_yes (Parses.s_opt (Parses.tok hi)) rfl (Parses.tok hx)
        exact (Parses.map (Parses.seqL (ParsesList.cons (Parses.toks hr hrc) (ParsesList.cons hv
          (ParsesList.cons (Parses.tok ht) (ParsesList.cons hd ParsesList.nil)))))).s_to rfl
    simpa [Ty.toks] using hfin
  | range lo to hi =>
    obtain ⟨hlo, hto, hhi⟩ := h
    refine ty_via 4 gTypeRange _ rfl lo _ k _ (lit_table _ hlo).1 ?_ (parses_trange lo to hi k hlo hto hhi)
    simp only [litKinds, List.mem_cons, List.not_mem_nil, or_false] at hlo
    rcases hlo with hlo | hlo | hlo | hlo | hlo <;> rw [hlo] <;> decide +kernel
  | set lb t rb =>
    obtain ⟨hlb, ht, hrb⟩ := h
    exact ty_via 5 gTypeSet _ rfl lb _ k _ (by rw [hlb]; decide) (by rw [hlb]; decide +kernel)
      ((Parses.map (Parses.seqL (ParsesList.cons (Parses.tok hlb) (ParsesList.cons (parses_tbasic t _ ht)
        (ParsesList.cons (Parses.tok hrb) ParsesList.nil))))).s_to rfl)
  | pointer dot t =>
    obtain ⟨hd, ht⟩ := h
    exact ty_via 7 gTypePointer _ rfl dot _ k _ (by rw [hd]; decide) (by rw [hd]; decide +kernel)
      ((Parses.map (Parses.seqL (ParsesList.cons (Parses.tok hd) (ParsesList.cons (parses_tbasic t _ ht) ParsesList.nil)))).s_to rfl)
  | array a i1 i2 ofT t =>
    obtain ⟨ha, hi1, hi2, hof, ht⟩ := h
    have hac : a.kind ≠ Kind.Comment := by
      intro e; rw [e] at ha; revert ha; decide
    have hkinds : ∀ p ∈ tyKw.take 8, ∀ x ∈ p.2, a.kind ≠ x := by
      simp only [List.mem_cons, List.not_mem_nil, or_false] at ha
      rcases ha with ha | ha <;> rw [ha] <;> decide +kernel
    have hfin : Parses (.ref nType) (a :: (i1.toks ++ (optIdxToks i2 ++ ofT :: t :: k))) k (Ty.tree (.array a i1 i2 ofT t)) := by
      refine ty_via 8 gTypeArray _ rfl a _ k _ hac hkinds ?_
      cases i2 with
      | none =>
        have hnone : Parses (.opt gArrayIndex) (ofT :: t :: k) (ofT :: t :: k) Tree.none :=
          Parses.s_opt_none (Fails.map (fails_kw_seqL ofT _ _ _ (by rw [hof]; decide) (by rw [hof]; decide)))
        exact (Parses.map (Parses.seqL (ParsesList.cons (Parses.toks ha hac) (ParsesList.cons (parses_idx i1 hi1 _)
          (ParsesList.cons hnone (ParsesList.cons (Parses.tok hof) (ParsesList.cons (parses_tbasic t k ht) ParsesList.nil))))))).s_to rfl
      | some j =>
        have hj : Parses (.opt gArrayIndex) (j.toks ++ ofT :: t :: k) (ofT :: t :: k) j.body.tree :=
          Parses.s_opt (parses_idx j (hi2 j rfl) _)
        have hjn : j.body.tree.isNone = false := by
          obtain ⟨lb, body, rb⟩ := j
          cases body <;> rfl
        exact (Parses.map (Parses.seqL (ParsesList.cons (Parses.toks ha hac) (ParsesList.cons (parses_idx i1 hi1 _)
          (ParsesList.cons hj (ParsesList.cons (Parses.tok hof) (ParsesList.cons (parses_tbasic t k ht) ParsesList.nil))))))).s_to (by
            simp [Ty.tree, optIdxTrees, Tree.nth, Tree.seq, Tree.kids, optList, hjn, typeBasic, Tree.rng, mk])
    simpa [Ty.toks, optIdxToks] using hfin
  | instOf kw t =>
    obtain ⟨hkw, ht⟩ := h
    apply Parses.ref (n := nType)
    show Parses gType (kw :: t :: k) k _
    rw [gType_eq]
    refine Parses.altL (post := []) ?_ ((Parses.map (Parses.seqL (ParsesList.cons (Parses.tok hkw)
      (ParsesList.cons (parses_tbasic t k ht) ParsesList.nil)))).s_to rfl)
    intro a ha
    obtain ⟨p, hp, rfl⟩ := List.mem_map.mp ha
    have hkinds : ∀ p ∈ tyKw, ∀ x ∈ p.2, kw.kind ≠ x := by rw [hkw]; decide +kernel
    exact tyKw_fail kw _ (by rw [hkw]; decide) p hp (hkinds p hp)

theorem fails_optAnn_then (t : Tok) (r : List Tok) (x : Kind) (post : List G)
    (h1 : t.kind ≠ Kind.OSqrBracket) (h2 : t.kind ≠ x) (hc : t.kind ≠ Kind.Comment) :
    Fails (seqL (optAnn :: .tok x :: post)) (t :: r) := by
  have ha : Parses optAnn (t :: r) (t :: r) Tree.none :=
    Parses.s_opt_none (Fails.ref (n := nAnnotations) (Fails.map (Fails.seq1 (Fails.tok h1 hc))))
  exact Fails.seqL (pre := [optAnn]) (ParsesList.cons ha ParsesList.nil) (Fails.tok h2 hc)

/-- the parsers before `parse_assignment` in `parse_statement_v2`, each with the first tokens it reacts to -/
def altKw : List (G × List Kind) :=
  [(gIf, [Kind.If]), (gFor, [Kind.For]), (gForEach, [Kind.ForEach]), (gWhile, [Kind.While]), (gLoop, [Kind.Loop]),
   (gSwitch, [Kind.Switch]), (gRepeat, [Kind.Repeat]), (gComment, [Kind.Comment]), (gUses, [Kind.Uses]),
   (gConstDecl, [Kind.Const]), (gTypeDecl, [Kind.OSqrBracket, Kind.Type]), (gLocalVar, [Kind.Var]),
   (gControl, [Kind.Exit, Kind.Break, Kind.Continue, Kind.Return]), (.ref nOqlExpr, [Kind.OQL])]

theorem gStatement_eq : gStatement = altL (altKw.map Prod.fst ++ [gAssignment, .ref nExpr]) := rfl

theorem altKw_fail (t : Tok) (r : List Tok) (hc : t.kind ≠ Kind.Comment) :
    ∀ p ∈ altKw, (∀ x ∈ p.2, t.kind ≠ x) → Fails p.1 (t :: r) := by
  intro p hp hx
  simp only [altKw, List.mem_cons, List.not_mem_nil, or_false] at hp
  rcases hp with rfl | rfl | rfl | rfl | rfl | rfl | rfl | rfl | rfl | rfl | rfl | rfl | rfl | rfl
  · exact Fails.map (Fails.s_emit (fails_kw_seqL t r _ _ (hx _ (by simp)) hc))
  · exact Fails.map (fails_kw_seqL t r _ _ (hx _ (by simp)) hc)
  · exact Fails.map (fails_kw_seqL t r _ _ (hx _ (by simp)) hc)
  · exact Fails.map (fails_kw_seqL t r _ _ (hx _ (by simp)) hc)
  · exact Fails.map (fails_kw_seqL t r _ _ (hx _ (by simp)) hc)
  · exact Fails.map (fails_kw_seqL t r _ _ (hx _ (by simp)) hc)
  · exact Fails.map (fails_kw_seqL t r _ _ (hx _ (by simp)) hc)
  · exact Fails.map (Fails.tok (hx _ (by simp)) hc)
  · exact Fails.map (fails_kw_seqL t r _ _ (hx _ (by simp)) hc)
  · exact Fails.map (Fails.seqL (pre := []) ParsesList.nil (Fails.s_prepend (fails_kw_seqL t r _ _ (hx _ (by simp)) hc)))
  · exact Fails.map (fails_optAnn_then t r _ _ (hx _ (by simp)) (hx _ (by simp)) hc)
  · exact Fails.map (fails_kw_seqL t r _ _ (hx _ (by simp)) hc)
  · exact Fails.alt (Fails.map (Fails.toks (by
        intro hin
        simp only [List.mem_cons, List.not_mem_nil, or_false] at hin
        rcases hin with h | h | h
        · exact hx _ (by simp) h
        · exact hx _ (by simp) h
        · exact hx _ (by simp) h) hc))
      (Fails.map (fails_kw_seqL t r _ _ (hx _ (by simp)) hc))
  · exact Fails.ref (n := nOqlExpr) (Fails.alt (Fails.map (fails_kw_seqL t r _ _ (hx _ (by simp)) hc))
      (Fails.map (fails_kw_seqL t r _ _ (hx _ (by simp)) hc)))

/-- the first `n` statement parsers fail on a token none of them reacts to -/
theorem pre_fails (n : Nat) (t : Tok) (r : List Tok) (hc : t.kind ≠ Kind.Comment)
    (h : ∀ p ∈ altKw.take n, ∀ x ∈ p.2, t.kind ≠ x) : ∀ a ∈ (altKw.take n).map Prod.fst, Fails a (t :: r) := by
  intro a ha
  obtain ⟨p, hp, rfl⟩ := List.mem_map.mp ha
  exact altKw_fail t r hc p (List.mem_of_mem_take hp) (h p hp)

/-- the `n`-th statement parser is reached and decides -/
theorem stmt_via (n : Nat) (g : G) (post : List G) (hsplit : gStatement = altL ((altKw.take n).map Prod.fst ++ g :: post))
    (t : Tok) (r k : List Tok) (v : Tree) (hc : t.kind ≠ Kind.Comment)
    (h : ∀ p ∈ altKw.take n, ∀ x ∈ p.2, t.kind ≠ x) (hg : Parses g (t :: r) k v) :
    Parses (.ref nStatement) (t :: r) k v := by
  apply Parses.ref (n := nStatement)
  show Parses gStatement (t :: r) k v
  rw [hsplit]
  exact Parses.altL (pre_fails n t r hc h) hg

theorem altKw_stmtKw : ∀ p ∈ altKw, ∀ x ∈ p.2, x ∈ stmtKw := by decide +kernel

theorem not_kw_of_take (n : Nat) (x : Kind) (h : x ∉ stmtKw) : ∀ p ∈ altKw.take n, ∀ y ∈ p.2, x ≠ y := by
  intro p hp y hy e
  exact h (e ▸ altKw_stmtKw p (List.mem_of_mem_take hp) y hy)

/-! ## parameters -/

theorem ident_not_comment : ∀ x ∈ identKinds, x ≠ Kind.Comment := by decide +kernel
theorem parammod_not_comment : ∀ x ∈ paramModKinds, x ≠ Kind.Comment := by decide +kernel

theorem parses_param (p : Param) (h : p.WF) (k : List Tok) (hk : PStop k) : Parses gParamDecl (p.toks ++ k) k p.tree := by
  obtain ⟨md, name, colon, ty⟩ := p
  obtain ⟨hmd, hname, hnm, hcol, hty⟩ := h
  simp only at hmd hname hnm hcol hty
  have hnc := ident_not_comment _ hname
  have htype : Parses (.prepend "Failed parsing parameter decl: " (.ref nType)) (ty.toks ++ k) k ty.tree :=
    Parses.s_prepend (parses_type ty hty k (YStop.of_pstop hk))
  have hcolon : Parses (.ifTok [Kind.Colon] (.prepend "Failed parsing parameter decl: " (.ref nType)) (.eps Tree.none))
      (colon :: (ty.toks ++ k)) k (Tree.seq [.leaf colon, ty.tree]) :=
    Parses.s_ifTok_hit (by rw [hcol]; decide) (by rw [hcol]; decide) htype
  have hid : Parses gIdentToken (name :: colon :: (ty.toks ++ k)) (colon :: (ty.toks ++ k)) (.leaf name) := Parses.toks hname hnc
  cases md with
  | none =>
    have hm : Parses (.opt (toks [Kind.Const, Kind.Var, Kind.InOut])) (name :: colon :: (ty.toks ++ k))
        (name :: colon :: (ty.toks ++ k)) Tree.none :=
      Parses.s_opt_none (Fails.toks hnm hnc)
    have : Parses gParamDecl (name :: colon :: (ty.toks ++ k)) k (Param.tree ⟨none, name, colon, ty⟩) :=
      (Parses.map (Parses.seqL (ParsesList.cons hm (ParsesList.cons hid (ParsesList.cons hcolon ParsesList.nil))))).s_to (by
        simp [Tree.nth, Tree.seq, Tree.kids, Tree.kind, optList, Ty.tree_isNone]
        rfl)
    simpa [Param.toks] using this
  | some m =>
    have hmk := hmd m rfl
    have hm : Parses (.opt (toks [Kind.Const, Kind.Var, Kind.InOut])) (m :: name :: colon :: (ty.toks ++ k))
        (name :: colon :: (ty.toks ++ k)) (.leaf m) :=
      Parses.s_opt (Parses.toks hmk (parammod_not_comment _ hmk))
    have : Parses gParamDecl (m :: name :: colon :: (ty.toks ++ k)) k (Param.tree ⟨some m, name, colon, ty⟩) :=
      (Parses.map (Parses.seqL (ParsesList.cons hm (ParsesList.cons hid (ParsesList.cons hcolon ParsesList.nil))))).s_to (by
        simp [Tree.nth, Tree.seq, Tree.kids, Tree.kind, optList, Ty.tree_isNone]
        rfl)
    simpa [Param.toks] using this

theorem Param.tree_isNone (p : Param) : p.tree.isNone = false := rfl

/-- value of `, p , p …` (the `ifTok [Comma]` of the separated-list parsers) -/
def restVal : List (Tok × Param) → Tree
  | [] => Tree.list []
  | (c, p) :: more => Tree.seq [.leaf c, Tree.list (p.tree :: more.map (fun cp => cp.2.tree))]

theorem restVal_kids (rest : List (Tok × Param)) :
    (if (restVal rest).kind == "#seq" then ((restVal rest).nth 1).kids else []) = rest.map (fun cp => cp.2.tree) := by
  cases rest with
  | nil => rfl
  | cons cp more => obtain ⟨c, p⟩ := cp; rfl

theorem recVal_eq (x : Tree) (hx : x.isNone = false) (rest : List (Tok × Param)) :
    Tree.list ((if x.isNone then [] else [x]) ++
      (if (restVal rest).kind == "#seq" then ((restVal rest).nth 1).kids else [])) =
    Tree.list (x :: rest.map (fun cp => cp.2.tree)) := by
  rw [restVal_kids, hx]; rfl

theorem ctxVal_eq (x : Tree) (hx : x.isNone = false) (rest : List (Tok × Param)) :
    (if x.isNone then Tree.list []
     else Tree.list (x :: (if (restVal rest).kind == "#seq" then ((restVal rest).nth 1).kids else []))) =
    Tree.list (x :: rest.map (fun cp => cp.2.tree)) := by
  rw [restVal_kids, hx]; rfl

theorem pstop_rest (rest : List (Tok × Param)) (hwf : restWF rest) (rp : Tok) (hrp : rp.kind = Kind.CBracket) (k : List Tok) :
    PStop (restToks rest ++ rp :: k) := by
  cases rest with
  | nil => exact ⟨rp, k, rfl, Or.inr hrp⟩
  | cons cp more => obtain ⟨c, p⟩ := cp; exact ⟨c, _, rfl, Or.inl hwf.1⟩

theorem param_tail (rest : List (Tok × Param)) (hwf : restWF rest) (rp : Tok) (hrp : rp.kind = Kind.CBracket) (k : List Tok) :
    Parses (.ifTok [Kind.Comma] (.ref nParamRec) (.eps (Tree.list []))) (restToks rest ++ rp :: k) (rp :: k) (restVal rest) := by
  induction rest with
  | nil => exact Parses.s_ifTok_miss (by rw [hrp]; decide) (by rw [hrp]; decide) Parses.eps
  | cons cp more ih =>
    obtain ⟨c, p⟩ := cp
    obtain ⟨hc, hp, hmore⟩ := hwf
    have hpar := parses_param p hp (restToks more ++ rp :: k) (pstop_rest more hmore rp hrp k)
    obtain ⟨t, r, ht⟩ : ∃ t r, p.toks ++ (restToks more ++ rp :: k) = t :: r := by
      obtain ⟨md, name, colon, ty⟩ := p
      cases md <;> exact ⟨_, _, rfl⟩
    rw [ht] at hpar
    have hrec : Parses (.ref nParamRec) (t :: r) (rp :: k) (Tree.list (p.tree :: more.map (fun cp => cp.2.tree))) :=
      Parses.ref (n := nParamRec) ((Parses.map (Parses.seq
        (Parses.s_ifEof_cons (a := .tok Kind.Comma) (Parses.s_recover (m := .span) hpar)) (ih hmore))).s_to (recVal_eq p.tree rfl more))
    have := Parses.s_ifTok_hit (ks := [Kind.Comma]) (b := .eps (Tree.list [])) (by rw [hc]; decide) (by rw [hc]; decide) hrec
    simpa [restToks, restVal, ht] using this

theorem parses_paramlist (ps : ParamList) (h : ps.WF) (k : List Tok) : Parses (.ref nParamList) (ps.toks ++ k) k ps.tree := by
  cases ps with
  | empty lp rp =>
    obtain ⟨hlp, hrp⟩ := h
    have hnc : rp.kind ≠ Kind.Comment := by rw [hrp]; decide
    have hfail : SFailsAt gParamDecl (rp :: k) (rp :: k) :=
      SFailsAt.map (SFailsAt.seqL (pre := [.opt (toks [Kind.Const, Kind.Var, Kind.InOut])])
        (ParsesList.cons (Parses.s_opt_none (Fails.toks (by rw [hrp]; decide) hnc)) ParsesList.nil)
        (SFailsAt.toks (by decide) (by rw [hrp]; decide +kernel) hnc))
    have hlist : Parses (sepListCtx gParamDecl nParamRec) (rp :: k) (rp :: k) (Tree.list []) :=
      (Parses.map (Parses.s_dep_no (Parses.s_recover_silent hfail) rfl)).s_to rfl
    have hin := Parses.s_prepend (s := "Failed to parse param list decl: ")
      (Parses.seqL (ParsesList.cons hlist (ParsesList.cons (Parses.tok hrp) ParsesList.nil)))
    exact Parses.ref (n := nParamList) ((Parses.map (Parses.s_ifTok_hit (b := .eps Tree.none)
      (by rw [hlp]; decide) (by rw [hlp]; decide) hin)).s_to rfl)
  | cons lp first rest rp =>
    obtain ⟨hlp, hf, hrest, hrp⟩ := h
    have hpar := parses_param first hf (restToks rest ++ rp :: k) (pstop_rest rest hrest rp hrp k)
    have htail := param_tail rest hrest rp hrp k
    have hlist : Parses (sepListCtx gParamDecl nParamRec) (first.toks ++ (restToks rest ++ rp :: k)) (rp :: k)
        (Tree.list (first.tree :: rest.map (fun cp => cp.2.tree))) :=
      (Parses.map (Parses.s_dep_yes (Parses.s_recover (m := .silentAt) hpar) rfl htail)).s_to (ctxVal_eq first.tree rfl rest)
    have hin := Parses.s_prepend (s := "Failed to parse param list decl: ")
      (Parses.seqL (ParsesList.cons hlist (ParsesList.cons (Parses.tok hrp) ParsesList.nil)))
    have := Parses.ref (n := nParamList) ((Parses.map (Parses.s_ifTok_hit (b := .eps Tree.none)
      (by rw [hlp]; decide) (by rw [hlp]; decide) hin)).s_to (v' := (ParamList.cons lp first rest rp).tree) rfl)
    simpa [ParamList.toks] using this

/-- value of `parse_parameter_declaration_list` -/
def optParamsVal : Option ParamList → Tree
  | none => Tree.none
  | some ps => ps.tree

theorem parses_optparams (ps : Option ParamList) (h : optParamsWF ps) (k : List Tok) (hk : SStop k) :
    Parses (.ref nParamList) (optParamsToks ps ++ k) k (optParamsVal ps) := by
  cases ps with
  | some p => exact parses_paramlist p h k
  | none =>
    cases k with
    | nil => exact Parses.ref (n := nParamList) ((Parses.map (Parses.s_ifTok_nil Parses.eps)).s_to rfl)
    | cons t r =>
      have hb := hk t r rfl
      have h1 : t.kind ≠ Kind.Comment := fun e => hb (e ▸ comment_sbad)
      have h2 : [Kind.OBracket].contains t.kind = false := by
        cases hc : [Kind.OBracket].contains t.kind with
        | false => rfl
        | true =>
          have : t.kind = Kind.OBracket := by simpa using hc
          exact absurd (this ▸ hb) (by decide +kernel)
      exact Parses.ref (n := nParamList) ((Parses.map (Parses.s_ifTok_miss h1 h2 Parses.eps)).s_to rfl)

/-- what may follow an optional parameter list -/
def OStop (k : List Tok) : Prop := ∀ t r, k = t :: r → t.kind ≠ Kind.Comment ∧ t.kind ≠ Kind.OBracket

theorem OStop.of_ystop {k : List Tok} (h : YStop k) : OStop k := by
  intro t r e
  have := h t r e
  exact ⟨fun hc => this (by simp [hc]), fun hc => this (by simp [hc])⟩

theorem parses_optparams_o (ps : Option ParamList) (h : optParamsWF ps) (k : List Tok) (hk : OStop k) :
    Parses (.ref nParamList) (optParamsToks ps ++ k) k (optParamsVal ps) := by
  cases ps with
  | some p => exact parses_paramlist p h k
  | none =>
    cases k with
    | nil => exact Parses.ref (n := nParamList) ((Parses.map (Parses.s_ifTok_nil Parses.eps)).s_to rfl)
    | cons t r =>
      obtain ⟨h1, h2⟩ := hk t r rfl
      exact Parses.ref (n := nParamList) ((Parses.map (Parses.s_ifTok_miss h1 (by simpa using h2) Parses.eps)).s_to rfl)

/-! ## records, procedure and function types -/

theorem parses_recfield (f : RecField) (h : f.WF) (k : List Tok) (hk : YStop k) : Parses gRecordField (f.toks ++ k) k f.tree := by
  obtain ⟨name, colon, ty⟩ := f
  obtain ⟨hn, hc, hty⟩ := h
  simp only at hn hc hty
  have hnc : name.kind ≠ Kind.Comment := by rw [hn]; decide
  have hann : Parses optAnn (name :: colon :: (ty.toks ++ k)) (name :: colon :: (ty.toks ++ k)) Tree.none :=
    Parses.s_opt_none (Fails.ref (n := nAnnotations) (Fails.map (Fails.seq1 (Fails.tok (by rw [hn]; decide) hnc))))
  exact (Parses.map (Parses.seqL (ParsesList.cons hann (ParsesList.cons (Parses.tok hn) (ParsesList.cons (Parses.tok hc)
    (ParsesList.cons (parses_type ty hty k hk) ParsesList.nil)))))).s_to rfl

theorem ystop_fields (rest : List RecField) (hwf : fieldsWF rest) (endT : Tok) (he : endT.kind = Kind.EndRecord) (k : List Tok) :
    YStop (fieldsToks rest ++ endT :: k) := by
  cases rest with
  | nil => exact YStop.cons (by rw [he]; decide)
  | cons f more => obtain ⟨name, colon, ty⟩ := f; exact YStop.cons (by rw [hwf.1.1]; decide)

theorem rec_fields (fields : List RecField) (hwf : fieldsWF fields) (endT : Tok) (he : endT.kind = Kind.EndRecord) (k : List Tok) :
    Parses (.ref nRecFields) (fieldsToks fields ++ endT :: k) k (loopVal (fields.map RecField.tree) (.leaf endT)) := by
  induction fields with
  | nil =>
    exact Parses.ref (n := nRecFields) (Parses.map (fn := untilNorm)
      (Parses.s_ifEof_cons (Parses.s_ifTok_hit (by rw [he]; decide) (by rw [he]; decide) Parses.eps)))
  | cons f rest ih =>
    have hf := parses_recfield f hwf.1 _ (ystop_fields rest hwf.2 endT he k)
    have ih' := ih hwf.2
    obtain ⟨name, colon, ty⟩ := f
    have hn : name.kind = Kind.Identifier := hwf.1.1
    have := Parses.map (fn := untilNorm) (Parses.s_ifEof_cons (a := .eps (loopVal [] Tree.none)) (t := name)
      (Parses.s_ifTok_miss (a := .eps Tree.none) (ks := [Kind.EndRecord]) (by rw [hn]; decide) (by rw [hn]; decide)
        (Parses.map (fn := loopCons) (Parses.seq hf ih'))))
    rw [loopCons_ok (x := RecField.tree ⟨name, colon, ty⟩) rfl] at this
    have := Parses.ref (n := nRecFields) (this.s_to (v' := loopVal (RecField.tree ⟨name, colon, ty⟩ :: rest.map RecField.tree) (.leaf endT)) rfl)
    simpa [fieldsToks, RecField.toks] using this

theorem TyX.tree_isNone (ty : TyX) : ty.tree.isNone = false := by
  cases ty with
  | flat t => exact Ty.tree_isNone t
  | _ => rfl

/-- **`parse_type (print ty ++ k) = (tree ty, k)`** for the types that contain types -/
theorem parses_typex (ty : TyX) (h : ty.WF) (k : List Tok) (hk : YStop k) : Parses (.ref nType) (ty.toks ++ k) k ty.tree := by
  cases ty with
  | flat t => exact parses_type t h k hk
  | record kw parent fields endT =>
    obtain ⟨hkw, hp, hfs, he⟩ := h
    have hfl := rec_fields fields hfs endT he k
    have hfin : Parses (.ref nType) (kw :: (parentToks parent ++ (fieldsToks fields ++ endT :: k))) k
        (TyX.tree (.record kw parent fields endT)) := by
      refine ty_via 6 gTypeRecord _ rfl kw _ k _ (by rw [hkw]; decide) (by rw [hkw]; decide +kernel) ?_
      cases parent with
      | none =>
        have hy := ystop_fields fields hfs endT he k
        have hnone : Parses (.opt (seqL [.tok Kind.OBracket, .tok Kind.Identifier, .tok Kind.CBracket]))
            (fieldsToks fields ++ endT :: k) (fieldsToks fields ++ endT :: k) Tree.none :=
          Parses.s_opt_none (Fails.seqL (pre := []) ParsesList.nil (hy.fails_tok _ (by simp)))
        exact (Parses.map (Parses.seqL (ParsesList.cons (Parses.tok hkw) (ParsesList.cons hnone
          (ParsesList.cons hfl ParsesList.nil))))).s_to rfl
      | some q =>
        obtain ⟨lp, p, rp⟩ := q
        obtain ⟨hlp, hpp, hrp⟩ := hp
        have hsome : Parses (.opt (seqL [.tok Kind.OBracket, .tok Kind.Identifier, .tok Kind.CBracket]))
            (lp :: p :: rp :: (fieldsToks fields ++ endT :: k)) (fieldsToks fields ++ endT :: k) (Tree.seq [.leaf lp, .leaf p, .leaf rp]) :=
          Parses.s_opt (Parses.seqL (ParsesList.cons (Parses.tok hlp) (ParsesList.cons (Parses.tok hpp)
            (ParsesList.cons (Parses.tok hrp) ParsesList.nil))))
        exact (Parses.map (Parses.seqL (ParsesList.cons (Parses.tok hkw) (ParsesList.cons hsome
          (ParsesList.cons hfl ParsesList.nil))))).s_to rfl
    simpa [TyX.toks] using hfin
  | procT kw ps =>
    obtain ⟨hkw, hps⟩ := h
    have hpl := Parses.s_prepend (s := "failed to parse proc type: ") (parses_optparams_o ps hps k (OStop.of_ystop hk))
    exact ty_via 9 gTypeProcedure _ rfl kw _ k _ (by rw [hkw]; decide) (by rw [hkw]; decide +kernel)
      ((Parses.map (Parses.seqL (ParsesList.cons (Parses.tok hkw) (ParsesList.cons hpl ParsesList.nil)))).s_to (by
        cases ps with
        | none => rfl
        | some p => cases p <;> rfl))
  | funcT kw ps ret ty =>
    obtain ⟨hkw, hps, hret, hty⟩ := h
    have hpl := parses_optparams_o ps hps (ret :: ty :: k) (by
      intro t r e; cases e; rw [hret]; exact ⟨by decide, by decide⟩)
    have hfin : Parses (.ref nType) (kw :: (optParamsToks ps ++ ret :: ty :: k)) k (TyX.tree (.funcT kw ps ret ty)) :=
      ty_via 10 gTypeFunction _ rfl kw _ k _ (by rw [hkw]; decide) (by rw [hkw]; decide +kernel)
        ((Parses.map (Parses.seqL (ParsesList.cons (Parses.tok hkw) (ParsesList.cons hpl (ParsesList.cons (Parses.tok hret)
          (ParsesList.cons (parses_tbasic ty k hty) ParsesList.nil)))))).s_to (by
            cases ps with
            | none => rfl
            | some p => cases p <;> rfl))
    simpa [TyX.toks] using hfin

theorem parses_typedecl (kw name colon : Tok) (ty : TyX) (h : typeDeclWF kw name colon ty) (k : List Tok) (hk : YStop k) :
    Parses gTypeDecl (kw :: name :: colon :: (ty.toks ++ k)) k (typeDeclTree kw name ty) := by
  obtain ⟨hkw, hn, hcol, hty⟩ := h
  have hc : kw.kind ≠ Kind.Comment := by rw [hkw]; decide
  have hann : Parses optAnn (kw :: name :: colon :: (ty.toks ++ k)) (kw :: name :: colon :: (ty.toks ++ k)) Tree.none :=
    Parses.s_opt_none (Fails.ref (n := nAnnotations) (Fails.map (Fails.seq1 (Fails.tok (by rw [hkw]; decide) hc))))
  exact (Parses.map (Parses.seqL (ParsesList.cons hann (ParsesList.cons (Parses.tok hkw) (ParsesList.cons (Parses.tok hn)
    (ParsesList.cons (Parses.tok hcol) (ParsesList.cons (parses_typex ty hty k hk) ParsesList.nil))))))).s_to rfl

/-! ## statements: first token, tree shape -/

variable {ε : Type} (X : ExprSpec ε)

/-- the round trip of one statement, before every continuation that cannot extend a statement -/
def StmtRT (s : Stmt ε) : Prop := ∀ k, SStop k → Parses (.ref nStatement) (s.toks X ++ k) k (s.tree X)

theorem exprOK_split {e : ε} (h : exprOKb X e = true) : X.wfb e = true ∧ okTree (X.tree e) = true := by
  simpa [exprOKb] using h

theorem ident_start_table : ∀ x ∈ identKinds, x ≠ Kind.Type → x ∉ stmtKw ∧ startOK x = true ∧ x ≠ Kind.Comment := by
  decide +kernel
theorem assign_table : ∀ x ∈ assignOps, x ∉ bad 0 ∧ x ≠ Kind.Comment := by decide +kernel
theorem ctl_table : ∀ x ∈ ctlKinds, startOK x = true ∧ x ≠ Kind.Comment := by decide +kernel
theorem to_table : ∀ x ∈ toKinds, x ∉ bad 8 ∧ x ≠ Kind.Comment := by decide +kernel

theorem exprStart_split {x : Kind} (h : exprStartOK x = true) : startOK x = true ∧ x ∉ stmtKw := by
  simp only [exprStartOK, Bool.and_eq_true, Bool.not_eq_eq_eq_not, Bool.not_true] at h
  refine ⟨h.1, fun hin => ?_⟩
  rw [List.contains_iff_mem.mpr hin] at h
  cases h.2

theorem firstKindOK_cons {p : Kind → Bool} {l : List Tok} (h : firstKindOK p l = true) :
    ∃ t r, l = t :: r ∧ p t.kind = true := by
  cases l with
  | nil => simp [firstKindOK] at h
  | cons t r => exact ⟨t, r, rfl, h⟩

theorem Stmt.first (s : Stmt ε) (h : s.WF X) : ∃ t r, s.toks X = t :: r ∧ startOK t.kind = true := by
  cases s with
  | assign lhs op e =>
    obtain ⟨t, r, hts, hst⟩ := firstKindOK_cons h.2.1
    have hst' : t.kind ∈ identKinds ∧ t.kind ≠ Kind.Type := by simpa [lhsStartOK] using hst
    exact ⟨t, r ++ op :: X.toks e, by simp [Stmt.toks, hts], (ident_start_table _ hst'.1 hst'.2).2.1⟩
  | expr e =>
    obtain ⟨t, r, he, hs⟩ := firstKindOK_cons h.2.2
    exact ⟨t, r, he, (exprStart_split hs).1⟩
  | ret kw e => exact ⟨kw, _, rfl, by rw [h.1]; decide +kernel⟩
  | ctl kw => exact ⟨kw, _, rfl, (ctl_table _ h).1⟩
  | lvar kw name colon ty abs => exact ⟨kw, _, rfl, by rw [h.1]; decide +kernel⟩
  | typeS kw name colon ty => exact ⟨kw, _, rfl, by rw [h.1]; decide +kernel⟩
  | usesS kw first rest => exact ⟨kw, _, rfl, by rw [h.1]; decide +kernel⟩
  | constS kw name eq lit ml => exact ⟨kw, _, rfl, by rw [h.1]; decide +kernel⟩
  | ifS kw c body tail => exact ⟨kw, _, rfl, by rw [h.1]; decide +kernel⟩
  | whileS kw c body endT => exact ⟨kw, _, rfl, by rw [h.1]; decide +kernel⟩
  | loopS kw body endT => exact ⟨kw, _, rfl, by rw [h.1]; decide +kernel⟩
  | forS kw var eq lo to hi step body endT => exact ⟨kw, _, rfl, by rw [h.1]; decide +kernel⟩
  | foreachS kw e body endT => exact ⟨kw, _, rfl, by rw [h.1]; decide +kernel⟩
  | repeatS kw body untilT c => exact ⟨kw, _, rfl, by rw [h.1]; decide +kernel⟩
  | switchS kw e whens els elseBody endT => exact ⟨kw, _, rfl, by rw [h.1]; decide +kernel⟩

theorem Stmt.tree_ok (s : Stmt ε) (h : s.WF X) : okTree (s.tree X) = true := by
  cases s with
  | expr e => exact (exprOK_split X h.1).2
  | _ => rfl

/-- what follows a statement inside a well-formed list cannot extend it -/
theorem sstop_stmts (ss : List (Stmt ε)) (h : Stmts.WF X ss) (k : List Tok) (hk : SStop k) :
    SStop (Stmts.toks X ss ++ k) := by
  cases ss with
  | nil => exact hk
  | cons s rest =>
    obtain ⟨t, r, ht, hs⟩ := Stmt.first X s h.1
    simp only [Stmts.toks, ht, List.cons_append]
    exact SStop.cons (startOK_sbad hs)

theorem sstop_end {t : Tok} (r : List Tok) (h : t.kind ∈ stmtEnds) : SStop (t :: r) :=
  SStop.cons (ends_not_sbad _ h).1

/-! ## simple statements -/

variable (hX : X.Sound)
include hX

theorem rt_assign (lhs : ε) (op : Tok) (e : ε) (h : (Stmt.assign lhs op e).WF X) : StmtRT X (.assign lhs op e) := by
  intro k hk
  obtain ⟨hl, hfirst, hop, he⟩ := h
  obtain ⟨hw, _⟩ := exprOK_split X he
  obtain ⟨t, r, hts, hst⟩ := firstKindOK_cons hfirst
  have hst' : t.kind ∈ identKinds ∧ t.kind ≠ Kind.Type := by simpa [lhsStartOK] using hst
  obtain ⟨hnkw, _, hc⟩ := ident_start_table _ hst'.1 hst'.2
  obtain ⟨_, hopc⟩ := assign_table _ hop
  have hdot := hX.lhs lhs hl op (X.toks e ++ k) hop
  have hopp : Parses (toks assignOps) (op :: (X.toks e ++ k)) (X.toks e ++ k) (.leaf op) := Parses.toks hop hopc
  have hex := hX.parses e hw k hk.stop8
  have hg : Parses gAssignment (X.toks lhs ++ op :: (X.toks e ++ k)) k (binNode (X.tree lhs) (.leaf op) (X.tree e)) :=
    Parses.map (fn := fun v => binNode (v.nth 0) (v.nth 1) (v.nth 2))
      (Parses.seqL (ParsesList.cons hdot (ParsesList.cons hopp (ParsesList.cons hex ParsesList.nil))))
  rw [hts] at hg
  have hfin := stmt_via 14 gAssignment [.ref nExpr] rfl t _ k _ hc (not_kw_of_take 14 _ hnkw) hg
  simpa [Stmt.toks, Stmt.tree, hts] using hfin

theorem rt_expr (e : ε) (h : (Stmt.expr e).WF X) : StmtRT X (.expr e) := by
  intro k hk
  obtain ⟨he, hst, hfirst⟩ := h
  obtain ⟨hw, _⟩ := exprOK_split X he
  obtain ⟨t, r, hts, hs⟩ := firstKindOK_cons hfirst
  obtain ⟨hstart, hnkw⟩ := exprStart_split hs
  have hc := startOK_comment hstart
  have hex := hX.parses e hw k hk.stop8
  have hna := hX.noAssign e hw hst k hk
  show Parses (.ref nStatement) (X.toks e ++ k) k (X.tree e)
  rw [hts] at hex hna ⊢
  apply Parses.ref (n := nStatement)
  show Parses gStatement (t :: r ++ k) k (X.tree e)
  rw [gStatement_eq]
  have : altKw.map Prod.fst ++ [gAssignment, .ref nExpr] = (altKw.map Prod.fst ++ [gAssignment]) ++ .ref nExpr :: [] := by
    simp
  rw [this]
  refine Parses.altL ?_ hex
  intro a ha
  rcases List.mem_append.mp ha with ha | ha
  · have := pre_fails 14 t (r ++ k) hc (not_kw_of_take 14 _ hnkw)
    exact this a ha
  · simp only [List.mem_cons, List.not_mem_nil, or_false] at ha
    subst ha
    exact hna

theorem rt_ret (kw : Tok) (e : ε) (h : (Stmt.ret kw e).WF X) : StmtRT X (.ret kw e) := by
  intro k hk
  obtain ⟨hkw, he⟩ := h
  obtain ⟨hw, _⟩ := exprOK_split X he
  have hc : kw.kind ≠ Kind.Comment := by rw [hkw]; decide
  have hex := hX.parses e hw k hk.stop8
  have hr : Parses gReturn (kw :: (X.toks e ++ k)) k (mk "return" "return" (Range.span kw.rng (X.tree e).rng) [X.tree e]) :=
    Parses.map (fn := fun v => mk "return" "return" (Range.span (v.nth 0).rng (v.nth 1).rng) [v.nth 1])
      (Parses.seqL (ParsesList.cons (Parses.tok hkw) (ParsesList.cons hex ParsesList.nil)))
  have hg : Parses gControl (kw :: (X.toks e ++ k)) k _ :=
    Parses.alt2 (Fails.map (Fails.toks (by rw [hkw]; decide) hc)) hr
  exact stmt_via 12 gControl [.ref nOqlExpr, gAssignment, .ref nExpr] rfl kw _ k _ hc (by rw [hkw]; decide +kernel) hg

omit hX in
theorem rt_ctl (kw : Tok) (h : (Stmt.ctl kw : Stmt ε).WF X) : StmtRT X (.ctl kw) := by
  intro k hk
  have hc := (ctl_table _ h).2
  have hg : Parses gControl (kw :: k) k (terminal (.leaf kw)) :=
    Parses.alt1 (Parses.map (fn := terminal) (Parses.toks h hc))
  refine stmt_via 12 gControl [.ref nOqlExpr, gAssignment, .ref nExpr] rfl kw _ k _ hc ?_ hg
  have h' : kw.kind ∈ ctlKinds := h
  simp only [ctlKinds, List.mem_cons, List.not_mem_nil, or_false] at h'
  rcases h' with h' | h' | h' <;> rw [h'] <;> decide +kernel

omit hX in
theorem rt_lvar (kw name colon : Tok) (ty : TyX) (abs : Option (Tok × Tok)) (h : (Stmt.lvar kw name colon ty abs : Stmt ε).WF X) :
    StmtRT X (.lvar kw name colon ty abs) := by
  intro k hk
  obtain ⟨hkw, hn, hcol, hty, habsw⟩ := h
  have hc : kw.kind ≠ Kind.Comment := by rw [hkw]; decide
  have hfin : Parses (.ref nStatement) (kw :: name :: colon :: (ty.toks ++ (absToks abs ++ k))) k
      (Stmt.tree X (.lvar kw name colon ty abs)) := by
    refine stmt_via 11 gLocalVar [gControl, .ref nOqlExpr, gAssignment, .ref nExpr] rfl kw _ k _ hc (by rw [hkw]; decide +kernel) ?_
    cases abs with
    | none =>
      have htype := parses_typex ty hty k (YStop.of_sstop hk)
      have habs : Parses (.dep (.opt (.tok Kind.Absolute)) Tree.isSome (.ref nIdentifier)) k k (Tree.seq [Tree.none, Tree.none]) :=
        Parses.s_dep_no (Parses.s_opt_none (hk.fails_tok _ (by decide +kernel))) rfl
      exact (Parses.map (Parses.seqL (ParsesList.cons (Parses.tok hkw) (ParsesList.cons (Parses.tok hn) (ParsesList.cons (Parses.tok hcol)
        (ParsesList.cons htype (ParsesList.cons habs ParsesList.nil))))))).s_to rfl
    | some ax =>
      obtain ⟨a, x⟩ := ax
      obtain ⟨ha, hx⟩ := habsw
      have htype := parses_typex ty hty (a :: x :: k) (YStop.cons (by rw [ha]; decide))
      have habs : Parses (.dep (.opt (.tok Kind.Absolute)) Tree.isSome (.ref nIdentifier)) (a :: x :: k) k
          (Tree.seq [.leaf a, terminal (.leaf x)]) :=
        Parses.s_dep_yes (Parses.s_opt (Parses.tok ha)) rfl (parses_identifier x k hx)
      exact (Parses.map (Parses.seqL (ParsesList.cons (Parses.tok hkw) (ParsesList.cons (Parses.tok hn) (ParsesList.cons (Parses.tok hcol)
        (ParsesList.cons htype (ParsesList.cons habs ParsesList.nil))))))).s_to rfl
  simpa [Stmt.toks] using hfin

omit hX in
theorem rt_typeS (kw name colon : Tok) (ty : TyX) (h : (Stmt.typeS kw name colon ty : Stmt ε).WF X) :
    StmtRT X (.typeS kw name colon ty) := by
  intro k hk
  have hg := parses_typedecl kw name colon ty h k (YStop.of_sstop hk)
  have hkw : kw.kind = Kind.Type := h.1
  have := stmt_via 10 gTypeDecl [gLocalVar, gControl, .ref nOqlExpr, gAssignment, .ref nExpr] rfl kw _ k _
    (by rw [hkw]; decide) (by rw [hkw]; decide +kernel) hg
  simpa [Stmt.toks, Stmt.tree] using this

/-! ### `uses a, b, …` and `const c = literal [multiLang]` (statements and declarations) -/

omit hX

theorem parses_uses (kw first : Tok) (rest : List (Tok × Tok)) (h : usesWF kw first rest) (k : List Tok) (hk : CStop k) :
    Parses gUses (usesToks kw first rest ++ k) k (usesTree kw first rest) := by
  obtain ⟨hkw, hf, hr⟩ := h
  have hl := parses_identlist rest hr k hk first hf
  obtain ⟨x, hx⟩ : ∃ x, (usesIds first rest).getLast? = some x := by
    cases hg : (usesIds first rest).getLast? with
    | some x => exact ⟨x, rfl⟩
    | none => simp [usesIds] at hg
  exact (Parses.map (Parses.seqL (ParsesList.cons (Parses.tok hkw) (ParsesList.cons hl ParsesList.nil)))).s_to (by
    simp [usesTree, Tree.nth, Tree.seq, Tree.kids, Tree.list, lastD, List.getLast?_map, hx, List.map_map, Function.comp_def,
      Tree.ident, Tree.rng])

theorem parses_const (kw name eq lit : Tok) (ml : Option Tok) (h : constWF kw name eq lit ml) (k : List Tok)
    (hk : Fails (.tok Kind.MultiLang) k) : Parses gConstDecl (constToks kw name eq lit ml ++ k) k (constTree kw name lit) := by
  obtain ⟨hkw, hn, heq, hlit, hml⟩ := h
  have hlc : lit.kind ≠ Kind.Comment := by
    intro e; rw [e] at hlit; revert hlit; decide
  have hhead (r : List Tok) := Parses.s_prepend (s := "Cannot parse constant decl: ")
    (Parses.seqL (ParsesList.cons (Parses.tok hkw) (ParsesList.cons (Parses.tok hn) (ParsesList.cons (Parses.tok heq)
      (ParsesList.cons (Parses.toks (r := r) hlit hlc) ParsesList.nil)))))
  cases ml with
  | none =>
    exact (Parses.map (Parses.seqL (ParsesList.cons (hhead k) (ParsesList.cons (Parses.s_opt_none hk) ParsesList.nil)))).s_to rfl
  | some m =>
    exact (Parses.map (Parses.seqL (ParsesList.cons (hhead (m :: k))
      (ParsesList.cons (Parses.s_opt (Parses.tok (hml m rfl))) ParsesList.nil)))).s_to rfl

theorem rt_usesS (kw first : Tok) (rest : List (Tok × Tok)) (h : (Stmt.usesS kw first rest : Stmt ε).WF X) :
    StmtRT X (.usesS kw first rest) := by
  intro k hk
  have hg := parses_uses kw first rest h k (CStop.of_sstop hk)
  have hkw : kw.kind = Kind.Uses := h.1
  exact stmt_via 8 gUses [gConstDecl, gTypeDecl, gLocalVar, gControl, .ref nOqlExpr, gAssignment, .ref nExpr] rfl kw _ k _
    (by rw [hkw]; decide) (by rw [hkw]; decide +kernel) hg

theorem rt_constS (kw name eq lit : Tok) (ml : Option Tok) (h : (Stmt.constS kw name eq lit ml : Stmt ε).WF X) :
    StmtRT X (.constS kw name eq lit ml) := by
  intro k hk
  have hg := parses_const kw name eq lit ml h k (hk.fails_tok _ (by decide +kernel))
  have hkw : kw.kind = Kind.Const := h.1
  exact stmt_via 9 gConstDecl [gTypeDecl, gLocalVar, gControl, .ref nOqlExpr, gAssignment, .ref nExpr] rfl kw _ k _
    (by rw [hkw]; decide) (by rw [hkw]; decide +kernel) hg

variable (hX : X.Sound)

/-! ## statement lists -/

omit hX

/-- every statement of the list round-trips -/
def AllRT (ss : List (Stmt ε)) : Prop := ∀ s ∈ ss, StmtRT X s

theorem sstop_stmts_nil (ss : List (Stmt ε)) (h : Stmts.WF X ss) : SStop (Stmts.toks X ss) := by
  simpa using sstop_stmts X ss h [] SStop.nil

theorem not_contains_of_sub {ks : List Kind} (hks : ∀ x ∈ ks, x ∈ stmtEnds) {x : Kind} (h : startOK x = true) :
    ks.contains x = false := by
  cases hc : ks.contains x with
  | false => rfl
  | true =>
    have h1 := List.contains_iff_mem.mpr (hks _ (List.contains_iff_mem.mp hc))
    rw [startOK_ends h] at h1
    cases h1

/-- `parse_until_w_context(stop, parse_statement_v2)`: a well-formed list followed by its stop token;
    `recover` does not fire -/
theorem until_loop (ks : List Kind) (self : Nat) (hΓ : Γ self = untilStop ks self) (hks : ∀ x ∈ ks, x ∈ stmtEnds)
    (ss : List (Stmt ε)) (hwf : Stmts.WF X ss) (hrt : AllRT X ss) (endT : Tok) (he : endT.kind ∈ ks) (k : List Tok) :
    Parses (.ref self) (Stmts.toks X ss ++ endT :: k) k (loopVal (Stmts.trees X ss) (.leaf endT)) := by
  induction ss with
  | nil =>
    have hc := (ends_not_sbad _ (hks _ he)).2
    simp only [Stmts.toks, Stmts.trees, List.nil_append]
    apply Parses.ref
    rw [hΓ]
    exact Parses.map (fn := untilNorm)
      (Parses.s_ifEof_cons (Parses.s_ifTok_hit hc (List.contains_iff_mem.mpr he) Parses.eps))
  | cons s rest ih =>
    obtain ⟨t, r, ht, hs⟩ := Stmt.first X s hwf.1
    have hk' : SStop (Stmts.toks X rest ++ endT :: k) := sstop_stmts X rest hwf.2 _ (sstop_end k (hks _ he))
    have hs' := hrt s List.mem_cons_self _ hk'
    have ih' := ih hwf.2 (fun x hx => hrt x (List.mem_cons_of_mem _ hx))
    simp only [Stmts.toks, Stmts.trees, List.append_assoc]
    rw [ht] at hs' ⊢
    simp only [List.cons_append] at hs' ⊢
    apply Parses.ref
    rw [hΓ]
    have := Parses.map (fn := untilNorm) (Parses.s_ifEof_cons (a := .eps (loopVal [] Tree.none))
      (Parses.s_ifTok_miss (a := .eps Tree.none) (startOK_comment hs) (not_contains_of_sub hks hs)
        (Parses.map (fn := loopCons) (Parses.seq (Parses.s_recover (m := .skipTok) hs') ih'))))
    rw [loopCons_ok (Stmt.tree_ok X s hwf.1)] at this
    exact this

/-- `parse_method_body` on the cut-out slice: a well-formed list up to the end of the slice -/
theorem body_loop (ss : List (Stmt ε)) (hwf : Stmts.WF X ss) (hrt : AllRT X ss) :
    Parses (.ref nBody) (Stmts.toks X ss) [] (Tree.list (Stmts.trees X ss)) := by
  induction ss with
  | nil =>
    simp only [Stmts.toks, Stmts.trees]
    exact Parses.ref (n := nBody) (Parses.s_ifEof_nil Parses.eps)
  | cons s rest ih =>
    obtain ⟨t, r, ht, hs⟩ := Stmt.first X s hwf.1
    have hs' := hrt s List.mem_cons_self _ (sstop_stmts_nil X rest hwf.2)
    have ih' := ih hwf.2 (fun x hx => hrt x (List.mem_cons_of_mem _ hx))
    simp only [Stmts.toks, Stmts.trees]
    rw [ht] at hs' ⊢
    simp only [List.cons_append] at hs' ⊢
    have := Parses.map (fn := fun v => Tree.list (optList (v.nth 0) ++ (v.nth 1).kids))
      (Parses.seq (Parses.s_recover (m := .skipTok) hs') ih')
    exact Parses.ref (n := nBody) (Parses.s_ifEof_cons (a := .eps (Tree.list [])) (this.s_to (by
      simp [Tree.nth, Tree.seq, Tree.kids, Tree.list, optList_ok (Stmt.tree_ok X s hwf.1)])))

/-! ## loops -/

include hX

theorem rt_while (kw : Tok) (c : ε) (body : List (Stmt ε)) (endT : Tok) (h : (Stmt.whileS kw c body endT).WF X)
    (hrt : AllRT X body) : StmtRT X (.whileS kw c body endT) := by
  intro k hk
  obtain ⟨hkw, hc, hb, he⟩ := h
  obtain ⟨hw, _⟩ := exprOK_split X hc
  have hcm : kw.kind ≠ Kind.Comment := by rw [hkw]; decide
  have hcond := hX.parses c hw (Stmts.toks X body ++ endT :: k)
    (sstop_stmts X body hb _ (sstop_end k (by rw [he]; decide))).stop8
  have hloop := until_loop X [Kind.EndWhile, Kind.End] nUntilEndWhile rfl (by decide) body hb hrt endT (by rw [he]; simp) k
  have hg : Parses gWhile (kw :: (X.toks c ++ (Stmts.toks X body ++ endT :: k))) k
      (Stmt.tree X (.whileS kw c body endT)) :=
    (Parses.map (Parses.seqL (ParsesList.cons (Parses.tok hkw) (ParsesList.cons hcond
      (ParsesList.cons hloop ParsesList.nil))))).s_to rfl
  have hfin := stmt_via 3 gWhile [gLoop, gSwitch, gRepeat, gComment, gUses, gConstDecl, gTypeDecl, gLocalVar, gControl,
    .ref nOqlExpr, gAssignment, .ref nExpr] rfl kw _ k _ hcm (by rw [hkw]; decide +kernel) hg
  simpa [Stmt.toks] using hfin

omit hX in
theorem rt_loop (kw : Tok) (body : List (Stmt ε)) (endT : Tok) (h : (Stmt.loopS kw body endT).WF X)
    (hrt : AllRT X body) : StmtRT X (.loopS kw body endT) := by
  intro k hk
  obtain ⟨hkw, hb, he⟩ := h
  have hcm : kw.kind ≠ Kind.Comment := by rw [hkw]; decide
  have hloop := until_loop X [Kind.EndLoop, Kind.End] nUntilEndLoop rfl (by decide) body hb hrt endT (by rw [he]; simp) k
  have hg : Parses gLoop (kw :: (Stmts.toks X body ++ endT :: k)) k (Stmt.tree X (.loopS kw body endT)) :=
    (Parses.map (Parses.seqL (ParsesList.cons (Parses.tok hkw) (ParsesList.cons hloop ParsesList.nil)))).s_to rfl
  have hfin := stmt_via 4 gLoop [gSwitch, gRepeat, gComment, gUses, gConstDecl, gTypeDecl, gLocalVar, gControl,
    .ref nOqlExpr, gAssignment, .ref nExpr] rfl kw _ k _ hcm (by rw [hkw]; decide +kernel) hg
  simpa [Stmt.toks] using hfin

/-- `lo to hi` (`parse_binary_ops` over `to`/`downto`) -/
theorem for_range (lo hi : ε) (to : Tok) (R2 : List Tok) (hlo : exprOKb X lo = true) (hhi : exprOKb X hi = true)
    (hto : to.kind ∈ toKinds) (h8 : Stop 8 R2) (hnt : Fails (toks toKinds) R2) :
    Parses gForRange (X.toks lo ++ to :: (X.toks hi ++ R2)) R2 (binNode (X.tree lo) (.leaf to) (X.tree hi)) := by
  obtain ⟨hwl, _⟩ := exprOK_split X hlo
  obtain ⟨hwh, hokh⟩ := exprOK_split X hhi
  obtain ⟨htb, htc⟩ := to_table _ hto
  have h1 := hX.parses lo hwl (to :: (X.toks hi ++ R2)) (by intro t r e; cases e; exact htb)
  have h2 := hX.parses hi hwh R2 h8
  have htl0 : Parses (.ref nForRangeTail) R2 R2 (tailOf []) :=
    Parses.ref (n := nForRangeTail) (Parses.alt2 (Fails.seq1 hnt) Parses.eps)
  have htl : Parses (.ref nForRangeTail) (to :: (X.toks hi ++ R2)) R2 (tailOf [(.leaf to, X.tree hi)]) :=
    Parses.ref (n := nForRangeTail) (Parses.alt1 (Parses.seq (Parses.toks hto htc) (Parses.seq h2 htl0)))
  have := Parses.map (fn := fun v : Tree => foldBin (treeDepth v) (v.nth 0) (v.nth 1)) (Parses.seq h1 htl)
  rw [fold_value _ _ (by
    intro p hp
    simp only [List.mem_cons, List.not_mem_nil, or_false] at hp
    subst hp
    exact okTree_notCaught hokh)] at this
  exact this

theorem rt_for (kw var eq : Tok) (lo : ε) (to : Tok) (hi : ε) (step : Option (Tok × ε)) (body : List (Stmt ε)) (endT : Tok)
    (h : (Stmt.forS kw var eq lo to hi step body endT).WF X) (hrt : AllRT X body) :
    StmtRT X (.forS kw var eq lo to hi step body endT) := by
  intro k hk
  obtain ⟨hkw, hvar, heq, hlo, hto, hhi, hstep, hb, he⟩ := h
  have hcm : kw.kind ≠ Kind.Comment := by rw [hkw]; decide
  have hsb : SStop (Stmts.toks X body ++ endT :: k) := sstop_stmts X body hb _ (sstop_end k (by rw [he]; decide))
  have hloop := until_loop X [Kind.EndFor, Kind.End] nUntilEndFor rfl (by decide) body hb hrt endT (by rw [he]; simp) k
  have hfin : Parses (.ref nStatement)
      (kw :: var :: eq :: (X.toks lo ++ to :: (X.toks hi ++ (stepToks X step ++ (Stmts.toks X body ++ endT :: k))))) k
      (Stmt.tree X (.forS kw var eq lo to hi step body endT)) := by
    refine stmt_via 1 gFor [gForEach, gWhile, gLoop, gSwitch, gRepeat, gComment, gUses, gConstDecl, gTypeDecl, gLocalVar,
      gControl, .ref nOqlExpr, gAssignment, .ref nExpr] rfl kw _ k _ hcm (by rw [hkw]; decide +kernel) ?_
    cases step with
    | none =>
      have hr := for_range X hX lo hi to (Stmts.toks X body ++ endT :: k) hlo hhi hto hsb.stop8
        (hsb.fails_toks _ (by decide +kernel))
      have hst : Parses (.dep (.opt (.tok Kind.Step)) Tree.isSome (.opt (.ref nExpr))) (Stmts.toks X body ++ endT :: k)
          (Stmts.toks X body ++ endT :: k) (Tree.seq [Tree.none, Tree.none]) :=
        Parses.s_dep_no (Parses.s_opt_none (hsb.fails_tok _ (by decide +kernel))) rfl
      exact (Parses.map (Parses.seqL (ParsesList.cons (Parses.tok hkw) (ParsesList.cons (Parses.tok hvar)
        (ParsesList.cons (Parses.tok heq) (ParsesList.cons hr (ParsesList.cons hst
          (ParsesList.cons hloop ParsesList.nil)))))))).s_to rfl
    | some p =>
      obtain ⟨st, se⟩ := p
      obtain ⟨hst1, hse⟩ := hstep
      obtain ⟨hws, hoks⟩ := exprOK_split X hse
      have hr := for_range X hX lo hi to (st :: (X.toks se ++ (Stmts.toks X body ++ endT :: k))) hlo hhi hto
        (by intro t r e; cases e; rw [hst1]; decide +kernel)
        (Fails.toks (by rw [hst1]; decide) (by rw [hst1]; decide))
      have hst : Parses (.dep (.opt (.tok Kind.Step)) Tree.isSome (.opt (.ref nExpr)))
          (st :: (X.toks se ++ (Stmts.toks X body ++ endT :: k)))
          (Stmts.toks X body ++ endT :: k) (Tree.seq [.leaf st, X.tree se]) :=
        Parses.s_dep_yes (Parses.s_opt (Parses.tok hst1)) rfl (Parses.s_opt (hX.parses se hws _ hsb.stop8))
      exact (Parses.map (Parses.seqL (ParsesList.cons (Parses.tok hkw) (ParsesList.cons (Parses.tok hvar)
        (ParsesList.cons (Parses.tok heq) (ParsesList.cons hr (ParsesList.cons hst
          (ParsesList.cons hloop ParsesList.nil)))))))).s_to (by
            simp [Stmt.tree, Tree.nth, Tree.seq, Tree.kids, optList_ok hoks, loopItems, loopEnd, loopVal, Tree.list,
              Tree.isSome, Tree.isNone, Tree.rng, Tree.ident])
  simpa [Stmt.toks, stepToks] using hfin

theorem rt_foreach (kw : Tok) (e : ε) (body : List (Stmt ε)) (endT : Tok) (h : (Stmt.foreachS kw e body endT).WF X)
    (hrt : AllRT X body) : StmtRT X (.foreachS kw e body endT) := by
  intro k hk
  obtain ⟨hkw, he, hfe, hb, hus, hend⟩ := h
  obtain ⟨hw, hok⟩ := exprOK_split X he
  have hcm : kw.kind ≠ Kind.Comment := by rw [hkw]; decide
  have hsb : SStop (Stmts.toks X body ++ endT :: k) := sstop_stmts X body hb _ (sstop_end k (by rw [hend]; decide))
  have hloop := until_loop X [Kind.EndFor, Kind.End] nUntilEndFor rfl (by decide) body hb hrt endT (by rw [hend]; simp) k
  -- the operand: `parse_oql_expr` fails on the first token, `parse_expr` takes the expression
  have hex := hX.parses e hw _ hsb.stop8
  obtain ⟨t, r, hts, hft⟩ := firstKindOK_cons hfe
  simp only [Bool.and_eq_true, bne_iff_ne, ne_eq] at hft
  have hoql : Fails (.ref nOqlExpr) (X.toks e ++ (Stmts.toks X body ++ endT :: k)) := by
    rw [hts]
    exact Fails.ref (n := nOqlExpr) (Fails.alt (Fails.map (fails_kw_seqL t _ _ _ hft.1 hft.2))
      (Fails.map (fails_kw_seqL t _ _ _ hft.1 hft.2)))
  have hopd : Parses (.alt (.ref nOqlExpr) (.ref nExpr)) (X.toks e ++ (Stmts.toks X body ++ endT :: k))
      (Stmts.toks X body ++ endT :: k) (X.tree e) := Parses.alt2 hoql hex
  have htl : Parses (.ref nForEachInTail) (Stmts.toks X body ++ endT :: k) (Stmts.toks X body ++ endT :: k) (tailOf []) :=
    Parses.ref (n := nForEachInTail) (Parses.alt2 (Fails.seq1 (hsb.fails_tok _ (by decide +kernel))) Parses.eps)
  have hin := Parses.map (fn := fun v : Tree => foldBin (treeDepth v) (v.nth 0) (v.nth 1)) (Parses.seq hopd htl)
  rw [fold_value _ [] (by intro p hp; cases hp)] at hin
  -- no `downto`, no `using`
  have hdt : Parses (.opt (.tok Kind.DownTo)) (Stmts.toks X body ++ endT :: k) (Stmts.toks X body ++ endT :: k) Tree.none :=
    Parses.s_opt_none (hsb.fails_tok _ (by decide +kernel))
  have hnu : Fails (.tok Kind.Using) (Stmts.toks X body ++ endT :: k) := by
    obtain ⟨t', r', hts', hft'⟩ := firstKindOK_cons hus
    have : Stmts.toks X body ++ endT :: k = t' :: (r' ++ k) := by
      have := congrArg (· ++ k) hts'
      simpa using this
    rw [this] at hsb ⊢
    exact Fails.tok (by simpa using hft') (fun e => hsb t' _ rfl (e ▸ comment_sbad))
  have husing : Parses (.dep (.opt (.tok Kind.Using)) Tree.isSome (.ref nIdentifier)) (Stmts.toks X body ++ endT :: k)
      (Stmts.toks X body ++ endT :: k) (Tree.seq [Tree.none, Tree.none]) :=
    Parses.s_dep_no (Parses.s_opt_none hnu) rfl
  have hg : Parses gForEach (kw :: (X.toks e ++ (Stmts.toks X body ++ endT :: k))) k (Stmt.tree X (.foreachS kw e body endT)) :=
    (Parses.map (Parses.seqL (ParsesList.cons (Parses.tok hkw) (ParsesList.cons hin (ParsesList.cons hdt
      (ParsesList.cons husing (ParsesList.cons hloop ParsesList.nil))))))).s_to rfl
  have hfin := stmt_via 2 gForEach [gWhile, gLoop, gSwitch, gRepeat, gComment, gUses, gConstDecl, gTypeDecl, gLocalVar, gControl,
    .ref nOqlExpr, gAssignment, .ref nExpr] rfl kw _ k _ hcm (by rw [hkw]; decide +kernel) hg
  simpa [Stmt.toks] using hfin

/-- `parse_until_w_context(Until, stmt)` and the condition after `until` -/
theorem repeat_loop (ss : List (Stmt ε)) (hwf : Stmts.WF X ss) (hrt : AllRT X ss) (untilT : Tok)
    (hu : untilT.kind = Kind.Until) (c : ε) (hc : X.wfb c = true) (k : List Tok) (hk : Stop 8 k) :
    Parses (.ref nRepeatUntil) (Stmts.toks X ss ++ untilT :: (X.toks c ++ k)) k (loopVal (Stmts.trees X ss) (X.tree c)) := by
  induction ss with
  | nil =>
    simp only [Stmts.toks, Stmts.trees, List.nil_append]
    exact Parses.ref (n := nRepeatUntil) (Parses.map (fn := repeatNorm)
      (Parses.s_ifEof_cons (Parses.s_ifTok_hit (by rw [hu]; decide) (by rw [hu]; decide) (hX.parses c hc k hk))))
  | cons s rest ih =>
    obtain ⟨t, r, ht, hs⟩ := Stmt.first X s hwf.1
    have hk' : SStop (Stmts.toks X rest ++ untilT :: (X.toks c ++ k)) :=
      sstop_stmts X rest hwf.2 _ (sstop_end _ (by rw [hu]; decide))
    have hs' := hrt s List.mem_cons_self _ hk'
    have ih' := ih hwf.2 (fun x hx => hrt x (List.mem_cons_of_mem _ hx))
    simp only [Stmts.toks, Stmts.trees, List.append_assoc]
    rw [ht] at hs' ⊢
    simp only [List.cons_append] at hs' ⊢
    have := Parses.map (fn := repeatNorm) (Parses.s_ifEof_cons (a := .eps (loopVal [] Tree.none))
      (Parses.s_ifTok_miss (a := .ref nExpr) (startOK_comment hs) (not_contains_of_sub (ks := [Kind.Until]) (by decide) hs)
        (Parses.map (fn := loopCons) (Parses.seq (Parses.s_recover (m := .skipTok) hs') ih'))))
    rw [loopCons_ok (Stmt.tree_ok X s hwf.1)] at this
    exact Parses.ref (n := nRepeatUntil) this

theorem rt_repeat (kw : Tok) (body : List (Stmt ε)) (untilT : Tok) (c : ε) (h : (Stmt.repeatS kw body untilT c).WF X)
    (hrt : AllRT X body) : StmtRT X (.repeatS kw body untilT c) := by
  intro k hk
  obtain ⟨hkw, hb, hu, hc⟩ := h
  obtain ⟨hw, hok⟩ := exprOK_split X hc
  have hcm : kw.kind ≠ Kind.Comment := by rw [hkw]; decide
  have hloop := repeat_loop X hX body hb hrt untilT hu c hw k hk.stop8
  have hg : Parses gRepeat (kw :: (Stmts.toks X body ++ untilT :: (X.toks c ++ k))) k (Stmt.tree X (.repeatS kw body untilT c)) :=
    (Parses.map (Parses.seqL (ParsesList.cons (Parses.tok hkw) (ParsesList.cons hloop ParsesList.nil)))).s_to (by
      simp [Stmt.tree, Tree.nth, Tree.seq, Tree.kids, loopEnd, loopItems, loopVal, Tree.list, okTree_isSome hok, Tree.rng])
  have hfin := stmt_via 6 gRepeat [gComment, gUses, gConstDecl, gTypeDecl, gLocalVar, gControl,
    .ref nOqlExpr, gAssignment, .ref nExpr] rfl kw _ k _ hcm (by rw [hkw]; decide +kernel) hg
  simpa [Stmt.toks] using hfin

/-! ## switch … when … endwhen … [else …] endswitch -/

omit hX

theorem val_table : ∀ x ∈ identKinds, x ∉ litKinds ∧ x ≠ Kind.Comment := by decide +kernel

theorem parses_valitem (t : Tok) (h : valKindOK t.kind = true) (r : List Tok) :
    Parses (.alt (.ref nLiteralBasic) (.ref nIdentifier)) (t :: r) r (terminal (.leaf t)) := by
  by_cases hl : t.kind ∈ litKinds
  · exact Parses.alt1 (parses_literalBasic t r hl)
  · have hi : t.kind ∈ identKinds := by
      simp only [valKindOK, Bool.or_eq_true, List.contains_iff_mem] at h
      rcases h with h | h
      · exact absurd h hl
      · exact h
    exact Parses.alt2 (Fails.ref (n := nLiteralBasic) (Fails.map (Fails.toks hl (val_table _ hi).2))) (parses_identifier t r hi)

/-- value of `, v , w …` in a value list -/
def valsVal : List (Tok × Tok) → Tree
  | [] => Tree.list []
  | (c, t) :: more => Tree.seq [.leaf c, Tree.list (terminal (.leaf t) :: more.map (fun ct => terminal (.leaf ct.2)))]

theorem valsVal_kids (rest : List (Tok × Tok)) :
    (if (valsVal rest).kind == "#seq" then ((valsVal rest).nth 1).kids else []) = rest.map (fun ct => terminal (.leaf ct.2)) := by
  cases rest with
  | nil => rfl
  | cons ct more => obtain ⟨c, t⟩ := ct; rfl

theorem val_tail (rest : List (Tok × Tok)) (hwf : valsWF rest) (k : List Tok) (hk : CStop k) :
    Parses (.ifTok [Kind.Comma] (.ref nValueRec) (.eps (Tree.list []))) (commaToks rest ++ k) k (valsVal rest) := by
  induction rest with
  | nil =>
    cases k with
    | nil => exact Parses.s_ifTok_nil Parses.eps
    | cons t r =>
      obtain ⟨h1, h2⟩ := hk t r rfl
      exact Parses.s_ifTok_miss h2 (by simpa using h1) Parses.eps
  | cons ct more ih =>
    obtain ⟨c, t⟩ := ct
    obtain ⟨hc, ht, hmore⟩ := hwf
    have hitem := parses_valitem t ht (commaToks more ++ k)
    have hrec : Parses (.ref nValueRec) (t :: (commaToks more ++ k)) k
        (Tree.list (terminal (.leaf t) :: more.map (fun ct => terminal (.leaf ct.2)))) :=
      Parses.ref (n := nValueRec) ((Parses.map (Parses.seq
        (Parses.s_ifEof_cons (a := .tok Kind.Comma) (Parses.s_recover (m := .span) hitem)) (ih hmore))).s_to (by
          have := valsVal_kids more
          show Tree.list ((if (terminal (.leaf t)).isNone then [] else [terminal (.leaf t)]) ++
            (if (valsVal more).kind == "#seq" then ((valsVal more).nth 1).kids else [])) = _
          rw [this]
          rfl))
    exact Parses.s_ifTok_hit (ks := [Kind.Comma]) (b := .eps (Tree.list [])) (by rw [hc]; decide) (by rw [hc]; decide) hrec

theorem parses_sepvalues (first : Tok) (rest : List (Tok × Tok)) (hf : valKindOK first.kind = true) (hr : valsWF rest)
    (k : List Tok) (hk : CStop k) :
    Parses gSeparatedValues (first :: (commaToks rest ++ k)) k (WhenVals.tree (.list first rest)) := by
  have hitem := parses_valitem first hf (commaToks rest ++ k)
  have htail := val_tail rest hr k hk
  have hlist : Parses (sepListCtx (.alt (.ref nLiteralBasic) (.ref nIdentifier)) nValueRec) (first :: (commaToks rest ++ k)) k
      (Tree.list ((usesIds first rest).map (fun t => terminal (.leaf t)))) :=
    (Parses.map (Parses.s_dep_yes (Parses.s_recover (m := .silentAt) hitem) rfl htail)).s_to (by
      have := valsVal_kids rest
      show (if (terminal (.leaf first)).isNone then Tree.list []
        else Tree.list (terminal (.leaf first) :: (if (valsVal rest).kind == "#seq" then ((valsVal rest).nth 1).kids else []))) = _
      rw [this]
      simp only [show (terminal (Tree.leaf first)).isNone = false from rfl, Bool.false_eq_true, ↓reduceIte, usesIds,
        List.map_cons, List.map_map, Function.comp_def])
  have hchk := Parses.s_check (p := fun l => !l.kids.isEmpty) (msg := "Empty list") hlist rfl
  have hl : (lastD ((usesIds first rest).map (fun t => terminal (.leaf t))) (terminal (.leaf first))).rng =
      (((usesIds first rest).getLast?).getD first).rng := by
    simp only [lastD, List.getLast?_map]
    cases (usesIds first rest).getLast? <;> rfl
  exact (Parses.map hchk).s_to (by
    show mk "set_literal" "set_literal" (Range.span (terminal (.leaf first)).rng
      (lastD ((usesIds first rest).map (fun t => terminal (.leaf t))) (terminal (.leaf first))).rng)
      ((usesIds first rest).map (fun t => terminal (.leaf t))) = _
    rw [hl]
    rfl)

theorem parses_whenvals (vals : WhenVals) (h : vals.WF) (k : List Tok) (hk : SStop k) :
    Parses gWhenExpr (vals.toks ++ k) k vals.tree := by
  cases vals with
  | range lo to hi =>
    obtain ⟨hlo, hto, hhi⟩ := h
    exact Parses.alt1 ((Parses.map (Parses.seqL (ParsesList.cons (parses_literalBasic lo _ hlo) (ParsesList.cons (Parses.tok hto)
      (ParsesList.cons (parses_literalBasic hi k hhi) ParsesList.nil))))).s_to rfl)
  | list first rest =>
    obtain ⟨hf, hr⟩ := h
    have hto : Fails gToOp (first :: (commaToks rest ++ k)) := by
      by_cases hl : first.kind ∈ litKinds
      · have hnext : Fails (.tok Kind.To) (commaToks rest ++ k) := by
          cases rest with
          | nil => exact hk.fails_tok _ (by decide +kernel)
          | cons ct more =>
            obtain ⟨c, t⟩ := ct
            exact Fails.tok (by rw [hr.1]; decide) (by rw [hr.1]; decide)
        exact Fails.map (Fails.seqL (pre := [.ref nLiteralBasic]) (ParsesList.cons (parses_literalBasic first _ hl) ParsesList.nil) hnext)
      · have hi : first.kind ∈ identKinds := by
          simp only [valKindOK, Bool.or_eq_true, List.contains_iff_mem] at hf
          rcases hf with h | h
          · exact absurd h hl
          · exact h
        exact Fails.map (Fails.seqL (pre := []) ParsesList.nil
          (Fails.ref (n := nLiteralBasic) (Fails.map (Fails.toks hl (val_table _ hi).2))))
    exact Parses.alt2 hto (parses_sepvalues first rest hf hr k (CStop.of_sstop hk))

/-- every statement list inside the `when` blocks round-trips -/
def WhenB.AllRT : WhenB ε → Prop
  | .mk _ _ body _ => C06.AllRT X body

def Whens.AllRT (ws : List (WhenB ε)) : Prop := ∀ w ∈ ws, w.AllRT X

theorem parses_when (w : WhenB ε) (hwf : w.WF X) (hrt : w.AllRT X) (k : List Tok) :
    Parses gWhenBlock (w.toks X ++ k) k (w.tree X) := by
  obtain ⟨kw, vals, body, endT⟩ := w
  obtain ⟨hkw, hv, hb, he⟩ := hwf
  have hsb : SStop (Stmts.toks X body ++ endT :: k) := sstop_stmts X body hb _ (sstop_end k (by rw [he]; decide))
  have hvals := parses_whenvals vals hv _ hsb
  have hloop := until_loop X [Kind.EndWhen] nUntilEndWhen rfl (by decide) body hb hrt endT (by rw [he]; simp) k
  have : Parses gWhenBlock (kw :: (vals.toks ++ (Stmts.toks X body ++ endT :: k))) k (WhenB.tree X (.mk kw vals body endT)) :=
    (Parses.map (Parses.seqL (ParsesList.cons (Parses.tok hkw) (ParsesList.cons hvals (ParsesList.cons hloop ParsesList.nil))))).s_to rfl
  simpa [WhenB.toks] using this

theorem when_blocks (ws : List (WhenB ε)) (hwf : Whens.WF X ws) (hrt : Whens.AllRT X ws) (t : Tok) (r : List Tok)
    (ht : t.kind ≠ Kind.When) (hc : t.kind ≠ Kind.Comment) :
    Parses (.ref nWhenBlocks) (Whens.toks X ws ++ t :: r) (t :: r) (Tree.list (Whens.trees X ws)) := by
  induction ws with
  | nil =>
    exact Parses.ref (n := nWhenBlocks) (Parses.s_ifEof_cons (a := .eps (Tree.list []))
      (Parses.alt2 (Fails.map (Fails.seq1 (Fails.map (fails_kw_seqL t r _ _ ht hc)))) Parses.eps))
  | cons w rest ih =>
    have hw := parses_when X w hwf.1 (hrt w List.mem_cons_self) (Whens.toks X rest ++ t :: r)
    have ih' := ih hwf.2 (fun x hx => hrt x (List.mem_cons_of_mem _ hx))
    obtain ⟨t0, r0, h0⟩ : ∃ t0 r0, w.toks X ++ (Whens.toks X rest ++ t :: r) = t0 :: r0 := by
      obtain ⟨kw, vals, body, endT⟩ := w
      exact ⟨kw, _, rfl⟩
    simp only [Whens.toks, Whens.trees, List.append_assoc]
    rw [h0] at hw ⊢
    exact Parses.ref (n := nWhenBlocks) (Parses.s_ifEof_cons (a := .eps (Tree.list []))
      (Parses.alt1 ((Parses.map (Parses.seq hw ih')).s_to rfl)))

include hX in
theorem rt_switch (kw : Tok) (e : ε) (whens : List (WhenB ε)) (els : Option Tok) (elseBody : List (Stmt ε)) (endT : Tok)
    (h : (Stmt.switchS kw e whens els elseBody endT).WF X) (hrtw : Whens.AllRT X whens) (hrte : AllRT X elseBody) :
    StmtRT X (.switchS kw e whens els elseBody endT) := by
  intro k hk
  obtain ⟨hkw, he, hws, hels, heb, hend⟩ := h
  obtain ⟨hw, _⟩ := exprOK_split X he
  have hcm : kw.kind ≠ Kind.Comment := by rw [hkw]; decide
  -- the tail: `[else …] endswitch`
  have htail : ∃ t r, els.toList ++ (Stmts.toks X elseBody ++ endT :: k) = t :: r ∧ t.kind ≠ Kind.When ∧ t.kind ≠ Kind.Comment ∧
      t.kind ∈ stmtEnds ∧
      Parses gSwitchElse (t :: r) k
        (Tree.seq [(match els with
          | some t => mk "when" "when_block" (Range.span t.rng endT.rng) (Stmts.trees X elseBody)
          | none => Tree.none), .leaf endT]) := by
    cases els with
    | some t =>
      have hloop := until_loop X [Kind.EndSwitch] nUntilEndSwitch rfl (by decide) elseBody heb hrte endT (by rw [hend]; simp) k
      have ht : t.kind = Kind.Else := hels
      refine ⟨t, _, rfl, by rw [ht]; decide, by rw [ht]; decide, by rw [ht]; decide, ?_⟩
      exact Parses.alt1 ((Parses.map (Parses.seqL (ParsesList.cons (Parses.tok ht) (ParsesList.cons hloop ParsesList.nil)))).s_to rfl)
    | none =>
      have hnil : elseBody = [] := hels
      subst hnil
      refine ⟨endT, k, by simp [Stmts.toks], by rw [hend]; decide, by rw [hend]; decide, by rw [hend]; decide, ?_⟩
      exact Parses.alt2 (Fails.map (fails_kw_seqL endT k _ _ (by rw [hend]; decide) (by rw [hend]; decide)))
        ((Parses.map (Parses.s_opt (Parses.tok hend))).s_to rfl)
  obtain ⟨t, r, htr, htw, htc, hte, hse⟩ := htail
  have hblocks := when_blocks X whens hws hrtw t r htw htc
  have hst : SStop (Whens.toks X whens ++ t :: r) := by
    cases whens with
    | nil => exact sstop_end r hte
    | cons w rest =>
      obtain ⟨wk, vals, body, we⟩ := w
      have : (WhenB.mk wk vals body we : WhenB ε).toks X = wk :: (vals.toks ++ (Stmts.toks X body ++ [we])) := rfl
      simp only [Whens.toks, this, List.cons_append]
      exact sstop_end _ (by rw [hws.1.1]; decide)
  have hcond := hX.parses e hw _ hst.stop8
  have hg : Parses gSwitch (kw :: (X.toks e ++ (Whens.toks X whens ++ t :: r))) k
      (Stmt.tree X (.switchS kw e whens els elseBody endT)) :=
    (Parses.map (Parses.seqL (ParsesList.cons (Parses.tok hkw) (ParsesList.cons hcond (ParsesList.cons hblocks
      (ParsesList.cons hse ParsesList.nil)))))).s_to (by cases els <;> rfl)
  have hfin := stmt_via 5 gSwitch [gRepeat, gComment, gUses, gConstDecl, gTypeDecl, gLocalVar, gControl,
    .ref nOqlExpr, gAssignment, .ref nExpr] rfl kw _ k _ hcm (by rw [hkw]; decide +kernel) hg
  rw [← htr] at hfin
  simpa [Stmt.toks] using hfin

variable (hX : X.Sound)

/-! ## if … [elseif …]* [else …] endif -/

omit hX

/-- the events `parse_if_block` sees after the statements of the current block -/
def IfTail.events : IfTail ε → List Tree
  | .endif t => [.leaf t]
  | .els t body endT => .leaf t :: (Stmts.trees X body ++ [.leaf endT])
  | .elif t c body tail => Tree.seq [.leaf t, X.tree c] :: (Stmts.trees X body ++ tail.events)

/-- every statement list inside the tail round-trips -/
def IfTail.AllRT : IfTail ε → Prop
  | .endif _ => True
  | .els _ body _ => C06.AllRT X body
  | .elif _ _ body tail => C06.AllRT X body ∧ tail.AllRT

theorem IfTail.first (tl : IfTail ε) (h : tl.WF X) : ∃ t r, tl.toks X = t :: r ∧ t.kind ∈ stmtEnds := by
  cases tl with
  | endif t => exact ⟨t, _, rfl, by rw [show t.kind = Kind.EndIf from h]; decide⟩
  | els t body endT => exact ⟨t, _, rfl, by rw [h.1]; decide⟩
  | elif t c body tail => exact ⟨t, _, rfl, by rw [h.1]; decide⟩

theorem sstop_tail (tl : IfTail ε) (h : tl.WF X) (k : List Tok) : SStop (tl.toks X ++ k) := by
  obtain ⟨t, r, ht, hs⟩ := IfTail.first X tl h
  rw [ht]
  exact sstop_end _ hs

theorem ifLoop_cons {t : Tok} {ts k : List Tok} {v : Tree} (h : Parses (.ref nIfUntil) (t :: ts) k v) :
    Parses (.ref nIfLoop) (t :: ts) k v :=
  Parses.ref (n := nIfLoop) (Parses.s_ifEof_cons (a := .eps (Tree.list [])) h)

theorem ifLoop_of_sstop {ts k : List Tok} {v : Tree} (hne : ts ≠ []) (h : Parses (.ref nIfUntil) ts k v) :
    Parses (.ref nIfLoop) ts k v := by
  cases ts with
  | nil => exact absurd rfl hne
  | cons t r => exact ifLoop_cons h

/-- the statements of a block, then whatever the rest of the `if` yields -/
theorem if_stmts (ss : List (Stmt ε)) (hwf : Stmts.WF X ss) (hrt : AllRT X ss) (rest k : List Tok) (evs : List Tree)
    (hsr : SStop rest) (hrest : Parses (.ref nIfUntil) rest k (Tree.list evs)) :
    Parses (.ref nIfUntil) (Stmts.toks X ss ++ rest) k (Tree.list (Stmts.trees X ss ++ evs)) := by
  induction ss with
  | nil => simpa [Stmts.toks, Stmts.trees] using hrest
  | cons s tl ih =>
    obtain ⟨t, r, ht, hs⟩ := Stmt.first X s hwf.1
    have hs' := hrt s List.mem_cons_self _ (sstop_stmts X tl hwf.2 _ hsr)
    have ih' := ih hwf.2 (fun x hx => hrt x (List.mem_cons_of_mem _ hx))
    simp only [Stmts.toks, Stmts.trees, List.append_assoc]
    rw [ht] at hs' ⊢
    simp only [List.cons_append] at hs' ⊢
    have hm (ks : List Kind) (hks : ∀ x ∈ ks, x ∈ stmtEnds) := not_contains_of_sub hks hs
    have hc := startOK_comment hs
    have h5 := Parses.map (fn := fun v => Tree.list (optList (v.nth 0) ++ (v.nth 1).kids))
      (Parses.seq (Parses.s_recover (m := .skipTok) hs') ih')
    have h4 := Parses.map (fn := fun v : Tree => if v.kind == "#seq" then Tree.list [v.nth 0] else v)
      (Parses.s_ifTok_miss (a := .eps Tree.none) hc (hm [Kind.EndIf, Kind.End] (by decide)) h5)
    have h3 := Parses.map (fn := fun v : Tree => if v.kind == "#seq" then Tree.list (v.nth 0 :: (v.nth 1).kids) else v)
      (Parses.s_ifTok_miss (a := .ref nIfLoop) hc (hm [Kind.Else] (by decide)) h4)
    have h1 := Parses.map (fn := fun v : Tree => if v.kind == "#seq" then
                      let c := v.nth 1
                      Tree.list (Tree.seq [v.nth 0, (c.nth 0).nth 0] :: c.kids.drop 1)
                    else v)
      (Parses.s_ifTok_miss
        (a := .map (fun v => Tree.list (Tree.seq [v.nth 0] :: (v.nth 1).kids)) (.seq (.ref nExpr) (.ref nIfLoop)))
        hc (hm [Kind.ElseIf] (by decide)) h3)
    exact Parses.ref (n := nIfUntil) (Parses.s_ifEof_cons (a := .eps (Tree.list [noEnd])) (h1.s_to (by
      simp [Tree.nth, Tree.seq, Tree.kids, Tree.list, Tree.kind, optList_ok (Stmt.tree_ok X s hwf.1)])))

theorem if_end (t : Tok) (ht : t.kind = Kind.EndIf) (k : List Tok) :
    Parses (.ref nIfUntil) (t :: k) k (Tree.list [.leaf t]) := by
  have hc : t.kind ≠ Kind.Comment := by rw [ht]; decide
  have h4 := Parses.map (fn := fun v : Tree => if v.kind == "#seq" then Tree.list [v.nth 0] else v)
    (Parses.s_ifTok_hit (ks := [Kind.EndIf, Kind.End]) (a := .eps Tree.none)
      (b := .map (fun v => Tree.list (optList (v.nth 0) ++ (v.nth 1).kids))
        (.seq (.recover .skipTok (.ref nStatement)) (.ref nIfUntil)))
      hc (by rw [ht]; decide) (Parses.eps (ts := k)))
  have h3 := Parses.map (fn := fun v : Tree => if v.kind == "#seq" then Tree.list (v.nth 0 :: (v.nth 1).kids) else v)
    (Parses.s_ifTok_miss (ks := [Kind.Else]) (a := .ref nIfLoop) hc (by rw [ht]; decide) h4)
  have h1 := Parses.map (fn := fun v : Tree => if v.kind == "#seq" then
                    let c := v.nth 1
                    Tree.list (Tree.seq [v.nth 0, (c.nth 0).nth 0] :: c.kids.drop 1)
                  else v)
    (Parses.s_ifTok_miss (ks := [Kind.ElseIf])
      (a := .map (fun v => Tree.list (Tree.seq [v.nth 0] :: (v.nth 1).kids)) (.seq (.ref nExpr) (.ref nIfLoop)))
      hc (by rw [ht]; decide) h3)
  exact Parses.ref (n := nIfUntil) (Parses.s_ifEof_cons (a := .eps (Tree.list [noEnd])) (h1.s_to rfl))

include hX

/-- the rest of an `if` after the statements of a block -/
theorem if_tail : (tl : IfTail ε) → tl.WF X → tl.AllRT X → ∀ k : List Tok,
    Parses (.ref nIfUntil) (tl.toks X ++ k) k (Tree.list (tl.events X))
  | .endif t, hwf, _, k => if_end t hwf k
  | .els t body endT, hwf, hrt, k => by
    obtain ⟨ht, hb, he⟩ := hwf
    have hc : t.kind ≠ Kind.Comment := by rw [ht]; decide
    have hin := if_stmts X body hb hrt (endT :: k) k [.leaf endT] (sstop_end k (by rw [he]; decide)) (if_end endT he k)
    have hloop : Parses (.ref nIfLoop) (Stmts.toks X body ++ endT :: k) k (Tree.list (Stmts.trees X body ++ [.leaf endT])) :=
      ifLoop_of_sstop (by simp) hin
    have h3 := Parses.map (fn := fun v : Tree => if v.kind == "#seq" then Tree.list (v.nth 0 :: (v.nth 1).kids) else v)
      (Parses.s_ifTok_hit (ks := [Kind.Else])
        (b := .map (fun v : Tree => if v.kind == "#seq" then Tree.list [v.nth 0] else v)
              (.ifTok [Kind.EndIf, Kind.End] (.eps Tree.none)
                (.map (fun v => Tree.list (optList (v.nth 0) ++ (v.nth 1).kids))
                  (.seq (.recover .skipTok (.ref nStatement)) (.ref nIfUntil)))))
        hc (by rw [ht]; decide) hloop)
    have h1 := Parses.map (fn := fun v : Tree => if v.kind == "#seq" then
                      let c := v.nth 1
                      Tree.list (Tree.seq [v.nth 0, (c.nth 0).nth 0] :: c.kids.drop 1)
                    else v)
      (Parses.s_ifTok_miss (ks := [Kind.ElseIf])
        (a := .map (fun v => Tree.list (Tree.seq [v.nth 0] :: (v.nth 1).kids)) (.seq (.ref nExpr) (.ref nIfLoop)))
        hc (by rw [ht]; decide) h3)
    have : Parses (.ref nIfUntil) (t :: (Stmts.toks X body ++ endT :: k)) k
        (Tree.list (.leaf t :: (Stmts.trees X body ++ [.leaf endT]))) :=
      Parses.ref (n := nIfUntil) (Parses.s_ifEof_cons (a := .eps (Tree.list [noEnd])) (h1.s_to (by
        simp [Tree.nth, Tree.seq, Tree.kids, Tree.list, Tree.kind])))
    simpa [IfTail.toks, IfTail.events] using this
  | .elif t c body tail, hwf, hrt, k => by
    obtain ⟨ht, hce, hb, htl⟩ := hwf
    obtain ⟨hw, _⟩ := exprOK_split X hce
    have hc : t.kind ≠ Kind.Comment := by rw [ht]; decide
    have hst : SStop (tail.toks X ++ k) := sstop_tail X tail htl k
    have hin := if_stmts X body hb hrt.1 (tail.toks X ++ k) k (tail.events X) hst (if_tail tail htl hrt.2 k)
    have hne : Stmts.toks X body ++ (tail.toks X ++ k) ≠ [] := by
      obtain ⟨t', r', ht', _⟩ := IfTail.first X tail htl
      simp [ht']
    have hloop := ifLoop_of_sstop hne hin
    have hcond := hX.parses c hw _ (sstop_stmts X body hb _ hst).stop8
    have h2 := Parses.map (fn := fun v => Tree.list (Tree.seq [v.nth 0] :: (v.nth 1).kids)) (Parses.seq hcond hloop)
    have h1 := Parses.map (fn := fun v : Tree => if v.kind == "#seq" then
                      let c := v.nth 1
                      Tree.list (Tree.seq [v.nth 0, (c.nth 0).nth 0] :: c.kids.drop 1)
                    else v)
      (Parses.s_ifTok_hit (ks := [Kind.ElseIf])
        (b := .map (fun v : Tree => if v.kind == "#seq" then Tree.list (v.nth 0 :: (v.nth 1).kids) else v)
          (.ifTok [Kind.Else] (.ref nIfLoop)
            (.map (fun v : Tree => if v.kind == "#seq" then Tree.list [v.nth 0] else v)
              (.ifTok [Kind.EndIf, Kind.End] (.eps Tree.none)
                (.map (fun v => Tree.list (optList (v.nth 0) ++ (v.nth 1).kids))
                  (.seq (.recover .skipTok (.ref nStatement)) (.ref nIfUntil)))))))
        hc (by rw [ht]; decide) h2)
    have : Parses (.ref nIfUntil) (t :: (X.toks c ++ (Stmts.toks X body ++ (tail.toks X ++ k)))) k
        (Tree.list (Tree.seq [.leaf t, X.tree c] :: (Stmts.trees X body ++ tail.events X))) :=
      Parses.ref (n := nIfUntil) (Parses.s_ifEof_cons (a := .eps (Tree.list [noEnd])) (h1.s_to (by
        simp [Tree.nth, Tree.seq, Tree.kids, Tree.list, Tree.kind])))
    simpa [IfTail.toks, IfTail.events] using this

/-! ### the fold of `parse_if_block` over the events is the intended list of blocks -/

omit hX

theorem Stmts.trees_ok (ss : List (Stmt ε)) (h : Stmts.WF X ss) : ∀ t ∈ Stmts.trees X ss, okTree t = true := by
  induction ss with
  | nil => intro t ht; simp [Stmts.trees] at ht
  | cons s rest ih =>
    intro t ht
    simp only [Stmts.trees, List.mem_cons] at ht
    rcases ht with rfl | ht
    · exact Stmt.tree_ok X s h.1
    · exact ih h.2 t ht

theorem fold_stmts (ts : List Tree) (h : ∀ t ∈ ts, okTree t = true) (acc : IfAcc) :
    ts.foldl ifFold acc = { acc with stmts := acc.stmts ++ ts } := by
  induction ts generalizing acc with
  | nil => simp
  | cons t rest ih =>
    rw [List.foldl_cons, okTree_ifFold (h t List.mem_cons_self), ih (fun x hx => h x (List.mem_cons_of_mem _ hx))]
    simp

theorem ifFold_end (acc : IfAcc) (t : Tok) (ht : t.kind = Kind.EndIf) :
    ifFold acc (.leaf t) = { acc with curRaw := updRange acc.curRaw acc.cond acc.stmts, endTok := some (.leaf t) } := by
  simp [ifFold, ht]

theorem ifFold_else (acc : IfAcc) (t : Tok) (ht : t.kind = Kind.Else) :
    ifFold acc (.leaf t) = { acc with done := acc.done ++ [ifBlock acc.curRaw acc.cond acc.stmts],
                                      curTok := t.rng, curRaw := t.rng, cond := none, stmts := [] } := by
  simp [ifFold, ht, ifBlock]

theorem ifFold_elseif (acc : IfAcc) (t : Tok) (c : Tree) :
    ifFold acc (Tree.seq [.leaf t, c]) = { acc with done := acc.done ++ [ifBlock acc.curRaw acc.cond acc.stmts],
                                                    curTok := t.rng, curRaw := t.rng, cond := some c, stmts := [] } := rfl

/-- the blocks and the end token `parse_if_block` reads off the folded state -/
def ifResult (a : IfAcc) : List Tree × Option Tree := (a.done ++ [condBlock a.curRaw a.cond a.stmts], a.endTok)

theorem fold_events : (tl : IfTail ε) → tl.WF X → (acc : IfAcc) →
    ifResult ((tl.events X).foldl ifFold acc) =
      (acc.done ++ tl.blocks X acc.curRaw acc.cond acc.stmts, some (.leaf tl.endTok))
  | .endif t, hwf, acc => by
    simp [IfTail.events, ifFold_end acc t hwf, ifResult, IfTail.blocks, ifBlock, IfTail.endTok]
  | .els t body endT, hwf, acc => by
    obtain ⟨ht, hb, he⟩ := hwf
    simp only [IfTail.events, List.foldl_cons, List.foldl_append, List.foldl_nil]
    rw [ifFold_else acc t ht, fold_stmts _ (Stmts.trees_ok X body hb), ifFold_end _ endT he]
    simp [ifResult, IfTail.blocks, ifBlock, IfTail.endTok]
  | .elif t c body tail, hwf, acc => by
    obtain ⟨ht, _, hb, htl⟩ := hwf
    simp only [IfTail.events, List.foldl_cons, List.foldl_append]
    rw [ifFold_elseif, fold_stmts _ (Stmts.trees_ok X body hb), fold_events tail htl]
    simp [IfTail.blocks, IfTail.endTok]

theorem events_noend (tl : IfTail ε) (hwf : tl.WF X) : ∀ e ∈ tl.events X, (e.kind == "#noend") = false := by
  have hleaf : ∀ (t : Tok), t.kind ∈ stmtEnds → ((Tree.leaf t).kind == "#noend") = false := by
    intro t ht
    simp only [Tree.kind]
    generalize t.kind = x at ht
    revert x
    decide +kernel
  match tl, hwf with
  | .endif t, hwf =>
    intro e he
    simp only [IfTail.events, List.mem_cons, List.not_mem_nil, or_false] at he
    subst he
    exact hleaf t (by rw [show t.kind = Kind.EndIf from hwf]; decide)
  | .els t body endT, hwf =>
    intro e he
    simp only [IfTail.events, List.mem_cons, List.mem_append, List.not_mem_nil, or_false] at he
    rcases he with rfl | he | rfl
    · exact hleaf t (by rw [hwf.1]; decide)
    · exact okTree_noend (Stmts.trees_ok X body hwf.2.1 e he)
    · exact hleaf endT (by rw [hwf.2.2]; decide)
  | .elif t c body tail, hwf =>
    intro e he
    simp only [IfTail.events, List.mem_cons, List.mem_append] at he
    rcases he with rfl | he | he
    · rfl
    · exact okTree_noend (Stmts.trees_ok X body hwf.2.2.1 e he)
    · exact events_noend tail hwf.2.2.2 e he

include hX

theorem rt_if (kw : Tok) (c : ε) (body : List (Stmt ε)) (tail : IfTail ε) (h : (Stmt.ifS kw c body tail).WF X)
    (hrt : AllRT X body) (hrtt : tail.AllRT X) : StmtRT X (.ifS kw c body tail) := by
  intro k hk
  obtain ⟨hkw, hc, hb, htl⟩ := h
  obtain ⟨hw, _⟩ := exprOK_split X hc
  have hcm : kw.kind ≠ Kind.Comment := by rw [hkw]; decide
  have hst : SStop (tail.toks X ++ k) := sstop_tail X tail htl k
  have hin := if_stmts X body hb hrt (tail.toks X ++ k) k (tail.events X) hst (if_tail X hX tail htl hrtt k)
  have hne : Stmts.toks X body ++ (tail.toks X ++ k) ≠ [] := by
    obtain ⟨t', r', ht', _⟩ := IfTail.first X tail htl
    simp [ht']
  have hloop := ifLoop_of_sstop hne hin
  have hcond := hX.parses c hw _ (sstop_stmts X body hb _ hst).stop8
  have hseq := Parses.seqL (ParsesList.cons (Parses.tok hkw) (ParsesList.cons hcond (ParsesList.cons hloop ParsesList.nil)))
  have hemit := Parses.s_emit (fn := fun v =>
        if (v.nth 2).kids.any (fun e => e.kind == "#noend")
        then some ⟨(v.nth 0).rng, "no end token found"⟩ else none) hseq (by
      have : (Stmts.trees X body ++ tail.events X).any (fun e => e.kind == "#noend") = false := by
        rw [List.any_eq_false]
        intro e he
        rcases List.mem_append.mp he with he | he
        · simp [okTree_noend (Stmts.trees_ok X body hb e he)]
        · simp [events_noend X tail htl e he]
      simp [Tree.nth, Tree.seq, Tree.kids, Tree.list, this])
  have hfold := fold_events X tail htl
    { curTok := kw.rng, curRaw := Range.span kw.rng kw.rng, cond := some (X.tree c), stmts := Stmts.trees X body }
  have hg : Parses gIf (kw :: (X.toks c ++ (Stmts.toks X body ++ (tail.toks X ++ k)))) k (Stmt.tree X (.ifS kw c body tail)) :=
    (Parses.map hemit).s_to (by
      simp only [ifResult, Prod.mk.injEq] at hfold
      simp only [Tree.nth, Tree.seq, Tree.kids, Tree.list, List.getElem?_cons_zero, List.getElem?_cons_succ,
        Option.getD_some, List.foldl_append, Stmt.tree, Tree.rng]
      rw [fold_stmts _ (Stmts.trees_ok X body hb)]
      simp only [List.nil_append]
      rw [hfold.1, hfold.2]
      simp)
  have hfin := stmt_via 0 gIf [gFor, gForEach, gWhile, gLoop, gSwitch, gRepeat, gComment, gUses, gConstDecl, gTypeDecl,
    gLocalVar, gControl, .ref nOqlExpr, gAssignment, .ref nExpr] rfl kw _ k _ hcm (by intro p hp; cases hp) hg
  simpa [Stmt.toks] using hfin

/-! ## every well-formed statement round-trips: induction over the syntax -/

set_option linter.unusedSectionVars false in
mutual
theorem stmt_rt : (s : Stmt ε) → s.WF X → StmtRT X s
  | .assign lhs op e, h => rt_assign X hX lhs op e h
  | .expr e, h => rt_expr X hX e h
  | .ret kw e, h => rt_ret X hX kw e h
  | .ctl kw, h => rt_ctl X kw h
  | .lvar kw name colon ty abs, h => rt_lvar X kw name colon ty abs h
  | .typeS kw name colon ty, h => rt_typeS X kw name colon ty h
  | .usesS kw first rest, h => rt_usesS X kw first rest h
  | .constS kw name eq lit ml, h => rt_constS X kw name eq lit ml h
  | .ifS kw c body tail, h => rt_if X hX kw c body tail h (stmts_rt body h.2.2.1) (tail_rt tail h.2.2.2)
  | .whileS kw c body endT, h => rt_while X hX kw c body endT h (stmts_rt body h.2.2.1)
  | .loopS kw body endT, h => rt_loop X kw body endT h (stmts_rt body h.2.1)
  | .forS kw var eq lo to hi step body endT, h =>
    rt_for X hX kw var eq lo to hi step body endT h (stmts_rt body h.2.2.2.2.2.2.2.1)
  | .foreachS kw e body endT, h => rt_foreach X hX kw e body endT h (stmts_rt body h.2.2.2.1)
  | .repeatS kw body untilT c, h => rt_repeat X hX kw body untilT c h (stmts_rt body h.2.1)
  | .switchS kw e whens els elseBody endT, h =>
    rt_switch X hX kw e whens els elseBody endT h (whens_rt whens h.2.2.1) (stmts_rt elseBody h.2.2.2.2.1)
theorem when_rt : (w : WhenB ε) → w.WF X → w.AllRT X
  | .mk _ _ body _, h => stmts_rt body h.2.2.1
theorem whens_rt : (ws : List (WhenB ε)) → Whens.WF X ws → Whens.AllRT X ws
  | [], _ => fun _ hs => by cases hs
  | w :: rest, h => fun x hx =>
    match List.mem_cons.mp hx with
    | .inl e => e ▸ when_rt w h.1
    | .inr hx => whens_rt rest h.2 x hx
theorem stmts_rt : (ss : List (Stmt ε)) → Stmts.WF X ss → AllRT X ss
  | [], _ => fun _ hs => by cases hs
  | s :: rest, h => fun x hx =>
    match List.mem_cons.mp hx with
    | .inl e => e ▸ stmt_rt s h.1
    | .inr hx => stmts_rt rest h.2 x hx
theorem tail_rt : (tl : IfTail ε) → tl.WF X → tl.AllRT X
  | .endif _, _ => trivial
  | .els _ body _, h => stmts_rt body h.2.1
  | .elif _ _ body tail, h => ⟨stmts_rt body h.2.2.1, tail_rt tail h.2.2.2⟩
end

omit hX

/-! ## methods: header, body cut out by `take_until` and parsed on its own -/

theorem termFree_of {ks : List Kind} {b : List Tok} (h : termFreeB ks b = true) : C09.TerminatorFree ks b := by
  intro t ht
  have := List.all_eq_true.mp h t ht
  simpa using this

/-- the value of `reslice` for a body with statements `stmts` printed as `toks` -/
def resVal (stmts : List Tree) (toks : List Tok) (endT : Tok) : Tree :=
  Tree.seq [(match toks with | [] => Tree.none | _ :: _ => Tree.list stmts), .leaf endT, sliceNode toks]

theorem bodyNode_resVal (ss : List (Stmt ε)) (hwf : Stmts.WF X ss) (endT : Tok) (endNode : Tree) :
    bodyNode (resVal (Stmts.trees X ss) (Stmts.toks X ss) endT) endNode = bodyTree endNode.rng (Stmts.trees X ss) := by
  cases ss with
  | nil => rfl
  | cons s rest =>
    obtain ⟨t, r, ht, _⟩ := Stmt.first X s hwf.1
    simp only [Stmts.toks, Stmts.trees]
    rw [ht]
    rfl

include hX in
theorem parses_reslice (ks : List Kind) (body : List (Stmt ε)) (hwf : Stmts.WF X body)
    (hfree : termFreeB ks (Stmts.toks X body) = true) (endT : Tok) (he : ks.contains endT.kind = true) (k : List Tok) :
    Parses (.reslice ks (.ref nBody)) (Stmts.toks X body ++ endT :: k) k
      (resVal (Stmts.trees X body) (Stmts.toks X body) endT) := by
  have hsplit := C09.takeUntil_split ks (Stmts.toks X body) endT k (termFree_of hfree) he
  have hbody := body_loop X body hwf (stmts_rt X hX body hwf)
  cases hts : Stmts.toks X body with
  | nil => rw [hts] at hsplit; exact (Parses.s_reslice_empty hsplit).s_to rfl
  | cons b0 bs => rw [hts] at hsplit hbody; exact (Parses.s_reslice hsplit hbody).s_to rfl

/-- what may follow the name / the parameters of a method header -/
def HStop (k : List Tok) : Prop := ∀ t r, k = t :: r → t.kind ∉ [Kind.Comment, Kind.OBracket, Kind.Pound]

theorem HStop.cons {t : Tok} {r : List Tok} (h : t.kind ∉ [Kind.Comment, Kind.OBracket, Kind.Pound]) : HStop (t :: r) := by
  intro t' r' e; cases e; exact h

theorem HStop.of_sstop {k : List Tok} (h : SStop k) : HStop k := by
  intro t r e hin
  have := h t r e
  simp only [List.mem_cons, List.not_mem_nil, or_false] at hin
  rcases hin with hin | hin | hin <;> rw [hin] at this <;> exact this (by decide +kernel)

theorem HStop.fails_pound {k : List Tok} (h : HStop k) : Fails (.tok Kind.Pound) k := by
  cases k with
  | nil => exact Fails.tok_nil
  | cons t r =>
    have hb := h t r rfl
    exact Fails.tok (fun e => hb (by simp [e])) (fun e => hb (by simp [e]))

theorem parses_methodmods_nil (B : List Tok) (h : SStop B) : Parses (.ref nMethodMods) B B (Tree.list []) := by
  cases B with
  | nil => exact Parses.ref (n := nMethodMods) (Parses.s_ifEof_nil Parses.eps)
  | cons t r =>
    have hmod : Fails gMethodModTok (t :: r) :=
      Fails.altL (gs := [toks memberModKinds, gExternal, .tok Kind.Forward]) (by
        intro a ha
        simp only [List.mem_cons, List.not_mem_nil, or_false] at ha
        rcases ha with rfl | rfl | rfl
        · exact h.fails_toks _ (by decide +kernel)
        · exact Fails.map (Fails.seqL (pre := []) ParsesList.nil (h.fails_tok _ (by decide +kernel)))
        · exact h.fails_tok _ (by decide +kernel))
    exact Parses.ref (n := nMethodMods) (Parses.s_ifEof_cons (a := .eps (Tree.list []))
      (Parses.alt2 (Fails.map (Fails.seq1 hmod)) Parses.eps))

theorem parses_mname (name : MName) (h : name.WF) (R : List Tok) (hp : Fails (.tok Kind.Pound) R) :
    Parses gMethodName (name.toks ++ R) R name.tree := by
  cases name with
  | plain t =>
    have hid := parses_identifier t R h
    exact Parses.alt2 (Fails.map (Fails.seqL (pre := [.ref nIdentifier]) (ParsesList.cons hid ParsesList.nil) hp)) hid
  | event m p e =>
    obtain ⟨hm, hpd, he⟩ := h
    exact Parses.alt1 ((Parses.map (Parses.seqL (ParsesList.cons (parses_identifier m (p :: e :: R) hm)
      (ParsesList.cons (Parses.tok hpd) (ParsesList.cons (parses_identifier e R he) ParsesList.nil))))).s_to rfl)

theorem mod_table : ∀ x ∈ memberModKinds, x ≠ Kind.Comment ∧ x ≠ Kind.Forward ∧ x ≠ Kind.External ∧
    x ∉ [Kind.Comment, Kind.OBracket, Kind.Pound] := by decide +kernel

theorem parses_modtok (m : Mod) (h : m.WF) (R : List Tok) : Parses gMethodModTok (m.toks ++ R) R (.leaf m.leaf) := by
  cases m with
  | plain t =>
    rcases h with h | h
    · exact Parses.altL (pre := []) (post := [gExternal, .tok Kind.Forward]) (by intro a ha; cases ha)
        (Parses.toks h (mod_table _ h).1)
    · have hc : t.kind ≠ Kind.Comment := by rw [h]; decide
      exact Parses.altL (pre := [toks memberModKinds, gExternal]) (post := []) (by
        intro a ha
        simp only [List.mem_cons, List.not_mem_nil, or_false] at ha
        rcases ha with rfl | rfl
        · exact Fails.toks (by rw [h]; decide) hc
        · exact Fails.map (fails_kw_seqL t R _ _ (by rw [h]; decide) hc)) (Parses.tok h)
  | ext e s =>
    obtain ⟨he, hs⟩ := h
    have hc : e.kind ≠ Kind.Comment := by rw [he]; decide
    exact Parses.altL (pre := [toks memberModKinds]) (post := [.tok Kind.Forward]) (by
      intro a ha
      simp only [List.mem_cons, List.not_mem_nil, or_false] at ha
      subst ha
      exact Fails.toks (by rw [he]; decide) hc)
      ((Parses.map (Parses.seqL (ParsesList.cons (Parses.tok he) (ParsesList.cons (Parses.tok hs) ParsesList.nil)))).s_to rfl)

/-- `parse_until_no_match(parse_method_modifier_tokens)`: the modifiers, then what the end of the list yields -/
theorem parses_mods (ms : List Mod) (hwf : modsWF ms) (B : List Tok) (hB : Parses (.ref nMethodMods) B B (Tree.list [])) :
    Parses (.ref nMethodMods) (modsToks ms ++ B) B (Tree.list (ms.map (fun m => Tree.leaf m.leaf))) := by
  induction ms with
  | nil => exact hB
  | cons m rest ih =>
    have hm := parses_modtok m hwf.1 (modsToks rest ++ B)
    have ih' := ih hwf.2
    obtain ⟨t, r, ht⟩ : ∃ t r, m.toks ++ (modsToks rest ++ B) = t :: r := by cases m <;> exact ⟨_, _, rfl⟩
    simp only [modsToks, List.append_assoc]
    rw [ht] at hm ⊢
    exact Parses.ref (n := nMethodMods) (Parses.s_ifEof_cons (a := .eps (Tree.list []))
      (Parses.alt1 ((Parses.map (Parses.seq hm ih')).s_to rfl)))

/-- value of `parse_method_modifiers` -/
def modsVal (ms : List Mod) : Tree := match modsNode ms with | some t => t | none => Tree.none

theorem methodMods_val (ms : List Mod) : methodModsNode (Tree.list (ms.map (fun m => Tree.leaf m.leaf))) = modsVal ms := by
  cases ms with
  | nil => rfl
  | cons m rest =>
    have hl : lastD ((m :: rest).map (fun m => Tree.leaf m.leaf)) (Tree.leaf m.leaf) =
        Tree.leaf (((m :: rest).getLast?).getD m).leaf := by
      simp only [lastD, List.getLast?_map]
      cases (m :: rest).getLast? <;> rfl
    have ha : ((m :: rest).map (fun m => Tree.leaf m.leaf)).map (fun t => t.kind) = modsAttrs (m :: rest) := by
      simp [modsAttrs, List.map_map, Function.comp_def, Tree.kind]
    show mk "method_modifiers" "method_modifiers"
      (Range.span (Tree.leaf m.leaf).rng (lastD ((m :: rest).map (fun m => Tree.leaf m.leaf)) (Tree.leaf m.leaf)).rng) []
      (((m :: rest).map (fun m => Tree.leaf m.leaf)).map (fun t => t.kind)) = _
    rw [hl, ha]
    rfl

theorem mod_name (m : Mod) (h : m.WF) :
    (("Forward" == m.leaf.kind.name) || ("StringLiteral" == m.leaf.kind.name)) = m.noBody := by
  cases m with
  | plain t =>
    rcases h with h | h
    · simp only [memberModKinds, List.mem_cons, List.not_mem_nil, or_false] at h
      rcases h with h | h | h | h <;> simp only [Mod.leaf, Mod.noBody, h] <;> decide +kernel
    · simp only [Mod.leaf, Mod.noBody, h]; decide +kernel
  | ext e s =>
    simp only [Mod.leaf, Mod.noBody, h.2]; decide +kernel

theorem attrs_noBody (ms : List Mod) (hwf : modsWF ms) :
    ((modsAttrs ms).contains "Forward" || (modsAttrs ms).contains "StringLiteral") = ms.any Mod.noBody := by
  induction ms with
  | nil => rfl
  | cons m rest ih =>
    have h1 := mod_name m hwf.1
    have h2 := ih hwf.2
    simp only [modsAttrs, List.map_cons, List.contains_cons, List.any_cons] at h2 ⊢
    rw [← h1, ← h2]
    generalize ("Forward" == m.leaf.kind.name) = a
    generalize ("StringLiteral" == m.leaf.kind.name) = b
    generalize (List.map (fun m => m.leaf.kind.name) rest).contains "Forward" = c
    generalize (List.map (fun m => m.leaf.kind.name) rest).contains "StringLiteral" = d
    cases a <;> cases b <;> cases c <;> cases d <;> rfl

theorem hasBody_val (ms : List Mod) (hwf : modsWF ms) : hasBody (modsVal ms) = hasBodyB ms := by
  cases ms with
  | nil => rfl
  | cons m rest =>
    have := attrs_noBody (m :: rest) hwf
    show (false || !((modsAttrs (m :: rest)).contains "Forward" || (modsAttrs (m :: rest)).contains "StringLiteral")) = _
    rw [this]
    rfl

/-- the header stops being a name / parameter list at the first modifier -/
theorem hstop_mods (ms : List Mod) (hwf : modsWF ms) (B : List Tok) (hB : HStop B) : HStop (modsToks ms ++ B) := by
  cases ms with
  | nil => exact hB
  | cons m rest =>
    cases m with
    | plain t =>
      rcases hwf.1 with h | h
      · exact HStop.cons (mod_table _ h).2.2.2
      · exact HStop.cons (by rw [h]; decide)
    | ext e s => exact HStop.cons (by rw [hwf.1.1]; decide)

theorem fails_pound (ps : Option ParamList) (hps : optParamsWF ps) (B : List Tok) (hB : HStop B) :
    Fails (.tok Kind.Pound) (optParamsToks ps ++ B) := by
  cases ps with
  | none => exact hB.fails_pound
  | some p =>
    cases p with
    | empty lp rp => exact Fails.tok (by rw [hps.1]; decide) (by rw [hps.1]; decide)
    | cons lp first rest rp => exact Fails.tok (by rw [hps.1]; decide) (by rw [hps.1]; decide)

theorem parses_optparams_h (ps : Option ParamList) (h : optParamsWF ps) (k : List Tok) (hk : HStop k) :
    Parses (.ref nParamList) (optParamsToks ps ++ k) k (optParamsVal ps) := by
  cases ps with
  | some p => exact parses_paramlist p h k
  | none =>
    cases k with
    | nil => exact Parses.ref (n := nParamList) ((Parses.map (Parses.s_ifTok_nil Parses.eps)).s_to rfl)
    | cons t r =>
      have hb := hk t r rfl
      have h1 : t.kind ≠ Kind.Comment := fun e => hb (by simp [e])
      have h2 : [Kind.OBracket].contains t.kind = false := by
        cases hc : [Kind.OBracket].contains t.kind with
        | false => rfl
        | true =>
          have : t.kind = Kind.OBracket := by simpa using hc
          exact absurd (by simp [this]) hb
      exact Parses.ref (n := nParamList) ((Parses.map (Parses.s_ifTok_miss h1 h2 Parses.eps)).s_to rfl)

theorem optList_params (ps : Option ParamList) : optList (optParamsVal ps) = optParamsTree ps := by
  cases ps with
  | none => rfl
  | some p => cases p <;> rfl

/-- what `parse_proc_decl` builds from the parts -/
def procVal (first name ps mods rs : Tree) : Tree :=
  let endNode := if mods.isSome then mods else if ps.isSome then ps else name
  let endTok := if rs.isNone then Tree.none else rs.nth 1
  mk "proc_decl" name.ident (Range.span first.rng (if endTok.isSome then endTok.rng else endNode.rng))
    ([name] ++ optList ps ++ (if rs.isNone then [] else [bodyNode rs endNode])) mods.attrs (some name.rng)

/-- what `parse_func_decl` builds from the parts -/
def funcVal (first name ps ret mods rs : Tree) : Tree :=
  let endNode := if mods.isSome then mods else ret
  let endTok := if rs.isNone then Tree.none else rs.nth 1
  mk "func_decl" name.ident (Range.span first.rng (if endTok.isSome then endTok.rng else endNode.rng))
    ([name, ret] ++ optList ps ++ (if rs.isNone then [] else [bodyNode rs endNode])) mods.attrs (some name.rng)

theorem MName.tree_isSome (n : MName) : n.tree.isSome = true := by cases n <;> rfl

theorem procVal_body (kw : Tok) (name : MName) (ps : Option ParamList) (mods : List Mod) (ss : List (Stmt ε))
    (hss : Stmts.WF X ss) (endT : Tok) :
    procVal (.leaf kw) name.tree (optParamsVal ps) (modsVal mods) (resVal (Stmts.trees X ss) (Stmts.toks X ss) endT) =
      Decl.tree X (.proc kw name ps mods (some (ss, endT))) := by
  simp only [procVal]
  rw [bodyNode_resVal X ss hss]
  cases mods with
  | nil => cases ps with
    | none => rfl
    | some p => cases p <;> rfl
  | cons m rest => cases ps with
    | none => rfl
    | some p => cases p <;> rfl

theorem procVal_nobody (kw : Tok) (name : MName) (ps : Option ParamList) (mods : List Mod) :
    procVal (.leaf kw) name.tree (optParamsVal ps) (modsVal mods) Tree.none =
      Decl.tree (ε := ε) X (.proc kw name ps mods none) := by
  cases mods with
  | nil => cases ps with
    | none => rfl
    | some p => cases p <;> rfl
  | cons m rest => cases ps with
    | none => rfl
    | some p => cases p <;> rfl

theorem funcVal_body (kw : Tok) (name : MName) (ps : Option ParamList) (ret ty : Tok) (mods : List Mod) (ss : List (Stmt ε))
    (hss : Stmts.WF X ss) (endT : Tok) :
    funcVal (.leaf kw) name.tree (optParamsVal ps) (typeBasic ty) (modsVal mods)
        (resVal (Stmts.trees X ss) (Stmts.toks X ss) endT) =
      Decl.tree X (.func kw name ps ret ty mods (some (ss, endT))) := by
  simp only [funcVal]
  rw [bodyNode_resVal X ss hss]
  cases mods with
  | nil => cases ps with
    | none => rfl
    | some p => cases p <;> rfl
  | cons m rest => cases ps with
    | none => rfl
    | some p => cases p <;> rfl

theorem funcVal_nobody (kw : Tok) (name : MName) (ps : Option ParamList) (ret ty : Tok) (mods : List Mod) :
    funcVal (.leaf kw) name.tree (optParamsVal ps) (typeBasic ty) (modsVal mods) Tree.none =
      Decl.tree (ε := ε) X (.func kw name ps ret ty mods none) := by
  cases mods with
  | nil => cases ps with
    | none => rfl
    | some p => cases p <;> rfl
  | cons m rest => cases ps with
    | none => rfl
    | some p => cases p <;> rfl

/-! ## top-level declarations -/

def declStarts : List Kind :=
  [Kind.Proc, Kind.Func, Kind.Const, Kind.Identifier, Kind.Class, Kind.Module, Kind.Uses, Kind.Memory, Kind.Type,
   Kind.OSqrBracket]

/-- what may follow a declaration: the end of the file or the first token of a declaration -/
def TStop (k : List Tok) : Prop := ∀ t r, k = t :: r → t.kind ∈ declStarts

theorem TStop.nil : TStop [] := by intro t r e; cases e

theorem TStop.fails_tok {k : List Tok} (h : TStop k) (x : Kind) (hx : x ∉ declStarts) : Fails (.tok x) k := by
  cases k with
  | nil => exact Fails.tok_nil
  | cons t r =>
    have hb := h t r rfl
    exact Fails.tok (fun e => hx (e ▸ hb)) (fun e => by rw [e] at hb; revert hb; decide)

theorem TStop.fails_toks {k : List Tok} (h : TStop k) (ks : List Kind) (hks : ∀ x ∈ ks, x ∉ declStarts) : Fails (toks ks) k := by
  cases k with
  | nil => exact Fails.toks_nil
  | cons t r =>
    have hb := h t r rfl
    exact Fails.toks (fun hin => hks _ hin hb) (fun e => by rw [e] at hb; revert hb; decide)

/-- the round trip of one declaration at file level -/
def DeclRT (d : Decl ε) : Prop := ∀ k, TStop k → d.followB k = true → Parses gTopItem (d.toks X ++ k) k (d.tree X)

theorem fails_gProc (t : Tok) (r : List Tok) (h : t.kind ≠ Kind.Proc) (hc : t.kind ≠ Kind.Comment) : Fails gProc (t :: r) :=
  Fails.map (Fails.s_emit (Fails.s_dep1 (fails_kw_seqL t r _ _ h hc)))

theorem fails_gFunc (t : Tok) (r : List Tok) (h : t.kind ≠ Kind.Func) (hc : t.kind ≠ Kind.Comment) : Fails gFunc (t :: r) :=
  Fails.map (Fails.s_emit (Fails.s_dep1 (fails_kw_seqL t r _ _ h hc)))

include hX

omit hX in
theorem parses_methodmods_top (k : List Tok) (hk : TStop k) : Parses (.ref nMethodMods) k k (Tree.list []) := by
  cases k with
  | nil => exact Parses.ref (n := nMethodMods) (Parses.s_ifEof_nil Parses.eps)
  | cons t r =>
    have hmod : Fails gMethodModTok (t :: r) :=
      Fails.altL (gs := [toks memberModKinds, gExternal, .tok Kind.Forward]) (by
        intro a ha
        simp only [List.mem_cons, List.not_mem_nil, or_false] at ha
        rcases ha with rfl | rfl | rfl
        · exact hk.fails_toks _ (by decide)
        · exact Fails.map (Fails.seqL (pre := []) ParsesList.nil (hk.fails_tok _ (by decide)))
        · exact hk.fails_tok _ (by decide))
    exact Parses.ref (n := nMethodMods) (Parses.s_ifEof_cons (a := .eps (Tree.list []))
      (Parses.alt2 (Fails.map (Fails.seq1 hmod)) Parses.eps))

omit hX in
theorem HStop.of_tstop {k : List Tok} (h : TStop k) : HStop k := by
  intro t r e hin
  have := h t r e
  simp only [List.mem_cons, List.not_mem_nil, or_false] at hin
  rcases hin with hin | hin | hin <;> rw [hin] at this <;> revert this <;> decide

/-- the body part of a method: where parsing stands after the modifiers, what `parse_method_modifiers` sees there,
    and what the rest of the method parser yields -/
theorem method_body (endK : Kind) (hK : endK = Kind.EndProc ∨ endK = Kind.EndFunc) (mods : List Mod)
    (body : Option (List (Stmt ε) × Tok)) (hb : bodyWF X endK mods body) (k : List Tok) (hk : TStop k) :
    HStop (bodyToks X body ++ k) ∧ Parses (.ref nMethodMods) (bodyToks X body ++ k) (bodyToks X body ++ k) (Tree.list []) ∧
    match body with
    | none => hasBodyB mods = false
    | some (ss, endT) =>
      hasBodyB mods = true ∧ Stmts.WF X ss ∧
      Parses (.reslice [endK, Kind.End] (.ref nBody)) (bodyToks X body ++ k) k
        (resVal (Stmts.trees X ss) (Stmts.toks X ss) endT) := by
  cases body with
  | none => exact ⟨HStop.of_tstop hk, parses_methodmods_top k hk, hb⟩
  | some b =>
    obtain ⟨ss, endT⟩ := b
    obtain ⟨hh, hss, hfree, he⟩ := hb
    have hends : endT.kind ∈ stmtEnds := by rcases hK with h | h <;> rw [he, h] <;> decide
    have hB : SStop (Stmts.toks X ss ++ endT :: k) := sstop_stmts X ss hss _ (sstop_end k hends)
    have hres := parses_reslice X hX [endK, Kind.End] ss hss hfree endT (by rw [he]; simp) k
    have e : bodyToks X (some (ss, endT)) ++ k = Stmts.toks X ss ++ endT :: k := by simp [bodyToks]
    rw [e]
    exact ⟨HStop.of_sstop hB, parses_methodmods_nil _ hB, hh, hss, hres⟩

theorem rt_proc (kw : Tok) (name : MName) (ps : Option ParamList) (mods : List Mod) (body : Option (List (Stmt ε) × Tok))
    (h : (Decl.proc kw name ps mods body).WF X) : DeclRT X (.proc kw name ps mods body) := by
  intro k hk _
  obtain ⟨hkw, hn, hps, hmods, hb⟩ := h
  obtain ⟨hHB, hmm, hbody⟩ := method_body X hX Kind.EndProc (Or.inl rfl) mods body hb k hk
  have hHM := hstop_mods mods hmods _ hHB
  have hhdr := Parses.seqL (ParsesList.cons (Parses.tok hkw)
    (ParsesList.cons (parses_mname name hn _ (fails_pound ps hps _ hHM))
      (ParsesList.cons (parses_optparams_h ps hps _ hHM) (ParsesList.cons (parses_mods mods hmods _ hmm) ParsesList.nil))))
  have htest : hasBody (methodModsNode (Tree.list (mods.map (fun m => Tree.leaf m.leaf)))) = hasBodyB mods := by
    rw [methodMods_val, hasBody_val mods hmods]
  have hg : Parses gProc (kw :: (name.toks ++ (optParamsToks ps ++ (modsToks mods ++ (bodyToks X body ++ k))))) k
      (Decl.tree X (.proc kw name ps mods body)) := by
    cases body with
    | none =>
      have hdep := Parses.s_dep_no (test := fun h => hasBody (methodModsNode (h.nth 3)))
        (b := .reslice [Kind.EndProc, Kind.End] (.ref nBody)) hhdr (htest.trans hbody)
      have hemit := Parses.s_emit (fn := fun v =>
            let rs := v.nth 1
            if rs.isSome && (rs.nth 1).isNone then some ⟨((v.nth 0).nth 0).rng, "proc end token not found"⟩ else none) hdep rfl
      exact (Parses.map hemit).s_to (by
        rw [← procVal_nobody X kw name ps mods, ← methodMods_val]
        rfl)
    | some b =>
      obtain ⟨ss, endT⟩ := b
      obtain ⟨hh, hss, hres⟩ := hbody
      have hdep := Parses.s_dep_yes (test := fun h => hasBody (methodModsNode (h.nth 3))) hhdr (htest.trans hh) hres
      have hemit := Parses.s_emit (fn := fun v =>
            let rs := v.nth 1
            if rs.isSome && (rs.nth 1).isNone then some ⟨((v.nth 0).nth 0).rng, "proc end token not found"⟩ else none) hdep rfl
      exact (Parses.map hemit).s_to (by
        rw [← procVal_body X kw name ps mods ss hss endT, ← methodMods_val]
        rfl)
  have hfin : Parses gTopItem (kw :: (name.toks ++ (optParamsToks ps ++ (modsToks mods ++ (bodyToks X body ++ k))))) k _ :=
    Parses.altL (pre := []) (post := [gFunc, gComment, gClass, gModule, gUses, gTypeDecl, gConstDecl, gGlobalVar, .ref nAnnotations])
      (by intro a ha; cases ha) hg
  simpa [Decl.toks] using hfin

theorem rt_func (kw : Tok) (name : MName) (ps : Option ParamList) (ret ty : Tok) (mods : List Mod)
    (body : Option (List (Stmt ε) × Tok)) (h : (Decl.func kw name ps ret ty mods body).WF X) :
    DeclRT X (.func kw name ps ret ty mods body) := by
  intro k hk _
  obtain ⟨hkw, hn, hps, hret, hty, hmods, hb⟩ := h
  obtain ⟨hHB, hmm, hbody⟩ := method_body X hX Kind.EndFunc (Or.inr rfl) mods body hb k hk
  have hR : HStop (ret :: ty :: (modsToks mods ++ (bodyToks X body ++ k))) := HStop.cons (by rw [hret]; decide)
  have hbasic : Parses (.ref nTypeBasic) (ty :: (modsToks mods ++ (bodyToks X body ++ k))) (modsToks mods ++ (bodyToks X body ++ k))
      (typeBasic ty) :=
    Parses.ref (n := nTypeBasic) (Parses.map (fn := fun t => mk "type_basic" t.ident t.rng []) (Parses.tok hty))
  have hhdr := Parses.seqL (ParsesList.cons (Parses.tok hkw)
    (ParsesList.cons (parses_mname name hn _ (fails_pound ps hps _ hR))
      (ParsesList.cons (parses_optparams_h ps hps _ hR) (ParsesList.cons (Parses.tok hret) (ParsesList.cons hbasic
        (ParsesList.cons (parses_mods mods hmods _ hmm) ParsesList.nil))))))
  have htest : hasBody (methodModsNode (Tree.list (mods.map (fun m => Tree.leaf m.leaf)))) = hasBodyB mods := by
    rw [methodMods_val, hasBody_val mods hmods]
  have hg : Parses gFunc (kw :: (name.toks ++ (optParamsToks ps ++ ret :: ty :: (modsToks mods ++ (bodyToks X body ++ k))))) k
      (Decl.tree X (.func kw name ps ret ty mods body)) := by
    cases body with
    | none =>
      have hdep := Parses.s_dep_no (test := fun h => hasBody (methodModsNode (h.nth 5)))
        (b := .reslice [Kind.EndFunc, Kind.End] (.ref nBody)) hhdr (htest.trans hbody)
      have hemit := Parses.s_emit (fn := fun v =>
            let rs := v.nth 1
            if rs.isSome && (rs.nth 1).isNone then some ⟨((v.nth 0).nth 0).rng, "func end token not found"⟩ else none) hdep rfl
      exact (Parses.map hemit).s_to (by
        rw [← funcVal_nobody X kw name ps ret ty mods, ← methodMods_val]
        rfl)
    | some b =>
      obtain ⟨ss, endT⟩ := b
      obtain ⟨hh, hss, hres⟩ := hbody
      have hdep := Parses.s_dep_yes (test := fun h => hasBody (methodModsNode (h.nth 5))) hhdr (htest.trans hh) hres
      have hemit := Parses.s_emit (fn := fun v =>
            let rs := v.nth 1
            if rs.isSome && (rs.nth 1).isNone then some ⟨((v.nth 0).nth 0).rng, "func end token not found"⟩ else none) hdep rfl
      exact (Parses.map hemit).s_to (by
        rw [← funcVal_body X kw name ps ret ty mods ss hss endT, ← methodMods_val]
        rfl)
  have hfin : Parses gTopItem (kw :: (name.toks ++ (optParamsToks ps ++ ret :: ty :: (modsToks mods ++ (bodyToks X body ++ k))))) k _ :=
    Parses.altL (pre := [gProc]) (post := [gComment, gClass, gModule, gUses, gTypeDecl, gConstDecl, gGlobalVar, .ref nAnnotations])
      (by
        intro a ha
        simp only [List.mem_cons, List.not_mem_nil, or_false] at ha
        subst ha
        exact fails_gProc kw _ (by rw [hkw]; decide) (by rw [hkw]; decide)) hg
  simpa [Decl.toks] using hfin

omit hX

/-- the declaration parsers of `parse_gold` tried before `parse_global_variable_declaration`, with their first tokens -/
def topKw : List (G × List Kind) :=
  [(gProc, [Kind.Proc]), (gFunc, [Kind.Func]), (gComment, [Kind.Comment]), (gClass, [Kind.OSqrBracket, Kind.Class]),
   (gModule, [Kind.OSqrBracket, Kind.Module]), (gUses, [Kind.Uses]), (gTypeDecl, [Kind.OSqrBracket, Kind.Type]),
   (gConstDecl, [Kind.Const])]

theorem topKw_fail (t : Tok) (r : List Tok) (hc : t.kind ≠ Kind.Comment) :
    ∀ p ∈ topKw, (∀ x ∈ p.2, t.kind ≠ x) → Fails p.1 (t :: r) := by
  intro p hp hx
  simp only [topKw, List.mem_cons, List.not_mem_nil, or_false] at hp
  rcases hp with rfl | rfl | rfl | rfl | rfl | rfl | rfl | rfl
  · exact fails_gProc t r (hx _ (by simp)) hc
  · exact fails_gFunc t r (hx _ (by simp)) hc
  · exact Fails.map (Fails.tok (hx _ (by simp)) hc)
  · exact Fails.map (fails_optAnn_then t r _ _ (hx _ (by simp)) (hx _ (by simp)) hc)
  · exact Fails.map (fails_optAnn_then t r _ _ (hx _ (by simp)) (hx _ (by simp)) hc)
  · exact Fails.map (fails_kw_seqL t r _ _ (hx _ (by simp)) hc)
  · exact Fails.map (fails_optAnn_then t r _ _ (hx _ (by simp)) (hx _ (by simp)) hc)
  · exact Fails.map (Fails.seqL (pre := []) ParsesList.nil (Fails.s_prepend (fails_kw_seqL t r _ _ (hx _ (by simp)) hc)))

theorem top_via (n : Nat) (g : G) (post : List G) (hsplit : gTopItem = altL ((topKw.take n).map Prod.fst ++ g :: post))
    (t : Tok) (r k : List Tok) (v : Tree) (hc : t.kind ≠ Kind.Comment)
    (h : ∀ p ∈ topKw.take n, ∀ x ∈ p.2, t.kind ≠ x) (hg : Parses g (t :: r) k v) :
    Parses gTopItem (t :: r) k v := by
  rw [hsplit]
  refine Parses.altL ?_ hg
  intro a ha
  obtain ⟨p, hp, rfl⟩ := List.mem_map.mp ha
  exact topKw_fail t r hc p (List.mem_of_mem_take hp) (h p hp)

/-! ### annotations -/

theorem parses_annotations (a : Ann) (h : a.WF) (k : List Tok) : Parses (.ref nAnnotations) (a.toks ++ k) k emptyDefault := by
  obtain ⟨lb, inner, rb⟩ := a
  obtain ⟨hlb, hin, hrb⟩ := h
  simp only at hlb hin hrb
  have hs := C09.takeUntil_split [Kind.CSqrBracket] inner rb k (termFree_of hin) (by rw [hrb]; decide)
  have : Parses (.ref nAnnotations) (lb :: (inner ++ rb :: k)) k emptyDefault :=
    Parses.ref (n := nAnnotations) (Parses.map (fn := fun _ => emptyDefault) (Parses.seq (Parses.tok hlb) (Parses.s_skipTo hs)))
  simpa [Ann.toks] using this

/-- the optional annotation in front of a declaration whose first own token is `t` -/
theorem parses_optAnn (ann : Option Ann) (h : optAnnWF ann) (t : Tok) (r : List Tok) (h1 : t.kind ≠ Kind.OSqrBracket)
    (hc : t.kind ≠ Kind.Comment) : ∃ v, Parses optAnn (optAnnToks ann ++ t :: r) (t :: r) v := by
  cases ann with
  | none => exact ⟨_, Parses.s_opt_none (Fails.ref (n := nAnnotations) (Fails.map (Fails.seq1 (Fails.tok h1 hc))))⟩
  | some a => exact ⟨_, Parses.s_opt (parses_annotations a h _)⟩

theorem ann_first (ann : Option Ann) (h : optAnnWF ann) (t : Tok) (r : List Tok) :
    ∃ t0 r0, optAnnToks ann ++ t :: r = t0 :: r0 ∧ (t0 = t ∨ t0.kind = Kind.OSqrBracket) := by
  cases ann with
  | none => exact ⟨t, r, rfl, Or.inl rfl⟩
  | some a => exact ⟨a.lb, _, rfl, Or.inr h.1⟩

/-- the declaration parsers fail on an (optionally annotated) declaration none of them reacts to -/
theorem topKw_fail_ann (ann : Option Ann) (hann : optAnnWF ann) (t : Tok) (r : List Tok) (h1 : t.kind ≠ Kind.OSqrBracket)
    (hc : t.kind ≠ Kind.Comment) :
    ∀ p ∈ topKw, (∀ x ∈ p.2, x ≠ Kind.OSqrBracket → t.kind ≠ x) → Fails p.1 (optAnnToks ann ++ t :: r) := by
  intro p hp hx
  cases ann with
  | none =>
    refine topKw_fail t r hc p hp ?_
    intro x hxin e
    by_cases hb : x = Kind.OSqrBracket
    · exact h1 (e.trans hb)
    · exact hx x hxin hb e
  | some a =>
    obtain ⟨v, hv⟩ := parses_optAnn (some a) hann t r h1 hc
    have hlb : a.lb.kind = Kind.OSqrBracket := hann.1
    have hlc : a.lb.kind ≠ Kind.Comment := by rw [hlb]; decide
    have hfirst : optAnnToks (some a) ++ t :: r = a.lb :: (a.inner ++ [a.rb] ++ t :: r) := by simp [optAnnToks, Ann.toks]
    simp only [topKw, List.mem_cons, List.not_mem_nil, or_false] at hp
    rcases hp with rfl | rfl | rfl | rfl | rfl | rfl | rfl | rfl
    · rw [hfirst]; exact fails_gProc _ _ (by rw [hlb]; decide) hlc
    · rw [hfirst]; exact fails_gFunc _ _ (by rw [hlb]; decide) hlc
    · rw [hfirst]; exact Fails.map (Fails.tok (by rw [hlb]; decide) hlc)
    · exact Fails.map (Fails.seqL (pre := [optAnn]) (ParsesList.cons hv ParsesList.nil) (Fails.tok (hx _ (by simp) (by decide)) hc))
    · exact Fails.map (Fails.seqL (pre := [optAnn]) (ParsesList.cons hv ParsesList.nil) (Fails.tok (hx _ (by simp) (by decide)) hc))
    · rw [hfirst]; exact Fails.map (fails_kw_seqL _ _ _ _ (by rw [hlb]; decide) hlc)
    · exact Fails.map (Fails.seqL (pre := [optAnn]) (ParsesList.cons hv ParsesList.nil) (Fails.tok (hx _ (by simp) (by decide)) hc))
    · rw [hfirst]; exact Fails.map (Fails.seqL (pre := []) ParsesList.nil (Fails.s_prepend (fails_kw_seqL _ _ _ _ (by rw [hlb]; decide) hlc)))

theorem top_via_ann (n : Nat) (g : G) (post : List G) (hsplit : gTopItem = altL ((topKw.take n).map Prod.fst ++ g :: post))
    (ann : Option Ann) (hann : optAnnWF ann) (t : Tok) (r k : List Tok) (v : Tree) (h1 : t.kind ≠ Kind.OSqrBracket)
    (hc : t.kind ≠ Kind.Comment) (h : ∀ p ∈ topKw.take n, ∀ x ∈ p.2, x ≠ Kind.OSqrBracket → t.kind ≠ x)
    (hg : Parses g (optAnnToks ann ++ t :: r) k v) : Parses gTopItem (optAnnToks ann ++ t :: r) k v := by
  rw [hsplit]
  refine Parses.altL ?_ hg
  intro a ha
  obtain ⟨p, hp, rfl⟩ := List.mem_map.mp ha
  exact topKw_fail_ann ann hann t r h1 hc p (List.mem_of_mem_take hp) (h p hp)

theorem CStop.of_tstop {k : List Tok} (h : TStop k) : CStop k := by
  intro t r e
  have := h t r e
  exact ⟨fun hc => by rw [hc] at this; revert this; decide, fun hc => by rw [hc] at this; revert this; decide⟩

theorem rt_const (kw name eq lit : Tok) (ml : Option Tok) (h : (Decl.const kw name eq lit ml : Decl ε).WF X) :
    DeclRT X (.const kw name eq lit ml) := by
  intro k hk _
  have hg := parses_const kw name eq lit ml h k (hk.fails_tok _ (by decide))
  have hkw : kw.kind = Kind.Const := h.1
  exact top_via 7 gConstDecl [gGlobalVar, .ref nAnnotations] rfl kw _ k _ (by rw [hkw]; decide) (by rw [hkw]; decide +kernel) hg

theorem rt_uses (kw first : Tok) (rest : List (Tok × Tok)) (h : (Decl.uses kw first rest : Decl ε).WF X) :
    DeclRT X (.uses kw first rest) := by
  intro k hk _
  have hg := parses_uses kw first rest h k (CStop.of_tstop hk)
  have hkw : kw.kind = Kind.Uses := h.1
  exact top_via 5 gUses [gTypeDecl, gConstDecl, gGlobalVar, .ref nAnnotations] rfl kw _ k _ (by rw [hkw]; decide)
    (by rw [hkw]; decide +kernel) hg

theorem rt_module (ann : Option Ann) (kw name : Tok) (h : (Decl.module ann kw name : Decl ε).WF X) :
    DeclRT X (.module ann kw name) := by
  intro k _ _
  obtain ⟨hann, hkw, hn⟩ := h
  have hc : kw.kind ≠ Kind.Comment := by rw [hkw]; decide
  have h1 : kw.kind ≠ Kind.OSqrBracket := by rw [hkw]; decide
  obtain ⟨v, hv⟩ := parses_optAnn ann hann kw (name :: k) h1 hc
  have hg : Parses gModule (optAnnToks ann ++ kw :: name :: k) k (Decl.tree X (.module ann kw name)) :=
    (Parses.map (Parses.seqL (ParsesList.cons hv (ParsesList.cons (Parses.tok hkw) (ParsesList.cons (Parses.tok hn)
      ParsesList.nil))))).s_to rfl
  have := top_via_ann 4 gModule [gUses, gTypeDecl, gConstDecl, gGlobalVar, .ref nAnnotations] rfl ann hann kw _ k _ h1 hc
    (by rw [hkw]; decide +kernel) hg
  simpa [Decl.toks] using this

theorem parses_membermods (k : List Tok) (hk : TStop k) : Parses (.ref nMemberMods) k k (Tree.list []) := by
  cases k with
  | nil => exact Parses.ref (n := nMemberMods) (Parses.s_ifEof_nil Parses.eps)
  | cons t r =>
    exact Parses.ref (n := nMemberMods) (Parses.s_ifEof_cons (a := .eps (Tree.list []))
      (Parses.alt2 (Fails.map (Fails.seq1 (hk.fails_toks _ (by decide)))) Parses.eps))

theorem parses_membermods_list (mods : List Tok) (hm : ∀ t ∈ mods, t.kind ∈ memberModKinds) (B : List Tok)
    (hB : Parses (.ref nMemberMods) B B (Tree.list [])) :
    Parses (.ref nMemberMods) (mods ++ B) B (Tree.list (mods.map Tree.leaf)) := by
  induction mods with
  | nil => exact hB
  | cons t rest ih =>
    have ht := hm t List.mem_cons_self
    have hp : Parses (toks memberModKinds) (t :: (rest ++ B)) (rest ++ B) (.leaf t) := Parses.toks ht (mod_table _ ht).1
    have ih' := ih (fun x hx => hm x (List.mem_cons_of_mem _ hx))
    exact Parses.ref (n := nMemberMods) (Parses.s_ifEof_cons (a := .eps (Tree.list []))
      (Parses.alt1 ((Parses.map (Parses.seq hp ih')).s_to rfl)))

/-- value of `parse_member_modifiers` -/
def memberModsVal : List Tok → Tree
  | [] => Tree.none
  | m :: rest =>
    mk "member_modifiers" "member_modifiers" (Range.span m.rng (((m :: rest).getLast?).getD m).rng) []
      ((m :: rest).map (fun t => t.kind.name))

theorem memberMods_val (ms : List Tok) : memberModsNode (Tree.list (ms.map Tree.leaf)) = memberModsVal ms := by
  cases ms with
  | nil => rfl
  | cons m rest =>
    have hl : lastD ((m :: rest).map Tree.leaf) (Tree.leaf m) = Tree.leaf (((m :: rest).getLast?).getD m) := by
      simp only [lastD, List.getLast?_map]
      cases (m :: rest).getLast? <;> rfl
    have ha : ((m :: rest).map Tree.leaf).map (fun t => t.kind) = (m :: rest).map (fun t => t.kind.name) := by
      simp [List.map_map, Function.comp_def, Tree.kind]
    show mk "member_modifiers" "member_modifiers"
      (Range.span (Tree.leaf m).rng (lastD ((m :: rest).map Tree.leaf) (Tree.leaf m)).rng) []
      (((m :: rest).map Tree.leaf).map (fun t => t.kind)) = _
    rw [hl, ha]
    rfl

/-- what `parse_global_variable_declaration` builds from the parts -/
def fieldVal (mem id ty mods abs : Tree) : Tree :=
  let start := if mem.isNone then id.rng else mem.rng
  let e := if abs.isSome then abs.rng else if mods.isSome then mods.rng else ty.rng
  mk "gvar_decl" id.ident (Range.span start e) ([ty] ++ optList abs) mods.attrs (some id.rng)

def memVal : Option Tok → Tree
  | none => Tree.none
  | some m => .leaf m

def absVal : Option (Tok × Tok) → Tree
  | none => Tree.seq [Tree.none, Tree.none]
  | some (a, x) => Tree.seq [.leaf a, terminal (.leaf x)]

theorem fieldVal_tree (ann : Option Ann) (mem : Option Tok) (name colon : Tok) (ty : TyX) (mods : List Tok) (abs : Option (Tok × Tok)) :
    fieldVal (memVal mem) (.leaf name) ty.tree (memberModsVal mods) ((absVal abs).nth 1) =
      Decl.tree (ε := ε) X (.field ann mem name colon ty mods abs) := by
  cases mem <;> cases mods <;> cases abs <;> rfl

theorem YStop.of_tstop {k : List Tok} (h : TStop k) : YStop k := by
  intro t r e hin
  have := h t r e
  simp only [List.mem_cons, List.not_mem_nil, or_false] at hin
  rcases hin with hin | hin | hin | hin <;> rw [hin] at this <;> revert this <;> decide

theorem rt_field (ann : Option Ann) (mem : Option Tok) (name colon : Tok) (ty : TyX) (mods : List Tok) (abs : Option (Tok × Tok))
    (h : (Decl.field ann mem name colon ty mods abs : Decl ε).WF X) : DeclRT X (.field ann mem name colon ty mods abs) := by
  intro k hk _
  obtain ⟨hann, hmem, hn, hcol, hty, hmods, habsw⟩ := h
  have hnc : name.kind ≠ Kind.Comment := by rw [hn]; decide
  -- after the type: modifiers, `absolute x`, then `k`
  have hstep : ∃ hB : List Tok, hB = absToks abs ++ k ∧ Parses (.ref nMemberMods) hB hB (Tree.list []) ∧
      YStop (mods ++ hB) ∧
      Parses (.dep (.opt (.tok Kind.Absolute)) Tree.isSome (.ref nIdentifier)) hB k (absVal abs) := by
    refine ⟨_, rfl, ?_, ?_, ?_⟩
    · cases abs with
      | none => exact parses_membermods k hk
      | some ax =>
        obtain ⟨a, y⟩ := ax
        have hac : a.kind ≠ Kind.Comment := by rw [habsw.1]; decide
        exact Parses.ref (n := nMemberMods) (Parses.s_ifEof_cons (a := .eps (Tree.list []))
          (Parses.alt2 (Fails.map (Fails.seq1 (Fails.toks (by rw [habsw.1]; decide) hac))) Parses.eps))
    · cases mods with
      | nil =>
        cases abs with
        | none => exact YStop.of_tstop hk
        | some ax => obtain ⟨a, y⟩ := ax; exact YStop.cons (by rw [habsw.1]; decide)
      | cons m rest =>
        have hmk := hmods m List.mem_cons_self
        refine YStop.cons ?_
        simp only [memberModKinds, List.mem_cons, List.not_mem_nil, or_false] at hmk
        rcases hmk with h | h | h | h <;> rw [h] <;> decide
    · cases abs with
      | none => exact Parses.s_dep_no (Parses.s_opt_none (hk.fails_tok _ (by decide))) rfl
      | some ax =>
        obtain ⟨a, y⟩ := ax
        exact Parses.s_dep_yes (Parses.s_opt (Parses.tok habsw.1)) rfl (parses_identifier y k habsw.2)
  obtain ⟨B, hBe, hB0, hY, habs⟩ := hstep
  have hmm := parses_membermods_list mods hmods B hB0
  have htype := parses_typex ty hty (mods ++ B) hY
  have hrest := ParsesList.cons (Parses.tok (r := colon :: (ty.toks ++ (mods ++ B))) hn)
    (ParsesList.cons (Parses.tok hcol) (ParsesList.cons htype (ParsesList.cons hmm (ParsesList.cons habs ParsesList.nil))))
  have hfin : Parses gTopItem (optAnnToks ann ++ (mem.toList ++ name :: colon :: (ty.toks ++ (mods ++ B)))) k
      (Decl.tree X (.field ann mem name colon ty mods abs)) := by
    cases mem with
    | none =>
      have h1 : name.kind ≠ Kind.OSqrBracket := by rw [hn]; decide
      obtain ⟨v, hv⟩ := parses_optAnn ann hann name (colon :: (ty.toks ++ (mods ++ B))) h1 hnc
      have hm : Parses (.opt (.tok Kind.Memory)) (name :: colon :: (ty.toks ++ (mods ++ B))) (name :: colon :: (ty.toks ++ (mods ++ B)))
          Tree.none :=
        Parses.s_opt_none (Fails.tok (by rw [hn]; decide) hnc)
      have hg : Parses gGlobalVar (optAnnToks ann ++ name :: colon :: (ty.toks ++ (mods ++ B))) k
          (Decl.tree X (.field ann none name colon ty mods abs)) :=
        (Parses.map (Parses.seqL (ParsesList.cons hv (ParsesList.cons hm hrest)))).s_to (by
          rw [← fieldVal_tree X ann none name colon ty mods abs, ← memberMods_val]
          rfl)
      exact top_via_ann 8 gGlobalVar [.ref nAnnotations] rfl ann hann name _ k _ h1 hnc (by rw [hn]; decide +kernel) hg
    | some m =>
      have hmk := hmem m rfl
      have hmc : m.kind ≠ Kind.Comment := by rw [hmk]; decide
      have h1 : m.kind ≠ Kind.OSqrBracket := by rw [hmk]; decide
      obtain ⟨v, hv⟩ := parses_optAnn ann hann m (name :: colon :: (ty.toks ++ (mods ++ B))) h1 hmc
      have hm : Parses (.opt (.tok Kind.Memory)) (m :: name :: colon :: (ty.toks ++ (mods ++ B)))
          (name :: colon :: (ty.toks ++ (mods ++ B))) (.leaf m) :=
        Parses.s_opt (Parses.tok hmk)
      have hg : Parses gGlobalVar (optAnnToks ann ++ m :: name :: colon :: (ty.toks ++ (mods ++ B))) k
          (Decl.tree X (.field ann (some m) name colon ty mods abs)) :=
        (Parses.map (Parses.seqL (ParsesList.cons hv (ParsesList.cons hm hrest)))).s_to (by
          rw [← fieldVal_tree X ann (some m) name colon ty mods abs, ← memberMods_val]
          rfl)
      exact top_via_ann 8 gGlobalVar [.ref nAnnotations] rfl ann hann m _ k _ h1 hmc (by rw [hmk]; decide +kernel) hg
  subst hBe
  simpa [Decl.toks] using hfin

theorem parses_typedecl_ann (ann : Option Ann) (hann : optAnnWF ann) (kw name colon : Tok) (ty : TyX)
    (h : typeDeclWF kw name colon ty) (k : List Tok) (hk : YStop k) :
    Parses gTypeDecl (optAnnToks ann ++ kw :: name :: colon :: (ty.toks ++ k)) k (typeDeclTree kw name ty) := by
  obtain ⟨hkw, hn, hcol, hty⟩ := h
  obtain ⟨v, hv⟩ := parses_optAnn ann hann kw (name :: colon :: (ty.toks ++ k)) (by rw [hkw]; decide) (by rw [hkw]; decide)
  exact (Parses.map (Parses.seqL (ParsesList.cons hv (ParsesList.cons (Parses.tok hkw) (ParsesList.cons (Parses.tok hn)
    (ParsesList.cons (Parses.tok hcol) (ParsesList.cons (parses_typex ty hty k hk) ParsesList.nil))))))).s_to rfl

theorem rt_typeD (ann : Option Ann) (kw name colon : Tok) (ty : TyX) (h : (Decl.typeD ann kw name colon ty : Decl ε).WF X) :
    DeclRT X (.typeD ann kw name colon ty) := by
  intro k hk _
  obtain ⟨hann, htd⟩ := h
  have hg := parses_typedecl_ann ann hann kw name colon ty htd k (YStop.of_tstop hk)
  have hkw : kw.kind = Kind.Type := htd.1
  have := top_via_ann 6 gTypeDecl [gConstDecl, gGlobalVar, .ref nAnnotations] rfl ann hann kw _ k _ (by rw [hkw]; decide)
    (by rw [hkw]; decide) (by rw [hkw]; decide +kernel) hg
  simpa [Decl.toks, Decl.tree] using this

theorem rt_cls (ann : Option Ann) (kw name : Tok) (parent : Option (Tok × Tok × Tok)) (h : (Decl.cls ann kw name parent : Decl ε).WF X) :
    DeclRT X (.cls ann kw name parent) := by
  intro k hk _
  obtain ⟨hann, hkw, hn, hp⟩ := h
  have hc : kw.kind ≠ Kind.Comment := by rw [hkw]; decide
  have h1 : kw.kind ≠ Kind.OSqrBracket := by rw [hkw]; decide
  have hfin : Parses gTopItem (optAnnToks ann ++ kw :: name :: (parentToks parent ++ k)) k (Decl.tree X (.cls ann kw name parent)) := by
    cases parent with
    | none =>
      obtain ⟨v, hv⟩ := parses_optAnn ann hann kw (name :: k) h1 hc
      have hpar : Parses (.opt gParentClass) k k Tree.none :=
        Parses.s_opt_none (Fails.seqL (pre := []) ParsesList.nil (hk.fails_tok _ (by decide)))
      have hg : Parses gClass (optAnnToks ann ++ kw :: name :: k) k (Decl.tree X (.cls ann kw name none)) :=
        (Parses.map (Parses.seqL (ParsesList.cons hv (ParsesList.cons (Parses.tok hkw) (ParsesList.cons (Parses.tok hn)
          (ParsesList.cons hpar ParsesList.nil)))))).s_to rfl
      exact top_via_ann 3 gClass [gModule, gUses, gTypeDecl, gConstDecl, gGlobalVar, .ref nAnnotations] rfl ann hann kw _ k _ h1 hc
        (by rw [hkw]; decide +kernel) hg
    | some q =>
      obtain ⟨lp, p, rp⟩ := q
      obtain ⟨hlp, hpp, hrp⟩ := hp
      obtain ⟨v, hv⟩ := parses_optAnn ann hann kw (name :: lp :: p :: rp :: k) h1 hc
      have hpar : Parses (.opt gParentClass) (lp :: p :: rp :: k) k (Tree.seq [.leaf lp, .leaf p, .leaf rp]) :=
        Parses.s_opt (Parses.seqL (ParsesList.cons (Parses.tok hlp) (ParsesList.cons (Parses.tok hpp)
          (ParsesList.cons (Parses.tok hrp) ParsesList.nil))))
      have hg : Parses gClass (optAnnToks ann ++ kw :: name :: lp :: p :: rp :: k) k (Decl.tree X (.cls ann kw name (some (lp, p, rp)))) :=
        (Parses.map (Parses.seqL (ParsesList.cons hv (ParsesList.cons (Parses.tok hkw) (ParsesList.cons (Parses.tok hn)
          (ParsesList.cons hpar ParsesList.nil)))))).s_to rfl
      exact top_via_ann 3 gClass [gModule, gUses, gTypeDecl, gConstDecl, gGlobalVar, .ref nAnnotations] rfl ann hann kw _ k _ h1 hc
        (by rw [hkw]; decide +kernel) hg
  simpa [Decl.toks] using hfin

/-- an annotation on its own: every declaration parser gives up after (or on) it, `parse_annotations` takes it -/
theorem rt_annD (a : Ann) (h : (Decl.annD a : Decl ε).WF X) : DeclRT X (.annD a) := by
  intro k _ hf
  have hf' : annFollowB k = true := hf
  have hlb : a.lb.kind = Kind.OSqrBracket := h.1
  have hlc : a.lb.kind ≠ Kind.Comment := by rw [hlb]; decide
  have hann := parses_annotations a h k
  have hopt : Parses optAnn (a.toks ++ k) k emptyDefault := Parses.s_opt hann
  -- what follows the annotation starts no annotated declaration
  have hnext (x : Kind) (hx : x ∉ [Kind.Proc, Kind.Func, Kind.Const, Kind.Uses, Kind.OSqrBracket]) : Fails (.tok x) k := by
    cases k with
    | nil => exact Fails.tok_nil
    | cons t r =>
      have ht : t.kind ∈ [Kind.Proc, Kind.Func, Kind.Const, Kind.Uses, Kind.OSqrBracket] := by
        simpa [annFollowB] using hf'
      exact Fails.tok (fun e => hx (e ▸ ht)) (fun e => by rw [e] at ht; revert ht; decide)
  have hfirst : a.toks ++ k = a.lb :: (a.inner ++ [a.rb] ++ k) := by simp [Ann.toks]
  have hpre : ∀ g ∈ [gProc, gFunc, gComment, gClass, gModule, gUses, gTypeDecl, gConstDecl, gGlobalVar], Fails g (a.toks ++ k) := by
    intro g hg
    simp only [List.mem_cons, List.not_mem_nil, or_false] at hg
    rcases hg with rfl | rfl | rfl | rfl | rfl | rfl | rfl | rfl | rfl
    · rw [hfirst]; exact fails_gProc _ _ (by rw [hlb]; decide) hlc
    · rw [hfirst]; exact fails_gFunc _ _ (by rw [hlb]; decide) hlc
    · rw [hfirst]; exact Fails.map (Fails.tok (by rw [hlb]; decide) hlc)
    · exact Fails.map (Fails.seqL (pre := [optAnn]) (ParsesList.cons hopt ParsesList.nil) (hnext _ (by decide)))
    · exact Fails.map (Fails.seqL (pre := [optAnn]) (ParsesList.cons hopt ParsesList.nil) (hnext _ (by decide)))
    · rw [hfirst]; exact Fails.map (fails_kw_seqL _ _ _ _ (by rw [hlb]; decide) hlc)
    · exact Fails.map (Fails.seqL (pre := [optAnn]) (ParsesList.cons hopt ParsesList.nil) (hnext _ (by decide)))
    · rw [hfirst]; exact Fails.map (Fails.seqL (pre := []) ParsesList.nil (Fails.s_prepend (fails_kw_seqL _ _ _ _ (by rw [hlb]; decide) hlc)))
    · exact Fails.map (Fails.seqL (pre := [optAnn, .opt (.tok Kind.Memory)])
        (ParsesList.cons hopt (ParsesList.cons (Parses.s_opt_none (hnext _ (by decide))) ParsesList.nil)) (hnext _ (by decide)))
  exact Parses.altL (pre := [gProc, gFunc, gComment, gClass, gModule, gUses, gTypeDecl, gConstDecl, gGlobalVar]) (post := []) hpre hann

/-! ## the top-level loop -/

include hX in
theorem decl_rt (d : Decl ε) (h : d.WF X) : DeclRT X d := by
  cases d with
  | proc kw name ps mods body => exact rt_proc X hX kw name ps mods body h
  | func kw name ps ret ty mods body => exact rt_func X hX kw name ps ret ty mods body h
  | const kw name eq lit ml => exact rt_const X kw name eq lit ml h
  | field ann mem name colon ty mods abs => exact rt_field X ann mem name colon ty mods abs h
  | typeD ann kw name colon ty => exact rt_typeD X ann kw name colon ty h
  | module ann kw name => exact rt_module X ann kw name h
  | annD a => exact rt_annD X a h
  | uses kw first rest => exact rt_uses X kw first rest h
  | cls ann kw name parent => exact rt_cls X ann kw name parent h

theorem declStart_of_ann (ann : Option Ann) (hann : optAnnWF ann) (t : Tok) (r : List Tok) (ht : t.kind ∈ declStarts) :
    ∃ t0 r0, optAnnToks ann ++ t :: r = t0 :: r0 ∧ t0.kind ∈ declStarts := by
  obtain ⟨t0, r0, h0, h1⟩ := ann_first ann hann t r
  refine ⟨t0, r0, h0, ?_⟩
  rcases h1 with h1 | h1
  · rw [h1]; exact ht
  · rw [h1]; decide

theorem Decl.first (d : Decl ε) (h : d.WF X) : ∃ t r, d.toks X = t :: r ∧ t.kind ∈ declStarts := by
  cases d with
  | proc kw name ps mods body => exact ⟨kw, _, rfl, by rw [h.1]; decide⟩
  | func kw name ps ret ty mods body => exact ⟨kw, _, rfl, by rw [h.1]; decide⟩
  | const kw name eq lit ml => exact ⟨kw, _, rfl, by rw [h.1]; decide⟩
  | field ann mem name colon ty mods abs =>
    cases mem with
    | none => exact declStart_of_ann ann h.1 name _ (by rw [h.2.2.1]; decide)
    | some m => exact declStart_of_ann ann h.1 m _ (by rw [h.2.1 m rfl]; decide)
  | module ann kw name => exact declStart_of_ann ann h.1 kw _ (by rw [h.2.1]; decide)
  | uses kw first rest => exact ⟨kw, _, rfl, by rw [h.1]; decide⟩
  | typeD ann kw name colon ty => exact declStart_of_ann ann h.1 kw _ (by rw [h.2.1]; decide)
  | cls ann kw name parent => exact declStart_of_ann ann h.1 kw _ (by rw [h.2.1]; decide)
  | annD a => exact ⟨a.lb, _, rfl, by rw [h.1]; decide⟩

theorem Decl.tree_ok (d : Decl ε) : okTree (d.tree X) = true := by
  cases d with
  | cls ann kw name parent => cases parent <;> rfl
  | proc kw name ps mods body =>
    cases body with
    | none => rfl
    | some b => obtain ⟨ss, e⟩ := b; rfl
  | func kw name ps ret ty mods body =>
    cases body with
    | none => rfl
    | some b => obtain ⟨ss, e⟩ := b; rfl
  | _ => rfl

theorem tstop_prog (p : Prog ε) (h : Prog.WF X p) : TStop (Prog.toks X p) := by
  cases p with
  | nil => exact TStop.nil
  | cons d rest =>
    obtain ⟨t, r, ht, hs⟩ := Decl.first X d h.1
    intro t' r' e
    simp only [Prog.toks, ht, List.cons_append, List.cons.injEq] at e
    exact e.1 ▸ hs

include hX in
/-- `parse_gold`: every well-formed declaration in turn; the file-level `recover` does not fire -/
theorem top_loop (p : Prog ε) (hwf : Prog.WF X p) : Parses (.ref nTop) (Prog.toks X p) [] (Tree.list (Prog.trees X p)) := by
  induction p with
  | nil => exact Parses.ref (n := nTop) (Parses.s_ifEof_nil Parses.eps)
  | cons d rest ih =>
    obtain ⟨t, r, ht, _⟩ := Decl.first X d hwf.1
    have hd := decl_rt X hX d hwf.1 _ (tstop_prog X rest hwf.2.2) hwf.2.1
    have ih' := ih hwf.2.2
    simp only [Prog.toks, Prog.trees]
    rw [ht] at hd ⊢
    simp only [List.cons_append] at hd ⊢
    have := Parses.map (fn := fun v => Tree.list (optList (v.nth 0) ++ (v.nth 1).kids))
      (Parses.seq (Parses.s_recover (m := .topSpan) hd) ih')
    exact Parses.ref (n := nTop) (Parses.s_ifEof_cons (a := .eps (Tree.list [])) (this.s_to (by
      simp [Tree.nth, Tree.seq, Tree.kids, Tree.list, optList_ok (Decl.tree_ok X d)])))

/-! ## the executable well-formedness tests are the predicates -/

theorem IdxBody.wfb_iff (b : IdxBody) : b.wfb = true ↔ b.WF := by
  cases b <;> simp [IdxBody.wfb, IdxBody.WF, and_assoc]

theorem Idx.wfb_iff (i : Idx) : i.wfb = true ↔ i.WF := by
  simp [Idx.wfb, Idx.WF, IdxBody.wfb_iff, and_assoc]

theorem EVar.wfb_iff (v : EVar) : v.wfb = true ↔ v.WF := by
  obtain ⟨name, val⟩ := v
  cases val with
  | none => simp [EVar.wfb, EVar.WF]
  | some en => obtain ⟨e, n⟩ := en; simp [EVar.wfb, EVar.WF]

theorem evarsWfb_iff (rest : List (Tok × EVar)) : evarsWfb rest = true ↔ evarsWF rest := by
  induction rest with
  | nil => simp [evarsWfb, evarsWF]
  | cons cv more ih => obtain ⟨c, v⟩ := cv; simp [evarsWfb, evarsWF, ih, EVar.wfb_iff, and_assoc]

theorem COp.wfb_iff (o : COp) : o.wfb = true ↔ o.WF := by
  cases o <;> simp [COp.wfb, COp.WF, EVar.wfb_iff, evarsWfb_iff, and_assoc]

theorem copsWfb_iff (rest : List (Tok × COp)) : copsWfb rest = true ↔ copsWF rest := by
  induction rest with
  | nil => simp [copsWfb, copsWF]
  | cons po more ih => obtain ⟨p, o⟩ := po; simp [copsWfb, copsWF, ih, COp.wfb_iff, and_assoc]

theorem commaWfb_iff (rest : List (Tok × Tok)) : commaWfb rest = true ↔ commaWF rest := by
  induction rest with
  | nil => simp [commaWfb, commaWF]
  | cons ct more ih => obtain ⟨c, t⟩ := ct; simp [commaWfb, commaWF, ih, and_assoc]

theorem RefOpts.wfb_iff (o : RefOpts) : o.wfb = true ↔ o.WF := by
  simp [RefOpts.wfb, RefOpts.WF, commaWfb_iff, and_assoc]

theorem Ty.wfb_iff (ty : Ty) : ty.wfb = true ↔ ty.WF := by
  cases ty with
  | composed first rest => simp [Ty.wfb, Ty.WF, COp.wfb_iff, copsWfb_iff]
  | ref r opts t inv =>
    cases opts <;> rcases inv with _ | ⟨i, x⟩ <;> simp [Ty.wfb, Ty.WF, RefOpts.wfb_iff, and_assoc]
  | array a i1 i2 ofT t => cases i2 <;> simp [Ty.wfb, Ty.WF, Idx.wfb_iff, and_assoc]
  | _ => simp [Ty.wfb, Ty.WF, and_assoc]

theorem Param.wfb_iff (p : Param) : p.wfb = true ↔ p.WF := by
  obtain ⟨md, name, colon, ty⟩ := p
  cases md <;> simp [Param.wfb, Param.WF, Ty.wfb_iff, and_assoc]

theorem restWfb_iff (rest : List (Tok × Param)) : restWfb rest = true ↔ restWF rest := by
  induction rest with
  | nil => simp [restWfb, restWF]
  | cons cp more ih => obtain ⟨c, p⟩ := cp; simp [restWfb, restWF, ih, Param.wfb_iff, and_assoc]

theorem ParamList.wfb_iff (ps : ParamList) : ps.wfb = true ↔ ps.WF := by
  cases ps <;> simp [ParamList.wfb, ParamList.WF, Param.wfb_iff, restWfb_iff, and_assoc]

theorem optParamsWfb_iff (ps : Option ParamList) : optParamsWfb ps = true ↔ optParamsWF ps := by
  cases ps <;> simp [optParamsWfb, optParamsWF, ParamList.wfb_iff]

theorem parentWfb_iff (q : Option (Tok × Tok × Tok)) : parentWfb q = true ↔ parentWF q := by
  cases q with
  | none => simp [parentWfb, parentWF]
  | some q => obtain ⟨a, b, c⟩ := q; simp [parentWfb, parentWF, and_assoc]

theorem RecField.wfb_iff (f : RecField) : f.wfb = true ↔ f.WF := by
  simp [RecField.wfb, RecField.WF, Ty.wfb_iff, and_assoc]

theorem fieldsWfb_iff (fs : List RecField) : fieldsWfb fs = true ↔ fieldsWF fs := by
  induction fs with
  | nil => simp [fieldsWfb, fieldsWF]
  | cons f rest ih => simp [fieldsWfb, fieldsWF, ih, RecField.wfb_iff]

theorem TyX.wfb_iff (ty : TyX) : ty.wfb = true ↔ ty.WF := by
  cases ty <;> simp [TyX.wfb, TyX.WF, Ty.wfb_iff, parentWfb_iff, fieldsWfb_iff, optParamsWfb_iff, and_assoc]

theorem typeDeclWfb_iff (kw name colon : Tok) (ty : TyX) : typeDeclWfb kw name colon ty = true ↔ typeDeclWF kw name colon ty := by
  simp [typeDeclWfb, typeDeclWF, TyX.wfb_iff, and_assoc]

theorem absWfb_iff (abs : Option (Tok × Tok)) : absWfb abs = true ↔ absWF abs := by
  cases abs with
  | none => simp [absWfb, absWF]
  | some ax => obtain ⟨a, x⟩ := ax; simp [absWfb, absWF]

theorem usesWfb_iff (kw first : Tok) (rest : List (Tok × Tok)) : usesWfb kw first rest = true ↔ usesWF kw first rest := by
  simp [usesWfb, usesWF, commaWfb_iff, and_assoc]

theorem constWfb_iff (kw name eq lit : Tok) (ml : Option Tok) :
    constWfb kw name eq lit ml = true ↔ constWF kw name eq lit ml := by
  cases ml <;> simp [constWfb, constWF, and_assoc]

theorem valsWfb_iff (rest : List (Tok × Tok)) : valsWfb rest = true ↔ valsWF rest := by
  induction rest with
  | nil => simp [valsWfb, valsWF]
  | cons ct more ih => obtain ⟨c, t⟩ := ct; simp [valsWfb, valsWF, ih, and_assoc]

theorem WhenVals.wfb_iff (v : WhenVals) : v.wfb = true ↔ v.WF := by
  cases v <;> simp [WhenVals.wfb, WhenVals.WF, valsWfb_iff, and_assoc]

theorem stepWfb_iff (st : Option (Tok × ε)) : stepWfb X st = true ↔ stepWF X st := by
  cases st with
  | none => simp [stepWfb, stepWF]
  | some p => obtain ⟨t, e⟩ := p; simp [stepWfb, stepWF]

mutual
theorem Stmt.wfb_iff : (s : Stmt ε) → (s.wfb X = true ↔ s.WF X)
  | .assign lhs op e => by simp [Stmt.wfb, Stmt.WF, and_assoc]
  | .expr e => by simp [Stmt.wfb, Stmt.WF, and_assoc]
  | .ret kw e => by simp [Stmt.wfb, Stmt.WF]
  | .ctl kw => by simp [Stmt.wfb, Stmt.WF]
  | .lvar kw name colon ty abs => by simp [Stmt.wfb, Stmt.WF, absWfb_iff, TyX.wfb_iff, and_assoc]
  | .typeS kw name colon ty => by simp [Stmt.wfb, Stmt.WF, typeDeclWfb_iff]
  | .usesS kw first rest => by simp [Stmt.wfb, Stmt.WF, usesWfb_iff]
  | .constS kw name eq lit ml => by simp [Stmt.wfb, Stmt.WF, constWfb_iff]
  | .ifS kw c body tail => by simp [Stmt.wfb, Stmt.WF, Stmts.wfb_iff body, IfTail.wfb_iff tail, and_assoc]
  | .whileS kw c body endT => by simp [Stmt.wfb, Stmt.WF, Stmts.wfb_iff body, and_assoc]
  | .loopS kw body endT => by simp [Stmt.wfb, Stmt.WF, Stmts.wfb_iff body, and_assoc]
  | .forS kw var eq lo to hi step body endT => by
    simp [Stmt.wfb, Stmt.WF, Stmts.wfb_iff body, stepWfb_iff, and_assoc]
  | .foreachS kw e body endT => by simp [Stmt.wfb, Stmt.WF, Stmts.wfb_iff body, and_assoc]
  | .repeatS kw body untilT c => by simp [Stmt.wfb, Stmt.WF, Stmts.wfb_iff body, and_assoc]
  | .switchS kw e whens els elseBody endT => by
    cases els <;> simp [Stmt.wfb, Stmt.WF, Whens.wfb_iff whens, Stmts.wfb_iff elseBody, and_assoc]
theorem WhenB.wfb_iff : (w : WhenB ε) → (w.wfb X = true ↔ w.WF X)
  | .mk kw vals body endT => by simp [WhenB.wfb, WhenB.WF, Stmts.wfb_iff body, WhenVals.wfb_iff, and_assoc]
theorem Whens.wfb_iff : (ws : List (WhenB ε)) → (Whens.wfb X ws = true ↔ Whens.WF X ws)
  | [] => by simp [Whens.wfb, Whens.WF]
  | w :: rest => by simp [Whens.wfb, Whens.WF, WhenB.wfb_iff w, Whens.wfb_iff rest]
theorem Stmts.wfb_iff : (ss : List (Stmt ε)) → (Stmts.wfb X ss = true ↔ Stmts.WF X ss)
  | [] => by simp [Stmts.wfb, Stmts.WF]
  | s :: rest => by simp [Stmts.wfb, Stmts.WF, Stmt.wfb_iff s, Stmts.wfb_iff rest]
theorem IfTail.wfb_iff : (tl : IfTail ε) → (tl.wfb X = true ↔ tl.WF X)
  | .endif t => by simp [IfTail.wfb, IfTail.WF]
  | .els t body endT => by simp [IfTail.wfb, IfTail.WF, Stmts.wfb_iff body, and_assoc]
  | .elif t c body tail => by simp [IfTail.wfb, IfTail.WF, Stmts.wfb_iff body, IfTail.wfb_iff tail, and_assoc]
end

theorem MName.wfb_iff (n : MName) : n.wfb = true ↔ n.WF := by
  cases n <;> simp [MName.wfb, MName.WF, and_assoc]

theorem Mod.wfb_iff (m : Mod) : m.wfb = true ↔ m.WF := by
  cases m <;> simp [Mod.wfb, Mod.WF]

theorem modsWfb_iff (ms : List Mod) : modsWfb ms = true ↔ modsWF ms := by
  induction ms with
  | nil => simp [modsWfb, modsWF]
  | cons m rest ih => simp [modsWfb, modsWF, ih, Mod.wfb_iff]

theorem bodyWfb_iff (endK : Kind) (mods : List Mod) (body : Option (List (Stmt ε) × Tok)) :
    bodyWfb X endK mods body = true ↔ bodyWF X endK mods body := by
  cases body with
  | none => simp [bodyWfb, bodyWF]
  | some b => obtain ⟨ss, e⟩ := b; simp [bodyWfb, bodyWF, Stmts.wfb_iff, and_assoc]

theorem Ann.wfb_iff (a : Ann) : a.wfb = true ↔ a.WF := by
  simp [Ann.wfb, Ann.WF, and_assoc]

theorem optAnnWfb_iff (a : Option Ann) : optAnnWfb a = true ↔ optAnnWF a := by
  cases a <;> simp [optAnnWfb, optAnnWF, Ann.wfb_iff]

theorem Decl.wfb_iff (d : Decl ε) : d.wfb X = true ↔ d.WF X := by
  cases d with
  | field ann mem name colon ty mods abs =>
    cases mem <;> simp [Decl.wfb, Decl.WF, absWfb_iff, TyX.wfb_iff, optAnnWfb_iff, and_assoc]
  | _ =>
    simp [Decl.wfb, Decl.WF, optParamsWfb_iff, parentWfb_iff, MName.wfb_iff, modsWfb_iff, bodyWfb_iff, usesWfb_iff,
      constWfb_iff, typeDeclWfb_iff, optAnnWfb_iff, Ann.wfb_iff, and_assoc]

theorem Prog.wfb_iff (p : Prog ε) : Prog.wfb X p = true ↔ Prog.WF X p := by
  induction p with
  | nil => simp [Prog.wfb, Prog.WF]
  | cons d rest ih => simp [Prog.wfb, Prog.WF, Decl.wfb_iff, ih, and_assoc]

/-! ## the instance for `Ex`: what is needed beyond `expr_roundtrip` -/

theorem fails_dotops_nonident (t : Tok) (k : List Tok) (hni : t.kind ∉ identKinds) (hc : t.kind ≠ Kind.Comment) :
    Fails (.ref nDotOps) (t :: k) := (failsAt_dotOps t k hni hc).fails

/-- an expression whose first token is not identifier-like is not taken for an assignment -/
theorem noAssign_of_first (ets k : List Tok)
    (h : firstKindOK (fun x => !identKinds.contains x && x != Kind.Comment) ets = true) : Fails gAssignment (ets ++ k) := by
  obtain ⟨t, r, rfl, ht⟩ := firstKindOK_cons h
  simp only [Bool.and_eq_true, Bool.not_eq_eq_eq_not, Bool.not_true, bne_iff_ne, ne_eq] at ht
  have hni : t.kind ∉ identKinds := by
    intro hin
    rw [List.contains_iff_mem.mpr hin] at ht
    cases ht.1
  exact Fails.map (Fails.seqL (pre := []) ParsesList.nil (fails_dotops_nonident t (r ++ k) hni ht.2))

/-- an expression that `parse_dot_ops` takes whole (a call, a member chain …) is not taken for an assignment
    either: the assignment operator is missing.  (For `ExprSpec` instances whose statements are calls.) -/
theorem noAssign_of_dotops (ets : List Tok) (t : Tree)
    (h : ∀ k, Stop 0 k → Parses (.ref nDotOps) (ets ++ k) k t) (k : List Tok) (hk : SStop k) :
    Fails gAssignment (ets ++ k) := by
  have h0 : Stop 0 k := by
    have h8 := hk.stop8
    exact h8.mono.mono.mono.mono.mono.mono.mono.mono
  exact Fails.map (Fails.seqL (pre := [.ref nDotOps]) (ParsesList.cons (h k h0) ParsesList.nil)
    (hk.fails_toks _ (by decide +kernel)))

/-- … and it may stand left of an assignment operator -/
theorem lhs_of_dotops (ets : List Tok) (t : Tree)
    (h : ∀ k, Stop 0 k → Parses (.ref nDotOps) (ets ++ k) k t) (op : Tok) (r : List Tok) (hop : op.kind ∈ assignOps) :
    Parses (.ref nDotOps) (ets ++ op :: r) (op :: r) t :=
  h (op :: r) (by intro t' r' e; cases e; exact (assign_table _ hop).1)

/-! ### `Ex`: which expressions `parse_assignment` leaves alone -/

/-- `parse_dot_ops` on a well-formed chain (`chain_roundtrip` of `Props/C06Expr.lean`) -/
theorem parses_chain (e : Ex) (hc : e.isChain = true) (h : e.WF 0) (k : List Tok) (hk : StopD k) :
    Parses (.ref nDotOps) (e.toks ++ k) k e.tree :=
  pd1_of_pd2 e ((invEx e).chain h hc).1 k hk

theorem chain_wf0 : (e : Ex) → (L : Nat) → e.isChain = true → e.WF L → e.WF 0
  | .atom _, _, _, h => h
  | .dot _ _ _, _, _, h => h
  | .call _ _ _ _, _, _, h => by simpa [Ex.WF] using h
  | .index _ _ _ _, _, _, h => by simpa [Ex.WF] using h
  | .paren _ _ _, _, hc, _ => by simp [Ex.isChain, Ex.isElem] at hc
  | .bin _ _ _, _, hc, _ => by simp [Ex.isChain, Ex.isElem] at hc
  | .pre _ _, _, hc, _ => by simp [Ex.isChain, Ex.isElem] at hc
  | .post _ _, _, hc, _ => by simp [Ex.isChain, Ex.isElem] at hc
  | .set _ _ _, _, hc, _ => by simp [Ex.isChain, Ex.isElem] at hc

theorem assign_sbad : ∀ x ∈ assignOps, x ∈ sbad := by decide +kernel
theorem assign_badD : ∀ x ∈ assignOps, x ∉ badD := by decide +kernel
theorem post_not_assign : ∀ x ∈ postKinds, x ∉ assignOps := by decide +kernel
theorem unaryPre_not_ident : ∀ x ∈ unaryPre, x ∉ identKinds ∧ x ≠ Kind.Comment := by decide +kernel
theorem literal_not_ident : ∀ x ∈ literalKinds, x ∉ identKinds ∧ x ≠ Kind.Comment := by decide +kernel

theorem fails_assign_first (t : Tok) (r : List Tok) (hni : t.kind ∉ identKinds) (hc : t.kind ≠ Kind.Comment) :
    Fails gAssignment (t :: r) :=
  Fails.map (Fails.seqL (pre := []) ParsesList.nil (fails_dotops_nonident t r hni hc))

/-- a chain, then something that is not an assignment operator -/
theorem fails_assign_chain (e : Ex) (hc : e.isChain = true) (h : e.WF 0) (rest : List Tok) (hs : StopD rest)
    (hn : ∀ t r, rest = t :: r → t.kind ∉ assignOps) : Fails gAssignment (e.toks ++ rest) := by
  have hp := parses_chain e hc h rest hs
  have hf : Fails (toks assignOps) rest := by
    cases rest with
    | nil => exact Fails.toks_nil
    | cons t r => exact Fails.toks (hn t r rfl) (fun e' => hs t r rfl (by rw [e']; decide +kernel))
  exact Fails.map (Fails.seqL (pre := [.ref nDotOps]) (ParsesList.cons hp ParsesList.nil) hf)

theorem stop_down : ∀ {L : Nat} {k : List Tok}, Stop L k → Stop 0 k
  | 0, _, h => h
  | _+1, _, h => stop_down h.mono

/-- **the executable test `Ex.naB` is sound**: before any continuation that cannot extend a chain (and, if the
    expression IS a chain, does not start with an assignment operator) `parse_assignment` fails, silently -/
theorem na_sound : (e : Ex) → (L : Nat) → L ≤ 8 → e.WF L → e.naB = true → ∀ rest : List Tok, StopD rest →
    (e.isChain = true → ∀ t r, rest = t :: r → t.kind ∉ assignOps) → Fails gAssignment (e.toks ++ rest)
  | .atom t, _, _, h, _, rest, hs, hn => by
    rcases h with h | h
    · exact fails_assign_chain (.atom t) (by simp [Ex.isChain, Ex.isElem, h]) (Or.inl h) rest hs
        (hn (by simp [Ex.isChain, Ex.isElem, h]))
    · exact fails_assign_first t rest (literal_not_ident _ h).1 (literal_not_ident _ h).2
  | .paren lp e rp, _, _, h, _, rest, _, _ => by
    exact fails_assign_first lp _ (by rw [h.1]; decide +kernel) (by rw [h.1]; decide)
  | .pre op e, _, _, h, _, rest, _, _ => by
    exact fails_assign_first op _ (unaryPre_not_ident _ h.1).1 (unaryPre_not_ident _ h.1).2
  | .set lb as rb, _, _, h, _, rest, _, _ => by
    exact fails_assign_first lb _ (by rw [h.1]; decide +kernel) (by rw [h.1]; decide)
  | .dot l d r, L, _, h, _, rest, hs, hn => by
    have hc : (Ex.dot l d r).isChain = true := by simp [Ex.isChain, h.2.1, h.2.2.1]
    exact fails_assign_chain _ hc (chain_wf0 _ L hc h) rest hs (hn hc)
  | .call f lp as rp, L, _, h, _, rest, hs, hn => by
    have hc : (Ex.call f lp as rp).isChain = true := rfl
    exact fails_assign_chain _ hc (chain_wf0 _ L hc h) rest hs (hn hc)
  | .index a lb e rb, L, _, h, _, rest, hs, hn => by
    have hc : (Ex.index a lb e rb).isChain = true := rfl
    exact fails_assign_chain _ hc (chain_wf0 _ L hc h) rest hs (hn hc)
  | .post e op, _, _, h, _, rest, _, _ => by
    obtain ⟨hop, hc, hw⟩ := h
    have := fails_assign_chain e hc hw (op :: rest) (stopD_of_kind op rest (postKinds_table _ hop).1)
      (by intro t r e'; cases e'; exact post_not_assign _ hop)
    simpa [Ex.toks] using this
  | .bin l op r, L, h8, h, hna, rest, hs, _ => by
    obtain ⟨h1, hL, hl, hr⟩ := h
    have hop := opLevel_mem op.kind h1
    have hle := opLevel_le op.kind
    have hsd : StopD (op :: (r.toks ++ rest)) :=
      (stop_down (ops_stop (opLevel op.kind) h1 hle op (r.toks ++ rest) hop)).stopD
    by_cases hcl : l.isChain = true
    · have hopn : op.kind ∉ assignOps := by simpa [Ex.naB, hcl] using hna
      have := fails_assign_chain l hcl (chain_wf0 l _ hcl hl) (op :: (r.toks ++ rest)) hsd
        (by intro t r' e; cases e; exact hopn)
      simpa [Ex.toks, List.append_assoc] using this
    · have hna' : l.naB = true := by simpa [Ex.naB, hcl] using hna
      have := na_sound l (opLevel op.kind) hle hl hna' (op :: (r.toks ++ rest)) hsd (fun h => absurd h hcl)
      simpa [Ex.toks, List.append_assoc] using this

end Gold.C06
