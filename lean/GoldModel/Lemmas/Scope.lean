import GoldModel.Model.Scope
import GoldModel.Props.C18
/-!
Helper lemmas for C10 / C11 / C17 (M-SCOPE over M-SYM).

* the declaration-level reading of an entity (`Entity.name`, `rootDecls`, `Method.decls`, …) and
  the decidable guard `WellFormedWs`;
* `annotate_wf`: under the guard, the tables the annotator builds are exactly those lists;
* chains through parent pointers = the tables of the ancestor entities;
* the M-SYM queries on such chains, via the C18 refinement theorems, as `find`s over declaration lists.
-/
namespace Gold.Scope
open Gold Gold.Sym

variable (norm : String → String)

/-! ### the declaration-level reading of an entity -/

def Ev.isHeader : Ev → Bool
  | .cls _ _ => true
  | .mod _ => true
  | _ => false

/-- the name the entity declares for itself (its first top-level declaration) -/
def Entity.name (e : Entity) : String :=
  match e.top.head? with
  | some (.cls d _) => d.id
  | some (.mod d) => d.id
  | _ => ""

/-- the parent class named in the header (a parent spelled exactly like the class is not linked) -/
def Entity.parentName (e : Entity) : Option String :=
  match e.top.head? with
  | some (.cls d (some p)) => if p = d.id then none else some p
  | _ => none

/-- members of the entity, in the order they enter its table: header (and `self`), constants,
    types, fields, then the methods -/
def Entity.rootDecls (e : Entity) : List Decl := e.top.flatMap Ev.decls ++ e.methods.map (·.decl)

def Entity.rootUses (e : Entity) : List String := e.top.flatMap Ev.usesOf

/-- parameters and locals of a method, in declaration order -/
def Method.decls (m : Method) : List Decl := m.params ++ m.body.flatMap Ev.decls

def Method.usesOf (m : Method) : List String := m.body.flatMap Ev.usesOf

/-- what the generator's domain assumes of one file -/
def WFEntity (e : Entity) : Prop :=
  (e.top.head?.map Ev.isHeader = some true) ∧
  (e.top.tail.all (fun ev => !ev.isHeader) = true) ∧
  (e.methods.all (fun m => m.trail.isEmpty && m.body.all (fun ev => !ev.isHeader)) = true) ∧
  norm e.stem = norm e.name

instance (e : Entity) : Decidable (WFEntity norm e) := by unfold WFEntity; exact inferInstance

/-- what the generator's domain assumes of a workspace: file stems pairwise distinct up to case;
    every file declares the entity its stem names, first, then members and uses, then methods;
    the uids that stand for the identity of a `SymbolInfo` are pairwise distinct -/
def WellFormedWs (w : Ws) : Prop :=
  (w.map (fun e => norm e.stem)).Nodup ∧ (∀ e ∈ w, WFEntity norm e) ∧ ((allDecls w).map (·.uid)).Nodup

instance (w : Ws) : Decidable (WellFormedWs norm w) := by unfold WellFormedWs; exact inferInstance

/-! ### tables as declaration lists -/

/-- table `t` is named `cls`, holds exactly the declarations `ds` (in order), satisfies the
    M-SYM invariant, and has these uses and this parent request -/
structure Tab.Is (t : Tab) (cls : String) (ds : List Decl) (us : List String) (p : Option String) : Prop where
  cls : t.sc.cls = cls
  syms : t.sc.syms = ds.map toSym
  wf : t.sc.WF norm
  uses : t.uses = us
  parent : t.parent = p

theorem Tab.is_insert {t : Tab} {c ds us p} (h : t.Is norm c ds us p) (d : Decl) :
    (t.insert norm d).Is norm c (ds ++ [d]) us p := by
  refine ⟨?_, ?_, ?_, ?_, ?_⟩
  · simp [Tab.insert, Scope.insert, h.cls]
  · simp [Tab.insert, Scope.insert, h.syms]
  · exact Scope.wf_insert norm h.wf _
  · simp [Tab.insert, h.uses]
  · simp [Tab.insert, h.parent]

theorem Tab.is_insertAll {t : Tab} {c ds us p} (h : t.Is norm c ds us p) (l : List Decl) :
    (l.foldl (Tab.insert norm) t).Is norm c (ds ++ l) us p := by
  induction l generalizing t ds with
  | nil => simpa using h
  | cons d l ih =>
    have := ih (Tab.is_insert norm h d)
    simpa [List.append_assoc] using this

theorem Tab.is_ev {t : Tab} {c ds us p} (h : t.Is norm c ds us p) (e : Ev) :
    (t.ev norm e).Is norm c (ds ++ e.decls) (us ++ e.usesOf) p := by
  have h1 := Tab.is_insertAll norm h e.decls
  refine ⟨?_, ?_, ?_, ?_, ?_⟩
  · simpa [Tab.ev] using h1.cls
  · simpa [Tab.ev] using h1.syms
  · simpa [Tab.ev] using h1.wf
  · simp [Tab.ev, h.uses]
  · simpa [Tab.ev] using h1.parent

theorem Tab.is_evs {t : Tab} {c ds us p} (h : t.Is norm c ds us p) (evs : List Ev) :
    (evs.foldl (Tab.ev norm) t).Is norm c (ds ++ evs.flatMap Ev.decls) (us ++ evs.flatMap Ev.usesOf) p := by
  induction evs generalizing t ds us with
  | nil => simpa using h
  | cons e evs ih =>
    have := ih (Tab.is_ev norm h e)
    simpa [List.append_assoc, List.flatMap_cons] using this

/-! ### the annotator's walk, segment by segment -/

theorem hdr_plain (r : Tab) {e : Ev} (h : e.isHeader = false) : hdr r e = r := by
  cases e <;> simp_all [hdr, Ev.isHeader]

theorem hdr_plain_fold (r : Tab) {evs : List Ev} (h : ∀ e ∈ evs, e.isHeader = false) :
    evs.foldl hdr r = r := by
  induction evs generalizing r with
  | nil => rfl
  | cons e evs ih =>
    simp only [List.foldl_cons]
    rw [hdr_plain r (h e List.mem_cons_self)]
    exact ih r (fun x hx => h x (List.mem_cons_of_mem _ hx))

/-- events while a method scope is on the stack -/
theorem run_evs_cur (evs : List Ev) (r c : Tab) (dn : List Tab) :
    run norm (evs.map Top.ev) ⟨r, some c, dn⟩ = ⟨evs.foldl hdr r, some (evs.foldl (Tab.ev norm) c), dn⟩ := by
  induction evs generalizing r c with
  | nil => rfl
  | cons e evs ih =>
    simp only [run, List.map_cons, List.foldl_cons, step] at ih ⊢
    exact ih _ _

/-- events before the first method -/
theorem run_evs_top (evs : List Ev) (r : Tab) (dn : List Tab) :
    run norm (evs.map Top.ev) ⟨r, none, dn⟩ = ⟨evs.foldl (fun r e => (hdr r e).ev norm e) r, none, dn⟩ := by
  induction evs generalizing r with
  | nil => rfl
  | cons e evs ih =>
    simp only [run, List.map_cons, List.foldl_cons, step] at ih ⊢
    exact ih _

theorem run_append (l₁ l₂ : List Top) (s : St) : run norm (l₁ ++ l₂) s = run norm l₂ (run norm l₁ s) := by
  simp [run, List.foldl_append]

/-- all events of a method -/
def Method.evs (m : Method) : List Ev := m.params.map Ev.decl ++ m.body ++ m.trail

theorem Method.stream_eq (m : Method) : m.stream = Top.meth m.decl :: m.evs.map Top.ev := by
  simp [Method.stream, Method.evs]

/-- the scope pushed at the start of method `m` when the root table (method symbol inserted) is `r`,
    after all events of the method -/
def methodTab (r : Tab) (m : Method) : Tab :=
  m.evs.foldl (Tab.ev norm) ⟨Scope.empty r.sc.cls, r.uses, none⟩

/-- tables of the finished methods and of the one on the stack -/
def St.tabs (s : St) : List Tab := s.done ++ s.cur.toList

theorem run_method (m : Method) (s : St) :
    run norm m.stream s =
      ⟨m.evs.foldl hdr (s.root.insert norm m.decl), some (methodTab norm (s.root.insert norm m.decl) m), s.tabs⟩ := by
  rw [Method.stream_eq]
  have : run norm (Top.meth m.decl :: m.evs.map Top.ev) s
      = run norm (m.evs.map Top.ev) (step norm s (Top.meth m.decl)) := by simp [run]
  rw [this]
  have hs : step norm s (Top.meth m.decl)
      = ⟨s.root.insert norm m.decl, some ⟨Scope.empty (s.root.insert norm m.decl).sc.cls, (s.root.insert norm m.decl).uses, none⟩, s.tabs⟩ := by
    cases hc : s.cur <;> simp [step, St.endMethod, St.tabs, hc]
  rw [hs, run_evs_cur]
  rfl

def Method.evDecls (m : Method) : List Decl := m.evs.flatMap Ev.decls
def Method.evUses (m : Method) : List String := m.evs.flatMap Ev.usesOf

/-- the method tables `T` are those of the methods `ms` of a class named `c` whose root uses are `U` -/
def TabsAre (c : String) (U : List String) : List Tab → List Method → Prop
  | [], [] => True
  | t :: T, m :: ms => t.Is norm c m.evDecls (U ++ m.evUses) none ∧ TabsAre c U T ms
  | _, _ => False

theorem TabsAre.get {c U} {T : List Tab} {ms : List Method} (h : TabsAre norm c U T ms)
    {i : Nat} {m : Method} (hm : ms[i]? = some m) :
    ∃ t, T[i]? = some t ∧ Tab.Is norm t c m.evDecls (U ++ m.evUses) none := by
  induction ms generalizing T i with
  | nil => simp at hm
  | cons m' ms ih =>
    cases T with
    | nil => simp [TabsAre] at h
    | cons t T =>
      cases i with
      | zero => simp at hm; subst hm; exact ⟨t, by simp, h.1⟩
      | succ i =>
        simp at hm
        obtain ⟨t', ht', hi⟩ := ih h.2 hm
        exact ⟨t', by simpa using ht', hi⟩

theorem TabsAre.length {c U} : ∀ {T : List Tab} {ms : List Method}, TabsAre norm c U T ms → T.length = ms.length
  | [], [], _ => rfl
  | t :: T, m :: ms, h => by simp [TabsAre.length h.2]
  | [], _ :: _, h => by simp [TabsAre] at h
  | _ :: _, [], h => by simp [TabsAre] at h

theorem empty_is (c : String) (U : List String) : (⟨Scope.empty c, U, none⟩ : Tab).Is norm c [] U none :=
  ⟨rfl, rfl, Scope.wf_empty norm c, rfl, rfl⟩

def Method.plain (m : Method) : Prop := ∀ e ∈ m.evs, e.isHeader = false

/-- the methods of a class, one after the other: every method symbol goes to the root table,
    every method gets a table of its own that starts from the root's name and uses -/
theorem run_methods {c D U P} : ∀ (ms : List Method) (s : St), s.root.Is norm c D U P →
    (∀ m ∈ ms, m.plain) →
    (run norm (ms.flatMap Method.stream) s).root.Is norm c (D ++ ms.map (·.decl)) U P ∧
    ∃ T, (run norm (ms.flatMap Method.stream) s).tabs = s.tabs ++ T ∧ TabsAre norm c U T ms
  | [], s, h, _ => by
    refine ⟨by simpa [run] using h, [], by simp [run], trivial⟩
  | m :: ms, s, h, hp => by
    have hm : m.plain := hp m List.mem_cons_self
    have hr : (s.root.insert norm m.decl).Is norm c (D ++ [m.decl]) U P := Tab.is_insert norm h _
    simp only [List.flatMap_cons, run_append, run_method]
    rw [hdr_plain_fold _ hm]
    have hmt : (methodTab norm (s.root.insert norm m.decl) m).Is norm c m.evDecls (U ++ m.evUses) none := by
      unfold methodTab Method.evDecls Method.evUses
      have := Tab.is_evs norm (empty_is norm (s.root.insert norm m.decl).sc.cls (s.root.insert norm m.decl).uses) m.evs
      simp only [List.nil_append] at this
      rw [hr.cls, hr.uses] at this ⊢
      exact this
    obtain ⟨h1, T, hT, hTa⟩ := run_methods ms
      ⟨s.root.insert norm m.decl, some (methodTab norm (s.root.insert norm m.decl) m), s.tabs⟩ hr
      (fun x hx => hp x (List.mem_cons_of_mem _ hx))
    refine ⟨by simpa [List.append_assoc] using h1, methodTab norm (s.root.insert norm m.decl) m :: T, ?_, hmt, hTa⟩
    rw [hT]
    simp [St.tabs]

theorem wf_setCls {s : Scope} (h : s.WF norm) (n : String) : ({ s with cls := n } : Scope).WF norm :=
  fun k => h k

theorem fold_top_plain {evs : List Ev} (h : ∀ e ∈ evs, e.isHeader = false) (r : Tab) :
    evs.foldl (fun r e => (hdr r e).ev norm e) r = evs.foldl (Tab.ev norm) r := by
  induction evs generalizing r with
  | nil => rfl
  | cons e evs ih =>
    simp only [List.foldl_cons]
    rw [hdr_plain r (h e List.mem_cons_self)]
    exact ih (fun x hx => h x (List.mem_cons_of_mem _ hx)) _

/-- the root table after the top-level declarations that precede the first method -/
theorem top_is {e : Entity} (h : WFEntity norm e) :
    (e.top.foldl (fun r ev => (hdr r ev).ev norm ev) (⟨Scope.empty "", [], none⟩ : Tab)).Is norm
      e.name (e.top.flatMap Ev.decls) (e.top.flatMap Ev.usesOf) e.parentName := by
  obtain ⟨h1, h2, _, _⟩ := h
  cases htop : e.top with
  | nil => simp [htop] at h1
  | cons hd rest =>
    simp only [htop, List.head?_cons, Option.map_some, Option.some.injEq] at h1
    simp only [htop, List.tail_cons, List.all_eq_true, Bool.not_eq_eq_eq_not, Bool.not_true] at h2
    simp only [List.foldl_cons, List.flatMap_cons]
    rw [fold_top_plain norm h2]
    have h0 : (hdr (⟨Scope.empty "", [], none⟩ : Tab) hd).Is norm e.name [] [] e.parentName := by
      cases hd with
      | decl d => simp [Ev.isHeader] at h1
      | uses n => simp [Ev.isHeader] at h1
      | mod d =>
        exact ⟨by simp [hdr, Entity.name, htop], rfl, wf_setCls norm (Scope.wf_empty norm "") d.id,
          rfl, by simp [hdr, Entity.parentName, htop]⟩
      | cls d p =>
        cases p with
        | none =>
          exact ⟨by simp [hdr, Entity.name, htop], rfl, wf_setCls norm (Scope.wf_empty norm "") d.id,
            rfl, by simp [hdr, Entity.parentName, htop]⟩
        | some pn =>
          by_cases hq : pn = d.id
          · exact ⟨by simp [hdr, Entity.name, htop, hq], by simp [hdr, hq, Scope.empty],
              by simpa [hdr, hq] using wf_setCls norm (Scope.wf_empty norm "") d.id, by simp [hdr, hq],
              by simp [hdr, Entity.parentName, htop, hq]⟩
          · exact ⟨by simp [hdr, Entity.name, htop, hq], by simp [hdr, hq, Scope.empty],
              by simpa [hdr, hq] using wf_setCls norm (Scope.wf_empty norm "") d.id, by simp [hdr, hq],
              by simp [hdr, Entity.parentName, htop, hq]⟩
    have := Tab.is_evs norm (Tab.is_ev norm h0 hd) rest
    simpa [List.append_assoc] using this

theorem wf_method {e : Entity} (h : WFEntity norm e) {m : Method} (hm : m ∈ e.methods) :
    m.plain ∧ m.evDecls = m.decls ∧ m.evUses = m.usesOf := by
  obtain ⟨_, _, h3, _⟩ := h
  have := (List.all_eq_true.mp h3) m hm
  simp only [Bool.and_eq_true, List.isEmpty_iff, List.all_eq_true, Bool.not_eq_eq_eq_not,
    Bool.not_true] at this
  obtain ⟨ht, hb⟩ := this
  refine ⟨?_, ?_, ?_⟩
  · intro ev hev
    simp only [Method.evs, ht, List.append_nil, List.mem_append, List.mem_map] at hev
    rcases hev with ⟨d, _, rfl⟩ | hev
    · rfl
    · exact hb ev hev
  · simp [Method.evDecls, Method.evs, Method.decls, ht, List.flatMap_append, List.flatMap_map, Ev.decls]
  · simp [Method.evUses, Method.evs, Method.usesOf, ht, List.flatMap_append, List.flatMap_map, Ev.usesOf]

theorem endMethod_eq (s : St) : s.endMethod = ⟨s.root, none, s.tabs⟩ := by
  cases hc : s.cur <;> simp [St.endMethod, St.tabs, hc]
  cases s; simp_all

/-- **the tables the annotator builds** for a well-formed file: the root table holds the members
    in declaration order, every method's table its parameters and locals; all of them carry the
    entity's name; a method sees the uses of the class and its own -/
theorem annotate_wf {e : Entity} (h : WFEntity norm e) :
    (annotate norm e).root.Is norm e.name e.rootDecls e.rootUses e.parentName ∧
    (annotate norm e).cur = none ∧
    TabsAre norm e.name e.rootUses (annotate norm e).done e.methods := by
  unfold annotate
  rw [endMethod_eq]
  simp only [Entity.stream, run_append]
  have h0 : ((({} : St)).root, ({} : St).cur, ({} : St).done) = (⟨Scope.empty "", [], none⟩, none, []) := rfl
  have hrun : run norm (e.top.map Top.ev) ({} : St)
      = ⟨e.top.foldl (fun r ev => (hdr r ev).ev norm ev) ⟨Scope.empty "", [], none⟩, none, []⟩ :=
    run_evs_top norm e.top ⟨Scope.empty "", [], none⟩ []
  rw [hrun]
  obtain ⟨hr, T, hT, hTa⟩ := run_methods norm e.methods
    ⟨e.top.foldl (fun r ev => (hdr r ev).ev norm ev) ⟨Scope.empty "", [], none⟩, none, []⟩
    (top_is norm h) (fun m hm => (wf_method norm h hm).1)
  refine ⟨hr, by simp, ?_⟩
  simp only [St.tabs, Option.toList_none, List.append_nil, List.nil_append] at hT
  simp only [St.tabs] at hT ⊢
  rw [hT]
  exact hTa

/-! ### chains through parent pointers = tables of the ancestors -/

variable (w : Ws)

/-- the ancestors of the entity whose header names parent `p`, nearest first (`fuel` bounds the
    walk exactly as in `parents`; on an acyclic forest `w.length` steps reach the root) -/
def ancestorsOf : Nat → Option String → List Entity
  | 0, _ => []
  | _+1, none => []
  | f+1, some p =>
    match index norm w p with
    | some a => a :: ancestorsOf f a.parentName
    | none => []

/-- an entity and its ancestors, nearest first -/
def lineage (e : Entity) : List Entity := e :: ancestorsOf norm w w.length e.parentName

theorem index_mem {n : String} {a : Entity} (h : index norm w n = some a) : a ∈ w :=
  List.mem_of_find?_eq_some h

theorem ancestorsOf_mem : ∀ (f : Nat) (p : Option String) {a : Entity}, a ∈ ancestorsOf norm w f p → a ∈ w
  | 0, _, _, h => by simp [ancestorsOf] at h
  | _+1, none, _, h => by simp [ancestorsOf] at h
  | f+1, some p, a, h => by
    simp only [ancestorsOf] at h
    cases hi : index norm w p with
    | none => simp [hi] at h
    | some b =>
      simp only [hi, List.mem_cons] at h
      rcases h with rfl | h
      · exact index_mem norm w hi
      · exact ancestorsOf_mem f _ h

theorem parents_eq (hw : ∀ e ∈ w, WFEntity norm e) : ∀ (f : Nat) (p : Option String),
    parents norm w none f p = (ancestorsOf norm w f p).map (fun a => (rootOf norm a).sc)
  | 0, _ => rfl
  | _+1, none => rfl
  | f+1, some p => by
    simp only [parents, ancestorsOf]
    cases hi : index norm w p with
    | none => rfl
    | some a =>
      have ha := (annotate_wf norm (hw a (index_mem norm w hi))).1
      simp only [rootNow, List.map_cons, rootOf]
      rw [ha.parent]
      congr 1
      exact parents_eq hw f a.parentName

/-- chain `c` consists of the tables of these owners with these declarations, nearest first -/
def ChainIs (c : Chain) (L : List (Entity × List Decl)) : Prop :=
  ChainWF norm c ∧ c.map (fun s => (s.cls, s.syms)) = L.map (fun p => (p.1.name, p.2.map toSym))

theorem ChainIs.cons {t : Tab} {a : Entity} {ds us p} {c : Chain} {L} (ht : t.Is norm a.name ds us p)
    (hc : ChainIs norm c L) : ChainIs norm (t.sc :: c) ((a, ds) :: L) := by
  refine ⟨?_, ?_⟩
  · intro s hs
    rcases List.mem_cons.mp hs with rfl | hs
    · exact ht.wf
    · exact hc.1 s hs
  · simp [ht.cls, ht.syms, hc.2]

theorem ChainIs.nil : ChainIs norm [] [] := ⟨fun _ h => by simp at h, rfl⟩

/-- the declarations visible through the root table of `a`: its own, then each ancestor's -/
def layers (a : Entity) : List (Entity × List Decl) := (lineage norm w a).map (fun b => (b, b.rootDecls))

theorem ancestors_chain (hw : ∀ e ∈ w, WFEntity norm e) : ∀ (l : List Entity), (∀ a ∈ l, a ∈ w) →
    ChainIs norm (l.map (fun a => (rootOf norm a).sc)) (l.map (fun b => (b, b.rootDecls)))
  | [], _ => ChainIs.nil norm
  | a :: l, h => by
    simp only [List.map_cons]
    exact ChainIs.cons norm (annotate_wf norm (hw a (h a List.mem_cons_self))).1
      (ancestors_chain hw l (fun b hb => h b (List.mem_cons_of_mem _ hb)))

/-- the root table of `a` as its users see it -/
theorem viewRoot_chain (hw : ∀ e ∈ w, WFEntity norm e) {a : Entity} (ha : a ∈ w) :
    ChainIs norm (viewRoot norm w none (rootOf norm a)).chain (layers norm w a) ∧
    (viewRoot norm w none (rootOf norm a)).uses = a.rootUses := by
  have h1 : (rootOf norm a).Is norm a.name a.rootDecls a.rootUses a.parentName := (annotate_wf norm (hw a ha)).1
  refine ⟨?_, h1.uses⟩
  simp only [viewRoot, layers, lineage, List.map_cons]
  rw [parents_eq norm w hw, h1.parent]
  exact ChainIs.cons norm h1 (ancestors_chain norm w hw _ (fun b hb => ancestorsOf_mem norm w _ _ hb))

/-! ### the M-SYM queries on such chains (through the C18 refinement theorems) -/

/-- most recent declaration whose folded name is `k` -/
def lastDecl (ds : List Decl) (k : String) : Option Decl := ds.reverse.find? (fun d => norm d.id = k)

theorem last_toSym (ds : List Decl) (k : String) :
    Spec.last norm (ds.map toSym) k = (lastDecl norm ds k).map toSym := by
  simp only [Spec.last, lastDecl, ← List.map_reverse, List.find?_map]
  rfl

/-- one hit per layer that declares `k`, nearest first -/
def hitsIn (L : List (Entity × List Decl)) (k : String) : List (Entity × Decl) :=
  L.filterMap (fun p => (lastDecl norm p.2 k).map (fun d => (p.1, d)))

theorem searchAll_is {c : Chain} {L} (h : ChainIs norm c L) (id : String) :
    searchAll norm c id = (hitsIn norm L (norm id)).map (fun p => (p.1.name, toSym p.2)) := by
  rw [Gold.C18.searchAll_wf norm h.1, h.2]
  simp only [Gold.C18.Spec.allHits, hitsIn, List.filterMap_map, List.map_filterMap]
  congr 1
  funext p
  simp only [Function.comp, last_toSym, Option.map_map]
  rfl

theorem searchW_head (c : Chain) (id : String) : searchWParent norm c id = (searchAll norm c id).head? := by
  induction c with
  | nil => rfl
  | cons s rest ih =>
    simp only [searchWParent, searchAll]
    cases s.find norm id with
    | some x => rfl
    | none => simpa using ih

theorem searchW_is {c : Chain} {L} (h : ChainIs norm c L) (id : String) :
    searchWParent norm c id = ((hitsIn norm L (norm id)).head?).map (fun p => (p.1.name, toSym p.2)) := by
  rw [searchW_head, searchAll_is norm h, List.head?_map]

/-! ### recovering declarations and files -/

theorem find_unique {α} {p : α → Bool} {a : α} : ∀ {l : List α}, a ∈ l → p a = true →
    (∀ x ∈ l, p x = true → x = a) → l.find? p = some a
  | [], h, _, _ => by simp at h
  | x :: l, h, hp, hu => by
    simp only [List.find?_cons]
    cases hx : p x with
    | true => simp [hu x List.mem_cons_self hx]
    | false =>
      have : a ∈ l := by
        rcases List.mem_cons.mp h with rfl | h
        · simp [hp] at hx
        · exact h
      exact find_unique this hp (fun y hy => hu y (List.mem_cons_of_mem _ hy))

theorem inj_of_nodup_map {α β} (f : α → β) {l : List α} (h : (l.map f).Nodup)
    {x y : α} (hx : x ∈ l) (hy : y ∈ l) (e : f x = f y) : x = y := by
  induction l with
  | nil => simp at hx
  | cons a l ih =>
    simp only [List.map_cons, List.nodup_cons, List.mem_map, not_exists, not_and] at h
    rcases List.mem_cons.mp hx with hxa | hxl <;> rcases List.mem_cons.mp hy with hya | hyl
    · rw [hxa, hya]
    · exact absurd (by rw [← e, hxa]) (h.1 y hyl)
    · exact absurd (by rw [e, hya]) (h.1 x hxl)
    · exact ih h.2 hxl hyl

theorem findDecl_self {w : Ws} (h : ((allDecls w).map (·.uid)).Nodup) {d : Decl} (hd : d ∈ allDecls w) :
    findDecl w d.uid = some d := by
  unfold findDecl
  apply find_unique hd (by simp)
  intro x hx hp
  exact inj_of_nodup_map (·.uid) h hx hd (by simpa using hp)

theorem index_self {w : Ws} (h : WellFormedWs norm w) {a : Entity} (ha : a ∈ w) :
    index norm w a.name = some a := by
  unfold index
  apply find_unique ha (by simpa using (h.2.1 a ha).2.2.2)
  intro x hx hp
  have : norm x.stem = norm a.stem := by
    have := (h.2.1 a ha).2.2.2
    simp only [beq_iff_eq] at hp
    rw [hp, this]
  exact inj_of_nodup_map (fun e => norm e.stem) h.1 hx ha this

theorem source_self {w : Ws} (h : WellFormedWs norm w) {a : Entity} (ha : a ∈ w) :
    source w a.stem = some a := by
  unfold source
  apply find_unique ha (by simp)
  intro x hx hp
  have : norm x.stem = norm a.stem := by simp at hp; rw [hp]
  exact inj_of_nodup_map (fun e => norm e.stem) h.1 hx ha this

theorem Entity.decls_eq (e : Entity) :
    e.decls = e.top.flatMap Ev.decls ++ e.methods.flatMap (fun m => m.decl :: m.evDecls) := by
  simp only [Entity.decls, Entity.stream, List.flatMap_append, List.flatMap_map]
  congr 1
  · induction e.methods with
    | nil => rfl
    | cons m ms ih =>
      simp only [List.flatMap_cons, List.flatMap_append, ih]
      congr 1
      simp [Method.stream_eq, Method.evDecls, List.flatMap_cons, List.flatMap_map, Top.decls]

theorem rootDecls_sub {w : Ws} {a : Entity} (ha : a ∈ w) {d : Decl} (hd : d ∈ a.rootDecls) : d ∈ allDecls w := by
  simp only [allDecls, List.mem_flatMap]
  refine ⟨a, ha, ?_⟩
  rw [Entity.decls_eq]
  simp only [Entity.rootDecls, List.mem_append, List.mem_map] at hd
  rcases hd with hd | ⟨m, hm, rfl⟩
  · exact List.mem_append_left _ hd
  · exact List.mem_append_right _ (List.mem_flatMap.mpr ⟨m, hm, List.mem_cons_self⟩)

theorem evDecls_sub {w : Ws} {a : Entity} (ha : a ∈ w) {m : Method} (hm : m ∈ a.methods) {d : Decl}
    (hd : d ∈ m.evDecls) : d ∈ allDecls w := by
  simp only [allDecls, List.mem_flatMap]
  refine ⟨a, ha, ?_⟩
  rw [Entity.decls_eq]
  exact List.mem_append_right _ (List.mem_flatMap.mpr ⟨m, hm, List.mem_cons_of_mem _ hd⟩)

/-! ### links -/

/-- the `LocationLink` of declaration `p.2` of entity `p.1`: the declaring entity's file, the
    range of the declared name, the range of the declaration -/
def linkTo (p : Entity × Decl) : Link := ⟨p.1.stem, p.2.sel, p.2.rng⟩

/-- all layers belong to the workspace -/
def LayersOK (L : List (Entity × List Decl)) : Prop := ∀ p ∈ L, p.1 ∈ w ∧ ∀ d ∈ p.2, d ∈ allDecls w

theorem lastDecl_mem {ds : List Decl} {k : String} {d : Decl} (h : lastDecl norm ds k = some d) : d ∈ ds := by
  have := List.mem_of_find?_eq_some h
  simpa using this

theorem hitsIn_ok {L} (hL : LayersOK w L) {k : String} {p : Entity × Decl} (hp : p ∈ hitsIn norm L k) :
    p.1 ∈ w ∧ p.2 ∈ allDecls w := by
  simp only [hitsIn, List.mem_filterMap, Option.map_eq_some_iff] at hp
  obtain ⟨q, hq, d, hd, rfl⟩ := hp
  exact ⟨(hL q hq).1, (hL q hq).2 d (lastDecl_mem norm hd)⟩

theorem linkOf_ok (h : WellFormedWs norm w) {p : Entity × Decl} (hp : p.1 ∈ w ∧ p.2 ∈ allDecls w) :
    linkOf norm w (p.1.name, toSym p.2) = some (linkTo p) := by
  simp only [linkOf, index_self norm h hp.1, toSym, findDecl_self h.2.2 hp.2, linkTo]

theorem layers_ok {a : Entity} (ha : a ∈ w) : LayersOK w (layers norm w a) := by
  intro p hp
  simp only [layers, lineage, List.mem_map] at hp
  obtain ⟨b, hb, rfl⟩ := hp
  have hbw : b ∈ w := by
    rcases List.mem_cons.mp hb with rfl | hb
    · exact ha
    · exact ancestorsOf_mem norm w _ _ hb
  exact ⟨hbw, fun d hd => rootDecls_sub hbw hd⟩

/-- nearest layer that declares `k` -/
def firstHit (L : List (Entity × List Decl)) (k : String) : Option (Entity × Decl) :=
  L.findSome? (fun p => (lastDecl norm p.2 k).map (fun d => (p.1, d)))

theorem firstHit_head (L : List (Entity × List Decl)) (k : String) :
    (hitsIn norm L k).head? = firstHit norm L k := by
  simp [hitsIn, firstHit, List.head?_filterMap]

/-- first used entity (uses order) through whose root table `k` is visible -/
def usesHit (us : List String) (k : String) : Option (Entity × Decl) :=
  us.findSome? (fun u => (index norm w u).bind (fun ue => firstHit norm (layers norm w ue) k))

theorem findSome?_map_fn {α β γ} (f : α → Option β) (g : β → γ) (l : List α) :
    l.findSome? (fun x => (f x).map g) = (l.findSome? f).map g := by
  induction l with
  | nil => rfl
  | cons a l ih =>
    simp only [List.findSome?_cons]
    cases f a <;> simp [ih]

theorem findSome?_congr' {α β} {f g : α → Option β} {l : List α} (h : ∀ x ∈ l, f x = g x) :
    l.findSome? f = l.findSome? g := by
  induction l with
  | nil => rfl
  | cons a l ih =>
    simp only [List.findSome?_cons, h a List.mem_cons_self]
    rw [ih (fun x hx => h x (List.mem_cons_of_mem _ hx))]

theorem firstHit_ok {L} (hL : LayersOK w L) {k : String} {p : Entity × Decl} (hp : firstHit norm L k = some p) :
    p.1 ∈ w ∧ p.2 ∈ allDecls w := by
  rw [← firstHit_head] at hp
  exact hitsIn_ok norm w hL (List.mem_of_head? hp)

/-- `generate_loc_link_single` on a well-formed workspace: the nearest table of the chain that
    has the name, else the first used entity through which it is visible -/
theorem linkSingle_is (h : WellFormedWs norm w) {v : View} {L} (hc : ChainIs norm v.chain L)
    (hL : LayersOK w L) (id : String) :
    linkSingle norm w v id
      = (((firstHit norm L (norm id)).or (usesHit norm w v.uses (norm id))).map linkTo).toList := by
  unfold linkSingle
  rw [searchW_is norm hc, firstHit_head]
  cases hf : firstHit norm L (norm id) with
  | some p =>
    simp only [Option.map_some]
    rw [linkOf_ok norm w h (firstHit_ok norm w hL hf)]
    rfl
  | none =>
    simp only [Option.map_none, Option.none_or]
    have hu : v.uses.findSome? (fun u => (serviceFin norm w u).bind (fun uv => searchWParent norm uv.chain id))
        = (usesHit norm w v.uses (norm id)).map (fun p => (p.1.name, toSym p.2)) := by
      unfold usesHit
      rw [← findSome?_map_fn]
      congr 1
      funext u
      unfold serviceFin
      cases hi : index norm w u with
      | none => rfl
      | some ue =>
        simp only [Option.map_some, Option.bind_some]
        rw [searchW_is norm (viewRoot_chain norm w h.2.1 (index_mem norm w hi)).1, firstHit_head]
    rw [hu]
    cases hh : usesHit norm w v.uses (norm id) with
    | none => rfl
    | some p =>
      simp only [Option.map_some]
      have hp : p.1 ∈ w ∧ p.2 ∈ allDecls w := by
        unfold usesHit at hh
        obtain ⟨_, u, _, _, hu2, _⟩ := List.findSome?_eq_some_iff.mp hh
        cases hi : index norm w u with
        | none => simp [hi] at hu2
        | some ue =>
          simp only [hi, Option.bind_some] at hu2
          exact firstHit_ok norm w (layers_ok norm w (index_mem norm w hi)) hu2
      rw [linkOf_ok norm w h hp]

/-- `generate_loc_link_all` on a well-formed workspace: one link per table of the chain that has
    the name, nearest first -/
theorem linkAll_is (h : WellFormedWs norm w) {v : View} {L} (hc : ChainIs norm v.chain L)
    (hL : LayersOK w L) (id : String) :
    linkAll norm w v id = (hitsIn norm L (norm id)).map linkTo := by
  unfold linkAll
  rw [searchAll_is norm hc]
  have : ((hitsIn norm L (norm id)).map (fun p => (p.1.name, toSym p.2))).map (linkOf norm w)
      = (hitsIn norm L (norm id)).map (fun p => some (linkTo p)) := by
    rw [List.map_map]
    apply List.map_congr_left
    intro p hp
    exact linkOf_ok norm w h (hitsIn_ok norm w hL hp)
  simp only [this, List.all_map, List.filterMap_map]
  simp [Function.comp_def]

/-! ### every table the annotator builds satisfies the M-SYM invariant (no guard) -/

def St.WF (s : St) : Prop :=
  s.root.sc.WF norm ∧ (∀ c, s.cur = some c → c.sc.WF norm) ∧ ∀ t ∈ s.done, t.sc.WF norm

theorem Tab.wf_insert {t : Tab} (h : t.sc.WF norm) (d : Decl) : (t.insert norm d).sc.WF norm :=
  Scope.wf_insert norm h _

theorem Tab.wf_ev {t : Tab} (h : t.sc.WF norm) (e : Ev) : (t.ev norm e).sc.WF norm := by
  have : ∀ (l : List Decl) (t : Tab), t.sc.WF norm → (l.foldl (Tab.insert norm) t).sc.WF norm := by
    intro l
    induction l with
    | nil => intro t h; exact h
    | cons d l ih => intro t h; exact ih _ (Tab.wf_insert norm h d)
  simpa [Tab.ev] using this e.decls t h

theorem hdr_wf {r : Tab} (h : r.sc.WF norm) (e : Ev) : (hdr r e).sc.WF norm := by
  cases e with
  | decl d => exact h
  | uses n => exact h
  | mod d => exact wf_setCls norm h _
  | cls d p =>
    cases p with
    | none => exact wf_setCls norm h _
    | some pn =>
      simp only [hdr]
      split
      · exact wf_setCls norm h _
      · exact wf_setCls norm h _

theorem step_wf {s : St} (h : s.WF norm) (t : Top) : (step norm s t).WF norm := by
  obtain ⟨hr, hc, hd⟩ := h
  cases t with
  | ev e =>
    simp only [step]
    cases hcur : s.cur with
    | none =>
      refine ⟨Tab.wf_ev norm (hdr_wf norm hr e) e, ?_, hd⟩
      intro c hc'; simp [hcur] at hc'
    | some c =>
      refine ⟨hdr_wf norm hr e, ?_, hd⟩
      intro c' hc'
      simp only [Option.some.injEq] at hc'
      subst hc'
      exact Tab.wf_ev norm (hc c hcur) e
  | meth d =>
    simp only [step]
    refine ⟨?_, ?_, ?_⟩
    · cases hcur : s.cur <;> simpa [St.endMethod, hcur] using Tab.wf_insert norm hr d
    · intro c hc'
      simp only [Option.some.injEq] at hc'
      subst hc'
      exact Scope.wf_empty norm _
    · intro t ht
      cases hcur : s.cur with
      | none => simp only [St.endMethod, hcur] at ht; exact hd t ht
      | some c =>
        simp only [St.endMethod, hcur, List.mem_append, List.mem_singleton] at ht
        rcases ht with ht | rfl
        · exact hd t ht
        · exact hc _ hcur

theorem run_wf (l : List Top) {s : St} (h : s.WF norm) : (run norm l s).WF norm := by
  induction l generalizing s with
  | nil => exact h
  | cons t l ih => exact ih (step_wf norm h t)

theorem init_wf : ({} : St).WF norm :=
  ⟨Scope.wf_empty norm "", fun c hc => by simp at hc, fun t ht => by simp at ht⟩

theorem annotate_tables_wf (e : Entity) :
    (annotate norm e).root.sc.WF norm ∧ ∀ t ∈ (annotate norm e).done, t.sc.WF norm := by
  have h := run_wf norm e.stream (init_wf norm)
  unfold annotate
  rw [endMethod_eq]
  refine ⟨h.1, ?_⟩
  intro t ht
  simp only [St.tabs, List.mem_append, Option.mem_toList] at ht
  rcases ht with ht | ht
  · exact h.2.2 t ht
  · exact h.2.1 t ht

theorem parents_wf : ∀ (f : Nat) (p : Option String), ChainWF norm (parents norm w none f p)
  | 0, _ => fun _ h => by simp [parents] at h
  | _+1, none => fun _ h => by simp [parents] at h
  | f+1, some p => by
    simp only [parents]
    cases index norm w p with
    | none => intro _ h; simp at h
    | some a =>
      intro s hs
      rcases List.mem_cons.mp hs with rfl | hs
      · exact (annotate_tables_wf norm a).1
      · exact parents_wf f _ s hs

theorem viewRoot_wf (e : Entity) : ChainWF norm (viewRoot norm w none (rootOf norm e)).chain := by
  intro s hs
  simp only [viewRoot] at hs
  rcases List.mem_cons.mp hs with rfl | hs
  · exact (annotate_tables_wf norm e).1
  · exact parents_wf norm w _ _ s hs

theorem viewScope_wf (e : Entity) (scope : Option Nat) :
    ChainWF norm (viewScope norm w (annotate norm e) scope).chain := by
  unfold viewScope
  split
  · rename_i m hm
    intro s hs
    rcases List.mem_cons.mp hs with rfl | hs
    · cases scope with
      | none => simp at hm
      | some i =>
        simp only [Option.bind_some] at hm
        exact (annotate_tables_wf norm e).2 _ (List.mem_of_getElem? hm)
    · exact viewRoot_wf norm w e s hs
  · exact viewRoot_wf norm w e

/-! ### the queries depend on the identifier only through `norm` -/

theorem searchAll_case {c : Chain} (h : ChainWF norm c) {id id' : String} (e : norm id = norm id') :
    searchAll norm c id = searchAll norm c id' := by
  rw [Gold.C18.searchAll_wf norm h, Gold.C18.searchAll_wf norm h, e]

theorem searchW_case {c : Chain} (h : ChainWF norm c) {id id' : String} (e : norm id = norm id') :
    searchWParent norm c id = searchWParent norm c id' := by
  rw [searchW_head, searchW_head, searchAll_case norm h e]

theorem linkAll_case {v : View} (h : ChainWF norm v.chain) {id id' : String} (e : norm id = norm id') :
    linkAll norm w v id = linkAll norm w v id' := by
  unfold linkAll
  rw [searchAll_case norm h e]

theorem linkSingle_case {v : View} (h : ChainWF norm v.chain) {id id' : String} (e : norm id = norm id') :
    linkSingle norm w v id = linkSingle norm w v id' := by
  unfold linkSingle
  rw [searchW_case norm h e]
  have : v.uses.findSome? (fun u => (serviceFin norm w u).bind (fun uv => searchWParent norm uv.chain id))
      = v.uses.findSome? (fun u => (serviceFin norm w u).bind (fun uv => searchWParent norm uv.chain id')) := by
    apply findSome?_congr'
    intro u _
    unfold serviceFin
    cases index norm w u with
    | none => rfl
    | some ue =>
      simp only [Option.map_some, Option.bind_some]
      exact searchW_case norm (viewRoot_wf norm w ue) e
  rw [this]

/-! ### merged listings (completion) as declaration lists -/

/-- each name once (its most recent declaration), in declaration order -/
def liveD : List Decl → List Decl
  | [] => []
  | x :: rest => if rest.any (fun y => norm y.id = norm x.id) then liveD rest else x :: liveD rest

/-- nearest table first; a name already listed hides the farther declarations of that name -/
def mergedD : List (List Decl) → List Decl
  | [] => []
  | ds :: rest => liveD norm ds ++ (mergedD rest).filter (fun y => !(ds.any (fun x => norm x.id = norm y.id)))

theorem live_toSym (ds : List Decl) : Spec.live norm (ds.map toSym) = (liveD norm ds).map toSym := by
  induction ds with
  | nil => rfl
  | cons d ds ih =>
    simp only [List.map_cons, Spec.live, liveD, List.any_map, Function.comp_def]
    have e : (ds.any fun x => decide (norm (toSym x).id = norm (toSym d).id)) = (ds.any fun y => decide (norm y.id = norm d.id)) := rfl
    rw [e]
    split <;> simp [ih]

theorem merged_toSym (Ls : List (List Decl)) :
    Spec.merged norm (Ls.map (fun ds => ds.map toSym)) = (mergedD norm Ls).map toSym := by
  induction Ls with
  | nil => rfl
  | cons ds Ls ih =>
    simp only [List.map_cons, Spec.merged, mergedD, live_toSym, ih, List.map_append, List.filter_map,
      List.any_map, Function.comp_def, toSym]
    rfl

theorem liveD_sub (ds : List Decl) : ∀ d ∈ liveD norm ds, d ∈ ds := by
  induction ds with
  | nil => simp [liveD]
  | cons x ds ih =>
    intro d hd
    simp only [liveD] at hd
    split at hd
    · exact List.mem_cons_of_mem _ (ih d hd)
    · rcases List.mem_cons.mp hd with rfl | hd
      · exact List.mem_cons_self
      · exact List.mem_cons_of_mem _ (ih d hd)

theorem mergedD_sub (Ls : List (List Decl)) : ∀ d ∈ mergedD norm Ls, ∃ ds ∈ Ls, d ∈ ds := by
  induction Ls with
  | nil => simp [mergedD]
  | cons ds Ls ih =>
    intro d hd
    simp only [mergedD, List.mem_append, List.mem_filter] at hd
    rcases hd with hd | ⟨hd, _⟩
    · exact ⟨ds, List.mem_cons_self, liveD_sub norm ds d hd⟩
    · obtain ⟨ds', h1, h2⟩ := ih d hd
      exact ⟨ds', List.mem_cons_of_mem _ h1, h2⟩

/-- `generate_completion_items_*` on a well-formed workspace: the merged listing of the chain's
    declaration lists, filtered by symbol type, labels as declared -/
theorem labels_is (h : WellFormedWs norm w) {v : View} {L} (hc : ChainIs norm v.chain L) (hL : LayersOK w L)
    (keep : SK → Bool) :
    labels norm w keep v = ((mergedD norm (L.map (·.2))).filter (fun d => keep d.kind)).map (·.id) := by
  unfold labels
  rw [Gold.C18.collect_wf norm hc.1]
  have habs : Gold.C18.abs v.chain = (L.map (·.2)).map (fun ds => ds.map toSym) := by
    have := congrArg (List.map (·.2)) hc.2
    simpa [Gold.C18.abs, List.map_map, Function.comp_def] using this
  rw [habs, merged_toSym, List.filter_map, List.map_map]
  have hk : ∀ d ∈ mergedD norm (L.map (·.2)), kindOf w (toSym d) = some d.kind := by
    intro d hd
    obtain ⟨ds, hds, hdd⟩ := mergedD_sub norm _ d hd
    obtain ⟨p, hp, rfl⟩ := List.mem_map.mp hds
    simp [kindOf, toSym, findDecl_self h.2.2 ((hL p hp).2 d hdd)]
  generalize mergedD norm (L.map (·.2)) = M at hk ⊢
  have hf : M.filter ((fun x => (kindOf w x).any keep) ∘ toSym)
      = M.filter (fun d => keep d.kind) := by
    apply List.filter_congr
    intro d hd
    simp [Function.comp, hk d hd]
  rw [hf]
  simp [Function.comp_def, toSym]

/-- the merged listing depends on no identifier at all: nothing to re-case in a completion request
    except the left operand (see `Props/C11.lean`) -/
theorem mergedD_cons (ds : List Decl) (Ls : List (List Decl)) :
    mergedD norm (ds :: Ls) = liveD norm ds ++ (mergedD norm Ls).filter (fun y => !(ds.any (fun x => norm x.id = norm y.id))) := rfl

/-! ### eval types: the tables consulted while a file is being annotated satisfy the invariant too -/

def NowWF (now : Option (String × Tab)) : Prop := ∀ p, now = some p → p.2.sc.WF norm

theorem rootNow_wf {now : Option (String × Tab)} (hn : NowWF norm now) (e : Entity) :
    (rootNow norm now e).sc.WF norm := by
  unfold rootNow
  cases now with
  | none => exact (annotate_tables_wf norm e).1
  | some p =>
    obtain ⟨stem, t⟩ := p
    simp only
    split
    · exact hn (stem, t) rfl
    · exact (annotate_tables_wf norm e).1

theorem parents_now_wf {now : Option (String × Tab)} (hn : NowWF norm now) : ∀ (f : Nat) (p : Option String),
    ChainWF norm (parents norm w now f p)
  | 0, _ => fun _ h => by simp [parents] at h
  | _+1, none => fun _ h => by simp [parents] at h
  | f+1, some p => by
    simp only [parents]
    cases index norm w p with
    | none => intro _ h; simp at h
    | some a =>
      intro s hs
      rcases List.mem_cons.mp hs with rfl | hs
      · exact rootNow_wf norm hn a
      · exact parents_now_wf hn f _ s hs

theorem viewRoot_now_wf {now : Option (String × Tab)} (hn : NowWF norm now) {r : Tab} (hr : r.sc.WF norm) :
    ChainWF norm (viewRoot norm w now r).chain := by
  intro s hs
  simp only [viewRoot] at hs
  rcases List.mem_cons.mp hs with rfl | hs
  · exact hr
  · exact parents_now_wf norm w hn _ _ s hs

theorem stAt_wf (e : Entity) (t : Nat) : (stAt norm e t).WF norm := run_wf norm _ (init_wf norm)

theorem viewCur_wf (stem : String) {s : St} (hs : s.WF norm) : ChainWF norm (viewCur norm w stem s).chain := by
  have hn : NowWF norm (some (stem, s.root)) := by
    intro p hp; simp only [Option.some.injEq] at hp; subst hp; exact hs.1
  unfold viewCur
  cases hc : s.cur with
  | none => exact viewRoot_now_wf norm w hn hs.1
  | some c =>
    intro x hx
    rcases List.mem_cons.mp hx with rfl | hx
    · exact hs.2.1 c hc
    · exact viewRoot_now_wf norm w hn hs.1 x hx

theorem service_wf {ec : EC} (hs : ec.st.WF norm) {name : String} {v : View}
    (h : service norm w ec name = some v) : ChainWF norm v.chain := by
  have hn : NowWF norm ec.now := by
    intro p hp; simp only [EC.now, Option.some.injEq] at hp; subst hp; exact hs.1
  unfold service at h
  cases hi : index norm w name with
  | none => simp [hi] at h
  | some e =>
    simp only [hi, Option.map_some, Option.some.injEq] at h
    subst h
    exact viewRoot_now_wf norm w hn (rootNow_wf norm hn e)

theorem getSym_case {c : Chain} (h : ChainWF norm c) {id id' : String} (e : norm id = norm id') :
    getSymbolInfo norm c id = getSymbolInfo norm c id' := by
  rw [Gold.C18.lookup_wf norm h, Gold.C18.lookup_wf norm h, e]

/-- the class index folds its key -/
theorem index_case {n n' : String} (e : norm n = norm n') : index norm w n = index norm w n' := by
  simp only [index, e]

theorem searchSymW_case {ec : EC} (hs : ec.st.WF norm) {v : View} (hv : ChainWF norm v.chain)
    {id id' : String} (e : norm id = norm id') (b : Bool) :
    searchSymW norm w ec v id b = searchSymW norm w ec v id' b := by
  unfold searchSymW
  rw [searchW_case norm hv e]
  have : v.uses.findSome? (fun u => (service norm w ec u).bind (fun uv => searchWParent norm uv.chain id))
      = v.uses.findSome? (fun u => (service norm w ec u).bind (fun uv => searchWParent norm uv.chain id')) := by
    apply findSome?_congr'
    intro u _
    cases hsv : service norm w ec u with
    | none => rfl
    | some uv => simp only [Option.bind_some]; exact searchW_case norm (service_wf norm w hs hsv) e
  rw [this]

end Gold.Scope
