import GoldModel.Model.DocStore
/-! helper lemmas about M-DOC (finite maps, `register`, `index`, the directory walk) -/
namespace Gold.Doc

/-! ### finite maps -/

theorem lookup_append {β : Type} (k : String) (l₁ l₂ : List (String × β)) :
    lookup k (l₁ ++ l₂) = (lookup k l₁).or (lookup k l₂) := by
  induction l₁ with
  | nil => simp [lookup]
  | cons a l ih =>
    obtain ⟨k', v⟩ := a
    simp only [List.cons_append, lookup]
    by_cases h : k' = k <;> simp [h, ih]

theorem lookup_none_iff {β : Type} (k : String) (l : List (String × β)) :
    lookup k l = none ↔ k ∉ l.map (·.1) := by
  induction l with
  | nil => simp [lookup]
  | cons a l ih =>
    obtain ⟨k', v⟩ := a
    simp only [lookup, List.map_cons, List.mem_cons, not_or]
    by_cases h : k' = k
    · simp [h]
    · simp only [h, if_false, ih]
      constructor
      · intro hh; exact ⟨fun e => h e.symm, hh⟩
      · intro hh; exact hh.2

theorem lookup_update {β : Type} (k k' : String) (f : β → β) (l : List (String × β)) :
    lookup k' (update k f l) = if k = k' then (lookup k' l).map f else lookup k' l := by
  induction l with
  | nil => simp [lookup, update]
  | cons a l ih =>
    obtain ⟨k₀, v⟩ := a
    simp only [update]
    by_cases h0 : k₀ = k
    · subst h0
      simp only [if_true, lookup]
      by_cases h1 : k₀ = k' <;> simp [h1]
    · simp only [h0, if_false, lookup, ih]
      by_cases h1 : k₀ = k'
      · subst h1
        simp [Ne.symm h0]
      · simp [h1]

theorem keys_update {β : Type} (k : String) (f : β → β) (l : List (String × β)) :
    (update k f l).map (·.1) = l.map (·.1) := by
  induction l with
  | nil => rfl
  | cons a l ih =>
    obtain ⟨k₀, v⟩ := a
    simp only [update]
    by_cases h0 : k₀ = k <;> simp [h0, ih]

/-! ### `register` and `indexList`: the path map -/

def Store.keys (s : Store) : List Path := s.docs.map (·.1)

theorem byPath_register (cfg : Cfg) (norm : String → String) (s : Store) (f : Found) (p : Path) :
    (register cfg norm s f).byPath p =
      match s.byPath p with
      | some i => some i
      | none => if f.path = p then some (Info.new p) else none := by
  unfold register
  cases hf : s.byPath f.path with
  | some i0 =>
    have : (if cfg.classSkipsKnown = true then s else
        { s with classes := (norm (stem f.name), f.path) :: s.classes }).byPath p = s.byPath p := by
      by_cases hc : cfg.classSkipsKnown = true <;> simp [hc, Store.byPath]
    simp only [this]
    cases hp : s.byPath p with
    | some i => rfl
    | none =>
      by_cases e : f.path = p
      · subst e; rw [hf] at hp; cases hp
      · simp [e]
  | none =>
    simp only [Store.byPath] at hf ⊢
    rw [lookup_append]
    cases hp : lookup p s.docs with
    | some i => simp
    | none =>
      by_cases e : f.path = p
      · subst e; simp [lookup]
      · simp [lookup, e]

theorem byPath_indexList (cfg : Cfg) (norm : String → String) (fs : List Found) (s : Store) (p : Path) :
    (indexList cfg norm s fs).byPath p =
      match s.byPath p with
      | some i => some i
      | none => if fs.any (fun f => f.path == p) then some (Info.new p) else none := by
  induction fs generalizing s with
  | nil => cases h : s.byPath p <;> simp [indexList, h]
  | cons f fs ih =>
    simp only [indexList, List.foldl_cons] at ih ⊢
    rw [ih, byPath_register]
    cases hp : s.byPath p with
    | some i => rfl
    | none =>
      by_cases e : f.path = p
      · simp [e]
      · simp [e]

theorem keys_register (cfg : Cfg) (norm : String → String) (s : Store) (f : Found) :
    (register cfg norm s f).keys = if f.path ∈ s.keys then s.keys else s.keys ++ [f.path] := by
  unfold register
  cases hf : s.byPath f.path with
  | some i0 =>
    have hm : f.path ∈ s.keys := by
      apply Classical.byContradiction
      intro hn
      have := (lookup_none_iff f.path s.docs).mpr hn
      simp only [Store.byPath] at hf
      rw [hf] at this; cases this
    simp only [Store.keys] at hm ⊢
    by_cases hc : cfg.classSkipsKnown = true <;> simp [hc, hm]
  | none =>
    have hm : f.path ∉ s.keys := (lookup_none_iff f.path s.docs).mp hf
    simp only [Store.keys] at hm ⊢
    simp [hm]

theorem nodup_register (cfg : Cfg) (norm : String → String) (s : Store) (f : Found)
    (h : s.keys.Nodup) : (register cfg norm s f).keys.Nodup := by
  rw [keys_register]
  by_cases hm : f.path ∈ s.keys
  · simp [hm, h]
  · simp only [hm, if_false]
    rw [List.nodup_append]
    refine ⟨h, by simp, ?_⟩
    intro a ha b hb
    simp at hb
    subst hb
    intro e; subst e; exact hm ha

theorem nodup_indexList (cfg : Cfg) (norm : String → String) (fs : List Found) (s : Store)
    (h : s.keys.Nodup) : (indexList cfg norm s fs).keys.Nodup := by
  induction fs generalizing s with
  | nil => exact h
  | cons f fs ih =>
    simp only [indexList, List.foldl_cons] at ih ⊢
    exact ih _ (nodup_register cfg norm s f h)

theorem mem_keys_iff (s : Store) (p : Path) : p ∈ s.keys ↔ s.byPath p ≠ none := by
  have := lookup_none_iff p s.docs
  simp only [Store.keys, Store.byPath]
  constructor
  · intro hm hn; exact (this.mp hn) hm
  · intro hn; apply Classical.byContradiction; intro hm; exact hn (this.mpr hm)

/-! ### `register` and `indexList`: the class map -/

theorem byClassKey_register_keep (cfg : Cfg) (norm : String → String) (s : Store) (f : Found)
    (k : String) (hk : norm (stem f.name) ≠ k) :
    (register cfg norm s f).byClassKey k = s.byClassKey k := by
  unfold register
  cases s.byPath f.path with
  | some i0 =>
    by_cases hc : cfg.classSkipsKnown = true <;> simp [hc, Store.byClassKey, lookup, hk]
  | none => simp [Store.byClassKey, lookup, hk]

theorem byClassKey_indexList_keep (cfg : Cfg) (norm : String → String) (fs : List Found) (s : Store)
    (k : String) (hk : ∀ f ∈ fs, norm (stem f.name) ≠ k) :
    (indexList cfg norm s fs).byClassKey k = s.byClassKey k := by
  induction fs generalizing s with
  | nil => rfl
  | cons f fs ih =>
    simp only [indexList, List.foldl_cons] at ih ⊢
    rw [ih _ (fun g hg => hk g (List.mem_cons_of_mem _ hg)),
      byClassKey_register_keep _ _ _ _ _ (hk f List.mem_cons_self)]

theorem byClassKey_register (cfg : Cfg) (hc : cfg.classSkipsKnown = false) (norm : String → String)
    (s : Store) (f : Found) (k : String) :
    (register cfg norm s f).byClassKey k =
      if norm (stem f.name) = k then some f.path else s.byClassKey k := by
  unfold register
  cases s.byPath f.path with
  | some i0 => simp [hc, Store.byClassKey, lookup]
  | none => simp [Store.byClassKey, lookup]

/-- the class map after indexing: the file met last with that folded stem wins -/
theorem byClassKey_indexList (cfg : Cfg) (hc : cfg.classSkipsKnown = false) (norm : String → String)
    (fs : List Found) (s : Store) (k : String) :
    (indexList cfg norm s fs).byClassKey k =
      match fs.reverse.find? (fun f => norm (stem f.name) = k) with
      | some g => some g.path
      | none => s.byClassKey k := by
  induction fs generalizing s with
  | nil => rfl
  | cons f fs ih =>
    simp only [indexList, List.foldl_cons] at ih ⊢
    rw [ih, List.reverse_cons, List.find?_append]
    cases fs.reverse.find? (fun f => decide (norm (stem f.name) = k)) with
    | some g => rfl
    | none =>
      rw [byClassKey_register cfg hc]
      by_cases e : norm (stem f.name) = k <;> simp [e]

/-- pinned behaviour: a file whose path is already known never reaches the class map -/
theorem byClassKey_register_known (cfg : Cfg) (hc : cfg.classSkipsKnown = true) (norm : String → String)
    (s : Store) (f : Found) (i : Info) (h : s.byPath f.path = some i) :
    register cfg norm s f = s := by
  unfold register
  simp [h, hc]

/-! ### the walk reaches exactly the regular files at any depth -/

/-- `Under p es f`: `f` is a regular file in the directory `p` with entries `es`, or in one
    of its sub-directories, at any depth -/
inductive Under : Path → List Entry → Found → Prop where
  | here {p : Path} {es : List Entry} {n : String} :
      Entry.file n ∈ es → Under p es ⟨join p n, n⟩
  | deeper {p : Path} {es sub : List Entry} {n : String} {f : Found} :
      Entry.dir n sub ∈ es → Under (join p n) sub f → Under p es f

theorem mem_filesOf (p : Path) (es : List Entry) (f : Found) :
    f ∈ filesOf p es ↔ ∃ n, Entry.file n ∈ es ∧ f = ⟨join p n, n⟩ := by
  induction es with
  | nil => simp [filesOf]
  | cons e es ih =>
    cases e with
    | file n =>
      simp only [filesOf, List.mem_cons, ih]
      constructor
      · rintro (h | ⟨m, hm, rfl⟩)
        · exact ⟨n, Or.inl rfl, h⟩
        · exact ⟨m, Or.inr hm, rfl⟩
      · rintro ⟨m, (hm | hm), rfl⟩
        · cases hm; exact Or.inl rfl
        · exact Or.inr ⟨m, hm, rfl⟩
    | other n =>
      simp only [filesOf, List.mem_cons, ih]
      constructor
      · rintro ⟨m, hm, rfl⟩; exact ⟨m, Or.inr hm, rfl⟩
      · rintro ⟨m, (hm | hm), rfl⟩
        · cases hm
        · exact ⟨m, hm, rfl⟩
    | dir n sub =>
      simp only [filesOf, List.mem_cons, ih]
      constructor
      · rintro ⟨m, hm, rfl⟩; exact ⟨m, Or.inr hm, rfl⟩
      · rintro ⟨m, (hm | hm), rfl⟩
        · cases hm
        · exact ⟨m, hm, rfl⟩

mutual
theorem below_sound (p : Path) (e : Entry) (f : Found) (h : f ∈ below p e) :
    ∃ n sub, e = .dir n sub ∧ Under (join p n) sub f := by
  match e with
  | .file _ => simp [below] at h
  | .other _ => simp [below] at h
  | .dir n sub =>
    simp only [below, List.mem_append] at h
    refine ⟨n, sub, rfl, ?_⟩
    cases h with
    | inl h =>
      obtain ⟨m, hm, rfl⟩ := (mem_filesOf _ _ _).mp h
      exact Under.here hm
    | inr h =>
      obtain ⟨m, sub', hm, hu⟩ := belowAll_sound _ _ _ h
      exact Under.deeper hm hu
theorem belowAll_sound (p : Path) (es : List Entry) (f : Found) (h : f ∈ belowAll p es) :
    ∃ n sub, Entry.dir n sub ∈ es ∧ Under (join p n) sub f := by
  match es with
  | [] => simp [belowAll] at h
  | e :: es =>
    simp only [belowAll, List.mem_append] at h
    cases h with
    | inl h =>
      obtain ⟨n, sub, hm, hu⟩ := belowAll_sound p es f h
      exact ⟨n, sub, List.mem_cons_of_mem _ hm, hu⟩
    | inr h =>
      obtain ⟨n, sub, rfl, hu⟩ := below_sound p e f h
      exact ⟨n, sub, List.mem_cons_self, hu⟩
end

theorem walk_sound (p : Path) (es : List Entry) (f : Found) (h : f ∈ walk p es) : Under p es f := by
  simp only [walk, List.mem_append] at h
  cases h with
  | inl h =>
    obtain ⟨m, hm, rfl⟩ := (mem_filesOf _ _ _).mp h
    exact Under.here hm
  | inr h =>
    obtain ⟨m, sub, hm, hu⟩ := belowAll_sound _ _ _ h
    exact Under.deeper hm hu

theorem belowAll_of_mem (p : Path) (es : List Entry) (e : Entry) (f : Found)
    (he : e ∈ es) (h : f ∈ below p e) : f ∈ belowAll p es := by
  induction es with
  | nil => cases he
  | cons e' es ih =>
    simp only [belowAll, List.mem_append]
    cases he with
    | head => exact Or.inr h
    | tail _ he => exact Or.inl (ih he)

theorem walk_complete (p : Path) (es : List Entry) (f : Found) (h : Under p es f) : f ∈ walk p es := by
  induction h with
  | here hm =>
    simp only [walk, List.mem_append]
    exact Or.inl ((mem_filesOf _ _ _).mpr ⟨_, hm, rfl⟩)
  | deeper hm _ ih =>
    simp only [walk, List.mem_append]
    refine Or.inr (belowAll_of_mem _ _ _ _ hm ?_)
    simp only [below]
    simpa [walk] using ih

/-! ### re-indexing known files; outline answers -/

theorem docs_indexList_known (norm : String → String) (cfg : Cfg) (fs : List Found) (s : Store)
    (h : ∀ f ∈ fs, (s.byPath f.path).isSome = true) : (indexList cfg norm s fs).docs = s.docs := by
  induction fs generalizing s with
  | nil => rfl
  | cons f fs ih =>
    simp only [indexList, List.foldl_cons] at ih ⊢
    have hf := h f List.mem_cons_self
    have hd : (register cfg norm s f).docs = s.docs := by
      unfold register
      cases hq : s.byPath f.path with
      | some i => by_cases hc : cfg.classSkipsKnown = true <;> simp [hc]
      | none => rw [hq] at hf; cases hf
    rw [ih, hd]
    intro g hg
    have := h g (List.mem_cons_of_mem _ hg)
    simp only [Store.byPath, hd] at this ⊢
    exact this

/-- the answer to an outline request depends on the store only through the document's own
    record; hence a save of another document (which re-indexes) does not change it -/
theorem symbols_answer_congr (cfg : Cfg) (fs : FS) (s₁ s₂ : Store) (p : Path)
    (h : s₁.byPath p = s₂.byPath p) :
    (docSymbols cfg fs s₁ (.file p)).bind (fun r => .ok r.2)
      = (docSymbols cfg fs s₂ (.file p)).bind (fun r => .ok r.2) := by
  simp only [docSymbols, getParsed, getInfo, keyFor, Res.bind]
  cases hfp : fs p with
  | none => by_cases hk : cfg.keyPanics = true <;> simp [hk]
  | some nd =>
    simp only [← h]
    cases s₁.byPath p with
    | none =>
      simp only [Info.new, parseDisk, hfp]
      cases nd <;> simp
    | some i =>
      simp only
      cases i.opened with
      | some d => rfl
      | none =>
        cases i.saved with
        | some d => rfl
        | none =>
          simp only [parseDisk]
          cases fs i.filePath with
          | none => rfl
          | some nd' => cases nd' <;> rfl

end Gold.Doc
