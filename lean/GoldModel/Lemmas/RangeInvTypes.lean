import GoldModel.Lemmas.RangeInvGold
/-!
T5, the Gold grammar, part 2: types and declarations (`parser/mod.rs`).
-/
namespace Gold.C08
open Gold Gold.Peg Gold.Gram

variable {Z : Pos} {F : Nat}

theorem PLeaf.facts {lo hi : Pos} {v : Tree} (h : PLeaf Z lo hi v) :
    lo.le v.rng.s = true ∧ v.rng.s.le hi = true ∧ v.rng.s.le v.rng.e = true ∧ v.rng.e.line ≤ Z.line ∧ NodeOK Z v ∧ v.isNone = false := h.item.facts
theorem PReal.facts {lo hi : Pos} {v : Tree} (h : PReal Z lo hi v) :
    lo.le v.rng.s = true ∧ v.rng.s.le hi = true ∧ v.rng.s.le v.rng.e = true ∧ v.rng.e.line ≤ Z.line ∧ NodeOK Z v ∧ v.isNone = false := h.1.facts
theorem PLeaf.le {lo hi : Pos} {v : Tree} (h : PLeaf Z lo hi v) : lo.le hi = true := h.item.le
theorem PReal.le {lo hi : Pos} {v : Tree} (h : PReal Z lo hi v) : lo.le hi = true := h.1.le

theorem POpt.le {Q : Post} (hQ : Good Z Q) {lo hi : Pos} {v : Tree} (h : POpt Q lo hi v) : lo.le hi = true := by
  rcases h with ⟨_, h⟩ | h
  · exact h
  · exact (hQ.item h).le

theorem Der.any {g : G} {Q : Post} (hQ : Good Z Q) (h : Der Γ Δ Z F g Q) : Der Γ Δ Z F g PAny :=
  h.weaken (fun _ _ _ h => (hQ.item h).le)

theorem Der.anyOpt {g : G} {Q : Post} (hQ : Good Z Q) (h : Der Γ Δ Z F g Q) : Der Γ Δ Z F (.opt g) PAny :=
  (Der.opt h).weaken (fun _ _ _ h => POpt.le hQ h)

theorem PSeqL.le_all : ∀ {Qs : List Post} {l : List Tree} {lo hi : Pos},
    (∀ Q ∈ Qs, ∀ lo hi v, Q lo hi v → lo.le hi = true) → PSeqL Qs lo hi l → lo.le hi = true
  | [], _, _, _, _, h => h.2
  | Q :: Qs, _, _, _, hq, ⟨_, _, _, _, hx, hxs⟩ =>
    Pos.le_trans (hq Q List.mem_cons_self _ _ _ hx) (PSeqL.le_all (fun Q' h' => hq Q' (List.mem_cons_of_mem _ h')) hxs)

theorem PListL.getLast {Q : Post} (hQ : Good Z Q) : ∀ {l : List Tree} {lo hi : Pos} {x : Tree}, PListL Q lo hi l →
    l.getLast? = some x → Q lo hi x
  | [], _, _, _, _, h => by cases h
  | [y], _, _, _, ⟨m, h1, h2⟩, h => by
    simp only [List.getLast?_singleton, Option.some.injEq] at h
    subst h
    exact hQ.mono h1 (Pos.le_refl _) h2
  | y :: z :: rest, _, _, _, ⟨m, h1, h2⟩, h => by
    rw [List.getLast?_cons_cons] at h
    exact hQ.mono (PListL.getLast hQ h2 h) (hQ.item h1).le (Pos.le_refl _)

theorem PListL.head {Q : Post} (hQ : Good Z Q) {l : List Tree} {lo hi : Pos} {x : Tree} (h : PListL Q lo hi (x :: l)) :
    Q lo hi x := by
  obtain ⟨m, h1, h2⟩ := h
  exact hQ.mono h1 (Pos.le_refl _) (PListL.le hQ h2)

/-- `lastD l d`: the last item of a list of items, or the item `d` that precedes the list -/
theorem lastD_item {Q : Post} (hQ : Good Z Q) {l : List Tree} {lo0 lo hi : Pos} {d : Tree} (hl : PListL Q lo hi l)
    (hd : PItem Z lo0 lo d) : PItem Z lo0 hi (lastD l d) ∧ d.rng.s.le (lastD l d).rng.s = true := by
  unfold lastD
  cases hg : l.getLast? with
  | none => exact ⟨good_item.mono hd (Pos.le_refl _) (PListL.le hQ hl), Pos.le_refl _⟩
  | some x =>
    have hx := hQ.item (PListL.getLast hQ hl hg)
    simp only [Option.getD_some]
    exact ⟨good_item.mono hx hd.le (Pos.le_refl _), Pos.le_trans hd.2.1 hx.1⟩

section
variable (hc : Ctx Γ Δ Z (QΓ Z) (QΔ Z) F)
include hc

theorem d_optAnn : Der Γ Δ Z F optAnn PAny :=
  (Der.opt (hc.1 nAnnotations)).weaken (fun _ _ _ h => by
    rcases h with ⟨_, h⟩ | ⟨_, h⟩ <;> exact h)

theorem r_identList : Der Γ Δ Z F (.ref nIdentList) (PList (PLeaf Z)) := hc.1 nIdentList
theorem r_paramList : Der Γ Δ Z F (.ref nParamList) (POpt (PReal Z)) := hc.1 nParamList

omit hc in
theorem d_gTypeSized : Der Γ Δ Z F gTypeSized (PReal Z) := by
  unfold gTypeSized
  refine Der.map (Q := PSeqN [PLeaf Z, PLeaf Z, PLeaf Z, PLeaf Z]) (by der_seq <;> exact Der.tok _) ?_
  rintro lo hi v ⟨_, rfl, v0, _, m1, rfl, h0, v1, _, m2, rfl, h1, v2, _, m3, rfl, h2, v3, _, m4, rfl, h3, rfl, hend⟩
  shape_simp
  have f0 := h0.facts; have f1 := h1.facts; have f2 := h2.facts; have f3 := h3.facts
  exact span_real (by decide) (by decide) h0.item (by pos_chain) h3.ok (by pos_chain) NodeOKL.nil

theorem d_gEnumVariant : Der Γ Δ Z F gEnumVariant (PReal Z) := by
  unfold gEnumVariant
  refine Der.map (Q := PSeqN [PAny, PLeaf Z, PAny]) ?_ ?_
  · der_seq
    · exact d_optAnn hc
    · exact Der.tok _
    · refine (Der.opt (Q := PSeqN [PLeaf Z, PLeaf Z]) (by der_seq <;> exact Der.tok _)).weaken ?_
      rintro lo hi v (⟨_, h⟩ | ⟨_, _, h⟩)
      · exact h
      · exact PSeqL.le_all (by intro Q hQ; simp at hQ; subst hQ; exact fun _ _ _ h => h.le) h
  · rintro lo hi v ⟨_, rfl, v0, _, m1, rfl, h0, v1, _, m2, rfl, h1, v2, _, m3, rfl, h2, rfl, hend⟩
    shape_simp
    have e0 : lo.le m1 = true := h0
    have e2 : m2.le m3 = true := h2
    exact wrap_real (by decide) (by decide) (good_item.mono h1.item e0 (by pos_chain)) NodeOKL.nil

theorem d_gTypeEnum : Der Γ Δ Z F gTypeEnum (PReal Z) := by
  unfold gTypeEnum
  refine Der.map (Q := PSeqN [PLeaf Z, PList (PReal Z), PLeaf Z]) ?_ ?_
  · der_seq
    · exact Der.tok _
    · exact Der.sepListCtx (d_gEnumVariant hc) (hc.1 nEnumRec)
    · exact Der.tok _
  · rintro lo hi v ⟨_, rfl, v0, _, m1, rfl, h0, v1, _, m2, rfl, ⟨l, rfl, hl⟩, v2, _, m3, rfl, h2, rfl, hend⟩
    shape_simp
    have f0 := h0.facts; have f2 := h2.facts; have := PListL.le good_real hl
    exact span_real (by decide) (by decide) h0.item (by pos_chain) h2.ok (by pos_chain) (hl.nodeOK good_real)

theorem d_gComposedOperand : Der Γ Δ Z F gComposedOperand (PReal Z) := Der.alt (r_typeBasic hc) (d_gTypeEnum hc)

theorem d_gTypeComposed : Der Γ Δ Z F gTypeComposed (PReal Z) := Der.binOps (d_gComposedOperand hc) (hc.1 nComposedTail)

theorem d_composedTail : Der Γ Δ Z F (binTail (.tok Kind.Plus) gComposedOperand nComposedTail) (PTail Z) :=
  Der.binTail' (Der.tok _) (d_gComposedOperand hc) (hc.1 nComposedTail)

theorem d_gTypeReference : Der Γ Δ Z F gTypeReference (PReal Z) := by
  unfold gTypeReference
  refine Der.map (Q := PSeqN [PLeaf Z, PAny, PLeaf Z, PSeqN [PAny, POpt (PLeaf Z)]]) ?_ ?_
  · der_seq
    · exact Der.toks _
    · refine (Der.recover (Q := PAny) ?_).weaken ?_
      · unfold gRefOptions
        refine (show Der Γ Δ Z F _ (PSeqN [PLeaf Z, PList (PLeaf Z), PLeaf Z]) from by
          der_seq
          · exact Der.tok _
          · exact r_identList hc
          · exact Der.tok _).weaken ?_
        rintro lo hi v ⟨_, rfl, v0, _, m1, rfl, h0, v1, _, m2, rfl, ⟨l, rfl, hl⟩, v2, _, m3, rfl, h2, rfl, hend⟩
        have := PListL.le good_leaf hl
        have e0 := h0.le; have e2 := h2.le
        show lo.le hi = true
        pos_chain
      · rintro lo hi v (⟨_, h⟩ | h) <;> exact h
    · exact Der.tok _
    · exact (Der.dep (Der.anyOpt good_leaf (Der.tok _)) (Der.tok _))
  · rintro lo hi v ⟨_, rfl, v0, _, m1, rfl, h0, v1, _, m2, rfl, h1, v2, _, m3, rfl, h2, v3, _, m4, rfl, ⟨_, rfl, w0, _, n1, rfl, h3, w1, _, n2, rfl, h4, rfl, hend2⟩, rfl, hend⟩
    shape_simp
    have f0 := h0.facts; have f2 := h2.facts
    have e1 : m1.le m2 = true := h1
    have e3 : m3.le n1 = true := h3
    rcases h4 with ⟨rfl, e4⟩ | h4
    · shape_simp
      exact span_real (by decide) (by decide) h0.item (by pos_chain) h2.ok (by pos_chain) NodeOKL.nil
    · have f4 := h4.facts
      shape_simp [f4.2.2.2.2.2]
      exact span_real (by decide) (by decide) h0.item (by pos_chain) h4.ok (by pos_chain) NodeOKL.nil

theorem d_gTypeRange : Der Γ Δ Z F gTypeRange (PReal Z) := by
  unfold gTypeRange
  refine Der.map (Q := PSeqN [PReal Z, PLeaf Z, PReal Z]) ?_ ?_
  · der_seq
    · exact r_literalBasic hc
    · exact Der.tok _
    · exact r_literalBasic hc
  · rintro lo hi v ⟨_, rfl, v0, _, m1, rfl, h0, v1, _, m2, rfl, h1, v2, _, m3, rfl, h2, rfl, hend⟩
    shape_simp
    have f0 := h0.facts; have f1 := h1.facts; have f2 := h2.facts
    exact span_real (by decide) (by decide) h0.1 (by pos_chain) h2.ok (by pos_chain) (NodeOKL.two h0.ok h2.ok)

theorem d_gTypeSet : Der Γ Δ Z F gTypeSet (PReal Z) := by
  unfold gTypeSet
  refine Der.map (Q := PSeqN [PLeaf Z, PReal Z, PLeaf Z]) ?_ ?_
  · der_seq
    · exact Der.tok _
    · exact r_typeBasic hc
    · exact Der.tok _
  · rintro lo hi v ⟨_, rfl, v0, _, m1, rfl, h0, v1, _, m2, rfl, h1, v2, _, m3, rfl, h2, rfl, hend⟩
    shape_simp
    have f0 := h0.facts; have f1 := h1.facts; have f2 := h2.facts
    exact span_real (by decide) (by decide) h0.item (by pos_chain) h2.ok (by pos_chain) (NodeOKL.one h1.ok)

theorem d_gRecordField : Der Γ Δ Z F gRecordField (PReal Z) := by
  unfold gRecordField
  refine Der.map (Q := PSeqN [PAny, PLeaf Z, PLeaf Z, PReal Z]) ?_ ?_
  · der_seq
    · exact d_optAnn hc
    · exact Der.tok _
    · exact Der.tok _
    · exact r_type hc
  · rintro lo hi v ⟨_, rfl, v0, _, m1, rfl, h0, v1, _, m2, rfl, h1, v2, _, m3, rfl, h2, v3, _, m4, rfl, h3, rfl, hend⟩
    shape_simp
    have e0 : lo.le m1 = true := h0
    have f1 := h1.facts; have f2 := h2.facts; have f3 := h3.facts
    exact span_real (by decide) (by decide) (good_item.mono h1.item e0 (Pos.le_refl _)) (by pos_chain) h3.ok (by pos_chain)
      (NodeOKL.one h3.ok)

theorem d_gTypePointer : Der Γ Δ Z F gTypePointer (PReal Z) := by
  unfold gTypePointer
  refine Der.map (Q := PSeqN [PLeaf Z, PReal Z]) ?_ ?_
  · der_seq
    · exact Der.tok _
    · exact r_typeBasic hc
  · rintro lo hi v ⟨_, rfl, v0, _, m1, rfl, h0, v1, _, m2, rfl, h1, rfl, hend⟩
    shape_simp
    have f0 := h0.facts; have f1 := h1.facts
    exact span_real (by decide) (by decide) h0.item (by pos_chain) h1.ok (by pos_chain) (NodeOKL.one h1.ok)

theorem d_gArrayIndex : Der Γ Δ Z F gArrayIndex (PReal Z) := by
  unfold gArrayIndex
  refine Der.map (Q := PSeqN [PLeaf Z, PReal Z, PLeaf Z]) ?_ ?_
  · der_seq
    · exact Der.tok _
    · exact Der.alt (r_typeBasic hc) (d_gTypeRange hc)
    · exact Der.tok _
  · rintro lo hi v ⟨_, rfl, v0, _, m1, rfl, h0, v1, _, m2, rfl, h1, v2, _, m3, rfl, h2, rfl, hend⟩
    shape_simp
    have e0 := h0.le; have e2 := h2.le
    exact good_real.mono h1 e0 (by pos_chain)

theorem d_gTypeArray : Der Γ Δ Z F gTypeArray (PReal Z) := by
  unfold gTypeArray
  refine Der.map (Q := PSeqN [PLeaf Z, PReal Z, POpt (PReal Z), PLeaf Z, PReal Z]) ?_ ?_
  · der_seq
    · exact Der.toks _
    · exact d_gArrayIndex hc
    · exact Der.opt (d_gArrayIndex hc)
    · exact Der.tok _
    · exact r_typeBasic hc
  · rintro lo hi v ⟨_, rfl, v0, _, m1, rfl, h0, v1, _, m2, rfl, h1, v2, _, m3, rfl, h2, v3, _, m4, rfl, h3, v4, _, m5, rfl, h4, rfl, hend⟩
    shape_simp
    have f0 := h0.facts; have f1 := h1.facts; have e2 := POpt.le good_real h2; have f3 := h3.facts; have f4 := h4.facts
    exact span_real (by decide) (by decide) h0.item (by pos_chain) h4.ok (by pos_chain)
      (NodeOKL.cons h1.ok (NodeOKL.append (NodeOKL.optList good_real h2) (NodeOKL.one h4.ok)))

theorem d_gTypeProcedure : Der Γ Δ Z F gTypeProcedure (PReal Z) := by
  unfold gTypeProcedure
  refine Der.map (Q := PSeqN [PLeaf Z, POpt (PReal Z)]) ?_ ?_
  · der_seq
    · exact Der.tok _
    · exact Der.prepend (r_paramList hc)
  · rintro lo hi v ⟨_, rfl, v0, _, m1, rfl, h0, v1, _, m2, rfl, h1, rfl, hend⟩
    shape_simp
    have f0 := h0.facts
    have hk := NodeOKL.optList good_real h1
    rcases h1 with ⟨rfl, e1⟩ | h1
    · shape_simp
      exact span_real (by decide) (by decide) h0.item (by pos_chain) h0.ok (Pos.le_refl _) NodeOKL.nil
    · have f1 := h1.facts
      shape_simp [f1.2.2.2.2.2]
      exact span_real (by decide) (by decide) h0.item (by pos_chain) h1.ok (by pos_chain) (NodeOKL.one h1.ok)

theorem d_gTypeFunction : Der Γ Δ Z F gTypeFunction (PReal Z) := by
  unfold gTypeFunction
  refine Der.map (Q := PSeqN [PLeaf Z, POpt (PReal Z), PLeaf Z, PReal Z]) ?_ ?_
  · der_seq
    · exact Der.tok _
    · exact r_paramList hc
    · exact Der.tok _
    · exact r_typeBasic hc
  · rintro lo hi v ⟨_, rfl, v0, _, m1, rfl, h0, v1, _, m2, rfl, h1, v2, _, m3, rfl, h2, v3, _, m4, rfl, h3, rfl, hend⟩
    shape_simp
    have f0 := h0.facts; have e1 := POpt.le good_real h1; have f2 := h2.facts; have f3 := h3.facts
    exact span_real (by decide) (by decide) h0.item (by pos_chain) h3.ok (by pos_chain)
      (NodeOKL.append (NodeOKL.optList good_real h1) (NodeOKL.one h3.ok))

theorem d_gTypeInstanceOf : Der Γ Δ Z F gTypeInstanceOf (PReal Z) := by
  unfold gTypeInstanceOf
  refine Der.map (Q := PSeqN [PLeaf Z, PReal Z]) ?_ ?_
  · der_seq
    · exact Der.tok _
    · exact r_typeBasic hc
  · rintro lo hi v ⟨_, rfl, v0, _, m1, rfl, h0, v1, _, m2, rfl, h1, rfl, hend⟩
    shape_simp
    have f0 := h0.facts; have f1 := h1.facts
    exact span_real (by decide) (by decide) h0.item (by pos_chain) h1.ok (by pos_chain) (NodeOKL.one h1.ok)

end

end Gold.C08
