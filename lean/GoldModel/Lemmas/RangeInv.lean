import GoldModel.Props.C08
import GoldModel.Model.Grammar
/-!
T5, generic part: a program logic for the PEG interpreter `runP` that tracks WHERE the ranges of
a parser's value lie.

Tokens are taken as the lexer produces them (`Lexed Z ts`: every token non-empty, each ends before
the next begins, the last ends no later than the end of the document `Z`).  `st Z ts` is the position
at which the input `ts` starts (`Z` for the empty input).  A *postcondition* `Q lo hi v` describes the
value `v` of a parser that ran from position `lo` to position `hi`; `Sat f g Q` says that with fuel `f`
the parser `g`, on every lexed input, produces only well-formed diagnostics and, when it succeeds,
a value satisfying `Q (st ts) (st rest)`.  There is one rule per primitive of `G`; nonterminals and
memoised parsers are looked up in tables of postconditions (`sound`: induction on the fuel).
The per-grammar obligation (one derivation per nonterminal) is discharged in `RangeInvGold`.
-/
namespace Gold.C08
open Gold Gold.Peg

/-! ## positions -/

def Pos.lt (a b : Pos) : Bool := a.line < b.line || (a.line == b.line && a.col < b.col)

/-- unfold every position fact to linear arithmetic over lines and columns and let `omega` decide -/
theorem rng_leaf (t : Tok) : (Tree.leaf t).rng = t.rng := rfl
theorem rng_node (k i : String) (r s : Range) (a : List String) (kids : List Tree) : (Tree.node k i r s a kids).rng = r := rfl

theorem Pos.le_iff (a b : Pos) : a.le b = true ↔ (a.line < b.line ∨ (a.line = b.line ∧ a.col ≤ b.col)) := by
  simp [Pos.le]

theorem Pos.lt_iff (a b : Pos) : Pos.lt a b = true ↔ (a.line < b.line ∨ (a.line = b.line ∧ a.col < b.col)) := by
  simp [Pos.lt]

macro "pos_arith" : tactic =>
  `(tactic| ((try simp only [Range.ok, Range.within, Range.span, Range.zero, rng_leaf, rng_node, Bool.and_eq_true] at *) <;>
      (try simp only [Pos.le_iff, Pos.lt_iff, Nat.max_def, true_and, and_true, Nat.lt_irrefl, false_or, or_false] at *) <;> omega))

theorem Pos.lt_le {a b : Pos} (h : Pos.lt a b = true) : a.le b = true := by pos_arith

theorem Pos.le_line {a b : Pos} (h : a.le b = true) : a.line ≤ b.line := by pos_arith

/-- the position at which the input starts (`Z` = end of the document, for the empty input) -/
def st (Z : Pos) : List Tok → Pos
  | [] => Z
  | t :: _ => t.rng.s

/-- token kinds that must not be empty: the member-access operators (`parse_dot_ops` synthesises the range
    `start+1 … start+2` for the missing right operand of a dangling operator).  The lexer DOES produce empty
    ranges for other kinds — a token's range covers its VALUE: `''` and a comment `;` at the end of a line are empty. -/
def strictKinds : List Kind := Gen.opsOf "parse_dot_ops"

/-- a token's own range: `start ≤ end`, strictly for the member-access operators -/
def TokOK (t : Tok) : Prop := t.rng.s.le t.rng.e = true ∧ (strictKinds.contains t.kind = true → Pos.lt t.rng.s t.rng.e = true)

/-- token kinds whose range may END too far to the right: the pinned lexer ended a token at `start + value.len()`,
    the length in BYTES, so a string literal or a comment holding multi-byte characters reached over the tokens
    that follow it on the line (`'漢漢'.x`: the literal was `0:0-0:6`, the `.` starts at `0:4`).  The repaired lexer
    counts characters and needs no exception (`Props/C08Text.lean`, `lex_tight`); the exception only weakens the
    hypothesis of the range theorems -/
def looseKinds : List Kind := [Kind.StringLiteral, Kind.Comment]

/-- where a token ends relative to the position `hi` of what follows: it STARTS no later, and unless its kind is
    loose it also ends no later -/
def Ends (t : Tok) (hi : Pos) : Prop :=
  t.rng.s.le hi = true ∧ (looseKinds.contains t.kind = false → t.rng.e.le hi = true)

theorem Ends.mono {t : Tok} {hi hi' : Pos} (h : Ends t hi) (h' : hi.le hi' = true) : Ends t hi' :=
  ⟨Pos.le_trans h.1 h', fun hk => Pos.le_trans (h.2 hk) h'⟩

/-- tokens as the lexer produces them: each well-formed (`TokOK`), on a line of the document, starting no later
    than the next one (and, loose kinds apart, ending no later than the next one begins) -/
def Lexed (Z : Pos) : List Tok → Prop
  | [] => True
  | t :: rest => TokOK t ∧ t.rng.e.line ≤ Z.line ∧ Ends t (st Z rest) ∧ Lexed Z rest

theorem Lexed.st_le {Z : Pos} : ∀ {ts : List Tok}, Lexed Z ts → (st Z ts).le Z = true
  | [], _ => Pos.le_refl Z
  | t :: rest, h => Pos.le_trans h.2.2.1.1 (Lexed.st_le h.2.2.2)

theorem Lexed.suffix {Z : Pos} {ts r : List Tok} (h : Lexed Z ts) (hs : r <:+ ts) :
    Lexed Z r ∧ (st Z ts).le (st Z r) = true := by
  induction ts with
  | nil => simp at hs; subst hs; exact ⟨h, Pos.le_refl _⟩
  | cons x xs ih =>
    rcases List.suffix_cons_iff.mp hs with rfl | h2
    · exact ⟨h, Pos.le_refl _⟩
    · obtain ⟨i1, i2⟩ := ih h.2.2.2 h2
      exact ⟨i1, Pos.le_trans h.2.2.1.1 i2⟩

/-- a token of a lexed list, with what precedes and follows it -/
theorem Lexed.split {Z : Pos} {pre : List Tok} {t : Tok} {r : List Tok} (h : Lexed Z (pre ++ t :: r)) :
    (st Z (pre ++ t :: r)).le t.rng.s = true ∧ TokOK t ∧ Ends t (st Z r) ∧ t.rng.e.line ≤ Z.line := by
  have hs : (t :: r) <:+ (pre ++ t :: r) := List.suffix_append _ _
  obtain ⟨h1, h2⟩ := h.suffix hs
  exact ⟨h2, h1.1, h1.2.2.1, h1.2.1⟩

theorem Lexed.mem {Z : Pos} {ts : List Tok} {t : Tok} (h : Lexed Z ts) (ht : t ∈ ts) :
    (st Z ts).le t.rng.s = true ∧ TokOK t ∧ t.rng.e.line ≤ Z.line := by
  obtain ⟨pre, r, rfl⟩ := List.append_of_mem ht
  obtain ⟨h1, h2, _, h4⟩ := h.split
  exact ⟨h1, h2, h4⟩

theorem Lexed.append_left {Z : Pos} {a b : List Tok} (h : Lexed Z (a ++ b)) : Lexed Z a := by
  induction a with
  | nil => trivial
  | cons x xs ih =>
    refine ⟨h.1, h.2.1, ?_, ih h.2.2.2⟩
    cases xs with
    | nil => exact Ends.mono h.2.2.1 (Lexed.st_le (Z := Z) (ts := b) h.2.2.2)
    | cons y ys => exact h.2.2.1

/-! ## values -/

/-- kinds of the groups of the concrete-syntax values; everything else is an AST node -/
def groupKinds : List String := ["#none", "#seq", "#list", "#caught", "#noend", "#slice"]

/-- what the checkers of C08 demand of a node that ends up in the tree -/
def NodeOK (Z : Pos) (v : Tree) : Prop := v.rangesOK = true ∧ v.maxLine ≤ Z.line

def NodeOKL (Z : Pos) (l : List Tree) : Prop := Tree.rangesOKList l = true ∧ Tree.maxLine.maxLineList l ≤ Z.line

abbrev Post := Pos → Pos → Tree → Prop

/-- a leaf or an AST node: its range starts inside `[lo, hi]` and it passes the checkers -/
def PItem (Z : Pos) : Post := fun lo hi v =>
  lo.le v.rng.s = true ∧ v.rng.s.le hi = true ∧ NodeOK Z v ∧ groupKinds.contains v.kind = false

/-- an AST node -/
def PReal (Z : Pos) : Post := fun lo hi v => PItem Z lo hi v ∧ v.tok? = none

/-- a token: it starts inside `[lo, hi]` (and ends there, unless its kind is loose) -/
def PLeaf (Z : Pos) : Post := fun lo hi v =>
  ∃ t, v = .leaf t ∧ lo.le t.rng.s = true ∧ TokOK t ∧ Ends t hi ∧ t.rng.e.line ≤ Z.line

def PNone : Post := fun lo hi v => v = Tree.none ∧ lo.le hi = true

def POpt (Q : Post) : Post := fun lo hi v => PNone lo hi v ∨ Q lo hi v

def POr (Q1 Q2 : Post) : Post := fun lo hi v => Q1 lo hi v ∨ Q2 lo hi v

/-- nothing is known (or needed) but that the parser did not move backwards -/
def PAny : Post := fun lo hi _ => lo.le hi = true

/-- a group of consecutive components -/
def PSeqL : List Post → Pos → Pos → List Tree → Prop
  | [], lo, hi, l => l = [] ∧ lo.le hi = true
  | Q :: Qs, lo, hi, l => ∃ v rest mid, l = v :: rest ∧ Q lo mid v ∧ PSeqL Qs mid hi rest

def PSeqN (Qs : List Post) : Post := fun lo hi v => ∃ l, v = Tree.seq l ∧ PSeqL Qs lo hi l

/-- a `#list` of consecutive items all satisfying `Q` -/
def PListL (Q : Post) : Pos → Pos → List Tree → Prop
  | lo, hi, [] => lo.le hi = true
  | lo, hi, v :: rest => ∃ mid, Q lo mid v ∧ PListL Q mid hi rest

def PList (Q : Post) : Post := fun lo hi v => ∃ l, v = Tree.list l ∧ PListL Q lo hi l

/-- the value `catchErr` substitutes for a failed parser: the range of the token at the error
    position, which lies at or after the current position -/
def PCaught (Z : Pos) : Post := fun lo hi v =>
  ∃ r a, v = .node "#caught" "" r Range.zero a [] ∧ lo.le hi = true ∧
    (a = ["tok"] → lo.le r.s = true ∧ r.ok = true ∧ r.e.line ≤ Z.line)

/-- the `#slice` node of `reslice`: only its well-formedness is known -/
def PSlice (Z : Pos) (v : Tree) : Prop :=
  ∃ r, v = .node "#slice" "" r Range.zero [] [] ∧ r.ok = true ∧ r.e.line ≤ Z.line

/-- value of `reslice`: `#seq [inner | #none, end token | #none, #slice]` -/
def PReslice (Z : Pos) (Q : Post) : Post := fun lo hi v =>
  ∃ vi ev sl, v = Tree.seq [vi, ev, sl] ∧ lo.le hi = true ∧ (vi = Tree.none ∨ ∃ hi', Q lo hi' vi) ∧
    (ev = Tree.none ∨ PLeaf Z lo hi ev) ∧ PSlice Z sl

theorem kind_name_notGroup (k : Kind) : groupKinds.contains k.name = false := by
  cases k <;> decide

theorem PLeaf.item {Z lo hi : Pos} {v : Tree} (h : PLeaf Z lo hi v) : PItem Z lo hi v := by
  obtain ⟨t, rfl, h1, h2, h3, h4⟩ := h
  exact ⟨h1, h3.1, ⟨h2.1, h4⟩, kind_name_notGroup _⟩

theorem isNone_of_notGroup {v : Tree} (h : groupKinds.contains v.kind = false) : v.isNone = false := by
  cases v with
  | leaf t => rfl
  | node k i r s a kids =>
    simp only [Tree.kind] at h
    unfold Tree.isNone
    split
    · next heq => cases heq; revert h; decide
    · rfl

theorem PItem.isNone {Z lo hi : Pos} {v : Tree} (h : PItem Z lo hi v) : v.isNone = false := isNone_of_notGroup h.2.2.2

theorem NodeOK.rng {Z : Pos} {v : Tree} (h : NodeOK Z v) : v.rng.ok = true ∧ v.rng.e.line ≤ Z.line := by
  cases v with
  | leaf t => exact ⟨h.1, h.2⟩
  | node k i r s a kids =>
    obtain ⟨h1, h2⟩ := h
    simp only [Tree.rangesOK, Bool.and_eq_true] at h1
    simp only [Tree.maxLine] at h2
    exact ⟨h1.1.1, Nat.le_trans (Nat.le_max_left _ _) h2⟩

/-! ## diagnostics -/

def DOK (Z : Pos) (d : List Diag) : Prop := ∀ x ∈ d, x.rng.ok = true ∧ x.rng.e.line ≤ Z.line

theorem DOK.nil {Z : Pos} : DOK Z [] := fun _ h => by cases h

theorem DOK.append {Z : Pos} {a b : List Diag} (ha : DOK Z a) (hb : DOK Z b) : DOK Z (a ++ b) := by
  intro x hx
  rcases List.mem_append.mp hx with h | h
  · exact ha x h
  · exact hb x h

/-! ## satisfaction -/

section
variable (Γ Δ : Nat → G) (Z : Pos)

def Sat (f : Nat) (g : G) (Q : Post) : Prop :=
  ∀ ts, Lexed Z ts → DOK Z (runP Γ Δ f g ts).2 ∧ ∀ r v, (runP Γ Δ f g ts).1 = .ok r v → Q (st Z ts) (st Z r) v

/-- `g` satisfies `Q` with every fuel up to `F` -/
def Der (F : Nat) (g : G) (Q : Post) : Prop := ∀ f, f ≤ F → Sat Γ Δ Z f g Q

variable {Γ Δ Z}

theorem Sat.zero (g : G) (Q : Post) : Sat Γ Δ Z 0 g Q := by
  intro ts _
  simp only [runP]
  exact ⟨DOK.nil, fun r v h => by cases h⟩

/-- the shape every rule has: settle fuel `0`, then reason about one unfolding of `runP` -/
theorem Der.step {F : Nat} {g : G} {Q : Post}
    (h : ∀ f, f + 1 ≤ F → ∀ ts, Lexed Z ts →
      DOK Z (runP Γ Δ (f+1) g ts).2 ∧ ∀ r v, (runP Γ Δ (f+1) g ts).1 = .ok r v → Q (st Z ts) (st Z r) v) :
    Der Γ Δ Z F g Q := by
  intro f hf
  cases f with
  | zero => exact Sat.zero g Q
  | succ f => exact h f hf

theorem Der.weaken {F : Nat} {g : G} {Q Q' : Post} (h : Der Γ Δ Z F g Q) (hw : ∀ lo hi v, Q lo hi v → Q' lo hi v) :
    Der Γ Δ Z F g Q' := by
  intro f hf ts hL
  obtain ⟨h1, h2⟩ := h f hf ts hL
  exact ⟨h1, fun r v hr => hw _ _ _ (h2 r v hr)⟩

/-- the rest of a successful run is a suffix of the input, so it is lexed and starts no earlier -/
theorem rest_facts {f : Nat} {g : G} {ts r : List Tok} {v : Tree} (hL : Lexed Z ts) (h : (runP Γ Δ f g ts).1 = .ok r v) :
    Lexed Z r ∧ (st Z ts).le (st Z r) = true := by
  have := runP_suffix Γ Δ f g ts
  rw [h] at this
  exact hL.suffix this

theorem err_facts {f : Nat} {g : G} {ts e : List Tok} {m : String} (h : (runP Γ Δ f g ts).1 = .err e m) : e <:+ ts := by
  have := runP_suffix Γ Δ f g ts
  rw [h] at this
  exact this

/-! ### tokens -/

theorem expTokGo_ok (k : Kind) (orig : List Tok) : ∀ (l r : List Tok) (v : Tree), expTokGo k orig l = .ok r v →
    ∃ t pre, v = .leaf t ∧ l = pre ++ t :: r ∧ t.kind = k := by
  intro l
  induction l with
  | nil => intro r v h; simp [expTokGo] at h
  | cons x xs ih =>
    intro r v h
    simp only [expTokGo] at h
    split at h
    · next hk => cases h; exact ⟨x, [], rfl, rfl, hk⟩
    · split at h
      · obtain ⟨t, pre, h1, h2, h3⟩ := ih r v h
        exact ⟨t, x :: pre, h1, by rw [h2]; rfl, h3⟩
      · cases h

theorem expIdentGo_ok (s : String) (orig : List Tok) : ∀ (l r : List Tok) (v : Tree), expIdentGo s orig l = .ok r v →
    ∃ t pre, v = .leaf t ∧ l = pre ++ t :: r := by
  intro l
  induction l with
  | nil => intro r v h; simp [expIdentGo] at h
  | cons x xs ih =>
    intro r v h
    simp only [expIdentGo] at h
    split at h
    · cases h; exact ⟨x, [], rfl, rfl⟩
    · split at h
      · obtain ⟨t, pre, h1, h2⟩ := ih r v h
        exact ⟨t, x :: pre, h1, by rw [h2]; rfl⟩
      · cases h

theorem leaf_of_split {pre : List Tok} {t : Tok} {r : List Tok} (hL : Lexed Z (pre ++ t :: r)) :
    PLeaf Z (st Z (pre ++ t :: r)) (st Z r) (.leaf t) := by
  obtain ⟨h1, h2, h3, h4⟩ := hL.split
  exact ⟨t, rfl, h1, h2, h3, h4⟩

theorem Der.tok {F : Nat} (k : Kind) : Der Γ Δ Z F (.tok k) (PLeaf Z) := by
  apply Der.step
  intro f _ ts hL
  simp only [runP]
  refine ⟨DOK.nil, fun r v h => ?_⟩
  obtain ⟨t, pre, rfl, rfl, _⟩ := expTokGo_ok k ts ts r v h
  exact leaf_of_split hL

/-- a token of a kind that must not be empty: the leaf is strictly non-empty and ends inside the interval -/
def PLeafS (Z : Pos) : Post := fun lo hi v => PLeaf Z lo hi v ∧ Pos.lt v.rng.s v.rng.e = true ∧ v.rng.e.le hi = true

/-- a token of a kind that is not loose: the leaf ends inside the interval -/
def PLeafT (Z : Pos) : Post := fun lo hi v => PLeaf Z lo hi v ∧ v.rng.e.le hi = true

theorem Der.tokK {F : Nat} (k : Kind) :
    Der Γ Δ Z F (.tok k) (fun lo hi v => PLeaf Z lo hi v ∧ ∃ t, v = .leaf t ∧ t.kind = k ∧ TokOK t ∧ Ends t hi) := by
  apply Der.step
  intro f _ ts hL
  simp only [runP]
  refine ⟨DOK.nil, fun r v h => ?_⟩
  obtain ⟨t, pre, rfl, rfl, hkind⟩ := expTokGo_ok k ts ts r v h
  have hl := leaf_of_split hL
  refine ⟨hl, t, rfl, hkind, ?_⟩
  obtain ⟨t', ht, _, h2, h3, _⟩ := hl
  cases ht
  exact ⟨h2, h3⟩

theorem Der.tokT {F : Nat} (k : Kind) (hk : looseKinds.contains k = false) : Der Γ Δ Z F (.tok k) (PLeafT Z) :=
  (Der.tokK k).weaken (fun _ _ _ ⟨h1, t, e, hkind, _, h3⟩ => ⟨h1, by subst e; exact h3.2 (by rw [hkind]; exact hk)⟩)

theorem Der.tokS {F : Nat} (k : Kind) (hk : strictKinds.contains k = true) (hl : looseKinds.contains k = false) :
    Der Γ Δ Z F (.tok k) (PLeafS Z) :=
  (Der.tokK k).weaken (fun _ _ _ ⟨h1, t, e, hkind, h2, h3⟩ => by
    subst e
    exact ⟨h1, h2.2 (by rw [hkind]; exact hk), h3.2 (by rw [hkind]; exact hl)⟩)

theorem Der.identVal {F : Nat} (s : String) : Der Γ Δ Z F (.identVal s) (PLeaf Z) := by
  apply Der.step
  intro f _ ts hL
  simp only [runP]
  refine ⟨DOK.nil, fun r v h => ?_⟩
  obtain ⟨t, pre, rfl, rfl⟩ := expIdentGo_ok s ts ts r v h
  exact leaf_of_split hL

theorem Der.eps {F : Nat} (v : Tree) : Der Γ Δ Z F (.eps v) (fun lo hi v' => v' = v ∧ lo.le hi = true) := by
  apply Der.step
  intro f _ ts _
  simp only [runP]
  refine ⟨DOK.nil, fun r v' h => ?_⟩
  cases h
  exact ⟨rfl, Pos.le_refl _⟩

/-! ### combinators -/

theorem Der.seq {F : Nat} {a b : G} {Qa Qb : Post} (ha : Der Γ Δ Z F a Qa) (hb : Der Γ Δ Z F b Qb) :
    Der Γ Δ Z F (.seq a b) (PSeqN [Qa, Qb]) := by
  apply Der.step
  intro f hf ts hL
  obtain ⟨da, va⟩ := ha f (by omega) ts hL
  simp only [runP]
  rcases hra : runP Γ Δ f a ts with ⟨ra, d1⟩
  rw [hra] at da va
  cases ra with
  | ok r1 v1 =>
    have hr1 := rest_facts (Γ := Γ) (Δ := Δ) (f := f) (g := a) hL (by rw [hra])
    obtain ⟨db, vb⟩ := hb f (by omega) r1 hr1.1
    dsimp only
    rcases hrb : runP Γ Δ f b r1 with ⟨rb, d2⟩
    rw [hrb] at db vb
    cases rb with
    | ok r2 v2 =>
      refine ⟨da.append db, fun r v h => ?_⟩
      cases h
      exact ⟨_, rfl, v1, _, st Z r1, rfl, va _ _ rfl, v2, _, _, rfl, vb _ _ rfl, rfl, Pos.le_refl _⟩
    | err e m => exact ⟨da.append db, fun r v h => by cases h⟩
    | fuel => exact ⟨da.append db, fun r v h => by cases h⟩
  | err e m => exact ⟨da, fun r v h => by cases h⟩
  | fuel => exact ⟨da, fun r v h => by cases h⟩

theorem Der.alt {F : Nat} {a b : G} {Q : Post} (ha : Der Γ Δ Z F a Q) (hb : Der Γ Δ Z F b Q) :
    Der Γ Δ Z F (.alt a b) Q := by
  apply Der.step
  intro f hf ts hL
  obtain ⟨da, va⟩ := ha f (by omega) ts hL
  obtain ⟨db, vb⟩ := hb f (by omega) ts hL
  simp only [runP]
  rcases hra : runP Γ Δ f a ts with ⟨ra, d1⟩
  rw [hra] at da va
  cases ra with
  | ok r1 v1 => exact ⟨da, fun r v h => by cases h; exact va _ _ rfl⟩
  | fuel => exact ⟨da, fun r v h => by cases h⟩
  | err e m =>
    rcases hrb : runP Γ Δ f b ts with ⟨rb, d2⟩
    rw [hrb] at db vb
    cases rb with
    | ok r2 v2 => exact ⟨da.append db, fun r v h => by cases h; exact vb _ _ rfl⟩
    | fuel => exact ⟨da.append db, fun r v h => by cases h⟩
    | err e2 m2 =>
      refine ⟨da.append db, fun r v h => ?_⟩
      simp only at h
      split at h <;> cases h

theorem Der.opt {F : Nat} {a : G} {Q : Post} (ha : Der Γ Δ Z F a Q) : Der Γ Δ Z F (.opt a) (POpt Q) := by
  apply Der.step
  intro f hf ts hL
  obtain ⟨da, va⟩ := ha f (by omega) ts hL
  simp only [runP]
  rcases hra : runP Γ Δ f a ts with ⟨ra, d1⟩
  rw [hra] at da va
  cases ra with
  | ok r1 v1 => exact ⟨da, fun r v h => by cases h; exact Or.inr (va _ _ rfl)⟩
  | fuel => exact ⟨da, fun r v h => by cases h⟩
  | err e m => exact ⟨da, fun r v h => by cases h; exact Or.inl ⟨rfl, Pos.le_refl _⟩⟩

theorem Der.map {F : Nat} {g : G} {fn : Tree → Tree} {Q Q' : Post} (hg : Der Γ Δ Z F g Q)
    (hf : ∀ lo hi v, Q lo hi v → Q' lo hi (fn v)) : Der Γ Δ Z F (.map fn g) Q' := by
  apply Der.step
  intro f hf' ts hL
  obtain ⟨dg, vg⟩ := hg f (by omega) ts hL
  simp only [runP]
  rcases hrg : runP Γ Δ f g ts with ⟨rg, d1⟩
  rw [hrg] at dg vg
  cases rg with
  | ok r1 v1 => exact ⟨dg, fun r v h => by cases h; exact hf _ _ _ (vg _ _ rfl)⟩
  | fuel => exact ⟨dg, fun r v h => by cases h⟩
  | err e m => exact ⟨dg, fun r v h => by cases h⟩

theorem Der.check {F : Nat} {g : G} {p : Tree → Bool} {msg : String} {Q : Post} (hg : Der Γ Δ Z F g Q) :
    Der Γ Δ Z F (.check p msg g) (fun lo hi v => Q lo hi v ∧ p v = true) := by
  apply Der.step
  intro f hf' ts hL
  obtain ⟨dg, vg⟩ := hg f (by omega) ts hL
  simp only [runP]
  rcases hrg : runP Γ Δ f g ts with ⟨rg, d1⟩
  rw [hrg] at dg vg
  cases rg with
  | ok r1 v1 =>
    refine ⟨dg, fun r v h => ?_⟩
    simp only at h
    split at h
    · next hp => cases h; exact ⟨vg _ _ rfl, hp⟩
    · cases h
  | fuel => exact ⟨dg, fun r v h => by cases h⟩
  | err e m => exact ⟨dg, fun r v h => by cases h⟩

theorem Der.prepend {F : Nat} {g : G} {s : String} {Q : Post} (hg : Der Γ Δ Z F g Q) :
    Der Γ Δ Z F (.prepend s g) Q := by
  apply Der.step
  intro f hf' ts hL
  obtain ⟨dg, vg⟩ := hg f (by omega) ts hL
  simp only [runP]
  rcases hrg : runP Γ Δ f g ts with ⟨rg, d1⟩
  rw [hrg] at dg vg
  cases rg with
  | ok r1 v1 => exact ⟨dg, fun r v h => by cases h; exact vg _ _ rfl⟩
  | fuel => exact ⟨dg, fun r v h => by cases h⟩
  | err e m => exact ⟨dg, fun r v h => by cases h⟩

theorem Der.ifEof {F : Nat} {a b : G} {Q : Post} (ha : Der Γ Δ Z F a Q) (hb : Der Γ Δ Z F b Q) :
    Der Γ Δ Z F (.ifEof a b) Q := by
  apply Der.step
  intro f hf ts hL
  simp only [runP]
  cases ts with
  | nil => exact ha f (by omega) [] hL
  | cons t rest => exact hb f (by omega) _ hL

theorem firstReal_split : ∀ (ts : List Tok) (t : Tok) (rest : List Tok), firstReal ts = some (t, rest) →
    ∃ pre, ts = pre ++ t :: rest := by
  intro ts
  induction ts with
  | nil => intro t rest h; simp [firstReal] at h
  | cons x xs ih =>
    intro t rest h
    simp only [firstReal] at h
    split at h
    · obtain ⟨pre, hp⟩ := ih t rest h
      exact ⟨x :: pre, by rw [hp]; rfl⟩
    · simp only [Option.some.injEq, Prod.mk.injEq] at h
      obtain ⟨rfl, rfl⟩ := h
      exact ⟨[], rfl⟩

theorem Der.ifTok {F : Nat} {ks : List Kind} {a b : G} {Qa Qb : Post} (ha : Der Γ Δ Z F a Qa) (hb : Der Γ Δ Z F b Qb) :
    Der Γ Δ Z F (.ifTok ks a b) (POr (PSeqN [PLeaf Z, Qa]) Qb) := by
  apply Der.step
  intro f hf ts hL
  simp only [runP]
  cases hfr : firstReal ts with
  | none =>
    obtain ⟨db, vb⟩ := hb f (by omega) ts hL
    exact ⟨db, fun r v h => Or.inr (vb r v h)⟩
  | some p =>
    obtain ⟨t, rest⟩ := p
    simp only
    split
    · obtain ⟨pre, rfl⟩ := firstReal_split ts t rest hfr
      have hLr : Lexed Z rest := (hL.suffix (List.IsSuffix.trans (List.suffix_cons t rest) (List.suffix_append _ _))).1
      obtain ⟨da, va⟩ := ha f (by omega) rest hLr
      rcases hra : runP Γ Δ f a rest with ⟨ra, d1⟩
      rw [hra] at da va
      cases ra with
      | ok r1 v1 =>
        refine ⟨da, fun r v h => ?_⟩
        cases h
        exact Or.inl ⟨_, rfl, _, _, st Z rest, rfl, leaf_of_split hL, v1, _, _, rfl, va _ _ rfl, rfl, Pos.le_refl _⟩
      | fuel => exact ⟨da, fun r v h => by cases h⟩
      | err e m => exact ⟨da, fun r v h => by cases h⟩
    · obtain ⟨db, vb⟩ := hb f (by omega) ts hL
      exact ⟨db, fun r v h => Or.inr (vb r v h)⟩

theorem Der.dep {F : Nat} {a b : G} {test : Tree → Bool} {Qa Qb : Post} (ha : Der Γ Δ Z F a Qa) (hb : Der Γ Δ Z F b Qb) :
    Der Γ Δ Z F (.dep a test b) (PSeqN [Qa, POpt Qb]) := by
  apply Der.step
  intro f hf ts hL
  obtain ⟨da, va⟩ := ha f (by omega) ts hL
  simp only [runP]
  rcases hra : runP Γ Δ f a ts with ⟨ra, d1⟩
  rw [hra] at da va
  cases ra with
  | ok r1 v1 =>
    have hr1 := rest_facts (Γ := Γ) (Δ := Δ) (f := f) (g := a) hL (by rw [hra])
    dsimp only
    split
    · obtain ⟨db, vb⟩ := hb f (by omega) r1 hr1.1
      rcases hrb : runP Γ Δ f b r1 with ⟨rb, d2⟩
      rw [hrb] at db vb
      cases rb with
      | ok r2 v2 =>
        refine ⟨da.append db, fun r v h => ?_⟩
        cases h
        exact ⟨_, rfl, v1, _, st Z r1, rfl, va _ _ rfl, v2, _, _, rfl, Or.inr (vb _ _ rfl), rfl, Pos.le_refl _⟩
      | err e m => exact ⟨da.append db, fun r v h => by cases h⟩
      | fuel => exact ⟨da.append db, fun r v h => by cases h⟩
    · refine ⟨da, fun r v h => ?_⟩
      cases h
      exact ⟨_, rfl, v1, _, _, rfl, va _ _ rfl, Tree.none, _, _, rfl, Or.inl ⟨rfl, Pos.le_refl _⟩, rfl, Pos.le_refl _⟩
  | err e m => exact ⟨da, fun r v h => by cases h⟩
  | fuel => exact ⟨da, fun r v h => by cases h⟩

/-- `emit`: the diagnostic is built from the value; it must be well-formed whenever the value satisfies `Q` -/
theorem Der.emit {F : Nat} {g : G} {fn : Tree → Option Diag} {Q : Post} (hg : Der Γ Δ Z F g Q)
    (hd : ∀ lo hi v d, Q lo hi v → hi.le Z = true → fn v = some d → d.rng.ok = true ∧ d.rng.e.line ≤ Z.line) :
    Der Γ Δ Z F (.emit fn g) Q := by
  apply Der.step
  intro f hf' ts hL
  obtain ⟨dg, vg⟩ := hg f (by omega) ts hL
  simp only [runP]
  rcases hrg : runP Γ Δ f g ts with ⟨rg, d1⟩
  rw [hrg] at dg vg
  cases rg with
  | ok r1 v1 =>
    have hr1 := rest_facts (Γ := Γ) (Δ := Δ) (f := f) (g := g) hL (by rw [hrg])
    refine ⟨dg.append ?_, fun r v h => by cases h; exact vg _ _ rfl⟩
    intro x hx
    cases hfn : fn v1 with
    | none => rw [hfn] at hx; cases hx
    | some d =>
      rw [hfn] at hx
      simp only [Option.toList, List.mem_singleton] at hx
      subst hx
      exact hd _ _ _ _ (vg _ _ rfl) (Lexed.st_le hr1.1) hfn
  | fuel => exact ⟨dg, fun r v h => by cases h⟩
  | err e m => exact ⟨dg, fun r v h => by cases h⟩

/-! ### recovery -/

theorem getLast_mem {ts : List Tok} {t : Tok} (h : ts.getLast? = some t) : t ∈ ts := List.mem_of_getLast? h

/-- the diagnostics of all four recovery modes are well-formed and lie inside the document -/
theorem recoverStep_dok {m : RecMode} {ts e : List Tok} {msg : String} (hL : Lexed Z ts) (hs : e <:+ ts) :
    DOK Z (recoverStep m ts e msg).2 := by
  have tokOK : ∀ t ∈ ts, t.rng.ok = true ∧ t.rng.e.line ≤ Z.line := by
    intro t ht
    obtain ⟨_, h2, h3⟩ := hL.mem ht
    exact ⟨h2.1, h3⟩
  have zeroOK : Range.zero.ok = true ∧ Range.zero.e.line ≤ Z.line := ⟨by decide, Nat.zero_le _⟩
  have lastOK : (match ts.getLast? with | some t => t.rng | none => Range.zero).ok = true ∧
      (match ts.getLast? with | some t => t.rng | none => Range.zero).e.line ≤ Z.line := by
    cases hl : ts.getLast? with
    | none => exact zeroOK
    | some t => exact tokOK t (getLast_mem hl)
  have spanOK : ∀ u ∈ ts, (Range.span (headRng ts) u.rng).ok = true ∧ (Range.span (headRng ts) u.rng).e.line ≤ Z.line := by
    intro u hu
    obtain ⟨h1, h2, h3⟩ := hL.mem hu
    cases ts with
    | nil => cases hu
    | cons x xs =>
      simp only [headRng, st] at h1 ⊢
      exact ⟨Pos.le_trans h1 h2.1, h3⟩
  cases m with
  | skipTok =>
    intro x hx
    simp only [recoverStep, List.mem_singleton] at hx
    subst hx
    cases e with
    | nil => exact lastOK
    | cons u us => exact tokOK u (hs.subset List.mem_cons_self)
  | topSpan =>
    intro x hx
    simp only [recoverStep, List.mem_singleton] at hx
    subst hx
    cases e with
    | nil =>
      simp only
      cases hl : ts.getLast? with
      | none =>
        cases ts with
        | nil => exact zeroOK
        | cons y ys => simp at hl
      | some t => exact spanOK t (getLast_mem hl)
    | cons u us => exact spanOK u (hs.subset List.mem_cons_self)
  | span =>
    intro x hx
    simp only [recoverStep, List.mem_singleton] at hx
    subst hx
    cases e with
    | nil =>
      cases ts with
      | nil => exact zeroOK
      | cons y ys => exact spanOK y List.mem_cons_self
    | cons u us => exact spanOK u (hs.subset List.mem_cons_self)
  | silentAt => intro x hx; simp [recoverStep] at hx

theorem Der.recover {F : Nat} {m : RecMode} {g : G} {Q : Post} (hg : Der Γ Δ Z F g Q) :
    Der Γ Δ Z F (.recover m g) (POpt Q) := by
  apply Der.step
  intro f hf' ts hL
  obtain ⟨dg, vg⟩ := hg f (by omega) ts hL
  simp only [runP]
  rcases hrg : runP Γ Δ f g ts with ⟨rg, d1⟩
  rw [hrg] at dg vg
  cases rg with
  | ok r1 v1 => exact ⟨dg, fun r v h => by cases h; exact Or.inr (vg _ _ rfl)⟩
  | fuel => exact ⟨dg, fun r v h => by cases h⟩
  | err e msg =>
    have hs : e <:+ ts := err_facts (Γ := Γ) (Δ := Δ) (f := f) (g := g) (by rw [hrg])
    refine ⟨dg.append (recoverStep_dok hL hs), fun r v h => ?_⟩
    cases h
    exact Or.inl ⟨rfl, (hL.suffix (recoverStep_suffix m ts e msg hs)).2⟩

theorem Der.catchErr {F : Nat} {g : G} {Q : Post} (hg : Der Γ Δ Z F g Q) :
    Der Γ Δ Z F (.catchErr g) (POr Q (PCaught Z)) := by
  apply Der.step
  intro f hf' ts hL
  obtain ⟨dg, vg⟩ := hg f (by omega) ts hL
  simp only [runP]
  rcases hrg : runP Γ Δ f g ts with ⟨rg, d1⟩
  rw [hrg] at dg vg
  cases rg with
  | ok r1 v1 => exact ⟨dg, fun r v h => by cases h; exact Or.inl (vg _ _ rfl)⟩
  | fuel => exact ⟨dg, fun r v h => by cases h⟩
  | err e msg =>
    have hs : e <:+ ts := err_facts (Γ := Γ) (Δ := Δ) (f := f) (g := g) (by rw [hrg])
    refine ⟨dg, fun r v h => ?_⟩
    cases h
    refine Or.inr ⟨_, _, rfl, Pos.le_refl _, ?_⟩
    cases e with
    | nil => intro h; simp at h
    | cons u us =>
      intro _
      obtain ⟨h1, h2, h3⟩ := hL.mem (hs.subset List.mem_cons_self)
      exact ⟨h1, h2.1, h3⟩

/-! ### slices -/

theorem takeUntil_split (ks : List Kind) : ∀ ts : List Tok,
    ts = (takeUntil ks ts).2.1 ++ ((takeUntil ks ts).2.2.toList ++ (takeUntil ks ts).1) := by
  intro ts
  induction ts with
  | nil => simp [takeUntil]
  | cons t rest ih =>
    simp only [takeUntil]
    split
    · simp
    · simp only [List.cons_append]
      rw [← ih]

theorem endTok_facts {ks : List Kind} {ts : List Tok} (hL : Lexed Z ts) :
    (st Z ts).le (st Z (takeUntil ks ts).1) = true ∧
    (match (takeUntil ks ts).2.2 with | some t => PLeaf Z (st Z ts) (st Z (takeUntil ks ts).1) (Tree.leaf t) | none => True) := by
  have hsp := takeUntil_split ks ts
  refine ⟨(hL.suffix (takeUntil_suffix ks ts)).2, ?_⟩
  cases he : (takeUntil ks ts).2.2 with
  | none => trivial
  | some t =>
    rw [he] at hsp
    simp only [Option.toList, List.singleton_append] at hsp
    have := leaf_of_split (Z := Z) (pre := (takeUntil ks ts).2.1) (t := t) (r := (takeUntil ks ts).1) (by rw [← hsp]; exact hL)
    rw [← hsp] at this
    exact this

theorem Der.skipTo {F : Nat} (ks : List Kind) : Der Γ Δ Z F (.skipTo ks) (POpt (PLeaf Z)) := by
  apply Der.step
  intro f _ ts hL
  simp only [runP]
  refine ⟨DOK.nil, fun r v h => ?_⟩
  obtain ⟨h1, h2⟩ := endTok_facts (ks := ks) hL
  rcases htu : takeUntil ks ts with ⟨rest, body, e⟩
  rw [htu] at h h1 h2
  cases h
  cases e with
  | none => exact Or.inl ⟨rfl, h1⟩
  | some t => exact Or.inr h2

theorem sliceNode_ok {body : List Tok} (hL : Lexed Z body) : PSlice Z (sliceNode body) := by
  refine ⟨_, rfl, ?_⟩
  cases body with
  | nil => exact ⟨by decide, Nat.zero_le _⟩
  | cons x xs =>
    cases hl : (x :: xs).getLast? with
    | none => simp at hl
    | some t =>
      obtain ⟨h1, h2, h3⟩ := hL.mem (getLast_mem hl)
      simp only [headRng, st] at h1 ⊢
      exact ⟨Pos.le_trans h1 h2.1, h3⟩

theorem Der.reslice {F : Nat} {ks : List Kind} {inner : G} {Q : Post} (hg : Der Γ Δ Z F inner Q) :
    Der Γ Δ Z F (.reslice ks inner) (PReslice Z Q) := by
  apply Der.step
  intro f hf' ts hL
  simp only [runP]
  obtain ⟨h1, h2⟩ := endTok_facts (ks := ks) hL
  have hsp := takeUntil_split ks ts
  rcases htu : takeUntil ks ts with ⟨rest, body, e⟩
  rw [htu] at h1 h2 hsp
  simp only at h1 h2 hsp ⊢
  have hLb : Lexed Z body := by rw [hsp] at hL; exact hL.append_left
  have hev : (match (generalizing := false) e with | some t => Tree.leaf t | none => Tree.none) = Tree.none ∨
      PLeaf Z (st Z ts) (st Z rest) (match (generalizing := false) e with | some t => Tree.leaf t | none => Tree.none) := by
    cases e with
    | none => exact Or.inl rfl
    | some t => exact Or.inr h2
  cases body with
  | nil =>
    refine ⟨DOK.nil, fun r v h => ?_⟩
    cases h
    exact ⟨_, _, _, rfl, h1, Or.inl rfl, hev, sliceNode_ok hLb⟩
  | cons x xs =>
    simp only
    obtain ⟨dg, vg⟩ := hg f (by omega) (x :: xs) hLb
    rcases hrg : runP Γ Δ f inner (x :: xs) with ⟨rg, d1⟩
    rw [hrg] at dg vg
    cases rg with
    | ok r1 v1 =>
      refine ⟨dg, fun r v h => ?_⟩
      cases h
      have hst : st Z ts = st Z (x :: xs) := by rw [hsp]; rfl
      exact ⟨_, _, _, rfl, h1, Or.inr ⟨_, by rw [hst]; exact vg _ _ rfl⟩, hev, sliceNode_ok hLb⟩
    | fuel => exact ⟨dg, fun r v h => by cases h⟩
    | err e m => exact ⟨dg, fun r v h => by cases h⟩

/-! ### nonterminals: induction on the fuel -/

/-- the context of a derivation: what references and memoised parsers satisfy -/
def Ctx (Γ Δ : Nat → G) (Z : Pos) (QΓ QΔ : Nat → Post) (F : Nat) : Prop :=
  (∀ n, Der Γ Δ Z F (.ref n) (QΓ n)) ∧ (∀ c errs, Der Γ Δ Z F (.memo c errs) (QΔ c))

/-- **soundness of the table method**: if every nonterminal's (memoised parser's) body can be derived
    to satisfy its postcondition from the postconditions of the references, then all of them do, with every fuel -/
theorem sound {QΓ QΔ : Nat → Post}
    (hΓ : ∀ F, Ctx Γ Δ Z QΓ QΔ F → ∀ n, Der Γ Δ Z F (Γ n) (QΓ n))
    (hΔ : ∀ F, Ctx Γ Δ Z QΓ QΔ F → ∀ c, Der Γ Δ Z F (Δ c) (QΔ c)) :
    ∀ F, Ctx Γ Δ Z QΓ QΔ F := by
  intro F
  induction F with
  | zero =>
    constructor
    · intro n f hf; have : f = 0 := by omega
      subst this; exact Sat.zero _ _
    · intro c e f hf; have : f = 0 := by omega
      subst this; exact Sat.zero _ _
  | succ F ih =>
    have h1 := hΓ F ih
    have h2 := hΔ F ih
    constructor
    · intro n
      apply Der.step
      intro f hf ts hL
      simp only [runP]
      exact h1 n f (by omega) ts hL
    · intro c e
      apply Der.step
      intro f hf ts hL
      simp only [runP]
      exact h2 c f (by omega) ts hL

end

end Gold.C08
