import GoldModel.Model.Conc
/-!
# Lemmas for M-CONC: the inductive invariants behind `Props/C03.lean`

* `Inv`  — holds in every reachable state of the repaired handler (`Cfg.repaired`), whatever the
  schedule: version bookkeeping (`texts`, `started`, `completed`, `diskIdx`), the slots of a
  record point at documents that are at least as new as the last completed notification, a
  request only ever holds documents that are at least as new as its receipt, every published
  and unfilled annotation has a thread that is filling it, …  It gives `linearizable_symbols`.
* `GInv` — holds along schedules that satisfy the two guards (`quiet`, `stepOk`): no thread reads
  an annotation in status `published`, the table cached in a record is never older than the
  last completed notification, analysing requests see exactly one version.  It gives
  `linearizable_partial`.

Both are proved by induction over the step relation: for every number of request threads, every
list of notifications and every schedule.
-/
namespace Gold.Conc

/-! ## projections of the state updates -/

theorem setRec_recs (s : St) (p q : Doc.Path) (x : Rec) : (s.setRec p x).recs q = if q = p then x else s.recs q := rfl
@[simp] theorem setRec_texts (s : St) (p q : Doc.Path) (x : Rec) : ((s.setRec p x).recs q).texts = if q = p then x.texts else (s.recs q).texts := by
  simp only [setRec_recs]; split <;> rfl
@[simp] theorem setRec_diskIdx (s : St) (p q : Doc.Path) (x : Rec) : ((s.setRec p x).recs q).diskIdx = if q = p then x.diskIdx else (s.recs q).diskIdx := by
  simp only [setRec_recs]; split <;> rfl
@[simp] theorem setRec_opened (s : St) (p q : Doc.Path) (x : Rec) : ((s.setRec p x).recs q).opened = if q = p then x.opened else (s.recs q).opened := by
  simp only [setRec_recs]; split <;> rfl
@[simp] theorem setRec_saved (s : St) (p q : Doc.Path) (x : Rec) : ((s.setRec p x).recs q).saved = if q = p then x.saved else (s.recs q).saved := by
  simp only [setRec_recs]; split <;> rfl
@[simp] theorem setRec_tab (s : St) (p q : Doc.Path) (x : Rec) : ((s.setRec p x).recs q).tab = if q = p then x.tab else (s.recs q).tab := by
  simp only [setRec_recs]; split <;> rfl
@[simp] theorem setRec_treeLock (s : St) (p q : Doc.Path) (x : Rec) : ((s.setRec p x).recs q).treeLock = if q = p then x.treeLock else (s.recs q).treeLock := by
  simp only [setRec_recs]; split <;> rfl
@[simp] theorem setRec_started (s : St) (p q : Doc.Path) (x : Rec) : ((s.setRec p x).recs q).started = if q = p then x.started else (s.recs q).started := by
  simp only [setRec_recs]; split <;> rfl
@[simp] theorem setRec_completed (s : St) (p q : Doc.Path) (x : Rec) : ((s.setRec p x).recs q).completed = if q = p then x.completed else (s.recs q).completed := by
  simp only [setRec_recs]; split <;> rfl
@[simp] theorem setRec_docs (s : St) (p : Doc.Path) (x : Rec) : (s.setRec p x).docs = s.docs := rfl
@[simp] theorem setRec_anns (s : St) (p : Doc.Path) (x : Rec) : (s.setRec p x).anns = s.anns := rfl
@[simp] theorem setRec_ths (s : St) (p : Doc.Path) (x : Rec) : (s.setRec p x).ths = s.ths := rfl
@[simp] theorem setRec_main (s : St) (p : Doc.Path) (x : Rec) : (s.setRec p x).main = s.main := rfl
@[simp] theorem setRec_bad (s : St) (p : Doc.Path) (x : Rec) : (s.setRec p x).badReads = s.badReads := rfl
@[simp] theorem setMain_recs (s : St) (m : MPc) : (s.setMain m).recs = s.recs := rfl
@[simp] theorem setMain_docs (s : St) (m : MPc) : (s.setMain m).docs = s.docs := rfl
@[simp] theorem setMain_anns (s : St) (m : MPc) : (s.setMain m).anns = s.anns := rfl
@[simp] theorem setMain_ths (s : St) (m : MPc) : (s.setMain m).ths = s.ths := rfl
@[simp] theorem setMain_main (s : St) (m : MPc) : (s.setMain m).main = m := rfl
@[simp] theorem setMain_bad (s : St) (m : MPc) : (s.setMain m).badReads = s.badReads := rfl
@[simp] theorem pushDoc_recs (s : St) (x : DocObj) : (s.pushDoc x).recs = s.recs := rfl
@[simp] theorem pushDoc_docs (s : St) (x : DocObj) : (s.pushDoc x).docs = s.docs ++ [x] := rfl
@[simp] theorem pushDoc_anns (s : St) (x : DocObj) : (s.pushDoc x).anns = s.anns := rfl
@[simp] theorem pushDoc_ths (s : St) (x : DocObj) : (s.pushDoc x).ths = s.ths := rfl
@[simp] theorem pushDoc_main (s : St) (x : DocObj) : (s.pushDoc x).main = s.main := rfl
@[simp] theorem pushDoc_bad (s : St) (x : DocObj) : (s.pushDoc x).badReads = s.badReads := rfl
@[simp] theorem pushAnn_recs (s : St) (y : Ann) : (s.pushAnn y).recs = s.recs := rfl
@[simp] theorem pushAnn_docs (s : St) (y : Ann) : (s.pushAnn y).docs = s.docs := rfl
@[simp] theorem pushAnn_anns (s : St) (y : Ann) : (s.pushAnn y).anns = s.anns ++ [y] := rfl
@[simp] theorem pushAnn_ths (s : St) (y : Ann) : (s.pushAnn y).ths = s.ths := rfl
@[simp] theorem pushAnn_main (s : St) (y : Ann) : (s.pushAnn y).main = s.main := rfl
@[simp] theorem pushAnn_bad (s : St) (y : Ann) : (s.pushAnn y).badReads = s.badReads := rfl
@[simp] theorem setDoc_recs (s : St) (d : Ref) (x : DocObj) : (s.setDoc d x).recs = s.recs := rfl
@[simp] theorem setDoc_docs (s : St) (d : Ref) (x : DocObj) : (s.setDoc d x).docs = s.docs.set d x := rfl
@[simp] theorem setDoc_anns (s : St) (d : Ref) (x : DocObj) : (s.setDoc d x).anns = s.anns := rfl
@[simp] theorem setDoc_ths (s : St) (d : Ref) (x : DocObj) : (s.setDoc d x).ths = s.ths := rfl
@[simp] theorem setDoc_main (s : St) (d : Ref) (x : DocObj) : (s.setDoc d x).main = s.main := rfl
@[simp] theorem setDoc_bad (s : St) (d : Ref) (x : DocObj) : (s.setDoc d x).badReads = s.badReads := rfl
@[simp] theorem setAnn_recs (s : St) (a : ARef) (y : Ann) : (s.setAnn a y).recs = s.recs := rfl
@[simp] theorem setAnn_docs (s : St) (a : ARef) (y : Ann) : (s.setAnn a y).docs = s.docs := rfl
@[simp] theorem setAnn_anns (s : St) (a : ARef) (y : Ann) : (s.setAnn a y).anns = s.anns.set a y := rfl
@[simp] theorem setAnn_ths (s : St) (a : ARef) (y : Ann) : (s.setAnn a y).ths = s.ths := rfl
@[simp] theorem setAnn_main (s : St) (a : ARef) (y : Ann) : (s.setAnn a y).main = s.main := rfl
@[simp] theorem setAnn_bad (s : St) (a : ARef) (y : Ann) : (s.setAnn a y).badReads = s.badReads := rfl
@[simp] theorem setTh_recs (s : St) (t : Nat) (th : Thread) : (s.setTh t th).recs = s.recs := rfl
@[simp] theorem setTh_docs (s : St) (t : Nat) (th : Thread) : (s.setTh t th).docs = s.docs := rfl
@[simp] theorem setTh_anns (s : St) (t : Nat) (th : Thread) : (s.setTh t th).anns = s.anns := rfl
@[simp] theorem setTh_ths (s : St) (t : Nat) (th : Thread) : (s.setTh t th).ths = s.ths.set t th := rfl
@[simp] theorem setTh_main (s : St) (t : Nat) (th : Thread) : (s.setTh t th).main = s.main := rfl
@[simp] theorem setTh_bad (s : St) (t : Nat) (th : Thread) : (s.setTh t th).badReads = s.badReads := rfl

/-- normalise a state expression built from the update functions -/
macro "st_simp" : tactic =>
  `(tactic| try simp only [setRec_texts, setRec_diskIdx, setRec_opened, setRec_saved, setRec_tab, setRec_treeLock, setRec_started, setRec_completed, setRec_docs, setRec_anns, setRec_ths, setRec_main, setRec_bad,
      setMain_recs, setMain_docs, setMain_anns, setMain_ths, setMain_main, setMain_bad,
      pushDoc_recs, pushDoc_docs, pushDoc_anns, pushDoc_ths, pushDoc_main, pushDoc_bad,
      pushAnn_recs, pushAnn_docs, pushAnn_anns, pushAnn_ths, pushAnn_main, pushAnn_bad,
      setDoc_recs, setDoc_docs, setDoc_anns, setDoc_ths, setDoc_main, setDoc_bad,
      setAnn_recs, setAnn_docs, setAnn_anns, setAnn_ths, setAnn_main, setAnn_bad,
      setTh_recs, setTh_docs, setTh_anns, setTh_ths, setTh_main, setTh_bad, List.getElem?_set] at *)

/-! ## classification of pcs -/

/-- the pc refers to document `d` -/
def Pc.holds (d : Ref) : Pc → Bool
  | .start => false
  | .lockTree => false
  | .gpRead _ => false
  | .yParsed _ => false
  | .tabRead => false
  | .gpNoCache => false
  | .check d' => d' == d
  | .yChecked d' => d' == d
  | .publish d' _ => d' == d
  | .setDefs d' _ _ => d' == d
  | .yPublished d' _ _ => d' == d
  | .fill d' _ _ => d' == d
  | .unflag d' _ _ => d' == d
  | .readAnnot d' => d' == d
  | .waitFlag d' _ => d' == d
  | .walk _ => false
  | .walkTab _ => false
  | .treeWait _ => false
  | .done _ _ => false

/-- the pc refers to annotation `a` of document `d` -/
def Pc.owns (d : Ref) (a : ARef) : Pc → Bool
  | .start => false
  | .lockTree => false
  | .gpRead _ => false
  | .yParsed _ => false
  | .tabRead => false
  | .gpNoCache => false
  | .check _ => false
  | .yChecked _ => false
  | .publish _ _ => false
  | .setDefs d' a' _ => d' == d && a' == a
  | .yPublished d' a' _ => d' == d && a' == a
  | .fill d' a' _ => d' == d && a' == a
  | .unflag d' a' _ => d' == d && a' == a
  | .readAnnot _ => false
  | .waitFlag d' a' => d' == d && a' == a
  | .walk _ => false
  | .walkTab _ => false
  | .treeWait _ => false
  | .done _ _ => false

/-- the pc is `setDefs d a _` -/
def Pc.setsDefs (d : Ref) (a : ARef) : Pc → Bool
  | .start => false
  | .lockTree => false
  | .gpRead _ => false
  | .yParsed _ => false
  | .tabRead => false
  | .gpNoCache => false
  | .check _ => false
  | .yChecked _ => false
  | .publish _ _ => false
  | .setDefs d' a' _ => d' == d && a' == a
  | .yPublished _ _ _ => false
  | .fill _ _ _ => false
  | .unflag _ _ _ => false
  | .readAnnot _ => false
  | .waitFlag _ _ => false
  | .walk _ => false
  | .walkTab _ => false
  | .treeWait _ => false
  | .done _ _ => false

/-- the pcs a documentSymbol request goes through -/
def Pc.symOk : Pc → Bool
  | .start => true
  | .gpRead _ => true
  | .yParsed _ => true
  | .done _ _ => true
  | .lockTree => false
  | .tabRead => false
  | .gpNoCache => false
  | .check _ => false
  | .yChecked _ => false
  | .publish _ _ => false
  | .setDefs _ _ _ => false
  | .yPublished _ _ _ => false
  | .fill _ _ _ => false
  | .unflag _ _ _ => false
  | .readAnnot _ => false
  | .waitFlag _ _ => false
  | .walk _ => false
  | .walkTab _ => false
  | .treeWait _ => false

/-- what a request should have answered: the solo answer for a version between receipt and reply -/
def Good (s : St) (th : Thread) (out : Out) (hi : Nat) : Prop :=
  ∃ i v, th.lo ≤ i ∧ i ≤ hi ∧ (s.recs th.p).texts[i]? = some v ∧ out = .ok (solo th.kind th.p v)

/-- `Good`, decided by a search over the finitely many candidate versions -/
def goodB (s : St) (th : Thread) (out : Out) (hi : Nat) : Bool :=
  (List.range (hi + 1)).any fun i =>
    decide (th.lo ≤ i) && match (s.recs th.p).texts[i]? with
      | some v => out == .ok (solo th.kind th.p v)
      | none => false

theorem good_iff (s : St) (th : Thread) (out : Out) (hi : Nat) : Good s th out hi ↔ goodB s th out hi = true := by
  unfold Good goodB
  simp only [List.any_eq_true, List.mem_range, Bool.and_eq_true, decide_eq_true_eq]
  constructor
  · rintro ⟨i, v, h1, h2, h3, h4⟩
    exact ⟨i, by omega, h1, by simp [h3, h4]⟩
  · rintro ⟨i, h2, h1, h3⟩
    split at h3
    · rename_i v hv
      exact ⟨i, v, h1, by omega, hv, by simpa using h3⟩
    · simp at h3

theorem good_mono {s s' : St} {th : Thread} {out hi} (h : Good s th out hi)
    (ht : ∀ (i : Nat) (v : Doc.Text), (s.recs th.p).texts[i]? = some v → (s'.recs th.p).texts[i]? = some v) :
    Good s' th out hi := by
  obtain ⟨i, v, h1, h2, h3, h4⟩ := h
  exact ⟨i, v, h1, h2, ht i v h3, h4⟩

/-! ## the unconditional invariant -/

structure Inv (s : St) : Prop where
  recLen : ∀ p, (s.recs p).texts.length = (s.recs p).started + 1
  recCs : ∀ p, (s.recs p).completed ≤ (s.recs p).started
  recDisk : ∀ p, (s.recs p).diskIdx ≤ (s.recs p).started
  recOpen : ∀ p, (s.recs p).opened = none → (s.recs p).completed ≤ (s.recs p).diskIdx
  recIdle : ∀ p, s.main.midOp p = false → (s.recs p).started = (s.recs p).completed
  mainSave : ∀ p l, s.main = .save p l → (s.recs p).diskIdx = (s.recs p).started
  docIdx : ∀ (d : Ref) (x : DocObj), s.docs[d]? = some x → x.idx ≤ (s.recs x.p).started
  opened : ∀ p d, (s.recs p).opened = some d → ∃ x, s.docs[d]? = some x ∧ x.p = p ∧ (s.recs p).completed ≤ x.idx
  saved : ∀ p d, (s.recs p).opened = none → (s.recs p).saved = some d →
    ∃ x, s.docs[d]? = some x ∧ x.p = p ∧ (s.recs p).completed ≤ x.idx
  thLo : ∀ (t : Nat) (th : Thread), s.ths[t]? = some th → th.lo ≤ (s.recs th.p).completed
  thParsed : ∀ (t : Nat) (th : Thread) (ph : Nat), s.ths[t]? = some th → th.pc = .yParsed ph → th.lo ≤ (s.recs th.p).diskIdx
  thDoc : ∀ (t : Nat) (th : Thread) (d : Ref), s.ths[t]? = some th → th.pc.holds d = true →
    ∃ x, s.docs[d]? = some x ∧ x.p = th.p ∧ th.lo ≤ x.idx
  thD1 : ∀ (t : Nat) (th : Thread) (d : Ref), s.ths[t]? = some th → th.d1 = some d →
    ∃ x, s.docs[d]? = some x ∧ x.p = th.p ∧ th.lo ≤ x.idx
  annDoc : ∀ (a : ARef) (y : Ann), s.anns[a]? = some y → ∃ x, s.docs[y.doc]? = some x
  docAnn : ∀ (d : Ref) (x : DocObj) (a : ARef), s.docs[d]? = some x → x.annot = some a → ∃ y, s.anns[a]? = some y ∧ y.doc = d
  thAnn : ∀ (t : Nat) (th : Thread) (d : Ref) (a : ARef), s.ths[t]? = some th → th.pc.owns d a = true →
    ∃ y, s.anns[a]? = some y ∧ y.doc = d
  thWalk : ∀ (t : Nat) (th : Thread) (a : ARef), s.ths[t]? = some th → th.pc = .walk a →
    ∃ y x, s.anns[a]? = some y ∧ s.docs[y.doc]? = some x ∧ x.p = th.p ∧ th.lo ≤ x.idx
  tabAnn : ∀ p (a : ARef), (s.recs p).tab = some a → ∃ y x, s.anns[a]? = some y ∧ s.docs[y.doc]? = some x ∧ x.p = p
  thWalkTab : ∀ (t : Nat) (th : Thread) (a : ARef), s.ths[t]? = some th → th.pc = .walkTab a →
    ∃ y x, s.anns[a]? = some y ∧ s.docs[y.doc]? = some x ∧ x.p = th.p
  filler : ∀ (a : ARef) (y : Ann), s.anns[a]? = some y → y.filled = false →
    ∃ th, s.ths[y.by']? = some th ∧ th.pc.fills = some a
  symPc : ∀ (t : Nat) (th : Thread), s.ths[t]? = some th → th.kind = .symbols → th.pc.symOk = true
  symDone : ∀ (t : Nat) (th : Thread) (out : Out) (hi : Nat), s.ths[t]? = some th → th.pc = .done out hi →
    th.kind = .symbols → Good s th out hi

theorem inv_init (disk : Doc.Path → Doc.Text) (ops : List Op) (reqs : Reqs) : Inv (init disk ops reqs) := by
  constructor <;> intros <;> simp_all [init, Rec.fresh, MPc.midOp, reqThread, List.getElem?_map]
  all_goals (try grind [Pc.holds, Pc.owns, Pc.symOk, reqThread])

/-! ## tactics for the step lemmas -/

theorem get_append_of_get {α} {l r : List α} {i : Nat} {v : α} (h : l[i]? = some v) : (l ++ r)[i]? = some v := by
  have := (List.getElem?_eq_some_iff.mp h).1
  rw [List.getElem?_append_left this]; exact h

theorem get_push_cases {α} {l : List α} {x y : α} {a : Nat} (h : (l ++ [x])[a]? = some y) :
    (a < l.length ∧ l[a]? = some y) ∨ (a = l.length ∧ y = x) := by
  by_cases hlt : a < l.length
  · rw [List.getElem?_append_left hlt] at h; exact Or.inl ⟨hlt, h⟩
  · have hge : l.length ≤ a := Nat.le_of_not_lt hlt
    rw [List.getElem?_append_right hge] at h
    have hlen : a - l.length = 0 := by
      rcases Nat.eq_zero_or_pos (a - l.length) with e | e
      · exact e
      · rw [List.getElem?_eq_none (by simp only [List.length_cons, List.length_nil]; exact e)] at h; simp at h
    have : a = l.length := Nat.le_antisymm (Nat.le_of_sub_eq_zero hlen) hge
    subst this
    simp at h
    exact Or.inr ⟨rfl, h.symm⟩

/-- one clause: normalise the updated state, then `grind` -/
macro "cl" : tactic =>
  `(tactic| (intros; st_simp; grind [MPc.midOp, Pc.holds, Pc.owns, Pc.fills, Pc.setsDefs, Pc.symOk, newDoc]))

/-- every clause of `Inv` except `symDone`, each from the clauses of `Inv s` it depends on; what
    `grind` cannot close is left as a named goal -/
macro "inv_auto" h:ident : tactic =>
  `(tactic| (
    refine ⟨?recLen, ?recCs, ?recDisk, ?recOpen, ?recIdle, ?mainSave, ?docIdx, ?opened, ?saved, ?thLo, ?thParsed, ?thDoc, ?thD1,
            ?annDoc, ?docAnn, ?thAnn, ?thWalk, ?tabAnn, ?thWalkTab, ?filler, ?symPc, ?symDone⟩
    case' recLen => try (have := ($h).recLen; cl)
    case' recCs => try (have := ($h).recCs; cl)
    case' recDisk => try (have := ($h).recDisk; cl)
    case' recOpen => try (have := ($h).recOpen; have := ($h).recCs; have := ($h).mainSave; have := ($h).recDisk; cl)
    case' recIdle => try (have := ($h).recIdle; cl)
    case' mainSave => try (have := ($h).mainSave; cl)
    case' docIdx => try (have := ($h).docIdx; have := ($h).recDisk; cl)
    case' opened => try (have := ($h).opened; cl)
    case' saved => try (have := ($h).saved; have := ($h).recOpen; cl)
    case' thLo => try (have := ($h).thLo; have := ($h).recCs; cl)
    case' thParsed => try (have := ($h).thParsed; have := ($h).thLo; have := ($h).recOpen; have := ($h).recDisk; cl)
    case' thDoc => try (have := ($h).thDoc; have := ($h).thLo; have := ($h).opened; have := ($h).saved; have := ($h).thParsed; have := ($h).recOpen; cl)
    case' thD1 => try (have := ($h).thD1; have := ($h).thDoc; have := ($h).thLo; have := ($h).opened; have := ($h).saved; have := ($h).thParsed; have := ($h).recOpen; cl)
    case' annDoc => try (have := ($h).annDoc; have := ($h).thDoc; cl)
    case' docAnn => try (have := ($h).docAnn; cl)
    case' thAnn => try (have := ($h).thAnn; have := ($h).docAnn; cl)
    case' thWalk => try (have := ($h).thWalk; have := ($h).thDoc; have := ($h).docAnn; have := ($h).thAnn; cl)
    case' tabAnn => try (have := ($h).tabAnn; have := ($h).thAnn; have := ($h).thDoc; cl)
    case' thWalkTab => try (have := ($h).thWalkTab; have := ($h).tabAnn; cl)
    case' filler => try (have := ($h).filler; cl)
    case' symPc => try (have := ($h).symPc; cl)))

theorem symDone_main {s s' : St} (h : Inv s) (hths : s'.ths = s.ths)
    (htx : ∀ p (i : Nat) (v : Doc.Text), (s.recs p).texts[i]? = some v → (s'.recs p).texts[i]? = some v) :
    ∀ (t : Nat) (th : Thread) (out : Out) (hi : Nat), s'.ths[t]? = some th → th.pc = .done out hi →
      th.kind = .symbols → Good s' th out hi := by
  intro t th out hi ht hpc hk
  rw [hths] at ht
  exact good_mono (h.symDone t th out hi ht hpc hk) (htx th.p)

theorem symDone_th {s s' : St} {t : Nat} {th' : Thread} (h : Inv s)
    (hths : s'.ths = s.ths.set t th')
    (htx : ∀ p (i : Nat) (v : Doc.Text), (s.recs p).texts[i]? = some v → (s'.recs p).texts[i]? = some v)
    (hnew : ∀ out hi, th'.pc = .done out hi → th'.kind = .symbols → Good s' th' out hi) :
    ∀ (u : Nat) (thu : Thread) (out : Out) (hi : Nat), s'.ths[u]? = some thu → thu.pc = .done out hi →
      thu.kind = .symbols → Good s' thu out hi := by
  intro u thu out hi hu hpc hk
  rw [hths] at hu
  by_cases e : t = u
  · subst e
    have : thu = th' := by
      rw [List.getElem?_set] at hu
      simp only [if_true] at hu
      split at hu <;> simp_all
    subst this
    exact hnew out hi hpc hk
  · rw [List.getElem?_set_ne e] at hu
    exact good_mono (h.symDone u thu out hi hu hpc hk) (htx thu.p)

/-- the texts of a record are untouched -/
macro "texts_same" : tactic =>
  `(tactic| (intro q i w hh; st_simp; first | exact hh | (split <;> first | exact hh | (subst_vars; exact hh))))

/-! ## the main thread preserves `Inv` -/

/-- reduce `hs : stepMain … = some s'` for the main pc `hm` and substitute -/
macro "main_case" hs:ident hm:ident : tactic =>
  `(tactic| (unfold stepMain at $hs:ident; simp only [$hm:ident, Cfg.repaired, if_true, Option.some.injEq] at $hs:ident; subst $hs:ident))

theorem inv_main_change {s s' : St} {p v l} (h : Inv s) (hm : s.main = .ops (.change p v :: l))
    (hs : stepMain Cfg.repaired s = some s') : Inv s' := by
  main_case hs hm
  inv_auto h
  · refine symDone_main h ?_ ?_
    · rfl
    · intro q i w hi
      st_simp
      by_cases e : q = p <;> simp [e]
      · subst e; exact get_append_of_get hi
      · exact hi

theorem inv_main_window {s s' : St} {p l} (h : Inv s) (hm : s.main = .window p l)
    (hs : stepMain Cfg.repaired s = some s') : Inv s' := by
  main_case hs hm
  have hnew : (s.docs ++ [newDoc p (s.recs p).started])[s.docs.length]? = some (newDoc p (s.recs p).started) := by simp
  inv_auto h
  · refine symDone_main h ?_ ?_
    · rfl
    · texts_same

theorem inv_main_save {s s' : St} {p v l} (h : Inv s) (hm : s.main = .ops (.save p v :: l))
    (hs : stepMain Cfg.repaired s = some s') : Inv s' := by
  main_case hs hm
  inv_auto h
  · refine symDone_main h ?_ ?_
    · rfl
    · intro q i w hi
      st_simp
      by_cases e : q = p <;> simp [e]
      · subst e; exact get_append_of_get hi
      · exact hi

theorem inv_main_saved {s s' : St} {p l} (h : Inv s) (hm : s.main = .save p l)
    (hs : stepMain Cfg.repaired s = some s') : Inv s' := by
  main_case hs hm
  inv_auto h
  · refine symDone_main h ?_ ?_
    · rfl
    · texts_same

theorem inv_main_close {s s' : St} {p l} (h : Inv s) (hm : s.main = .ops (.close p :: l))
    (hs : stepMain Cfg.repaired s = some s') : Inv s' := by
  main_case hs hm
  inv_auto h
  · refine symDone_main h ?_ ?_
    · rfl
    · intro q i w hi
      st_simp
      by_cases e : q = p <;> simp [e]
      · subst e; exact get_append_of_get hi
      · exact hi

theorem inv_main_opened {s s' : St} {p l} (h : Inv s) (hm : s.main = .ops (.opened p :: l))
    (hs : stepMain Cfg.repaired s = some s') : Inv s' := by
  main_case hs hm
  inv_auto h
  · exact symDone_main h rfl (fun _ _ _ hh => hh)

theorem inv_stepMain {s s' : St} (h : Inv s) (hs : stepMain Cfg.repaired s = some s') : Inv s' := by
  cases hm : s.main with
  | ops l =>
    cases l with
    | nil => unfold stepMain at hs; simp [hm] at hs
    | cons o l =>
      cases o with
      | change p v => exact inv_main_change h hm hs
      | save p v => exact inv_main_save h hm hs
      | close p => exact inv_main_close h hm hs
      | opened p => exact inv_main_opened h hm hs
  | window p l => exact inv_main_window h hm hs
  | save p l => exact inv_main_saved h hm hs
/-! ## request threads preserve `Inv` -/

/-- the `symDone` clause when the stepping thread does not become a finished documentSymbol request -/
theorem symDone_set {s s₁ : St} {t : Nat} {th' : Thread} (h : Inv s) (hths : s₁.ths = s.ths)
    (htx : ∀ p (i : Nat) (v : Doc.Text), (s.recs p).texts[i]? = some v → (s₁.recs p).texts[i]? = some v)
    (hnew : ∀ out hi, th'.pc = .done out hi → th'.kind = .symbols → Good s₁ th' out hi) :
    ∀ (u : Nat) (thu : Thread) (out : Out) (hi : Nat), (s₁.setTh t th').ths[u]? = some thu → thu.pc = .done out hi →
      thu.kind = .symbols → Good (s₁.setTh t th') thu out hi :=
  symDone_th (s' := s₁.setTh t th') (t := t) (th' := th') h (by simp [hths]) htx hnew

macro "sym_frame" h:ident : tactic =>
  `(tactic| (refine symDone_set $h ?_ ?_ ?_
             · rfl
             · texts_same
             · intro out hi hh hk; first | (simp at hh; done) | (split at hh <;> simp at hh; done) | skip))

theorem good_sym {s : St} {th : Thread} {d : Ref} {x : DocObj} {v : Doc.Text} {pc : Pc} (h : Inv s)
    (hk : th.kind = .symbols) (hx : s.docs[d]? = some x) (hp : x.p = th.p) (hlo : th.lo ≤ x.idx)
    (hv : s.docText d = some v) :
    Good s { th with pc := pc } (.ok (.text v)) (s.recs th.p).started := by
  refine ⟨x.idx, v, hlo, ?_, ?_, ?_⟩
  · have := h.docIdx d x hx; rw [hp] at this; exact this
  · simp only [St.docText, hx, hp] at hv; exact hv
  · simp [solo, hk]

theorem docText_some {s : St} {d : Ref} {x : DocObj} (h : Inv s) (hx : s.docs[d]? = some x) : ∃ v, s.docText d = some v := by
  have h1 := h.docIdx d x hx
  have h2 := h.recLen x.p
  simp only [St.docText, hx]
  have : x.idx < (s.recs x.p).texts.length := by omega
  exact ⟨_, List.getElem?_eq_getElem this⟩

theorem inv_th_start {s s' : St} {t : Nat} {th : Thread} (h : Inv s) (ht : s.ths[t]? = some th) (hpc : th.pc = .start)
    (hs : stepTh s t th = some s') : Inv s' := by
  unfold stepTh at hs
  simp only [hpc, Option.some.injEq] at hs
  subst hs
  inv_auto h
  · sym_frame h

theorem inv_th_lockTree {s s' : St} {t : Nat} {th : Thread} (h : Inv s) (ht : s.ths[t]? = some th) (hpc : th.pc = .lockTree)
    (hs : stepTh s t th = some s') : Inv s' := by
  unfold stepTh at hs
  simp only [hpc] at hs
  split at hs
  · simp only [Option.some.injEq] at hs
    subst hs
    inv_auto h
    · sym_frame h
  · simp at hs

/-- `got`: the request has fetched a document that is at least as new as its receipt -/
theorem inv_got {s : St} {t : Nat} {th : Thread} {ph : Nat} {d : Ref} {x : DocObj} (h : Inv s) (ht : s.ths[t]? = some th)
    (hx : s.docs[d]? = some x) (hp : x.p = th.p) (hlo : th.lo ≤ x.idx) (hpc : th.pc = .gpRead ph ∨ th.pc = .yParsed ph) :
    Inv (got s t th ph d) := by
  have hd1 := h.thD1 t th
  unfold got
  split
  · rename_i hk
    obtain ⟨v, hv⟩ := docText_some h hx
    simp only [hv]
    inv_auto h
    · refine symDone_set h rfl (fun _ _ _ hh => hh) ?_
      intro out hi hh _
      simp only [Pc.done.injEq] at hh
      obtain ⟨h1, h2⟩ := hh
      subst h1; subst h2
      exact good_sym h hk hx hp hlo hv
  · split
    · inv_auto h
      · sym_frame h
    · inv_auto h
      · sym_frame h
  · inv_auto h
    · sym_frame h

theorem inv_th_gpRead {s s' : St} {t : Nat} {th : Thread} {ph : Nat} (h : Inv s) (ht : s.ths[t]? = some th) (hpc : th.pc = .gpRead ph)
    (hs : stepTh s t th = some s') : Inv s' := by
  have hlo := h.thLo t th ht
  unfold stepTh at hs
  simp only [hpc] at hs
  split at hs
  · rename_i d hd
    simp only [Option.some.injEq] at hs
    subst hs
    obtain ⟨x, hx, hp, hc⟩ := h.opened th.p d hd
    exact inv_got h ht hx hp (by omega) (Or.inl hpc)
  · rename_i hd
    split at hs
    · rename_i d hsv
      simp only [Option.some.injEq] at hs
      subst hs
      obtain ⟨x, hx, hp, hc⟩ := h.saved th.p d hd hsv
      exact inv_got h ht hx hp (by omega) (Or.inl hpc)
    · simp only [Option.some.injEq] at hs
      subst hs
      have := h.recOpen th.p hd
      inv_auto h
      · sym_frame h

theorem inv_th_yParsed {s s' : St} {t : Nat} {th : Thread} {ph : Nat} (h : Inv s) (ht : s.ths[t]? = some th) (hpc : th.pc = .yParsed ph)
    (hs : stepTh s t th = some s') : Inv s' := by
  have hlo := h.thParsed t th ph ht hpc
  unfold stepTh at hs
  simp only [hpc, Option.some.injEq] at hs
  subst hs
  have hnew : (s.docs ++ [newDoc th.p (s.recs th.p).diskIdx])[s.docs.length]? = some (newDoc th.p (s.recs th.p).diskIdx) := by simp
  have h1 : Inv ((s.pushDoc (newDoc th.p (s.recs th.p).diskIdx)).setRec th.p { s.recs th.p with saved := some s.docs.length }) := by
    inv_auto h
    · exact symDone_main h rfl (by texts_same)
  exact inv_got (x := newDoc th.p (s.recs th.p).diskIdx) h1 (by simpa using ht) (by simp) rfl (by simpa [newDoc] using hlo) (Or.inr hpc)

theorem inv_th_tabRead {s s' : St} {t : Nat} {th : Thread} (h : Inv s) (ht : s.ths[t]? = some th) (hpc : th.pc = .tabRead)
    (hs : stepTh s t th = some s') : Inv s' := by
  unfold stepTh at hs
  simp only [hpc] at hs
  split at hs
  · rename_i a ha
    simp only [Option.some.injEq] at hs
    subst hs
    have := h.tabAnn th.p a ha
    inv_auto h
    · sym_frame h
  · simp only [Option.some.injEq] at hs
    subst hs
    inv_auto h
    · sym_frame h

theorem inv_th_gpNoCache {s s' : St} {t : Nat} {th : Thread} (h : Inv s) (ht : s.ths[t]? = some th) (hpc : th.pc = .gpNoCache)
    (hs : stepTh s t th = some s') : Inv s' := by
  have hlo := h.thLo t th ht
  unfold stepTh at hs
  simp only [hpc] at hs
  split at hs
  · rename_i d hd
    simp only [Option.some.injEq] at hs
    subst hs
    have := h.opened th.p d hd
    inv_auto h
    · sym_frame h
  · rename_i hd
    split at hs
    · rename_i d hsv
      simp only [Option.some.injEq] at hs
      subst hs
      have := h.saved th.p d hd hsv
      inv_auto h
      · sym_frame h
    · simp only [Option.some.injEq] at hs
      subst hs
      have := h.recOpen th.p hd
      have hnew : (s.docs ++ [newDoc th.p (s.recs th.p).diskIdx])[s.docs.length]? = some (newDoc th.p (s.recs th.p).diskIdx) := by simp
      inv_auto h
      · sym_frame h

theorem inv_th_check {s s' : St} {t : Nat} {th : Thread} {d : Ref} (h : Inv s) (ht : s.ths[t]? = some th) (hpc : th.pc = .check d)
    (hs : stepTh s t th = some s') : Inv s' := by
  have hd := h.thDoc t th d ht (by simp [hpc, Pc.holds])
  unfold stepTh at hs
  simp only [hpc] at hs
  split at hs
  · simp at hs
  · rename_i x hx
    split at hs
    · rename_i a ha
      split at hs
      · simp only [Option.some.injEq] at hs
        subst hs
        have : Inv (s.setTh t { th with pc := .readAnnot d }) := by
          inv_auto h
          · sym_frame h
        exact ⟨this.recLen, this.recCs, this.recDisk, this.recOpen, this.recIdle, this.mainSave, this.docIdx, this.opened, this.saved,
          this.thLo, this.thParsed, this.thDoc, this.thD1, this.annDoc, this.docAnn, this.thAnn, this.thWalk, this.tabAnn,
          this.thWalkTab, this.filler, this.symPc, this.symDone⟩
      · simp only [Option.some.injEq] at hs
        subst hs
        inv_auto h
        · sym_frame h
    · simp only [Option.some.injEq] at hs
      subst hs
      inv_auto h
      · sym_frame h

theorem inv_th_yChecked {s s' : St} {t : Nat} {th : Thread} {d : Ref} (h : Inv s) (ht : s.ths[t]? = some th) (hpc : th.pc = .yChecked d)
    (hs : stepTh s t th = some s') : Inv s' := by
  have hd := h.thDoc t th d ht (by simp [hpc, Pc.holds])
  unfold stepTh at hs
  simp only [hpc] at hs
  split at hs
  · simp at hs
  · rename_i x hx
    split at hs
    · simp only [Option.some.injEq] at hs
      subst hs
      inv_auto h
      · sym_frame h
    · simp only [Option.some.injEq] at hs
      subst hs
      inv_auto h
      · sym_frame h

theorem inv_th_publish {s s' : St} {t : Nat} {th : Thread} {d : Ref} {held : Bool} (h : Inv s) (ht : s.ths[t]? = some th)
    (hpc : th.pc = .publish d held) (hs : stepTh s t th = some s') : Inv s' := by
  have hd := h.thDoc t th d ht (by simp [hpc, Pc.holds])
  unfold stepTh at hs
  simp only [hpc] at hs
  split at hs
  · simp at hs
  · rename_i x hx
    simp only [Option.some.injEq] at hs
    subst hs
    have hnew : (s.anns ++ [({ doc := d, by' := t, onlyDefs := th.kind.wantsDefs, filled := false } : Ann)])[s.anns.length]? =
        some { doc := d, by' := t, onlyDefs := th.kind.wantsDefs, filled := false } := by simp
    inv_auto h
    · intro a y hy hfl
      have hf := h.filler
      st_simp
      rcases get_push_cases hy with ⟨_, hy'⟩ | ⟨e1, e2⟩
      · obtain ⟨thf, h1, h2⟩ := hf a y hy' hfl
        grind [Pc.fills]
      · subst e1; subst e2
        grind [Pc.fills]
    · sym_frame h

theorem inv_th_setDefs {s s' : St} {t : Nat} {th : Thread} {d : Ref} {a : ARef} {held : Bool} (h : Inv s) (ht : s.ths[t]? = some th)
    (hpc : th.pc = .setDefs d a held) (hs : stepTh s t th = some s') : Inv s' := by
  have hd := h.thDoc t th d ht (by simp [hpc, Pc.holds])
  have ha := h.thAnn t th d a ht (by simp [hpc, Pc.owns])
  unfold stepTh at hs
  simp only [hpc] at hs
  split at hs
  · simp at hs
  · rename_i x hx
    simp only [Option.some.injEq] at hs
    subst hs
    inv_auto h
    · sym_frame h

theorem inv_th_yPublished {s s' : St} {t : Nat} {th : Thread} {d : Ref} {a : ARef} {held : Bool} (h : Inv s) (ht : s.ths[t]? = some th)
    (hpc : th.pc = .yPublished d a held) (hs : stepTh s t th = some s') : Inv s' := by
  have hd := h.thDoc t th d ht (by simp [hpc, Pc.holds])
  have ha := h.thAnn t th d a ht (by simp [hpc, Pc.owns])
  unfold stepTh at hs
  simp only [hpc, Option.some.injEq] at hs
  subst hs
  inv_auto h
  · sym_frame h

theorem inv_th_fill {s s' : St} {t : Nat} {th : Thread} {d : Ref} {a : ARef} {held : Bool} (h : Inv s) (ht : s.ths[t]? = some th)
    (hpc : th.pc = .fill d a held) (hs : stepTh s t th = some s') : Inv s' := by
  have hd := h.thDoc t th d ht (by simp [hpc, Pc.holds])
  have ha := h.thAnn t th d a ht (by simp [hpc, Pc.owns])
  unfold stepTh at hs
  simp only [hpc] at hs
  split at hs
  · simp at hs
  · rename_i y hy
    simp only [Option.some.injEq] at hs
    subst hs
    inv_auto h
    · sym_frame h

theorem inv_th_unflag {s s' : St} {t : Nat} {th : Thread} {d : Ref} {a : ARef} {held : Bool} (h : Inv s) (ht : s.ths[t]? = some th)
    (hpc : th.pc = .unflag d a held) (hs : stepTh s t th = some s') : Inv s' := by
  have hd := h.thDoc t th d ht (by simp [hpc, Pc.holds])
  unfold stepTh at hs
  simp only [hpc] at hs
  split at hs
  · simp at hs
  · rename_i x hx
    simp only [Option.some.injEq] at hs
    subst hs
    cases held
    · simp only [Bool.false_eq_true, if_false]
      inv_auto h
      · sym_frame h
    · simp only [if_true]
      inv_auto h
      · sym_frame h

theorem inv_th_readAnnot {s s' : St} {t : Nat} {th : Thread} {d : Ref} (h : Inv s) (ht : s.ths[t]? = some th)
    (hpc : th.pc = .readAnnot d) (hs : stepTh s t th = some s') : Inv s' := by
  have hk : th.kind ≠ .symbols := fun e => by have := h.symPc t th ht e; simp [hpc, Pc.symOk] at this
  have hd := h.thDoc t th d ht (by simp [hpc, Pc.holds])
  obtain ⟨x, hx, hp, hlo⟩ := hd
  unfold stepTh at hs
  simp only [hpc, hx, Option.bind_some] at hs
  split at hs
  · simp only [Option.some.injEq] at hs
    subst hs
    inv_auto h
    · refine symDone_set h rfl (fun _ _ _ hh => hh) ?_
      intro out hi _ hk'; exact absurd hk' hk
  · rename_i a ha
    simp only [Option.some.injEq] at hs
    subst hs
    have hy := h.docAnn d x a hx ha
    split
    · inv_auto h
      · sym_frame h
    · inv_auto h
      · sym_frame h

theorem inv_th_waitFlag {s s' : St} {t : Nat} {th : Thread} {d : Ref} {a : ARef} (h : Inv s) (ht : s.ths[t]? = some th)
    (hpc : th.pc = .waitFlag d a) (hs : stepTh s t th = some s') : Inv s' := by
  have hd := h.thDoc t th d ht (by simp [hpc, Pc.holds])
  have ha := h.thAnn t th d a ht (by simp [hpc, Pc.owns])
  unfold stepTh at hs
  simp only [hpc] at hs
  split at hs
  · simp at hs
  · rename_i x hx
    split at hs
    · simp only [Option.some.injEq] at hs
      subst hs
      inv_auto h
      · sym_frame h
    · simp at hs

theorem inv_th_treeWait {s s' : St} {t : Nat} {th : Thread} {o : Out} (h : Inv s) (ht : s.ths[t]? = some th)
    (hpc : th.pc = .treeWait o) (hs : stepTh s t th = some s') : Inv s' := by
  have hk : th.kind ≠ .symbols := fun e => by have := h.symPc t th ht e; simp [hpc, Pc.symOk] at this
  unfold stepTh at hs
  simp only [hpc] at hs
  split at hs
  · simp only [Option.some.injEq] at hs
    subst hs
    inv_auto h
    · refine symDone_set h rfl (fun _ _ _ hh => hh) ?_
      intro out hi _ hk'; exact absurd hk' hk
  · simp at hs

theorem inv_bad {s : St} {n : Nat} (h : Inv s) : Inv { s with badReads := n } :=
  ⟨h.recLen, h.recCs, h.recDisk, h.recOpen, h.recIdle, h.mainSave, h.docIdx, h.opened, h.saved, h.thLo, h.thParsed, h.thDoc, h.thD1,
   h.annDoc, h.docAnn, h.thAnn, h.thWalk, h.tabAnn, h.thWalkTab, h.filler, h.symPc, h.symDone⟩

theorem inv_th_finish {s : St} {t : Nat} {th : Thread} {a : ARef} (h : Inv s) (ht : s.ths[t]? = some th)
    (hk : th.kind ≠ .symbols) (hpc : th.pc = .walk a ∨ th.pc = .walkTab a) : Inv (finish s t th a) := by
  unfold finish
  have hf0 : th.pc.fills = none := by rcases hpc with e | e <;> simp [e, Pc.fills]
  -- the thread ends in `treeWait` or `done`, neither of which any clause constrains for this kind
  have key : ∀ (s₁ : St) (pc : Pc), ((∃ o hi, pc = .done o hi) ∨ ∃ o, pc = .treeWait o) → s₁.ths = s.ths → s₁.docs = s.docs → s₁.anns = s.anns →
      s₁.main = s.main →
      (∀ q, (s₁.recs q).texts = (s.recs q).texts ∧ (s₁.recs q).diskIdx = (s.recs q).diskIdx ∧ (s₁.recs q).opened = (s.recs q).opened ∧
        (s₁.recs q).saved = (s.recs q).saved ∧ (s₁.recs q).tab = (s.recs q).tab ∧ (s₁.recs q).started = (s.recs q).started ∧
        (s₁.recs q).completed = (s.recs q).completed) →
      Inv (s₁.setTh t { th with pc := pc }) := by
    intro s₁ pc hpc' e1 e2 e3 e4 e5
    have hpcs : (∀ d, pc.holds d = false) ∧ (∀ d a, pc.owns d a = false) ∧ pc.fills = none ∧ (∀ a, pc ≠ .walk a) ∧
        (∀ a, pc ≠ .walkTab a) ∧ (∀ ph, pc ≠ .yParsed ph) := by
      rcases hpc' with ⟨o, hi, rfl⟩ | ⟨o, rfl⟩ <;> simp [Pc.holds, Pc.owns, Pc.fills]
    obtain ⟨hp1, hp2, hp3, hp4, hp5, hp6⟩ := hpcs
    refine ⟨?recLen, ?recCs, ?recDisk, ?recOpen, ?recIdle, ?mainSave, ?docIdx, ?opened, ?saved, ?thLo, ?thParsed, ?thDoc, ?thD1,
            ?annDoc, ?docAnn, ?thAnn, ?thWalk, ?tabAnn, ?thWalkTab, ?filler, ?symPc, ?symDone⟩
    case recLen => have := h.recLen; intro q; have := e5 q; st_simp; grind
    case recCs => have := h.recCs; intro q; have := e5 q; st_simp; grind
    case recDisk => have := h.recDisk; intro q; have := e5 q; st_simp; grind
    case recOpen => have := h.recOpen; intro q; have := e5 q; st_simp; grind
    case recIdle => have := h.recIdle; intro q; have := e5 q; st_simp; grind
    case mainSave => have := h.mainSave; intro q l; have := e5 q; st_simp; grind
    case docIdx => have := h.docIdx; intro d x; have := e5 x.p; st_simp; grind
    case opened => have := h.opened; intro q d; have := e5 q; st_simp; grind
    case saved => have := h.saved; intro q d; have := e5 q; st_simp; grind
    case thLo => have := h.thLo; intro u thu hu; have := e5 thu.p; have := e5 th.p; st_simp; grind
    case thParsed => have := h.thParsed; intro u thu ph hu; have := e5 thu.p; have := e5 th.p; st_simp; grind
    case thDoc => have := h.thDoc; intro u thu d hu; st_simp; grind
    case thD1 => have := h.thD1; intro u thu d hu; st_simp; grind
    case annDoc => have := h.annDoc; intro a y; st_simp; grind
    case docAnn => have := h.docAnn; intro d x a; st_simp; grind
    case thAnn => have := h.thAnn; intro u thu d a hu; st_simp; grind
    case thWalk => have := h.thWalk; intro u thu a hu; st_simp; grind
    case tabAnn => have := h.tabAnn; intro q a; have := e5 q; st_simp; grind
    case thWalkTab => have := h.thWalkTab; intro u thu a hu; st_simp; grind
    case filler => have := h.filler; intro a y; st_simp; grind
    case symPc => have := h.symPc; intro u thu hu; st_simp; grind
    case symDone =>
      refine symDone_set h e1 ?_ ?_
      · intro q i w hh; rw [(e5 q).1]; exact hh
      · intro out hi _ hk'; exact absurd hk' hk
  refine inv_bad (key _ _ ?_ ?_ ?_ ?_ ?_ ?_)
  · split <;> simp
  · split <;> rfl
  · split <;> rfl
  · split <;> rfl
  · split <;> rfl
  · intro q
    split
    · st_simp; split <;> simp_all
    · simp

theorem inv_stepTh {s s' : St} {t : Nat} {th : Thread} (h : Inv s) (ht : s.ths[t]? = some th)
    (hs : stepTh s t th = some s') : Inv s' := by
  have hsym : ∀ a, th.pc = .walk a ∨ th.pc = .walkTab a → th.kind ≠ .symbols := by
    intro a ha e
    have := h.symPc t th ht e
    rcases ha with ha | ha <;> simp [ha, Pc.symOk] at this
  cases hpc : th.pc with
  | start => exact inv_th_start h ht hpc hs
  | lockTree => exact inv_th_lockTree h ht hpc hs
  | gpRead ph => exact inv_th_gpRead h ht hpc hs
  | yParsed ph => exact inv_th_yParsed h ht hpc hs
  | tabRead => exact inv_th_tabRead h ht hpc hs
  | gpNoCache => exact inv_th_gpNoCache h ht hpc hs
  | check d => exact inv_th_check h ht hpc hs
  | yChecked d => exact inv_th_yChecked h ht hpc hs
  | publish d held => exact inv_th_publish h ht hpc hs
  | setDefs d a held => exact inv_th_setDefs h ht hpc hs
  | yPublished d a held => exact inv_th_yPublished h ht hpc hs
  | fill d a held => exact inv_th_fill h ht hpc hs
  | unflag d a held => exact inv_th_unflag h ht hpc hs
  | readAnnot d => exact inv_th_readAnnot h ht hpc hs
  | waitFlag d a => exact inv_th_waitFlag h ht hpc hs
  | walk a =>
    unfold stepTh at hs; simp only [hpc, Option.some.injEq] at hs; subst hs
    exact inv_th_finish h ht (hsym a (Or.inl hpc)) (Or.inl hpc)
  | walkTab a =>
    unfold stepTh at hs; simp only [hpc, Option.some.injEq] at hs; subst hs
    exact inv_th_finish h ht (hsym a (Or.inr hpc)) (Or.inr hpc)
  | treeWait o => exact inv_th_treeWait h ht hpc hs
  | done o hi => unfold stepTh at hs; simp [hpc] at hs

theorem inv_step {s s' : St} {t : Tid} (h : Inv s) (hs : step Cfg.repaired s t = some s') : Inv s' := by
  cases t with
  | zero => exact inv_stepMain h hs
  | succ t =>
    simp only [step] at hs
    split at hs
    · simp at hs
    · rename_i th ht
      exact inv_stepTh h ht hs

theorem inv_run {s : St} (h : Inv s) (sched : List Tid) : Inv (run Cfg.repaired s sched) := by
  induction sched generalizing s with
  | nil => exact h
  | cons t rest ih =>
    simp only [run]
    cases hs : step Cfg.repaired s t with
    | none => simpa using ih h
    | some s' => simpa using ih (inv_step h hs)

/-! ## the guards as propositions -/

theorem analysing_iff (th : Thread) :
    th.analysing = true ↔ th.pc ≠ .start ∧ th.pc.isDone = false ∧ th.kind ≠ .symbols := by
  simp [Thread.analysing, Thread.inFlight, and_assoc]

def Quiet (s : St) : Prop :=
  ∀ (t₁ : Nat) (th₁ : Thread) (a : ARef) (t₂ : Nat) (th₂ : Thread), s.ths[t₁]? = some th₁ → th₁.pc.fills = some a →
    s.ths[t₂]? = some th₂ → t₂ ≠ t₁ → th₂.p = th₁.p → th₂.analysing = false

theorem quiet_iff (s : St) : quiet s = true ↔ Quiet s := by
  unfold quiet Quiet
  simp only [List.all_eq_true, List.mem_range]
  constructor
  · intro h t₁ th₁ a t₂ th₂ h1 hf h2 hne hp
    have l1 := (List.getElem?_eq_some_iff.mp h1).1
    have l2 := (List.getElem?_eq_some_iff.mp h2).1
    have := h t₁ l1
    simp only [h1, hf, Option.isNone_some, Bool.false_or, List.all_eq_true, List.mem_range] at this
    have := this t₂ l2
    simp only [h2, Bool.or_eq_true, beq_iff_eq, bne_iff_ne, ne_eq, Bool.not_eq_true'] at this
    rcases this with (e | e) | e
    · exact absurd e hne
    · exact absurd hp e
    · exact e
  · intro h t₁ l1
    split
    · rfl
    · rename_i th₁ h1
      cases hf : th₁.pc.fills with
      | none => simp
      | some a =>
        simp only [Option.isNone_some, Bool.false_or, List.all_eq_true, List.mem_range]
        intro t₂ l2
        split
        · rfl
        · rename_i th₂ h2
          by_cases e1 : t₂ = t₁
          · simp [e1]
          · by_cases e2 : th₂.p = th₁.p
            · simp [h t₁ th₁ a t₂ th₂ h1 hf h2 e1 e2]
            · simp [e2]

/-- `stepOk` for the main thread -/
def MainOk (s : St) : Prop :=
  ∀ p, s.main.opPath = some p → ∀ (u : Nat) (thu : Thread), s.ths[u]? = some thu → thu.analysing = true → thu.p ≠ p

theorem mainOk_of (s : St) (h : stepOk s 0 = true) : MainOk s := by
  intro p hp u thu hu ha e
  simp only [stepOk, hp, List.all_eq_true] at h
  have := h thu (List.mem_of_getElem? hu)
  simp [ha, e] at this

/-- `stepOk` for request thread `t` -/
theorem thOk_of (s : St) (t : Nat) (th : Thread) (h : stepOk s (t + 1) = true) (ht : s.ths[t]? = some th)
    (hpc : th.pc = .start) (hk : th.kind ≠ .symbols) : s.main.midOp th.p = false := by
  simp only [stepOk, ht] at h
  simpa [hpc, hk] using h

/-- the pcs of a diagnostic request after its first `get_parsed_document` -/
def Pc.afterFirst : Pc → Bool
  | .start => false
  | .gpRead ph => ph != 0
  | .yParsed ph => ph != 0
  | .lockTree => true
  | .tabRead => true
  | .gpNoCache => true
  | .check _ => true
  | .yChecked _ => true
  | .publish _ _ => true
  | .setDefs _ _ _ => true
  | .yPublished _ _ _ => true
  | .fill _ _ _ => true
  | .unflag _ _ _ => true
  | .readAnnot _ => true
  | .waitFlag _ _ => true
  | .walk _ => true
  | .walkTab _ => true
  | .treeWait _ => true
  | .done _ _ => true

/-- pcs that only the hierarchy queries go through -/
def Pc.tableOnly : Pc → Bool
  | .lockTree => true
  | .tabRead => true
  | .gpNoCache => true
  | .walkTab _ => true
  | .treeWait _ => true
  | .start => false
  | .gpRead _ => false
  | .yParsed _ => false
  | .check _ => false
  | .yChecked _ => false
  | .publish _ _ => false
  | .setDefs _ _ _ => false
  | .yPublished _ _ _ => false
  | .fill _ _ _ => false
  | .unflag _ _ _ => false
  | .readAnnot _ => false
  | .waitFlag _ _ => false
  | .walk _ => false
  | .done _ _ => false

/-- the pc refers to its own annotation `a` of document `d` (published by this thread) -/
def Pc.made (d : Ref) (a : ARef) : Pc → Bool
  | .setDefs d' a' _ => d' == d && a' == a
  | .yPublished d' a' _ => d' == d && a' == a
  | .fill d' a' _ => d' == d && a' == a
  | .unflag d' a' _ => d' == d && a' == a
  | .start => false
  | .lockTree => false
  | .gpRead _ => false
  | .yParsed _ => false
  | .tabRead => false
  | .gpNoCache => false
  | .check _ => false
  | .yChecked _ => false
  | .publish _ _ => false
  | .readAnnot _ => false
  | .waitFlag _ _ => false
  | .walk _ => false
  | .walkTab _ => false
  | .treeWait _ => false
  | .done _ _ => false

/-- the pc is about to compute (or is waiting to compute) an answer from annotation `a` -/
def Pc.reads (a : ARef) : Pc → Bool
  | .walk a' => a' == a
  | .waitFlag _ a' => a' == a
  | .start => false
  | .lockTree => false
  | .gpRead _ => false
  | .yParsed _ => false
  | .tabRead => false
  | .gpNoCache => false
  | .check _ => false
  | .yChecked _ => false
  | .publish _ _ => false
  | .setDefs _ _ _ => false
  | .yPublished _ _ _ => false
  | .fill _ _ _ => false
  | .unflag _ _ _ => false
  | .readAnnot _ => false
  | .walkTab _ => false
  | .treeWait _ => false
  | .done _ _ => false

/-! ## the invariant of guarded schedules -/

structure GInv (s : St) : Prop where
  bad : s.badReads = 0
  aiLo : ∀ (t : Nat) (th : Thread), s.ths[t]? = some th → th.analysing = true →
    s.main.midOp th.p = false ∧ th.lo = (s.recs th.p).completed
  tabIdx : ∀ p (a : ARef) (y : Ann) (x : DocObj), (s.recs p).tab = some a → s.anns[a]? = some y → s.docs[y.doc]? = some x →
    (s.recs p).completed ≤ x.idx
  diagD1 : ∀ (t : Nat) (th : Thread), s.ths[t]? = some th → th.kind = .diag → th.pc.afterFirst = true → th.d1 ≠ none
  tabPc : ∀ (t : Nat) (th : Thread), s.ths[t]? = some th → th.pc.tableOnly = true → th.kind.wantsDefs = true
  readOk : ∀ (t : Nat) (th : Thread) (d : Ref), s.ths[t]? = some th → th.pc = .readAnnot d →
    ∃ x a y, s.docs[d]? = some x ∧ x.annot = some a ∧ s.anns[a]? = some y ∧ y.filled = true ∧
      (th.kind.wantsDefs = false → y.onlyDefs = false)
  madeOk : ∀ (t : Nat) (th : Thread) (d : Ref) (a : ARef), s.ths[t]? = some th → th.pc.made d a = true →
    ∃ x y, s.docs[d]? = some x ∧ x.annot = some a ∧ s.anns[a]? = some y ∧ y.onlyDefs = th.kind.wantsDefs ∧ y.by' = t
  unflagOk : ∀ (t : Nat) (th : Thread) (d : Ref) (a : ARef) (held : Bool), s.ths[t]? = some th → th.pc = .unflag d a held →
    ∃ y, s.anns[a]? = some y ∧ y.filled = true
  defsOk : ∀ (d : Ref) (x : DocObj) (a : ARef) (y : Ann), s.docs[d]? = some x → x.annot = some a → s.anns[a]? = some y →
    y.onlyDefs = x.onlyDefs ∨ ∃ th, s.ths[y.by']? = some th ∧ th.pc.setsDefs d a = true
  walkOk : ∀ (t : Nat) (th : Thread) (a : ARef) (y : Ann), s.ths[t]? = some th → th.pc.reads a = true → s.anns[a]? = some y →
    y.filled = true ∧ (th.kind.wantsDefs = false → y.onlyDefs = false)
  walkTabOk : ∀ (t : Nat) (th : Thread) (a : ARef), s.ths[t]? = some th → th.pc = .walkTab a →
    ∃ y x, s.anns[a]? = some y ∧ s.docs[y.doc]? = some x ∧ y.filled = true ∧ th.lo ≤ x.idx
  treeOk : ∀ (t : Nat) (th : Thread) (out : Out), s.ths[t]? = some th → th.pc = .treeWait out →
    Good s th out (s.recs th.p).started
  doneOk : ∀ (t : Nat) (th : Thread) (out : Out) (hi : Nat), s.ths[t]? = some th → th.pc = .done out hi → Good s th out hi

theorem ginv_init (disk : Doc.Path → Doc.Text) (ops : List Op) (reqs : Reqs) : GInv (init disk ops reqs) := by
  constructor <;> intros <;> simp_all [init, Rec.fresh, reqThread, List.getElem?_map]
  all_goals (try grind [Pc.made, Pc.reads, Pc.afterFirst, Pc.tableOnly, reqThread, analysing_iff, Pc.isDone])

/-! ## tactics for `GInv` -/

macro "gcl" : tactic =>
  `(tactic| (intros; st_simp; grind [MPc.midOp, MPc.opPath, Pc.holds, Pc.owns, Pc.fills, Pc.setsDefs, Pc.symOk, Pc.made, Pc.reads,
      Pc.afterFirst, Pc.tableOnly, Kind.wantsDefs, Pc.isDone, analysing_iff, newDoc]))

/-- every clause of `GInv` except the two about `Good` -/
macro "ginv_auto" hi:ident hg:ident : tactic =>
  `(tactic| (
    refine ⟨?bad, ?aiLo, ?tabIdx, ?diagD1, ?tabPc, ?readOk, ?madeOk, ?unflagOk, ?defsOk, ?walkOk, ?walkTabOk, ?treeOk, ?doneOk⟩
    case' bad => try (have := ($hg).bad; gcl)
    case' aiLo => try (have := ($hg).aiLo; have := ($hi).recIdle; gcl)
    case' tabIdx => try (have := ($hg).tabIdx; have := ($hg).aiLo; have := ($hi).thDoc; have := ($hi).thAnn; have := ($hi).annDoc; gcl)
    case' diagD1 => try (have := ($hg).diagD1; gcl)
    case' tabPc => try (have := ($hg).tabPc; gcl)
    case' readOk => try (have := ($hg).readOk; have := ($hg).madeOk; have := ($hg).unflagOk; gcl)
    case' madeOk => try (have := ($hg).madeOk; gcl)
    case' unflagOk => try (have := ($hg).unflagOk; gcl)
    case' defsOk => try (have := ($hg).defsOk; have := ($hg).madeOk; gcl)
    case' walkOk => try (have := ($hg).walkOk; have := ($hg).readOk; gcl)
    case' walkTabOk => try (have := ($hg).walkTabOk; gcl)))

theorem good_hi {s : St} {th : Thread} {out hi hi'} (h : Good s th out hi) (hle : hi ≤ hi') : Good s th out hi' := by
  obtain ⟨i, v, h1, h2, h3, h4⟩ := h
  exact ⟨i, v, h1, by omega, h3, h4⟩

theorem gdone_main {s s' : St} (hg : GInv s) (hths : s'.ths = s.ths)
    (htx : ∀ p (i : Nat) (v : Doc.Text), (s.recs p).texts[i]? = some v → (s'.recs p).texts[i]? = some v) :
    ∀ (t : Nat) (th : Thread) (out : Out) (hi : Nat), s'.ths[t]? = some th → th.pc = .done out hi → Good s' th out hi := by
  intro t th out hi ht hpc
  rw [hths] at ht
  exact good_mono (hg.doneOk t th out hi ht hpc) (htx th.p)

theorem gtree_main {s s' : St} (hg : GInv s) (hths : s'.ths = s.ths)
    (htx : ∀ p (i : Nat) (v : Doc.Text), (s.recs p).texts[i]? = some v → (s'.recs p).texts[i]? = some v)
    (hst : ∀ p, (s.recs p).started ≤ (s'.recs p).started) :
    ∀ (t : Nat) (th : Thread) (out : Out), s'.ths[t]? = some th → th.pc = .treeWait out → Good s' th out (s'.recs th.p).started := by
  intro t th out ht hpc
  rw [hths] at ht
  exact good_hi (good_mono (hg.treeOk t th out ht hpc) (htx th.p)) (hst th.p)

macro "texts_app" : tactic =>
  `(tactic| (intro q i w hh; st_simp;
             first
             | exact hh
             | (split <;> first | exact hh | (subst_vars; first | exact get_append_of_get hh | exact hh))))

theorem ginv_main_change {s s' : St} {p v l} (hi : Inv s) (hg : GInv s) (hok : MainOk s) (hm : s.main = .ops (.change p v :: l))
    (hs : stepMain Cfg.repaired s = some s') : GInv s' := by
  have hok' := hok p (by simp [hm, MPc.opPath])
  main_case hs hm
  ginv_auto hi hg
  case treeOk => exact gtree_main hg rfl (by texts_app) (by intro q; st_simp; first | exact Nat.le_refl _ | (split <;> simp_all))
  case doneOk => exact gdone_main hg rfl (by texts_app)

theorem ginv_main_window {s s' : St} {p l} (hi : Inv s) (hg : GInv s) (hok : MainOk s) (hm : s.main = .window p l)
    (hs : stepMain Cfg.repaired s = some s') : GInv s' := by
  have hok' := hok p (by simp [hm, MPc.opPath])
  main_case hs hm
  have hnew : (s.docs ++ [newDoc p (s.recs p).started])[s.docs.length]? = some (newDoc p (s.recs p).started) := by simp
  ginv_auto hi hg
  case treeOk => exact gtree_main hg rfl (by texts_app) (by intro q; st_simp; first | exact Nat.le_refl _ | (split <;> simp_all))
  case doneOk => exact gdone_main hg rfl (by texts_app)

theorem ginv_main_save {s s' : St} {p v l} (hi : Inv s) (hg : GInv s) (hok : MainOk s) (hm : s.main = .ops (.save p v :: l))
    (hs : stepMain Cfg.repaired s = some s') : GInv s' := by
  have hok' := hok p (by simp [hm, MPc.opPath])
  main_case hs hm
  ginv_auto hi hg
  case treeOk => exact gtree_main hg rfl (by texts_app) (by intro q; st_simp; first | exact Nat.le_refl _ | (split <;> simp_all))
  case doneOk => exact gdone_main hg rfl (by texts_app)

theorem ginv_main_saved {s s' : St} {p l} (hi : Inv s) (hg : GInv s) (hok : MainOk s) (hm : s.main = .save p l)
    (hs : stepMain Cfg.repaired s = some s') : GInv s' := by
  have hok' := hok p (by simp [hm, MPc.opPath])
  main_case hs hm
  ginv_auto hi hg
  case treeOk => exact gtree_main hg rfl (by texts_app) (by intro q; st_simp; first | exact Nat.le_refl _ | (split <;> simp_all))
  case doneOk => exact gdone_main hg rfl (by texts_app)

theorem ginv_main_close {s s' : St} {p l} (hi : Inv s) (hg : GInv s) (hok : MainOk s) (hm : s.main = .ops (.close p :: l))
    (hs : stepMain Cfg.repaired s = some s') : GInv s' := by
  have hok' := hok p (by simp [hm, MPc.opPath])
  main_case hs hm
  ginv_auto hi hg
  case treeOk => exact gtree_main hg rfl (by texts_app) (by intro q; st_simp; first | exact Nat.le_refl _ | (split <;> simp_all))
  case doneOk => exact gdone_main hg rfl (by texts_app)

theorem ginv_main_opened {s s' : St} {p l} (hi : Inv s) (hg : GInv s) (hm : s.main = .ops (.opened p :: l))
    (hs : stepMain Cfg.repaired s = some s') : GInv s' := by
  main_case hs hm
  ginv_auto hi hg
  case treeOk => exact gtree_main hg rfl (fun _ _ _ hh => hh) (fun _ => Nat.le_refl _)
  case doneOk => exact gdone_main hg rfl (fun _ _ _ hh => hh)

theorem ginv_stepMain {s s' : St} (hi : Inv s) (hg : GInv s) (hok : MainOk s) (hs : stepMain Cfg.repaired s = some s') : GInv s' := by
  cases hm : s.main with
  | ops l =>
    cases l with
    | nil => unfold stepMain at hs; simp [hm] at hs
    | cons o l =>
      cases o with
      | change p v => exact ginv_main_change hi hg hok hm hs
      | save p v => exact ginv_main_save hi hg hok hm hs
      | close p => exact ginv_main_close hi hg hok hm hs
      | opened p => exact ginv_main_opened hi hg hm hs
  | window p l => exact ginv_main_window hi hg hok hm hs
  | save p l => exact ginv_main_saved hi hg hok hm hs

/-! ## request threads preserve `GInv` along guarded schedules -/

theorem gdone_th {s s' : St} {t : Nat} {th' : Thread} (hg : GInv s) (hths : s'.ths = s.ths.set t th')
    (htx : ∀ p (i : Nat) (v : Doc.Text), (s.recs p).texts[i]? = some v → (s'.recs p).texts[i]? = some v)
    (hnew : ∀ out hi, th'.pc = .done out hi → Good s' th' out hi) :
    ∀ (u : Nat) (thu : Thread) (out : Out) (hi : Nat), s'.ths[u]? = some thu → thu.pc = .done out hi → Good s' thu out hi := by
  intro u thu out hi hu hpc
  rw [hths] at hu
  by_cases e : t = u
  · subst e
    have : thu = th' := by
      rw [List.getElem?_set] at hu
      simp only [if_true] at hu
      split at hu <;> simp_all
    subst this
    exact hnew out hi hpc
  · rw [List.getElem?_set_ne e] at hu
    exact good_mono (hg.doneOk u thu out hi hu hpc) (htx thu.p)

theorem gtree_th {s s' : St} {t : Nat} {th' : Thread} (hg : GInv s) (hths : s'.ths = s.ths.set t th')
    (htx : ∀ p (i : Nat) (v : Doc.Text), (s.recs p).texts[i]? = some v → (s'.recs p).texts[i]? = some v)
    (hst : ∀ p, (s.recs p).started ≤ (s'.recs p).started)
    (hnew : ∀ out, th'.pc = .treeWait out → Good s' th' out (s'.recs th'.p).started) :
    ∀ (u : Nat) (thu : Thread) (out : Out), s'.ths[u]? = some thu → thu.pc = .treeWait out →
      Good s' thu out (s'.recs thu.p).started := by
  intro u thu out hu hpc
  rw [hths] at hu
  by_cases e : t = u
  · subst e
    have : thu = th' := by
      rw [List.getElem?_set] at hu
      simp only [if_true] at hu
      split at hu <;> simp_all
    subst this
    exact hnew out hpc
  · rw [List.getElem?_set_ne e] at hu
    exact good_hi (good_mono (hg.treeOk u thu out hu hpc) (htx thu.p)) (hst thu.p)

theorem gdone_set {s s₁ : St} {t : Nat} {th' : Thread} (hg : GInv s) (hths : s₁.ths = s.ths)
    (htx : ∀ p (i : Nat) (v : Doc.Text), (s.recs p).texts[i]? = some v → (s₁.recs p).texts[i]? = some v)
    (hnew : ∀ out hi, th'.pc = .done out hi → Good s₁ th' out hi) :
    ∀ (u : Nat) (thu : Thread) (out : Out) (hi : Nat), (s₁.setTh t th').ths[u]? = some thu → thu.pc = .done out hi →
      Good (s₁.setTh t th') thu out hi :=
  gdone_th (s' := s₁.setTh t th') (t := t) (th' := th') hg (by simp [hths]) htx hnew

theorem gtree_set {s s₁ : St} {t : Nat} {th' : Thread} (hg : GInv s) (hths : s₁.ths = s.ths)
    (htx : ∀ p (i : Nat) (v : Doc.Text), (s.recs p).texts[i]? = some v → (s₁.recs p).texts[i]? = some v)
    (hst : ∀ p, (s.recs p).started ≤ (s₁.recs p).started)
    (hnew : ∀ out, th'.pc = .treeWait out → Good s₁ th' out (s₁.recs th'.p).started) :
    ∀ (u : Nat) (thu : Thread) (out : Out), (s₁.setTh t th').ths[u]? = some thu → thu.pc = .treeWait out →
      Good (s₁.setTh t th') thu out ((s₁.setTh t th').recs thu.p).started :=
  gtree_th (s' := s₁.setTh t th') (t := t) (th' := th') hg (by simp [hths]) htx hst hnew

macro "started_same" : tactic =>
  `(tactic| (intro q; st_simp; first | exact Nat.le_refl _ | (split <;> first | exact Nat.le_refl _ | (subst_vars; exact Nat.le_refl _))))

/-- the two `Good` clauses when the stepping thread ends neither in `done` nor in `treeWait` -/
macro "good_frame" hg:ident : tactic =>
  `(tactic| (
    case' treeOk =>
      refine gtree_set $hg ?_ ?_ ?_ ?_
      · rfl
      · texts_same
      · started_same
      · intro out hh; first | (simp at hh; done) | (split at hh <;> simp at hh; done)
    case' doneOk =>
      refine gdone_set $hg ?_ ?_ ?_
      · rfl
      · texts_same
      · intro out hi hh; first | (simp at hh; done) | (split at hh <;> simp at hh; done)))

theorem ginv_th_start {s s' : St} {t : Nat} {th : Thread} (hi : Inv s) (hg : GInv s)
    (hok : th.kind ≠ .symbols → s.main.midOp th.p = false)
    (ht : s.ths[t]? = some th) (hpc : th.pc = .start) (hs : stepTh s t th = some s') : GInv s' := by
  unfold stepTh at hs
  simp only [hpc, Option.some.injEq] at hs
  subst hs
  ginv_auto hi hg
  good_frame hg

theorem ginv_th_lockTree {s s' : St} {t : Nat} {th : Thread} (hi : Inv s) (hg : GInv s)
    (ht : s.ths[t]? = some th) (hpc : th.pc = .lockTree) (hs : stepTh s t th = some s') : GInv s' := by
  unfold stepTh at hs
  simp only [hpc] at hs
  split at hs
  · simp only [Option.some.injEq] at hs
    subst hs
    ginv_auto hi hg
    good_frame hg
  · simp at hs

/-- `got` along a guarded schedule -/
theorem ginv_got {s : St} {t : Nat} {th : Thread} {ph : Nat} {d : Ref} {x : DocObj} (hi : Inv s) (hg : GInv s)
    (ht : s.ths[t]? = some th) (hx : s.docs[d]? = some x) (hp : x.p = th.p) (hlo : th.lo ≤ x.idx)
    (hpc : th.pc = .gpRead ph ∨ th.pc = .yParsed ph) : GInv (got s t th ph d) := by
  unfold got
  split
  · rename_i hk
    obtain ⟨v, hv⟩ := docText_some hi hx
    simp only [hv]
    ginv_auto hi hg
    case treeOk =>
      refine gtree_set hg rfl (fun _ _ _ hh => hh) (fun _ => Nat.le_refl _) ?_
      intro out hh; simp at hh
    case doneOk =>
      refine gdone_set hg rfl (fun _ _ _ hh => hh) ?_
      intro out hi' hh
      simp only [Pc.done.injEq] at hh
      obtain ⟨h1, h2⟩ := hh
      subst h1; subst h2
      exact good_sym hi hk hx hp hlo hv
  · split
    · ginv_auto hi hg
      good_frame hg
    · ginv_auto hi hg
      good_frame hg
  · ginv_auto hi hg
    good_frame hg

theorem ginv_th_gpRead {s s' : St} {t : Nat} {th : Thread} {ph : Nat} (hi : Inv s) (hg : GInv s)
    (ht : s.ths[t]? = some th) (hpc : th.pc = .gpRead ph) (hs : stepTh s t th = some s') : GInv s' := by
  have hlo := hi.thLo t th ht
  unfold stepTh at hs
  simp only [hpc] at hs
  split at hs
  · rename_i d hd
    simp only [Option.some.injEq] at hs
    subst hs
    obtain ⟨x, hx, hp, hc⟩ := hi.opened th.p d hd
    exact ginv_got hi hg ht hx hp (by omega) (Or.inl hpc)
  · rename_i hd
    split at hs
    · rename_i d hsv
      simp only [Option.some.injEq] at hs
      subst hs
      obtain ⟨x, hx, hp, hc⟩ := hi.saved th.p d hd hsv
      exact ginv_got hi hg ht hx hp (by omega) (Or.inl hpc)
    · simp only [Option.some.injEq] at hs
      subst hs
      ginv_auto hi hg
      good_frame hg

theorem ginv_th_yParsed {s s' : St} {t : Nat} {th : Thread} {ph : Nat} (hi : Inv s) (hg : GInv s)
    (ht : s.ths[t]? = some th) (hpc : th.pc = .yParsed ph) (hs : stepTh s t th = some s') : GInv s' := by
  have hlo := hi.thParsed t th ph ht hpc
  unfold stepTh at hs
  simp only [hpc, Option.some.injEq] at hs
  subst hs
  have hnew : (s.docs ++ [newDoc th.p (s.recs th.p).diskIdx])[s.docs.length]? = some (newDoc th.p (s.recs th.p).diskIdx) := by simp
  have hi1 : Inv ((s.pushDoc (newDoc th.p (s.recs th.p).diskIdx)).setRec th.p { s.recs th.p with saved := some s.docs.length }) := by
    inv_auto hi
    · exact symDone_main hi rfl (by texts_same)
  have hg1 : GInv ((s.pushDoc (newDoc th.p (s.recs th.p).diskIdx)).setRec th.p { s.recs th.p with saved := some s.docs.length }) := by
    ginv_auto hi hg
    case treeOk => exact gtree_main hg rfl (by texts_same) (by started_same)
    case doneOk => exact gdone_main hg rfl (by texts_same)
  exact ginv_got (x := newDoc th.p (s.recs th.p).diskIdx) hi1 hg1 (by simpa using ht) (by simp) rfl (by simpa [newDoc] using hlo) (Or.inr hpc)

theorem ginv_th_gpNoCache {s s' : St} {t : Nat} {th : Thread} (hi : Inv s) (hg : GInv s)
    (ht : s.ths[t]? = some th) (hpc : th.pc = .gpNoCache) (hs : stepTh s t th = some s') : GInv s' := by
  unfold stepTh at hs
  simp only [hpc] at hs
  split at hs
  · simp only [Option.some.injEq] at hs
    subst hs
    ginv_auto hi hg
    good_frame hg
  · split at hs
    · simp only [Option.some.injEq] at hs
      subst hs
      ginv_auto hi hg
      good_frame hg
    · simp only [Option.some.injEq] at hs
      subst hs
      have hnew : (s.docs ++ [newDoc th.p (s.recs th.p).diskIdx])[s.docs.length]? = some (newDoc th.p (s.recs th.p).diskIdx) := by simp
      ginv_auto hi hg
      good_frame hg

theorem ginv_th_yChecked {s s' : St} {t : Nat} {th : Thread} {d : Ref} (hi : Inv s) (hg : GInv s)
    (ht : s.ths[t]? = some th) (hpc : th.pc = .yChecked d) (hs : stepTh s t th = some s') : GInv s' := by
  unfold stepTh at hs
  simp only [hpc] at hs
  split at hs
  · simp at hs
  · rename_i x hx
    split at hs
    · simp only [Option.some.injEq] at hs
      subst hs
      ginv_auto hi hg
      good_frame hg
    · simp only [Option.some.injEq] at hs
      subst hs
      ginv_auto hi hg
      good_frame hg

/-- an annotation that a reader about document record `p` can see is filled: otherwise its
    filler and the reader would overlap on a document that is being annotated -/
theorem filled_of_quiet {s : St} {t : Nat} {th : Thread} {a : ARef} {y : Ann} {x : DocObj} (hi : Inv s) (hq : Quiet s)
    (ht : s.ths[t]? = some th) (han : th.analysing = true) (hnf : th.pc.fills = none)
    (hy : s.anns[a]? = some y) (hx : s.docs[y.doc]? = some x) (hp : x.p = th.p) : y.filled = true := by
  cases hf : y.filled with
  | true => rfl
  | false =>
    exfalso
    obtain ⟨tf, h1, h2⟩ := hi.filler a y hy hf
    have hne : t ≠ y.by' := by
      intro e; subst e; rw [ht] at h1; cases h1; rw [hnf] at h2; cases h2
    -- the filler holds the annotated document
    have hown : ∃ d h, tf.pc = .setDefs d a h ∨ tf.pc = .yPublished d a h ∨ tf.pc = .fill d a h := by
      cases hpc : tf.pc <;> simp [hpc, Pc.fills] at h2 <;> subst h2 <;> simp
    obtain ⟨d, hh, hown⟩ := hown
    have ho : tf.pc.owns d a = true := by rcases hown with e | e | e <;> simp [e, Pc.owns]
    have hd : tf.pc.holds d = true := by rcases hown with e | e | e <;> simp [e, Pc.holds]
    obtain ⟨y', hy', hyd⟩ := hi.thAnn y.by' tf d a h1 ho
    rw [hy] at hy'; cases hy'
    obtain ⟨x', hx', hp', _⟩ := hi.thDoc y.by' tf d h1 hd
    rw [hyd] at hx; rw [hx] at hx'; cases hx'
    have := hq y.by' tf a t th h1 h2 ht hne (by rw [← hp, hp'])
    rw [han] at this; cases this

theorem ginv_th_tabRead {s s' : St} {t : Nat} {th : Thread} (hi : Inv s) (hg : GInv s) (hq : Quiet s)
    (ht : s.ths[t]? = some th) (hpc : th.pc = .tabRead) (hk : th.kind ≠ .symbols) (hs : stepTh s t th = some s') : GInv s' := by
  have han : th.analysing = true := by rw [analysing_iff]; simp [hpc, hk, Pc.isDone]
  unfold stepTh at hs
  simp only [hpc] at hs
  split at hs
  · rename_i a ha
    simp only [Option.some.injEq] at hs
    subst hs
    obtain ⟨y, x, hy, hx, hp⟩ := hi.tabAnn th.p a ha
    have hfl := filled_of_quiet hi hq ht han (by simp [hpc, Pc.fills]) hy hx hp
    have hidx := hg.tabIdx th.p a y x ha hy hx
    have hlo := (hg.aiLo t th ht han).2
    ginv_auto hi hg
    good_frame hg
  · simp only [Option.some.injEq] at hs
    subst hs
    ginv_auto hi hg
    good_frame hg

theorem ginv_bad {s : St} (hg : GInv s) : GInv { s with badReads := s.badReads + 0 } :=
  ⟨by simpa using hg.bad, hg.aiLo, hg.tabIdx, hg.diagD1, hg.tabPc, hg.readOk, hg.madeOk, hg.unflagOk, hg.defsOk, hg.walkOk, hg.walkTabOk,
   hg.treeOk, hg.doneOk⟩

theorem ginv_th_check {s s' : St} {t : Nat} {th : Thread} {d : Ref} (hi : Inv s) (hg : GInv s) (hq : Quiet s)
    (ht : s.ths[t]? = some th) (hpc : th.pc = .check d) (hk : th.kind ≠ .symbols) (hs : stepTh s t th = some s') : GInv s' := by
  have han : th.analysing = true := by rw [analysing_iff]; simp [hpc, hk, Pc.isDone]
  obtain ⟨x, hx, hp, hlo⟩ := hi.thDoc t th d ht (by simp [hpc, Pc.holds])
  unfold stepTh at hs
  simp only [hpc, hx] at hs
  split at hs
  · rename_i a ha
    obtain ⟨y, hy, hyd⟩ := hi.docAnn d x a hx ha
    have hfl := filled_of_quiet hi hq ht han (by simp [hpc, Pc.fills]) hy (by rw [hyd]; exact hx) hp
    split at hs
    · rename_i hcond
      simp only [Option.some.injEq] at hs
      subst hs
      have hun : s.unfilled a = false := by simp [St.unfilled, hy, hfl]
      simp only [hun]
      -- a full request that hits the cache sees a full annotation
      have hdefs : th.kind.wantsDefs = false → y.onlyDefs = false := by
        intro hw
        rcases hg.defsOk d x a y hx ha hy with e | ⟨tf, h1, h2⟩
        · rw [e]; simpa [hw] using hcond
        · exfalso
          have hne : t ≠ y.by' := by
            intro e; subst e; rw [ht] at h1; cases h1; simp [hpc, Pc.setsDefs] at h2
          have hfills : tf.pc.fills = some a := by
            cases hpc' : tf.pc <;> simp [hpc', Pc.setsDefs] at h2
            simp [Pc.fills, h2.2]
          have hd : tf.pc.holds d = true := by
            cases hpc' : tf.pc <;> simp [hpc', Pc.setsDefs] at h2
            simp [Pc.holds, h2.1]
          obtain ⟨x', hx', hp', _⟩ := hi.thDoc y.by' tf d h1 hd
          rw [hx] at hx'; cases hx'
          have := hq y.by' tf a t th h1 hfills ht hne (by rw [← hp, hp'])
          rw [han] at this; cases this
      have hg1 : GInv (s.setTh t { th with pc := .readAnnot d }) := by
        ginv_auto hi hg
        good_frame hg
      exact ginv_bad hg1
    · simp only [Option.some.injEq] at hs
      subst hs
      ginv_auto hi hg
      good_frame hg
  · simp only [Option.some.injEq] at hs
    subst hs
    ginv_auto hi hg
    good_frame hg

theorem reads_exists {s : St} {u : Nat} {thu : Thread} {a : ARef} (hi : Inv s) (hu : s.ths[u]? = some thu)
    (hr : thu.pc.reads a = true) : ∃ y, s.anns[a]? = some y := by
  cases hpc : thu.pc <;> simp [hpc, Pc.reads] at hr
  · rename_i d a'
    subst hr
    obtain ⟨y, hy, _⟩ := hi.thAnn u thu d a' hu (by simp [hpc, Pc.owns])
    exact ⟨y, hy⟩
  · rename_i a'
    subst hr
    obtain ⟨y, _, hy, _⟩ := hi.thWalk u thu a' hu hpc
    exact ⟨y, hy⟩

theorem ginv_th_publish {s s' : St} {t : Nat} {th : Thread} {d : Ref} {held : Bool} (hi : Inv s) (hg : GInv s)
    (hq' : Quiet s') (ht : s.ths[t]? = some th) (hpc : th.pc = .publish d held) (hk : th.kind ≠ .symbols)
    (hs : stepTh s t th = some s') : GInv s' := by
  obtain ⟨x, hx, hp, hlo⟩ := hi.thDoc t th d ht (by simp [hpc, Pc.holds])
  unfold stepTh at hs
  simp only [hpc, hx, Option.some.injEq] at hs
  subst hs
  have hnew : (s.anns ++ [({ doc := d, by' := t, onlyDefs := th.kind.wantsDefs, filled := false } : Ann)])[s.anns.length]? =
      some { doc := d, by' := t, onlyDefs := th.kind.wantsDefs, filled := false } := by simp
  have htl : t < s.ths.length := (List.getElem?_eq_some_iff.mp ht).1
  -- nobody else who analyses the same record is in flight: the stepping thread now fills
  have alone : ∀ (u : Nat) (thu : Thread), s.ths[u]? = some thu → u ≠ t → thu.p = th.p → thu.analysing = false := by
    intro u thu hu hne hpu
    refine hq' t { th with pc := .setDefs d s.anns.length held } s.anns.length u thu ?_ ?_ ?_ hne hpu
    · simp [htl]
    · simp [Pc.fills]
    · simp [hne.symm, hu]
  have hdocs := hi.thDoc
  have hanl : ∀ (a : ARef) (y : Ann), s.anns[a]? = some y → a < s.anns.length := fun a y h => (List.getElem?_eq_some_iff.mp h).1
  -- another thread that holds the same document would overlap with the stepping thread
  have other : ∀ (u : Nat) (thu : Thread), s.ths[u]? = some thu → u ≠ t → thu.pc.holds d = true → False := by
    intro u thu hu hne hh
    obtain ⟨x', hx', hp', _⟩ := hi.thDoc u thu d hu hh
    rw [hx] at hx'; cases hx'
    have hks : thu.kind ≠ .symbols := fun e => by
      have := hi.symPc u thu hu e
      cases hpcu : thu.pc <;> simp [hpcu, Pc.symOk, Pc.holds] at this hh
    have : thu.analysing = true := by
      rw [analysing_iff]
      refine ⟨?_, ?_, hks⟩ <;> (cases hpcu : thu.pc <;> simp [hpcu, Pc.holds, Pc.isDone] at hh ⊢)
    rw [alone u thu hu hne (by rw [← hp', hp])] at this
    cases this
  have hdl : d < s.docs.length := (List.getElem?_eq_some_iff.mp hx).1
  ginv_auto hi hg
  case tabIdx =>
    intro q a y x' hq hy hx'
    st_simp
    obtain ⟨y0, x0, hy0, hx0, _⟩ := hi.tabAnn q a hq
    rw [get_append_of_get hy0] at hy
    cases hy
    have := hg.tabIdx q a _ x0 hq hy0 hx0
    by_cases e : d = y.doc
    · subst e; simp [hdl] at hx'; subst hx'; rw [hx] at hx0; cases hx0; exact this
    · simp [e] at hx'; rw [hx0] at hx'; cases hx'; exact this
  case madeOk =>
    intro u thu d' a' hu hm
    st_simp
    by_cases e : t = u
    · subst e
      simp [htl] at hu
      subst hu
      simp [Pc.made] at hm
      obtain ⟨e1, e2⟩ := hm
      cases e1; cases e2
      refine ⟨{ x with annot := some s.anns.length }, { doc := d, by' := t, onlyDefs := th.kind.wantsDefs, filled := false }, ?_, rfl, ?_, rfl, rfl⟩
      · simp [hdl]
      · simp
    · simp [e] at hu
      have hne : d ≠ d' := by
        intro e'; subst e'
        refine other u thu hu (fun h => e h.symm) ?_
        cases hpcu : thu.pc <;> simp [hpcu, Pc.made, Pc.holds] at hm ⊢ <;> exact hm.1
      obtain ⟨x', y', h1, h2, h3, h4, h5⟩ := hg.madeOk u thu d' a' hu hm
      exact ⟨x', y', by simp [hne, h1], h2, get_append_of_get h3, h4, h5⟩
  case walkOk =>
    intro u thu a y hu hr hy
    st_simp
    have hu' : s.ths[u]? = some thu ∧ u ≠ t := by
      by_cases e : t = u
      · subst e; simp [htl] at hu; subst hu; simp [Pc.reads] at hr
      · simp [e] at hu; exact ⟨hu, fun h => e h.symm⟩
    obtain ⟨y0, hy0⟩ := reads_exists hi hu'.1 hr
    rw [get_append_of_get hy0] at hy
    cases hy
    exact hg.walkOk u thu a _ hu'.1 hr hy0
  case defsOk =>
    intro d' x' a' y' hx' ha' hy'
    st_simp
    by_cases e : d = d'
    · subst e
      have hdl : d < s.docs.length := (List.getElem?_eq_some_iff.mp hx).1
      simp [hdl] at hx'
      subst hx'
      simp at ha'
      subst ha'
      simp at hy'
      subst hy'
      right
      simp [htl, Pc.setsDefs]
    · simp [e] at hx'
      obtain ⟨y0, hy0, _⟩ := hi.docAnn d' x' a' hx' ha'
      rw [get_append_of_get hy0] at hy'
      cases hy'
      rcases hg.defsOk d' x' a' _ hx' ha' hy0 with h1 | ⟨tf, h1, h2⟩
      · exact Or.inl h1
      · right
        have hne : t ≠ y'.by' := by
          intro e'; rw [← e', ht] at h1; cases h1; simp [hpc, Pc.setsDefs] at h2
        exact ⟨tf, by simp [hne, h1], h2⟩
  good_frame hg

theorem ginv_th_setDefs {s s' : St} {t : Nat} {th : Thread} {d : Ref} {a : ARef} {held : Bool} (hi : Inv s) (hg : GInv s)
    (_hq : Quiet s) (ht : s.ths[t]? = some th) (hpc : th.pc = .setDefs d a held) (hs : stepTh s t th = some s') : GInv s' := by
  obtain ⟨x, hx, hp, hlo⟩ := hi.thDoc t th d ht (by simp [hpc, Pc.holds])
  obtain ⟨x1, y, hx1, hxa, hy, hyd, hyb⟩ := hg.madeOk t th d a ht (by simp [hpc, Pc.made])
  rw [hx] at hx1; cases hx1
  unfold stepTh at hs
  simp only [hpc, hx, Option.some.injEq] at hs
  subst hs
  have htl : t < s.ths.length := (List.getElem?_eq_some_iff.mp ht).1
  have hdl : d < s.docs.length := (List.getElem?_eq_some_iff.mp hx).1
  ginv_auto hi hg
  good_frame hg

theorem ginv_th_yPublished {s s' : St} {t : Nat} {th : Thread} {d : Ref} {a : ARef} {held : Bool} (hi : Inv s) (hg : GInv s)
    (ht : s.ths[t]? = some th) (hpc : th.pc = .yPublished d a held) (hk : th.kind ≠ .symbols)
    (hs : stepTh s t th = some s') : GInv s' := by
  have han : th.analysing = true := by rw [analysing_iff]; simp [hpc, hk, Pc.isDone]
  obtain ⟨x, hx, hp, hlo⟩ := hi.thDoc t th d ht (by simp [hpc, Pc.holds])
  obtain ⟨y, hy, hyd⟩ := hi.thAnn t th d a ht (by simp [hpc, Pc.owns])
  have hlo' := (hg.aiLo t th ht han).2
  have hmade := hg.madeOk t th d a ht (by simp [hpc, Pc.made])
  unfold stepTh at hs
  simp only [hpc, Option.some.injEq] at hs
  subst hs
  ginv_auto hi hg
  good_frame hg

theorem ginv_th_fill {s s' : St} {t : Nat} {th : Thread} {d : Ref} {a : ARef} {held : Bool} (hi : Inv s) (hg : GInv s)
    (ht : s.ths[t]? = some th) (hpc : th.pc = .fill d a held) (hs : stepTh s t th = some s') : GInv s' := by
  obtain ⟨x1, y, hx1, hxa, hy, hyd, hyb⟩ := hg.madeOk t th d a ht (by simp [hpc, Pc.made])
  unfold stepTh at hs
  simp only [hpc, hy, Option.some.injEq] at hs
  subst hs
  have hal : a < s.anns.length := (List.getElem?_eq_some_iff.mp hy).1
  ginv_auto hi hg
  good_frame hg

theorem ginv_th_unflag {s s' : St} {t : Nat} {th : Thread} {d : Ref} {a : ARef} {held : Bool} (hi : Inv s) (hg : GInv s)
    (ht : s.ths[t]? = some th) (hpc : th.pc = .unflag d a held) (hs : stepTh s t th = some s') : GInv s' := by
  obtain ⟨x, hx, hp, hlo⟩ := hi.thDoc t th d ht (by simp [hpc, Pc.holds])
  obtain ⟨x1, y, hx1, hxa, hy, hyd, hyb⟩ := hg.madeOk t th d a ht (by simp [hpc, Pc.made])
  obtain ⟨y1, hy1, hfl⟩ := hg.unflagOk t th d a held ht hpc
  rw [hy] at hy1; cases hy1
  rw [hx] at hx1; cases hx1
  unfold stepTh at hs
  simp only [hpc, hx, Option.some.injEq] at hs
  subst hs
  have hdl : d < s.docs.length := (List.getElem?_eq_some_iff.mp hx).1
  cases held
  · simp only [Bool.false_eq_true, if_false]
    ginv_auto hi hg
    good_frame hg
  · simp only [if_true]
    ginv_auto hi hg
    good_frame hg

theorem ginv_th_readAnnot {s s' : St} {t : Nat} {th : Thread} {d : Ref} (hi : Inv s) (hg : GInv s)
    (ht : s.ths[t]? = some th) (hpc : th.pc = .readAnnot d) (hs : stepTh s t th = some s') : GInv s' := by
  obtain ⟨x, a, y, hx, hxa, hy, hfl, hdf⟩ := hg.readOk t th d ht hpc
  unfold stepTh at hs
  simp only [hpc, hx, Option.bind_some, hxa, Option.some.injEq] at hs
  subst hs
  split
  · ginv_auto hi hg
    good_frame hg
  · ginv_auto hi hg
    good_frame hg

theorem ginv_th_waitFlag {s s' : St} {t : Nat} {th : Thread} {d : Ref} {a : ARef} (hi : Inv s) (hg : GInv s)
    (ht : s.ths[t]? = some th) (hpc : th.pc = .waitFlag d a) (hs : stepTh s t th = some s') : GInv s' := by
  have hw := hg.walkOk t th a
  unfold stepTh at hs
  simp only [hpc] at hs
  split at hs
  · simp at hs
  · split at hs
    · simp only [Option.some.injEq] at hs
      subst hs
      ginv_auto hi hg
      good_frame hg
    · simp at hs

theorem ginv_th_treeWait {s s' : St} {t : Nat} {th : Thread} {o : Out} (hi : Inv s) (hg : GInv s)
    (ht : s.ths[t]? = some th) (hpc : th.pc = .treeWait o) (hs : stepTh s t th = some s') : GInv s' := by
  have hgd := hg.treeOk t th o ht hpc
  unfold stepTh at hs
  simp only [hpc] at hs
  split at hs
  · simp only [Option.some.injEq] at hs
    subst hs
    ginv_auto hi hg
    case treeOk =>
      refine gtree_set hg rfl (fun _ _ _ hh => hh) (fun _ => Nat.le_refl _) ?_
      intro out hh; simp at hh
    case doneOk =>
      refine gdone_set hg rfl (fun _ _ _ hh => hh) ?_
      intro out hi' hh
      simp only [Pc.done.injEq] at hh
      obtain ⟨h1, h2⟩ := hh
      subst h1; subst h2
      exact hgd
  · simp at hs

/-- the answer computed from a filled annotation of the right kind, for a request that has seen
    exactly one version, is the solo answer for that version -/
theorem outOf_ok {s : St} {t : Nat} {th : Thread} {a : ARef} {y : Ann} {x : DocObj} (hi : Inv s) (hg : GInv s)
    (ht : s.ths[t]? = some th) (hk : th.kind ≠ .symbols) (hin : th.analysing = true)
    (hd1 : th.kind = .diag → th.d1 ≠ none)
    (hy : s.anns[a]? = some y) (hx : s.docs[y.doc]? = some x) (hp : x.p = th.p) (hlo : th.lo ≤ x.idx)
    (hfl : y.filled = true) (hdf : th.kind.wantsDefs = false → y.onlyDefs = false) :
    ∃ v, (s.recs th.p).texts[x.idx]? = some v ∧ x.idx ≤ (s.recs th.p).started ∧ outOf s th a = .ok (solo th.kind th.p v) := by
  have hidx := hi.docIdx y.doc x hx
  rw [hp] at hidx
  have hlen := hi.recLen th.p
  have hlt : x.idx < (s.recs th.p).texts.length := by omega
  refine ⟨(s.recs th.p).texts[x.idx], List.getElem?_eq_getElem hlt, hidx, ?_⟩
  have htext : s.annText a = some (s.recs th.p).texts[x.idx] := by
    simp only [St.annText, hy, St.docText, hx, hp]
    exact List.getElem?_eq_getElem hlt
  have hun : s.unfilled a = false := by simp [St.unfilled, hy, hfl]
  have hdo : s.defsOnly a = y.onlyDefs := by simp [St.defsOnly, hy]
  unfold outOf
  simp only [htext]
  cases hkind : th.kind with
  | symbols => exact absurd hkind hk
  | diag =>
    simp only
    have h1 := hd1 hkind
    cases hd : th.d1 with
    | none => exact absurd hd h1
    | some d1 =>
      obtain ⟨x1, hx1, hp1, hlo1⟩ := hi.thD1 t th d1 ht hd
      have hidx1 := hi.docIdx d1 x1 hx1
      rw [hp1] at hidx1
      obtain ⟨hmid, hlo'⟩ := hg.aiLo t th ht hin
      have hidle := hi.recIdle th.p hmid
      have e : x1.idx = x.idx := by omega
      simp only [Option.bind_some, St.docText, hx1, hp1, e, List.getElem?_eq_getElem hlt, if_true]
  | analysis b =>
    simp only [hun, hdo, Kind.needsBodies, Bool.false_or]
    have := hdf (by simp [hkind, Kind.wantsDefs])
    simp [this]
  | table u =>
    simp only [hun, Kind.needsBodies, Bool.false_and, Bool.or_false]
    simp

theorem ginv_setBad {s : St} {n : Nat} (hg : GInv s) (hn : n = 0) : GInv { s with badReads := n } :=
  ⟨hn, hg.aiLo, hg.tabIdx, hg.diagD1, hg.tabPc, hg.readOk, hg.madeOk, hg.unflagOk, hg.defsOk, hg.walkOk, hg.walkTabOk, hg.treeOk, hg.doneOk⟩

theorem ginv_th_finish {s : St} {t : Nat} {th : Thread} {a : ARef} {y : Ann} {x : DocObj} (hi : Inv s) (hg : GInv s)
    (ht : s.ths[t]? = some th) (hk : th.kind ≠ .symbols) (hpc : th.pc = .walk a ∨ th.pc = .walkTab a)
    (hy : s.anns[a]? = some y) (hx : s.docs[y.doc]? = some x) (hp : x.p = th.p) (hlo : th.lo ≤ x.idx)
    (hfl : y.filled = true) (hdf : th.kind.wantsDefs = false → y.onlyDefs = false) : GInv (finish s t th a) := by
  have hin : th.analysing = true := by
    rw [analysing_iff]; rcases hpc with e | e <;> simp [e, hk, Pc.isDone]
  have hd1 : th.kind = .diag → th.d1 ≠ none := fun e => hg.diagD1 t th ht e (by rcases hpc with e' | e' <;> simp [e', Pc.afterFirst])
  obtain ⟨v, hv, hle, hout⟩ := outOf_ok hi hg ht hk hin hd1 hy hx hp hlo hfl hdf
  have hgood : Good s th (outOf s th a) (s.recs th.p).started := ⟨x.idx, v, hlo, hle, hv, hout⟩
  have hun : s.unfilled a = false := by simp [St.unfilled, hy, hfl]
  have hf0 : th.pc.fills = none := by rcases hpc with e | e <;> simp [e, Pc.fills]
  unfold finish
  simp only [hun]
  have key : ∀ (s₁ : St) (pc : Pc), (pc = .done (outOf s th a) (s.recs th.p).started ∨ pc = .treeWait (outOf s th a)) →
      (pc.tableOnly = true → th.kind.wantsDefs = true) → s₁.ths = s.ths → s₁.docs = s.docs → s₁.anns = s.anns → s₁.main = s.main → s₁.badReads = s.badReads →
      (∀ q, (s₁.recs q).texts = (s.recs q).texts ∧ (s₁.recs q).diskIdx = (s.recs q).diskIdx ∧ (s₁.recs q).opened = (s.recs q).opened ∧
        (s₁.recs q).saved = (s.recs q).saved ∧ (s₁.recs q).tab = (s.recs q).tab ∧ (s₁.recs q).started = (s.recs q).started ∧
        (s₁.recs q).completed = (s.recs q).completed) →
      GInv (s₁.setTh t { th with pc := pc }) := by
    intro s₁ pc hpc' htab e1 e2 e3 e4 e6 e5
    have hpc1 : (∀ d, pc ≠ .readAnnot d) ∧ (∀ d a, pc.made d a = false) ∧ (∀ d a h, pc ≠ .unflag d a h) ∧ (∀ a, pc.reads a = false) ∧
        (∀ a, pc ≠ .walkTab a) ∧ pc.setsDefs = fun _ _ => false := by
      rcases hpc' with rfl | rfl <;> simp [Pc.made, Pc.reads] <;> (funext d a; simp [Pc.setsDefs])
    obtain ⟨hp1, hp2, hp3, hp4, hp5, hp6⟩ := hpc1
    have hp7 : pc ≠ .start := by rcases hpc' with rfl | rfl <;> simp
    have hsd0 : ∀ d a, th.pc.setsDefs d a = false := by intro d a; rcases hpc with e | e <;> simp [e, Pc.setsDefs]
    refine ⟨?bad, ?aiLo, ?tabIdx, ?diagD1, ?tabPc, ?readOk, ?madeOk, ?unflagOk, ?defsOk, ?walkOk, ?walkTabOk, ?treeOk, ?doneOk⟩
    case bad => have := hg.bad; st_simp; omega
    case aiLo =>
      have := hg.aiLo; intro u thu hu; have := e5 thu.p; have := e5 th.p; st_simp
      grind [analysing_iff]
    case tabIdx => have := hg.tabIdx; intro q a y x; have := e5 q; st_simp; grind
    case diagD1 => have := hg.diagD1; intro u thu hu; st_simp; grind
    case tabPc =>
      have := hg.tabPc; intro u thu hu; st_simp
      grind
    case readOk => have := hg.readOk; intro u thu d hu; st_simp; grind
    case madeOk => have := hg.madeOk; intro u thu d a hu; st_simp; grind
    case unflagOk => have := hg.unflagOk; intro u thu d a h hu; st_simp; grind
    case defsOk =>
      have := hg.defsOk; intro d x a y; st_simp
      grind
    case walkOk => have := hg.walkOk; intro u thu a y hu; st_simp; grind
    case walkTabOk => have := hg.walkTabOk; intro u thu a hu; st_simp; grind
    case treeOk =>
      refine gtree_set hg e1 ?_ ?_ ?_
      · intro q i w hh; rw [(e5 q).1]; exact hh
      · intro q; rw [(e5 q).2.2.2.2.2.1]; exact Nat.le_refl _
      · intro out hh
        rcases hpc' with rfl | rfl
        · simp at hh
        · simp only [Pc.treeWait.injEq] at hh
          subst hh
          show Good s₁ th _ _
          rw [(e5 th.p).2.2.2.2.2.1]
          exact good_mono hgood (fun i w hh => by rw [(e5 th.p).1]; exact hh)
    case doneOk =>
      refine gdone_set hg e1 ?_ ?_
      · intro q i w hh; rw [(e5 q).1]; exact hh
      · intro out hi' hh
        rcases hpc' with rfl | rfl
        · simp only [Pc.done.injEq] at hh
          obtain ⟨h1, h2⟩ := hh
          subst h1; subst h2
          show Good s₁ th _ _
          exact good_mono hgood (fun i w hh => by rw [(e5 th.p).1]; exact hh)
        · simp at hh
  refine ginv_setBad (key _ _ ?_ ?_ ?_ ?_ ?_ ?_ ?_ ?_) ?_
  · split <;> simp
  · split
    · rename_i hkk _; intro _; simp [hkk, Kind.wantsDefs]
    · intro hto; simp [Pc.tableOnly] at hto
  · split <;> rfl
  · split <;> rfl
  · split <;> rfl
  · split <;> rfl
  · split <;> rfl
  · intro q
    split
    · st_simp; split <;> simp_all
    · simp
  · have := hg.bad
    simp [this]

theorem ginv_stepTh {s s' : St} {t : Nat} {th : Thread} (hi : Inv s) (hg : GInv s) (hq : Quiet s) (hq' : Quiet s')
    (hok : stepOk s (t + 1) = true) (ht : s.ths[t]? = some th) (hs : stepTh s t th = some s') : GInv s' := by
  have hks : th.pc.symOk = false → th.kind ≠ .symbols := by
    intro h e; rw [hi.symPc t th ht e] at h; cases h
  cases hpc : th.pc with
  | start =>
    refine ginv_th_start hi hg (fun hk => thOk_of s t th hok ht hpc hk) ht hpc hs
  | lockTree => exact ginv_th_lockTree hi hg ht hpc hs
  | gpRead ph => exact ginv_th_gpRead hi hg ht hpc hs
  | yParsed ph => exact ginv_th_yParsed hi hg ht hpc hs
  | tabRead => exact ginv_th_tabRead hi hg hq ht hpc (hks (by simp [hpc, Pc.symOk])) hs
  | gpNoCache => exact ginv_th_gpNoCache hi hg ht hpc hs
  | check d => exact ginv_th_check hi hg hq ht hpc (hks (by simp [hpc, Pc.symOk])) hs
  | yChecked d => exact ginv_th_yChecked hi hg ht hpc hs
  | publish d held => exact ginv_th_publish hi hg hq' ht hpc (hks (by simp [hpc, Pc.symOk])) hs
  | setDefs d a held => exact ginv_th_setDefs hi hg hq ht hpc hs
  | yPublished d a held => exact ginv_th_yPublished hi hg ht hpc (hks (by simp [hpc, Pc.symOk])) hs
  | fill d a held => exact ginv_th_fill hi hg ht hpc hs
  | unflag d a held => exact ginv_th_unflag hi hg ht hpc hs
  | readAnnot d => exact ginv_th_readAnnot hi hg ht hpc hs
  | waitFlag d a => exact ginv_th_waitFlag hi hg ht hpc hs
  | walk a =>
    unfold stepTh at hs; simp only [hpc, Option.some.injEq] at hs; subst hs
    obtain ⟨y, x, hy, hx, hp, hlo⟩ := hi.thWalk t th a ht hpc
    obtain ⟨hfl, hdf⟩ := hg.walkOk t th a y ht (by simp [hpc, Pc.reads]) hy
    exact ginv_th_finish hi hg ht (hks (by simp [hpc, Pc.symOk])) (Or.inl hpc) hy hx hp hlo hfl hdf
  | walkTab a =>
    unfold stepTh at hs; simp only [hpc, Option.some.injEq] at hs; subst hs
    obtain ⟨y, x, hy, hx, hp⟩ := hi.thWalkTab t th a ht hpc
    obtain ⟨y', x', hy', hx', hfl, hlo⟩ := hg.walkTabOk t th a ht hpc
    rw [hy] at hy'; cases hy'
    rw [hx] at hx'; cases hx'
    have hw := hg.tabPc t th ht (by simp [hpc, Pc.tableOnly])
    exact ginv_th_finish hi hg ht (hks (by simp [hpc, Pc.symOk])) (Or.inr hpc) hy hx hp hlo hfl (fun h => by rw [hw] at h; cases h)
  | treeWait o => exact ginv_th_treeWait hi hg ht hpc hs
  | done o hi' => unfold stepTh at hs; simp [hpc] at hs

theorem ginv_step {s s' : St} {t : Tid} (hi : Inv s) (hg : GInv s) (hq : Quiet s) (hq' : Quiet s')
    (hok : stepOk s t = true) (hs : step Cfg.repaired s t = some s') : GInv s' := by
  cases t with
  | zero => exact ginv_stepMain hi hg (mainOk_of s hok) hs
  | succ t =>
    simp only [step] at hs
    split at hs
    · simp at hs
    · rename_i th ht
      exact ginv_stepTh hi hg hq hq' hok ht hs

/-- along a schedule that passes both guards, `Inv` and `GInv` hold in the final state -/
theorem ginv_runG {s s' : St} (hi : Inv s) (hg : GInv s) (hq : Quiet s) (sched : List Tid)
    (hr : runG Cfg.repaired s sched = some s') : Inv s' ∧ GInv s' := by
  induction sched generalizing s with
  | nil => simp only [runG, Option.some.injEq] at hr; subst hr; exact ⟨hi, hg⟩
  | cons t rest ih =>
    simp only [runG] at hr
    split at hr
    · rename_i hok
      split at hr
      · rename_i hq1
        cases hs : step Cfg.repaired s t with
        | none =>
          simp only [hs, Option.getD_none] at hr hq1
          exact ih hi hg hq hr
        | some s1 =>
          simp only [hs, Option.getD_some] at hr hq1
          have hq1' := (quiet_iff s1).mp hq1
          exact ih (inv_step hi hs) (ginv_step hi hg hq hq1' hok hs) hq1' hr
      · simp at hr
    · simp at hr

theorem quiet_init (disk : Doc.Path → Doc.Text) (ops : List Op) (reqs : Reqs) : Quiet (init disk ops reqs) := by
  intro t₁ th₁ a t₂ th₂ h1 hf _ _ _
  simp only [init, List.getElem?_map] at h1
  cases hr : reqs[t₁]? with
  | none => simp [hr] at h1
  | some kp => simp [hr, reqThread] at h1; subst h1; simp [Pc.fills] at hf

theorem runG_eq_run {s s' : St} (cfg : Cfg) (sched : List Tid) (h : runG cfg s sched = some s') : s' = run cfg s sched := by
  induction sched generalizing s with
  | nil => simp only [runG, Option.some.injEq] at h; simp [run, h]
  | cons t rest ih =>
    simp only [runG] at h
    split at h
    · split at h
      · simp only [run]; exact ih h
      · simp at h
    · simp at h

/-- `solo` is the sequential M-DOC answer: a freshly started server whose file `p` has the text
    `v` (a class without parent that refers to no other entity) answers documentSymbol from `v`
    and the analysis requests from the chain `[(p, v)]` -/
theorem solo_is_mdoc (cfg : Doc.Cfg) (lg : Doc.Lang) (norm : String → String) (fs : Doc.FS) (p : Doc.Path) (v : Doc.Text)
    (hfs : fs p = some (.text v)) (hpar : lg.parentOf v = none) (hrefs : lg.refs v = []) :
    (Doc.answer cfg lg norm fs Doc.Store.empty (.symbols p)).1 = solo .symbols p v ∧
    (Doc.answer cfg lg norm fs Doc.Store.empty (.analysis p)).1 = solo (.analysis true) p v := by
  constructor
  · simp [Doc.answer, Doc.docSymbols, Doc.getParsed, Doc.getInfo, Doc.keyFor, hfs, Doc.Res.bind, Doc.Store.empty, Doc.Store.byPath,
      Doc.lookup, Doc.Info.new, Doc.parseDisk, Doc.Store.modify, Doc.update, solo]
  · simp [Doc.answer, Doc.analyzeFull, Doc.getParsed, Doc.getInfo, Doc.keyFor, hfs, Doc.Res.bind, Doc.Store.empty, Doc.Store.byPath,
      Doc.lookup, Doc.Info.new, Doc.parseDisk, Doc.Store.modify, Doc.update, Doc.Doc.cachedFor, Doc.parentPath, hpar, hrefs,
      Doc.annotate, Doc.install, Doc.Info.installed, solo]

end Gold.Conc
