import GoldModel.Lemmas.RangeInvBody
/-!
T5, the Gold grammar, part 7: OQL expressions (`parser/oql_parser.rs`).
-/
namespace Gold.C08
open Gold Gold.Peg Gold.Gram

variable {Z : Pos} {F : Nat}

theorem RA.optLast {S lo hi : Pos} {v : Tree} {d : Range} (h : POpt (PList (PReal Z)) lo hi v) (hS : S.le lo = true)
    (hd : RA Z S d) :
    RA Z S (if v.isSome then (match v.kids.getLast? with | some n => n.rng | none => d) else d) ∧
      NodeOKL Z (if v.isSome then v.kids else []) := by
  rcases h with ⟨rfl, _⟩ | ⟨l, rfl, h⟩
  · exact ⟨hd, NodeOKL.nil⟩
  · simp only [Tree.isSome, isNone_list, Bool.not_false, if_true, kids_list]
    exact ⟨RA.last h hS hd, h.nodeOK good_real⟩

section
variable (hc : Ctx Γ Δ Z (QΓ Z) (QΔ Z) F)
include hc

omit hc in
theorem d_gAsterisk : Der Γ Δ Z F gAsterisk (PReal Z) :=
  Der.map (Der.tok _) (fun _ _ _ h => terminal_real h.item)

theorem d_gOqlMethodCall : Der Γ Δ Z F gOqlMethodCall (PReal Z) := by
  unfold gOqlMethodCall
  refine Der.map (Q := PSeqN [PReal Z, PLeaf Z, PList (PReal Z), PLeaf Z]) ?_ ?_
  · der_seq
    · exact r_identifier hc
    · exact Der.tok _
    · exact Der.sepListCtx d_gAsterisk (hc.1 nAsteriskRec)
    · exact Der.tok _
  · rintro lo hi v ⟨_, rfl, v0, _, m1, rfl, h0, v1, _, m2, rfl, h1, v2, _, m3, rfl, ⟨l, rfl, hl⟩, v3, _, m4, rfl, h3, rfl, hend⟩
    shape_simp
    have f0 := h0.1.facts; have f1 := h1.item.facts; have f3 := h3.item.facts; have := PListL.le good_real hl
    exact span_real (by decide) (by decide) h0.1 (by pos_chain) h3.ok (by pos_chain) (hl.nodeOK good_real)

theorem d_gSelectItem : Der Γ Δ Z F gSelectItem (PReal Z) :=
  Der.alt d_gAsterisk (Der.alt (d_gOqlMethodCall hc) (r_dotOps hc))

theorem d_gTopN : Der Γ Δ Z F gTopN (PReal Z) := by
  unfold gTopN
  refine Der.map (Q := PSeqN [PLeaf Z, PReal Z]) ?_ ?_
  · der_seq
    · exact Der.tok _
    · exact Der.alt (r_literalBasic hc) (r_identifier hc)
  · rintro lo hi v ⟨_, rfl, v0, _, m1, rfl, h0, v1, _, m2, rfl, h1, rfl, hend⟩
    shape_simp
    exact good_real.mono h1 h0.le hend

theorem d_gJoinItem : Der Γ Δ Z F gJoinItem (PReal Z) := by
  unfold gJoinItem
  refine Der.map (Q := PSeqN [PLeaf Z, PReal Z]) ?_ ?_
  · der_seq
    · exact Der.alt (Der.identVal _) (Der.alt (Der.identVal _) (Der.alt (Der.identVal _) (Der.identVal _)))
    · exact r_compare hc
  · rintro lo hi v ⟨_, rfl, v0, _, m1, rfl, h0, v1, _, m2, rfl, h1, rfl, hend⟩
    shape_simp
    have f0 := h0.facts; have f1 := h1.facts
    exact span_real (by decide) (by decide) h0.item (by pos_chain) h1.ok (by pos_chain) (NodeOKL.one h1.ok)

theorem d_gJoins : Der Γ Δ Z F gJoins (PList (PReal Z)) :=
  Der.repeatList good_real (d_gJoinItem hc) (hc.1 nJoins)

theorem d_gFromItem : Der Γ Δ Z F gFromItem (PReal Z) := by
  unfold gFromItem
  refine Der.map (Q := PSeqN [POpt (PLeaf Z), PAny, PAny, PLeaf Z, PLeaf Z, PReal Z, POpt (PLeaf Z), PList (PReal Z)]) ?_ ?_
  · der_seq
    · exact Der.opt (Der.tok _)
    · exact Der.anyOpt good_leaf (Der.tok _)
    · exact Der.anyOpt good_leaf (Der.tok _)
    · exact Der.tok _
    · exact Der.tok _
    · exact r_identifier hc
    · exact Der.opt (Der.tok _)
    · exact hc.1 nJoins
  · rintro lo hi v ⟨_, rfl, v0, _, m1, rfl, h0, v1, _, m2, rfl, h1, v2, _, m3, rfl, h2, v3, _, m4, rfl, h3, v4, _, m5, rfl, h4, v5, _, m6, rfl, h5, v6, _, m7, rfl, h6, v7, _, m8, rfl, ⟨l, rfl, hl⟩, rfl, hend⟩
    nth_simp
    simp only [kids_list]
    have e0 := POpt.le good_leaf h0
    have e1 : m1.le m2 = true := h1
    have e2 : m2.le m3 = true := h2
    have f3 := h3.facts; have f4 := h4.facts; have f5 := h5.facts
    have e6 := POpt.le good_leaf h6
    have e7 := PListL.le good_real hl
    have hkids : NodeOKL Z ([v5] ++ l) := NodeOKL.cons h5.ok (hl.nodeOK good_real)
    -- the end of the node: the last join, the `++` marker, or the source
    have hra : RA Z m5 (match l.getLast? with | some j => j.rng | none => if v6.isSome then v6.rng else v5.rng) :=
      RA.last hl (by pos_chain) (RA.opt good_leaf h6 (by pos_chain) (RA.item h5.1 (Pos.le_refl _)))
    rcases h0 with ⟨rfl, _⟩ | h0
    · simp only [isSome_none, Bool.false_eq_true, if_false]
      exact span_real_ra (a := v3) (by decide) (by decide) (good_item.mono h3.item (by pos_chain) (Pos.le_refl _)) (by pos_chain)
        (hra.mono (by pos_chain)) hkids
    · have f0 := h0.facts
      simp only [Tree.isSome, f0.2.2.2.2.2, Bool.not_false, if_true]
      exact span_real_ra (a := v0) (by decide) (by decide) h0.item (by pos_chain) (hra.mono (by pos_chain)) hkids

theorem d_gWhere : Der Γ Δ Z F gWhere (PReal Z) := by
  unfold gWhere
  refine Der.map (Q := PSeqN [PLeaf Z, PReal Z]) ?_ ?_
  · der_seq
    · exact Der.tok _
    · exact r_expr hc
  · rintro lo hi v ⟨_, rfl, v0, _, m1, rfl, h0, v1, _, m2, rfl, h1, rfl, hend⟩
    shape_simp
    exact good_real.mono h1 h0.le hend

theorem d_gUsing : Der Γ Δ Z F gUsing (PReal Z) := by
  unfold gUsing
  refine Der.map (Q := PSeqN [PLeaf Z, PReal Z]) ?_ ?_
  · der_seq
    · exact Der.tok _
    · exact r_identifier hc
  · rintro lo hi v ⟨_, rfl, v0, _, m1, rfl, h0, v1, _, m2, rfl, h1, rfl, hend⟩
    shape_simp
    exact good_real.mono h1 h0.le hend

theorem d_gOrderByItem : Der Γ Δ Z F gOrderByItem (PReal Z) := by
  unfold gOrderByItem
  refine Der.map (Q := PSeqN [PReal Z, POpt (PLeaf Z)]) ?_ ?_
  · der_seq
    · exact r_dotOps hc
    · exact Der.opt (Der.tok _)
  · rintro lo hi v ⟨_, rfl, v0, _, m1, rfl, h0, v1, _, m2, rfl, h1, rfl, hend⟩
    nth_simp
    have f0 := h0.facts; have e1 := POpt.le good_leaf h1
    exact span_real_ra (a := v0) (by decide) (by decide) h0.1 (by pos_chain)
      (RA.opt good_leaf h1 (by pos_chain) ⟨Pos.le_refl _, f0.2.2.1, f0.2.2.2.1⟩) (NodeOKL.one h0.ok)

theorem d_gOrderBy : Der Γ Δ Z F gOrderBy (PList (PReal Z)) := by
  unfold gOrderBy
  refine Der.map (Q := PSeqN [PLeaf Z, PLeaf Z, PList (PReal Z)]) ?_ ?_
  · der_seq
    · exact Der.tok _
    · exact Der.tok _
    · exact Der.sepListCtx (d_gOrderByItem hc) (hc.1 nOrderRec)
  · rintro lo hi v ⟨_, rfl, v0, _, m1, rfl, h0, v1, _, m2, rfl, h1, v2, _, m3, rfl, ⟨l, rfl, hl⟩, rfl, hend⟩
    shape_simp
    have e0 := h0.le; have e1 := h1.le
    exact ⟨l, rfl, (hl.mono_lo good_real (by pos_chain)).mono_hi good_real hend⟩

theorem d_gOqlFetch : Der Γ Δ Z F gOqlFetch (PReal Z) := by
  unfold gOqlFetch
  refine Der.map (Q := PSeqN [PLeaf Z, PLeaf Z, PLeaf Z, PList (PReal Z), POpt (PReal Z)]) ?_ ?_
  · der_seq
    · exact Der.tok _
    · exact Der.tok _
    · exact Der.tok _
    · exact Der.sepListCtx (r_dotOps hc) (hc.1 nDotOpsRec)
    · exact Der.opt (d_gUsing hc)
  · rintro lo hi v ⟨_, rfl, v0, _, m1, rfl, h0, v1, _, m2, rfl, h1, v2, _, m3, rfl, h2, v3, _, m4, rfl, ⟨l, rfl, hl⟩, v4, _, m5, rfl, h4, rfl, hend⟩
    nth_simp
    simp only [kids_list]
    have f0 := h0.facts; have e1 := h1.le; have f2 := h2.facts; have eL := PListL.le good_real hl
    have e4 := POpt.le good_real h4
    refine span_real_ra (a := v0) (by decide) (by decide) h0.item (by pos_chain)
      (RA.opt good_real h4 (by pos_chain) (RA.last hl (by pos_chain) (RA.item h2.item (by pos_chain))))
      (NodeOKL.append (hl.nodeOK good_real) (NodeOKL.optList good_real h4))

theorem d_gOqlSelect : Der Γ Δ Z F gOqlSelect (PReal Z) := by
  unfold gOqlSelect
  refine Der.map (Q := PSeqN [PLeaf Z, PLeaf Z, POpt (PReal Z), PAny, PList (PReal Z), PLeaf Z, PList (PReal Z),
      POpt (PReal Z), POpt (PList (PReal Z)), POpt (PReal Z)]) ?_ ?_
  · der_seq
    · exact Der.tok _
    · exact Der.tok _
    · exact Der.opt (d_gTopN hc)
    · exact Der.anyOpt good_leaf (Der.tok _)
    · exact Der.sepListCtx (d_gSelectItem hc) (hc.1 nSelectRec)
    · exact Der.tok _
    · exact Der.sepListCtx (d_gFromItem hc) (hc.1 nFromRec)
    · exact Der.opt (d_gWhere hc)
    · exact Der.opt (d_gOrderBy hc)
    · exact Der.opt (d_gUsing hc)
  · rintro lo hi v ⟨_, rfl, v0, _, m1, rfl, h0, v1, _, m2, rfl, h1, v2, _, m3, rfl, h2, v3, _, m4, rfl, h3, v4, _, m5, rfl, ⟨l4, rfl, hl4⟩, v5, _, m6, rfl, h5, v6, _, m7, rfl, ⟨l6, rfl, hl6⟩, v7, _, m8, rfl, h7, v8, _, m9, rfl, h8, v9, _, m10, rfl, h9, rfl, hend⟩
    nth_simp
    simp only [kids_list]
    have f0 := h0.facts; have f1 := h1.facts; have e2 := POpt.le good_real h2; have e3 : m3.le m4 = true := h3
    have e4 := PListL.le good_real hl4; have e5 := h5.le; have e6 := PListL.le good_real hl6
    have e7 := POpt.le good_real h7
    have e8 : m8.le m9 = true := by
      rcases h8 with ⟨_, h⟩ | ⟨l, _, h⟩
      · exact h
      · exact PListL.le good_real h
    have e9 := POpt.le good_real h9
    have S1 : RA Z v0.rng.s v1.rng := RA.item h1.item (by pos_chain)
    have S2 := RA.last (d := v1.rng) hl4 (show v0.rng.s.le m4 = true by pos_chain) S1
    have S3 := RA.last hl6 (show v0.rng.s.le m6 = true by pos_chain) S2
    have S4 := RA.opt good_real h7 (show v0.rng.s.le m7 = true by pos_chain) S3
    have hob := RA.optLast h8 (show v0.rng.s.le m8 = true by pos_chain) S4
    have S6 := RA.opt good_real h9 (show v0.rng.s.le m9 = true by pos_chain) hob.1
    exact span_real_ra (a := v0) (by decide) (by decide) h0.item (by pos_chain) S6
      (NodeOKL.append (NodeOKL.append (NodeOKL.append (NodeOKL.append (NodeOKL.append (NodeOKL.optList good_real h2)
        (hl4.nodeOK good_real)) (hl6.nodeOK good_real)) (NodeOKL.optList good_real h7)) hob.2) (NodeOKL.optList good_real h9))

theorem d_gOqlExpr : Der Γ Δ Z F gOqlExpr (PReal Z) := Der.alt (d_gOqlSelect hc) (d_gOqlFetch hc)

end

end Gold.C08
