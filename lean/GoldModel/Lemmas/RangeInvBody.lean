import GoldModel.Lemmas.RangeInvIf
/-!
T5, the Gold grammar, part 6: `switch`, `repeat`, the statement dispatcher, method bodies, OQL.
-/
namespace Gold.C08
open Gold Gold.Peg Gold.Gram

variable {Z : Pos} {F : Nat}

/-- only component selection, nothing else is unfolded -/
macro "nth_simp" : tactic =>
  `(tactic| simp only [nth_seq, List.getElem?_cons_zero, List.getElem?_cons_succ, List.getElem?_nil, Option.getD_some, Option.getD_none])

/-- a range that starts at or after `S` and is well-formed -/
def RA (Z S : Pos) (r : Range) : Prop := S.le r.s = true ∧ r.s.le r.e = true ∧ r.e.line ≤ Z.line

theorem RA.item {S lo hi : Pos} {v : Tree} (h : PItem Z lo hi v) (hS : S.le lo = true) : RA Z S v.rng :=
  ⟨Pos.le_trans hS h.facts.1, h.facts.2.2.1, h.facts.2.2.2.1⟩

theorem RA.opt {Q : Post} (hQ : Good Z Q) {S lo hi : Pos} {v : Tree} {d : Range} (h : POpt Q lo hi v) (hS : S.le lo = true)
    (hd : RA Z S d) : RA Z S (if v.isSome then v.rng else d) := by
  rcases h with ⟨rfl, _⟩ | h
  · exact hd
  · have := (hQ.item h).isNone
    simp only [Tree.isSome, this, Bool.not_false, if_true]
    exact RA.item (hQ.item h) hS

theorem RA.last {S lo hi : Pos} {l : List Tree} {d : Range} (h : PListL (PReal Z) lo hi l) (hS : S.le lo = true)
    (hd : RA Z S d) : RA Z S (match l.getLast? with | some n => n.rng | none => d) := by
  cases hg : l.getLast? with
  | none => exact hd
  | some n => exact RA.item (PListL.getLast good_real h hg).1 hS

theorem RA.mono {S S' : Pos} {r : Range} (h : RA Z S r) (h' : S'.le S = true) : RA Z S' r :=
  ⟨Pos.le_trans h' h.1, h.2⟩

/-- a node from item `a` to a range at or after it -/
theorem span_real_ra {lo m1 hi : Pos} {k i : String} {a : Tree} {r : Range} {kids : List Tree} {attrs : List String}
    (hk : groupKinds.contains k = false) (hs : selKindsR.contains k = false)
    (ha : PItem Z lo m1 a) (hm : m1.le hi = true) (hr : RA Z a.rng.s r) (hkids : NodeOKL Z kids) :
    PReal Z lo hi (mk k i (Range.span a.rng r) kids attrs) :=
  span_real_r hk hs ha hm hr.2.1 hr.2.2 hr.1 hkids

theorem span_real_ra_sel {lo m1 hi : Pos} {k i : String} {a n : Tree} {r : Range} {kids : List Tree} {attrs : List String}
    (hk : groupKinds.contains k = false) (ha : PItem Z lo m1 a) (hm : m1.le hi = true) (hr : RA Z a.rng.s r)
    (hkids : NodeOKL Z kids) (hn : NodeOK Z n) (h1 : a.rng.s.le n.rng.s = true) (h2 : n.rng.e.le r.e = true) :
    PReal Z lo hi (mk k i (Range.span a.rng r) kids attrs (some n.rng)) := by
  obtain ⟨a1, a2, _, _, _, _⟩ := ha.facts
  refine PReal.mk_sel hk a1 ?_ ?_ hr.2.2 hkids hn.rng.1 ?_
  · simp only [Range.span]; exact Pos.le_trans a2 hm
  · simp only [Range.span, Range.ok]; exact Pos.le_trans hr.1 hr.2.1
  · simp only [Range.within, Range.span, Bool.and_eq_true]; exact ⟨h1, h2⟩

theorem NodeOKL.optList' {Q : Post} (hQ : Good Z Q) {lo hi : Pos} {v : Tree} (h : POpt Q lo hi v) : NodeOKL Z (Gram.optList v) :=
  NodeOKL.optList hQ h

/-! ## switch / repeat -/

def PSwitchElse (Z : Pos) : Post := fun lo hi v =>
  ∃ b e, v = Tree.seq [b, e] ∧ POpt (PReal Z) lo hi b ∧ POpt (PLeaf Z) lo hi e

section
variable (hc : Ctx Γ Δ Z (QΓ Z) (QΔ Z) F)
include hc

theorem d_gSwitchElse : Der Γ Δ Z F gSwitchElse (PSwitchElse Z) := by
  unfold gSwitchElse
  refine Der.alt (Der.map (Q := PSeqN [PLeaf Z, PLoop Z (PLeaf Z)]) ?_ ?_) (Der.map (Der.opt (Der.tok _)) ?_)
  · der_seq
    · exact Der.tok _
    · exact hc.1 nUntilEndSwitch
  · rintro lo hi v ⟨_, rfl, v0, _, m1, rfl, h0, v1, _, m2, rfl, h1, rfl, hend⟩
    nth_simp
    obtain ⟨a, b, c, d, e, f⟩ := loopSpan good_leaf h0.item (Pos.le_refl _) h1
    exact ⟨_, _, rfl, Or.inr (good_real.mono (PReal.of_range (by decide) (by decide) ⟨a, b, c, d⟩ e) (Pos.le_refl _) hend),
      (f.mono_lo good_leaf h0.le).mono_hi good_leaf hend⟩
  · rintro lo hi v h
    exact ⟨_, _, rfl, Or.inl ⟨rfl, POpt.le good_leaf h⟩, h⟩

theorem d_gSwitch : Der Γ Δ Z F gSwitch (PReal Z) := by
  unfold gSwitch
  refine Der.map (Q := PSeqN [PLeaf Z, PReal Z, PList (PReal Z), PSwitchElse Z]) ?_ ?_
  · der_seq
    · exact Der.tok _
    · exact r_expr hc
    · exact hc.1 nWhenBlocks
    · exact d_gSwitchElse hc
  · rintro lo hi v ⟨_, rfl, v0, _, m1, rfl, h0, v1, _, m2, rfl, h1, v2, _, m3, rfl, ⟨l, rfl, hl⟩, v3, _, m4, rfl, ⟨b, e, rfl, hb, he⟩, rfl, hend⟩
    nth_simp
    have e1 := h1.le; have e2 := PListL.le good_real hl
    have f0 := h0.facts
    refine span_real_ra (a := v0) (by decide) (by decide) h0.item (show m1.le hi = true from ?_)
      (RA.opt good_leaf he (show v0.rng.s.le m3 = true by pos_chain) ⟨Pos.le_refl _, f0.2.2.1, f0.2.2.2.1⟩) ?_
    · have := POpt.le good_leaf he; pos_chain
    · exact NodeOKL.cons h1.ok (NodeOKL.append (hl.nodeOK good_real) (NodeOKL.optList good_real hb))

theorem d_gRepeatUntil : Der Γ Δ Z F gRepeatUntil (PLoop Z (PReal Z)) := by
  unfold gRepeatUntil
  have inner : Der Γ Δ Z F (.map loopCons (.seq (.recover .skipTok (.ref nStatement)) (.ref nRepeatUntil))) (PLoop Z (PReal Z)) := by
    refine Der.map (Der.seq (Der.recover (r_statement hc)) (hc.1 nRepeatUntil)) ?_
    rintro lo hi v ⟨_, rfl, x, _, m1, rfl, hx, tl, _, m2, rfl, htl, rfl, hend⟩
    exact loopCons_ok good_real hx htl hend
  refine Der.map (Der.ifEof ((Der.eps _).weaken ?_) (Der.ifTok (r_expr hc) inner)) ?_
  · rintro lo hi v ⟨rfl, h⟩
    exact Or.inr (PLoop.intro (m := lo) (Pos.le_refl _) (Or.inl ⟨rfl, h⟩))
  · rintro lo hi v (⟨_, rfl, va, _, m1, rfl, ⟨t, rfl, a, b, c, d⟩, vb, _, m2, rfl, hcond, rfl, hend⟩ | h)
    · show PLoop Z (PReal Z) lo hi (loopVal [] vb)
      refine PLoop.intro (m := lo) (Pos.le_refl _) (Or.inr (good_real.mono hcond ?_ hend))
      exact Pos.le_trans a c.1
    · obtain ⟨items, e, m, rfl, hl, he⟩ := h.elim good_real
      exact PLoop.intro hl he

theorem d_gRepeat : Der Γ Δ Z F gRepeat (PReal Z) := by
  unfold gRepeat
  refine Der.map (Q := PSeqN [PLeaf Z, PLoop Z (PReal Z)]) ?_ ?_
  · der_seq
    · exact Der.tok _
    · exact hc.1 nRepeatUntil
  · rintro lo hi v ⟨_, rfl, v0, _, m1, rfl, h0, v1, _, m2, rfl, h1, rfl, hend⟩
    nth_simp
    obtain ⟨a, b, c, d, e, f⟩ := loopSpan good_real h0.item (Pos.le_refl _) h1
    refine good_real.mono (PReal.of_range (by decide) (by decide) ⟨a, b, c, d⟩ (NodeOKL.one ?_)) (Pos.le_refl _) hend
    refine condBlock_ok c d ?_ e
    intro c' hc'
    try simp only [nth_seq, List.getElem?_cons_zero, List.getElem?_cons_succ, Option.getD_some] at hc'
    rcases f with ⟨hn, _⟩ | f
    · simp [hn, Tree.isSome, isNone_none] at hc'
    · have := f.1.isNone
      simp only [Tree.isSome, this, Bool.not_false, if_true, Option.some.injEq] at hc'
      subst hc'; exact f.ok

/-! ## the statement dispatcher and bodies -/

theorem d_gStatement : Der Γ Δ Z F gStatement (PReal Z) := by
  unfold gStatement
  der_alt
  · exact d_gIf hc
  · exact d_gFor hc
  · exact d_gForEach hc
  · exact d_gWhile hc
  · exact d_gLoop hc
  · exact d_gSwitch hc
  · exact d_gRepeat hc
  · exact d_gComment
  · exact d_gUses hc
  · exact d_gConstDecl
  · exact d_gTypeDecl hc
  · exact d_gLocalVar hc
  · exact d_gControl hc
  · exact r_oqlExpr hc
  · exact d_gAssignment hc
  · exact r_expr hc

theorem d_gBody : Der Γ Δ Z F gBody (PList (PReal Z)) := by
  unfold gBody
  refine Der.ifEof ((Der.eps _).weaken (fun _ _ _ h => ⟨[], h.1, h.2⟩))
    (Der.map (Der.seq (Der.recover (r_statement hc)) (hc.1 nBody)) ?_)
  rintro lo hi v ⟨_, rfl, x, _, m1, rfl, hx, tl, _, m2, rfl, ⟨l, rfl, hl⟩, rfl, hend⟩
  have hl' := hl.mono_hi good_real hend
  rcases hx with ⟨rfl, hle⟩ | hx
  · shape_simp
    exact ⟨l, rfl, hl'.mono_lo good_real hle⟩
  · shape_simp [hx.1.isNone]
    exact ⟨_, rfl, m1, hx, hl'⟩

end

end Gold.C08
