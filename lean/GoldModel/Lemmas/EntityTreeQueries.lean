import GoldModel.Lemmas.EntityTree
/-!
Specification of C13 (the declared inheritance relation of a list of files) and the proof
that every tree that `Represents` the files answers the hierarchy queries with it.
-/
set_option linter.unusedSectionVars false
namespace Gold.Tree

variable {α : Type} [DecidableEq α]

/-! ### the declared relation -/
namespace Spec

/-- the parent class `c` declares, as spelled in its `class c (parent)` line -/
def parentOf (norm : α → α) (fs : List (FileInfo α)) (c : α) : Option α :=
  (classFile norm fs c).bind (·.parent)

/-- supertypes the property demands: the declared parent, if it is a class of the workspace -/
def supers (norm : α → α) (fs : List (FileInfo α)) (c : α) : List α :=
  match parentOf norm fs c with
  | none => []
  | some p => ((classFile norm fs p).map (·.cls)).toList

/-- file `f` declares `c` as its parent (names compared through `norm`) -/
def declaresParent (norm : α → α) (c : α) (f : FileInfo α) : Bool :=
  match f.parent with
  | some p => norm p = norm c
  | none => false

/-- subtypes the property demands: the classes that declare `c` as parent -/
def subs (norm : α → α) (fs : List (FileInfo α)) (c : α) : List α :=
  (fs.filter (declaresParent norm c)).map (·.cls)

/-- `d` is the nearest class strictly above `c` (along declared parents) that declares `m` -/
inductive NearestUp (norm : α → α) (fs : List (FileInfo α)) (m : α) : α → α → Prop where
  | here {c p : α} {g : FileInfo α} : parentOf norm fs c = some p → classFile norm fs p = some g →
      declares norm g m = true → NearestUp norm fs m c g.cls
  | up {c p d : α} {g : FileInfo α} : parentOf norm fs c = some p → classFile norm fs p = some g →
      declares norm g m = false → NearestUp norm fs m g.cls d → NearestUp norm fs m c d

/-- `d` is a nearest class strictly below `c` that declares `m`: no class between them does -/
inductive NearestDown (norm : α → α) (fs : List (FileInfo α)) (m : α) : α → α → Prop where
  | here {c : α} {g : FileInfo α} : g ∈ fs → declaresParent norm c g = true →
      declares norm g m = true → NearestDown norm fs m c g.cls
  | down {c d : α} {g : FileInfo α} : g ∈ fs → declaresParent norm c g = true →
      declares norm g m = false → NearestDown norm fs m g.cls d → NearestDown norm fs m c d

end Spec

/-! ### basic facts -/

theorem classFile_congr (norm : α → α) (fs : List (FileInfo α)) {a b : α} (h : norm a = norm b) :
    classFile norm fs a = classFile norm fs b := by
  simp only [classFile, h]

theorem classFile_mem {norm : α → α} {fs : List (FileInfo α)} {a : α} {f : FileInfo α}
    (h : classFile norm fs a = some f) : f ∈ fs ∧ norm f.cls = norm a := by
  refine ⟨List.mem_of_find?_eq_some h, ?_⟩
  simpa using List.find?_some h

theorem classFile_of_mem {norm : α → α} {fs : List (FileInfo α)} (hk : KeysInj norm fs)
    {f : FileInfo α} (hf : f ∈ fs) {a : α} (h : norm f.cls = norm a) : classFile norm fs a = some f := by
  cases hc : classFile norm fs a with
  | none =>
    have := List.find?_eq_none.mp hc f hf
    simp [h] at this
  | some g =>
    obtain ⟨hg, hg'⟩ := classFile_mem hc
    rw [hk g hg f hf (by rw [hg', h])]

theorem roots_sub_liveSet (norm : α → α) (t : Tree α) (k : Nat) : ∀ n, n ∈ t.roots norm → n ∈ t.liveSet norm k := by
  induction k with
  | zero => intro n h; exact h
  | succ k ih => intro n h; exact List.mem_append_left _ (ih n h)

theorem TreeInv.live {norm : α → α} {fs : List (FileInfo α)} {t : Tree α} (h : TreeInv norm fs t)
    {k : α} {n : Nat} (hm : t.map k = some n) : t.live norm n = true := by
  obtain ⟨nm, h1, h2⟩ := h.mid k n hm
  simp only [Tree.live, List.contains_iff_mem]
  apply roots_sub_liveSet
  simp only [Tree.roots, List.mem_filterMap, List.mem_map]
  exact ⟨k, ⟨nm, List.mem_of_getElem? h1, h2⟩, hm⟩

/-- the node of a declared class has exactly the declared parent link -/
theorem Represents.parent_none {norm : α → α} {fs : List (FileInfo α)} {t : Tree α} (R : Represents norm fs t)
    (hk : KeysInj norm fs) {f : FileInfo α} (hf : f ∈ fs) (hp : f.parent = none) {e : Nat}
    (he : t.map (norm f.cls) = some e) : t.parent e = none := by
  cases hq : t.parent e with
  | none => rfl
  | some q =>
    obtain ⟨g, hg, p, h1, h2, _⟩ := R.tree.par e q hq
    have : g = f := hk g hg f hf (R.tree.inj h2 he)
    subst this
    rw [hp] at h1; cases h1

theorem Represents.item {norm : α → α} {fs : List (FileInfo α)} {t : Tree α} (R : Represents norm fs t)
    {k : α} {n : Nat} (hm : t.map k = some n) :
    ∃ nm, t.ids[n]? = some nm ∧ norm nm = k ∧
      t.item norm fs n = if classExists norm fs nm then some nm else none := by
  obtain ⟨nm, h1, h2⟩ := R.tree.mid k n hm
  exact ⟨nm, h1, h2, by simp [Tree.item, h1]⟩

/-! ### class hierarchy -/

theorem supertypes_spec {norm : α → α} {fs : List (FileInfo α)} {t : Tree α} (hk : KeysInj norm fs)
    (R : Represents norm fs t) (c : α) :
    ∃ l, supertypes norm fs t c = some l ∧ l.map norm = (Spec.supers norm fs c).map norm := by
  cases hcf : classFile norm fs c with
  | none =>
    have hs : Spec.supers norm fs c = [] := by simp [Spec.supers, Spec.parentOf, hcf]
    rw [hs]
    refine ⟨[], ?_, rfl⟩
    cases hm : t.map (norm c) with
    | none => simp [supertypes, hm]
    | some n =>
      cases hq : t.parent n with
      | none => simp [supertypes, hm, hq]
      | some q =>
        obtain ⟨g, hg, p, _, h2, _⟩ := R.tree.par n q hq
        have := List.find?_eq_none.mp hcf g hg
        simp [R.tree.inj h2 hm] at this
  | some f =>
    obtain ⟨hf, hfc⟩ := classFile_mem hcf
    obtain ⟨e, he, hd⟩ := R.all f hf
    rw [hfc] at he
    cases hp : f.parent with
    | none =>
      have hs : Spec.supers norm fs c = [] := by simp [Spec.supers, Spec.parentOf, hcf, hp]
      rw [hs]
      refine ⟨[], ?_, rfl⟩
      have := R.parent_none hk hf hp (by rw [hfc]; exact he)
      simp [supertypes, he, this]
    | some p =>
      obtain ⟨pe, h1, h2, _⟩ := hd p hp
      obtain ⟨nm, i1, i2, i3⟩ := R.item h1
      have hlive := R.tree.live h1
      have hcfp : classFile norm fs nm = classFile norm fs p := classFile_congr norm fs i2
      have hs : Spec.supers norm fs c = ((classFile norm fs p).map (·.cls)).toList := by
        simp [Spec.supers, Spec.parentOf, hcf, hp]
      rw [hs]
      refine ⟨(t.item norm fs pe).toList, by simp [supertypes, he, h2, hlive], ?_⟩
      rw [i3]
      simp only [classExists, hcfp]
      cases hg : classFile norm fs p with
      | none => simp
      | some g =>
        obtain ⟨_, hgc⟩ := classFile_mem hg
        simp [hgc, i2]

theorem subtypes_spec {norm : α → α} {fs : List (FileInfo α)} {t : Tree α} (hk : KeysInj norm fs)
    (R : Represents norm fs t) (c : α) :
    ∀ x, x ∈ (subtypes norm fs t c).map norm ↔ x ∈ (Spec.subs norm fs c).map norm := by
  intro x
  constructor
  · intro hx
    obtain ⟨nm, hnm, rfl⟩ := List.mem_map.mp hx
    unfold subtypes at hnm
    cases hm : t.map (norm c) with
    | none => simp [hm] at hnm
    | some n =>
      simp only [hm, List.mem_filterMap] at hnm
      obtain ⟨ch, hch, hitem⟩ := hnm
      obtain ⟨f, hf, p, h1, h2, h3⟩ := R.tree.chl n ch hch
      obtain ⟨nm', i1, i2, i3⟩ := R.item h2
      have : nm' = nm := by
        rw [i3] at hitem
        split at hitem
        · cases hitem; rfl
        · cases hitem
      subst this
      have hpc : norm p = norm c := R.tree.inj h3 hm
      refine List.mem_map.mpr ⟨f.cls, ?_, i2.symm⟩
      simp only [Spec.subs, List.mem_map, List.mem_filter]
      exact ⟨f, ⟨hf, by simp [Spec.declaresParent, h1, hpc]⟩, rfl⟩
  · intro hx
    simp only [Spec.subs, List.map_map, List.mem_map, List.mem_filter] at hx
    obtain ⟨f, ⟨hf, hdp⟩, rfl⟩ := hx
    cases hp : f.parent with
    | none => simp [Spec.declaresParent, hp] at hdp
    | some p =>
      have hpc : norm p = norm c := by simpa [Spec.declaresParent, hp] using hdp
      obtain ⟨e, he, hd⟩ := R.all f hf
      obtain ⟨pe, h1, _, h3⟩ := hd p hp
      obtain ⟨nm, i1, i2, i3⟩ := R.item he
      have hex : classExists norm fs nm = true := by
        simp only [classExists]
        rw [classFile_of_mem hk hf i2.symm]; rfl
      rw [hpc] at h1
      refine List.mem_map.mpr ⟨nm, ?_, i2⟩
      simp only [subtypes, h1, List.mem_filterMap]
      exact ⟨e, h3, by rw [i3, hex]; rfl⟩

theorem nodup_filterMap_map {β γ δ : Type} (f : β → Option γ) (g : γ → δ) :
    ∀ (l : List β), l.Nodup → (∀ x ∈ l, ∀ y ∈ l, ∀ a b, f x = some a → f y = some b → g a = g b → x = y) →
      ((l.filterMap f).map g).Nodup := by
  intro l
  induction l with
  | nil => intro _ _; exact List.nodup_nil
  | cons x rest ih =>
    intro hnd hinj
    rw [List.nodup_cons] at hnd
    have hrest := ih hnd.2 (fun a ha b hb => hinj a (List.mem_cons_of_mem _ ha) b (List.mem_cons_of_mem _ hb))
    simp only [List.filterMap_cons]
    cases hx : f x with
    | none => exact hrest
    | some a =>
      simp only [List.map_cons, List.nodup_cons]
      refine ⟨?_, hrest⟩
      intro hmem
      obtain ⟨b, hb, hgb⟩ := List.mem_map.mp hmem
      obtain ⟨y, hy, hfy⟩ := List.mem_filterMap.mp hb
      have := hinj x List.mem_cons_self y (List.mem_cons_of_mem _ hy) a b hx hfy hgb.symm
      exact hnd.1 (this ▸ hy)

/-- a class is listed once among the subtypes -/
theorem subtypes_nodup {norm : α → α} {fs : List (FileInfo α)} {t : Tree α}
    (R : Represents norm fs t) (c : α) : ((subtypes norm fs t c).map norm).Nodup := by
  unfold subtypes
  cases hm : t.map (norm c) with
  | none => exact List.nodup_nil
  | some n =>
    apply nodup_filterMap_map _ _ _ (R.tree.chn n)
    intro x _ y _ a b hx hy hab
    have ha : t.ids[x]? = some a := by
      simp only [Tree.item] at hx
      split at hx
      · split at hx
        · cases hx; assumption
        · cases hx
      · cases hx
    have hb : t.ids[y]? = some b := by
      simp only [Tree.item] at hy
      split at hy
      · split at hy
        · cases hy; assumption
        · cases hy
      · cases hy
    have h1 := R.tree.mall x a ha
    have h2 := R.tree.mall y b hb
    rw [hab] at h1
    rw [h1] at h2
    cases h2; rfl

end Gold.Tree
