import GoldModel.Model.Server
/-! helper lemmas about M-SRV: no handler panics once the key conversion returns `Err`;
    the loop invariant (every request read adds exactly one id to `sent ∪ jobs`). -/
namespace Gold.Srv
open Gold.Doc

/-! ### no panic without the `unwrap` -/

theorem bind_ne_panic {α β : Type} (r : Res α) (f : α → Res β)
    (hr : ∀ a, r = .ok a → f a ≠ .panic) (hp : r ≠ .panic) : r.bind f ≠ .panic := by
  cases r with
  | ok a => exact hr a rfl
  | err => simp [Res.bind]
  | panic => exact absurd rfl hp

theorem keyFor_ne_panic (cfg : Cfg) (h : cfg.keyPanics = false) (fs : FS) (u : Uri) :
    keyFor cfg fs u ≠ .panic := by
  cases u with
  | other s => simp [keyFor]
  | file p =>
    simp only [keyFor]
    cases fs p <;> simp [h]

theorem getInfo_ne_panic (cfg : Cfg) (h : cfg.keyPanics = false) (fs : FS) (s : Store) (u : Uri) :
    getInfo cfg fs s u ≠ .panic := by
  unfold getInfo
  apply bind_ne_panic _ _ _ (keyFor_ne_panic cfg h fs u)
  intro p _
  cases s.byPath p <;> simp

theorem parseDisk_ne_panic (fs : FS) (i : Info) : parseDisk fs i ≠ .panic := by
  unfold parseDisk
  cases fs i.filePath with
  | none => simp
  | some nd => cases nd <;> simp

theorem getParsed_ne_panic (cfg : Cfg) (h : cfg.keyPanics = false) (fs : FS) (s : Store) (u : Uri)
    (c : Bool) : getParsed cfg fs s u c ≠ .panic := by
  unfold getParsed
  apply bind_ne_panic _ _ _ (getInfo_ne_panic cfg h fs s u)
  rintro ⟨s₁, p, i⟩ _
  simp only
  cases i.opened with
  | some d => simp
  | none =>
    cases i.saved with
    | some d => simp
    | none =>
      apply bind_ne_panic _ _ _ (parseDisk_ne_panic fs i)
      intro d _
      cases c <;> simp

theorem docSymbols_ne_panic (cfg : Cfg) (h : cfg.keyPanics = false) (fs : FS) (s : Store) (u : Uri) :
    docSymbols cfg fs s u ≠ .panic := by
  unfold docSymbols
  apply bind_ne_panic _ _ _ (getParsed_ne_panic cfg h fs s u true)
  rintro ⟨s₁, p, sl, d⟩ _
  simp

theorem change_ne_panic (cfg : Cfg) (h : cfg.keyPanics = false) (fs : FS) (s : Store) (u : Uri) (t : Text) :
    change cfg fs s u t ≠ .panic := by
  unfold change
  apply bind_ne_panic _ _ _ (getInfo_ne_panic cfg h fs s u)
  rintro ⟨s₁, p, i⟩ _
  simp

theorem opened_ne_panic (cfg : Cfg) (h : cfg.keyPanics = false) (fs : FS) (s : Store) (u : Uri) :
    opened cfg fs s u ≠ .panic := by
  unfold opened
  apply bind_ne_panic _ _ _ (getInfo_ne_panic cfg h fs s u)
  rintro ⟨s₁, p, i⟩ _
  simp

theorem saved_ne_panic (cfg : Cfg) (h : cfg.keyPanics = false) (norm : String → String) (fs : FS)
    (root : Root) (s : Store) (u : Uri) : saved cfg norm fs root s u ≠ .panic := by
  unfold saved
  apply bind_ne_panic _ _ _ (getInfo_ne_panic cfg h fs s u)
  rintro ⟨s₁, p, i⟩ _
  cases root with
  | none => simp
  | some re => obtain ⟨r, es⟩ := re; simp

theorem closed_ne_panic (cfg : Cfg) (h : cfg.keyPanics = false) (fs : FS) (s : Store) (u : Uri) :
    closed cfg fs s u ≠ .panic := by
  unfold closed
  have := getInfo_ne_panic cfg h fs s u
  cases hg : getInfo cfg fs s u with
  | ok a => obtain ⟨s₁, p, i⟩ := a; simp
  | err => simp
  | panic => exact absurd hg this

theorem consultPanics_false (cfg : Cfg) (h : cfg.keyPanics = false) (fs : FS) (us : List Uri) :
    consultPanics cfg fs us = false := by
  unfold consultPanics
  rw [List.any_eq_false]
  intro u _
  have := keyFor_ne_panic cfg h fs u
  cases hk : keyFor cfg fs u with
  | ok a => simp
  | err => simp
  | panic => exact absurd hk this

theorem ofRes_ne_panic {α : Type} (r : Res α) (h : r ≠ .panic) : Outcome.ofRes r ≠ .panic := by
  cases r with
  | ok a => simp [Outcome.ofRes]
  | err => simp [Outcome.ofRes]
  | panic => exact absurd rfl h

theorem handleRequest_ne_panic (cfg : Cfg) (h : cfg.keyPanics = false) (an : Analysis) (fs : FS)
    (s : Store) (m : String) (p : Params) : (handleRequest cfg an fs s m p).1 ≠ .panic := by
  unfold handleRequest
  have hgi := getInfo_ne_panic cfg h fs s p.uri
  split
  · cases hg : getInfo cfg fs s p.uri with
    | ok a =>
      obtain ⟨s₁, q, i⟩ := a
      simp only
      have hd := docSymbols_ne_panic cfg h fs s₁ p.uri
      cases hds : docSymbols cfg fs s₁ p.uri with
      | ok b => simp
      | err => simp
      | panic => exact absurd hds hd
    | err => simp
    | panic => exact absurd hg hgi
  · split
    · simp only [consultPanics_false cfg h, Bool.false_eq_true, if_false]
      by_cases hf : an.finds m p = true <;> simp [hf]
    · cases hg : getInfo cfg fs s p.uri with
      | ok a =>
        obtain ⟨s₁, q, i⟩ := a
        simp only
        have hd := getParsed_ne_panic cfg h fs s₁ p.uri true
        cases hds : getParsed cfg fs s₁ p.uri true with
        | ok b =>
          simp only [consultPanics_false cfg h, Bool.false_eq_true, if_false]
          by_cases hdm : m = "textDocument/diagnostic"
          · simp [hdm]
          · by_cases hf : an.finds m p = true <;> simp [hdm, hf]
        | err => simp
        | panic => exact absurd hds hd
      | err => simp
      | panic => exact absurd hg hgi

theorem handleNotification_ne_panic (cfg : Cfg) (h : cfg.keyPanics = false) (norm : String → String)
    (fs : FS) (root : Root) (s : Store) (m : String) (u : Uri) (t : Option Text) (g : Bool) :
    (handleNotification cfg norm fs root s m u t g).1 ≠ .panic := by
  unfold handleNotification
  simp only
  split
  · cases t with
    | some t => exact ofRes_ne_panic _ (change_ne_panic cfg h fs s u t)
    | none => simp
  · split
    · exact ofRes_ne_panic _ (saved_ne_panic cfg h norm fs root s u)
    · split
      · cases g with
        | true => exact ofRes_ne_panic _ (opened_ne_panic cfg h fs s u)
        | false => simp
      · split
        · exact ofRes_ne_panic _ (closed_ne_panic cfg h fs s u)
        · simp

/-! ### the loop invariant -/

/-- every id the server has answered or will answer through a queued job -/
def St.ids (st : St) : List Id := st.sent.map (·.1) ++ st.jobs.map (·.1)

def St.jobsOk (st : St) : Prop := ∀ j ∈ st.jobs, j.2 ≠ .panic

/-- the phase the loop ends in when nothing panics: a function of the script alone -/
def endPhase : List Msg → Phase
  | [] => .running
  | .shutdown _ :: [] => .waiting
  | .shutdown _ :: .exit :: _ => .stopped 0
  | .shutdown _ :: _ :: _ => .stopped 1
  | .exit :: _ => .stopped 0
  | _ :: rest => endPhase rest

/-- the repaired server: nothing panics, the fall-through answers -/
structure Repaired (e : Env) : Prop where
  key : e.cfg.keyPanics = false
  fall : e.disp.fallthroughResponds = true

theorem handle_spec (e : Env) (hr : Repaired e) (st : St) (m : Msg)
    (hm₁ : ∀ i, m ≠ .shutdown i) (hm₂ : m ≠ .exit) (hj : st.jobsOk) :
    (∀ i, (handle e st m).ids.count i = st.ids.count i + (received [m]).count i) ∧
    (handle e st m).jobsOk ∧ (handle e st m).phase = st.phase := by
  cases m with
  | shutdown i => exact absurd rfl (hm₁ i)
  | exit => exact absurd rfl hm₂
  | response i => simp [handle, received, hj]
  | notification meth u t g =>
    simp only [handle, received]
    split
    · have := handleNotification_ne_panic e.cfg hr.key e.norm e.fs e.root st.store meth u t g
      cases hn : handleNotification e.cfg e.norm e.fs e.root st.store meth u t g with
      | mk o s =>
        rw [hn] at this
        cases o with
        | panic => exact absurd rfl this
        | ok => exact ⟨by intro i; simp [St.ids], hj, rfl⟩
        | err => exact ⟨by intro i; simp [St.ids], hj, rfl⟩
    · exact ⟨by intro i; simp, hj, rfl⟩
  | request id meth p =>
    simp only [handle, received]
    have hne := handleRequest_ne_panic e.cfg hr.key e.an e.fs st.store meth p
    cases lookupMethod meth e.disp.requests with
    | none =>
      simp only [hr.fall, if_true]
      refine ⟨?_, hj, by first | rfl | trivial⟩
      intro i
      simp only [St.ids, List.map_append, List.map_cons, List.map_nil, List.count_append,
        List.count_cons, List.count_nil]
      omega
    | some viaPool =>
      cases viaPool with
      | false =>
        simp only
        cases hh : handleRequest e.cfg e.an e.fs st.store meth p with
        | mk o s =>
          rw [hh] at hne
          cases o with
          | panic => exact absurd rfl hne
          | ok =>
            refine ⟨?_, hj, by first | rfl | trivial⟩
            intro i
            simp only [St.ids, List.map_append, List.map_cons, List.map_nil, List.count_append,
              List.count_cons, List.count_nil]
            omega
          | err =>
            refine ⟨?_, hj, by first | rfl | trivial⟩
            intro i
            simp only [St.ids, List.map_append, List.map_cons, List.map_nil, List.count_append,
              List.count_cons, List.count_nil]
            omega
      | true =>
        simp only
        refine ⟨?_, ?_, by first | rfl | trivial⟩
        · intro i
          simp only [St.ids, List.map_append, List.map_cons, List.map_nil, List.count_append,
            List.count_cons, List.count_nil]
          omega
        · intro j hjm
          simp only [List.mem_append, List.mem_singleton] at hjm
          cases hjm with
          | inl h => exact hj j h
          | inr h => subst h; exact hne

theorem loop_spec (e : Env) (hr : Repaired e) (ms : List Msg) (st : St)
    (hp : st.phase = .running) (hj : st.jobsOk) :
    (∀ i, (loop e st ms).ids.count i = st.ids.count i + (received ms).count i) ∧
    (loop e st ms).jobsOk ∧ (loop e st ms).phase = endPhase ms := by
  induction ms generalizing st with
  | nil => simp [loop, received, endPhase, hj, hp]
  | cons m rest ih =>
    cases m with
    | shutdown id =>
      simp only [loop, hp, received]
      have hcount : ∀ i, (st.sent.map (·.1) ++ [id] ++ st.jobs.map (·.1)).count i
          = st.ids.count i + [id].count i := by
        intro i
        simp only [St.ids, List.count_append, List.count_cons, List.count_nil]
        omega
      cases rest with
      | nil => exact ⟨by intro i; simpa [St.ids] using hcount i, hj, by first | rfl | trivial⟩
      | cons m' rest' =>
        cases m' <;> exact ⟨by intro i; simpa [St.ids] using hcount i, hj, by first | rfl | trivial⟩
    | exit =>
      simp only [loop, hp, received, endPhase]
      exact ⟨by intro i; simp [St.ids], hj, by first | rfl | trivial⟩
    | request id meth p =>
      have hs := handle_spec e hr st (.request id meth p) (by intro i; simp) (by simp) hj
      simp only [loop, hp]
      have := ih (handle e st (.request id meth p)) (by rw [hs.2.2, hp]) hs.2.1
      refine ⟨?_, this.2.1, by rw [this.2.2]; rfl⟩
      intro i
      rw [this.1 i, hs.1 i]
      simp only [received, List.count_cons, List.count_nil]
      omega
    | notification meth u t g =>
      have hs := handle_spec e hr st (.notification meth u t g) (by intro i; simp) (by simp) hj
      simp only [loop, hp]
      have := ih (handle e st (.notification meth u t g)) (by rw [hs.2.2, hp]) hs.2.1
      refine ⟨?_, this.2.1, by rw [this.2.2]; rfl⟩
      intro i
      rw [this.1 i, hs.1 i]
      simp [received]
    | response id =>
      have hs := handle_spec e hr st (.response id) (by intro i; simp) (by simp) hj
      simp only [loop, hp]
      have := ih (handle e st (.response id)) (by rw [hs.2.2, hp]) hs.2.1
      refine ⟨?_, this.2.1, by rw [this.2.2]; rfl⟩
      intro i
      rw [this.1 i, hs.1 i]
      simp [received]

theorem endPhase_alive (ms : List Msg) :
    (endPhase ms = .running ∨ endPhase ms = .waiting) ∨ ToldToStop ms := by
  induction ms with
  | nil => exact Or.inl (Or.inl rfl)
  | cons m rest ih =>
    cases m with
    | shutdown i => exact Or.inr ⟨_, List.mem_cons_self, rfl⟩
    | exit => exact Or.inr ⟨_, List.mem_cons_self, rfl⟩
    | request id meth p =>
      cases ih with
      | inl h => exact Or.inl h
      | inr h => obtain ⟨m, hm, hs⟩ := h; exact Or.inr ⟨m, List.mem_cons_of_mem _ hm, hs⟩
    | notification meth u t g =>
      cases ih with
      | inl h => exact Or.inl h
      | inr h => obtain ⟨m, hm, hs⟩ := h; exact Or.inr ⟨m, List.mem_cons_of_mem _ hm, hs⟩
    | response id =>
      cases ih with
      | inl h => exact Or.inl h
      | inr h => obtain ⟨m, hm, hs⟩ := h; exact Or.inr ⟨m, List.mem_cons_of_mem _ hm, hs⟩

theorem endPhase_shutdown_exit (pre : List Msg) (i : Id) (post : List Msg)
    (h : ∀ m ∈ pre, stops m = false) : endPhase (pre ++ [.shutdown i, .exit] ++ post) = .stopped 0 := by
  induction pre with
  | nil => rfl
  | cons m rest ih =>
    have hm := h m List.mem_cons_self
    have := ih (fun m' hm' => h m' (List.mem_cons_of_mem _ hm'))
    cases m with
    | shutdown j => simp [stops] at hm
    | exit => simp [stops] at hm
    | request id meth p => simpa [endPhase] using this
    | notification meth u t g => simpa [endPhase] using this
    | response id => simpa [endPhase] using this

theorem filterMap_jobResponse_ids (js : List Job) (h : ∀ j ∈ js, j.2 ≠ .panic) :
    (js.filterMap jobResponse).map (·.1) = js.map (·.1) := by
  induction js with
  | nil => rfl
  | cons j js ih =>
    obtain ⟨id, o⟩ := j
    have hj := h (id, o) List.mem_cons_self
    have := ih (fun j hm => h j (List.mem_cons_of_mem _ hm))
    cases o with
    | panic => exact absurd rfl hj
    | ok => simp [jobResponse, this]
    | err => simp [jobResponse, this]

end Gold.Srv
