import GoldModel.Lemmas.RangeInv
/-!
T5, the Gold grammar: derived rules for the composite combinators of `Model/Grammar.lean`
(`seqL`, `altL`, `toks`, the separated lists, the statement loops, the binary-operator folds) and
preservation lemmas for the node-building functions the semantic actions share.
-/
namespace Gold.C08
open Gold Gold.Peg Gold.Gram

variable {Z : Pos} {F : Nat}

/-! ## monotonicity and what every item provides -/

/-- a postcondition that describes a leaf or an AST node, and survives widening of the interval -/
structure Good (Z : Pos) (Q : Post) : Prop where
  mono : ∀ {lo hi lo' hi' v}, Q lo hi v → lo'.le lo = true → hi.le hi' = true → Q lo' hi' v
  item : ∀ {lo hi v}, Q lo hi v → PItem Z lo hi v

theorem PItem.le {lo hi : Pos} {v : Tree} (h : PItem Z lo hi v) : lo.le hi = true := Pos.le_trans h.1 h.2.1

theorem good_item : Good Z (PItem Z) where
  mono h h1 h2 := ⟨Pos.le_trans h1 h.1, Pos.le_trans h.2.1 h2, h.2.2⟩
  item h := h

theorem good_real : Good Z (PReal Z) where
  mono h h1 h2 := ⟨good_item.mono h.1 h1 h2, h.2⟩
  item h := h.1

theorem good_leaf : Good Z (PLeaf Z) where
  mono h h1 h2 := by
    obtain ⟨t, rfl, a, b, c, d⟩ := h
    exact ⟨t, rfl, Pos.le_trans h1 a, b, c.mono h2, d⟩
  item h := h.item

theorem PListL.le {Q : Post} (hQ : Good Z Q) : ∀ {l : List Tree} {lo hi : Pos}, PListL Q lo hi l → lo.le hi = true
  | [], _, _, h => h
  | _ :: _, _, _, ⟨_, h1, h2⟩ => Pos.le_trans (hQ.item h1).le (PListL.le hQ h2)

theorem PListL.mono_lo {Q : Post} (hQ : Good Z Q) : ∀ {l : List Tree} {lo hi lo' : Pos}, PListL Q lo hi l → lo'.le lo = true →
    PListL Q lo' hi l
  | [], _, _, _, h, h1 => Pos.le_trans h1 h
  | _ :: _, _, _, _, ⟨m, h2, h3⟩, h1 => ⟨m, hQ.mono h2 h1 (Pos.le_refl _), h3⟩

theorem PListL.mono_hi {Q : Post} (hQ : Good Z Q) : ∀ {l : List Tree} {lo hi hi' : Pos}, PListL Q lo hi l → hi.le hi' = true →
    PListL Q lo hi' l
  | [], _, _, _, h, h1 => Pos.le_trans h h1
  | _ :: _, _, _, _, ⟨m, h2, h3⟩, h1 => ⟨m, h2, PListL.mono_hi hQ h3 h1⟩

theorem PListL.cons {Q : Post} (hQ : Good Z Q) {l : List Tree} {lo mid mid' hi : Pos} {v : Tree}
    (hv : Q lo mid v) (hm : mid.le mid' = true) (hl : PListL Q mid' hi l) : PListL Q lo hi (v :: l) :=
  ⟨mid, hv, hl.mono_lo hQ hm⟩

theorem PListL.append {Q : Post} (hQ : Good Z Q) : ∀ {l1 l2 : List Tree} {lo mid hi : Pos},
    PListL Q lo mid l1 → PListL Q mid hi l2 → PListL Q lo hi (l1 ++ l2)
  | [], _, _, _, _, h1, h2 => h2.mono_lo hQ h1
  | _ :: _, _, _, _, _, ⟨m, h3, h4⟩, h2 => ⟨m, h3, PListL.append hQ h4 h2⟩

/-! ## lists of checked nodes -/

theorem NodeOKL.nil : NodeOKL Z [] := ⟨rfl, Nat.zero_le _⟩

theorem NodeOKL.cons {v : Tree} {l : List Tree} (hv : NodeOK Z v) (hl : NodeOKL Z l) : NodeOKL Z (v :: l) :=
  ⟨by simp only [Tree.rangesOKList, hv.1, hl.1, Bool.and_self], by
    simp only [Tree.maxLine.maxLineList]; exact Nat.max_le.mpr ⟨hv.2, hl.2⟩⟩

theorem NodeOKL.append : ∀ {l1 l2 : List Tree}, NodeOKL Z l1 → NodeOKL Z l2 → NodeOKL Z (l1 ++ l2)
  | [], _, _, h2 => h2
  | v :: l, _, h1, h2 => by
    have hv : NodeOK Z v := by
      obtain ⟨a, b⟩ := h1
      simp only [Tree.rangesOKList, Bool.and_eq_true] at a
      simp only [Tree.maxLine.maxLineList] at b
      exact ⟨a.1, Nat.le_trans (Nat.le_max_left _ _) b⟩
    have hl : NodeOKL Z l := by
      obtain ⟨a, b⟩ := h1
      simp only [Tree.rangesOKList, Bool.and_eq_true] at a
      simp only [Tree.maxLine.maxLineList] at b
      exact ⟨a.2, Nat.le_trans (Nat.le_max_right _ _) b⟩
    exact NodeOKL.cons hv (NodeOKL.append hl h2)

theorem NodeOKL.head {v : Tree} {l : List Tree} (h : NodeOKL Z (v :: l)) : NodeOK Z v ∧ NodeOKL Z l := by
  obtain ⟨a, b⟩ := h
  simp only [Tree.rangesOKList, Bool.and_eq_true] at a
  simp only [Tree.maxLine.maxLineList] at b
  exact ⟨⟨a.1, Nat.le_trans (Nat.le_max_left _ _) b⟩, ⟨a.2, Nat.le_trans (Nat.le_max_right _ _) b⟩⟩

theorem PListL.nodeOK {Q : Post} (hQ : Good Z Q) : ∀ {l : List Tree} {lo hi : Pos}, PListL Q lo hi l → NodeOKL Z l
  | [], _, _, _ => NodeOKL.nil
  | _ :: _, _, _, ⟨_, h1, h2⟩ => NodeOKL.cons (hQ.item h1).2.2.1 (PListL.nodeOK hQ h2)

theorem NodeOKL.optList {Q : Post} (hQ : Good Z Q) {lo hi : Pos} {v : Tree} (h : POpt Q lo hi v) : NodeOKL Z (optList v) := by
  rcases h with ⟨rfl, _⟩ | h
  · exact NodeOKL.nil
  · have : Gram.optList v = [v] := by simp [Gram.optList, (hQ.item h).isNone]
    rw [this]
    exact NodeOKL.cons (hQ.item h).2.2.1 NodeOKL.nil

/-! ## building a node -/

theorem rng_mk {k i : String} {r : Range} {kids : List Tree} {a : List String} {sel : Option Range} :
    (mk k i r kids a sel).rng = r := rfl

theorem NodeOK.mk_plain {k i : String} {r : Range} {kids : List Tree} {attrs : List String}
    (hs : selKindsR.contains k = false) (h3 : r.ok = true) (h4 : r.e.line ≤ Z.line) (hkids : NodeOKL Z kids) :
    NodeOK Z (mk k i r kids attrs) := by
  constructor
  · simp only [mk, Tree.rangesOK, hs, h3, hkids.1, Bool.not_false, Bool.true_or, Bool.and_self]
  · simp only [mk, Tree.maxLine]; exact Nat.max_le.mpr ⟨h4, hkids.2⟩

theorem PReal.mk_plain {lo hi : Pos} {k i : String} {r : Range} {kids : List Tree} {attrs : List String}
    (hk : groupKinds.contains k = false) (hs : selKindsR.contains k = false)
    (h1 : lo.le r.s = true) (h2 : r.s.le hi = true) (h3 : r.ok = true) (h4 : r.e.line ≤ Z.line) (hkids : NodeOKL Z kids) :
    PReal Z lo hi (mk k i r kids attrs) := by
  refine ⟨⟨h1, h2, ⟨?_, ?_⟩, hk⟩, rfl⟩
  · simp only [mk, Tree.rangesOK, hs, h3, hkids.1, Bool.not_false, Bool.true_or, Bool.and_self]
  · simp only [mk, Tree.maxLine]; exact Nat.max_le.mpr ⟨h4, hkids.2⟩

theorem PReal.mk_sel {lo hi : Pos} {k i : String} {r sel : Range} {kids : List Tree} {attrs : List String}
    (hk : groupKinds.contains k = false)
    (h1 : lo.le r.s = true) (h2 : r.s.le hi = true) (h3 : r.ok = true) (h4 : r.e.line ≤ Z.line) (hkids : NodeOKL Z kids)
    (h5 : sel.ok = true) (h6 : sel.within r = true) :
    PReal Z lo hi (mk k i r kids attrs (some sel)) := by
  refine ⟨⟨h1, h2, ⟨?_, ?_⟩, hk⟩, rfl⟩
  · simp only [mk, Tree.rangesOK, h3, h5, h6, hkids.1, Option.getD_some, Bool.and_self, Bool.or_true]
  · simp only [mk, Tree.maxLine]; exact Nat.max_le.mpr ⟨h4, hkids.2⟩

/-- facts about an item in arithmetic-ready form -/
theorem PItem.facts {lo hi : Pos} {v : Tree} (h : PItem Z lo hi v) :
    lo.le v.rng.s = true ∧ v.rng.s.le hi = true ∧ v.rng.s.le v.rng.e = true ∧ v.rng.e.line ≤ Z.line ∧ NodeOK Z v ∧ v.isNone = false :=
  ⟨h.1, h.2.1, h.2.2.1.rng.1, h.2.2.1.rng.2, h.2.2.1, h.isNone⟩

theorem terminal_real {lo hi : Pos} {v : Tree} (h : PItem Z lo hi v) : PReal Z lo hi (terminal v) := by
  obtain ⟨a, b, c, d, _, _⟩ := h.facts
  exact PReal.mk_plain (by decide) (by decide) a b c d NodeOKL.nil

/-! ## shapes -/

theorem nth_seq (l : List Tree) (i : Nat) : (Tree.seq l).nth i = (l[i]?).getD Tree.none := rfl
theorem nth_none (i : Nat) : Tree.none.nth i = Tree.none := by simp [Tree.nth, Tree.none, Tree.kids]
theorem kids_list (l : List Tree) : (Tree.list l).kids = l := rfl
theorem kids_seq (l : List Tree) : (Tree.seq l).kids = l := rfl
theorem kids_none : Tree.none.kids = [] := rfl
theorem kind_seq (l : List Tree) : (Tree.seq l).kind = "#seq" := rfl
theorem kind_list (l : List Tree) : (Tree.list l).kind = "#list" := rfl
theorem kind_none : Tree.none.kind = "#none" := rfl
theorem isNone_none : Tree.none.isNone = true := rfl
theorem isNone_seq (l : List Tree) : (Tree.seq l).isNone = false := rfl
theorem isNone_list (l : List Tree) : (Tree.list l).isNone = false := rfl
theorem isNone_leaf (t : Tok) : (Tree.leaf t).isNone = false := rfl
theorem isSome_none : Tree.none.isSome = false := rfl

theorem kindIsSeq_seq (l : List Tree) : ((Tree.seq l).kind == "#seq") = true := by
  show ("#seq" == "#seq") = true; decide
theorem kindIsSeq_list (l : List Tree) : ((Tree.list l).kind == "#seq") = false := by
  show ("#list" == "#seq") = false; decide
theorem kindIsSeq_none : (Tree.none.kind == "#seq") = false := by decide

/-- the rewriting set that evaluates component selection on concrete groups -/
syntax "shape_simp" ("[" Lean.Parser.Tactic.simpLemma,* "]")? : tactic
macro_rules
  | `(tactic| shape_simp) => `(tactic| shape_simp [])
  | `(tactic| shape_simp [$ts,*]) =>
  `(tactic| simp only [nth_seq, nth_none, kids_list, kids_seq, kids_none, kindIsSeq_seq, kindIsSeq_list, kindIsSeq_none,
      beq_self_eq_true, isNone_none, isNone_seq,
      isNone_list, isNone_leaf, isSome_none, Tree.isSome, Gram.optList,
      List.getElem?_cons_zero, List.getElem?_cons_succ, List.getElem?_nil, Option.getD_some, Option.getD_none,
      Bool.not_true, Bool.not_false, Bool.false_eq_true, if_true, if_false, ite_true, ite_false, ↓reduceIte,
      List.nil_append, List.append_nil, List.cons_append, $ts,*])

/-! ## derived rules: `seqL`, `altL`, `toks` -/

theorem Der.seqL_nil : Der Γ Δ Z F (seqL []) (PSeqN []) :=
  (Der.eps (Tree.seq [])).weaken (fun _ _ _ h => ⟨[], h.1, rfl, h.2⟩)

theorem Der.seqL_one {a : G} {Q : Post} (ha : Der Γ Δ Z F a Q) : Der Γ Δ Z F (seqL [a]) (PSeqN [Q]) :=
  Der.map ha (fun _ hi v h => ⟨[v], rfl, v, [], hi, rfl, h, rfl, Pos.le_refl _⟩)

theorem PSeqL.mono_hi : ∀ {Qs : List Post} {l : List Tree} {lo hi hi' : Pos}, PSeqL Qs lo hi l → hi.le hi' = true → PSeqL Qs lo hi' l
  | [], _, _, _, _, h, h1 => ⟨h.1, Pos.le_trans h.2 h1⟩
  | _ :: _, _, _, _, _, ⟨x, xs, m, e, hx, hxs⟩, h1 => ⟨x, xs, m, e, hx, PSeqL.mono_hi hxs h1⟩

theorem Der.seqL_cons {a b : G} {rest : List G} {Q : Post} {Qs : List Post} (ha : Der Γ Δ Z F a Q)
    (hr : Der Γ Δ Z F (seqL (b :: rest)) (PSeqN Qs)) : Der Γ Δ Z F (seqL (a :: b :: rest)) (PSeqN (Q :: Qs)) := by
  refine Der.map (Der.seq ha hr) ?_
  rintro lo hi v ⟨_, rfl, va, _, mid, rfl, h1, vb, _, m2, rfl, ⟨l, rfl, h2⟩, rfl, h3⟩
  refine ⟨va :: l, ?_, va, l, mid, rfl, h1, ?_⟩
  · shape_simp
  · exact h2.mono_hi h3

macro "der_seq" : tactic =>
  `(tactic| repeat' (first | apply Der.seqL_cons | apply Der.seqL_one | apply Der.seqL_nil))

theorem Der.never {g : G} {msg : String} {Q Q' : Post} (hg : Der Γ Δ Z F g Q) :
    Der Γ Δ Z F (.check (fun _ => false) msg g) Q' :=
  (Der.check hg).weaken (fun _ _ _ h => by cases h.2)

theorem Der.altL_nil {Q : Post} : Der Γ Δ Z F (altL []) Q := Der.never (Der.eps Tree.none)

theorem Der.altL_cons {a b : G} {rest : List G} {Q : Post} (ha : Der Γ Δ Z F a Q) (hr : Der Γ Δ Z F (altL (b :: rest)) Q) :
    Der Γ Δ Z F (altL (a :: b :: rest)) Q := Der.alt ha hr

theorem Der.altL_one {a : G} {Q : Post} (ha : Der Γ Δ Z F a Q) : Der Γ Δ Z F (altL [a]) Q := ha

macro "der_alt" : tactic =>
  `(tactic| repeat' (apply Der.altL_cons))

/-- transitivity chains over position facts (no arithmetic) -/
macro "pos_chain" : tactic => `(tactic| grind (ematch := 40) (gen := 40) (instances := 4000) [Pos.le_trans, Pos.le_refl])

theorem Der.toks : ∀ ks : List Kind, Der Γ Δ Z F (Gram.toks ks) (PLeaf Z)
  | [] => Der.altL_nil
  | [k] => Der.tok k
  | k :: k' :: rest => Der.alt (Der.tok k) (Der.toks (k' :: rest))

theorem Der.ifEof_tok {k : Kind} {b : G} {Q : Post} (hb : Der Γ Δ Z F b Q) : Der Γ Δ Z F (.ifEof (.tok k) b) Q := by
  apply Der.step
  intro f hf ts hL
  simp only [runP]
  cases ts with
  | nil =>
    cases f with
    | zero => simp only [runP]; exact ⟨DOK.nil, fun r v h => by cases h⟩
    | succ f => simp only [runP, expTok, expTokGo]; exact ⟨DOK.nil, fun r v h => by cases h⟩
  | cons t rest => exact hb f (by omega) _ hL

/-! ## separated lists -/

/-- value of `ifTok [Comma] (ref rec) (eps (list []))`, possibly skipped -/
abbrev PSepTail (Z : Pos) (Q : Post) : Post :=
  POpt (POr (PSeqN [PLeaf Z, PList Q]) (fun lo hi v => v = Tree.list [] ∧ lo.le hi = true))

theorem sepTail_kids {Q : Post} (hQ : Good Z Q) {lo hi : Pos} {tl : Tree} (h : PSepTail Z Q lo hi tl) :
    PListL Q lo hi (if tl.kind == "#seq" then (tl.nth 1).kids else []) := by
  rcases h with ⟨rfl, h⟩ | ⟨_, rfl, c, _, m1, rfl, hc, l', _, m2, rfl, ⟨items, rfl, hitems⟩, rfl, hend⟩ | ⟨rfl, h⟩
  · simp only [kindIsSeq_none]; exact h
  · simp only [kindIsSeq_seq]
    shape_simp
    exact (hitems.mono_lo hQ hc.item.le).mono_hi hQ hend
  · simp only [kindIsSeq_list]; exact h

theorem sepList_value {lo m1 m2 hi : Pos} {x tl : Tree} (hx : POpt (PReal Z) lo m1 x) (htl : PSepTail Z (PReal Z) m1 m2 tl)
    (hend : m2.le hi = true) :
    PListL (PReal Z) lo hi ((if x.isNone then [] else [x]) ++ (if tl.kind == "#seq" then (tl.nth 1).kids else [])) := by
  have ht := (sepTail_kids good_real htl).mono_hi good_real hend
  rcases hx with ⟨rfl, hle⟩ | hx
  · shape_simp; exact ht.mono_lo good_real hle
  · simp only [hx.1.isNone]
    exact PListL.cons good_real hx (Pos.le_refl _) ht

theorem Der.sepListCtx {item : G} {rec : Nat} (hi : Der Γ Δ Z F item (PReal Z))
    (hr : Der Γ Δ Z F (.ref rec) (PList (PReal Z))) : Der Γ Δ Z F (Gram.sepListCtx item rec) (PList (PReal Z)) := by
  unfold Gram.sepListCtx
  refine Der.map (Der.dep (Der.recover hi) (Der.ifTok hr (Der.eps _))) ?_
  rintro lo hi v ⟨_, rfl, x, _, m1, rfl, hx, tl, _, m2, rfl, htl, rfl, hend⟩
  have hv := sepList_value hx htl hend
  shape_simp
  rcases hx with ⟨rfl, hle⟩ | hx
  · shape_simp
    exact ⟨[], rfl, PListL.le good_real hv⟩
  · simp only [hx.1.isNone] at hv ⊢
    exact ⟨_, rfl, hv⟩

theorem Der.sepListRec {item : G} {rec : Nat} (hi : Der Γ Δ Z F item (PReal Z))
    (hr : Der Γ Δ Z F (.ref rec) (PList (PReal Z))) : Der Γ Δ Z F (Gram.sepListRec item rec) (PList (PReal Z)) := by
  unfold Gram.sepListRec
  refine Der.map (Der.seq (Der.ifEof_tok (Der.recover hi)) (Der.ifTok hr (Der.eps _))) ?_
  rintro lo hi v ⟨_, rfl, x, _, m1, rfl, hx, tl, _, m2, rfl, htl, rfl, hend⟩
  have hv := sepList_value hx (Or.inr htl) hend
  shape_simp
  exact ⟨_, rfl, hv⟩

/-! ## binary-operator folds -/

/-- value of a tail nonterminal: `#none | #seq [op, #seq [right | #caught, tail]]` -/
inductive PTail (Z : Pos) : Pos → Pos → Tree → Prop
  | none {lo hi : Pos} : lo.le hi = true → PTail Z lo hi Tree.none
  | cons {lo m1 m2 hi : Pos} {op r tl : Tree} : PLeaf Z lo m1 op → POr (PReal Z) (PCaught Z) m1 m2 r →
      (PCaught Z m1 m2 r → Pos.lt op.rng.s op.rng.e = true ∧ op.rng.e.le m1 = true) → PTail Z m2 hi tl →
      PTail Z lo hi (Tree.seq [op, Tree.seq [r, tl]])

theorem PCaught.le {lo hi : Pos} {v : Tree} (h : PCaught Z lo hi v) : lo.le hi = true := by
  obtain ⟨_, _, _, h, _⟩ := h; exact h

theorem PTail.le {lo hi : Pos} {v : Tree} (h : PTail Z lo hi v) : lo.le hi = true := by
  induction h with
  | none h => exact h
  | cons h1 h2 _ _ ih =>
    refine Pos.le_trans h1.item.le (Pos.le_trans ?_ ih)
    rcases h2 with h2 | h2
    · exact h2.1.le
    · exact h2.le

theorem PTail.mono_hi {lo hi hi' : Pos} {v : Tree} (h : PTail Z lo hi v) (h' : hi.le hi' = true) : PTail Z lo hi' v := by
  induction h with
  | none h => exact .none (Pos.le_trans h h')
  | cons h1 h2 h3 _ ih => exact .cons h1 h2 h3 (ih h')

theorem notGroup_caught {v : Tree} (h : groupKinds.contains v.kind = false) : (v.kind == "#caught") = false := by
  cases hb : v.kind == "#caught" with
  | false => rfl
  | true =>
    rw [beq_iff_eq.mp hb] at h
    revert h; decide

theorem binNode_real {lo mid m1 m2 : Pos} {l op r : Tree} (hl : PReal Z lo mid l) (hop : PLeaf Z mid m1 op)
    (hr : PReal Z m1 m2 r) : PReal Z lo m2 (binNode l op r) := by
  obtain ⟨a1, a2, a3, a4, a5, _⟩ := hl.1.facts
  obtain ⟨b1, b2, b3, b4, b5, _⟩ := hr.1.facts
  obtain ⟨t, rfl, c1, c2', c3', c4⟩ := hop
  have c3 := c3'.1
  unfold binNode
  refine PReal.mk_plain (by decide) (by decide) a1 ?_ ?_ b4 (NodeOKL.cons a5 (NodeOKL.cons b5 NodeOKL.nil))
  · simp only [Range.span]; pos_arith
  · pos_arith

theorem binNode_dangling {lo mid m1 m2 : Pos} {l op c : Tree} (hl : PReal Z lo mid l) (hop : PLeaf Z mid m1 op)
    (hs : Pos.lt op.rng.s op.rng.e = true ∧ op.rng.e.le m1 = true) (hc : PCaught Z m1 m2 c) :
    PReal Z lo m2 (binNode l op (danglingRight op c)) := by
  obtain ⟨a1, a2, a3, a4, a5, _⟩ := hl.1.facts
  obtain ⟨t, rfl, c1, c2', c3', c4⟩ := hop
  have c2 : Pos.lt t.rng.s t.rng.e = true := hs.1
  have c3 : t.rng.e.le m1 = true := hs.2
  clear c2' c3'
  obtain ⟨r, a, rfl, d1, d2⟩ := hc
  have hline : t.rng.s.line ≤ Z.line := by
    have := Pos.le_line (Pos.lt_le c2); omega
  unfold binNode danglingRight
  simp only [Tree.attrs, rng_leaf, rng_node]
  by_cases ha : a = ["tok"]
  · obtain ⟨e1, e2, e3⟩ := d2 ha
    subst ha
    simp only [beq_self_eq_true, if_true]
    refine PReal.mk_plain (by decide) (by decide) a1 ?_ ?_ e3 (NodeOKL.cons a5 (NodeOKL.cons ?_ NodeOKL.nil))
    · simp only [Range.span]; pos_arith
    · simp only [rng_mk]; pos_arith
    · refine NodeOK.mk_plain (by decide) ?_ e3 NodeOKL.nil
      simp only [Range.span]; pos_arith
  · have : (a == ["tok"]) = false := by simpa using ha
    simp only [this, Bool.false_eq_true, if_false]
    refine PReal.mk_plain (by decide) (by decide) a1 ?_ ?_ hline (NodeOKL.cons a5 (NodeOKL.cons ?_ NodeOKL.nil))
    · simp only [Range.span]; pos_arith
    · simp only [rng_mk]; pos_arith
    · refine NodeOK.mk_plain (by decide) ?_ hline NodeOKL.nil
      simp only [Range.span]; pos_arith

/-- **the fold of a binary level builds a well-placed node, whatever its fuel** -/
theorem foldBin_real : ∀ (n : Nat) {lo mid hi : Pos} {l tl : Tree}, PReal Z lo mid l → PTail Z mid hi tl →
    PReal Z lo hi (foldBin n l tl)
  | 0, _, _, _, _, _, hl, ht => good_real.mono hl (Pos.le_refl _) ht.le
  | n+1, _, _, _, _, _, hl, ht => by
    cases ht with
    | none h => simp only [foldBin, isNone_none, if_true]; exact good_real.mono hl (Pos.le_refl _) h
    | cons hop hr hst htl =>
      simp only [foldBin, isNone_seq]
      shape_simp
      rcases hr with hr | hr
      · simp only [notGroup_caught hr.1.2.2.2]
        shape_simp
        exact foldBin_real n (binNode_real hl hop hr) htl
      · have hk : ∀ {a b : Pos} {c : Tree}, PCaught Z a b c → (c.kind == "#caught") = true := by
          rintro a b c ⟨r, a, rfl, _⟩; show ("#caught" == "#caught") = true; decide
        simp only [hk hr]
        shape_simp
        exact foldBin_real n (binNode_dangling hl hop (hst hr) hr) htl

theorem Der.binOps {operand : G} {tail : Nat} (ho : Der Γ Δ Z F operand (PReal Z)) (ht : Der Γ Δ Z F (.ref tail) (PTail Z)) :
    Der Γ Δ Z F (Gram.binOps operand tail) (PReal Z) := by
  unfold Gram.binOps
  refine Der.map (Der.seq ho ht) ?_
  rintro lo hi v ⟨_, rfl, l, _, m1, rfl, hl, tl, _, m2, rfl, htl, rfl, hend⟩
  shape_simp
  exact foldBin_real _ hl (htl.mono_hi hend)

theorem Der.binTail {op operand : G} {self : Nat} (hop : Der Γ Δ Z F op (PLeafS Z))
    (ho : Der Γ Δ Z F operand (POr (PReal Z) (PCaught Z))) (ht : Der Γ Δ Z F (.ref self) (PTail Z)) :
    Der Γ Δ Z F (Gram.binTail op operand self) (PTail Z) := by
  unfold Gram.binTail
  refine Der.alt ((Der.seq hop (Der.seq ho ht)).weaken ?_) ((Der.eps _).weaken (fun _ _ _ h => by rw [h.1]; exact .none h.2))
  rintro lo hi v ⟨_, rfl, o, _, m1, rfl, h1, w, _, m2, rfl, ⟨_, rfl, r, _, m3, rfl, h2, tl, _, m4, rfl, h3, rfl, he1⟩, rfl, he2⟩
  exact .cons h1.1 h2 (fun _ => h1.2) ((h3.mono_hi he1).mono_hi he2)

theorem Der.binTail' {op operand : G} {self : Nat} (hop : Der Γ Δ Z F op (PLeaf Z))
    (ho : Der Γ Δ Z F operand (PReal Z)) (ht : Der Γ Δ Z F (.ref self) (PTail Z)) :
    Der Γ Δ Z F (Gram.binTail op operand self) (PTail Z) := by
  unfold Gram.binTail
  refine Der.alt ((Der.seq hop (Der.seq ho ht)).weaken ?_) ((Der.eps _).weaken (fun _ _ _ h => by rw [h.1]; exact .none h.2))
  rintro lo hi v ⟨_, rfl, o, _, m1, rfl, h1, w, _, m2, rfl, ⟨_, rfl, r, _, m3, rfl, h2, tl, _, m4, rfl, h3, rfl, he1⟩, rfl, he2⟩
  refine .cons h1 (Or.inl h2) ?_ ((h3.mono_hi he1).mono_hi he2)
  rintro ⟨rr, a, rfl, _⟩
  have : groupKinds.contains "#caught" = false := h2.1.2.2.2
  exact absurd this (by decide)

theorem Der.toksS : ∀ ks : List Kind, (∀ k ∈ ks, strictKinds.contains k = true ∧ looseKinds.contains k = false) →
    Der Γ Δ Z F (Gram.toks ks) (PLeafS Z)
  | [], _ => Der.altL_nil
  | [k], h => Der.tokS k (h k (List.mem_singleton.mpr rfl)).1 (h k (List.mem_singleton.mpr rfl)).2
  | k :: k' :: rest, h =>
    Der.alt (Der.tokS k (h k List.mem_cons_self).1 (h k List.mem_cons_self).2)
      (Der.toksS (k' :: rest) (fun x hx => h x (List.mem_cons_of_mem _ hx)))

theorem Der.toksT : ∀ ks : List Kind, (∀ k ∈ ks, looseKinds.contains k = false) → Der Γ Δ Z F (Gram.toks ks) (PLeafT Z)
  | [], _ => Der.altL_nil
  | [k], h => Der.tokT k (h k (List.mem_singleton.mpr rfl))
  | k :: k' :: rest, h =>
    Der.alt (Der.tokT k (h k List.mem_cons_self)) (Der.toksT (k' :: rest) (fun x hx => h x (List.mem_cons_of_mem _ hx)))

theorem identKinds_tight : ∀ k ∈ identKinds, looseKinds.contains k = false := by decide

/-! ## the common shapes of the actions -/

/-- a node spanning from item `a` to item `b` (which starts no earlier) -/
theorem span_real {lo m1 hi : Pos} {k i : String} {a b : Tree} {kids : List Tree} {attrs : List String}
    (hk : groupKinds.contains k = false) (hs : selKindsR.contains k = false)
    (ha : PItem Z lo m1 a) (hm : m1.le hi = true) (hb : NodeOK Z b) (hab : a.rng.s.le b.rng.s = true)
    (hkids : NodeOKL Z kids) : PReal Z lo hi (mk k i (Range.span a.rng b.rng) kids attrs) := by
  obtain ⟨a1, a2, _, _, _, _⟩ := ha.facts
  obtain ⟨b1, b2⟩ := hb.rng
  refine PReal.mk_plain hk hs a1 ?_ ?_ b2 hkids
  · simp only [Range.span]; exact Pos.le_trans a2 hm
  · simp only [Range.span, Range.ok] at b1 ⊢; exact Pos.le_trans hab b1

/-- … with a selection range -/
theorem span_real_sel {lo m1 hi : Pos} {k i : String} {a b n : Tree} {kids : List Tree} {attrs : List String}
    (hk : groupKinds.contains k = false)
    (ha : PItem Z lo m1 a) (hm : m1.le hi = true) (hb : NodeOK Z b) (hab : a.rng.s.le b.rng.s = true)
    (hkids : NodeOKL Z kids) (hn : NodeOK Z n) (h1 : a.rng.s.le n.rng.s = true) (h2 : n.rng.e.le b.rng.e = true) :
    PReal Z lo hi (mk k i (Range.span a.rng b.rng) kids attrs (some n.rng)) := by
  obtain ⟨a1, a2, _, _, _, _⟩ := ha.facts
  obtain ⟨b1, b2⟩ := hb.rng
  refine PReal.mk_sel hk a1 ?_ ?_ b2 hkids hn.rng.1 ?_
  · simp only [Range.span]; exact Pos.le_trans a2 hm
  · simp only [Range.span, Range.ok] at b1 ⊢; exact Pos.le_trans hab b1
  · simp only [Range.within, Range.span, Bool.and_eq_true]; exact ⟨h1, h2⟩

/-- a node with the range of one item -/
theorem wrap_real {lo hi : Pos} {k i : String} {a : Tree} {kids : List Tree} {attrs : List String}
    (hk : groupKinds.contains k = false) (hs : selKindsR.contains k = false)
    (ha : PItem Z lo hi a) (hkids : NodeOKL Z kids) : PReal Z lo hi (mk k i a.rng kids attrs) := by
  obtain ⟨a1, a2, a3, a4, _, _⟩ := ha.facts
  exact PReal.mk_plain hk hs a1 a2 a3 a4 hkids

theorem NodeOKL.one {v : Tree} (h : NodeOK Z v) : NodeOKL Z [v] := NodeOKL.cons h NodeOKL.nil
theorem NodeOKL.two {v w : Tree} (h : NodeOK Z v) (h' : NodeOK Z w) : NodeOKL Z [v, w] := NodeOKL.cons h (NodeOKL.one h')

theorem PReal.ok {lo hi : Pos} {v : Tree} (h : PReal Z lo hi v) : NodeOK Z v := h.1.2.2.1
theorem PLeaf.ok {lo hi : Pos} {v : Tree} (h : PLeaf Z lo hi v) : NodeOK Z v := h.item.2.2.1

/-! ## the tables of postconditions -/

/-- a node that only has to pass the checkers (annotations yield `AstEmpty::default()`, whose range is `0:0-0:0`) -/
def PNodeOK (Z : Pos) : Post := fun lo hi v => NodeOK Z v ∧ lo.le hi = true

/-- the top-level list: every item passes the checkers -/
def PTopList (Z : Pos) : Post := fun lo hi v => ∃ l, v = Tree.list l ∧ NodeOKL Z l ∧ lo.le hi = true

/-- a loop value `#seq [#list items, end]` -/
def PLoop (Z : Pos) (Qe : Post) : Post := PSeqN [PList (PReal Z), POpt Qe]

/-- events of an `if` block: statements, `#seq [leaf ElseIf, cond]`, `leaf Else`, `leaf EndIf|End`, `#noend` -/
def PEvent (Z : Pos) : Post := fun lo hi v =>
  PReal Z lo hi v ∨ PLeaf Z lo hi v ∨ (∃ t c, v = Tree.seq [Tree.leaf t, c] ∧ PSeqN [PLeaf Z, PReal Z] lo hi v) ∨ (v = noEnd ∧ lo.le hi = true)

/-- an AST node whose range also ENDS inside the interval (identifiers: the range of one token) -/
def PTight (Z : Pos) : Post := fun lo hi v => PReal Z lo hi v ∧ v.rng.e.le hi = true

def QΓ (Z : Pos) : Nat → Post
  | 0 => PTopList Z
  | 1 => PReal Z
  | 2 => PList (PLeaf Z)
  | 3 | 4 | 5 | 6 | 7 | 8 | 9 | 10 | 11 | 12 => PList (PReal Z)
  | 13 => PLoop Z (PLeaf Z)
  | 14 | 15 => PList (PLeaf Z)
  | 16 => PList (PReal Z)
  | 17 | 18 | 19 | 20 => PReal Z
  | 21 | 22 | 23 | 24 | 25 | 26 | 27 | 28 | 29 | 30 | 31 | 32 => PTail Z
  | 33 | 34 => PList (PEvent Z)
  | 35 | 36 | 37 | 38 | 39 => PLoop Z (PLeaf Z)
  | 40 => PLoop Z (PReal Z)
  | 41 | 42 => PList (PReal Z)
  | 43 => PReal Z
  | 44 => POpt (PReal Z)
  | 45 | 47 => PReal Z
  | 46 => PTight Z
  | 48 => PNodeOK Z
  | 49 | 50 => PReal Z
  | _ => fun lo hi v => v = Tree.none ∧ lo.le hi = true

def QΔ (Z : Pos) : Nat → Post
  | 0 | 1 | 2 => PReal Z
  | _ => fun lo hi v => v = Tree.none ∧ lo.le hi = true

/-! ## expressions -/

section
variable (hc : Ctx Γ Δ Z (QΓ Z) (QΔ Z) F)
include hc

theorem r_expr : Der Γ Δ Z F (.ref nExpr) (PReal Z) := hc.1 nExpr
theorem r_primary : Der Γ Δ Z F (.ref nPrimary) (PReal Z) := hc.1 nPrimary
theorem r_dotOps : Der Γ Δ Z F (.ref nDotOps) (PReal Z) := hc.1 nDotOps
theorem r_identifierT : Der Γ Δ Z F (.ref nIdentifier) (PTight Z) := hc.1 nIdentifier
theorem r_identifier : Der Γ Δ Z F (.ref nIdentifier) (PReal Z) := (r_identifierT hc).weaken (fun _ _ _ h => h.1)
theorem r_literalBasic : Der Γ Δ Z F (.ref nLiteralBasic) (PReal Z) := hc.1 nLiteralBasic
theorem r_methodCall : Der Γ Δ Z F (.ref nMethodCall) (PReal Z) := hc.1 nMethodCall
theorem r_compare : Der Γ Δ Z F (.ref nCompare) (PReal Z) := hc.1 nCompare
theorem r_typeBasic : Der Γ Δ Z F (.ref nTypeBasic) (PReal Z) := hc.1 nTypeBasic
theorem r_type : Der Γ Δ Z F (.ref nType) (PReal Z) := hc.1 nType
theorem r_statement : Der Γ Δ Z F (.ref nStatement) (PReal Z) := hc.1 nStatement
theorem r_oqlExpr : Der Γ Δ Z F (.ref nOqlExpr) (PReal Z) := hc.1 nOqlExpr

omit hc in
theorem d_gIdentifier : Der Γ Δ Z F gIdentifier (PTight Z) :=
  Der.map (Der.toksT _ identKinds_tight) (fun _ _ _ h => ⟨terminal_real h.1.item, h.2⟩)

omit hc in
theorem d_gLiteralBasic : Der Γ Δ Z F gLiteralBasic (PReal Z) :=
  Der.map (Der.toks _) (fun _ _ _ h => terminal_real h.item)

omit hc in
theorem d_gTypeBasic : Der Γ Δ Z F gTypeBasic (PReal Z) :=
  Der.map (Der.tok _) (fun _ _ _ h => wrap_real (by decide) (by decide) h.item NodeOKL.nil)

theorem d_gLiteralSet : Der Γ Δ Z F gLiteralSet (PReal Z) := by
  unfold gLiteralSet
  refine Der.map (Q := PSeqN [PLeaf Z, PList (PReal Z), PLeaf Z]) ?_ ?_
  · der_seq
    · exact Der.tok _
    · exact Der.sepListCtx (r_primary hc) (hc.1 nPrimaryRec)
    · exact Der.tok _
  · rintro lo hi v ⟨_, rfl, v0, _, m1, rfl, h0, v1, _, m2, rfl, ⟨l, rfl, hl⟩, v2, _, m3, rfl, h2, rfl, hend⟩
    shape_simp
    have f0 := h0.item.facts; have f2 := h2.item.facts; have := PListL.le good_real hl
    exact span_real (by decide) (by decide) h0.item (by pos_chain) h2.ok (by pos_chain) (hl.nodeOK good_real)

theorem d_gMethodCallBody : Der Γ Δ Z F gMethodCallBody (PReal Z) := by
  unfold gMethodCallBody
  refine Der.map (Q := PSeqN [PReal Z, PLeaf Z, PList (PReal Z), PLeaf Z]) ?_ ?_
  · der_seq
    · exact r_identifier hc
    · exact Der.tok _
    · exact Der.sepListCtx (r_expr hc) (hc.1 nExprRec)
    · exact Der.tok _
  · rintro lo hi v ⟨_, rfl, v0, _, m1, rfl, h0, v1, _, m2, rfl, h1, v2, _, m3, rfl, ⟨l, rfl, hl⟩, v3, _, m4, rfl, h3, rfl, hend⟩
    shape_simp
    have f0 := h0.1.facts; have f1 := h1.item.facts; have f3 := h3.item.facts; have := PListL.le good_real hl
    exact span_real (by decide) (by decide) h0.1 (by pos_chain) h3.ok (by pos_chain) (hl.nodeOK good_real)

theorem d_gArrayAccess : Der Γ Δ Z F gArrayAccess (PReal Z) := by
  unfold gArrayAccess
  refine Der.map (Q := PSeqN [PReal Z, PLeaf Z, PReal Z, PLeaf Z]) ?_ ?_
  · der_seq
    · exact r_identifier hc
    · exact Der.tok _
    · exact r_expr hc
    · exact Der.tok _
  · rintro lo hi v ⟨_, rfl, v0, _, m1, rfl, h0, v1, _, m2, rfl, h1, v2, _, m3, rfl, h2, v3, _, m4, rfl, h3, rfl, hend⟩
    shape_simp
    have f0 := h0.1.facts; have f1 := h1.item.facts; have f2 := h2.1.facts; have f3 := h3.item.facts
    exact span_real (by decide) (by decide) h0.1 (by pos_chain) h3.ok (by pos_chain) (NodeOKL.two h0.ok h2.ok)

theorem d_gDotOp : Der Γ Δ Z F gDotOp (PReal Z) := by
  unfold gDotOp
  der_alt
  · exact r_methodCall hc
  · exact d_gArrayAccess hc
  · exact r_identifier hc

theorem d_gDotOps : Der Γ Δ Z F gDotOps (PReal Z) := Der.binOps (d_gDotOp hc) (hc.1 nDotTail)

theorem d_gDotTail : Der Γ Δ Z F gDotTail (PTail Z) :=
  Der.binTail (Der.toksS _ (by decide)) (Der.catchErr (d_gDotOp hc)) (hc.1 nDotTail)

theorem d_gBracketClosure : Der Γ Δ Z F gBracketClosure (PReal Z) := by
  unfold gBracketClosure
  refine Der.map (Q := PSeqN [PLeaf Z, PReal Z, PLeaf Z]) ?_ ?_
  · der_seq
    · exact Der.tok _
    · exact r_expr hc
    · exact Der.tok _
  · rintro lo hi v ⟨_, rfl, v0, _, m1, rfl, h0, v1, _, m2, rfl, h1, v2, _, m3, rfl, h2, rfl, hend⟩
    shape_simp
    have f0 := h0.item.facts; have f2 := h2.item.facts
    exact good_real.mono h1 (by pos_chain) (by pos_chain)

theorem d_gUnaryPre : Der Γ Δ Z F gUnaryPre (PReal Z) := by
  unfold gUnaryPre
  refine Der.map (Q := PSeqN [PLeaf Z, PReal Z]) ?_ ?_
  · der_seq
    · exact Der.toks _
    · exact r_primary hc
  · rintro lo hi v ⟨_, rfl, v0, _, m1, rfl, h0, v1, _, m2, rfl, h1, rfl, hend⟩
    shape_simp
    have f0 := h0.item.facts; have f1 := h1.1.facts
    exact span_real (by decide) (by decide) h0.item (by pos_chain) h1.ok (by pos_chain) (NodeOKL.one h1.ok)

theorem d_gUnaryPost : Der Γ Δ Z F gUnaryPost (PReal Z) := by
  unfold gUnaryPost
  refine Der.map (Q := PSeqN [PReal Z, PLeaf Z]) ?_ ?_
  · der_seq
    · exact r_dotOps hc
    · exact Der.toks _
  · rintro lo hi v ⟨_, rfl, v0, _, m1, rfl, h0, v1, _, m2, rfl, h1, rfl, hend⟩
    shape_simp
    have f0 := h0.1.facts; have f1 := h1.item.facts
    exact span_real (by decide) (by decide) h0.1 (by pos_chain) h1.ok (by pos_chain) (NodeOKL.one h0.ok)

theorem d_gPrimaryBody : Der Γ Δ Z F gPrimaryBody (PReal Z) := by
  unfold gPrimaryBody
  der_alt
  · exact d_gBracketClosure hc
  · exact Der.alt (d_gUnaryPre hc) (d_gUnaryPost hc)
  · exact r_dotOps hc
  · exact Der.alt (r_literalBasic hc) (d_gLiteralSet hc)

theorem d_gFactors : Der Γ Δ Z F gFactors (PReal Z) := Der.binOps (r_primary hc) (hc.1 nFactorTail)
theorem d_gTerms : Der Γ Δ Z F gTerms (PReal Z) := Der.binOps (d_gFactors hc) (hc.1 nTermTail)
theorem d_gBit1 : Der Γ Δ Z F gBit1 (PReal Z) := Der.binOps (d_gTerms hc) (hc.1 nBit1Tail)
theorem d_gBit2 : Der Γ Δ Z F gBit2 (PReal Z) := Der.binOps (d_gBit1 hc) (hc.1 nBit2Tail)
theorem d_gShifts : Der Γ Δ Z F gShifts (PReal Z) := Der.binOps (d_gBit2 hc) (hc.1 nShiftTail)
theorem d_gCompare : Der Γ Δ Z F gCompare (PReal Z) := Der.binOps (d_gShifts hc) (hc.1 nCompareTail)
theorem d_gAnd : Der Γ Δ Z F gAnd (PReal Z) := Der.binOps (r_compare hc) (hc.1 nAndTail)
theorem d_gOr : Der Γ Δ Z F gOr (PReal Z) := Der.binOps (d_gAnd hc) (hc.1 nOrTail)

theorem d_gFactorTail : Der Γ Δ Z F gFactorTail (PTail Z) := Der.binTail' (Der.toks _) (r_primary hc) (hc.1 nFactorTail)
theorem d_gTermTail : Der Γ Δ Z F gTermTail (PTail Z) := Der.binTail' (Der.toks _) (d_gFactors hc) (hc.1 nTermTail)
theorem d_gBit1Tail : Der Γ Δ Z F gBit1Tail (PTail Z) := Der.binTail' (Der.toks _) (d_gTerms hc) (hc.1 nBit1Tail)
theorem d_gBit2Tail : Der Γ Δ Z F gBit2Tail (PTail Z) := Der.binTail' (Der.toks _) (d_gBit1 hc) (hc.1 nBit2Tail)
theorem d_gShiftTail : Der Γ Δ Z F gShiftTail (PTail Z) := Der.binTail' (Der.toks _) (d_gBit2 hc) (hc.1 nShiftTail)
theorem d_gCompareTail : Der Γ Δ Z F gCompareTail (PTail Z) := Der.binTail' (Der.toks _) (d_gShifts hc) (hc.1 nCompareTail)
theorem d_gAndTail : Der Γ Δ Z F gAndTail (PTail Z) := Der.binTail' (Der.toks _) (r_compare hc) (hc.1 nAndTail)
theorem d_gOrTail : Der Γ Δ Z F gOrTail (PTail Z) := Der.binTail' (Der.toks _) (d_gAnd hc) (hc.1 nOrTail)

end

end Gold.C08
