import GoldModel.Lemmas.GoldScoped
/-! the complete operator-pair table, decided by the kernel on the model parser (kept in its own module:
    checking it takes about 100 s) -/
namespace Gold.C06
open Gold Gold.Peg Gold.Gram

/-- the ladder the property states, tightest level first -/
def ladderSpec : List (String × List Kind × String) :=
  [ ("parse_dot_ops", [Kind.Dot], "parse_dot_op"),
    ("parse_factors", [Kind.Asterisk, Kind.Divide, Kind.Modulus], "parse_primary"),
    ("parse_terms", [Kind.Plus, Kind.Minus, Kind.StringConcat, Kind.StringConcat2], "parse_factors"),
    ("parse_bit_ops_1", [Kind.BAnd], "parse_terms"),
    ("parse_bit_ops_2", [Kind.BOr, Kind.BXor], "parse_bit_ops_1"),
    ("parse_shifts", [Kind.LeftShift, Kind.RightShift], "parse_bit_ops_2"),
    ("parse_compare", [Kind.Equals, Kind.NotEquals, Kind.LessThan, Kind.LessThanOrEqual, Kind.GreaterThan,
                       Kind.GreaterThanOrEqual, Kind.In, Kind.Like], "parse_shifts"),
    ("parse_logical_and", [Kind.And], "parse_compare"),
    ("parse_logical_or", [Kind.Or, Kind.Xor], "parse_logical_and") ]

/-! ## all operator pairs -/

def opLevels : List (Nat × Kind) :=
  (ladderSpec.drop 1).zipIdx.flatMap (fun p => p.1.2.1.map (fun k => (p.2, k)))

def tokAt (k : Kind) (v : String) (i : Nat) : Tok := ⟨k, v, ⟨⟨0, 4 * i⟩, ⟨0, 4 * i + 1⟩⟩⟩

/-- shape of a tree: kind, name, children -/
def shape : Nat → Tree → String
  | 0, _ => "…"
  | n+1, t => "(" ++ t.kind ++ " " ++ t.ident ++ String.join (t.kids.map (fun k => " " ++ shape n k)) ++ ")"

def pairOK (p q : Nat × Kind) : Bool :=
  let ts := [tokAt Kind.Identifier "a" 0, tokAt p.2 p.2.name 1, tokAt Kind.Identifier "b" 2, tokAt q.2 q.2.name 3,
             tokAt Kind.Identifier "c" 4]
  match runP Γ Δ 4000 (.ref nExpr) ts with
  | (.ok [] v, []) =>
    let a := "(terminal a)"; let b := "(terminal b)"; let c := "(terminal c)"
    let want :=
      if p.1 ≤ q.1 then "(bin_op " ++ q.2.name ++ " (bin_op " ++ p.2.name ++ " " ++ a ++ " " ++ b ++ ") " ++ c ++ ")"
      else "(bin_op " ++ p.2.name ++ " " ++ a ++ " (bin_op " ++ q.2.name ++ " " ++ b ++ " " ++ c ++ "))"
    shape 5 v == want
  | _ => false

/-- **precedence and associativity for every ordered pair of binary operators** (22 × 22 pairs
    below the dot level; the dot level is `dot_pairs`) -/
theorem operator_pairs_table : (opLevels.all fun p => opLevels.all fun q => pairOK p q) = true := by decide +kernel

/-- the member-access dot binds tighter than every binary operator: `a.b op c.d` -/
def dotOK (p : Nat × Kind) : Bool :=
  let ts := [tokAt Kind.Identifier "a" 0, tokAt Kind.Dot "." 1, tokAt Kind.Identifier "b" 2, tokAt p.2 p.2.name 3,
             tokAt Kind.Identifier "c" 4, tokAt Kind.Dot "." 5, tokAt Kind.Identifier "d" 6]
  match runP Γ Δ 4000 (.ref nExpr) ts with
  | (.ok [] v, []) =>
    shape 5 v == "(bin_op " ++ p.2.name ++ " (bin_op . (terminal a) (terminal b)) (bin_op . (terminal c) (terminal d)))"
  | _ => false

theorem dot_pairs_table : (opLevels.all dotOK) = true := by decide +kernel


end Gold.C06
