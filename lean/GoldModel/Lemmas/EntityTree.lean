import GoldModel.Model.EntityTree
/-!
Helper lemmas for C13: the invariant of the concurrent build with the repaired
(single critical section) get-or-create step, preserved by every atomic step of every
thread, and what it implies once all threads have finished.
-/
set_option linter.unusedSectionVars false
namespace Gold.Tree

variable {α : Type} [DecidableEq α]

@[simp] theorem upd_same {β : Type} (f : Nat → β) (i : Nat) (v : β) : upd f i v i = v := by simp [upd]
theorem upd_other {β : Type} (f : Nat → β) {i j : Nat} (v : β) (h : j ≠ i) : upd f i v j = f j := by simp [upd, h]

@[simp] theorem create_snd (t : Tree α) (k nm : α) : (t.create k nm).2 = t.ids.length := rfl
@[simp] theorem create_ids (t : Tree α) (k nm : α) : (t.create k nm).1.ids = t.ids ++ [nm] := rfl
@[simp] theorem create_map (t : Tree α) (k nm k' : α) :
    (t.create k nm).1.map k' = if k' = k then some t.ids.length else t.map k' := rfl
@[simp] theorem create_parent (t : Tree α) (k nm : α) : (t.create k nm).1.parent = upd t.parent t.ids.length none := rfl
@[simp] theorem create_children (t : Tree α) (k nm : α) : (t.create k nm).1.children = upd t.children t.ids.length [] := rfl

@[simp] theorem setParent_ids (t : Tree α) (e pe : Nat) : (t.setParent e pe).ids = t.ids := rfl
@[simp] theorem setParent_map (t : Tree α) (e pe : Nat) : (t.setParent e pe).map = t.map := rfl
@[simp] theorem setParent_children (t : Tree α) (e pe : Nat) : (t.setParent e pe).children = t.children := rfl
@[simp] theorem setParent_parent (t : Tree α) (e pe : Nat) : (t.setParent e pe).parent = upd t.parent e (some pe) := rfl
@[simp] theorem addChild_ids (t : Tree α) (e pe : Nat) : (t.addChild pe e).ids = t.ids := rfl
@[simp] theorem addChild_map (t : Tree α) (e pe : Nat) : (t.addChild pe e).map = t.map := rfl
@[simp] theorem addChild_parent (t : Tree α) (e pe : Nat) : (t.addChild pe e).parent = t.parent := rfl
@[simp] theorem addChild_children (t : Tree α) (e pe : Nat) :
    (t.addChild pe e).children = upd t.children pe (t.children pe ++ [e]) := rfl

/-- the tree part of the invariant (no thread-local facts) -/
structure TreeInv (norm : α → α) (fs : List (FileInfo α)) (t : Tree α) : Prop where
  mid : ∀ k n, t.map k = some n → ∃ nm, t.ids[n]? = some nm ∧ norm nm = k
  mall : ∀ n nm, t.ids[n]? = some nm → t.map (norm nm) = some n
  par : ∀ n q, t.parent n = some q →
    ∃ f ∈ fs, ∃ p, f.parent = some p ∧ t.map (norm f.cls) = some n ∧ t.map (norm p) = some q
  chl : ∀ q n, n ∈ t.children q →
    ∃ f ∈ fs, ∃ p, f.parent = some p ∧ t.map (norm f.cls) = some n ∧ t.map (norm p) = some q
  chn : ∀ q, (t.children q).Nodup

theorem TreeInv.lt {norm : α → α} {fs : List (FileInfo α)} {t : Tree α} (h : TreeInv norm fs t)
    {k : α} {n : Nat} (hm : t.map k = some n) : n < t.ids.length := by
  obtain ⟨nm, h1, _⟩ := h.mid k n hm
  exact (List.getElem?_eq_some_iff.mp h1).1

theorem TreeInv.inj {norm : α → α} {fs : List (FileInfo α)} {t : Tree α} (h : TreeInv norm fs t)
    {k k' : α} {n : Nat} (hm : t.map k = some n) (hm' : t.map k' = some n) : k = k' := by
  obtain ⟨nm, h1, h2⟩ := h.mid k n hm
  obtain ⟨nm', h1', h2'⟩ := h.mid k' n hm'
  rw [h1] at h1'
  cases h1'
  rw [← h2, ← h2']

theorem TreeInv.empty (norm : α → α) (fs : List (FileInfo α)) : TreeInv norm fs (Tree.empty : Tree α) := by
  constructor <;> simp [Tree.empty]

/-- creating a node for an unmapped key keeps the tree invariant -/
theorem TreeInv.create {norm : α → α} {fs : List (FileInfo α)} {t : Tree α} (h : TreeInv norm fs t)
    (nm : α) (hmiss : t.map (norm nm) = none) : TreeInv norm fs (t.create (norm nm) nm).1 := by
  have hpar : ∀ n q, t.parent n = some q → n < t.ids.length := by
    intro n q hp
    obtain ⟨f, _, p, _, h1, _⟩ := h.par n q hp
    exact h.lt h1
  have hchl : ∀ q n, n ∈ t.children q → q < t.ids.length := by
    intro q n hp
    obtain ⟨f, _, p, _, _, h1⟩ := h.chl q n hp
    exact h.lt h1
  constructor
  · intro k n hm
    simp only [create_map] at hm
    split at hm
    · cases hm; subst k; exact ⟨nm, by simp, rfl⟩
    · obtain ⟨x, h1, h2⟩ := h.mid k n hm
      refine ⟨x, ?_, h2⟩
      have := (List.getElem?_eq_some_iff.mp h1).1
      rw [create_ids, List.getElem?_append, if_pos this]; exact h1
  · intro n x hx
    simp only [create_ids, List.getElem?_append] at hx
    simp only [create_map]
    split at hx
    · have := h.mall n x hx
      split
      · rename_i e; rw [e, hmiss] at this; cases this
      · exact this
    · rename_i hge
      have : n = t.ids.length := by
        rcases Nat.lt_or_ge (n - t.ids.length) 1 with h1 | h1
        · omega
        · simp [List.getElem?_eq_none (l := [nm]) (i := n - t.ids.length) (by simpa using h1)] at hx
      subst this
      simp at hx; subst hx; simp
  · intro n q hp
    simp only [create_parent, upd] at hp
    split at hp
    · cases hp
    · obtain ⟨f, hf, p, h1, h2, h3⟩ := h.par n q hp
      refine ⟨f, hf, p, h1, ?_, ?_⟩ <;> simp only [create_map]
      · split
        · rename_i e; rw [e, hmiss] at h2; cases h2
        · exact h2
      · split
        · rename_i e; rw [e, hmiss] at h3; cases h3
        · exact h3
  · intro q n hc
    simp only [create_children, upd] at hc
    split at hc
    · cases hc
    · obtain ⟨f, hf, p, h1, h2, h3⟩ := h.chl q n hc
      refine ⟨f, hf, p, h1, ?_, ?_⟩ <;> simp only [create_map]
      · split
        · rename_i e; rw [e, hmiss] at h2; cases h2
        · exact h2
      · split
        · rename_i e; rw [e, hmiss] at h3; cases h3
        · exact h3
  · intro q
    simp only [create_children, upd]
    split
    · exact List.nodup_nil
    · exact h.chn q

/-- class names are declared once (up to `norm`) -/
def KeysInj (norm : α → α) (fs : List (FileInfo α)) : Prop :=
  ∀ f ∈ fs, ∀ g ∈ fs, norm f.cls = norm g.cls → f = g

/-- what a finished file has established in the tree -/
def DoneFact (norm : α → α) (t : Tree α) (f : FileInfo α) : Prop :=
  ∃ e, t.map (norm f.cls) = some e ∧
    ∀ p, f.parent = some p → ∃ pe, t.map (norm p) = some pe ∧ t.parent e = some pe ∧ e ∈ t.children pe

/-- thread-local part of the invariant (repaired step: `insC` / `insP` are never reached) -/
structure ThreadInv (norm : α → α) (fs : List (FileInfo α)) (t : Tree α) (th : Thread α) : Prop where
  sub : ∀ f ∈ th.todo, f ∈ fs
  pcs : ∀ f rest, th.todo = f :: rest →
    (th.pc ≠ .insC ∧ th.pc ≠ .insP) ∧
    (th.pc ≠ .lookC → t.map (norm f.cls) = some th.e ∧ f.parent ≠ none) ∧
    ((th.pc = .setP ∨ th.pc = .addC) → ∃ p, f.parent = some p ∧ t.map (norm p) = some th.pe) ∧
    (th.pc = .addC → t.parent th.e = some th.pe)

/-- `t'` extends `t`: bindings, child links and the parent links owned by a file persist -/
structure Ext (norm : α → α) (fs : List (FileInfo α)) (t t' : Tree α) : Prop where
  map : ∀ k n, t.map k = some n → t'.map k = some n
  chl : ∀ q n, n ∈ t.children q → n ∈ t'.children q
  par : ∀ f ∈ fs, ∀ e p pe, t.map (norm f.cls) = some e → f.parent = some p →
    t.map (norm p) = some pe → t.parent e = some pe → t'.parent e = some pe

theorem Ext.refl (norm : α → α) (fs : List (FileInfo α)) (t : Tree α) : Ext norm fs t t :=
  ⟨fun _ _ h => h, fun _ _ h => h, fun _ _ _ _ _ _ _ _ h => h⟩

theorem ThreadInv.ext {norm : α → α} {fs : List (FileInfo α)} {t t' : Tree α} {th : Thread α}
    (h : ThreadInv norm fs t th) (x : Ext norm fs t t') : ThreadInv norm fs t' th := by
  refine ⟨h.sub, ?_⟩
  intro f rest hto
  obtain ⟨h1, h2, h3, h4⟩ := h.pcs f rest hto
  refine ⟨h1, ?_, ?_, ?_⟩
  · intro hp; exact ⟨x.map _ _ (h2 hp).1, (h2 hp).2⟩
  · intro hp; obtain ⟨p, hp1, hp2⟩ := h3 hp; exact ⟨p, hp1, x.map _ _ hp2⟩
  · intro hp
    obtain ⟨p, hp1, hp2⟩ := h3 (Or.inr hp)
    have hne : th.pc ≠ .lookC := by rw [hp]; decide
    exact x.par f (h.sub f (by rw [hto]; exact List.mem_cons_self)) _ p _ (h2 hne).1 hp1 hp2 (h4 hp)

theorem DoneFact.ext {norm : α → α} {fs : List (FileInfo α)} {t t' : Tree α} {f : FileInfo α}
    (hf : f ∈ fs) (h : DoneFact norm t f) (x : Ext norm fs t t') : DoneFact norm t' f := by
  obtain ⟨e, h1, h2⟩ := h
  refine ⟨e, x.map _ _ h1, ?_⟩
  intro p hp
  obtain ⟨pe, h3, h4, h5⟩ := h2 p hp
  exact ⟨pe, x.map _ _ h3, x.par f hf e p pe h1 hp h3 h4, x.chl _ _ h5⟩

theorem Ext.create {norm : α → α} {fs : List (FileInfo α)} {t : Tree α} (h : TreeInv norm fs t)
    (nm : α) (hmiss : t.map (norm nm) = none) : Ext norm fs t (t.create (norm nm) nm).1 := by
  constructor
  · intro k n hm
    simp only [create_map]
    split
    · rename_i e; rw [e, hmiss] at hm; cases hm
    · exact hm
  · intro q n hc
    obtain ⟨f, _, p, _, _, h1⟩ := h.chl q n hc
    have := h.lt h1
    simp only [create_children, upd]
    rw [if_neg (by omega)]; exact hc
  · intro f _ e p pe h1 _ _ h4
    have := h.lt h1
    simp only [create_parent, upd]
    rw [if_neg (by omega)]; exact h4

theorem TreeInv.setParent {norm : α → α} {fs : List (FileInfo α)} {t : Tree α} (h : TreeInv norm fs t)
    {f : FileInfo α} (hf : f ∈ fs) {p : α} {e pe : Nat} (hp : f.parent = some p)
    (he : t.map (norm f.cls) = some e) (hpe : t.map (norm p) = some pe) :
    TreeInv norm fs (t.setParent e pe) := by
  refine ⟨h.mid, h.mall, ?_, h.chl, h.chn⟩
  intro n q hq
  simp only [setParent_parent, upd] at hq
  split at hq
  · cases hq; rename_i e'; subst e'; exact ⟨f, hf, p, hp, he, hpe⟩
  · exact h.par n q hq

theorem Ext.setParent {norm : α → α} {fs : List (FileInfo α)} {t : Tree α} (h : TreeInv norm fs t)
    (hk : KeysInj norm fs)
    {f : FileInfo α} (hf : f ∈ fs) {p : α} {e pe : Nat} (hp : f.parent = some p)
    (he : t.map (norm f.cls) = some e) (hpe : t.map (norm p) = some pe) :
    Ext norm fs t (t.setParent e pe) := by
  refine ⟨fun _ _ h => h, fun _ _ h => h, ?_⟩
  intro g hg e' p' pe' h1 h2 h3 h4
  simp only [setParent_parent, upd]
  split
  · rename_i ee; subst ee
    have : g = f := hk g hg f hf (h.inj h1 he)
    subst this
    rw [hp] at h2; cases h2
    rw [hpe] at h3; exact h3
  · exact h4

theorem TreeInv.addChild {norm : α → α} {fs : List (FileInfo α)} {t : Tree α} (h : TreeInv norm fs t)
    {f : FileInfo α} (hf : f ∈ fs) {p : α} {e pe : Nat} (hp : f.parent = some p)
    (he : t.map (norm f.cls) = some e) (hpe : t.map (norm p) = some pe) (hnew : e ∉ t.children pe) :
    TreeInv norm fs (t.addChild pe e) := by
  refine ⟨h.mid, h.mall, h.par, ?_, ?_⟩
  · intro q n hq
    simp only [addChild_children, upd] at hq
    split at hq
    · rename_i e'; subst e'
      rcases List.mem_append.mp hq with hq | hq
      · exact h.chl _ n hq
      · simp at hq; subst hq; exact ⟨f, hf, p, hp, he, hpe⟩
    · exact h.chl q n hq
  · intro q
    simp only [addChild_children, upd]
    split
    · rename_i e'; subst e'
      rw [List.nodup_append]
      exact ⟨h.chn _, by simp, fun a ha b hb => by simp at hb; subst hb; exact fun e => hnew (e ▸ ha)⟩
    · exact h.chn q

theorem Ext.addChild (norm : α → α) (fs : List (FileInfo α)) (t : Tree α) (e pe : Nat) :
    Ext norm fs t (t.addChild pe e) := by
  refine ⟨fun _ _ h => h, ?_, fun _ _ _ _ _ _ _ _ h => h⟩
  intro q n hq
  simp only [addChild_children, upd]
  split
  · rename_i e'; subst e'; exact List.mem_append_left _ hq
  · exact hq

/-- the node of a file that is still to be processed is nobody's child yet -/
def Fresh (norm : α → α) (t : Tree α) (fl : List (FileInfo α)) : Prop :=
  ∀ f ∈ fl, ∀ n q, t.map (norm f.cls) = some n → n ∉ t.children q

theorem Fresh.create {norm : α → α} {fs : List (FileInfo α)} {t : Tree α} (h : TreeInv norm fs t)
    {fl : List (FileInfo α)} (hf : Fresh norm t fl) (nm : α) (hmiss : t.map (norm nm) = none) :
    Fresh norm (t.create (norm nm) nm).1 fl := by
  intro f hfl n q hm hc
  simp only [create_children, upd] at hc
  split at hc
  · cases hc
  · simp only [create_map] at hm
    split at hm
    · cases hm
      obtain ⟨g, _, p, _, h1, _⟩ := h.chl q _ hc
      exact absurd (h.lt h1) (Nat.lt_irrefl _)
    · exact hf f hfl n q hm hc

theorem Fresh.sub {norm : α → α} {t : Tree α} {fl fl' : List (FileInfo α)} (hf : Fresh norm t fl)
    (h : ∀ g ∈ fl', g ∈ fl) : Fresh norm t fl' :=
  fun f hfl => hf f (h f hfl)

theorem Fresh.addChild {norm : α → α} {fs : List (FileInfo α)} {t : Tree α} (h : TreeInv norm fs t)
    {fl : List (FileInfo α)} (hf : Fresh norm t fl) {f : FileInfo α} {e pe : Nat}
    (he : t.map (norm f.cls) = some e) (hne : ∀ g ∈ fl, norm g.cls ≠ norm f.cls) :
    Fresh norm (t.addChild pe e) fl := by
  intro g hg n q hm hc
  simp only [addChild_map] at hm
  simp only [addChild_children, upd] at hc
  split at hc
  · rcases List.mem_append.mp hc with hc | hc
    · exact hf g hg n _ hm hc
    · simp at hc; subst hc
      exact hne g hg (h.inj hm he)
  · exact hf g hg n q hm hc

/-- one atomic step of one thread (repaired get-or-create); `P` = all files still to be processed -/
theorem step_inv {norm : α → α} {fs : List (FileInfo α)} {t : Tree α} {th : Thread α}
    (hk : KeysInj norm fs) (ht : TreeInv norm fs t) (hth : ThreadInv norm fs t th)
    (P : List (FileInfo α)) (hP : ∀ f ∈ th.todo, f ∈ P) (hfr : Fresh norm t P) :
    TreeInv norm fs (stepThread true norm t th).1 ∧ Ext norm fs t (stepThread true norm t th).1 ∧
    ThreadInv norm fs (stepThread true norm t th).1 (stepThread true norm t th).2 ∧
    ((stepThread true norm t th).2.todo = th.todo ∨
      ∃ f, th.todo = f :: (stepThread true norm t th).2.todo ∧ DoneFact norm (stepThread true norm t th).1 f) ∧
    (∀ P', (∀ g ∈ P', g ∈ P) →
      (∀ f, th.todo = f :: (stepThread true norm t th).2.todo → ∀ g ∈ P', norm g.cls ≠ norm f.cls) →
      Fresh norm (stepThread true norm t th).1 P') := by
  cases hto : th.todo with
  | nil =>
    simp only [stepThread, hto]
    exact ⟨ht, Ext.refl _ _ _, hth, Or.inl trivial, fun P' h _ => hfr.sub h⟩
  | cons f rest =>
    have hf : f ∈ fs := hth.sub f (by rw [hto]; exact List.mem_cons_self)
    have hfP : f ∈ P := hP f (by rw [hto]; exact List.mem_cons_self)
    have hsub : ∀ g ∈ rest, g ∈ fs := fun g hg => hth.sub g (by rw [hto]; exact List.mem_cons_of_mem _ hg)
    obtain ⟨hA, hB, hC, hD⟩ := hth.pcs f rest hto
    -- what the thread looks like after the entity of `f` is known to be `n` in tree `t'`
    have afterC : ∀ (t' : Tree α) (n : Nat), TreeInv norm fs t' → t'.map (norm f.cls) = some n →
        ThreadInv norm fs t' (th.afterC f n) ∧
        ((th.afterC f n).todo = f :: rest ∨ ((th.afterC f n).todo = rest ∧ DoneFact norm t' f)) := by
      intro t' n _ hn
      cases hp : f.parent with
      | none =>
        simp only [Thread.afterC, hp, hto, List.tail_cons]
        refine ⟨⟨hsub, ?_⟩, Or.inr ⟨trivial, n, hn, ?_⟩⟩
        · intro g r _; simp
        · intro p hp'; rw [hp] at hp'; cases hp'
      | some p =>
        simp only [Thread.afterC, hp, hto]
        refine ⟨⟨fun g hg => hth.sub g (by rw [hto]; exact hg), ?_⟩, Or.inl trivial⟩
        intro g r hg
        cases hg
        simp [hn, hp]
    cases hpc : th.pc with
    | insC => exact absurd hpc hA.1
    | insP => exact absurd hpc hA.2
    | lookC =>
      cases hm : t.map (norm f.cls) with
      | some n =>
        simp only [stepThread, hto, hpc, hm]
        obtain ⟨h1, h2⟩ := afterC t n ht hm
        refine ⟨ht, Ext.refl _ _ _, h1, ?_, fun P' h _ => hfr.sub h⟩
        rcases h2 with h2 | ⟨h2, h3⟩
        · exact Or.inl h2
        · exact Or.inr ⟨f, by rw [h2], h3⟩
      | none =>
        simp only [stepThread, hto, hpc, hm, if_true]
        have ht' := ht.create f.cls hm
        obtain ⟨h1, h2⟩ := afterC _ (t.create (norm f.cls) f.cls).2 ht' (by simp)
        refine ⟨ht', Ext.create ht f.cls hm, h1, ?_, fun P' h _ => (Fresh.create ht hfr f.cls hm).sub h⟩
        rcases h2 with h2 | ⟨h2, h3⟩
        · exact Or.inl h2
        · exact Or.inr ⟨f, by rw [h2], h3⟩
    | lookP =>
      obtain ⟨he, hpn⟩ := hB (by rw [hpc]; decide)
      cases hp : f.parent with
      | none => exact absurd hp hpn
      | some p =>
        cases hm : t.map (norm p) with
        | some n =>
          simp only [stepThread, hto, hpc, hp, hm]
          refine ⟨ht, Ext.refl _ _ _, ⟨fun g hg => hth.sub g (by rw [hto]; exact hg), ?_⟩, Or.inl trivial,
            fun P' h _ => hfr.sub h⟩
          intro g r hg
          cases hg
          simp [he, hp, hm]
        | none =>
          simp only [stepThread, hto, hpc, hp, hm, if_true]
          have hx := Ext.create ht p hm
          refine ⟨ht.create p hm, hx, ⟨fun g hg => hth.sub g (by rw [hto]; exact hg), ?_⟩, Or.inl trivial,
            fun P' h _ => (Fresh.create ht hfr p hm).sub h⟩
          intro g r hg
          cases hg
          have e' := hx.map _ _ he
          simp only [create_map] at e'
          simp [e', hp]
    | setP =>
      obtain ⟨he, hpn⟩ := hB (by rw [hpc]; decide)
      obtain ⟨p, hp, hpe⟩ := hC (Or.inl hpc)
      simp only [stepThread, hto, hpc]
      refine ⟨ht.setParent hf hp he hpe, Ext.setParent ht hk hf hp he hpe,
        ⟨fun g hg => hth.sub g (by rw [hto]; exact hg), ?_⟩, Or.inl trivial,
        fun P' h _ g hg n q hm hc => hfr g (h g hg) n q hm hc⟩
      intro g r hg
      cases hg
      simp [he, hp, hpe]
    | addC =>
      obtain ⟨he, hpn⟩ := hB (by rw [hpc]; decide)
      obtain ⟨p, hp, hpe⟩ := hC (Or.inr hpc)
      have hpar := hD hpc
      have hnew : th.e ∉ t.children th.pe := hfr f hfP th.e th.pe he
      simp only [stepThread, hto, hpc, Thread.advance, List.tail_cons]
      refine ⟨ht.addChild hf hp he hpe hnew, Ext.addChild _ _ _ _ _, ⟨hsub, ?_⟩, Or.inr ⟨f, rfl, th.e, he, ?_⟩,
        fun P' h hne => Fresh.addChild ht (hfr.sub h) he (by have := hne f; simpa using this)⟩
      · intro g r _; simp
      · intro p' hp'
        rw [hp] at hp'; cases hp'
        exact ⟨th.pe, hpe, hpar, by simp⟩

/-- the invariant of the concurrent build (repaired step), relative to the set `fs` of all files -/
structure Inv (norm : α → α) (fs : List (FileInfo α)) (c : Conc α) : Prop where
  tree : TreeInv norm fs c.tree
  thr : ∀ (j : Nat) (th : Thread α), c.threads[j]? = some th → ThreadInv norm fs c.tree th
  done : ∀ f ∈ fs, (∀ (j : Nat) (th : Thread α), c.threads[j]? = some th → f ∉ th.todo) → DoneFact norm c.tree f
  nd : ((c.threads.flatMap (·.todo)).map (fun f => norm f.cls)).Nodup
  fresh : Fresh norm c.tree (c.threads.flatMap (·.todo))

theorem nodup_remove_middle {β γ : Type} (g : β → γ) (A C : List β) (f : β)
    (h : ((A ++ f :: C).map g).Nodup) : ((A ++ C).map g).Nodup ∧ ∀ x ∈ A ++ C, g x ≠ g f := by
  have hperm : ((A ++ f :: C).map g).Perm (g f :: (A ++ C).map g) := by
    simp only [List.map_append, List.map_cons]
    exact List.perm_middle
  have := hperm.nodup_iff.mp h
  rw [List.nodup_cons] at this
  exact ⟨this.2, fun x hx e => this.1 (List.mem_map.mpr ⟨x, hx, e⟩)⟩

/-- the files still to do, split at thread `i` -/
theorem pending_split {l : List (Thread α)} {i : Nat} {th : Thread α} (h : l[i]? = some th) (th' : Thread α) :
    l.flatMap (·.todo) = (l.take i).flatMap (·.todo) ++ (th.todo ++ (l.drop (i + 1)).flatMap (·.todo)) ∧
    (l.set i th').flatMap (·.todo) = (l.take i).flatMap (·.todo) ++ (th'.todo ++ (l.drop (i + 1)).flatMap (·.todo)) := by
  have hlt : i < l.length := (List.getElem?_eq_some_iff.mp h).1
  have hget : l[i] = th := (List.getElem?_eq_some_iff.mp h).2
  constructor
  · conv => lhs; rw [← List.take_append_drop i l, List.drop_eq_getElem_cons hlt, hget]
    simp [List.flatMap_append, List.flatMap_cons]
  · rw [List.set_eq_take_append_cons_drop, if_pos hlt]
    simp [List.flatMap_append, List.flatMap_cons]

theorem init_pending (chunks : List (List (FileInfo α))) :
    (Conc.init chunks).threads.flatMap (·.todo) = chunks.flatten := by
  simp only [Conc.init]
  induction chunks with
  | nil => rfl
  | cons c rest ih => simp [List.flatMap_cons, Thread.start, ih]

theorem Inv.init (norm : α → α) (chunks : List (List (FileInfo α)))
    (hnd : (chunks.flatten.map (fun f => norm f.cls)).Nodup) :
    Inv norm chunks.flatten (Conc.init chunks) := by
  refine ⟨TreeInv.empty _ _, ?_, ?_, ?_, ?_⟩
  · intro j th hj
    simp only [Conc.init, List.getElem?_map, Option.map_eq_some_iff] at hj
    obtain ⟨ch, hch, rfl⟩ := hj
    refine ⟨?_, ?_⟩
    · intro f hf
      exact List.mem_flatten.mpr ⟨ch, List.mem_of_getElem? hch, hf⟩
    · intro f rest _
      simp [Thread.start]
  · intro f hf hno
    obtain ⟨ch, hch, hfc⟩ := List.mem_flatten.mp hf
    obtain ⟨j, hj⟩ := List.mem_iff_getElem?.mp hch
    exact absurd hfc (hno j (Thread.start ch) (by simp [Conc.init, hj]))
  · rw [init_pending]; exact hnd
  · intro f _ n q hm
    simp [Conc.init, Tree.empty] at hm

theorem Conc.step_none {atomic : Bool} {norm : α → α} {c : Conc α} {i : Nat} (h : c.threads[i]? = none) :
    c.step atomic norm i = c := by simp [Conc.step, h]

theorem Conc.step_some {atomic : Bool} {norm : α → α} {c : Conc α} {i : Nat} {th : Thread α}
    (h : c.threads[i]? = some th) :
    c.step atomic norm i = { tree := (stepThread atomic norm c.tree th).1,
                             threads := c.threads.set i (stepThread atomic norm c.tree th).2 } := by
  simp [Conc.step, h]

theorem Inv.step {norm : α → α} {fs : List (FileInfo α)} {c : Conc α} (hk : KeysInj norm fs)
    (h : Inv norm fs c) (i : Nat) : Inv norm fs (c.step true norm i) := by
  cases hi : c.threads[i]? with
  | none => rw [Conc.step_none hi]; exact h
  | some th =>
    rw [Conc.step_some hi]
    obtain ⟨sp1, sp2⟩ := pending_split hi (stepThread true norm c.tree th).2
    have hP : ∀ f ∈ th.todo, f ∈ c.threads.flatMap (·.todo) := by
      intro f hf; rw [sp1]; exact List.mem_append_right _ (List.mem_append_left _ hf)
    obtain ⟨s1, s2, s3, s4, s5⟩ := step_inv hk h.tree (h.thr i th hi) _ hP h.fresh
    have hlt : i < c.threads.length := (List.getElem?_eq_some_iff.mp hi).1
    -- the files still to do afterwards are among those before; a completed file is gone for good
    have hsubset : ∀ g ∈ (c.threads.set i (stepThread true norm c.tree th).2).flatMap (·.todo),
        g ∈ c.threads.flatMap (·.todo) := by
      intro g hg
      rw [sp2] at hg; rw [sp1]
      rcases List.mem_append.mp hg with hg | hg
      · exact List.mem_append_left _ hg
      · refine List.mem_append_right _ ?_
        rcases List.mem_append.mp hg with hg | hg
        · refine List.mem_append_left _ ?_
          rcases s4 with s4 | ⟨f, s4, _⟩
          · rw [← s4]; exact hg
          · rw [s4]; exact List.mem_cons_of_mem _ hg
        · exact List.mem_append_right _ hg
    have hgone : ∀ f, th.todo = f :: (stepThread true norm c.tree th).2.todo →
        (((c.threads.set i (stepThread true norm c.tree th).2).flatMap (fun (x : Thread α) => x.todo)).map
            (fun (x : FileInfo α) => norm x.cls)).Nodup ∧
        ∀ g ∈ (c.threads.set i (stepThread true norm c.tree th).2).flatMap (fun (x : Thread α) => x.todo),
          norm g.cls ≠ norm f.cls := by
      intro f hf
      have hnd := h.nd
      rw [sp1, hf, List.cons_append] at hnd
      rw [sp2]
      exact nodup_remove_middle (fun (x : FileInfo α) => norm x.cls) _ _ f hnd
    refine ⟨s1, ?_, ?_, ?_, ?_⟩
    · intro j th' hj
      simp only [List.getElem?_set] at hj
      split at hj
      · cases hj; exact s3
      · exact (h.thr j th' hj).ext s2
    · intro f hf hno
      by_cases hold : ∀ (j : Nat) (th' : Thread α), c.threads[j]? = some th' → f ∉ th'.todo
      · exact (h.done f hf hold).ext hf s2
      · have hnew : f ∉ (stepThread true norm c.tree th).2.todo := by
          apply hno i
          simp [hlt]
        have hin : f ∈ th.todo := by
          apply Classical.byContradiction
          intro hnot
          apply hold
          intro j th' hj
          by_cases e : i = j
          · subst e; rw [hi] at hj; cases hj; exact hnot
          · apply hno j th'
            simp [List.getElem?_set, e, hj]
        rcases s4 with s4 | ⟨g, hg, hd⟩
        · rw [s4] at hnew; exact absurd hin hnew
        · rw [hg] at hin
          rcases List.mem_cons.mp hin with e | e
          · subst e; exact hd
          · exact absurd e hnew
    · rcases s4 with s4 | ⟨f, s4, _⟩
      · rw [sp2, s4, ← sp1]; exact h.nd
      · exact (hgone f s4).1
    · apply s5 _ hsubset
      intro f hf
      exact (hgone f hf).2

theorem Inv.run {norm : α → α} {fs : List (FileInfo α)} (hk : KeysInj norm fs) (sched : List Nat) :
    ∀ {c : Conc α}, Inv norm fs c → Inv norm fs (c.run true norm sched) := by
  induction sched with
  | nil => intro c h; exact h
  | cons i rest ih => intro c h; exact ih (h.step hk i)

/-- what a tree must satisfy to answer every query with the declared relation -/
structure Represents (norm : α → α) (fs : List (FileInfo α)) (t : Tree α) : Prop where
  tree : TreeInv norm fs t
  all : ∀ f ∈ fs, DoneFact norm t f

theorem Inv.represents {norm : α → α} {fs : List (FileInfo α)} {c : Conc α} (h : Inv norm fs c)
    (hfin : c.finished = true) : Represents norm fs c.tree := by
  refine ⟨h.tree, ?_⟩
  intro f hf
  apply h.done f hf
  intro j th hj
  have : th.done = true := by
    simp only [Conc.finished, List.all_eq_true] at hfin
    exact hfin th (List.mem_of_getElem? hj)
  simp only [Thread.done, List.isEmpty_iff] at this
  rw [this]; simp

/-- every complete schedule of every chunking ends in a tree that represents the files -/
theorem conc_represents {norm : α → α} (chunks : List (List (FileInfo α))) (sched : List Nat)
    (hk : KeysInj norm chunks.flatten) (hnd : (chunks.flatten.map (fun f => norm f.cls)).Nodup)
    (hc : Complete true norm chunks sched) :
    Represents norm chunks.flatten (buildConc true norm chunks sched) :=
  (Inv.run hk sched (Inv.init norm chunks hnd)).represents hc

/-! ### the sequential builder -/

theorem Ext.trans {norm : α → α} {fs : List (FileInfo α)} {t t1 t2 : Tree α}
    (a : Ext norm fs t t1) (b : Ext norm fs t1 t2) : Ext norm fs t t2 :=
  ⟨fun k n h => b.map k n (a.map k n h), fun q n h => b.chl q n (a.chl q n h),
   fun f hf e p pe h1 h2 h3 h4 => b.par f hf e p pe (a.map _ _ h1) h2 (a.map _ _ h3) (a.par f hf e p pe h1 h2 h3 h4)⟩

theorem goc_inv {norm : α → α} {fs : List (FileInfo α)} {t : Tree α} (h : TreeInv norm fs t) (nm : α)
    {fl : List (FileInfo α)} (hfr : Fresh norm t fl) :
    TreeInv norm fs (t.goc norm nm).1 ∧ Ext norm fs t (t.goc norm nm).1 ∧
      (t.goc norm nm).1.map (norm nm) = some (t.goc norm nm).2 ∧ Fresh norm (t.goc norm nm).1 fl := by
  unfold Tree.goc
  cases hm : t.map (norm nm) with
  | some n => exact ⟨h, Ext.refl _ _ _, hm, hfr⟩
  | none => exact ⟨h.create nm hm, Ext.create h nm hm, by simp, Fresh.create h hfr nm hm⟩

theorem addFile_inv {norm : α → α} {fs : List (FileInfo α)} {t : Tree α} (hk : KeysInj norm fs)
    (h : TreeInv norm fs t) {f : FileInfo α} (hf : f ∈ fs) {fl : List (FileInfo α)}
    (hfr : Fresh norm t (f :: fl)) (hne : ∀ g ∈ fl, norm g.cls ≠ norm f.cls) :
    TreeInv norm fs (addFile norm t f) ∧ Ext norm fs t (addFile norm t f) ∧ DoneFact norm (addFile norm t f) f ∧
      Fresh norm (addFile norm t f) fl := by
  obtain ⟨a1, a2, a3, a4⟩ := goc_inv h f.cls hfr
  have hsub : ∀ g ∈ fl, g ∈ f :: fl := fun g hg => List.mem_cons_of_mem _ hg
  cases hp : f.parent with
  | none =>
    simp only [addFile, hp]
    exact ⟨a1, a2, ⟨_, a3, fun p hp' => by rw [hp] at hp'; cases hp'⟩, a4.sub hsub⟩
  | some p =>
    simp only [addFile, hp]
    obtain ⟨b1, b2, b3, b4⟩ := goc_inv a1 p a4
    have he := b2.map _ _ a3
    have hnew : (t.goc norm f.cls).2 ∉ (((t.goc norm f.cls).1.goc norm p).1.setParent (t.goc norm f.cls).2
        ((t.goc norm f.cls).1.goc norm p).2).children ((t.goc norm f.cls).1.goc norm p).2 := by
      simpa using b4 f List.mem_cons_self _ _ he
    have c1 := b1.setParent hf hp he b3
    refine ⟨c1.addChild hf hp (by simpa using he) (by simpa using b3) hnew,
      (a2.trans b2).trans ((Ext.setParent b1 hk hf hp he b3).trans (Ext.addChild _ _ _ _ _)),
      ⟨(t.goc norm f.cls).2, ?_, ?_⟩, ?_⟩
    · simpa using he
    · intro p' hp'
      rw [hp] at hp'; cases hp'
      exact ⟨_, by simpa using b3, by simp, by simp⟩
    · have b4' : Fresh norm (((t.goc norm f.cls).1.goc norm p).1.setParent (t.goc norm f.cls).2
          ((t.goc norm f.cls).1.goc norm p).2) fl :=
        fun g hg n q hm hc => b4 g (hsub g hg) n q hm hc
      exact Fresh.addChild c1 b4' (by simpa using he) hne

theorem foldl_addFile_inv {norm : α → α} {fs : List (FileInfo α)} (hk : KeysInj norm fs) :
    ∀ (rest done : List (FileInfo α)) (t : Tree α), (∀ f ∈ rest, f ∈ fs) → TreeInv norm fs t →
      (∀ f ∈ done, f ∈ fs ∧ DoneFact norm t f) →
      (rest.map (fun f => norm f.cls)).Nodup → Fresh norm t rest →
      TreeInv norm fs (rest.foldl (addFile norm) t) ∧
        ∀ f ∈ done ++ rest, DoneFact norm (rest.foldl (addFile norm) t) f := by
  intro rest
  induction rest with
  | nil =>
    intro done t _ ht hd _ _
    exact ⟨ht, fun f hf => (hd f (by simpa using hf)).2⟩
  | cons g rest ih =>
    intro done t hsub ht hd hnd hfr
    have hg : g ∈ fs := hsub g List.mem_cons_self
    rw [List.map_cons, List.nodup_cons] at hnd
    obtain ⟨a1, a2, a3, a4⟩ := addFile_inv hk ht hg hfr
      (fun x hx e => hnd.1 (List.mem_map.mpr ⟨x, hx, e⟩))
    have := ih (done ++ [g]) (addFile norm t g) (fun f hf => hsub f (List.mem_cons_of_mem _ hf)) a1 (by
      intro f hf
      rcases List.mem_append.mp hf with hf | hf
      · exact ⟨(hd f hf).1, (hd f hf).2.ext (hd f hf).1 a2⟩
      · simp at hf; subst hf; exact ⟨hg, a3⟩) hnd.2 a4
    simpa using this

theorem seq_represents {norm : α → α} {fs : List (FileInfo α)} (hk : KeysInj norm fs)
    (hnd : (fs.map (fun f => norm f.cls)).Nodup) : Represents norm fs (buildSeq norm fs) := by
  obtain ⟨h1, h2⟩ := foldl_addFile_inv hk fs [] Tree.empty (fun _ h => h) (TreeInv.empty _ _) (by simp) hnd
    (by intro f _ n q hm; simp [Tree.empty] at hm)
  exact ⟨h1, fun f hf => h2 f (by simpa using hf)⟩

end Gold.Tree
