import GoldModel.Model.Locks
/-!
Helper lemmas for C14: parent chains (`walk`), what the repaired linking rule preserves, and
the measures by which lookups and entity-tree walks terminate.
-/
set_option linter.unusedSectionVars false
namespace Gold.Locks

/-! ### chains -/

theorem walk_add (ptr : Nat → Option Nat) (a b i : Nat) :
    walk ptr (a + b) i = (walk ptr a i).bind (walk ptr b) := by
  induction a generalizing i with
  | zero => simp [walk]
  | succ a ih =>
    rw [Nat.succ_add]
    simp only [walk]
    cases ptr i with
    | none => rfl
    | some j => exact ih j

theorem walk_none_mono (ptr : Nat → Option Nat) {a : Nat} (b : Nat) {i : Nat} (h : walk ptr a i = none) :
    walk ptr (a + b) i = none := by
  rw [walk_add, h]; rfl

/-- a table that reaches itself has an endless chain -/
theorem cycle_never_ends (ptr : Nat → Option Nat) (p : Nat) (i : Nat) (hp : 0 < p) (h : walk ptr p i = some i) :
    ∀ k, walk ptr k i ≠ none := by
  intro k
  induction k using Nat.strongRecOn with
  | _ k ih =>
    intro hk
    by_cases hlt : k < p
    · have : walk ptr (k + (p - k)) i = none := walk_none_mono ptr _ hk
      rw [show k + (p - k) = p by omega, h] at this
      cases this
    · have e : k = p + (k - p) := by omega
      rw [e, walk_add, h] at hk
      exact ih (k - p) (by omega) hk

theorem not_acyclic_of_cycle (ptr : Nat → Option Nat) (p i : Nat) (hp : 0 < p) (h : walk ptr p i = some i) :
    ¬ Acyclic ptr := by
  intro ha
  obtain ⟨k, hk⟩ := ha i
  exact cycle_never_ends ptr p i hp h k hk

def updPtr (ptr : Nat → Option Nat) (t : Nat) (v : Option Nat) : Nat → Option Nat :=
  fun i => if i = t then v else ptr i

/-- soundness of the chain check: if it answers `true`, the chain from `p` ends and never meets `t` -/
theorem chainAvoids_sound (ptr : Nat → Option Nat) (t : Nat) :
    ∀ (fuel p : Nat), chainAvoids ptr fuel p t = true →
      (∃ m, walk ptr m p = none) ∧ ∀ k, walk ptr k p ≠ some t := by
  intro fuel
  induction fuel with
  | zero => intro p h; simp [chainAvoids] at h
  | succ fuel ih =>
    intro p h
    simp only [chainAvoids] at h
    split at h
    · cases h
    · rename_i hne
      cases hp : ptr p with
      | none =>
        refine ⟨⟨1, by simp [walk, hp]⟩, ?_⟩
        intro k
        cases k with
        | zero => simp [walk]; exact hne
        | succ k => simp [walk, hp]
      | some q =>
        rw [hp] at h
        obtain ⟨⟨m, hm⟩, h2⟩ := ih q h
        refine ⟨⟨m + 1, by simp [walk, hp, hm]⟩, ?_⟩
        intro k
        cases k with
        | zero => simp [walk]; exact hne
        | succ k => simp only [walk, hp]; exact h2 k

/-- a chain that never meets `t` does not notice a change of `t`'s pointer -/
theorem walk_upd_of_avoids (ptr : Nat → Option Nat) (t : Nat) (v : Option Nat) (p : Nat)
    (h : ∀ k, walk ptr k p ≠ some t) : ∀ k, walk (updPtr ptr t v) k p = walk ptr k p := by
  intro k
  induction k generalizing p with
  | zero => rfl
  | succ k ih =>
    have hpt : p ≠ t := by
      intro e; exact h 0 (by simp [walk, e])
    simp only [walk, updPtr, if_neg hpt]
    cases hp : ptr p with
    | none => rfl
    | some q =>
      apply ih
      intro k'
      have := h (k' + 1)
      simpa [walk, hp] using this

/-- **the repaired link keeps every chain finite** -/
theorem link_preserves (ptr : Nat → Option Nat) (t p : Nat) (ha : Acyclic ptr)
    (hend : ∃ m, walk ptr m p = none) (hav : ∀ k, walk ptr k p ≠ some t) :
    Acyclic (updPtr ptr t (some p)) := by
  obtain ⟨m, hm⟩ := hend
  have hp : walk (updPtr ptr t (some p)) m p = none := by
    rw [walk_upd_of_avoids ptr t _ p hav]; exact hm
  intro i
  obtain ⟨n, hn⟩ := ha i
  -- induction on the length of the old chain from i
  induction n generalizing i with
  | zero => simp [walk] at hn
  | succ n ih =>
    by_cases hit : i = t
    · refine ⟨m + 1, ?_⟩
      simp only [walk, updPtr, if_pos hit]
      exact hp
    · cases hpi : ptr i with
      | none => exact ⟨1, by simp [walk, updPtr, hit, hpi]⟩
      | some j =>
        simp only [walk, hpi] at hn
        obtain ⟨k, hk⟩ := ih j hn
        exact ⟨k + 1, by simp [walk, updPtr, hit, hpi, hk]⟩

/-! ### the state operations and the pointer graph -/

variable {α : Type} [DecidableEq α]

theorem ptrOf_newTable (s : St α) (c : α) : ptrOf (s.newTable c).1 = ptrOf s := by
  funext i
  simp only [ptrOf, St.newTable, List.getElem?_append]
  split
  · rfl
  · rename_i h
    have h1 : s.tables[i]? = none := List.getElem?_eq_none (by omega)
    rw [h1]
    by_cases h2 : i - s.tables.length = 0
    · simp [h2]
    · have : ([{ cls := c, syms := [], parent := none }] : List (Table α))[i - s.tables.length]? = none :=
        List.getElem?_eq_none (by simp; omega)
      rw [this]

theorem ptrOf_insertSym (s : St α) (t : Nat) (n : α) : ptrOf (s.insertSym t n) = ptrOf s := by
  funext i
  simp only [ptrOf, St.insertSym, List.getElem?_modify]
  cases s.tables[i]? with
  | none => simp
  | some x => by_cases e : t = i <;> simp [e]

theorem ptrOf_setParent (s : St α) (t p : Nat) (ht : t < s.tables.length) :
    ptrOf (s.setParent t p) = updPtr (ptrOf s) t (some p) := by
  funext i
  simp only [ptrOf, St.setParent, List.getElem?_modify, updPtr]
  by_cases e : i = t
  · subst e
    have : s.tables[i]? = some s.tables[i] := List.getElem?_eq_getElem ht
    simp [this]
  · have e' : ¬ t = i := fun h => e h.symm
    cases s.tables[i]? with
    | none => simp [e]
    | some x => simp [e, e']

theorem ptrOf_setParent_oob (s : St α) (t p : Nat) (ht : ¬ t < s.tables.length) :
    ptrOf (s.setParent t p) = ptrOf s := by
  funext i
  simp only [ptrOf, St.setParent, List.getElem?_modify]
  cases h : s.tables[i]? with
  | none => simp
  | some x =>
    have : i < s.tables.length := (List.getElem?_eq_some_iff.mp h).1
    have e : ¬ t = i := by omega
    simp [e]

/-- the repaired `link` keeps the pointer graph acyclic -/
theorem link_acyclic_step (rule : Rule) (hr : rule.chainCheck = true) (s : St α) (t p : Nat)
    (ha : Acyclic (ptrOf s)) : Acyclic (ptrOf (s.link rule t p)) := by
  unfold St.link
  rw [hr]
  cases hc : chainAvoids (ptrOf s) (s.tables.length + 1) p t with
  | false => simpa using ha
  | true =>
    simp only [Bool.not_true, Bool.and_false, Bool.false_eq_true, if_false]
    by_cases ht : t < s.tables.length
    · rw [ptrOf_setParent s t p ht]
      obtain ⟨h1, h2⟩ := chainAvoids_sound (ptrOf s) t _ p hc
      exact link_preserves (ptrOf s) t p ha h1 h2
    · rw [ptrOf_setParent_oob s t p ht]; exact ha

/-! ### every analysis keeps the pointer graph acyclic (repaired rule) -/

/-- `f` never leaves a cyclic pointer graph behind -/
def Keeps (f : St α → Res α) : Prop := ∀ s, Acyclic (ptrOf s) → Acyclic (ptrOf (f s).st)

theorem Res.andThen_keeps {r : Res α} {f : St α → Res α} (hr : Acyclic (ptrOf r.st)) (hf : Keeps f) :
    Acyclic (ptrOf (r.andThen f).st) := by
  unfold Res.andThen
  cases r.stuck with
  | some _ => exact hr
  | none => exact hf r.st hr

theorem lookup_st (norm : α → α) (s : St α) (t : Nat) (n : α) : (s.lookup norm t n).st = s := by
  unfold St.lookup; split <;> rfl

theorem lookupMiss_st (s : St α) (t : Nat) : (s.lookupMiss t).st = s := by
  unfold St.lookupMiss; split <;> rfl

theorem foldl_andThen_keeps {β : Type} (l : List β) (g : St α → β → Res α) (hg : ∀ b, Keeps (fun s => g s b)) :
    ∀ (r : Res α), Acyclic (ptrOf r.st) → Acyclic (ptrOf (l.foldl (fun r b => r.andThen fun s => g s b) r).st) := by
  induction l with
  | nil => intro r h; exact h
  | cons b rest ih => intro r h; exact ih _ (Res.andThen_keeps h (hg b))

section
variable (rule : Rule) (norm : α → α) (ds : List (ClassDecl α)) (nested : St α → ClassDecl α → Res α)

theorem ensureWith_keeps (hn : ∀ cd, Keeps (fun s => nested s cd)) (c : α) :
    Keeps (fun s => ensureWith norm ds nested s c) := by
  intro s hs
  simp only [ensureWith]
  split
  · exact hs
  · split
    · exact hs
    · exact hn _ s hs

theorem useLookupWith_keeps (hn : ∀ cd, Keeps (fun s => nested s cd)) (u : α) :
    Keeps (fun s => useLookupWith norm ds nested s u) := by
  intro s hs
  simp only [useLookupWith]
  apply Res.andThen_keeps (ensureWith_keeps norm ds nested hn u s hs)
  intro s' hs'
  simp only []
  split
  · exact hs'
  · rw [lookupMiss_st]; exact hs'

theorem usesLoop_keeps (hn : ∀ cd, Keeps (fun s => nested s cd)) (uses : List α) :
    Keeps (usesLoop norm ds nested uses) := by
  intro s hs
  exact foldl_andThen_keeps uses _ (useLookupWith_keeps norm ds nested hn) _ hs

theorem linkParent_keeps (hr : rule.chainCheck = true) (hn : ∀ cd, Keeps (fun s => nested s cd))
    (t : Nat) (d : ClassDecl α) : Keeps (linkParent rule norm ds nested t d) := by
  intro s hs
  simp only [linkParent]
  split
  · exact hs
  · split
    · exact hs
    · split
      · exact hs
      · apply Res.andThen_keeps (ensureWith_keeps norm ds nested hn _ s hs)
        intro s' hs'
        simp only []
        split
        · exact hs'
        · exact link_acyclic_step rule hr s' _ _ hs'

theorem headerStep_keeps (hr : rule.chainCheck = true) (hn : ∀ cd, Keeps (fun s => nested s cd))
    (t : Nat) (d : ClassDecl α) : Keeps (headerStep rule norm ds nested t d) := by
  intro s hs
  simp only [headerStep]
  split
  · exact Res.andThen_keeps (linkParent_keeps rule norm ds nested hr hn t d s hs)
      (f := fun s' => Res.ok ((s'.insertSym t d.name).insertSym t d.name))
      (by intro s' hs'; show Acyclic (ptrOf ((s'.insertSym _ d.name).insertSym _ d.name))
          rw [ptrOf_insertSym, ptrOf_insertSym]; exact hs')
  · exact hs

theorem declStep_keeps (hn : ∀ cd, Keeps (fun s => nested s cd)) (t : Nat) (uses : List α) (dc : Decl α) :
    Keeps (fun s => declStep norm ds nested t uses s dc) := by
  intro s hs
  simp only [declStep]
  apply Res.andThen_keeps (by rw [lookup_st]; exact hs)
  intro s1 hs1
  apply Res.andThen_keeps
  · cases dc with
    | plain _ => exact hs1
    | viaUses _ =>
      apply Res.andThen_keeps (by rw [lookupMiss_st]; exact hs1)
      exact usesLoop_keeps norm ds nested hn uses
  · intro s2 hs2
    show Acyclic (ptrOf (s2.insertSym t dc.name))
    rw [ptrOf_insertSym]; exact hs2

theorem annotateBody_keeps (hr : rule.chainCheck = true) (hn : ∀ cd, Keeps (fun s => nested s cd))
    (d : ClassDecl α) (defsOnly : Bool) : Keeps (fun s => annotateBody rule norm ds nested s d defsOnly) := by
  intro s hs
  simp only [annotateBody]
  have h0 : Acyclic (ptrOf ({ (s.newTable d.name).1 with
      pub := (norm d.name, s.tables.length) :: s.pub,
      full := if defsOnly then s.full else norm d.name :: s.full } : St α)) := by
    have : ptrOf ({ (s.newTable d.name).1 with
      pub := (norm d.name, s.tables.length) :: s.pub,
      full := if defsOnly then s.full else norm d.name :: s.full } : St α) = ptrOf (s.newTable d.name).1 := rfl
    rw [this, ptrOf_newTable]; exact hs
  have h1 := headerStep_keeps rule norm ds nested hr hn s.tables.length d _ h0
  have h2 := foldl_andThen_keeps d.decls (fun s' dc => declStep norm ds nested s.tables.length d.uses s' dc)
    (declStep_keeps norm ds nested hn _ _) _ h1
  split
  · exact h2
  · apply Res.andThen_keeps h2
    intro s' hs'
    apply Res.andThen_keeps (by rw [lookupMiss_st]; exact hs')
    exact usesLoop_keeps norm ds nested hn d.uses

theorem annotate_keeps (hr : rule.chainCheck = true) :
    ∀ (k : Nat) (d : ClassDecl α) (defsOnly : Bool), Keeps (fun s => annotate rule norm ds k s d defsOnly) := by
  intro k
  induction k with
  | zero => intro d b s hs; exact hs
  | succ k ih =>
    intro d b
    exact annotateBody_keeps rule norm ds _ hr (fun cd => ih cd true) d b

theorem ensureTable_keeps (hr : rule.chainCheck = true) (c : α) :
    Keeps (fun s => ensureTable rule norm ds s c) := by
  intro s hs
  simp only [ensureTable]
  split
  · exact hs
  · split
    · exact hs
    · exact annotate_keeps rule norm ds hr _ _ _ s hs

theorem analyzeFull_keeps (hr : rule.chainCheck = true) (c : α) :
    Keeps (fun s => analyzeFull rule norm ds s c) := by
  intro s hs
  simp only [analyzeFull]
  split
  · exact hs
  · split
    · exact hs
    · exact annotate_keeps rule norm ds hr _ _ _ s hs

theorem stuckIf_st (s : St α) (w : WalkRes) : (stuckIf s w).st = s := by
  unfold stuckIf; split <;> rfl

theorem ensureNodes_keeps (hr : rule.chainCheck = true) (l : List Nat) :
    Keeps (ensureNodes rule norm ds l) := by
  intro s hs
  refine foldl_andThen_keeps l (fun s i => match ds[i]? with
    | some cd => ensureTable rule norm ds s cd.name
    | none => .ok s) ?_ _ hs
  intro i s' hs'
  simp only []
  split
  · exact ensureTable_keeps rule norm ds hr _ s' hs'
  · exact hs'

theorem memberWalks_keeps (hr : rule.chainCheck = true) (ci : Nat) (stop : Nat → Bool) :
    Keeps (memberWalks rule norm ds ci stop) := by
  intro s hs
  simp only [memberWalks]
  apply Res.andThen_keeps
  · split
    · exact hs
    · apply Res.andThen_keeps (ensureNodes_keeps rule norm ds hr _ s hs)
      intro s' hs'
      simp only [stuckIf_st]; exact hs'
  · intro s1 hs1
    apply Res.andThen_keeps (ensureNodes_keeps rule norm ds hr _ s1 hs1)
    intro s' hs'
    simp only [stuckIf_st]; exact hs'

theorem request_keeps (hr : rule.chainCheck = true) (kd : Kind) (ci : Nat) :
    Keeps (fun s => request rule norm ds s kd ci) := by
  intro s hs
  simp only [request]
  split
  · exact hs
  · rename_i d _
    cases kd with
    | diag => exact analyzeFull_keeps rule norm ds hr _ s hs
    | defn =>
      apply Res.andThen_keeps (analyzeFull_keeps rule norm ds hr _ s hs)
      intro s1 hs1
      simp only []
      split
      · exact hs1
      · apply Res.andThen_keeps (by rw [lookup_st]; exact hs1)
        intro s2 hs2
        simp only []
        split
        · rw [lookupMiss_st]; exact hs2
        · exact hs2
    | comp =>
      apply Res.andThen_keeps (analyzeFull_keeps rule norm ds hr _ s hs)
      intro s1 hs1
      simp only []
      split
      · exact hs1
      · rw [lookupMiss_st]; exact hs1
    | hier =>
      apply Res.andThen_keeps (analyzeFull_keeps rule norm ds hr _ s hs)
      intro s1 hs1
      apply Res.andThen_keeps (ensureNodes_keeps rule norm ds hr _ s1 hs1)
      intro s2 hs2
      simp only []
      split
      · exact foldl_andThen_keeps d.members (fun s m => memberWalks rule norm ds ci (declaresAt norm ds m) s)
          (fun m => memberWalks_keeps rule norm ds hr ci _) _ hs2
      · exact hs2
    | hierx =>
      apply Res.andThen_keeps (ensureTable_keeps rule norm ds hr _ s hs)
      intro s1 hs1
      simp only []
      split
      · exact memberWalks_keeps rule norm ds hr ci _ s1 hs1
      · exact hs1

theorem runRequests_keeps (hr : rule.chainCheck = true) (reqs : List (Kind × Nat)) :
    Keeps (runRequests rule norm ds reqs) := by
  intro s hs
  exact foldl_andThen_keeps reqs (fun s q => request rule norm ds s q.1 q.2)
    (fun q => request_keeps rule norm ds hr q.1 q.2) _ hs

end

/-! ### lookups terminate on an acyclic pointer graph, with every lock released -/

/-- no table of `held` is reached again from `i` (all of them lie strictly behind `i` on the chain) -/
theorem lookupLocks_acyclic (ptr : Nat → Option Nat) (has : Nat → Bool) (ha : Acyclic ptr) :
    ∀ (n k : Nat) (held : List Nat) (i : Nat), walk ptr n i = none → n ≤ k →
      (∀ h ∈ held, ∃ m, walk ptr m h = some i) →
      ∃ r, lookupLocks ptr has k held i = (.done r, held) := by
  intro n
  induction n with
  | zero => intro k held i h; simp [walk] at h
  | succ n ih =>
    intro k held i hn hk hheld
    cases k with
    | zero => omega
    | succ k =>
      simp only [lookupLocks]
      split
      · exact ⟨_, rfl⟩
      · cases hp : ptr i with
        | none => exact ⟨_, rfl⟩
        | some j =>
          simp only [walk, hp] at hn
          simp only
          have hnot : held.contains j = false := by
            cases hc : held.contains j with
            | false => rfl
            | true =>
              exfalso
              obtain ⟨m, hm⟩ := hheld j (by simpa using hc)
              -- j reaches i in m steps and i reaches j in one: a cycle
              have : walk ptr (m + 1) j = some j := by
                rw [walk_add, hm]; simp [walk, hp]
              exact not_acyclic_of_cycle ptr (m + 1) j (by omega) this ha
          rw [hnot]
          obtain ⟨r, hr⟩ := ih k (j :: held) j hn (by omega) (by
            intro h hh
            rcases List.mem_cons.mp hh with e | e
            · exact ⟨0, by simp [walk, e]⟩
            · obtain ⟨m, hm⟩ := hheld h e
              exact ⟨m + 1, by rw [walk_add, hm]; simp [walk, hp]⟩)
          simp only [Bool.false_eq_true, if_false, hr]
          exact ⟨r, by simp⟩

/-! ### a measure for walks that keep a visited set: the nodes not yet visited -/

def unvisited (N : Nat) (vis : List Nat) : Nat := ((List.range N).filter (fun i => !vis.contains i)).length

theorem filter_length_mono {β : Type} (l : List β) (p q : β → Bool) (h : ∀ x, p x = true → q x = true) :
    (l.filter p).length ≤ (l.filter q).length := by
  induction l with
  | nil => simp
  | cons a rest ih =>
    simp only [List.filter_cons]
    cases hp : p a with
    | true => simp [h a hp]; exact ih
    | false =>
      cases q a with
      | true => simp; omega
      | false => simpa using ih

theorem filter_length_lt {β : Type} (l : List β) (p q : β → Bool) (h : ∀ x, p x = true → q x = true)
    (a : β) (ha : a ∈ l) (hq : q a = true) (hp : p a = false) :
    (l.filter p).length < (l.filter q).length := by
  induction l with
  | nil => cases ha
  | cons b rest ih =>
    simp only [List.filter_cons]
    rcases List.mem_cons.mp ha with e | e
    · subst e
      simp only [hp, hq, Bool.false_eq_true, if_false, if_true, List.length_cons]
      have := filter_length_mono rest p q h
      omega
    · have := ih e
      cases hpb : p b with
      | true => simp [h b hpb]; exact this
      | false =>
        cases q b with
        | true => simp; omega
        | false => simpa using this

theorem unvisited_cons_lt (N : Nat) (vis : List Nat) (n : Nat) (hn : n < N) (hv : vis.contains n = false) :
    unvisited N (n :: vis) < unvisited N vis := by
  unfold unvisited
  have hv' : ¬ n ∈ vis := by simpa using hv
  apply filter_length_lt _ _ _ _ n (List.mem_range.mpr hn)
  · simpa using hv'
  · simp
  · intro x hx
    simp only [List.contains_cons, Bool.not_eq_true', Bool.or_eq_false_iff] at hx
    have : ¬ x ∈ vis := by simpa using hx.2
    simpa using this

theorem unvisited_mono (N : Nat) (vis vis' : List Nat) (h : ∀ x ∈ vis, x ∈ vis') :
    unvisited N vis' ≤ unvisited N vis := by
  unfold unvisited
  apply filter_length_mono
  intro x hx
  simp only [Bool.not_eq_true', List.contains_eq_mem, decide_eq_false_iff_not] at hx ⊢
  exact fun hm => hx (h x hm)

/-- the upward walk with a visited set ends on EVERY graph over `N` nodes -/
theorem walkUp_visited_done (tparent : Nat → Option Nat) (stop : Nat → Bool) (N : Nat)
    (hclosed : ∀ n p, tparent n = some p → p < N) :
    ∀ (k : Nat) (vis : List Nat) (n : Nat), n < N → unvisited N vis < k →
      walkUp tparent stop true k vis n = .done := by
  intro k
  induction k with
  | zero => intro vis n _ h; omega
  | succ k ih =>
    intro vis n hn hk
    simp only [walkUp, Bool.true_and]
    cases hc : vis.contains n with
    | true => simp
    | false =>
      simp only [Bool.false_eq_true, if_false]
      split
      · rfl
      · cases hp : tparent n with
        | none => rfl
        | some p =>
          apply ih (n :: vis) p (hclosed n p hp)
          have := unvisited_cons_lt N vis n hn hc
          omega

/-- the downward walk with a visited set ends on EVERY graph over `N` nodes, holding no lock -/
theorem walkDown_visited_done (tchildren : Nat → List Nat) (stop : Nat → Bool) (N : Nat)
    (hclosed : ∀ n c, c ∈ tchildren n → c < N) :
    ∀ (k : Nat) (held vis : List Nat) (n : Nat), n < N → unvisited N vis < k →
      ∃ vis', walkDown tchildren stop true k held vis n = (.done, held, vis') ∧ ∀ x ∈ vis, x ∈ vis' := by
  intro k
  induction k with
  | zero => intro held vis n _ h; omega
  | succ k ih =>
    intro held vis n hn hk
    simp only [walkDown, if_true]
    cases hc : vis.contains n with
    | true => exact ⟨vis, by simp, fun x hx => hx⟩
    | false =>
      simp only [Bool.false_eq_true, if_false]
      split
      · exact ⟨n :: vis, rfl, fun x hx => List.mem_cons_of_mem _ hx⟩
      · have hlt := unvisited_cons_lt N vis n hn hc
        -- the fold over the children
        suffices h : ∀ (l : List Nat), (∀ c ∈ l, c < N) → ∀ (v : List Nat), (∀ x ∈ n :: vis, x ∈ v) →
            ∃ v', l.foldl (fun (acc : WalkRes × List Nat × List Nat) c =>
                match acc with
                | (WalkRes.done, h, v) => walkDown tchildren stop true k h v c
                | other => other) (WalkRes.done, held, v) = (WalkRes.done, held, v') ∧ ∀ x ∈ v, x ∈ v' by
          obtain ⟨v', h1, h2⟩ := h (tchildren n) (hclosed n) (n :: vis) (fun x hx => hx)
          exact ⟨v', h1, fun x hx => h2 x (List.mem_cons_of_mem _ hx)⟩
        intro l
        induction l with
        | nil => intro _ v _; exact ⟨v, rfl, fun x hx => hx⟩
        | cons c rest ihl =>
          intro hl v hv
          simp only [List.foldl_cons]
          have hvlt : unvisited N v < k := by
            have := unvisited_mono N (n :: vis) v hv
            omega
          obtain ⟨v1, e1, s1⟩ := ih held v c (hl c List.mem_cons_self) hvlt
          rw [e1]
          obtain ⟨v2, e2, s2⟩ := ihl (fun c hc => hl c (List.mem_cons_of_mem _ hc)) v1 (fun x hx => s1 x (hv x hx))
          exact ⟨v2, e2, fun x hx => s2 x (s1 x hx)⟩

theorem foldl_fixed {β γ : Type} (F : γ → β → γ) (l : List β) (x : γ) (h : ∀ b ∈ l, F x b = x) :
    l.foldl F x = x := by
  induction l with
  | nil => rfl
  | cons b rest ih =>
    simp only [List.foldl_cons, h b List.mem_cons_self]
    exact ih (fun b hb => h b (List.mem_cons_of_mem _ hb))

/-- pinned upward walk: ends when the chain of tree parents ends -/
theorem walkUp_chain_done (tparent : Nat → Option Nat) (stop : Nat → Bool) (b : Bool) :
    ∀ (m k : Nat) (vis : List Nat) (n : Nat), walk tparent m n = none → m ≤ k →
      walkUp tparent stop b k vis n = .done := by
  intro m
  induction m with
  | zero => intro k vis n h; simp [walk] at h
  | succ m ih =>
    intro k vis n h hk
    cases k with
    | zero => omega
    | succ k =>
      simp only [walkUp]
      split
      · rfl
      · split
        · rfl
        · cases hp : tparent n with
          | none => rfl
          | some p =>
            simp only [walk, hp] at h
            exact ih k _ p h (by omega)

/-- pinned downward walk (holds the node while it searches the subtree): on a tree whose child
    relation is well founded it ends with exactly the locks it started with -/
theorem walkDown_ranked_done (tchildren : Nat → List Nat) (stop : Nat → Bool) (rank : Nat → Nat)
    (hrank : ∀ n c, c ∈ tchildren n → rank c < rank n) :
    ∀ (k : Nat) (held vis : List Nat) (n : Nat), rank n < k → (∀ h ∈ held, rank n < rank h) →
      walkDown tchildren stop false k held vis n = (.done, held, vis) := by
  intro k
  induction k with
  | zero => intro held vis n h; omega
  | succ k ih =>
    intro held vis n hk hheld
    simp only [walkDown, Bool.false_eq_true, if_false]
    have hnot : held.contains n = false := by
      cases hc : held.contains n with
      | false => rfl
      | true =>
        have := hheld n (by simpa using hc)
        omega
    rw [hnot]
    simp only [Bool.false_eq_true, if_false]
    split
    · rfl
    · rw [foldl_fixed _ (tchildren n) _ (by
        intro c hcm
        have hc := hrank n c hcm
        show walkDown tchildren stop false k (n :: held) vis c = _
        exact ih (n :: held) vis c (by omega) (by
          intro h hh
          rcases List.mem_cons.mp hh with e | e
          · rw [e]; exact hc
          · have := hheld h e; omega))]
      simp

end Gold.Locks
