import GoldModel.Lemmas.DocStore
/-! lemmas for C02: the cache invariant of M-DOC ("every cached artefact derives from the
    current logical versions") and its preservation by the analysis and by guarded events. -/
namespace Gold.Doc

/-! ### records as total functions -/

/-- the record of `p`, a pristine one if `p` is not registered (lazy registration creates exactly that) -/
def Store.info (s : Store) (p : Path) : Info := (s.byPath p).getD (Info.new p)

theorem info_of_some {s : Store} {p : Path} {i : Info} (h : s.byPath p = some i) : s.info p = i := by
  simp [Store.info, h]

theorem info_of_none {s : Store} {p : Path} (h : s.byPath p = none) : s.info p = Info.new p := by
  simp [Store.info, h]

theorem byPath_modify (s : Store) (p q : Path) (f : Info → Info) :
    (s.modify p f).byPath q = if p = q then (s.byPath q).map f else s.byPath q := by
  simp only [Store.modify, Store.byPath]
  exact lookup_update p q f s.docs

theorem info_modify {s : Store} {p : Path} {i : Info} (h : s.byPath p = some i) (f : Info → Info) (q : Path) :
    (s.modify p f).info q = if q = p then f i else s.info q := by
  simp only [Store.info, byPath_modify]
  by_cases e : p = q
  · subst e; simp [h]
  · have : ¬ q = p := fun e' => e e'.symm
    simp [e, this]

theorem logical_eq (fs : FS) (s : Store) (p : Path) :
    logical fs s p = match (s.info p).opened with | some d => some (.text d.text) | none => fs p := by
  simp only [logical, Store.info]
  cases s.byPath p with
  | none => simp [Info.new]
  | some i => rfl

/-- two stores that differ only by caches that do not show in the logical workspace -/
structure Same (s s' : Store) : Prop where
  classes : s'.classes = s.classes
  opened : ∀ q, ((s'.info q).opened).map (·.text) = ((s.info q).opened).map (·.text)
  reg : ∀ q, s.byPath q ≠ none → s'.byPath q ≠ none

theorem Same.refl (s : Store) : Same s s := ⟨rfl, fun _ => rfl, fun _ h => h⟩

theorem Same.trans {a b c : Store} (h₁ : Same a b) (h₂ : Same b c) : Same a c :=
  ⟨h₂.classes.trans h₁.classes, fun q => (h₂.opened q).trans (h₁.opened q), fun q h => h₂.reg q (h₁.reg q h)⟩

theorem Same.logical {s s' : Store} (h : Same s s') (fs : FS) : logical fs s' = logical fs s := by
  funext p
  rw [logical_eq, logical_eq]
  have := h.opened p
  cases h₁ : (s'.info p).opened <;> cases h₂ : (s.info p).opened <;> simp_all

theorem Same.openedNone {s s' : Store} (h : Same s s') {q : Path} (hq : (s.info q).opened = none) :
    (s'.info q).opened = none := by
  have := h.opened q
  rw [hq] at this
  cases h' : (s'.info q).opened with
  | none => rfl
  | some d => rw [h'] at this; simp at this

/-! ### valid provenance -/

section
variable (lg : Lang) (norm : String → String)

/-- `t` is the chain a fresh analysis of `p` over the logical workspace `L` would build -/
def ValidTab (s : Store) (L : FS) : Path → Tab → Prop
  | _, [] => False
  | p, (q, t) :: rest =>
    q = p ∧ L p = some (.text t) ∧
      match parentPath lg norm s L p t with
      | none => rest = []
      | some pp => ValidTab s L pp rest

theorem validTab_unique (s : Store) (L : FS) (p : Path) (t₁ t₂ : Tab)
    (h₁ : ValidTab lg norm s L p t₁) (h₂ : ValidTab lg norm s L p t₂) : t₁ = t₂ := by
  induction t₁ generalizing p t₂ with
  | nil => exact absurd h₁ (by simp [ValidTab])
  | cons e₁ r₁ ih =>
    cases t₂ with
    | nil => exact absurd h₂ (by simp [ValidTab])
    | cons e₂ r₂ =>
      obtain ⟨q₁, x₁⟩ := e₁
      obtain ⟨q₂, x₂⟩ := e₂
      simp only [ValidTab] at h₁ h₂
      obtain ⟨e₁, hl₁, hr₁⟩ := h₁
      obtain ⟨e₂, hl₂, hr₂⟩ := h₂
      rw [hl₁] at hl₂
      have hx : x₁ = x₂ := by simpa using hl₂
      subst hx
      have hq : q₁ = q₂ := e₁.trans e₂.symm
      subst hq
      cases hp : parentPath lg norm s L p x₁ with
      | none => rw [hp] at hr₁ hr₂; rw [hr₁, hr₂]
      | some pp => rw [hp] at hr₁ hr₂; rw [ih pp r₂ hr₁ hr₂]

theorem parentPath_congr {s s' : Store} {fs fs' : FS} (hc : s'.classes = s.classes)
    (ht : ∀ q, isText (fs' q) = isText (fs q)) (p : Path) (t : Text) :
    parentPath lg norm s' fs' p t = parentPath lg norm s fs p t := by
  simp only [parentPath, Store.uriForClass, Store.byClassKey, hc, ht]

/-- validity only looks at the logical texts of the documents in the chain -/
theorem validTab_congr {s s' : Store} {L L' : FS} (hc : s'.classes = s.classes)
    (ht : ∀ q, isText (L' q) = isText (L q)) (p : Path) (t : Tab)
    (hL : ∀ e ∈ t, L' e.1 = L e.1) (h : ValidTab lg norm s L p t) : ValidTab lg norm s' L' p t := by
  induction t generalizing p with
  | nil => exact absurd h (by simp [ValidTab])
  | cons e r ih =>
    obtain ⟨q, x⟩ := e
    simp only [ValidTab] at h ⊢
    obtain ⟨rfl, hl, hr⟩ := h
    refine ⟨rfl, ?_, ?_⟩
    · rw [hL (q, x) List.mem_cons_self]; exact hl
    · rw [parentPath_congr lg norm hc ht]
      cases hp : parentPath lg norm s L q x with
      | none => rw [hp] at hr; exact hr
      | some pp =>
        rw [hp] at hr
        exact ih pp (fun e he => hL e (List.mem_cons_of_mem _ he)) hr

/-! ### the invariant -/

structure Inv (fs : FS) (s : Store) : Prop where
  openedText : ∀ p d, (s.info p).opened = some d → isText (fs p) = true
  tabValid : ∀ p t, (s.info p).tab = some t → ValidTab lg norm s (logical fs s) p t
  openedValid : ∀ p d a, (s.info p).opened = some d → d.annot = some a →
    ValidTab lg norm s (logical fs s) p a.tab
  savedValid : ∀ p d, (s.info p).opened = none → (s.info p).saved = some d →
    fs p = some (.text d.text) ∧ ∀ a, d.annot = some a → ValidTab lg norm s (logical fs s) p a.tab
  classesText : ∀ k pp, s.byClassKey k = some pp → isText (fs pp) = true
  pathOk : ∀ p, (s.info p).filePath = p

theorem Inv.isTextL {fs : FS} {s : Store} (h : Inv lg norm fs s) (q : Path) :
    isText (logical fs s q) = isText (fs q) := by
  rw [logical_eq]
  cases ho : (s.info q).opened with
  | none => rfl
  | some d =>
    show isText (some (Node.text d.text)) = isText (fs q)
    rw [h.openedText q d ho]; rfl

theorem Inv.parentPathL {fs : FS} {s : Store} (h : Inv lg norm fs s) (p : Path) (t : Text) :
    parentPath lg norm s (logical fs s) p t = parentPath lg norm s fs p t :=
  parentPath_congr lg norm rfl (h.isTextL lg norm) p t

/-! ### cache-only updates keep the invariant -/

theorem validTab_of_classes {s s' : Store} (hc : s'.classes = s.classes) (L : FS) (p : Path) (t : Tab)
    (h : ValidTab lg norm s L p t) : ValidTab lg norm s' L p t :=
  validTab_congr lg norm hc (fun _ => rfl) p t (fun _ _ => rfl) h

/-- replace the record of `p` by `i'` (same opened text): the invariant survives if the caches of
    `i'` are valid -/
theorem Inv.update {fs : FS} {s s' : Store} (hinv : Inv lg norm fs s) (hc : s'.classes = s.classes)
    (p : Path) (i' : Info) (hother : ∀ q, q ≠ p → s'.info q = s.info q) (hp : s'.info p = i')
    (hopen : i'.opened.map (·.text) = (s.info p).opened.map (·.text)) (hpath : i'.filePath = p)
    (h1 : ∀ t, i'.tab = some t → ValidTab lg norm s (logical fs s) p t)
    (h2 : ∀ d a, i'.opened = some d → d.annot = some a → ValidTab lg norm s (logical fs s) p a.tab)
    (h3 : ∀ d, i'.opened = none → i'.saved = some d →
      fs p = some (.text d.text) ∧ ∀ a, d.annot = some a → ValidTab lg norm s (logical fs s) p a.tab)
    (hreg : ∀ q, s.byPath q ≠ none → s'.byPath q ≠ none) :
    Inv lg norm fs s' ∧ Same s s' := by
  have hsameOpen : ∀ q, ((s'.info q).opened).map (·.text) = ((s.info q).opened).map (·.text) := by
    intro q
    by_cases e : q = p
    · subst e; rw [hp]; exact hopen
    · rw [hother q e]
  have hL : logical fs s' = logical fs s := by
    funext q
    rw [logical_eq, logical_eq]
    have := hsameOpen q
    cases h₁ : (s'.info q).opened <;> cases h₂ : (s.info q).opened <;> simp_all
  refine ⟨⟨?_, ?_, ?_, ?_, ?_, ?_⟩, ?_⟩
  · intro q d hq
    have := hsameOpen q
    rw [hq] at this
    cases h₂ : (s.info q).opened with
    | none => rw [h₂] at this; simp at this
    | some d₂ => exact hinv.openedText q d₂ h₂
  · intro q t hq
    rw [hL]
    apply validTab_of_classes lg norm hc
    by_cases e : q = p
    · subst e; rw [hp] at hq; exact h1 t hq
    · rw [hother q e] at hq; exact hinv.tabValid q t hq
  · intro q d a hq ha
    rw [hL]
    apply validTab_of_classes lg norm hc
    by_cases e : q = p
    · subst e; rw [hp] at hq; exact h2 d a hq ha
    · rw [hother q e] at hq; exact hinv.openedValid q d a hq ha
  · intro q d hqo hqs
    rw [hL]
    by_cases e : q = p
    · subst e
      rw [hp] at hqo hqs
      obtain ⟨hf, hv⟩ := h3 d hqo hqs
      exact ⟨hf, fun a ha => validTab_of_classes lg norm hc _ _ _ (hv a ha)⟩
    · rw [hother q e] at hqo hqs
      obtain ⟨hf, hv⟩ := hinv.savedValid q d hqo hqs
      exact ⟨hf, fun a ha => validTab_of_classes lg norm hc _ _ _ (hv a ha)⟩
  · intro k pp hk
    apply hinv.classesText k pp
    simpa [Store.byClassKey, hc] using hk
  · intro q
    by_cases e : q = p
    · subst e; rw [hp]; exact hpath
    · rw [hother q e]; exact hinv.pathOk q
  · exact ⟨hc, hsameOpen, hreg⟩

/-! ### `get_document_info` and `get_parsed_document` on a readable file -/

variable (cfg : Cfg)

theorem getInfo_file (fs : FS) (s : Store) (p : Path) (h : fs p ≠ none) :
    ∃ s₁, getInfo cfg fs s (.file p) = .ok (s₁, p, s.info p) ∧ s₁.byPath p = some (s.info p) ∧
      (∀ q, s₁.info q = s.info q) ∧ s₁.classes = s.classes ∧
      (∀ q, s.byPath q ≠ none → s₁.byPath q ≠ none) := by
  simp only [getInfo, keyFor, Res.bind]
  cases hf : fs p with
  | none => exact absurd hf h
  | some nd =>
    simp only
    cases hb : s.byPath p with
    | some i =>
      exact ⟨s, by simp [Store.info, hb], by simp [Store.info, hb], fun _ => rfl, rfl, fun _ hq => hq⟩
    | none =>
      refine ⟨{ s with docs := s.docs ++ [(p, Info.new p)] }, by simp [Store.info, hb], ?_, ?_, rfl, ?_⟩
      · simp only [Store.byPath] at hb ⊢
        rw [lookup_append, hb]
        simp [lookup, Store.info, Store.byPath, hb]
      · intro q
        simp only [Store.info, Store.byPath] at hb ⊢
        rw [lookup_append]
        cases hq : lookup q s.docs with
        | some i => simp
        | none =>
          by_cases e : p = q
          · subst e; simp [lookup]
          · simp [lookup, e]
      · intro q hq
        simp only [Store.byPath] at hq ⊢
        rw [lookup_append]
        cases hq' : lookup q s.docs with
        | some i => simp
        | none => exact absurd hq' hq

theorem Inv.of_info_eq {fs : FS} {s s' : Store} (hinv : Inv lg norm fs s) (hi : ∀ q, s'.info q = s.info q)
    (hc : s'.classes = s.classes) (hreg : ∀ q, s.byPath q ≠ none → s'.byPath q ≠ none) :
    Inv lg norm fs s' ∧ Same s s' := by
  have hp : fs = fs := rfl
  refine Inv.update lg norm hinv hc "" (s.info "") (fun q _ => hi q) (hi "") rfl (hinv.pathOk "")
    (hinv.tabValid "") (hinv.openedValid "") (hinv.savedValid "") hreg

/-- where `annotate_doc` will publish: what the slot says about the record -/
def SlotOk (fs : FS) (s₁ : Store) (p : Path) (slot : Slot) (d : Doc) : Prop :=
  match slot with
  | .opened => ∃ d₀, (s₁.info p).opened = some d₀ ∧ d₀.text = d.text
  | .saved => (s₁.info p).opened = none ∧ fs p = some (.text d.text)
  | .fresh => (s₁.info p).opened = none

theorem SlotOk.same {fs : FS} {s₁ s₂ : Store} {p : Path} {slot : Slot} {d : Doc}
    (h : SlotOk fs s₁ p slot d) (hs : Same s₁ s₂) : SlotOk fs s₂ p slot d := by
  cases slot with
  | opened =>
    obtain ⟨d₀, h₀, ht⟩ := h
    have := hs.opened p
    rw [h₀] at this
    cases h₂ : (s₂.info p).opened with
    | none => rw [h₂] at this; simp at this
    | some d₂ =>
      rw [h₂] at this
      exact ⟨d₂, h₂, by simpa [ht] using this⟩
  | saved => exact ⟨hs.openedNone h.1, h.2⟩
  | fresh => exact hs.openedNone h

theorem getParsed_spec {fs : FS} {s : Store} (hinv : Inv lg norm fs s) (p : Path)
    (hfs : isText (fs p) = true) (cache : Bool) :
    ∃ s₁ slot d, getParsed cfg fs s (.file p) cache = .ok (s₁, p, slot, d) ∧
      Inv lg norm fs s₁ ∧ Same s s₁ ∧ s₁.byPath p ≠ none ∧
      logical fs s p = some (.text d.text) ∧
      (∀ a, d.annot = some a → ValidTab lg norm s (logical fs s) p a.tab) ∧
      SlotOk fs s₁ p slot d := by
  have hne : fs p ≠ none := by intro e; rw [e] at hfs; simp [isText] at hfs
  obtain ⟨s₀, hgi, hreg₀, hinfo₀, hc₀, hr₀⟩ := getInfo_file cfg fs s p hne
  obtain ⟨hinv₀, hsame₀⟩ := Inv.of_info_eq lg norm hinv hinfo₀ hc₀ hr₀
  simp only [getParsed, hgi, Res.bind]
  cases ho : (s.info p).opened with
  | some d =>
    refine ⟨s₀, .opened, d, rfl, hinv₀, hsame₀, by rw [hreg₀]; simp, ?_, ?_, ?_⟩
    · rw [logical_eq, ho]
    · intro a ha; exact hinv.openedValid p d a ho ha
    · exact ⟨d, by rw [hinfo₀, ho], rfl⟩
  | none =>
    simp only
    cases hsv : (s.info p).saved with
    | some d =>
      obtain ⟨hf, hv⟩ := hinv.savedValid p d ho hsv
      refine ⟨s₀, .saved, d, rfl, hinv₀, hsame₀, by rw [hreg₀]; simp, ?_, hv, ?_⟩
      · rw [logical_eq, ho]; exact hf
      · exact ⟨by rw [hinfo₀, ho], hf⟩
    | none =>
      simp only
      -- parse from disk
      have hpath := hinv.pathOk p
      cases hfp : fs p with
      | none => exact absurd hfp hne
      | some nd =>
        cases nd with
        | isDir => rw [hfp] at hfs; simp [isText] at hfs
        | text t0 =>
          simp only [parseDisk, hpath, hfp]
          have hlog : logical fs s p = some (.text t0) := by rw [logical_eq, ho]; exact hfp
          cases cache with
          | false =>
            refine ⟨s₀, .fresh, ⟨t0, none⟩, rfl, hinv₀, hsame₀, by rw [hreg₀]; simp, hlog, ?_, ?_⟩
            · intro a ha; cases ha
            · show (s₀.info p).opened = none
              rw [hinfo₀, ho]
          | true =>
            simp only [if_true]
            have hm := fun q => info_modify hreg₀ (fun i => { i with saved := some (⟨t0, none⟩ : Doc) }) q
            have hup := Inv.update lg norm hinv₀ (s' := s₀.modify p fun i => { i with saved := some ⟨t0, none⟩ })
              rfl p { s.info p with saved := some ⟨t0, none⟩ }
              (fun q e => by rw [hm q]; simp [e])
              (by rw [hm p]; simp)
              (by simp [hinfo₀]) (by simpa using hpath)
              (by intro t ht
                  have := hinv₀.tabValid p t (by rw [hinfo₀]; simpa using ht)
                  exact this)
              (by intro d a hd; rw [ho] at hd; cases hd)
              (by intro d _ hd
                  simp only [Option.some.injEq] at hd
                  subst hd
                  exact ⟨hfp, fun a ha => by cases ha⟩)
              (by intro q hq
                  rw [byPath_modify]
                  by_cases e : p = q
                  · subst e; rw [hreg₀]; simp
                  · simpa [e] using hq)
            refine ⟨_, .saved, ⟨t0, none⟩, rfl, hup.1, hsame₀.trans hup.2, ?_, hlog, ?_, ?_⟩
            · rw [byPath_modify, hreg₀]; simp
            · intro a ha; cases ha
            · refine ⟨?_, hfp⟩
              rw [hm p]; simpa using ho

/-! ### `annotate_doc` -/

theorem validTab_same {fs : FS} {s s' : Store} (h : Same s s') (p : Path) (t : Tab)
    (hv : ValidTab lg norm s (logical fs s) p t) : ValidTab lg norm s' (logical fs s') p t := by
  rw [h.logical fs]
  exact validTab_of_classes lg norm h.classes _ p t hv

theorem parentPath_same {s s' : Store} (h : Same s s') (fs : FS) (p : Path) (t : Text) :
    parentPath lg norm s' fs p t = parentPath lg norm s fs p t :=
  parentPath_congr lg norm h.classes (fun _ => rfl) p t

theorem parentPath_some {s : Store} {fs : FS} {p pp : Path} {t : Text}
    (h : parentPath lg norm s fs p t = some pp) : lg.rank pp < lg.rank p ∧ isText (fs pp) = true := by
  simp only [parentPath] at h
  cases h₁ : lg.parentOf t with
  | none => rw [h₁] at h; cases h
  | some pc =>
    rw [h₁] at h
    simp only at h
    by_cases h₂ : lg.className t = some pc
    · simp [h₂] at h
    · simp only [h₂, if_false] at h
      cases h₃ : s.uriForClass norm pc with
      | none => rw [h₃] at h; cases h
      | some q =>
        rw [h₃] at h
        simp only at h
        by_cases h₄ : (decide (lg.rank q < lg.rank p) && isText (fs q)) = true
        · simp only [h₄, if_true, Option.some.injEq] at h
          subst h
          simpa using h₄
        · simp [h₄] at h

/-- the parent table handed to `annotate_doc` is the right one for the text -/
def PTabOk (s : Store) (L : FS) (p : Path) (t : Text) (ptab : Option Tab) : Prop :=
  match parentPath lg norm s L p t with
  | none => ptab = none
  | some pp => ∃ tb, ptab = some tb ∧ ValidTab lg norm s L pp tb

theorem annotate_spec {fs : FS} {r : Store} (hinv : Inv lg norm fs r) (p : Path) (slot : Slot) (d : Doc)
    (onlyDefs : Bool) (ptab : Option Tab) (hreg : r.byPath p ≠ none)
    (hL : logical fs r p = some (.text d.text)) (hslot : SlotOk fs r p slot d)
    (hpt : PTabOk lg norm r (logical fs r) p d.text ptab) :
    Inv lg norm fs (annotate r p slot d onlyDefs ptab).1 ∧ Same r (annotate r p slot d onlyDefs ptab).1 ∧
    (annotate r p slot d onlyDefs ptab).2.text = d.text ∧
    ∃ an, (annotate r p slot d onlyDefs ptab).2.annot = some an ∧ an.onlyDefs = onlyDefs ∧
      ValidTab lg norm r (logical fs r) p an.tab := by
  obtain ⟨i, hi⟩ : ∃ i, r.byPath p = some i := by
    cases h : r.byPath p with
    | none => exact absurd h hreg
    | some i => exact ⟨i, rfl⟩
  have hinfo : r.info p = i := info_of_some hi
  -- the new chain is valid
  have hvalid : ValidTab lg norm r (logical fs r) p ((p, d.text) :: ptab.getD []) := by
    simp only [ValidTab]
    refine ⟨by first | rfl | trivial, hL, ?_⟩
    simp only [PTabOk] at hpt
    cases hp : parentPath lg norm r (logical fs r) p d.text with
    | none => rw [hp] at hpt; simp [hpt]
    | some pp =>
      rw [hp] at hpt
      obtain ⟨tb, rfl, hv⟩ := hpt
      exact hv
  simp only [annotate, install]
  generalize htab : ((p, d.text) :: ptab.getD [] : Tab) = tab at hvalid ⊢
  generalize hd' : ({ d with annot := some { onlyDefs := onlyDefs, tab := tab } } : Doc) = d'
  have hd't : d'.text = d.text := by rw [← hd']
  have hd'a : d'.annot = some { onlyDefs := onlyDefs, tab := tab } := by rw [← hd']
  have hm := fun q => info_modify hi (fun i : Info => i.installed slot d' tab) q
  have hup := Inv.update lg norm hinv (s' := r.modify p fun i => i.installed slot d' tab) rfl p
    (i.installed slot d' tab)
    (fun q e => by rw [hm q]; simp [e]) (by rw [hm p]; simp)
    (by
      rw [hinfo]
      cases slot with
      | opened =>
        obtain ⟨d₀, h₀, ht⟩ := hslot
        rw [hinfo] at h₀
        simp [Info.installed, h₀, ht, hd't]
      | saved => simp [Info.installed]
      | fresh => simp [Info.installed])
    (by simpa [hinfo, Info.installed] using hinv.pathOk p)
    (by intro t ht; simp only [Info.installed, Option.some.injEq] at ht; subst ht; exact hvalid)
    (by
      intro dd a hdd ha
      cases slot with
      | opened =>
        simp only [Info.installed, if_true, Option.some.injEq] at hdd
        subst hdd
        rw [hd'a] at ha
        simp only [Option.some.injEq] at ha
        subst ha
        exact hvalid
      | saved =>
        simp only [Info.installed, reduceCtorEq, if_false] at hdd
        exact hinv.openedValid p dd a (by rw [hinfo]; exact hdd) ha
      | fresh =>
        simp only [Info.installed, reduceCtorEq, if_false] at hdd
        exact hinv.openedValid p dd a (by rw [hinfo]; exact hdd) ha)
    (by
      intro dd hno hdd
      cases slot with
      | opened => simp [Info.installed] at hno
      | saved =>
        simp only [Info.installed, if_true, Option.some.injEq] at hdd
        subst hdd
        refine ⟨by rw [hd't]; exact hslot.2, ?_⟩
        intro a ha
        rw [hd'a] at ha
        simp only [Option.some.injEq] at ha
        subst ha
        exact hvalid
      | fresh =>
        simp only [Info.installed, reduceCtorEq, if_false] at hno hdd
        exact hinv.savedValid p dd (by rw [hinfo]; exact hno) (by rw [hinfo]; exact hdd))
    (by
      intro q hq
      rw [byPath_modify]
      by_cases e : p = q
      · subst e; rw [hi]; simp
      · simpa [e] using hq)
  exact ⟨hup.1, hup.2, by first | trivial | exact hd't, ⟨{ onlyDefs := onlyDefs, tab := tab }, by first | rfl | exact hd'a, rfl, hvalid⟩⟩

/-! ### the analysis -/

/-- what an analysis step promises: the invariant, an unchanged logical workspace, and a result
    that is annotated with the valid chain -/
def AnOk (fs : FS) (s : Store) (p : Path) (r : Store × Option Doc) : Prop :=
  Inv lg norm fs r.1 ∧ Same s r.1 ∧
    ∃ d a, r.2 = some d ∧ d.annot = some a ∧ ValidTab lg norm s (logical fs s) p a.tab ∧
      logical fs s p = some (.text d.text)

theorem tabVia_spec {fs : FS} {s : Store} (hinv : Inv lg norm fs s) (pp : Path)
    (hfs : isText (fs pp) = true) (an : Store → Path → Store × Option Doc)
    (han : ∀ s₁, Inv lg norm fs s₁ → AnOk lg norm fs s₁ pp (an s₁ pp)) :
    ∃ t, (tabVia an cfg fs s pp).2 = some t ∧ Inv lg norm fs (tabVia an cfg fs s pp).1 ∧
      Same s (tabVia an cfg fs s pp).1 ∧ ValidTab lg norm s (logical fs s) pp t := by
  have hne : fs pp ≠ none := by intro e; rw [e] at hfs; simp [isText] at hfs
  obtain ⟨s₀, hgi, hreg₀, hinfo₀, hc₀, hr₀⟩ := getInfo_file cfg fs s pp hne
  obtain ⟨hinv₀, hsame₀⟩ := Inv.of_info_eq lg norm hinv hinfo₀ hc₀ hr₀
  simp only [tabVia, hgi]
  cases ht : (s.info pp).tab with
  | some t =>
    exact ⟨t, rfl, hinv₀, hsame₀, hinv.tabValid pp t ht⟩
  | none =>
    simp only
    obtain ⟨hi, hs, d, a, hd, ha, hv, _⟩ := han s₀ hinv₀
    refine ⟨a.tab, by rw [hd]; simp [ha], hi, hsame₀.trans hs, ?_⟩
    have := validTab_same lg norm (fs := fs) hsame₀ pp a.tab
    -- transport back along `Same s s₀`
    rw [hsame₀.logical fs] at hv
    exact validTab_of_classes lg norm (hc₀ ▸ rfl : s.classes = s₀.classes) _ pp a.tab hv

theorem cachedFor_true (d : Doc) : d.cachedFor true = d.annot.isSome := by
  simp only [Doc.cachedFor]
  cases d.annot <;> simp

/-- after the parent table has been fetched (store `r`), annotating finishes the analysis -/
theorem annotate_anok {fs : FS} {s r : Store} (hinvr : Inv lg norm fs r) (hsr : Same s r) (p : Path)
    (slot : Slot) (d : Doc) (onlyDefs : Bool) (ptab : Option Tab) (hreg : r.byPath p ≠ none)
    (hL : logical fs s p = some (.text d.text)) (hslot : SlotOk fs r p slot d)
    (hpt : PTabOk lg norm r (logical fs r) p d.text ptab) :
    AnOk lg norm fs s p ((annotate r p slot d onlyDefs ptab).1, some (annotate r p slot d onlyDefs ptab).2) ∧
    ∃ an, (annotate r p slot d onlyDefs ptab).2.annot = some an ∧ an.onlyDefs = onlyDefs := by
  have hLr : logical fs r p = some (.text d.text) := by rw [hsr.logical fs]; exact hL
  obtain ⟨hi, hs, ht, an, han, hod, hv⟩ := annotate_spec lg norm hinvr p slot d onlyDefs ptab hreg hLr hslot hpt
  refine ⟨⟨hi, hsr.trans hs, _, an, rfl, han, ?_, by rw [ht]; exact hL⟩, an, han, hod⟩
  rw [hsr.logical fs] at hv
  exact validTab_of_classes lg norm (hsr.classes ▸ rfl : s.classes = r.classes) _ p an.tab hv

theorem analyzeDefs_spec {fs : FS} (fuel : Nat) : ∀ (s : Store) (p : Path) (cache : Bool),
    Inv lg norm fs s → isText (fs p) = true → lg.rank p < fuel →
    AnOk lg norm fs s p (analyzeDefs cfg lg norm fs fuel s p cache) := by
  induction fuel with
  | zero => intro s p cache _ _ h; exact absurd h (Nat.not_lt_zero _)
  | succ fuel ih =>
    intro s p cache hinv hfs hrank
    obtain ⟨s₁, slot, d, hgp, hinv₁, hsame₁, hreg₁, hL, hva, hslot⟩ :=
      getParsed_spec lg norm cfg hinv p hfs cache
    simp only [analyzeDefs, hgp]
    rw [cachedFor_true]
    cases hann : d.annot with
    | some a =>
      simp only [Option.isSome_some, if_true]
      exact ⟨hinv₁, hsame₁, d, a, rfl, hann, hva a hann, hL⟩
    | none =>
      simp only [Option.isSome_none, Bool.false_eq_true, if_false]
      cases hpp : parentPath lg norm s₁ fs p d.text with
      | none =>
        simp only
        refine (annotate_anok lg norm hinv₁ hsame₁ p slot d true none hreg₁ hL hslot ?_).1
        simp only [PTabOk, hinv₁.parentPathL lg norm, hpp]
      | some pp =>
        simp only
        obtain ⟨hr, hft⟩ := parentPath_some lg norm hpp
        obtain ⟨t, ht, hi, hs, hv⟩ := tabVia_spec lg norm cfg hinv₁ pp hft
          (fun s q => analyzeDefs cfg lg norm fs fuel s q false)
          (fun s₂ h₂ => ih s₂ pp false h₂ hft (by omega))
        refine (annotate_anok lg norm hi (hsame₁.trans hs) p slot d true _ (hs.reg p hreg₁) hL
          (hslot.same hs) ?_).1
        simp only [PTabOk, hi.parentPathL lg norm, parentPath_same lg norm hs, hpp, ht]
        exact ⟨t, rfl, validTab_same lg norm hs pp t hv⟩

theorem tabOfPath_spec {fs : FS} {s : Store} (hinv : Inv lg norm fs s) (pp : Path)
    (hfs : isText (fs pp) = true) :
    ∃ t, (tabOfPath cfg lg norm fs s pp).2 = some t ∧ Inv lg norm fs (tabOfPath cfg lg norm fs s pp).1 ∧
      Same s (tabOfPath cfg lg norm fs s pp).1 ∧ ValidTab lg norm s (logical fs s) pp t :=
  tabVia_spec lg norm cfg hinv pp hfs _
    (fun s₁ h₁ => analyzeDefs_spec lg norm cfg (lg.rank pp + 1) s₁ pp false h₁ hfs (Nat.lt_succ_self _))

theorem consult_spec {fs : FS} {s : Store} (hinv : Inv lg norm fs s) (p : Path) (cls : String) :
    Inv lg norm fs (consult cfg lg norm fs p s cls) ∧ Same s (consult cfg lg norm fs p s cls) := by
  simp only [consult]
  cases hu : s.uriForClass norm cls with
  | none => exact ⟨hinv, Same.refl _⟩
  | some pp =>
    simp only
    by_cases e : pp = p
    · simp [e, hinv, Same.refl]
    · simp only [e, if_false]
      have hft := hinv.classesText (norm cls) pp (by simpa [Store.uriForClass] using hu)
      obtain ⟨t, _, hi, hs, _⟩ := tabOfPath_spec lg norm cfg hinv pp hft
      exact ⟨hi, hs⟩

theorem consults_spec {fs : FS} (p : Path) (cs : List String) : ∀ (s : Store), Inv lg norm fs s →
    Inv lg norm fs (cs.foldl (consult cfg lg norm fs p) s) ∧ Same s (cs.foldl (consult cfg lg norm fs p) s) := by
  induction cs with
  | nil => intro s h; exact ⟨h, Same.refl _⟩
  | cons c cs ih =>
    intro s h
    obtain ⟨h₁, s₁⟩ := consult_spec lg norm cfg h p c
    obtain ⟨h₂, s₂⟩ := ih _ h₁
    exact ⟨h₂, s₁.trans s₂⟩

theorem AnOk.mono {fs : FS} {s : Store} {p : Path} {r : Store × Option Doc} {s' : Store}
    (h : AnOk lg norm fs s p r) (hi : Inv lg norm fs s') (hs : Same r.1 s') : AnOk lg norm fs s p (s', r.2) :=
  ⟨hi, h.2.1.trans hs, h.2.2⟩

theorem analyzeFull_spec {fs : FS} {s : Store} (hinv : Inv lg norm fs s) (p : Path)
    (hfs : isText (fs p) = true) (cache : Bool) :
    AnOk lg norm fs s p (analyzeFull cfg lg norm fs s p cache) := by
  obtain ⟨s₁, slot, d, hgp, hinv₁, hsame₁, hreg₁, hL, hva, hslot⟩ :=
    getParsed_spec lg norm cfg hinv p hfs cache
  simp only [analyzeFull, hgp]
  by_cases hc : d.cachedFor false = true
  · simp only [hc, if_true]
    cases hann : d.annot with
    | none => simp [Doc.cachedFor, hann] at hc
    | some a => exact ⟨hinv₁, hsame₁, d, a, rfl, hann, hva a hann, hL⟩
  · simp only [hc]
    cases hpp : parentPath lg norm s₁ fs p d.text with
    | none =>
      simp only
      have h := (annotate_anok lg norm hinv₁ hsame₁ p slot d false none hreg₁ hL hslot
        (by simp only [PTabOk, hinv₁.parentPathL lg norm, hpp])).1
      obtain ⟨hi, hs⟩ := consults_spec lg norm cfg p (lg.refs d.text) _ h.1
      exact h.mono lg norm hi hs
    | some pp =>
      simp only
      obtain ⟨hr, hft⟩ := parentPath_some lg norm hpp
      obtain ⟨t, ht, hi, hs, hv⟩ := tabOfPath_spec lg norm cfg hinv₁ pp hft
      have h := (annotate_anok lg norm hi (hsame₁.trans hs) p slot d false
        (tabOfPath cfg lg norm fs s₁ pp).2 (hs.reg p hreg₁) hL (hslot.same hs)
        (by
          simp only [PTabOk, hi.parentPathL lg norm, parentPath_same lg norm hs, hpp, ht]
          exact ⟨t, rfl, validTab_same lg norm hs pp t hv⟩)).1
      obtain ⟨hi₂, hs₂⟩ := consults_spec lg norm cfg p (lg.refs d.text) _ h.1
      exact h.mono lg norm hi₂ hs₂

/-! ### answers -/

/-- what a correct answer to `r` is, over the logical workspace `L` (class index of `s`) -/
def AnsOk (s : Store) (L : FS) : Req → Ans → Prop
  | .symbols p, a => ∃ t, a = .text t ∧ L p = some (.text t)
  | .analysis p, a => ∃ t, a = .tab t ∧ ValidTab lg norm s L p t
  | .entity _ cls, a =>
    match s.uriForClass norm cls with
    | none => a = .nothing
    | some pp => ∃ t, a = .tab t ∧ ValidTab lg norm s L pp t
  | .table cls, a =>
    match s.uriForClass norm cls with
    | none => a = .nothing
    | some pp => ∃ t, a = .tab t ∧ ValidTab lg norm s L pp t

theorem ansOk_unique (s : Store) (L : FS) (r : Req) (a₁ a₂ : Ans)
    (h₁ : AnsOk lg norm s L r a₁) (h₂ : AnsOk lg norm s L r a₂) : a₁ = a₂ := by
  cases r with
  | symbols p =>
    obtain ⟨t₁, rfl, l₁⟩ := h₁
    obtain ⟨t₂, rfl, l₂⟩ := h₂
    rw [l₁] at l₂
    simp only [Option.some.injEq, Node.text.injEq] at l₂
    rw [l₂]
  | analysis p =>
    obtain ⟨t₁, rfl, v₁⟩ := h₁
    obtain ⟨t₂, rfl, v₂⟩ := h₂
    rw [validTab_unique lg norm s L p t₁ t₂ v₁ v₂]
  | entity p cls =>
    simp only [AnsOk] at h₁ h₂
    cases hu : s.uriForClass norm cls with
    | none => rw [hu] at h₁ h₂; rw [h₁, h₂]
    | some pp =>
      rw [hu] at h₁ h₂
      obtain ⟨t₁, rfl, v₁⟩ := h₁
      obtain ⟨t₂, rfl, v₂⟩ := h₂
      rw [validTab_unique lg norm s L pp t₁ t₂ v₁ v₂]
  | table cls =>
    simp only [AnsOk] at h₁ h₂
    cases hu : s.uriForClass norm cls with
    | none => rw [hu] at h₁ h₂; rw [h₁, h₂]
    | some pp =>
      rw [hu] at h₁ h₂
      obtain ⟨t₁, rfl, v₁⟩ := h₁
      obtain ⟨t₂, rfl, v₂⟩ := h₂
      rw [validTab_unique lg norm s L pp t₁ t₂ v₁ v₂]

theorem ansOk_of_classes {s s' : Store} (hc : s'.classes = s.classes) (L : FS) (r : Req) (a : Ans)
    (h : AnsOk lg norm s L r a) : AnsOk lg norm s' L r a := by
  have hu : ∀ c, s'.uriForClass norm c = s.uriForClass norm c := by
    intro c; simp [Store.uriForClass, Store.byClassKey, hc]
  cases r with
  | symbols p => exact h
  | analysis p =>
    obtain ⟨t, e, v⟩ := h
    exact ⟨t, e, validTab_of_classes lg norm hc L p t v⟩
  | entity p cls =>
    simp only [AnsOk, hu] at h ⊢
    cases hq : s.uriForClass norm cls with
    | none => rw [hq] at h; exact h
    | some pp =>
      rw [hq] at h
      obtain ⟨t, e, v⟩ := h
      exact ⟨t, e, validTab_of_classes lg norm hc L pp t v⟩
  | table cls =>
    simp only [AnsOk, hu] at h ⊢
    cases hq : s.uriForClass norm cls with
    | none => rw [hq] at h; exact h
    | some pp =>
      rw [hq] at h
      obtain ⟨t, e, v⟩ := h
      exact ⟨t, e, validTab_of_classes lg norm hc L pp t v⟩

/-- the request is about a readable file -/
def reqOk (fs : FS) : Req → Bool
  | .symbols p => isText (fs p)
  | .analysis p => isText (fs p)
  | .entity p _ => isText (fs p)
  | .table _ => true

theorem uriForClass_same {s s' : Store} (h : Same s s') (c : String) :
    s'.uriForClass norm c = s.uriForClass norm c := by
  simp [Store.uriForClass, Store.byClassKey, h.classes]

theorem validTab_back {fs : FS} {s s' : Store} (h : Same s s') (p : Path) (t : Tab)
    (hv : ValidTab lg norm s' (logical fs s') p t) : ValidTab lg norm s (logical fs s) p t := by
  rw [h.logical fs] at hv
  exact validTab_of_classes lg norm (h.classes ▸ rfl : s.classes = s'.classes) _ p t hv

theorem answer_spec {fs : FS} {s : Store} (hinv : Inv lg norm fs s) (r : Req) (hr : reqOk fs r = true) :
    AnsOk lg norm s (logical fs s) r (answer cfg lg norm fs s r).1 ∧
    Inv lg norm fs (answer cfg lg norm fs s r).2 ∧ Same s (answer cfg lg norm fs s r).2 := by
  cases r with
  | symbols p =>
    obtain ⟨s₁, slot, d, hgp, hinv₁, hsame₁, _, hL, _, _⟩ := getParsed_spec lg norm cfg hinv p hr true
    simp only [answer, docSymbols, hgp, Res.bind]
    exact ⟨⟨d.text, rfl, hL⟩, hinv₁, hsame₁⟩
  | analysis p =>
    obtain ⟨hi, hs, d, a, hd, ha, hv, _⟩ := analyzeFull_spec lg norm cfg hinv p hr true
    simp only [answer, hd, Option.bind_some, ha]
    exact ⟨⟨a.tab, rfl, hv⟩, hi, hs⟩
  | entity p cls =>
    obtain ⟨hi, hs, d, a, hd, ha, hv, _⟩ := analyzeFull_spec lg norm cfg hinv p hr true
    simp only [answer, AnsOk, uriForClass_same norm hs]
    cases hu : s.uriForClass norm cls with
    | none => exact ⟨rfl, hi, hs⟩
    | some pp =>
      simp only
      by_cases e : pp = p
      · subst e
        simp only [if_true, hd, Option.bind_some, ha]
        exact ⟨⟨a.tab, rfl, hv⟩, hi, hs⟩
      · simp only [e, if_false]
        have hft := hinv.classesText (norm cls) pp (by simpa [Store.uriForClass] using hu)
        obtain ⟨t, ht, hi₂, hs₂, hv₂⟩ := tabOfPath_spec lg norm cfg hi pp hft
        simp only [ht]
        exact ⟨⟨t, rfl, validTab_back lg norm hs pp t hv₂⟩, hi₂, hs.trans hs₂⟩
  | table cls =>
    simp only [answer, AnsOk]
    cases hu : s.uriForClass norm cls with
    | none => exact ⟨rfl, hinv, Same.refl _⟩
    | some pp =>
      simp only
      have hft := hinv.classesText (norm cls) pp (by simpa [Store.uriForClass] using hu)
      obtain ⟨t, ht, hi₂, hs₂, hv₂⟩ := tabOfPath_spec lg norm cfg hinv pp hft
      simp only [ht]
      exact ⟨⟨t, rfl, hv₂⟩, hi₂, hs₂⟩

/-! ### guarded events -/

theorem lookup_mem {β : Type} {k : String} {l : List (String × β)} {v : β} (h : lookup k l = some v) :
    (k, v) ∈ l := by
  induction l with
  | nil => simp [lookup] at h
  | cons a l ih =>
    obtain ⟨k', v'⟩ := a
    simp only [lookup] at h
    by_cases e : k' = k
    · simp only [e, if_true, Option.some.injEq] at h
      subst h; subst e
      exact List.mem_cons_self
    · simp only [e, if_false] at h
      exact List.mem_cons_of_mem _ (ih h)

/-- no other record caches anything derived from `p`: none of their chains mentions `p` -/
theorem not_dependedOn {s : Store} {p q : Path} (h : dependedOn s p = false) (hq : q ≠ p)
    (t : Tab) (ht : t ∈ (s.info q).tabs) : ∀ e ∈ t, e.1 ≠ p := by
  intro e he hep
  cases hb : s.byPath q with
  | none =>
    rw [info_of_none hb] at ht
    simp [Info.tabs, Info.new] at ht
  | some i =>
    rw [info_of_some hb] at ht
    have hmem : (q, i) ∈ s.docs := lookup_mem hb
    simp only [dependedOn, List.any_eq_false] at h
    have := h (q, i) hmem
    simp only [Bool.and_eq_true, bne_iff_ne, ne_eq, List.any_eq_true, beq_iff_eq, not_and,
      not_exists] at this
    exact this hq t ht e he hep

theorem tab_mem_tabs {i : Info} {t : Tab} (h : i.tab = some t) : t ∈ i.tabs := by
  simp [Info.tabs, h]

theorem opened_mem_tabs {i : Info} {d : Doc} {a : Annot} (h : i.opened = some d) (ha : d.annot = some a) :
    a.tab ∈ i.tabs := by
  simp [Info.tabs, h, ha]

theorem saved_mem_tabs {i : Info} {d : Doc} {a : Annot} (h : i.saved = some d) (ha : d.annot = some a) :
    a.tab ∈ i.tabs := by
  simp [Info.tabs, h, ha]

/-- a document event resets the record of `p` (and possibly rewrites the file): the invariant
    survives when no other record depends on `p` -/
theorem Inv.reset {fs fs' : FS} {s s' : Store} (hinv : Inv lg norm fs s) (p : Path)
    (hc : s'.classes = s.classes) (hfs : ∀ q, q ≠ p → fs' q = fs q)
    (hfsp : isText (fs' p) = true) (hfsp₀ : isText (fs p) = true)
    (hother : ∀ q, q ≠ p → s'.info q = s.info q) (hpath : (s'.info p).filePath = p)
    (htab : (s'.info p).tab = none) (hopened : ∀ d, (s'.info p).opened = some d → d.annot = none)
    (hsaved : (s'.info p).opened = none → (s'.info p).saved = none)
    (hdep : dependedOn s p = false) : Inv lg norm fs' s' := by
  have hL : ∀ q, q ≠ p → logical fs' s' q = logical fs s q := by
    intro q hq
    rw [logical_eq, logical_eq, hother q hq, hfs q hq]
  have hT : ∀ q, isText (logical fs' s' q) = isText (logical fs s q) := by
    intro q
    by_cases e : q = p
    · subst e
      rw [hinv.isTextL lg norm, hfsp₀, logical_eq]
      cases (s'.info q).opened with
      | none => exact hfsp
      | some d => rfl
    · rw [hL q e]
  have hmove : ∀ q, q ≠ p → ∀ t, t ∈ (s.info q).tabs → ValidTab lg norm s (logical fs s) q t →
      ValidTab lg norm s' (logical fs' s') q t := by
    intro q hq t ht hv
    apply validTab_congr lg norm hc hT q t _ hv
    intro e he
    exact hL e.1 (not_dependedOn hdep hq t ht e he)
  refine ⟨?_, ?_, ?_, ?_, ?_, ?_⟩
  · intro q d hq
    by_cases e : q = p
    · subst e; exact hfsp
    · rw [hother q e] at hq; rw [hfs q e]; exact hinv.openedText q d hq
  · intro q t hq
    by_cases e : q = p
    · subst e; rw [htab] at hq; cases hq
    · rw [hother q e] at hq
      exact hmove q e t (tab_mem_tabs hq) (hinv.tabValid q t hq)
  · intro q d a hq ha
    by_cases e : q = p
    · subst e; rw [hopened d hq] at ha; cases ha
    · rw [hother q e] at hq
      exact hmove q e a.tab (opened_mem_tabs hq ha) (hinv.openedValid q d a hq ha)
  · intro q d hqo hqs
    by_cases e : q = p
    · subst e; rw [hsaved hqo] at hqs; cases hqs
    · rw [hother q e] at hqo hqs
      obtain ⟨hf, hv⟩ := hinv.savedValid q d hqo hqs
      exact ⟨by rw [hfs q e]; exact hf, fun a ha => hmove q e a.tab (saved_mem_tabs hqs ha) (hv a ha)⟩
  · intro k pp hk
    by_cases e : pp = p
    · subst e; exact hfsp
    · rw [hfs pp e]
      exact hinv.classesText k pp (by simpa [Store.byClassKey, hc] using hk)
  · intro q
    by_cases e : q = p
    · subst e; exact hpath
    · rw [hother q e]; exact hinv.pathOk q

theorem isText_ne_none {fs : FS} {p : Path} (h : isText (fs p) = true) : fs p ≠ none := by
  intro e; rw [e] at h; simp [isText] at h

/-- every guarded event keeps the invariant (`didClose` must drop the symbol table) -/
theorem evStep_inv (hclose : cfg.closeKeepsTab = false) (w : World) (e : Ev)
    (hinv : Inv lg norm w.fs w.store) (hok : evOk w e = true) :
    Inv lg norm (evStep cfg lg norm w e).1.fs (evStep cfg lg norm w e).1.store := by
  cases e with
  | opened p =>
    simp only [evOk] at hok
    obtain ⟨s₀, hgi, hreg₀, hinfo₀, hc₀, hr₀⟩ := getInfo_file cfg w.fs w.store p (isText_ne_none hok)
    simp only [evStep, opened, hgi, Res.bind, Res.storeOr]
    exact (Inv.of_info_eq lg norm hinv hinfo₀ hc₀ hr₀).1
  | change p t =>
    simp only [evOk, Bool.and_eq_true, Bool.not_eq_true'] at hok
    obtain ⟨hft, hdep⟩ := hok
    obtain ⟨s₀, hgi, hreg₀, hinfo₀, hc₀, hr₀⟩ := getInfo_file cfg w.fs w.store p (isText_ne_none hft)
    simp only [evStep, change, hgi, Res.bind, Res.storeOr]
    have hm := fun q => info_modify hreg₀
      (fun i : Info => { i with opened := some ({ text := t, annot := none } : Doc), tab := none }) q
    apply Inv.reset lg norm hinv p (by exact hc₀) (fun _ _ => rfl) hft hft
    · intro q hq; rw [hm q]; simp [hq, hinfo₀]
    · rw [hm p]; simpa using hinv.pathOk p
    · rw [hm p]; simp
    · intro d hd; rw [hm p] at hd; simp only [if_true, Option.some.injEq] at hd; rw [← hd]
    · intro hno; rw [hm p] at hno; simp at hno
    · exact hdep
  | save p t =>
    simp only [evOk, Bool.and_eq_true, Bool.not_eq_true'] at hok
    obtain ⟨hft, hdep⟩ := hok
    have hset : (w.fs.set p (some (.text t))) p = some (.text t) := by simp [FS.set]
    obtain ⟨s₀, hgi, hreg₀, hinfo₀, hc₀, hr₀⟩ :=
      getInfo_file cfg (w.fs.set p (some (.text t))) w.store p (by rw [hset]; simp)
    simp only [evStep, saved, hgi, Res.bind, Res.storeOr]
    have hm := fun q => info_modify hreg₀
      (fun i : Info => { i with opened := none, saved := none, tab := none }) q
    apply Inv.reset lg norm hinv p (by exact hc₀) (fun q hq => by simp [FS.set, hq])
      (by rw [hset]; rfl) hft
    · intro q hq; rw [hm q]; simp [hq, hinfo₀]
    · rw [hm p]; simpa using hinv.pathOk p
    · rw [hm p]; simp
    · intro d hd; rw [hm p] at hd; simp at hd
    · intro _; rw [hm p]; simp
    · exact hdep
  | closed p =>
    simp only [evOk, Bool.and_eq_true, Bool.not_eq_true'] at hok
    obtain ⟨hft, hdep⟩ := hok
    obtain ⟨s₀, hgi, hreg₀, hinfo₀, hc₀, hr₀⟩ := getInfo_file cfg w.fs w.store p (isText_ne_none hft)
    simp only [evStep, closed, hgi, Res.storeOr, hclose]
    have hm := fun q => info_modify hreg₀
      (fun i : Info => { i with opened := none, saved := none, tab := if false = true then i.tab else none }) q
    apply Inv.reset lg norm hinv p (by exact hc₀) (fun _ _ => rfl) hft hft
    · intro q hq; rw [hm q]; simp [hq, hinfo₀]
    · rw [hm p]; simpa using hinv.pathOk p
    · rw [hm p]; simp
    · intro d hd; rw [hm p] at hd; simp at hd
    · intro _; rw [hm p]; simp
    · exact hdep
  | ask r =>
    have hr : reqOk w.fs r = true := by
      cases r <;> simp_all [evOk, reqOk]
    simp only [evStep]
    exact (answer_spec lg norm cfg hinv r hr).2.1

theorem evRun_inv (hclose : cfg.closeKeepsTab = false) (evs : List Ev) : ∀ (w : World),
    Inv lg norm w.fs w.store → guardOk cfg lg norm w evs = true →
    Inv lg norm (evRun cfg lg norm w evs).fs (evRun cfg lg norm w evs).store := by
  induction evs with
  | nil => intro w h _; exact h
  | cons e evs ih =>
    intro w h hg
    simp only [guardOk, Bool.and_eq_true] at hg
    simp only [evRun, List.foldl_cons]
    exact ih _ (evStep_inv lg norm cfg hclose w e h hg.1) hg.2

/-- a server that has just started satisfies the invariant -/
theorem inv_of_clean {fs : FS} {s : Store}
    (hclean : ∀ p i, s.byPath p = some i → i.opened = none ∧ i.saved = none ∧ i.tab = none ∧ i.filePath = p)
    (hcls : ∀ k pp, s.byClassKey k = some pp → isText (fs pp) = true) : Inv lg norm fs s := by
  have hall : ∀ p, (s.info p).opened = none ∧ (s.info p).saved = none ∧ (s.info p).tab = none ∧
      (s.info p).filePath = p := by
    intro p
    cases hb : s.byPath p with
    | none => rw [info_of_none hb]; simp [Info.new]
    | some i => rw [info_of_some hb]; exact hclean p i hb
  refine ⟨?_, ?_, ?_, ?_, hcls, fun p => (hall p).2.2.2⟩
  · intro p d h; rw [(hall p).1] at h; cases h
  · intro p t h; rw [(hall p).2.2.1] at h; cases h
  · intro p d a h; rw [(hall p).1] at h; cases h
  · intro p d _ h; rw [(hall p).2.1] at h; cases h

end
end Gold.Doc
