import GoldModel.Lemmas.EntityTreeQueries
/-!
Member hierarchy of C13: on a tree that `Represents` an acyclic set of files, the level by
level walks of `type_hierarchy_service` terminate and find exactly the nearest
declarations up / down the declared forest.
-/
set_option linter.unusedSectionVars false
namespace Gold.Tree

variable {α : Type} [DecidableEq α]

namespace Spec

/-- the class named `nm` declares `m` itself (then `d` is that class), or the nearest one above does -/
def AtOrAbove (norm : α → α) (fs : List (FileInfo α)) (m nm d : α) : Prop :=
  ∃ g, classFile norm fs nm = some g ∧
    ((declares norm g m = true ∧ d = g.cls) ∨ (declares norm g m = false ∧ NearestUp norm fs m g.cls d))

def AtOrBelow (norm : α → α) (fs : List (FileInfo α)) (m nm d : α) : Prop :=
  ∃ g, classFile norm fs nm = some g ∧
    ((declares norm g m = true ∧ d = g.cls) ∨ (declares norm g m = false ∧ NearestDown norm fs m g.cls d))

theorem nearestUp_iff (norm : α → α) (fs : List (FileInfo α)) (m c d : α) :
    NearestUp norm fs m c d ↔ ∃ p, parentOf norm fs c = some p ∧ AtOrAbove norm fs m p d := by
  constructor
  · intro h
    cases h with
    | here h1 h2 h3 => exact ⟨_, h1, _, h2, Or.inl ⟨h3, rfl⟩⟩
    | up h1 h2 h3 h4 => exact ⟨_, h1, _, h2, Or.inr ⟨h3, h4⟩⟩
  · rintro ⟨p, h1, g, h2, h3 | h3⟩
    · rw [h3.2]; exact NearestUp.here h1 h2 h3.1
    · exact NearestUp.up h1 h2 h3.1 h3.2

theorem atOrAbove_congr (norm : α → α) (fs : List (FileInfo α)) (m : α) {a b : α} (h : norm a = norm b) (d : α) :
    AtOrAbove norm fs m a d ↔ AtOrAbove norm fs m b d := by
  simp only [AtOrAbove, classFile_congr norm fs h]

theorem atOrBelow_congr (norm : α → α) (fs : List (FileInfo α)) (m : α) {a b : α} (h : norm a = norm b) (d : α) :
    AtOrBelow norm fs m a d ↔ AtOrBelow norm fs m b d := by
  simp only [AtOrBelow, classFile_congr norm fs h]

theorem nearestDown_iff {norm : α → α} {fs : List (FileInfo α)} (hk : KeysInj norm fs) (m c d : α) :
    NearestDown norm fs m c d ↔ ∃ g ∈ fs, declaresParent norm c g = true ∧ AtOrBelow norm fs m g.cls d := by
  constructor
  · intro h
    cases h with
    | here h1 h2 h3 => exact ⟨_, h1, h2, _, classFile_of_mem hk h1 rfl, Or.inl ⟨h3, rfl⟩⟩
    | down h1 h2 h3 h4 => exact ⟨_, h1, h2, _, classFile_of_mem hk h1 rfl, Or.inr ⟨h3, h4⟩⟩
  · rintro ⟨g, hg, h2, g', h3, h4⟩
    rw [classFile_of_mem hk hg rfl] at h3
    cases h3
    rcases h4 with h4 | h4
    · rw [h4.2]; exact NearestDown.here hg h2 h4.1
    · exact NearestDown.down hg h2 h4.1 h4.2

end Spec

/-! ### upwards -/

theorem memberUp_spec {norm : α → α} {fs : List (FileInfo α)} {t : Tree α} (hk : KeysInj norm fs)
    (R : Represents norm fs t) (m : α) (rank : α → Nat)
    (hrank : ∀ f ∈ fs, ∀ p, f.parent = some p → rank (norm p) < rank (norm f.cls)) :
    ∀ (k n : Nat) (nm : α), t.ids[n]? = some nm → rank (norm nm) < k →
      ∃ r, memberUpFrom norm fs t m k n = some r ∧ ∀ d, r = some d ↔ Spec.AtOrAbove norm fs m nm d := by
  intro k
  induction k with
  | zero => intro n nm _ h; omega
  | succ k ih =>
    intro n nm hn hr
    have hmap := R.tree.mall n nm hn
    cases hcf : classFile norm fs nm with
    | none =>
      refine ⟨none, by simp [memberUpFrom, hn, hcf], ?_⟩
      intro d; simp [Spec.AtOrAbove, hcf]
    | some g =>
      obtain ⟨hg, hgk⟩ := classFile_mem hcf
      cases hdec : declares norm g m with
      | true =>
        refine ⟨some g.cls, by simp [memberUpFrom, hn, hcf, hdec], ?_⟩
        intro d
        simp only [Spec.AtOrAbove, hcf, Option.some.injEq, exists_eq_left', hdec, true_and]
        constructor
        · intro h; exact Or.inl h.symm
        · rintro (h | h)
          · exact h.symm
          · cases h.1
      | false =>
        obtain ⟨e, he, hd⟩ := R.all g hg
        rw [hgk, hmap] at he
        cases he
        have hpo : Spec.parentOf norm fs g.cls = g.parent := by
          simp [Spec.parentOf, classFile_of_mem hk hg rfl]
        cases hp : g.parent with
        | none =>
          have hpn := R.parent_none hk hg hp (by rw [hgk]; exact hmap)
          refine ⟨none, by simp [memberUpFrom, hn, hcf, hdec, hpn], ?_⟩
          intro d
          simp only [Spec.AtOrAbove, hcf, Option.some.injEq, exists_eq_left', hdec]
          constructor
          · intro h; cases h
          · rintro (h | h)
            · cases h.1
            · obtain ⟨p, h1, _⟩ := (Spec.nearestUp_iff norm fs m g.cls d).mp h.2
              rw [hpo, hp] at h1; cases h1
        | some p =>
          obtain ⟨pe, h1, h2, _⟩ := hd p hp
          obtain ⟨nm', i1, i2, _⟩ := R.item h1
          have hlive := R.tree.live h1
          have hlt : rank (norm nm') < k := by
            have := hrank g hg p hp
            rw [i2]; rw [hgk] at this; omega
          obtain ⟨r, hr1, hr2⟩ := ih pe nm' i1 hlt
          refine ⟨r, by simp [memberUpFrom, hn, hcf, hdec, h2, hlive, hr1], ?_⟩
          intro d
          rw [hr2 d, Spec.atOrAbove_congr norm fs m i2 d]
          simp only [Spec.AtOrAbove, hcf, Option.some.injEq, exists_eq_left', hdec]
          constructor
          · intro h
            refine Or.inr ⟨trivial, (Spec.nearestUp_iff norm fs m g.cls d).mpr ⟨p, by rw [hpo, hp], h⟩⟩
          · rintro (h | h)
            · cases h.1
            · obtain ⟨p', h1', h2'⟩ := (Spec.nearestUp_iff norm fs m g.cls d).mp h.2
              rw [hpo, hp] at h1'; cases h1'
              exact h2'

/-- `type_hierarchy_supertypes` of a member: for all sufficiently large fuel the walk has
    terminated and answers exactly the nearest declaration above -/
theorem memberSupertypes_spec {norm : α → α} {fs : List (FileInfo α)} {t : Tree α} (hk : KeysInj norm fs)
    (R : Represents norm fs t) (rank : α → Nat)
    (hrank : ∀ f ∈ fs, ∀ p, f.parent = some p → rank (norm p) < rank (norm f.cls)) (c m : α) :
    ∃ K, ∀ k, K ≤ k → ∃ l, memberSupertypes norm fs t k c m = .names l ∧
      ∀ d, d ∈ l ↔ Spec.NearestUp norm fs m c d := by
  cases hcf : classFile norm fs c with
  | none =>
    refine ⟨0, fun k _ => ⟨[], ?_, ?_⟩⟩
    · cases hm : t.map (norm c) with
      | none => simp [memberSupertypes, hm]
      | some n =>
        cases hq : t.parent n with
        | none => simp [memberSupertypes, hm, hq]
        | some q =>
          obtain ⟨g, hg, p, _, h2, _⟩ := R.tree.par n q hq
          have := List.find?_eq_none.mp hcf g hg
          simp [R.tree.inj h2 hm] at this
    · intro d
      simp only [List.not_mem_nil, false_iff]
      intro h
      obtain ⟨p, h1, _⟩ := (Spec.nearestUp_iff norm fs m c d).mp h
      simp [Spec.parentOf, hcf] at h1
  | some f =>
    obtain ⟨hf, hfc⟩ := classFile_mem hcf
    obtain ⟨e, he, hd⟩ := R.all f hf
    have hpo : Spec.parentOf norm fs c = f.parent := by simp [Spec.parentOf, hcf]
    cases hp : f.parent with
    | none =>
      have hpn := R.parent_none hk hf hp he
      rw [hfc] at he
      refine ⟨0, fun k _ => ⟨[], by simp [memberSupertypes, he, hpn], ?_⟩⟩
      intro d
      simp only [List.not_mem_nil, false_iff]
      intro h
      obtain ⟨p, h1, _⟩ := (Spec.nearestUp_iff norm fs m c d).mp h
      rw [hpo, hp] at h1; cases h1
    | some p =>
      obtain ⟨pe, h1, h2, _⟩ := hd p hp
      obtain ⟨nm', i1, i2, _⟩ := R.item h1
      have hlive := R.tree.live h1
      rw [hfc] at he
      refine ⟨rank (norm nm') + 1, fun k hk' => ?_⟩
      obtain ⟨r, hr1, hr2⟩ := memberUp_spec hk R m rank hrank k pe nm' i1 (by omega)
      refine ⟨r.toList, by simp [memberSupertypes, he, h2, hlive, hr1], ?_⟩
      intro d
      rw [Spec.nearestUp_iff, hpo, hp]
      simp only [Option.mem_toList, Option.some.injEq, exists_eq_left']
      rw [← Spec.atOrAbove_congr norm fs m i2 d, ← hr2 d]

/-! ### downwards -/

theorem optFlat_some {β γ : Type} (f : γ → Option (List β)) (l : List γ)
    (h : ∀ x ∈ l, ∃ a, f x = some a) :
    ∃ r, optFlat (l.map f) = some r ∧ ∀ y, y ∈ r ↔ ∃ x ∈ l, ∃ a, f x = some a ∧ y ∈ a := by
  induction l with
  | nil => exact ⟨[], rfl, by simp⟩
  | cons x rest ih =>
    obtain ⟨a, ha⟩ := h x List.mem_cons_self
    obtain ⟨r, hr1, hr2⟩ := ih (fun y hy => h y (List.mem_cons_of_mem _ hy))
    refine ⟨a ++ r, by simp [optFlat, ha, hr1], ?_⟩
    intro y
    simp only [List.mem_append, hr2, List.mem_cons, exists_eq_or_imp, ha, Option.some.injEq, exists_eq_left']

/-- the walk over the children of the node of `c`, given that the walk from every child terminates
    with the declarations at or below it -/
theorem down_children {norm : α → α} {fs : List (FileInfo α)} {t : Tree α} (hk : KeysInj norm fs)
    (R : Represents norm fs t) (m : α) (k : Nat) (c : α) (n : Nat) (hm : t.map (norm c) = some n)
    (ih : ∀ (ch : Nat) (nmc : α) (g : FileInfo α), t.ids[ch]? = some nmc → classFile norm fs nmc = some g →
      Spec.declaresParent norm c g = true →
      ∃ l, memberDownFrom norm fs t m k ch = some l ∧ ∀ d, d ∈ l ↔ Spec.AtOrBelow norm fs m nmc d) :
    ∃ l, optFlat ((t.children n).map (memberDownFrom norm fs t m k)) = some l ∧
      ∀ d, d ∈ l ↔ Spec.NearestDown norm fs m c d := by
  -- every child of the node is the node of a file that declares `c` as parent
  have hch : ∀ ch ∈ t.children n, ∃ nmc g, t.ids[ch]? = some nmc ∧ classFile norm fs nmc = some g ∧
      g ∈ fs ∧ Spec.declaresParent norm c g = true ∧ norm nmc = norm g.cls := by
    intro ch hc
    obtain ⟨f, hf, p, h1, h2, h3⟩ := R.tree.chl n ch hc
    obtain ⟨nmc, i1, i2, _⟩ := R.item h2
    have hpc : norm p = norm c := R.tree.inj h3 hm
    exact ⟨nmc, f, i1, classFile_of_mem hk hf i2.symm, hf, by simp [Spec.declaresParent, h1, hpc], i2⟩
  obtain ⟨l, hl1, hl2⟩ := optFlat_some (memberDownFrom norm fs t m k) (t.children n) (by
    intro ch hc
    obtain ⟨nmc, g, i1, i2, _, i4, _⟩ := hch ch hc
    obtain ⟨l, h1, _⟩ := ih ch nmc g i1 i2 i4
    exact ⟨l, h1⟩)
  refine ⟨l, hl1, ?_⟩
  intro d
  rw [hl2, Spec.nearestDown_iff hk]
  constructor
  · rintro ⟨ch, hc, a, ha, hda⟩
    obtain ⟨nmc, g, i1, i2, i3, i4, i5⟩ := hch ch hc
    obtain ⟨l', h1, h2⟩ := ih ch nmc g i1 i2 i4
    rw [ha] at h1; cases h1
    exact ⟨g, i3, i4, (Spec.atOrBelow_congr norm fs m i5 d).mp ((h2 d).mp hda)⟩
  · rintro ⟨g, hg, hdp, hab⟩
    cases hp : g.parent with
    | none => simp [Spec.declaresParent, hp] at hdp
    | some p =>
      have hpc : norm p = norm c := by simpa [Spec.declaresParent, hp] using hdp
      obtain ⟨e, he, hd⟩ := R.all g hg
      obtain ⟨pe, h1, _, h3⟩ := hd p hp
      rw [hpc, hm] at h1; cases h1
      obtain ⟨nme, i1, i2, _⟩ := R.item he
      obtain ⟨l', h1, h2⟩ := ih e nme g i1 (classFile_of_mem hk hg i2.symm) hdp
      exact ⟨e, h3, l', h1, (h2 d).mpr ((Spec.atOrBelow_congr norm fs m i2 d).mpr hab)⟩

theorem memberDown_spec {norm : α → α} {fs : List (FileInfo α)} {t : Tree α} (hk : KeysInj norm fs)
    (R : Represents norm fs t) (m : α) (rank : α → Nat) (B : Nat)
    (hrank : ∀ f ∈ fs, ∀ p, f.parent = some p → rank (norm p) < rank (norm f.cls))
    (hB : ∀ f ∈ fs, rank (norm f.cls) ≤ B) :
    ∀ (k n : Nat) (nm : α) (g : FileInfo α), t.ids[n]? = some nm → classFile norm fs nm = some g →
      B < k + rank (norm nm) →
      ∃ l, memberDownFrom norm fs t m k n = some l ∧ ∀ d, d ∈ l ↔ Spec.AtOrBelow norm fs m nm d := by
  intro k
  induction k with
  | zero =>
    intro n nm g _ hcf h
    obtain ⟨hg, hgk⟩ := classFile_mem hcf
    have := hB g hg
    rw [hgk] at this; omega
  | succ k ih =>
    intro n nm g hn hcf hr
    obtain ⟨hg, hgk⟩ := classFile_mem hcf
    have hmap := R.tree.mall n nm hn
    cases hdec : declares norm g m with
    | true =>
      refine ⟨[g.cls], by simp [memberDownFrom, hn, hcf, hdec], ?_⟩
      intro d
      simp only [Spec.AtOrBelow, hcf, Option.some.injEq, exists_eq_left', hdec, true_and, List.mem_singleton]
      constructor
      · intro h; exact Or.inl h
      · rintro (h | h)
        · exact h
        · cases h.1
    | false =>
      rw [← hgk] at hmap
      obtain ⟨l, h1, h2⟩ := down_children hk R m k g.cls n hmap (by
        intro ch nmc g' i1 i2 i3
        apply ih ch nmc g' i1 i2
        obtain ⟨hg', hgk'⟩ := classFile_mem i2
        cases hp : g'.parent with
        | none => simp [Spec.declaresParent, hp] at i3
        | some p =>
          have hpc : norm p = norm g.cls := by simpa [Spec.declaresParent, hp] using i3
          have := hrank g' hg' p hp
          rw [hpc, hgk, hgk'] at this
          omega)
      refine ⟨l, by simp [memberDownFrom, hn, hcf, hdec, h1], ?_⟩
      intro d
      rw [h2 d]
      simp only [Spec.AtOrBelow, hcf, Option.some.injEq, exists_eq_left', hdec]
      constructor
      · intro h; exact Or.inr ⟨trivial, h⟩
      · rintro (h | h)
        · cases h.1
        · exact h.2

/-- `type_hierarchy_subtypes` of a member: for all sufficiently large fuel the walk has
    terminated and answers exactly the nearest declarations below -/
theorem memberSubtypes_spec {norm : α → α} {fs : List (FileInfo α)} {t : Tree α} (hk : KeysInj norm fs)
    (R : Represents norm fs t) (rank : α → Nat) (B : Nat)
    (hrank : ∀ f ∈ fs, ∀ p, f.parent = some p → rank (norm p) < rank (norm f.cls))
    (hB : ∀ f ∈ fs, rank (norm f.cls) ≤ B) (c m : α) :
    ∀ k, B < k → ∃ l, memberSubtypes norm fs t k c m = .names l ∧
      ∀ d, d ∈ l ↔ Spec.NearestDown norm fs m c d := by
  intro k hkB
  cases hm : t.map (norm c) with
  | none =>
    refine ⟨[], by simp [memberSubtypes, hm], ?_⟩
    intro d
    simp only [List.not_mem_nil, false_iff]
    intro h
    obtain ⟨g, hg, hdp, _⟩ := (Spec.nearestDown_iff hk m c d).mp h
    cases hp : g.parent with
    | none => simp [Spec.declaresParent, hp] at hdp
    | some p =>
      have hpc : norm p = norm c := by simpa [Spec.declaresParent, hp] using hdp
      obtain ⟨e, _, hd⟩ := R.all g hg
      obtain ⟨pe, h1, _⟩ := hd p hp
      rw [hpc, hm] at h1; cases h1
  | some n =>
    obtain ⟨l, h1, h2⟩ := down_children hk R m k c n hm (by
      intro ch nmc g' i1 i2 _
      exact memberDown_spec hk R m rank B hrank hB k ch nmc g' i1 i2 (by omega))
    exact ⟨l, by simp [memberSubtypes, hm, h1], h2⟩

end Gold.Tree
