import GoldModel.Lemmas.LexRender
/-!
Lexing a word list printed with ARBITRARY layout (`Props/C06Text.lean`, `lex_render_layout`): before
every word stands a run of blank chars (space, tab, LF, CR — non-empty except before the first word),
after the last word any run of blanks.  The text may span lines; positions are the ones
`create_range` computes with the `line_pos` the gaps leave behind (`recNl`), which C05 shows are the
true line and column.

* `renderG gws` — the text: `gap₁ spelling₁ gap₂ spelling₂ …`;
* `expectG off lp gws` — the tokens, threading offset and `line_pos` through gaps and spellings;
* `gapsOk first gws` — every gap is blank, every gap but (if `first`) the first is non-empty;
* `skipWs_gap` — `skip_whitespace` consumes exactly the gap; `lexLoop_renderG` — the induction.
-/
namespace Gold.Lex

abbrev Layout := List (List Char × Word)

def renderG : Layout → List Char
  | [] => []
  | (g, w) :: ws => g ++ w.spelling ++ renderG ws

def expectG (off : Nat) (lp : List Nat) : Layout → List Token
  | [] => []
  | (g, w) :: ws =>
    mkToken (recNl off lp g) (off + g.length) w.kind w.value w.spelling.length ::
      expectG (off + g.length + w.spelling.length) (recNl off lp g) ws

def gapsOk : Bool → Layout → Prop
  | _, [] => True
  | first, (g, _) :: ws => (∀ c ∈ g, isBlank c) ∧ (first = true ∨ g ≠ []) ∧ gapsOk false ws

instance gapsOk.dec : (first : Bool) → (gws : Layout) → Decidable (gapsOk first gws)
  | _, [] => isTrue trivial
  | first, (g, _) :: ws =>
    have : Decidable (gapsOk false ws) := gapsOk.dec false ws
    inferInstanceAs (Decidable ((∀ c ∈ g, isBlank c) ∧ (first = true ∨ g ≠ []) ∧ gapsOk false ws))

/-- the longest blank prefix of a text is unique -/
theorem blank_prefix_unique (a b x y : List Char) (h : a ++ x = b ++ y)
    (ha : ∀ c ∈ a, isBlank c) (hb : ∀ c ∈ b, isBlank c)
    (hx : ∀ c r, x = c :: r → ¬ isBlank c) (hy : ∀ c r, y = c :: r → ¬ isBlank c) : a = b ∧ x = y := by
  induction a generalizing b with
  | nil =>
    cases b with
    | nil => exact ⟨rfl, by simpa using h⟩
    | cons d b =>
      exfalso
      simp only [List.nil_append, List.cons_append] at h
      exact hx d _ h (hb d (by simp))
  | cons c a ih =>
    cases b with
    | nil =>
      exfalso
      simp only [List.nil_append, List.cons_append] at h
      exact hy c _ h.symm (ha c (by simp))
    | cons d b =>
      simp only [List.cons_append, List.cons.injEq] at h
      obtain ⟨h1, h2⟩ := h
      obtain ⟨e1, e2⟩ := ih b h2 (fun c hc => ha c (by simp [hc])) (fun c hc => hb c (by simp [hc]))
      exact ⟨by rw [h1, e1], e2⟩

/-- `skip_whitespace` consumes exactly the gap before a non-blank char -/
theorem skipWs_gap (g : List Char) (c : Char) (r : List Char) (off : Nat) (lp : List Nat)
    (hg : ∀ d ∈ g, isBlank d) (hc : ¬ isBlank c) :
    skipWs (g ++ c :: r) off lp = (c :: r, off + g.length, recNl off lp g) := by
  obtain ⟨ws, h1, h2, h3, h4, h5⟩ := skipWs_spec (g ++ c :: r) off lp
  generalize skipWs (g ++ c :: r) off lp = s at *
  obtain ⟨l1, off1, lp1⟩ := s
  simp only at h1 h3 h4 h5
  obtain ⟨e1, e2⟩ := blank_prefix_unique g ws (c :: r) l1 h1 hg h2
    (by intro c' r' e; simp only [List.cons.injEq] at e; rw [← e.1]; exact hc) h5
  subst e1
  rw [← e2, h3, h4]

/-- on a blank rest of the text the loop ends without a token -/
theorem lexLoop_blank (upper : String → String) (tr : List Char) (htr : ∀ c ∈ tr, isBlank c)
    (fuel off : Nat) (lp : List Nat) : lexLoop upper true fuel tr off lp = ([], []) := by
  cases fuel with
  | zero => rfl
  | succ fuel =>
    obtain ⟨ws, h1, _, _, _, h5⟩ := skipWs_spec tr off lp
    simp only [lexLoop]
    generalize skipWs tr off lp = s at *
    obtain ⟨l1, off1, lp1⟩ := s
    simp only at h1 h5 ⊢
    cases l1 with
    | nil => rfl
    | cons c r =>
      exfalso
      exact h5 c r rfl (htr c (by rw [h1]; simp))

theorem renderG_sepOk (gws : Layout) (tr : List Char) (h : gapsOk false gws)
    (htr : ∀ c ∈ tr, isBlank c) : SepOk (renderG gws ++ tr) := by
  cases gws with
  | nil =>
    cases tr with
    | nil => exact Or.inl rfl
    | cons b r => exact Or.inr ⟨b, r, rfl, htr b (by simp)⟩
  | cons gw gws =>
    obtain ⟨g, w⟩ := gw
    obtain ⟨h1, h2, _⟩ := h
    cases g with
    | nil => simp at h2
    | cons b g => exact Or.inr ⟨b, g ++ w.spelling ++ renderG gws ++ tr, by simp [renderG], h1 b (by simp)⟩

theorem lexLoop_renderG (upper : String → String) (gws : Layout) (tr : List Char)
    (hv : ∀ gw ∈ gws, gw.2.Valid upper) (htr : ∀ c ∈ tr, isBlank c) :
    ∀ first fuel off lp, gapsOk first gws → (renderG gws ++ tr).length < fuel →
      lexLoop upper true fuel (renderG gws ++ tr) off lp = (expectG off lp gws, []) := by
  induction gws with
  | nil => intro first fuel off lp _ _; simp [renderG, expectG, lexLoop_blank upper tr htr]
  | cons gw gws ih =>
    intro first fuel off lp hok hf
    obtain ⟨g, w⟩ := gw
    obtain ⟨hg, _, hrest⟩ := hok
    obtain ⟨c, m, hs, hc, hread⟩ := valid_reads upper w (hv (g, w) (by simp))
    have hsep := renderG_sepOk gws tr hrest htr
    cases fuel with
    | zero => omega
    | succ fuel =>
      have hstep := hread (renderG gws ++ tr) (off + g.length) (recNl off lp g) hsep
      have hskip := skipWs_gap g c (m ++ (renderG gws ++ tr)) off lp hg hc
      have htext : renderG ((g, w) :: gws) ++ tr = g ++ c :: (m ++ (renderG gws ++ tr)) := by
        simp [renderG, hs]
      have hlen : (renderG gws ++ tr).length < fuel := by
        rw [htext] at hf
        simp only [List.length_append, List.length_cons] at hf ⊢
        omega
      rw [htext]
      simp only [lexLoop, hskip, hstep]
      rw [ih (fun gw hgw => hv gw (by simp [hgw])) false fuel _ _ hrest hlen]
      simp only [expectG, hs, Nat.add_assoc]

/-! ### positions: `create_range` with the `line_pos` the gaps leave is the true line and column -/

theorem expectG_length (off : Nat) (lp : List Nat) (gws : Layout) : (expectG off lp gws).length = gws.length := by
  induction gws generalizing off lp with
  | nil => rfl
  | cons gw gws ih => obtain ⟨g, w⟩ := gw; simp [expectG, ih]

/-- kinds, values and extents of the expected tokens are those of the words -/
theorem expectG_kv (off : Nat) (lp : List Nat) (gws : Layout) :
    (expectG off lp gws).map (fun t => (t.kind, t.value, t.extent))
      = gws.map (fun gw => (gw.2.kind, gw.2.value, gw.2.spelling.length)) := by
  induction gws generalizing off lp with
  | nil => rfl
  | cons gw gws ih => obtain ⟨g, w⟩ := gw; simp [expectG, ih, mkToken]

/-- every expected token's range ends `value.chars().count()` columns behind its start, on the same line -/
theorem expectG_stop (off : Nat) (lp : List Nat) (gws : Layout) :
    ∀ t ∈ expectG off lp gws, t.stop = ⟨t.start.line, t.start.col + t.value.length⟩ := by
  induction gws generalizing off lp with
  | nil => simp [expectG]
  | cons gw gws ih =>
    obtain ⟨g, w⟩ := gw
    intro t ht
    simp only [expectG, List.mem_cons] at ht
    rcases ht with rfl | ht
    · simp [mkToken, endOf]
    · exact ih _ _ t ht

/-- the spelling of the `i`-th word is what stands at the `i`-th token's offset in the text -/
theorem expectG_at (pre : List Char) (lp : List Nat) (gws : Layout) (tr : List Char) :
    ∀ i (h1 : i < gws.length) (h2 : i < (expectG pre.length lp gws).length),
      ((pre ++ renderG gws ++ tr).drop (expectG pre.length lp gws)[i].off).take gws[i].2.spelling.length
        = gws[i].2.spelling := by
  induction gws generalizing pre lp with
  | nil => intro i h1; simp at h1
  | cons gw gws ih =>
    obtain ⟨g, w⟩ := gw
    intro i h1 h2
    cases i with
    | zero =>
      simp only [expectG, renderG, List.getElem_cons_zero, mkToken]
      rw [show pre ++ (g ++ w.spelling ++ renderG gws) ++ tr = (pre ++ g) ++ (w.spelling ++ (renderG gws ++ tr)) by simp,
        show pre.length + g.length = (pre ++ g).length by simp, List.drop_left, List.take_left]
    | succ i =>
      have := ih (pre ++ g ++ w.spelling) (recNl pre.length lp g) i (by simpa using h1)
        (by simpa [expectG, Nat.add_assoc] using h2)
      simp only [expectG, renderG, List.getElem_cons_succ]
      simp only [List.length_append, List.append_assoc] at this ⊢
      simpa [Nat.add_assoc] using this

/-- the single-space, single-line printer is the layout with gap `[]` before the first word and `[' ']`
    before every other word -/
def spaced : Bool → List Word → Layout
  | _, [] => []
  | first, w :: ws => ((if first then [] else [' ']), w) :: spaced false ws

theorem gapsOk_spaced (first : Bool) (ws : List Word) : gapsOk first (spaced first ws) := by
  induction ws generalizing first with
  | nil => trivial
  | cons w ws ih =>
    refine ⟨?_, ?_, ih false⟩
    · intro c hc; cases first <;> simp_all [isBlank]
    · cases first <;> simp

end Gold.Lex
